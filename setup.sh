#!/bin/sh
# Build the Coq development from clean (full .vo), offline. Generated tables come
# from /repo's current working tree.
set -e
cd "$(dirname "$0")"
/venv/bin/python -c "
import sys; sys.path.insert(0, '.')
from harness import common, gen_tables, gen_src
ctx = common.Ctx('C00', 'quick', 0)
common.make_scratch(ctx)
print(gen_tables.generate(ctx))
print(gen_src.generate(ctx))
"
cd coq
rm -f Makefile Makefile.conf .Makefile.d
find . -name '*.vo' -o -name '*.vok' -o -name '*.vos' -o -name '*.glob' -o -name '.*.aux' | xargs rm -f
rm -rf cases
coq_makefile -f _CoqProject -o Makefile > /dev/null
timeout 3000 make -k -j16
