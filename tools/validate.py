#!/usr/bin/env python3
"""python3-vt tools/validate.py — validate MANIFEST.json and every evidence file against the schemas."""
import json, glob, sys, jsonschema
ok = True
try:
    jsonschema.validate(json.load(open('/verif/MANIFEST.json')), json.load(open('/root/.vp/MANIFEST.schema.json')))
    print('manifest ok')
except Exception as e:
    ok = False; print('MANIFEST', str(e)[:500])
s = json.load(open('/root/.vp/EVIDENCE.schema.json'))
for f in sorted(glob.glob('/verif/evidence/*.json')):
    try:
        jsonschema.validate(json.load(open(f)), s)
    except Exception as e:
        ok = False; print(f, str(e)[:500])
print('evidence ok' if ok else 'PROBLEMS')
sys.exit(0 if ok else 1)
