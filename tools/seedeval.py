#!/usr/bin/env python3
"""tools/seedeval.py <prop> <variant> [--props C01,C02] [--skip-verify]
Confirm a seeded change from /tmp/seedout/<prop>/<variant>.diff in the scratch worktree
/tmp/seedwt/T0 (tests pass with it, demo fails with it and passes without), store it under
/verif/seeded/<prop>-<variant>/, then apply it to /repo, run the given checks (default: the
property's own), and undo it."""
import json, os, shutil, subprocess, sys, time

prop, var = sys.argv[1], sys.argv[2]
prop_id = prop[2:] if prop[:2] in ("W2", "W3", "W4", "W5", "W6", "W7") else prop      # later waves of seeded changes: W2Cxx, W3Cxx
props = [prop_id]
verify = True
for i, a in enumerate(sys.argv[3:]):
    if a == "--props":
        props = sys.argv[3 + i + 1].split(",")
    if a == "--skip-verify":
        verify = False
src = "/tmp/seedout/%s" % prop
dst = "/verif/seeded/%s-%s" % (prop, var)
T0 = "/tmp/seedwt/T0"
PY = "/venv/bin/python"


def sh(cmd, cwd=None, env=None, timeout=3600):
    p = subprocess.run(cmd, shell=True, cwd=cwd, env=env, stdout=subprocess.PIPE, stderr=subprocess.STDOUT, timeout=timeout)
    return p.returncode, p.stdout.decode(errors="replace")


patch = os.path.join(dst, "patch.diff") if os.path.exists(os.path.join(dst, "patch.diff")) else os.path.join(src, var + ".diff")
demo = os.path.join(dst, "demo.py") if os.path.exists(os.path.join(dst, "demo.py")) else os.path.join(src, "demo_%s.py" % var)
ran = []
if verify:
    if not os.path.isdir(T0):
        sh("git -C /repo worktree add --detach %s HEAD" % T0)
    sh("git reset -q --hard && git checkout -q --detach $(git -C /repo rev-parse HEAD) && git reset -q --hard", cwd=T0)
    env = dict(os.environ, MOCLO_ROOT=T0)
    rc0, out0 = sh("%s %s" % (PY, demo), cwd=T0, env=env)
    rc, out = sh("git apply %s || git apply --3way %s" % (patch, patch), cwd=T0)
    if rc != 0:
        print("PATCH DOES NOT APPLY:", out[-800:]); sys.exit(2)
    rct, outt = sh("%s -m pytest -q -p no:cacheprovider --timeout=900 -x 2>&1 | tail -3" % PY, cwd=T0)
    rc1, out1 = sh("%s %s" % (PY, demo), cwd=T0, env=env)
    # regenerate the patch against the current HEAD
    sh("git checkout -- tests/data 2>/dev/null; true", cwd=T0)
    _, newpatch = sh("git diff HEAD", cwd=T0)
    sh("git reset -q --hard", cwd=T0)
    print("demo clean rc=%d | tests: %s | demo changed rc=%d: %s" % (rc0, outt.strip().split("\n")[-1], rc1, out1.strip()[-300:]))
    ok = rc0 == 0 and " passed" in outt and " failed" not in outt and " error" not in outt and rc1 != 0
    if not ok:
        print("NOT CONFIRMED"); sys.exit(3)
    os.makedirs(dst, exist_ok=True)
    open(os.path.join(dst, "patch.diff"), "w").write(newpatch)
    if demo != os.path.join(dst, "demo.py"):
        shutil.copy(demo, os.path.join(dst, "demo.py"))
    ran += ["cd <scratch worktree> && MOCLO_ROOT=. /venv/bin/python demo.py  -> exit 0 on the clean tree",
            "git apply patch.diff && /venv/bin/python -m pytest -q -p no:cacheprovider --timeout=900  -> " + outt.strip().split("\n")[-1],
            "MOCLO_ROOT=. /venv/bin/python demo.py  -> exit %d with the change: %s" % (rc1, out1.strip()[-200:])]
    patch = os.path.join(dst, "patch.diff")
meta_src = {}
try:
    meta_src = json.load(open(os.path.join(src, "meta.json"))).get(var, {})
except Exception:
    pass
# run the checks against a scratch copy of /repo's working tree with the change applied
# (same as `git -C /repo apply` + run + `git -C /repo checkout -- .`, without disturbing other runs)
import tempfile
scratch = tempfile.mkdtemp(prefix="seedrepo-")
sh("rsync -a --exclude .git --exclude build /repo/ %s/" % scratch)
rc, out = sh("git apply %s" % patch, cwd=scratch)
if rc != 0:
    print("cannot apply to the working tree copy:", out); shutil.rmtree(scratch, True); sys.exit(5)
results = {}
try:
    for p in props:
        t = time.time()
        rc, out = sh("./check %s --tier quick" % p, cwd=os.environ.get("SEEDEVAL_VERIF", "/verif"),
                     env=dict(os.environ, MOCLO_REPO=scratch))
        lines = [l for l in out.split("\n") if l.startswith("VIOLATION") or l.startswith("KNOWN") or l.startswith(p)]
        results[p] = {"exit": rc, "lines": lines[:6], "wall_s": round(time.time() - t, 1)}
        print(p, "exit", rc, "|", " || ".join(lines[:4])[:600])
finally:
    shutil.rmtree(scratch, True)
if os.path.isdir(dst):
    mp = os.path.join(dst, "meta.json")
    meta = json.load(open(mp)) if os.path.exists(mp) else {}
    meta.update({"property": prop_id, "summary": meta_src.get("summary", meta.get("summary")),
                 "needs": meta_src.get("needs", meta.get("needs")), "files": meta_src.get("files", meta.get("files"))})
    if ran:
        meta["confirmed_by"] = ran
    meta.setdefault("checks", {}).update(results)
    meta["detected_by"] = sorted(p for p, r in meta["checks"].items() if r["exit"] != 0)
    json.dump(meta, open(mp, "w"), indent=1)
