#!/usr/bin/env python3
"""Rebuild MANIFEST.json from the table below (claimed properties) + properties.jsonl."""
import json, os
V = os.path.dirname(os.path.dirname(os.path.abspath(__file__)))
props = [json.loads(l) for l in open(os.path.join(V, "properties.jsonl"))]

TECH = "machine-checked proof in Coq (Rocq) over an executable model + checked model/implementation correspondence"
NOTE = ("Trusted: Coq 8.16.1 kernel + vm_compute; harness/gen_tables.py and the case writers/canonicalisers; "
        "Biopython/re/fs behaviour as modelled (see DESIGN.md section 7). No axioms (Print Assumptions: closed).")

CLAIMED = {
 "C17": "THIN THEOREMS, decided mainly by differential testing against a total model: proved that queries on a rejected record are the invalid-sequence error, that queries on an accepted record of any class of the common shape are defined (all 85 kit structures and all generic structures have the shape, by reflection over regenerated tables), and that the end-to-end assembly model never ends in an internal error for any mix of records; the implementation is run on random IUPAC x case strings of length 1-60, structure instances, single-letter corruptions and truncations for all kit classes and generic classes over every enzyme, and on assemblies mixing valid and spoiled records; anything but True/False, InvalidSequence or the documented assembly errors is reported with the input.",
 "C18": "Theorems for every pattern and every re-spelling with the same codes: the matcher reads codes only, every class accepts or rejects all spellings alike with the same match and reports texts equal up to case, the illegal-site screen ignores case, and an assembly of re-spelled inputs gives the same outcome class, stalled overhang, duplicate pair, used/unused sets and a product equal up to case (the case-sensitive keying of the pinned code is refuted); tied by comparing the implementation on lower/upper/per-letter/site-concentrated mixed case with the case-carrying model, and an oracle against the upper-case baseline, for typing and for complete/missing/duplicate/unused assemblies.",
 "C02": "Theorems for EVERY pattern, every circular record with a unique matching start and every k in Z: is_valid, both overhangs, target and placeholder of the rotated record equal those of the record (what is reported is read off the one-turn window at the leftmost start; the unique start moves with the rotation), and the outcome and product word of an assembly are identical for all rotations of all inputs; tied by comparing the implementation at ALL rotations with the model for every kit class, generic classes over every enzyme geometry, IUPAC signatures and registry plasmids (rotations around the flanking structure), plus assemblies with every rotation of one element; rotation oracle with an independent uniqueness enumerator.",
 "C04": "PARTIAL PROOF. Proved: for every pattern of the common shape a match splits into pre.g1.(a.run.b).g3.post with the three groups adjacent at fixed offsets from the two ends of the match; by reflection over tables regenerated from the working tree, all 85 kit structures and the generic structures of all enzymes of the family have that shape with |g1|=|g3|=ovh and the cutter's site placed so that both cuts fall at the starts of groups 1 and 3. Not proved in Coq: the step from that static framing to cut positions on the circle and the no-inner-cut clause; these are decided by the differential part (typing observables vs model for all classes with planted sites, neighbouring structures, mutations, all rotations; oracle recomputing cut positions by word search and checking the four clauses, including placeholder contiguity and complementarity).",
 "C20": "Theorems: an embedded archive with unique ids named after its members iterates each key once, len = number of keys, every yielded key is found with that id, absent keys are not; a combination of any sequence of members looks a key up in the first member holding it, its key set is the union, each key once; a directory (abstract stem/match, instantiated with string models of splitext and the case-insensitive glob) with distinct stems is coherent and ignores sub-directories and non-matching files; the five archive indices regenerated from the working tree satisfy the hypotheses by reflection over all entries (resistance and regular-file flags included). Partial by nature: tar/gzip, GenBank parsing and fs are the environment; the real registries are run on the real archives (all keys) and on generated directories/combinations and compared with the model.",
 "C07": "Theorem for all stores (reference lists, feature tables, citation qualifiers) and all interruption points of the call (after any number of dereferencing assignments): the inputs read exactly as before, only citation lists are ever touched, a repeated call starts from the same store; the no-restoration variant is refuted; _assembly.py tied by comparing the citation state after each of 1-4 consecutive calls on shared records (success, warning, invalid vector, duplicate, invalid module, missing module, injected exception in the j-th fragment extraction with the state recorded at that point, malformed citation) with the model; deep-snapshot and fresh-copy oracle.",
 "C10": "Theorems on the re-referencing fold for all lists of features and citations: every product index points to the reference its source cited, the product list has each cited reference exactly once and nothing else, in first-use order; inputs unchanged (C07); _assembly.py tied by comparing product references and citation indices with the model on generated assemblies with shared/repeated/unused references over consecutive calls; independent label-based oracle including the bracketed format and equality with the citation-free assembly.",
 "C06": "Invariant proof for the cache state machine over all histories of (class, record) queries: every stored pattern is the structure of the class owning it, hence every answer (is_valid, overhangs, target) equals the answer of the same query issued first; class identity of the 85 kit classes proved by reflection over the table regenerated from the working tree; the pinned MRO lookup is refuted on a witness; _structured.py tied by replaying every ordered pair of kit classes and random histories with run-time subclasses in forked interpreters against the machine, plus a fresh-interpreter oracle.",
 "C03": "Theorems on the model of AssemblyManager over typed elements with arbitrary overhang keys: the outcome is characterised by the overhang graph (product iff the vector's overhangs differ, no two distinct modules share or reverse-complement a start overhang, and the chain from the vector's downstream overhang reaches its upstream overhang; otherwise InvalidSequence / DuplicateModules naming a clashing pair / MissingModule naming the stalled overhang), each module used at most once, unused = exactly the rest, permutation invariance, fuel never exhausted; _assembly.py tied by correspondence at two levels (walk fed with the implementation's overhangs; end to end from raw sequences) over every vector pair x every ordered list of <= 2 modules over an alphabet with reverse-complementary and palindromic overhangs, sampled longer lists in all permutations, mixed case; independent graph oracle.",
 "C19": "Swap theorem on the model of the assembly walk for every module list, position and replacement with the same overhang keys: same chain, same unused set, products equal outside the replaced segment; tied by correspondence of both products from raw sequences for one enzyme of every geometry of the family, and a segment-wise oracle.",
 "C14": "Theorems for all sequences, all coordinates (read modulo n) and all rotations: rc is an involution, the feature table of the reverse complement is a permutation of the flipped features, each part lands on the opposite strand, covers the mirror positions and denotes the reverse complement, flip is an involution, rc commutes with rotation; SeqRecord.reverse_complement/_flip as modelled are tied by exact comparison of (sequence, ordered feature table, tracks) under composed rc/>>/<< operations; the object-level clause (result is a CircularRecord) is decided by the oracle.",
 "C15": "Theorems for every alphabet and length: circular membership iff (no longer than the record and occurs in some rotation), hence rotation-independent; the TypeError/ValueError/plain-slice/deep-copy clauses are object-protocol facts modelled as constant outcomes and decided by exhaustive correspondence over operand kinds, topology spellings, slice bounds and copy-mutation probes.",
 "C13": "Unbounded theorems (all lengths, all k in Z, all compositions, all feature shapes and tracks) on the model of >>/<<; the model is tied to record.py by differential correspondence evaluated by vm_compute on an exhaustive small scope (every length x every k in [-2n,2n]) plus random cases, and a direct oracle restates the property on the implementation.",
 "C16": "Letter table proved exhaustively by reflection over the table regenerated from regex.py; leftmost-start, one-turn window and group-text theorems for every flat pattern, target and range; soundness/completeness of the matcher w.r.t. a declarative semantics; CPython's re on the fragment is tied by correspondence (all 450 letter pairs, all short targets, random patterns).",
}

checks = []
for p in props:
    i = p["id"]
    if i in CLAIMED:
        checks.append({
            "property_id": i,
            "quick_cmd": "./check %s --tier quick" % i,
            "thorough_cmd": "./check %s --tier thorough" % i,
            "evidence_file": "/verif/evidence/%s.json" % i,
            "replay_cmd_template": "./check %s --replay {path}" % i,
            "engine": "coq-model",
            "level_claimed": {"category": "proof", "text": CLAIMED[i], "design_ref": "DESIGN.md section 4 (%s)" % i},
            "level_note": NOTE,
            "technique": TECH,
        })
m = {
 "version": 1,
 "setup_cmd": "./setup.sh",
 "hooks": {"guard": "MOCLO_VERIF",
           "enable": "no source hooks are needed: the harness runs a scratch copy of /repo's working tree with MOCLO_VERIF=1 in the environment",
           "baseline_off_cmd": "cd /repo && /venv/bin/python -m pytest -ra -q -p no:cacheprovider --timeout=900 --continue-on-collection-errors",
           "source_commits": [], "add_only": True},
 "engines": [{"name": "coq-model", "path": "/verif/coq", "serves_properties": sorted(CLAIMED),
              "kind_free_text": "Coq 8.16.1 development: executable model + theorems (coq/Props/Cxx.v), tables regenerated from the source (coq/Gen), differential correspondence by vm_compute, direct oracles"}],
 "checks": checks,
 "not_applicable": [{"property_id": p["id"], "reason": "check not built yet (work in progress; DESIGN.md section 10 gives the order of work)"}
                    for p in props if p["id"] not in CLAIMED],
 "notes": "See DESIGN.md. known_findings.json lists repaired defects (fixed: entries) and unrepaired findings (none).",
}
json.dump(m, open(os.path.join(V, "MANIFEST.json"), "w"), indent=1)
print("claimed:", sorted(CLAIMED))
