#!/bin/sh
# tools/trymut.sh <patch.diff> <Cxx> [tier] : run a check against a scratch copy of /repo with the patch applied
# (VERIF_DIR: which checkout of /verif runs it; default the directory of this script)
V=${VERIF_DIR:-$(cd "$(dirname "$0")/.." && pwd)}
d=$(mktemp -d /tmp/trymut.XXXXXX)
rsync -a --exclude .git --exclude build /repo/ $d/
(cd $d && (git apply "$1" 2>/dev/null || patch -s -p1 < "$1")) || { echo "patch failed"; rm -rf $d; exit 2; }
cd $V && MOCLO_REPO=$d ./check $2 --tier ${3:-quick} 2>&1 | tail -4
rm -rf $d; $V/tools/regen.sh >/dev/null 2>&1
