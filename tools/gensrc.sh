#!/bin/sh
# regenerate coq/Gen/Src.v only (from /repo's working tree or $1)
cd "$(dirname "$0")/.." || exit 2
python3 -c "
import sys; sys.path.insert(0, '.')
from harness import gen_src
class C: scratch = sys.argv[1] if len(sys.argv) > 1 else '/repo'
for n in gen_src.generate(C()): print('NOTE:', n)
" "$@"
