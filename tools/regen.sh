#!/bin/sh
# regenerate coq/Gen/*.v from /repo's working tree and rebuild (after a run against a mutated copy)
cd "$(dirname "$0")/.." || exit 2
/venv/bin/python -c "
import sys; sys.path.insert(0, '.')
from harness import common, gen_tables, gen_src
ctx = common.Ctx('C00', 'quick', 0)
common.make_scratch(ctx)
print(gen_tables.generate(ctx)); print(gen_src.generate(ctx))
" && cd coq && timeout 3000 make -k -j16 2>&1 | grep -A12 '^File' | head -20
