(* SrcEquivCite.v — what _deref_citations and _ref_citations, as regenerated from the source
   (Gen/Src.v, heap style), compute: the functional content of C10. *)
From MV Require Import Base Record Py PyObj PyHeap SrcEquivHeap.
From MV.Gen Require Import Src.
From Coq Require Import String Lia.
Local Open Scope Z_scope.

(* ---------- heap and record updates ----------------------------------------------------------- *)

Lemma heap_set_set h l a b : heap_set (heap_set h l a) l b = heap_set h l b.
Proof.
  induction h as [|[k r] h IH]; cbn; [reflexivity|].
  destruct (Nat.eqb_spec k l) as [->|Hn]; cbn.
  - now rewrite Nat.eqb_refl.
  - destruct (Nat.eqb_spec k l); [congruence|]. now rewrite IH.
Qed.

Lemma heap_set_same h l r : heap_get h l = Some r -> heap_set h l r = h.
Proof.
  induction h as [|[k r0] h IH]; cbn; [reflexivity|].
  destruct (Nat.eqb_spec k l) as [->|Hn]; [intros H; now inversion H|intros H; now rewrite IH].
Qed.

(* the record with the citation list of its j-th feature replaced *)
Definition upd_cits (r : pyrecord) (j : nat) (cs : list qcit) : pyrecord :=
  match nth_error (pr_features r) j with
  | Some x => rec_set_features r (set_nth (pr_features r) j (feat_set_cits x (Some cs)))
  | None => r
  end.

Lemma set_nth_set_nth {A} (l : list A) : forall j a b, set_nth (set_nth l j a) j b = set_nth l j b.
Proof. induction l as [|x l IH]; intros [|j] a b; cbn; try reflexivity. now rewrite IH. Qed.

Lemma set_nth_length {A} (l : list A) : forall j a, List.length (set_nth l j a) = List.length l.
Proof. induction l as [|x l IH]; intros [|j] a; cbn; try reflexivity. now rewrite IH. Qed.

Lemma upd_upd r j a b : upd_cits (upd_cits r j a) j b = upd_cits r j b.
Proof.
  unfold upd_cits. destruct (nth_error (pr_features r) j) as [x|] eqn:Ex; [|now rewrite Ex].
  cbn [rec_set_features pr_features].
  assert (Hj : (j < List.length (pr_features r))%nat) by (apply nth_error_Some; congruence).
  rewrite nth_set_nth_same by exact Hj. unfold rec_set_features. cbn. now rewrite set_nth_set_nth.
Qed.

Lemma upd_refs r j a : pr_annotations (upd_cits r j a) = pr_annotations r.
Proof. unfold upd_cits. destruct (nth_error (pr_features r) j); reflexivity. Qed.

Lemma upd_nth_same r j x a : nth_error (pr_features r) j = Some x ->
  nth_error (pr_features (upd_cits r j a)) j = Some (feat_set_cits x (Some a)).
Proof.
  intros Ex. unfold upd_cits. rewrite Ex. cbn. apply nth_set_nth_same. apply nth_error_Some. congruence.
Qed.

Lemma upd_nth_other r j j' a : j <> j' -> nth_error (pr_features (upd_cits r j a)) j' = nth_error (pr_features r) j'.
Proof.
  intros Hn. unfold upd_cits. destruct (nth_error (pr_features r) j); [|reflexivity]. cbn. now apply nth_set_nth_other.
Qed.

Lemma upd_length r j a : List.length (pr_features (upd_cits r j a)) = List.length (pr_features r).
Proof. unfold upd_cits. destruct (nth_error (pr_features r) j); [|reflexivity]. cbn. apply set_nth_length. Qed.

(* ---------- one citation ------------------------------------------------------------------------- *)

Definition refs_or_empty (r : pyrecord) : list qcit :=
  match an_references (pr_annotations r) with Some x => x | None => [] end.

(* "[i]" -> references[i - 1] : the body of the inner loop of _deref_citations *)
Definition deref_cit (refs : list qcit) (c : qcit) : exc qcit :=
  m <- cit_rx_match c ;;
  match m with
  | None => Err XValueError
  | Some m => g <- citmatch_group m 1 ;; z <- py_int_of_str g ;; py_getitem refs (z - 1)
  end.

Definition deref_body (record_ : nat) (feature_ : featref) (i : Z) (_ : unit) : hexc unit :=
  ref_ <~ h_cit_at feature_ i ;;
  t3 <~ hlift (cit_rx_match ref_) ;;
  let match_ := t3 in
  match match_ with
  | None => hraise XValueError
  | Some match_ =>
    t4 <~ hlift (citmatch_group match_ (1)%Z) ;;
    t5 <~ hlift (py_int_of_str t4) ;;
    let ref_index := (t5 - (1)%Z) in
    t6 <~ h_refs_get_or_empty record_ ;;
    t7 <~ hlift (py_getitem t6 ref_index) ;;
    _ <~ h_cit_setitem feature_ i t7 ;;
    hret tt
  end.

Lemma getitem_app_mid {A} (done : list A) c todo :
  py_getitem (done ++ c :: todo) (Z.of_nat (List.length done)) = Ok c.
Proof.
  unfold py_getitem, PyGetItem_list, py_norm, py_len. rewrite app_length. cbn [List.length].
  destruct (Z.ltb_spec (Z.of_nat (List.length done)) 0); [lia|].
  rewrite Z.min_l by lia. rewrite Nat2Z.id.
  rewrite nth_error_app2 by lia. rewrite Nat.sub_diag. cbn.
  destruct (Z.ltb_spec (Z.of_nat (List.length done)) (- Z.of_nat (List.length done + S (List.length todo)))); [lia|reflexivity].
Qed.

Lemma set_nth_app_mid {A} (done : list A) c todo v : set_nth (done ++ c :: todo) (List.length done) v = done ++ v :: todo.
Proof. induction done as [|a done IH]; cbn; [reflexivity|]. now rewrite IH. Qed.

(* one step of the inner loop on a heap where the record at l has, as j-th feature, one whose
   citation list is done ++ c :: todo *)
Lemma deref_step h l r j x done c todo :
  heap_get h l = Some r -> nth_error (pr_features r) j = Some x -> qcits (fquals x) = Some (done ++ c :: todo) ->
  deref_body l (FRef l j) (Z.of_nat (List.length done)) tt h =
  match deref_cit (refs_or_empty r) c with
  | Ok v => (Ok tt, heap_set h l (upd_cits r j (done ++ v :: todo)))
  | Err e => (Err e, h)
  end.
Proof.
  intros Hr Hx Hq. unfold deref_body, deref_cit.
  unfold hbind at 1. unfold h_cit_at, hbind at 1. cbn [h_feat]. unfold hbind at 1, h_rec. rewrite Hr, Hx. cbn [hret].
  rewrite Hq. unfold hlift at 1. rewrite getitem_app_mid.
  unfold hbind at 1, hlift at 1.
  destruct (cit_rx_match c) as [[m|]|e]; cbn [bind]; try reflexivity.
  unfold hbind at 1, hlift at 1. destruct (citmatch_group m 1) as [g|e]; cbn [bind]; [|reflexivity].
  unfold hbind at 1, hlift at 1. destruct (py_int_of_str g) as [z|e]; cbn [bind]; [|reflexivity].
  unfold hbind at 1. unfold h_refs_get_or_empty, hbind at 1, h_rec. rewrite Hr. cbn [hret].
  fold (refs_or_empty r).
  unfold hbind at 1, hlift at 1. destruct (py_getitem (refs_or_empty r) (z - 1)) as [v|e]; [|reflexivity].
  unfold hbind at 1. unfold h_cit_setitem, hbind at 1. cbn [h_feat]. unfold hbind at 1, h_rec. rewrite Hr, Hx. cbn [hret].
  rewrite Hq.
  assert (Hlen : py_len (done ++ c :: todo) = Z.of_nat (List.length done) + 1 + Z.of_nat (List.length todo))
    by (unfold py_len; rewrite app_length; cbn [List.length]; lia).
  rewrite Hlen.
  destruct (Z.ltb_spec (Z.of_nat (List.length done)) (- (Z.of_nat (List.length done) + 1 + Z.of_nat (List.length todo)))); [lia|].
  destruct (Z.leb_spec (Z.of_nat (List.length done) + 1 + Z.of_nat (List.length todo)) (Z.of_nat (List.length done))); [lia|].
  cbn [orb]. cbn [h_feat_put_cits]. unfold hbind at 1, h_rec. rewrite Hr, Hx. cbn [h_put hret].
  unfold py_norm. destruct (Z.ltb_spec (Z.of_nat (List.length done)) 0); [lia|].
  rewrite Z.min_l by lia. rewrite Nat2Z.id, set_nth_app_mid.
  unfold upd_cits. rewrite Hx. reflexivity.
Qed.

(* the inner loop: the citations of one feature, from position |done| on *)
Lemma deref_inner l j : forall todo done h r x,
  heap_get h l = Some r -> nth_error (pr_features r) j = Some x -> qcits (fquals x) = Some (done ++ todo) ->
  hfor0 (map (fun i => Z.of_nat i) (seq (List.length done) (List.length todo))) tt (deref_body l (FRef l j)) h =
  match py_mapM (deref_cit (refs_or_empty r)) todo with
  | Ok todo' => (Ok tt, heap_set h l (upd_cits r j (done ++ todo')))
  | Err e => (Err e, snd (hfor0 (map (fun i => Z.of_nat i) (seq (List.length done) (List.length todo))) tt (deref_body l (FRef l j)) h))
  end.
Proof.
  induction todo as [|c todo IH]; intros done h r x Hr Hx Hq; cbn [List.length seq map hfor0 py_mapM].
  - unfold hret. f_equal. unfold upd_cits. rewrite Hx. symmetry.
    replace (rec_set_features r (set_nth (pr_features r) j (feat_set_cits x (Some (done ++ []))))) with r; [now apply heap_set_same|].
    rewrite <- Hq. destruct r as [k s i fs a t n]. unfold rec_set_features. cbn in *. f_equal.
    clear -Hx. revert j Hx. induction fs as [|y fs IHf]; intros [|j] Hx; cbn in *; try discriminate.
    + inversion Hx; subst. destruct x as [s0 t0 [qi qc] lo]. reflexivity.
    + f_equal. now apply IHf.
  - unfold hbind at 1. rewrite (deref_step h l r j x done c todo Hr Hx Hq).
    destruct (deref_cit (refs_or_empty r) c) as [v|e] eqn:Ev.
    + assert (Hr' : heap_get (heap_set h l (upd_cits r j (done ++ v :: todo))) l = Some (upd_cits r j (done ++ v :: todo)))
        by (apply heap_get_set_same; congruence).
      specialize (IH (done ++ [v]) _ _ _ Hr' (upd_nth_same r j x _ Hx)).
      rewrite app_length in IH. cbn [List.length] in IH. replace (List.length done + 1)%nat with (S (List.length done)) in IH by lia.
      cbn [feat_set_cits fquals qcits] in IH. rewrite <- app_assoc in IH. cbn [app] in IH. specialize (IH eq_refl).
      assert (Erefs : refs_or_empty (upd_cits r j (done ++ v :: todo)) = refs_or_empty r)
        by (unfold refs_or_empty; now rewrite upd_refs).
      rewrite Erefs in IH.
      destruct (py_mapM (deref_cit (refs_or_empty r)) todo) as [todo'|e'].
      * rewrite IH. rewrite heap_set_set, upd_upd. now rewrite <- app_assoc.
      * rewrite IH. cbn. unfold hbind. rewrite (deref_step h l r j x done c todo Hr Hx Hq), Ev. reflexivity.
    + cbn. unfold hbind. now rewrite (deref_step h l r j x done c todo Hr Hx Hq), Ev.
Qed.

(* ---------- one feature, one record --------------------------------------------------------------- *)

Definition deref_feature (refs : list qcit) (x : feature) : exc feature :=
  match qcits (fquals x) with
  | None => Ok x
  | Some cs => cs' <- py_mapM (deref_cit refs) cs ;; Ok (feat_set_cits x (Some cs'))
  end.

Definition deref_record (r : pyrecord) : exc pyrecord :=
  fs <- py_mapM (deref_feature (refs_or_empty r)) (pr_features r) ;; Ok (rec_set_features r fs).

Definition deref_feature_body (record_ : nat) (feature_ : featref) (_ : unit) : hexc unit :=
  t2 <~ h_cits_len feature_ ;;
  _ <~ hfor0 (py_range 0 t2) tt (deref_body record_ feature_) ;;
  hret tt.

Lemma py_range_0 n : py_range 0 (Z.of_nat n) = map (fun i => Z.of_nat i) (seq 0 n).
Proof. unfold py_range. rewrite Z.sub_0_r, Nat2Z.id. apply map_ext. intros; lia. Qed.

Lemma feat_set_cits_same x cs : qcits (fquals x) = Some cs -> feat_set_cits x (Some cs) = x.
Proof. destruct x as [s t [qi qc] lo]. cbn. intros ->. reflexivity. Qed.

Lemma set_nth_same {A} (l : list A) : forall j x, nth_error l j = Some x -> set_nth l j x = l.
Proof. induction l as [|a l IH]; intros [|j] x H; cbn in *; try discriminate; [now inversion H|f_equal; now apply IH]. Qed.

Lemma rec_set_features_same r : rec_set_features r (pr_features r) = r.
Proof. now destruct r. Qed.

Lemma deref_feature_step h l r j x :
  heap_get h l = Some r -> nth_error (pr_features r) j = Some x ->
  exists h', deref_feature_body l (FRef l j) tt h =
  match deref_feature (refs_or_empty r) x with
  | Ok x' => (Ok tt, heap_set h l (rec_set_features r (set_nth (pr_features r) j x')))
  | Err e => (Err e, h')
  end.
Proof.
  intros Hr Hx. unfold deref_feature_body, deref_feature.
  unfold hbind at 1. unfold h_cits_len, hbind at 1. cbn [h_feat]. unfold hbind at 1, h_rec. rewrite Hr, Hx. cbn [hret].
  destruct (qcits (fquals x)) as [cs|] eqn:Eq.
  - unfold py_len. rewrite py_range_0. unfold hbind at 1.
    pose proof (deref_inner l j cs [] h r x Hr Hx Eq) as Ei. cbn [app List.length] in Ei. rewrite Ei.
    destruct (py_mapM (deref_cit (refs_or_empty r)) cs) as [cs'|e]; cbn [bind].
    + eexists h. cbn [hret]. unfold upd_cits. now rewrite Hx.
    + eexists. reflexivity.
  - exists h. cbn. unfold hbind, hret. cbn. f_equal.
    rewrite (set_nth_same _ _ _ Hx), rec_set_features_same. symmetry. now apply heap_set_same.
Qed.

Lemma deref_outer l : forall todof donef h r,
  heap_get h l = Some r -> pr_features r = donef ++ todof ->
  exists h', hfor0 (map (FRef l) (seq (List.length donef) (List.length todof))) tt (deref_feature_body l) h =
  match py_mapM (deref_feature (refs_or_empty r)) todof with
  | Ok todof' => (Ok tt, heap_set h l (rec_set_features r (donef ++ todof')))
  | Err e => (Err e, h')
  end.
Proof.
  induction todof as [|x todof IH]; intros donef h r Hr Hf; cbn [List.length seq map hfor0 py_mapM].
  - exists h. unfold hret. f_equal. rewrite <- Hf, rec_set_features_same. symmetry. now apply heap_set_same.
  - assert (Hx : nth_error (pr_features r) (List.length donef) = Some x)
      by (rewrite Hf, nth_error_app2 by lia; now rewrite Nat.sub_diag).
    destruct (deref_feature_step h l r _ x Hr Hx) as (h1 & E1).
    unfold hbind at 1. rewrite E1.
    destruct (deref_feature (refs_or_empty r) x) as [x'|e]; [|exists h1; reflexivity].
    rewrite Hf, set_nth_app_mid.
    set (r1 := rec_set_features r (donef ++ x' :: todof)).
    assert (Hr1 : heap_get (heap_set h l r1) l = Some r1) by (apply heap_get_set_same; congruence).
    destruct (IH (donef ++ [x']) _ r1 Hr1) as (h2 & E2).
    { unfold r1. cbn. now rewrite <- app_assoc. }
    rewrite app_length in E2. cbn [List.length] in E2.
    replace (List.length donef + 1)%nat with (S (List.length donef)) in E2 by lia.
    assert (Erefs : refs_or_empty r1 = refs_or_empty r) by reflexivity. rewrite Erefs in E2.
    rewrite E2.
    destruct (py_mapM (deref_feature (refs_or_empty r)) todof) as [todof'|e]; [|exists h2; reflexivity].
    exists h. rewrite heap_set_set. unfold r1, rec_set_features. cbn. now rewrite <- app_assoc.
Qed.

(* _deref_citations(record), as translated: every citation "[i]" of every feature is replaced by
   references[i - 1] (Python indexing: "[0]" reads the last one), in place; the first citation
   that is not of that form (ValueError), whose number is out of range (IndexError) or that is
   not a string (TypeError) stops it with that exception *)
Theorem deref_citations_eq self l h r : heap_get h l = Some r ->
  exists h', AssemblyManager_deref_citations self l h =
  match deref_record r with
  | Ok r' => (Ok tt, heap_set h l r')
  | Err e => (Err e, h')
  end.
Proof.
  intros Hr. unfold AssemblyManager_deref_citations, deref_record.
  unfold hbind at 1. unfold h_features, hbind at 1, h_rec. rewrite Hr. cbn [hret].
  destruct (deref_outer l (pr_features r) [] h r Hr eq_refl) as (h' & E). cbn [List.length app] in E.
  change (hfor0 (map (FRef l) (seq 0 (List.length (pr_features r)))) tt _)
    with (hfor0 (map (FRef l) (seq 0 (List.length (pr_features r)))) tt (deref_feature_body l)).
  unfold hbind at 1. rewrite E.
  destruct (py_mapM (deref_feature (refs_or_empty r)) (pr_features r)) as [fs|e]; cbn [bind].
  - exists h. reflexivity.
  - exists h'. reflexivity.
Qed.

(* ---------- _ref_citations -------------------------------------------------------------------------- *)

(* one citation of the product: the reference is appended to the list unless an equal one is
   there, and the citation becomes its 1-based position, written "[k]" *)
Definition ref_cit (refs : list qcit) (c : qcit) : list qcit * qcit :=
  let refs' := if qcit_in c refs then refs else refs ++ [c] in
  (refs', match qcit_index refs' c with Some k => cit_format_index (Z.of_nat k + 1) | None => c end).

Fixpoint ref_cits (refs : list qcit) (cs : list qcit) : list qcit * list qcit :=
  match cs with
  | [] => (refs, [])
  | c :: t => let (r1, v) := ref_cit refs c in let (r2, vs) := ref_cits r1 t in (r2, v :: vs)
  end.

Definition ref_feature (refs : list qcit) (x : feature) : list qcit * feature :=
  match qcits (fquals x) with
  | None => (refs, x)
  | Some cs => let (r', cs') := ref_cits refs cs in (r', feat_set_cits x (Some cs'))
  end.

Fixpoint ref_features (refs : list qcit) (fs : list feature) : list qcit * list feature :=
  match fs with
  | [] => (refs, [])
  | x :: t => let (r1, x') := ref_feature refs x in let (r2, t') := ref_features r1 t in (r2, x' :: t')
  end.

(* the record with its reference list and feature table replaced *)
Definition mkrec (r : pyrecord) (refs : list qcit) (fs : list feature) : pyrecord :=
  rec_set_annotations (rec_set_features r fs) (ann_set_references (pr_annotations r) refs).

Definition ref_record (r : pyrecord) : pyrecord :=
  let (refs', fs') := ref_features (refs_or_empty r) (pr_features r) in mkrec r refs' fs'.

Lemma qcit_eqb_refl c : qcit_eqb c c = true.
Proof. destruct c; cbn; [apply String.eqb_refl|apply Nat.eqb_refl]. Qed.
Lemma qcit_eqb_sym a b : qcit_eqb a b = qcit_eqb b a.
Proof. destruct a, b; cbn; try reflexivity; [apply String.eqb_sym|apply Nat.eqb_sym]. Qed.

Lemma qcit_index_in c refs : qcit_in c refs = true -> qcit_index refs c <> None.
Proof.
  induction refs as [|y refs IH]; cbn; [discriminate|].
  rewrite (qcit_eqb_sym y c). destruct (qcit_eqb c y); cbn; [discriminate|].
  intros H. specialize (IH H). destruct (qcit_index refs c); cbn; congruence.
Qed.
Lemma qcit_index_snoc c refs : qcit_index (refs ++ [c]) c <> None.
Proof.
  induction refs as [|y refs IH]; cbn.
  - now rewrite qcit_eqb_refl.
  - destruct (qcit_eqb y c); [discriminate|]. destruct (qcit_index (refs ++ [c]) c); cbn; congruence.
Qed.

Definition ref_body (record_ : nat) (feature_ : featref) (i : Z) (_ : unit) : hexc unit :=
  ref_ <~ h_cit_at feature_ i ;;
  t3 <~ h_refs record_ ;;
  _ <~ (if (negb (qcit_in ref_ t3)) then
          _ <~ h_refs_append record_ ref_ ;;
          hret tt
        else hret tt) ;;
  t4 <~ h_refs record_ ;;
  t5 <~ hlift (py_list_index t4 ref_) ;;
  let ref_index := (t5 + (1)%Z) in
  _ <~ h_cit_setitem feature_ i (cit_format_index ref_index) ;;
  hret tt.

Lemma mkrec_mkrec r refs fs refs' fs' : mkrec (mkrec r refs fs) refs' fs' = mkrec r refs' fs'.
Proof. destruct r. reflexivity. Qed.

Lemma ref_step h l r refs fsl x fsr done c todo :
  heap_get h l = Some (mkrec r refs (fsl ++ x :: fsr)) -> qcits (fquals x) = Some (done ++ c :: todo) ->
  ref_body l (FRef l (List.length fsl)) (Z.of_nat (List.length done)) tt h =
  (Ok tt, heap_set h l (mkrec r (fst (ref_cit refs c))
                              (fsl ++ feat_set_cits x (Some (done ++ snd (ref_cit refs c) :: todo)) :: fsr))).
Proof.
  intros Hr Hq. unfold ref_body.
  assert (Hx : nth_error (fsl ++ x :: fsr) (List.length fsl) = Some x)
    by (rewrite nth_error_app2 by lia; now rewrite Nat.sub_diag).
  unfold hbind at 1. unfold h_cit_at, hbind at 1. cbn [h_feat]. unfold hbind at 1, h_rec. rewrite Hr.
  cbn [mkrec rec_set_annotations rec_set_features pr_features]. rewrite Hx. cbn [hret]. rewrite Hq.
  unfold hlift at 1. rewrite getitem_app_mid.
  unfold hbind at 1. unfold h_refs at 1, hbind at 1, h_rec. rewrite Hr.
  cbn [mkrec rec_set_annotations rec_set_features pr_annotations ann_set_references an_references hret].
  unfold ref_cit. cbn [fst snd].
  destruct (qcit_in c refs) eqn:Ein; cbn [negb].
  - (* already listed *)
    unfold hbind at 1. cbn [hret].
    unfold hbind at 1. unfold h_refs at 1, hbind at 1, h_rec. rewrite Hr.
    cbn [mkrec rec_set_annotations rec_set_features pr_annotations ann_set_references an_references hret].
    unfold hbind at 1, hlift at 1, py_list_index.
    pose proof (qcit_index_in c refs Ein) as Hi. destruct (qcit_index refs c) as [k|]; [|congruence].
    unfold hbind at 1. unfold h_cit_setitem, hbind at 1. cbn [h_feat]. unfold hbind at 1, h_rec. rewrite Hr.
    cbn [mkrec rec_set_annotations rec_set_features pr_features]. rewrite Hx. cbn [hret]. rewrite Hq.
    assert (Hlen : py_len (done ++ c :: todo) = Z.of_nat (List.length done) + 1 + Z.of_nat (List.length todo))
      by (unfold py_len; rewrite app_length; cbn [List.length]; lia).
    rewrite Hlen.
    destruct (Z.ltb_spec (Z.of_nat (List.length done)) (- (Z.of_nat (List.length done) + 1 + Z.of_nat (List.length todo)))); [lia|].
    destruct (Z.leb_spec (Z.of_nat (List.length done) + 1 + Z.of_nat (List.length todo)) (Z.of_nat (List.length done))); [lia|].
    cbn [orb h_feat_put_cits]. unfold hbind at 1, h_rec. rewrite Hr.
    cbn [mkrec rec_set_annotations rec_set_features pr_features]. rewrite Hx. cbn [h_put hret].
    unfold py_norm. destruct (Z.ltb_spec (Z.of_nat (List.length done)) 0); [lia|].
    rewrite Z.min_l by lia. rewrite Nat2Z.id, !set_nth_app_mid. destruct r; reflexivity.
  - (* appended *)
    unfold hbind at 1. unfold hbind at 1. unfold h_refs_append, hbind at 1, h_rec. rewrite Hr.
    cbn [mkrec rec_set_annotations rec_set_features pr_annotations ann_set_references an_references h_put hret].
    set (h1 := heap_set h l _).
    assert (Hr1 : heap_get h1 l = Some (mkrec r (refs ++ [c]) (fsl ++ x :: fsr))).
    { unfold h1. rewrite heap_get_set_same by congruence. destruct r; reflexivity. }
    unfold hbind at 1. unfold h_refs at 1, hbind at 1, h_rec. rewrite Hr1.
    cbn [mkrec rec_set_annotations rec_set_features pr_annotations ann_set_references an_references hret].
    unfold hbind at 1, hlift at 1, py_list_index.
    pose proof (qcit_index_snoc c refs) as Hi. destruct (qcit_index (refs ++ [c]) c) as [k|]; [|congruence].
    unfold hbind at 1. unfold h_cit_setitem, hbind at 1. cbn [h_feat]. unfold hbind at 1, h_rec. rewrite Hr1.
    cbn [mkrec rec_set_annotations rec_set_features pr_features]. rewrite Hx. cbn [hret]. rewrite Hq.
    assert (Hlen : py_len (done ++ c :: todo) = Z.of_nat (List.length done) + 1 + Z.of_nat (List.length todo))
      by (unfold py_len; rewrite app_length; cbn [List.length]; lia).
    rewrite Hlen.
    destruct (Z.ltb_spec (Z.of_nat (List.length done)) (- (Z.of_nat (List.length done) + 1 + Z.of_nat (List.length todo)))); [lia|].
    destruct (Z.leb_spec (Z.of_nat (List.length done) + 1 + Z.of_nat (List.length todo)) (Z.of_nat (List.length done))); [lia|].
    cbn [orb h_feat_put_cits]. unfold hbind at 1, h_rec. rewrite Hr1.
    cbn [mkrec rec_set_annotations rec_set_features pr_features]. rewrite Hx. cbn [h_put hret].
    unfold py_norm. destruct (Z.ltb_spec (Z.of_nat (List.length done)) 0); [lia|].
    rewrite Z.min_l by lia. rewrite Nat2Z.id, !set_nth_app_mid. unfold h1. rewrite heap_set_set. destruct r; reflexivity.
Qed.

Lemma ref_inner l r fsl fsr : forall todo done refs x h,
  heap_get h l = Some (mkrec r refs (fsl ++ x :: fsr)) -> qcits (fquals x) = Some (done ++ todo) ->
  hfor0 (map (fun i => Z.of_nat i) (seq (List.length done) (List.length todo))) tt (ref_body l (FRef l (List.length fsl))) h =
  (Ok tt, heap_set h l (mkrec r (fst (ref_cits refs todo))
                              (fsl ++ feat_set_cits x (Some (done ++ snd (ref_cits refs todo))) :: fsr))).
Proof.
  induction todo as [|c todo IH]; intros done refs x h Hr Hq; cbn [List.length seq map hfor0 ref_cits fst snd].
  - unfold hret. f_equal. rewrite (feat_set_cits_same x _ Hq). symmetry. now apply heap_set_same.
  - unfold hbind at 1. rewrite (ref_step h l r refs fsl x fsr done c todo Hr Hq).
    set (x1 := feat_set_cits x (Some (done ++ snd (ref_cit refs c) :: todo))).
    set (h1 := heap_set h l _).
    assert (Hr1 : heap_get h1 l = Some (mkrec r (fst (ref_cit refs c)) (fsl ++ x1 :: fsr)))
      by (unfold h1; apply heap_get_set_same; congruence).
    specialize (IH (done ++ [snd (ref_cit refs c)]) (fst (ref_cit refs c)) x1 h1 Hr1).
    rewrite app_length in IH. cbn [List.length] in IH.
    replace (List.length done + 1)%nat with (S (List.length done)) in IH by lia.
    rewrite IH by (unfold x1; cbn; now rewrite <- app_assoc).
    destruct (ref_cit refs c) as [r1 v] eqn:E1. cbn [fst snd] in *.
    destruct (ref_cits r1 todo) as [r2 vs] eqn:E2. cbn [fst snd].
    unfold h1. rewrite heap_set_set. f_equal. f_equal. f_equal. f_equal.
    unfold x1, feat_set_cits. cbn. now rewrite <- app_assoc.
Qed.

Definition ref_feature_body (record_ : nat) (feature_ : featref) (_ : unit) : hexc unit :=
  t2 <~ h_cits_len feature_ ;;
  _ <~ hfor0 (py_range 0 t2) tt (ref_body record_ feature_) ;;
  hret tt.

Lemma ref_feature_step h l r refs fsl x fsr :
  heap_get h l = Some (mkrec r refs (fsl ++ x :: fsr)) ->
  ref_feature_body l (FRef l (List.length fsl)) tt h =
  (Ok tt, heap_set h l (mkrec r (fst (ref_feature refs x)) (fsl ++ snd (ref_feature refs x) :: fsr))).
Proof.
  intros Hr. unfold ref_feature_body, ref_feature.
  assert (Hx : nth_error (fsl ++ x :: fsr) (List.length fsl) = Some x)
    by (rewrite nth_error_app2 by lia; now rewrite Nat.sub_diag).
  unfold hbind at 1. unfold h_cits_len, hbind at 1. cbn [h_feat]. unfold hbind at 1, h_rec. rewrite Hr.
  cbn [mkrec rec_set_annotations rec_set_features pr_features]. rewrite Hx. cbn [hret].
  destruct (qcits (fquals x)) as [cs|] eqn:Eq.
  - unfold py_len. rewrite py_range_0. unfold hbind at 1.
    pose proof (ref_inner l r fsl fsr cs [] refs x h Hr Eq) as Ei. cbn [app List.length] in Ei. rewrite Ei.
    cbn [hret]. destruct (ref_cits refs cs) as [r' cs']. reflexivity.
  - cbn. unfold hbind, hret. cbn. f_equal. symmetry. now apply heap_set_same.
Qed.

Lemma ref_outer l r : forall todof donef refs h,
  heap_get h l = Some (mkrec r refs (donef ++ todof)) ->
  hfor0 (map (FRef l) (seq (List.length donef) (List.length todof))) tt (ref_feature_body l) h =
  (Ok tt, heap_set h l (mkrec r (fst (ref_features refs todof)) (donef ++ snd (ref_features refs todof)))).
Proof.
  induction todof as [|x todof IH]; intros donef refs h Hr; cbn [List.length seq map hfor0 ref_features fst snd].
  - unfold hret. f_equal. symmetry. now apply heap_set_same.
  - unfold hbind at 1. rewrite (ref_feature_step h l r refs donef x todof Hr).
    destruct (ref_feature refs x) as [r1 x'] eqn:E1. cbn [fst snd].
    set (h1 := heap_set h l _).
    assert (Hr1 : heap_get h1 l = Some (mkrec r r1 ((donef ++ [x']) ++ todof)))
      by (unfold h1; rewrite heap_get_set_same by congruence; now rewrite <- app_assoc).
    specialize (IH (donef ++ [x']) r1 h1 Hr1).
    rewrite app_length in IH. cbn [List.length] in IH.
    replace (List.length donef + 1)%nat with (S (List.length donef)) in IH by lia.
    rewrite IH. destruct (ref_features r1 todof) as [r2 t'] eqn:E2. cbn [fst snd].
    unfold h1. rewrite heap_set_set. now rewrite <- app_assoc.
Qed.

(* _ref_citations(record), as translated: never raises; the record's reference list (created
   when absent) and feature table become those of ref_record *)
Theorem ref_citations_eq self l h r : heap_get h l = Some r ->
  AssemblyManager_ref_citations self l h = (Ok tt, heap_set h l (ref_record r)).
Proof.
  intros Hr. unfold AssemblyManager_ref_citations, ref_record.
  unfold hbind at 1. unfold h_refs_setdefault, hbind at 1, h_rec. rewrite Hr.
  assert (Hview : exists h1, (match an_references (pr_annotations r) with
                              | Some _ => hret tt
                              | None => h_put l (rec_set_annotations r (ann_set_references (pr_annotations r) []))
                              end) h = (Ok tt, h1)
                             /\ heap_get h1 l = Some (mkrec r (refs_or_empty r) ([] ++ pr_features r))
                             /\ forall x, heap_set h1 l x = heap_set h l x).
  { unfold refs_or_empty. destruct (an_references (pr_annotations r)) as [x|] eqn:Ea.
    - exists h. split; [reflexivity|]. split; [|reflexivity]. rewrite Hr. f_equal.
      destruct r as [k s i fs [t rf o] tr n]. cbn in *. subst. reflexivity.
    - eexists. split; [reflexivity|]. split; [|intros; apply heap_set_set].
      rewrite heap_get_set_same by congruence. destruct r; reflexivity. }
  destruct Hview as (h1 & E1 & Hr1 & Hset). rewrite E1.
  unfold hbind at 1. unfold h_features, hbind at 1, h_rec. rewrite Hr1.
  cbn [hret mkrec rec_set_annotations rec_set_features pr_features app].
  change (hfor0 (map (FRef l) (seq 0 (List.length (pr_features r)))) tt _)
    with (hfor0 (map (FRef l) (seq 0 (List.length (pr_features r)))) tt (ref_feature_body l)).
  unfold hbind at 1.
  pose proof (ref_outer l r (pr_features r) [] (refs_or_empty r) h1 Hr1) as Eo. cbn [List.length app] in Eo.
  rewrite Eo. cbn [hret]. rewrite Hset.
  destruct (ref_features (refs_or_empty r) (pr_features r)) as [refs' fs']. reflexivity.
Qed.

(* ---------- what the numbering means (C10) ---------------------------------------------------------- *)

(* the citation v written into the product points, in the reference list refs, to a reference
   equal to c *)
Definition points (refs : list qcit) (c v : qcit) : Prop :=
  exists k c', v = cit_format_index (Z.of_nat k + 1) /\ nth_error refs k = Some c' /\ qcit_eqb c' c = true.

Lemma points_extend refs ext c v : points refs c v -> points (refs ++ ext) c v.
Proof.
  intros (k & c' & Hv & Hn & He). exists k, c'. repeat split; auto.
  rewrite nth_error_app1; [exact Hn|]. apply nth_error_Some. congruence.
Qed.

Lemma qcit_index_nth refs c k : qcit_index refs c = Some k ->
  exists c', nth_error refs k = Some c' /\ qcit_eqb c' c = true.
Proof.
  revert k. induction refs as [|y refs IH]; intros k; cbn; [discriminate|].
  destruct (qcit_eqb y c) eqn:E.
  - intros H. inversion H; subst. exists y. auto.
  - destruct (qcit_index refs c) as [k'|]; cbn; [|discriminate]. intros H. inversion H; subst. cbn. now apply IH.
Qed.

(* the first equal element: nothing equal before it *)
Lemma qcit_index_first refs c k : qcit_index refs c = Some k ->
  forall i y, (i < k)%nat -> nth_error refs i = Some y -> qcit_eqb y c = false.
Proof.
  revert k. induction refs as [|z refs IH]; intros k; cbn; [discriminate|].
  destruct (qcit_eqb z c) eqn:E.
  - intros H. inversion H; subst. intros; lia.
  - destruct (qcit_index refs c) as [k'|]; cbn; [|discriminate]. intros H. inversion H; subst.
    intros [|i] y Hi Hy; cbn in Hy; [inversion Hy; now subst|]. eapply IH; [reflexivity| |exact Hy]. lia.
Qed.

Lemma ref_cit_spec refs c : exists ext, fst (ref_cit refs c) = refs ++ ext
  /\ points (fst (ref_cit refs c)) c (snd (ref_cit refs c))
  /\ (ext = [] \/ (ext = [c] /\ qcit_in c refs = false)).
Proof.
  unfold ref_cit. cbn [fst snd]. destruct (qcit_in c refs) eqn:Ein.
  - exists []. rewrite app_nil_r. split; [reflexivity|]. split; [|now left].
    pose proof (qcit_index_in c refs Ein) as Hi. destruct (qcit_index refs c) as [k|] eqn:Ek; [|congruence].
    destruct (qcit_index_nth _ _ _ Ek) as (c' & Hn & He). exists k, c'. auto.
  - exists [c]. split; [reflexivity|]. split; [|right; auto].
    pose proof (qcit_index_snoc c refs) as Hi. destruct (qcit_index (refs ++ [c]) c) as [k|] eqn:Ek; [|congruence].
    destruct (qcit_index_nth _ _ _ Ek) as (c' & Hn & He). exists k, c'. auto.
Qed.

(* no two references of the list are equal *)
Definition refs_once (l : list qcit) : Prop :=
  forall i j a b, nth_error l i = Some a -> nth_error l j = Some b -> qcit_eqb a b = true -> i = j.

Lemma qcit_eqb_eq a b : qcit_eqb a b = true -> a = b.
Proof.
  destruct a, b; cbn; try discriminate; intros H; f_equal; [now apply String.eqb_eq|now apply Nat.eqb_eq].
Qed.

Lemma qcit_in_false c refs y : qcit_in c refs = false -> In y refs -> qcit_eqb c y = false.
Proof.
  unfold qcit_in. intros H Hy. destruct (qcit_eqb c y) eqn:E; [|reflexivity].
  assert (existsb (qcit_eqb c) refs = true) by (apply existsb_exists; eauto). congruence.
Qed.

Lemma refs_once_snoc refs c : refs_once refs -> qcit_in c refs = false -> refs_once (refs ++ [c]).
Proof.
  intros Ho Hc i j a b Hi Hj He.
  assert (Hcase : forall k x, nth_error (refs ++ [c]) k = Some x ->
            ((k < List.length refs)%nat /\ nth_error refs k = Some x) \/ (k = List.length refs /\ x = c)).
  { intros k x Hk. destruct (Nat.lt_ge_cases k (List.length refs)) as [Hl|Hl].
    - left. split; [exact Hl|]. now rewrite nth_error_app1 in Hk.
    - right. rewrite nth_error_app2 in Hk by lia. destruct (k - List.length refs)%nat as [|d] eqn:Ed; cbn in Hk.
      + inversion Hk. split; [lia|reflexivity].
      + destruct d; discriminate. }
  destruct (Hcase i a Hi) as [[Hli Hia]|[-> ->]], (Hcase j b Hj) as [[Hlj Hjb]|[-> ->]].
  - eapply Ho; eassumption.
  - apply nth_error_In in Hia. rewrite qcit_eqb_sym in He. pose proof (qcit_in_false _ _ _ Hc Hia). congruence.
  - apply nth_error_In in Hjb. pose proof (qcit_in_false _ _ _ Hc Hjb). congruence.
  - reflexivity.
Qed.

Lemma ref_cits_spec : forall cs refs, exists ext, fst (ref_cits refs cs) = refs ++ ext
  /\ Forall2 (points (fst (ref_cits refs cs))) cs (snd (ref_cits refs cs))
  /\ (forall y, In y ext -> In y cs)
  /\ (refs_once refs -> refs_once (fst (ref_cits refs cs))).
Proof.
  induction cs as [|c cs IH]; intros refs; cbn [ref_cits].
  - exists []. cbn. rewrite app_nil_r. repeat split; auto; try (intros ? []); try (intros ? ? []).
  - destruct (ref_cit_spec refs c) as (e1 & E1 & P1 & Hc).
    destruct (ref_cit refs c) as [r1 v] eqn:Ec. cbn [fst snd] in *.
    destruct (IH r1) as (e2 & E2 & P2 & Hin2 & Ho2).
    destruct (ref_cits r1 cs) as [r2 vs] eqn:Ecs. cbn [fst snd] in *.
    exists (e1 ++ e2). split; [subst; now rewrite app_assoc|]. split.
    + constructor; [|exact P2]. rewrite E2. now apply points_extend.
    + split.
      * intros y Hy. apply in_app_or in Hy. destruct Hy as [Hy|Hy]; [|right; now apply Hin2].
        destruct Hc as [->|[-> _]]; [destruct Hy|]. destruct Hy as [<-|[]]. now left.
      * intros Ho. apply Ho2. subst r1. destruct Hc as [->|[-> Hn]]; [now rewrite app_nil_r|now apply refs_once_snoc].
Qed.

Definition feature_points (refs : list qcit) (x x' : feature) : Prop :=
  feat_shape_eq x x' /\
  match qcits (fquals x), qcits (fquals x') with
  | Some cs, Some vs => Forall2 (points refs) cs vs
  | None, None => True
  | _, _ => False
  end.

Lemma feature_points_extend refs ext x x' : feature_points refs x x' -> feature_points (refs ++ ext) x x'.
Proof.
  intros [Hs H]. split; [exact Hs|]. destruct (qcits (fquals x)), (qcits (fquals x')); auto.
  induction H; constructor; auto using points_extend.
Qed.

Lemma ref_feature_spec refs x : exists ext, fst (ref_feature refs x) = refs ++ ext
  /\ feature_points (fst (ref_feature refs x)) x (snd (ref_feature refs x))
  /\ (forall y, In y ext -> exists cs, qcits (fquals x) = Some cs /\ In y cs)
  /\ (refs_once refs -> refs_once (fst (ref_feature refs x))).
Proof.
  unfold ref_feature. destruct (qcits (fquals x)) as [cs|] eqn:Eq.
  - destruct (ref_cits_spec cs refs) as (e1 & E1 & P1 & Hin1 & Ho1).
    destruct (ref_cits refs cs) as [r1 vs] eqn:Ecs. cbn [fst snd] in *.
    exists e1. split; [exact E1|]. split; [|split; [|exact Ho1]].
    + split; [unfold feat_shape_eq, feat_set_cits; cbn; now rewrite Eq|]. rewrite Eq. cbn. exact P1.
    + intros y Hy. exists cs. auto.
  - exists []. cbn [fst snd]. rewrite app_nil_r. split; [reflexivity|]. split; [|split; [intros ? []|auto]].
    split; [apply feat_shape_refl|]. now rewrite Eq.
Qed.

(* the re-referencing of a whole feature table: every citation of every feature points, in the
   final reference list, to a reference equal to what it was; the list is the old one followed
   by cited values only, and has no two equal references if it had none *)
Theorem ref_features_spec : forall fs refs, exists ext, fst (ref_features refs fs) = refs ++ ext
  /\ Forall2 (feature_points (fst (ref_features refs fs))) fs (snd (ref_features refs fs))
  /\ (forall y, In y ext -> exists x cs, In x fs /\ qcits (fquals x) = Some cs /\ In y cs)
  /\ (refs_once refs -> refs_once (fst (ref_features refs fs))).
Proof.
  induction fs as [|x fs IH]; intros refs; cbn [ref_features].
  - exists []. cbn. rewrite app_nil_r. repeat split; auto; try (intros ? []); try (intros ? ? []).
  - destruct (ref_feature_spec refs x) as (e1 & E1 & P1 & Hin1 & Ho1).
    destruct (ref_feature refs x) as [r1 x'] eqn:Ef. cbn [fst snd] in *.
    destruct (IH r1) as (e2 & E2 & P2 & Hin2 & Ho2).
    destruct (ref_features r1 fs) as [r2 t'] eqn:Efs. cbn [fst snd] in *.
    exists (e1 ++ e2). split; [subst; now rewrite app_assoc|]. split; [|split].
    + constructor; [|exact P2]. rewrite E2. now apply feature_points_extend.
    + intros y Hy. apply in_app_or in Hy. destruct Hy as [Hy|Hy].
      * destruct (Hin1 y Hy) as (cs & H1 & H2). exists x, cs. split; [now left|auto].
      * destruct (Hin2 y Hy) as (x0 & cs0 & H1 & H2 & H3). exists x0, cs0. split; [now right|auto].
    + intros Ho. apply Ho2. now apply Ho1.
Qed.

(* dereferencing: a citation that _CITATION_RX reads as the number z becomes references[z - 1]
   (Python indexing) *)
Lemma deref_cit_number refs c d z :
  cit_rx_match c = Ok (Some (CM d)) -> py_int_of_str d = Ok z -> deref_cit refs c = py_getitem refs (z - 1).
Proof. intros Hm Hz. unfold deref_cit. rewrite Hm. cbn. now rewrite Hz. Qed.

(* ---------- the written form can be read back (the product is an input of the next level) ------------ *)

From Coq Require Import DecimalString DecimalPos DecimalZ Ascii.

Lemma take_digits_uint d rest :
  (match rest with String a _ => is_digit a = false | EmptyString => True end) ->
  take_digits (NilEmpty.string_of_uint d ++ rest) = (NilEmpty.string_of_uint d, rest).
Proof.
  intros Hrest. induction d; cbn [NilEmpty.string_of_uint append take_digits];
    try (rewrite IHd; reflexivity).
  destruct rest as [|a r]; [reflexivity|]. cbn [take_digits]. now rewrite Hrest.
Qed.

Lemma string_of_uint_nonempty d : d <> Decimal.Nil -> NilEmpty.string_of_uint d <> EmptyString.
Proof. destruct d; cbn; congruence. Qed.

Lemma to_uint_nonnil p : Pos.to_uint p <> Decimal.Nil.
Proof.
  intros H. pose proof (DecimalPos.Unsigned.of_to p) as E. rewrite H in E. discriminate.
Qed.

Lemma nz_string u : u <> Decimal.Nil -> NilZero.string_of_uint u = NilEmpty.string_of_uint u.
Proof. destruct u; cbn; congruence. Qed.

Lemma int_of_uint_string u : u <> Decimal.Nil ->
  py_int_of_str (NilEmpty.string_of_uint u) = Ok (Z.of_uint u).
Proof.
  intros Hn. unfold py_int_of_str. pose proof (string_of_uint_nonempty u Hn) as Hne.
  rewrite NilEmpty.usu. destruct (NilEmpty.string_of_uint u); [congruence|reflexivity].
Qed.

(* "[k]" as written by _ref_citations, read by _deref_citations: the k-th reference (k >= 1) *)
Theorem deref_format refs (k : positive) :
  deref_cit refs (cit_format_index (Zpos k)) = py_getitem refs (Zpos k - 1).
Proof.
  unfold cit_format_index. cbn [Z.to_int]. unfold NilZero.string_of_int, Pos.to_int.
  pose proof (to_uint_nonnil k) as Hn. rewrite (nz_string _ Hn).
  set (u := Pos.to_uint k) in *.
  assert (Hz : Z.of_uint u = Zpos k).
  { unfold Z.of_uint, u. now rewrite DecimalPos.Unsigned.of_to. }
  rewrite <- Hz.
  apply deref_cit_number with (d := NilEmpty.string_of_uint u); [|now apply int_of_uint_string].
  unfold cit_rx_match. cbn [Ascii.eqb Bool.eqb]. rewrite take_digits_uint by reflexivity. reflexivity.
Qed.
