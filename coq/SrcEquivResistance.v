(* SrcEquivResistance.v — find_resistance as regenerated from registry/_utils.py (the loop over the
   record's features, the set of /label values, its intersection with the keys of the _ANTIBIOTICS
   dict literal — regenerated as well —, the two exits): for EVERY record it returns an antibiotic of
   the table or raises RuntimeError, and which of the two is decided by the first feature that
   carries a known cassette label. *)
From MV Require Import Base Registry Py PyObj.
From MV.Gen Require Import Src.
From MV Require Import SrcEquivRegistry.
From Coq Require Import Lia String List.
Import ListNotations.
Local Open Scope list_scope.

Definition known (x : string) : bool := existsb (String.eqb x) (map fst _ANTIBIOTICS_).

(* the distinct known cassette labels of one feature *)
Definition cassettes_of (f : lfeat) : list string :=
  filter known (nodup string_dec (match lf_label f with Some l => l | None => [] end)).

Fixpoint resistance_spec (fs : list lfeat) : exc (option string) :=
  match fs with
  | [] => Err XRuntimeError
  | f :: r =>
    match cassettes_of f with
    | [] => resistance_spec r
    | [x] => Ok (strdict_get _ANTIBIOTICS_ x)
    | _ => Err XRuntimeError
    end
  end.

Lemma len_list (l : list string) : py_len_of l = Z.of_nat (List.length l).
Proof. reflexivity. Qed.

Theorem find_resistance_eq r : find_resistance_src r = resistance_spec (lr_features r).
Proof.
  unfold find_resistance_src, lrec_features. generalize (lr_features r) as fs. clear r.
  induction fs as [|f fs IH]; [reflexivity|].
  cbn [py_for resistance_spec]. cbv zeta.
  assert (Hc : set_inter_keys (py_set_of_list (lfeat_get f "label" [])) _ANTIBIOTICS_ = cassettes_of f).
  { unfold set_inter_keys, py_set_of_list, cassettes_of, lfeat_get, known.
    change (String.eqb "label" "label") with true. cbv iota. destruct (lf_label f); reflexivity. }
  rewrite Hc. rewrite len_list.
  destruct (cassettes_of f) as [|x [|y l]].
  - cbn [List.length]. change (Z.of_nat 0 >? 1)%Z with false. cbv iota.
    change (py_eq (Z.of_nat 0) 1%Z) with false. cbv iota. cbn [bind]. exact IH.
  - cbn [List.length]. change (Z.of_nat 1 >? 1)%Z with false. cbv iota.
    change (py_eq (Z.of_nat 1) 1%Z) with true. cbv iota. cbn [set_pop bind]. reflexivity.
  - assert (Hg : (Z.of_nat (List.length (x :: y :: l)) >? 1)%Z = true).
    { cbn [List.length]. apply Z.gtb_lt. lia. }
    rewrite Hg. cbn [bind]. reflexivity.
Qed.

(* a key of the table has a value in it *)
Lemma known_get x : known x = true -> exists a, strdict_get _ANTIBIOTICS_ x = Some a /\ In a (map snd _ANTIBIOTICS_).
Proof.
  unfold known, strdict_get. generalize _ANTIBIOTICS_ as d.
  induction d as [|[k v] d IH]; cbn [map existsb find fst snd]; [discriminate|].
  rewrite String.eqb_sym. destruct (String.eqb k x) eqn:E.
  - intros _. exists v. split; [reflexivity|left; reflexivity].
  - cbn [orb]. intros H. destruct (IH H) as [a [Ha Hin]]. exists a. split; [exact Ha|right; exact Hin].
Qed.

Lemma spec_outcome fs :
  (exists a, resistance_spec fs = Ok (Some a) /\ In a (map snd _ANTIBIOTICS_)) \/ resistance_spec fs = Err XRuntimeError.
Proof.
  induction fs as [|f fs IH]; [right; reflexivity|]. cbn [resistance_spec].
  destruct (cassettes_of f) as [|x [|y l]] eqn:Ec; [exact IH| |right; reflexivity].
  left. assert (Hk : known x = true).
  { assert (Hin : In x (cassettes_of f)) by (rewrite Ec; left; reflexivity).
    unfold cassettes_of in Hin. apply filter_In in Hin. tauto. }
  destruct (known_get x Hk) as [a [Ha Hin]]. exists a. rewrite Ha. auto.
Qed.

(* "a known antibiotic resistance": what is returned is a value of the table, never None; and the
   only exception is RuntimeError *)
Theorem find_resistance_known r v : find_resistance_src r = Ok v -> exists a, v = Some a /\ In a (map snd _ANTIBIOTICS_).
Proof.
  rewrite find_resistance_eq. destruct (spec_outcome (lr_features r)) as [[a [Ha Hin]]|He]; rewrite ?Ha, ?He.
  - intros H. inversion H. exists a. auto.
  - discriminate.
Qed.

Theorem find_resistance_errors r e : find_resistance_src r = Err e -> e = XRuntimeError.
Proof.
  rewrite find_resistance_eq. destruct (spec_outcome (lr_features r)) as [[a [Ha Hin]]|He]; rewrite ?Ha, ?He.
  - discriminate.
  - intros H. inversion H. reflexivity.
Qed.

(* features without a known cassette label are skipped, in any number; the first feature with one
   decides *)
Theorem find_resistance_first r pre f post :
  lr_features r = pre ++ f :: post -> Forall (fun g => cassettes_of g = []) pre -> cassettes_of f <> [] ->
  find_resistance_src r = match cassettes_of f with [x] => Ok (strdict_get _ANTIBIOTICS_ x) | _ => Err XRuntimeError end.
Proof.
  intros Hf Hpre Hne. rewrite find_resistance_eq, Hf. clear Hf.
  induction Hpre as [|g pre Hg _ IH]; cbn [app resistance_spec].
  - destruct (cassettes_of f) as [|x [|y l]]; [congruence|reflexivity|reflexivity].
  - rewrite Hg. exact IH.
Qed.

Theorem find_resistance_none r :
  Forall (fun g => cassettes_of g = []) (lr_features r) -> find_resistance_src r = Err XRuntimeError.
Proof.
  intros H. rewrite find_resistance_eq. induction H as [|g fs Hg _ IH]; cbn [resistance_spec]; [reflexivity|].
  rewrite Hg. exact IH.
Qed.

(* ---------- the items of the registries ------------------------------------------------------------------ *)

(* "the item found ... holds ... a known antibiotic resistance": whatever EmbeddedRegistry.__getitem__
   and FilesystemRegistry.__getitem__ as regenerated return carries an antibiotic of the table *)
Theorem embedded_item_resistance self k it : Forall loadable (emb_archive self) ->
  EmbeddedRegistry_getitem self k = Ok it ->
  exists a, ib_resistance (item_body it) = Some a /\ In a (map snd _ANTIBIOTICS_).
Proof.
  intros Hl. rewrite (EmbeddedRegistry_getitem_eq self k Hl).
  destruct (emb_lookup String.eqb (emb_index self) k) as [[nm id]|]; [|discriminate].
  destruct (find (fun e => String.eqb (gr_id (te_record e)) k) (rev (emb_archive self))) as [e|] eqn:Ef; [|discriminate].
  intros H. inversion H; subst it. clear H.
  apply find_some in Ef. destruct Ef as [Hin _]. apply in_rev in Hin.
  rewrite Forall_forall in Hl. destruct (Hl e Hin) as [[a Ha] _].
  unfold item_of, mk_Item. cbn [item_body ib_resistance]. rewrite Ha.
  unfold find_resistance in Ha. destruct (find_resistance_known _ _ Ha) as [x [Hx Hi]]. exists x. subst a. auto.
Qed.

Theorem filesystem_item_resistance self k it :
  FilesystemRegistry_getitem self k = Ok it ->
  exists a, ib_resistance (item_body it) = Some a /\ In a (map snd _ANTIBIOTICS_).
Proof.
  rewrite FilesystemRegistry_getitem_eq.
  destruct (fs_lookup String.eqb splitext_stem (glob_matches (fsr_exts self)) (fs_listing self) k) as [n|]; [|discriminate].
  destruct (fs_open self n) as [r|x]; cbn [bind]; [|discriminate].
  destruct (grec_entity (grec_set_id r (splitext_stem n))) as [ent|x]; cbn [bind]; [|discriminate].
  destruct (find_resistance (grec_set_id r (splitext_stem n))) as [res|x] eqn:Er; cbn [bind]; [|discriminate].
  intros H. inversion H; subst it. clear H. unfold mk_Item. cbn [item_body ib_resistance].
  unfold find_resistance in Er. destruct (find_resistance_known _ _ Er) as [a [Ha Hi]]. exists a. subst res. auto.
Qed.
