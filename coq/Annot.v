(* Annot.v — annotations through an assembly: the fragment each element contributes
   (modules.py:109 / vectors.py:97: rotate, slice, add the provenance feature) and their
   concatenation (_assembly.py:61-73). Executable definitions only. *)
From MV Require Import Base Record.
Open Scope Z_scope.

(* add_as_source: a `source` feature over the whole fragment, naming plasmid j *)
Definition source_feature (j : nat) (len : Z) : feature := F true 0 (901 + j) [P 0 len NoStrand].

(* target_sequence(): (record << a)[:L] for a module, (record << a)[L:] for a vector *)
Definition fragment (is_vector : bool) (a L : Z) (j : nat) (r : record) : record :=
  let n := zlen (rseq r) in
  let rot := rotl_record a r in
  let fr := if is_vector then slice_record L n rot else slice_record 0 L rot in
  R (rseq fr) (rfeats fr ++ [source_feature j (zlen (rseq fr))]) [].

(* assembly = SeqRecord(Seq("")); assembly += fragment ...; CircularRecord(assembly + vector fragment) *)
Definition product (frs : list record) : record := fold_left concat_record frs (R [] [] []).

(* where the features of each fragment land in the product *)
Fixpoint layout (off : Z) (frs : list record) : list feature :=
  match frs with
  | [] => []
  | fr :: r => map (shift_feature off) (rfeats fr) ++ layout (off + zlen (rseq fr)) r
  end.
