(* SrcStructRun.v — structure() as regenerated from the source, run on the correspondence cases of
   C05: the text it computes against the text the implementation returns. No proofs here. *)
From MV Require Import Base Regex Typing Py PyObj Glue.
From MV.Gen Require Import Src.
From Coq Require Import String.

Definition sch_eqb_list (a b : pystr) : bool := list_eqb sch_eqb a b.

Definition check_struct_src (c : role * enzyme * string * string * string) : bool :=
  let '(r, e, up, down, text) := c in
  match AbstractPart_structure (PCS r e (sch_of_string up, sch_of_string down)) with
  | Ok t => sch_eqb_list t (sch_of_string text)
  | Err _ => false
  end.

(* DNARegex._transcribe as regenerated, against the text the implementation compiles *)
Definition check_transcribe_src (c : string * string) : bool :=
  let '(s, text) := c in
  match DNARegex_transcribe tt (sch_of_string s) with
  | Ok t => sch_eqb_list t (sch_of_string text)
  | Err _ => false
  end.

(* find_resistance as regenerated, against what the implementation reports for the same /label
   qualifiers (None: it raised RuntimeError) *)
Definition check_resistance_src (c : list (option (list string)) * option string) : bool :=
  let '(feats, res) := c in
  match find_resistance_src (LR "r" (map LF feats)), res with
  | Ok (Some a), Some b => String.eqb a b
  | Err XRuntimeError, None => true
  | _, _ => false
  end.

(* SrcEquivTranscribe.re_read (the model of how re reads the compiled text) against the parse tree
   CPython's own re parser builds for the same text *)
From MV Require SrcEquivTranscribe.
Definition check_re_read (c : string * pattern) : bool :=
  let '(text, p) := c in
  match SrcEquivTranscribe.re_read (sch_of_string text) with
  | Some q => pattern_eqb p q
  | None => false
  end.
