(* SrcEquivHeap.v — the in-place methods of core/_assembly.py as regenerated into Gen/Src.v
   (heap style, PyHeap.v): whatever happens inside AssemblyManager.assemble, the records the
   caller passed read afterwards exactly as before (C07), for every heap, every manager and
   every outcome — normal return, documented error, or any exception raised half-way through
   the dereferencing of the citations. *)
From MV Require Import Base Record Py PyObj PyHeap.
From MV.Gen Require Import Src.
From Coq Require Import String Lia.
Local Open Scope Z_scope.

(* ---------- shape: everything but the contents of the citation lists -------------------- *)

Definition feat_shape_eq (a b : feature) : Prop :=
  fsource a = fsource b /\ ftype a = ftype b /\ floc a = floc b /\ qid (fquals a) = qid (fquals b)
  /\ is_none (qcits (fquals a)) = is_none (qcits (fquals b)).

Definition rec_shape_eq (a b : pyrecord) : Prop :=
  pr_kind a = pr_kind b /\ pr_seq a = pr_seq b /\ pr_id a = pr_id b /\ pr_annotations a = pr_annotations b
  /\ pr_letter_annotations a = pr_letter_annotations b /\ pr_name a = pr_name b
  /\ Forall2 feat_shape_eq (pr_features a) (pr_features b).

Lemma feat_shape_refl a : feat_shape_eq a a.
Proof. repeat split. Qed.
Lemma feats_shape_refl l : Forall2 feat_shape_eq l l.
Proof. induction l; constructor; auto using feat_shape_refl. Qed.
Lemma rec_shape_refl a : rec_shape_eq a a.
Proof. repeat split. apply feats_shape_refl. Qed.

Lemma feat_shape_trans a b c : feat_shape_eq a b -> feat_shape_eq b c -> feat_shape_eq a c.
Proof. unfold feat_shape_eq. intuition congruence. Qed.
Lemma feats_shape_trans l1 : forall l2 l3,
  Forall2 feat_shape_eq l1 l2 -> Forall2 feat_shape_eq l2 l3 -> Forall2 feat_shape_eq l1 l3.
Proof.
  induction l1 as [|a l1 IH]; intros l2 l3 H12 H23; inversion H12; subst; inversion H23; subst; constructor.
  - eapply feat_shape_trans; eassumption.
  - eapply IH; eassumption.
Qed.
Lemma rec_shape_trans a b c : rec_shape_eq a b -> rec_shape_eq b c -> rec_shape_eq a c.
Proof.
  unfold rec_shape_eq. intros (?&?&?&?&?&?&HF1) (?&?&?&?&?&?&HF2).
  repeat split; try congruence. eapply feats_shape_trans; eassumption.
Qed.

(* ---------- heaps ---------------------------------------------------------------------------- *)

Lemma heap_get_set_same h l r : heap_get h l <> None -> heap_get (heap_set h l r) l = Some r.
Proof.
  induction h as [|[k r0] h IH]; cbn; [congruence|].
  destruct (Nat.eqb_spec k l) as [->|Hn]; cbn.
  - now rewrite Nat.eqb_refl.
  - intros H. destruct (Nat.eqb_spec k l); [congruence|]. now apply IH.
Qed.

Lemma heap_get_set_other h l l' r : l <> l' -> heap_get (heap_set h l r) l' = heap_get h l'.
Proof.
  intros Hn. induction h as [|[k r0] h IH]; cbn; [reflexivity|].
  destruct (Nat.eqb_spec k l) as [->|Hk]; cbn.
  - destruct (Nat.eqb_spec l l'); [congruence|reflexivity].
  - destruct (Nat.eqb_spec k l'); [reflexivity|exact IH].
Qed.

Lemma heap_get_app_some h h' l r : heap_get h l = Some r -> heap_get (h ++ h') l = Some r.
Proof.
  induction h as [|[k r0] h IH]; cbn; [discriminate|].
  destruct (Nat.eqb k l); auto.
Qed.

Lemma heap_get_in_keys h l r : heap_get h l = Some r -> In l (heap_keys h).
Proof.
  induction h as [|[k r0] h IH]; cbn; [discriminate|].
  destruct (Nat.eqb_spec k l); [now left|right; now apply IH].
Qed.

Lemma heap_get_not_in h l : ~ In l (heap_keys h) -> heap_get h l = None.
Proof.
  induction h as [|[k r0] h IH]; cbn; [reflexivity|].
  intros H. destruct (Nat.eqb_spec k l); [tauto|apply IH; tauto].
Qed.

Lemma max_ge l : forall x, In x l -> (x <= fold_right Nat.max 0%nat l)%nat.
Proof. induction l as [|a l IH]; cbn; [tauto|]. intros x [->|H]; [lia|specialize (IH x H); lia]. Qed.

Lemma heap_fresh_not_in h : ~ In (heap_fresh h) (heap_keys h).
Proof. unfold heap_fresh. intros H. apply max_ge in H. lia. Qed.

(* ---------- the invariant: the caller's records keep their shape ------------------------------ *)

Section Invariant.
  Context (h0 : heap).

  Definition R (h : heap) : Prop :=
    forall l r0, heap_get h0 l = Some r0 -> exists r, heap_get h l = Some r /\ rec_shape_eq r0 r.

  Lemma R_refl : R h0.
  Proof. intros l r0 H. exists r0. split; [exact H|apply rec_shape_refl]. Qed.

  Definition fresh (l : nat) : Prop := heap_get h0 l = None.

  (* m keeps the invariant whatever its outcome, and its normal results satisfy Q *)
  Definition okq {A} (m : hexc A) (Q : A -> Prop) : Prop :=
    forall h, R h -> R (snd (m h)) /\ forall a, fst (m h) = Ok a -> Q a.
  Definition ok {A} (m : hexc A) : Prop := okq m (fun _ => True).

  Lemma okq_weaken {A} (m : hexc A) (Q Q' : A -> Prop) : okq m Q -> (forall a, Q a -> Q' a) -> okq m Q'.
  Proof. intros H HQ h Hh. destruct (H h Hh) as [H1 H2]. split; [exact H1|]. intros a Ha. apply HQ, H2, Ha. Qed.

  Lemma ok_of_okq {A} (m : hexc A) Q : okq m Q -> ok m.
  Proof. intros H. eapply okq_weaken; [exact H|auto]. Qed.

  Lemma okq_ret {A} (a : A) (Q : A -> Prop) : Q a -> okq (hret a) Q.
  Proof. intros Ha h Hh. split; [exact Hh|]. cbn. intros a' E. inversion E; subst. exact Ha. Qed.
  Lemma ok_ret {A} (a : A) : ok (hret a).
  Proof. now apply okq_ret. Qed.
  Lemma okq_raise {A} e (Q : A -> Prop) : okq (hraise e) Q.
  Proof. intros h Hh. split; [exact Hh|]. cbn. discriminate. Qed.
  Lemma ok_lift {A} (x : exc A) : ok (hlift x).
  Proof. intros h Hh. split; [exact Hh|auto]. Qed.
  Lemma ok_pure {A} (f : heap -> exc A) : ok (hpure f).
  Proof. intros h Hh. split; [exact Hh|auto]. Qed.

  Lemma okq_bind {A B} (m : hexc A) (k : A -> hexc B) (Q : A -> Prop) (Q' : B -> Prop) :
    okq m Q -> (forall a, Q a -> okq (k a) Q') -> okq (hbind m k) Q'.
  Proof.
    intros Hm Hk h Hh. unfold hbind. destruct (Hm h Hh) as [H1 H2].
    destruct (m h) as [[a|e] h'] eqn:E; cbn in *.
    - apply Hk; [apply H2; reflexivity|exact H1].
    - split; [exact H1|discriminate].
  Qed.
  Lemma ok_bind {A B} (m : hexc A) (k : A -> hexc B) : ok m -> (forall a, ok (k a)) -> ok (hbind m k).
  Proof. intros Hm Hk. eapply okq_bind; [exact Hm|]. intros a _. apply Hk. Qed.

  Lemma ok_for0 {X S} (xs : list X) (body : X -> S -> hexc S) :
    (forall x st, ok (body x st)) -> forall st, ok (hfor0 xs st body).
  Proof.
    intros Hb. induction xs as [|x xs IH]; intros st; cbn [hfor0]; [apply ok_ret|].
    apply ok_bind; [apply Hb|exact IH].
  Qed.

  Lemma ok_mapM {X Y} (f : X -> hexc Y) (xs : list X) : (forall x, ok (f x)) -> ok (hmapM f xs).
  Proof.
    intros Hf. induction xs as [|x xs IH]; cbn [hmapM]; [apply ok_ret|].
    apply ok_bind; [apply Hf|]. intros y. apply ok_bind; [exact IH|]. intros ys. apply ok_ret.
  Qed.

  Lemma ok_if {A} (b : bool) (m1 m2 : hexc A) : ok m1 -> ok m2 -> ok (if b then m1 else m2).
  Proof. destruct b; auto. Qed.

  Lemma ok_finally {A} (body : hexc A) (fin : hexc unit) : ok body -> ok fin -> ok (hfinally body fin).
  Proof.
    intros Hb Hf h Hh. unfold hfinally. destruct (Hb h Hh) as [H1 _].
    destruct (body h) as [r h1]. cbn in H1. destruct (Hf h1 H1) as [H2 _].
    destruct (fin h1) as [[u|e] h2]; cbn in *; auto.
  Qed.

  (* reads *)
  Lemma ok_rec l : ok (h_rec l).
  Proof. intros h Hh. unfold h_rec. destruct (heap_get h l); cbn; auto. Qed.
  Lemma ok_features l : ok (h_features l).
  Proof. unfold h_features. apply ok_bind; [apply ok_rec|]. intros r. apply ok_ret. Qed.
  Lemma ok_feat f : ok (h_feat f).
  Proof.
    destruct f as [l j]. cbn [h_feat]. apply ok_bind; [apply ok_rec|]. intros r.
    destruct (nth_error (pr_features r) j); [apply ok_ret|apply okq_raise].
  Qed.
  Lemma ok_has_citation f : ok (h_quals_has_citation f).
  Proof. unfold h_quals_has_citation. apply ok_bind; [apply ok_feat|]. intros x. apply ok_ret. Qed.
  Lemma ok_cits_len f : ok (h_cits_len f).
  Proof. unfold h_cits_len. apply ok_bind; [apply ok_feat|]. intros x. apply ok_ret. Qed.
  Lemma ok_cit_at f i : ok (h_cit_at f i).
  Proof.
    unfold h_cit_at. apply ok_bind; [apply ok_feat|]. intros x.
    destruct (qcits (fquals x)); [apply ok_lift|apply okq_raise].
  Qed.
  Lemma ok_cits_list f : ok (h_cits_list f).
  Proof.
    unfold h_cits_list. apply ok_bind; [apply ok_feat|]. intros x.
    destruct (qcits (fquals x)); [apply ok_ret|apply okq_raise].
  Qed.
  Lemma ok_refs_get_or_empty l : ok (h_refs_get_or_empty l).
  Proof. unfold h_refs_get_or_empty. apply ok_bind; [apply ok_rec|]. intros r. apply ok_ret. Qed.
  Lemma ok_refs l : ok (h_refs l).
  Proof.
    unfold h_refs. apply ok_bind; [apply ok_rec|]. intros r.
    destruct (an_references (pr_annotations r)); [apply ok_ret|apply okq_raise].
  Qed.
  Lemma ok_get_id l : ok (h_get_id l).
  Proof. unfold h_get_id. apply ok_bind; [apply ok_rec|]. intros r. apply ok_ret. Qed.

  (* writes into an object the caller does not hold *)
  Lemma ok_put_fresh l r : fresh l -> ok (h_put l r).
  Proof.
    intros Hl h Hh. split; [|auto]. cbn. intros l' r0 H0.
    destruct (Nat.eq_dec l l') as [->|Hn]; [unfold fresh in Hl; congruence|].
    rewrite heap_get_set_other by exact Hn. apply Hh, H0.
  Qed.

  (* a write that keeps the shape of the record *)
  Lemma ok_put_shape l r : (forall h rcur, R h -> heap_get h l = Some rcur -> rec_shape_eq rcur r) ->
    forall h, R h -> heap_get h l <> None -> R (heap_set h l r).
  Proof.
    intros Hs h Hh Hex l' r0 H0.
    destruct (Nat.eq_dec l l') as [<-|Hn].
    - destruct (Hh l r0 H0) as (rc & Hc & Hsh).
      exists r. split; [apply heap_get_set_same; congruence|].
      eapply rec_shape_trans; [exact Hsh|]. eapply Hs; eassumption.
    - rewrite heap_get_set_other by exact Hn. apply Hh, H0.
  Qed.

  Lemma set_nth_shape fs : forall j x y, nth_error fs j = Some x -> feat_shape_eq x y ->
    Forall2 feat_shape_eq fs (set_nth fs j y).
  Proof.
    induction fs as [|a fs IH]; intros [|j] x y Hn Hxy; cbn in *; try discriminate.
    - inversion Hn; subst. constructor; [exact Hxy|apply feats_shape_refl].
    - constructor; [apply feat_shape_refl|]. eapply IH; eassumption.
  Qed.

  (* replacing the contents of a citation list that exists *)
  Lemma ok_feat_put_cits l j cs : forall h, R h ->
    (forall r x, heap_get h l = Some r -> nth_error (pr_features r) j = Some x -> qcits (fquals x) <> None) ->
    R (snd (h_feat_put_cits (FRef l j) cs h)).
  Proof.
    intros h Hh Hsome. cbn [h_feat_put_cits]. unfold hbind, h_rec.
    destruct (heap_get h l) as [r|] eqn:Er; cbn; [|exact Hh].
    destruct (nth_error (pr_features r) j) as [x|] eqn:Ex; cbn; [|exact Hh].
    intros l' r0 H0.
    destruct (Nat.eq_dec l l') as [<-|Hn].
    - destruct (Hh l r0 H0) as (rc & Hc & Hsh). rewrite Er in Hc. inversion Hc; subst rc.
      eexists. split; [apply heap_get_set_same; congruence|].
      eapply rec_shape_trans; [exact Hsh|].
      unfold rec_shape_eq, rec_set_features. cbn. repeat split.
      eapply set_nth_shape; [exact Ex|].
      specialize (Hsome r x eq_refl Ex). unfold feat_shape_eq, feat_set_cits. cbn.
      repeat split. destruct (qcits (fquals x)); [reflexivity|congruence].
    - rewrite heap_get_set_other by exact Hn. apply Hh, H0.
  Qed.

  Lemma ok_cit_setitem f i v : ok (h_cit_setitem f i v).
  Proof.
    intros h Hh. split; [|auto]. destruct f as [l j].
    unfold h_cit_setitem. unfold hbind at 1. cbn [h_feat]. unfold hbind at 1, h_rec.
    destruct (heap_get h l) as [r|] eqn:Er; cbn; [|exact Hh].
    destruct (nth_error (pr_features r) j) as [x|] eqn:Ex; cbn; [|exact Hh].
    destruct (qcits (fquals x)) as [cs|] eqn:Ec; cbn; [|exact Hh].
    destruct ((i <? - py_len cs) || (py_len cs <=? i)); cbn; [exact Hh|].
    apply ok_feat_put_cits; [exact Hh|].
    intros r' x' Hr' Hx'. rewrite Er in Hr'. inversion Hr'; subst r'. rewrite Ex in Hx'. inversion Hx'; subst x'.
    congruence.
  Qed.

  Lemma ok_cits_assign f vs : ok (h_cits_assign f vs).
  Proof.
    intros h Hh. split; [|auto]. destruct f as [l j].
    unfold h_cits_assign. unfold hbind at 1. cbn [h_feat]. unfold hbind at 1, h_rec.
    destruct (heap_get h l) as [r|] eqn:Er; cbn; [|exact Hh].
    destruct (nth_error (pr_features r) j) as [x|] eqn:Ex; cbn; [|exact Hh].
    destruct (qcits (fquals x)) as [cs|] eqn:Ec; cbn; [|exact Hh].
    apply ok_feat_put_cits; [exact Hh|].
    intros r' x' Hr' Hx'. rewrite Er in Hr'. inversion Hr'; subst r'. rewrite Ex in Hx'. inversion Hx'; subst x'.
    congruence.
  Qed.

  (* a new object is one the caller does not hold *)
  Lemma okq_alloc r : okq (h_alloc r) fresh.
  Proof.
    intros h Hh. split.
    - cbn. intros l r0 H0. destruct (Hh l r0 H0) as (rc & Hc & Hs).
      exists rc. split; [now apply heap_get_app_some|exact Hs].
    - cbn. intros a E. inversion E; subst a. unfold fresh.
      destruct (heap_get h0 (heap_fresh h)) as [r0|] eqn:E0; [|reflexivity].
      destruct (Hh _ _ E0) as (rc & Hc & _). apply heap_get_in_keys in Hc.
      exfalso. now apply (heap_fresh_not_in h).
  Qed.

  Lemma ok_refs_setdefault l : fresh l -> ok (h_refs_setdefault l).
  Proof.
    intros Hl. unfold h_refs_setdefault. apply ok_bind; [apply ok_rec|]. intros r.
    destruct (an_references (pr_annotations r)); [apply ok_ret|now apply ok_put_fresh].
  Qed.
  Lemma ok_refs_append l v : fresh l -> ok (h_refs_append l v).
  Proof.
    intros Hl. unfold h_refs_append. apply ok_bind; [apply ok_rec|]. intros r.
    destruct (an_references (pr_annotations r)); [now apply ok_put_fresh|apply okq_raise].
  Qed.
  Lemma ok_set_id l v : fresh l -> ok (h_set_id l v).
  Proof. intros Hl. unfold h_set_id. apply ok_bind; [apply ok_rec|]. intros r. now apply ok_put_fresh. Qed.
  Lemma ok_set_name l v : fresh l -> ok (h_set_name l v).
  Proof. intros Hl. unfold h_set_name. apply ok_bind; [apply ok_rec|]. intros r. now apply ok_put_fresh. Qed.
  Lemma ok_ann_setitem l k v : fresh l -> ok (h_ann_setitem l k v).
  Proof.
    intros Hl. unfold h_ann_setitem. apply ok_bind; [apply ok_rec|]. intros r.
    apply ok_bind; [apply ok_lift|]. intros a. now apply ok_put_fresh.
  Qed.

  (* ---------- the translated methods ------------------------------------------------------- *)

  Lemma ok_deref_citations self l : ok (AssemblyManager_deref_citations self l).
  Proof.
    unfold AssemblyManager_deref_citations.
    apply ok_bind; [apply ok_features|]. intros fs.
    apply ok_bind; [|intros; apply ok_ret].
    apply ok_for0. intros f _.
    apply ok_bind; [apply ok_cits_len|]. intros n.
    apply ok_bind; [|intros; apply ok_ret].
    apply ok_for0. intros i _.
    apply ok_bind; [apply ok_cit_at|]. intros ref.
    apply ok_bind; [apply ok_lift|]. intros [m|]; [|apply okq_raise].
    apply ok_bind; [apply ok_lift|]. intros g.
    apply ok_bind; [apply ok_lift|]. intros z.
    apply ok_bind; [apply ok_refs_get_or_empty|]. intros refs.
    apply ok_bind; [apply ok_lift|]. intros v.
    apply ok_bind; [apply ok_cit_setitem|]. intros; apply ok_ret.
  Qed.

  Lemma ok_ref_citations self l : fresh l -> ok (AssemblyManager_ref_citations self l).
  Proof.
    intros Hl. unfold AssemblyManager_ref_citations.
    apply ok_bind; [now apply ok_refs_setdefault|]. intros _.
    apply ok_bind; [apply ok_features|]. intros fs.
    apply ok_bind; [|intros; apply ok_ret].
    apply ok_for0. intros f _.
    apply ok_bind; [apply ok_cits_len|]. intros n.
    apply ok_bind; [|intros; apply ok_ret].
    apply ok_for0. intros i _.
    apply ok_bind; [apply ok_cit_at|]. intros ref.
    apply ok_bind; [apply ok_refs|]. intros refs.
    apply ok_bind.
    { apply ok_if; [|apply ok_ret]. apply ok_bind; [now apply ok_refs_append|]. intros; apply ok_ret. }
    intros _. apply ok_bind; [apply ok_refs|]. intros refs'.
    apply ok_bind; [apply ok_lift|]. intros z.
    apply ok_bind; [apply ok_cit_setitem|]. intros; apply ok_ret.
  Qed.

  Lemma ok_annotate_assembly self l : fresh l -> ok (AssemblyManager_annotate_assembly self l).
  Proof.
    intros Hl. unfold AssemblyManager_annotate_assembly.
    repeat (apply ok_bind; [first [now apply ok_set_id | now apply ok_set_name | now apply ok_ann_setitem
                                  | apply ok_get_id
                                  | apply ok_mapM; intros; apply ok_bind; [apply ok_get_id|intros; apply ok_ret]]|intros ?]).
    apply ok_ret.
  Qed.
End Invariant.

(* ---------- the snapshot taken before the try --------------------------------------------- *)

Definition cits_at (h : heap) (l j : nat) : option (option (list qcit)) :=
  match heap_get h l with
  | Some r => match nth_error (pr_features r) j with Some x => Some (qcits (fquals x)) | None => None end
  | None => None
  end.

Definition snap_js (r : pyrecord) (l : nat) (js : list nat) : list (featref * list qcit) :=
  List.concat (map (fun j => match nth_error (pr_features r) j with
                             | Some x => match qcits (fquals x) with Some cs => [(FRef l j, cs)] | None => [] end
                             | None => []
                             end) js).

Definition snap_body (feature_ : featref) (acc : list (featref * list qcit)) : hexc (list (featref * list qcit)) :=
  t4 <~ h_quals_has_citation feature_ ;;
  if t4 then t3 <~ h_cits_list feature_ ;; hret (acc ++ [(feature_, t3)]) else hret acc.

Lemma snap_inner h l r js : heap_get h l = Some r ->
  Forall (fun j => nth_error (pr_features r) j <> None) js ->
  forall acc, hfor0 (map (FRef l) js) acc snap_body h = (Ok (acc ++ snap_js r l js), h).
Proof.
  intros Hr. induction js as [|j js IH]; intros Hall acc; cbn [map hfor0].
  - unfold snap_js. cbn. now rewrite app_nil_r.
  - inversion Hall as [|? ? Hj Hjs]; subst.
    unfold hbind at 1. unfold snap_body at 1. unfold hbind at 1.
    unfold h_quals_has_citation, hbind at 1. cbn [h_feat]. unfold hbind at 1, h_rec. rewrite Hr.
    destruct (nth_error (pr_features r) j) as [x|] eqn:Ex; [|congruence]. cbn [hret].
    unfold snap_js. cbn [map List.concat]. rewrite Ex.
    destruct (qcits (fquals x)) as [cs|] eqn:Ec; cbn [is_none negb].
    + unfold hbind at 1. unfold h_cits_list, hbind at 1. cbn [h_feat]. unfold hbind at 1, h_rec. rewrite Hr, Ex.
      cbn [hret]. rewrite Ec. cbn [hret].
      rewrite (IH Hjs). f_equal. f_equal. unfold snap_js. now rewrite <- app_assoc.
    + cbn [hret]. rewrite (IH Hjs). reflexivity.
Qed.

Lemma seq_valid {A} (fs : list A) : Forall (fun j => nth_error fs j <> None) (seq 0 (List.length fs)).
Proof.
  apply Forall_forall. intros j Hj. apply in_seq in Hj. apply nth_error_Some. lia.
Qed.

Definition snap_elem (h : heap) (e : entity) : list (featref * list qcit) :=
  match heap_get h (ent_id e) with
  | Some r => snap_js r (ent_id e) (seq 0 (List.length (pr_features r)))
  | None => []
  end.

Definition snap_step (elem : entity) (acc : list (featref * list qcit)) : hexc (list (featref * list qcit)) :=
  t2 <~ h_features (ent_id elem) ;; hfor0 t2 acc snap_body.

Lemma snap_outer h elems : forall acc,
  hfor0 elems acc snap_step h = (Ok (acc ++ List.concat (map (snap_elem h) elems)), h)
  \/ exists e, hfor0 elems acc snap_step h = (Err e, h).
Proof.
  induction elems as [|e elems IH]; intros acc; cbn [hfor0 map List.concat].
  - left. unfold hret. now rewrite app_nil_r.
  - assert (E : (st' <~ snap_step e acc ;; hfor0 elems st' snap_step) h =
                match heap_get h (ent_id e) with
                | Some r => hfor0 elems (acc ++ snap_js r (ent_id e) (seq 0 (List.length (pr_features r)))) snap_step h
                | None => (Err XDangling, h)
                end).
    { unfold hbind at 1. unfold snap_step at 1. unfold hbind at 1. unfold h_features, hbind at 1, h_rec.
      destruct (heap_get h (ent_id e)) as [r|] eqn:Er; cbn [hret]; [|reflexivity].
      now rewrite (snap_inner h (ent_id e) r _ Er (seq_valid _)). }
    rewrite E. unfold snap_elem at 1.
    destruct (heap_get h (ent_id e)) as [r|] eqn:Er.
    + destruct (IH (acc ++ snap_js r (ent_id e) (seq 0 (List.length (pr_features r))))) as [H|[x H]].
      * left. rewrite H. now rewrite <- app_assoc.
      * right. exists x. exact H.
    + right. eexists. reflexivity.
Qed.

(* what the snapshot holds is what the heap held, and every citation list of every element's
   record is in it *)
Lemma snap_sound h elems f cs : In (f, cs) (List.concat (map (snap_elem h) elems)) ->
  match f with FRef l j => cits_at h l j = Some (Some cs) end.
Proof.
  intros H. apply in_concat in H. destruct H as (x & Hx & Hin). apply in_map_iff in Hx.
  destruct Hx as (e & <- & _). unfold snap_elem in Hin.
  destruct (heap_get h (ent_id e)) as [r|] eqn:Er; [|contradiction].
  unfold snap_js in Hin. apply in_concat in Hin. destruct Hin as (y & Hy & Hin).
  apply in_map_iff in Hy. destruct Hy as (j & <- & _).
  destruct (nth_error (pr_features r) j) as [x|] eqn:Ex; [|contradiction].
  destruct (qcits (fquals x)) as [cs'|] eqn:Ec; [|contradiction].
  destruct Hin as [Hin|[]]. inversion Hin; subst. unfold cits_at. now rewrite Er, Ex, Ec.
Qed.

Lemma snap_complete h elems e j cs : In e elems -> cits_at h (ent_id e) j = Some (Some cs) ->
  In (FRef (ent_id e) j, cs) (List.concat (map (snap_elem h) elems)).
Proof.
  intros He Hc. apply in_concat. exists (snap_elem h e). split; [now apply in_map|].
  unfold cits_at in Hc. unfold snap_elem.
  destruct (heap_get h (ent_id e)) as [r|]; [|discriminate].
  destruct (nth_error (pr_features r) j) as [x|] eqn:Ex; [|discriminate].
  inversion Hc as [Hq]. unfold snap_js. apply in_concat.
  eexists. split.
  - apply in_map_iff. exists j. split; [reflexivity|]. apply in_seq.
    assert (j < List.length (pr_features r))%nat by (apply nth_error_Some; congruence). lia.
  - rewrite Ex, Hq. now left.
Qed.

(* ---------- the restoration in the finally block ---------------------------------------------- *)

Lemma nth_set_nth_same {A} (l : list A) : forall j x, (j < List.length l)%nat -> nth_error (set_nth l j x) j = Some x.
Proof. induction l as [|a l IH]; intros [|j] x H; cbn in *; try lia; [reflexivity|apply IH; lia]. Qed.
Lemma nth_set_nth_other {A} (l : list A) : forall j j' x, j <> j' -> nth_error (set_nth l j x) j' = nth_error l j'.
Proof.
  induction l as [|a l IH]; intros [|j] [|j'] x H; cbn; try reflexivity; try congruence.
  apply IH. congruence.
Qed.
Lemma Forall2_nth {A B} (P : A -> B -> Prop) l1 : forall l2 j x, Forall2 P l1 l2 -> nth_error l1 j = Some x ->
  exists y, nth_error l2 j = Some y /\ P x y.
Proof.
  induction l1 as [|a l1 IH]; intros l2 [|j] x HF Hn; inversion HF; subst; cbn in *; try discriminate.
  - inversion Hn; subst. eauto.
  - eapply IH; eassumption.
Qed.
Lemma Forall2_nth_r {A B} (P : A -> B -> Prop) l1 : forall l2 j y, Forall2 P l1 l2 -> nth_error l2 j = Some y ->
  exists x, nth_error l1 j = Some x /\ P x y.
Proof.
  induction l1 as [|a l1 IH]; intros l2 [|j] y HF Hn; inversion HF; subst; cbn in *; try discriminate.
  - inversion Hn; subst. eauto.
  - eapply IH; eassumption.
Qed.

Definition fin_body : featref * list qcit -> unit -> hexc unit :=
  fun '(feature_, citation) _ => _ <~ h_cits_assign feature_ citation ;; hret tt.

Section Restore.
  Context (h0 : heap).

  Definition restored (h : heap) (l j : nat) : Prop :=
    forall c0, cits_at h0 l j = Some c0 -> cits_at h l j = Some c0.

  Lemma restore_step h l j cs : R h0 h -> cits_at h0 l j = Some (Some cs) ->
    exists h', h_cits_assign (FRef l j) cs h = (Ok tt, h') /\ R h0 h' /\ restored h' l j
               /\ forall l' j', restored h l' j' -> restored h' l' j'.
  Proof.
    intros Hh H0. unfold cits_at in H0.
    destruct (heap_get h0 l) as [r0|] eqn:E0; [|discriminate].
    destruct (nth_error (pr_features r0) j) as [x0|] eqn:Ex0; [|discriminate].
    inversion H0 as [Hq0]. clear H0.
    destruct (Hh l r0 E0) as (r & Er & Hs).
    destruct Hs as (_&_&_&_&_&_&HF).
    destruct (Forall2_nth _ _ _ _ _ HF Ex0) as (x & Ex & Hx).
    destruct Hx as (_&_&_&_&Hn). rewrite Hq0 in Hn. cbn in Hn.
    destruct (qcits (fquals x)) as [cur|] eqn:Ec; [|discriminate].
    assert (Hj : (j < List.length (pr_features r))%nat) by (apply nth_error_Some; congruence).
    pose proof (ok_cits_assign h0 (FRef l j) cs h Hh) as [HR _].
    unfold h_cits_assign in *. unfold hbind at 1 in HR. unfold hbind at 1. cbn [h_feat] in *.
    unfold hbind at 1 in HR. unfold hbind at 1. unfold h_rec in *. rewrite Er in *. rewrite Ex in *. cbn [hret] in *.
    rewrite Ec in *. cbn [h_feat_put_cits] in *. unfold hbind, h_rec in *. rewrite Er in *. rewrite Ex in *.
    cbn [h_put] in *. cbn [snd] in HR.
    eexists. split; [reflexivity|]. split; [exact HR|].
    assert (Hsame : cits_at (heap_set h l (rec_set_features r (set_nth (pr_features r) j (feat_set_cits x (Some cs))))) l j
                    = Some (Some cs)).
    { unfold cits_at. rewrite heap_get_set_same by congruence. cbn [rec_set_features pr_features].
      rewrite nth_set_nth_same by exact Hj. reflexivity. }
    split.
    - intros c0 Hc0. unfold cits_at in Hc0. rewrite E0, Ex0, Hq0 in Hc0. inversion Hc0; subst. exact Hsame.
    - intros l' j' Hres c0 Hc0.
      destruct (Nat.eq_dec l l') as [<-|Hl].
      + destruct (Nat.eq_dec j j') as [<-|Hjj].
        * unfold cits_at in Hc0. rewrite E0, Ex0, Hq0 in Hc0. inversion Hc0; subst. exact Hsame.
        * specialize (Hres c0 Hc0). unfold cits_at in *. rewrite heap_get_set_same by congruence.
          rewrite Er in Hres. cbn [rec_set_features pr_features]. now rewrite nth_set_nth_other by exact Hjj.
      + specialize (Hres c0 Hc0). unfold cits_at in *. now rewrite heap_get_set_other by exact Hl.
  Qed.

  Lemma restore_loop cits : forall h, R h0 h ->
    (forall f cs, In (f, cs) cits -> match f with FRef l j => cits_at h0 l j = Some (Some cs) end) ->
    exists h', hfor0 cits tt fin_body h = (Ok tt, h') /\ R h0 h'
               /\ (forall l j cs, In (FRef l j, cs) cits -> restored h' l j)
               /\ (forall l j, restored h l j -> restored h' l j).
  Proof.
    induction cits as [|[[l j] cs] cits IH]; intros h Hh Hsound; cbn [hfor0].
    - exists h. repeat split; auto. intros ? ? ? [].
    - destruct (restore_step h l j cs Hh (Hsound (FRef l j) cs (or_introl eq_refl))) as (h1 & E1 & R1 & Res1 & Mono1).
      destruct (IH h1 R1 (fun f c H => Hsound f c (or_intror H))) as (h2 & E2 & R2 & Res2 & Mono2).
      exists h2. split.
      + unfold hbind at 1. unfold fin_body at 1. unfold hbind at 1. rewrite E1. cbn [hret]. exact E2.
      + split; [exact R2|]. split.
        * intros l' j' cs' [H|H]; [inversion H; subst; now apply Mono2|eapply Res2; eassumption].
        * intros l' j' H. now apply Mono2, Mono1.
  Qed.
End Restore.

(* two records of the same shape whose citation lists agree are the same record *)
Lemma feats_eq_of_shape fs0 : forall fs, Forall2 feat_shape_eq fs0 fs ->
  (forall j x0 x, nth_error fs0 j = Some x0 -> nth_error fs j = Some x -> qcits (fquals x0) = qcits (fquals x)) ->
  fs0 = fs.
Proof.
  induction fs0 as [|a fs0 IH]; intros fs HF Hq; inversion HF as [|? b ? fs' Hab HF']; subst; [reflexivity|].
  f_equal.
  - specialize (Hq 0%nat a b eq_refl eq_refl). destruct Hab as (H1&H2&H3&H4&_).
    destruct a as [s t [qi qc] lo], b as [s' t' [qi' qc'] lo']. cbn in *. congruence.
  - apply IH; [exact HF'|]. intros j x0 x H0 H. exact (Hq (S j) x0 x H0 H).
Qed.

Lemma rec_eq_of_shape r0 r : rec_shape_eq r0 r ->
  (forall j x0 x, nth_error (pr_features r0) j = Some x0 -> nth_error (pr_features r) j = Some x ->
                  qcits (fquals x0) = qcits (fquals x)) ->
  r0 = r.
Proof.
  intros (H1&H2&H3&H4&H5&H6&HF) Hq. pose proof (feats_eq_of_shape _ _ HF Hq) as E.
  destruct r0, r; cbn in *; congruence.
Qed.

(* ---------- AssemblyManager.assemble leaves the caller's records as they were ------------------ *)

Definition try_body (fuel : nat) (self : asmgr) (modmap : list (pyrecord * entity)) : hexc (nat * list pywarning) :=
  let seen := [] in
  seen <~ hfor0 (am_elements self) seen (fun elem seen =>
    seen <~ (if (negb (py_set_mem (ent_id elem) seen)) then
      let seen := py_set_add seen (ent_id elem) in
      t5 <~ AssemblyManager_deref_citations self (ent_id elem) ;;
      hret seen
    else hret seen) ;;
    hret seen) ;;
  t6 <~ hpure (fun h => AssemblyManager_generate_assembly fuel (refresh h self) (refresh h modmap)) ;;
  let '(assembly_v, warnings_acc) := t6 in
  assembly <~ h_alloc assembly_v ;;
  t7 <~ AssemblyManager_annotate_assembly self assembly ;;
  t8 <~ AssemblyManager_ref_citations self assembly ;;
  hret (assembly, warnings_acc).

Lemma ok_try_body h0 fuel self modmap : ok h0 (try_body fuel self modmap).
Proof.
  unfold try_body.
  apply ok_bind.
  { apply ok_for0. intros elem seen. apply ok_bind; [|intros; apply ok_ret].
    apply ok_if; [|apply ok_ret]. apply ok_bind; [apply ok_deref_citations|intros; apply ok_ret]. }
  intros seen. apply ok_bind; [apply ok_pure|]. intros [assembly_v ws].
  eapply okq_bind; [apply okq_alloc|]. intros assembly Hf.
  apply ok_bind; [now apply ok_annotate_assembly|]. intros _.
  apply ok_bind; [now apply ok_ref_citations|]. intros _. apply ok_ret.
Qed.

Lemma assemble_unfold fuel self :
  AssemblyManager_assemble fuel self =
  (t1 <~ hpure (fun h => AssemblyManager_generate_modules_map (refresh h self)) ;;
   citations <~ hfor0 (am_elements self) [] snap_step ;;
   r <~ hfinally (try_body fuel self t1) (_ <~ hfor0 citations tt fin_body ;; hret tt) ;;
   (let '(assembly, warnings_acc) := r in hret (assembly, warnings_acc))).
Proof. reflexivity. Qed.

Theorem assemble_restores fuel self h0 :
  (forall l, In l (heap_keys h0) -> In l (map ent_id (am_elements self))) ->
  forall l r0, heap_get h0 l = Some r0 -> heap_get (snd (AssemblyManager_assemble fuel self h0)) l = Some r0.
Proof.
  intros Hkeys l r0 H0. rewrite assemble_unfold.
  unfold hbind at 1. unfold hpure at 1.
  destruct (AssemblyManager_generate_modules_map (refresh h0 self)) as [modmap|e]; [|exact H0].
  unfold hbind at 1.
  destruct (snap_outer h0 (am_elements self) []) as [Es|[e Es]]; rewrite Es; [|exact H0]. cbn [app].
  set (cits := List.concat (map (snap_elem h0) (am_elements self))).
  unfold hbind at 1. unfold hfinally.
  pose proof (ok_try_body h0 fuel self modmap h0 (R_refl h0)) as [R1 _].
  destruct (try_body fuel self modmap h0) as [res h1]. cbn [snd] in R1.
  destruct (restore_loop h0 cits h1 R1) as (h2 & E2 & R2 & Res2 & _).
  { intros f cs Hin. apply (snap_sound h0 (am_elements self)). exact Hin. }
  unfold hbind at 1. rewrite E2. cbn [hret].
  assert (Hfinal : heap_get h2 l = Some r0).
  { destruct (R2 l r0 H0) as (r & Er & Hs). rewrite Er. f_equal. symmetry.
    apply rec_eq_of_shape; [exact Hs|]. intros j x0 x Hx0 Hx.
    destruct (qcits (fquals x0)) as [cs|] eqn:Eq0.
    - assert (Hl : In l (map ent_id (am_elements self))) by (apply Hkeys; eapply heap_get_in_keys; eassumption).
      apply in_map_iff in Hl. destruct Hl as (e & <- & He).
      assert (Hc0 : cits_at h0 (ent_id e) j = Some (Some cs)) by (unfold cits_at; now rewrite H0, Hx0, Eq0).
      pose proof (snap_complete h0 (am_elements self) e j cs He Hc0) as Hin.
      specialize (Res2 _ _ _ Hin _ Hc0). unfold cits_at in Res2. rewrite Er, Hx in Res2. now inversion Res2.
    - destruct Hs as (_&_&_&_&_&_&HF). destruct (Forall2_nth _ _ _ _ _ HF Hx0) as (y & Hy & Hxy).
      rewrite Hx in Hy. inversion Hy; subst y. destruct Hxy as (_&_&_&_&Hn). rewrite Eq0 in Hn. cbn in Hn.
      destruct (qcits (fquals x)); [discriminate|reflexivity]. }
  destruct res as [[assembly ws]|e]; cbn; exact Hfinal.
Qed.

(* ---------- vector.assemble(...) as a whole ---------------------------------------------------- *)

Lemma init_elements v ms i n mgr : AssemblyManager_init tt v ms i n = Ok mgr ->
  am_elements mgr = ms ++ [v] /\ am_vector mgr = v /\ am_modules mgr = ms /\ am_id mgr = i /\ am_name mgr = n.
Proof.
  unfold AssemblyManager_init.
  destruct (t1 <- ent_overhang_start v ;; t2 <- ent_overhang_end v ;; _) as [u|e]; cbn [bind]; [|discriminate].
  unfold py_addm, PyAddM_list. cbn [bind]. intros H. inversion H; subst. cbn. auto.
Qed.

Lemma refresh_ids h (es : list entity) : map ent_id (refresh h es) = map ent_id es.
Proof.
  unfold refresh, Refresh_list. rewrite map_map. apply map_ext. intros e.
  unfold refresh, Refresh_entity. destruct (heap_get h (ent_id e)); reflexivity.
Qed.

Lemma heap_of_keys es : forall l, In l (heap_keys (heap_of es)) -> In l (map ent_id es).
Proof.
  induction es as [|e es IH]; cbn; [tauto|]. intros l [H|H]; [now left|right].
  apply IH. unfold heap_keys in *. apply in_map_iff in H. destruct H as (kv & <- & Hin).
  apply filter_In in Hin. apply in_map. tauto.
Qed.

(* whatever vector.assemble(module, *modules, **kwargs) does — return, warn, raise a documented
   error, or fail half-way through the citations with any exception — every record the caller
   passed reads afterwards exactly as before the call *)
Theorem vector_assemble_restores fuel vector m ms kwargs :
  let h0 := heap_of (vector :: m :: ms) in
  forall l r0, heap_get h0 l = Some r0 ->
  heap_get (snd (AbstractVector_assemble fuel vector m ms kwargs h0)) l = Some r0.
Proof.
  intros h0 l r0 H0. unfold AbstractVector_assemble.
  unfold hbind at 1. unfold hpure at 1.
  destruct (AssemblyManager_init tt (refresh h0 vector) (refresh h0 ([m] ++ ms)) _ _) as [mgr|e] eqn:Ei; [|exact H0].
  apply init_elements in Ei. destruct Ei as (Eel & _).
  unfold hbind at 1.
  pose proof (assemble_restores fuel mgr h0) as Hr.
  destruct (AssemblyManager_assemble fuel mgr h0) as [[res|e] h1]; cbn [snd] in *; cbn [hret snd]; apply Hr; try exact H0.
  all: intros l' Hl'; apply heap_of_keys in Hl'; rewrite Eel, map_app, refresh_ids.
  all: assert (Ev : ent_id (refresh h0 vector) = ent_id vector)
         by (unfold refresh, Refresh_entity; destruct (heap_get h0 (ent_id vector)); reflexivity).
  all: change (map ent_id [refresh h0 vector]) with [ent_id (refresh h0 vector)]; rewrite Ev.
  all: apply in_or_app; destruct Hl' as [<-|Hl']; [right; now left|left; exact Hl'].
Qed.
