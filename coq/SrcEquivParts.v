(* SrcEquivParts.v — AbstractPart.characterize as regenerated from moclo/core/parts.py (Gen/Src.v)
   returns an instance of the first candidate type that accepts the record, in the order
   __subclasses__() then the class itself when it is concrete, and raises RuntimeError exactly
   when no candidate accepts it (PartLemmas.characterize). *)
From MV Require Import Base Record Regex Typing PartLemmas Circle Annot Py PyObj
     SrcEquivRegex SrcEquivRecord SrcEquivTyping.
From MV.Gen Require Import Src.
Local Open Scope Z_scope.

(* the candidate types, as the source enumerates them *)
Definition candidates (pc : pyclass) : list pyclass :=
  pcl_subclasses pc ++ (if pcl_isabstract pc then [] else [pc]).

Definition char_body (record_ : pyrecord) (subclass : pyclass) (_ : unit) : exc (ctl unit entity) :=
  let entity := mk_entity subclass record_ in
  t1 <- StructuredRecord_is_valid entity ;;
  if t1 then Ok (Ret entity) else Ok (Next tt).

Lemma char_loop rec : is_CircularRecord rec = true -> Z.of_nat (List.length (pr_seq rec)) <= py_MAXSIZE ->
  forall cands,
  py_for cands tt (char_body rec) =
  Ok (match find (fun p => is_valid (pcl_cls p) (pr_seq rec) true) cands with
      | Some p => Ret (mk_entity p rec)
      | None => Next tt
      end).
Proof.
  intros Hc Hfit. induction cands as [|p cands IH]; [reflexivity|].
  cbn [py_for find]. unfold char_body at 1.
  assert (Hf : fits (mk_entity p rec)) by exact Hfit.
  rewrite (StructuredRecord_is_valid_eq _ Hf). cbn [bind].
  assert (Hcirc : ent_circ (mk_entity p rec) = true)
    by (unfold ent_circ; cbn [mk_entity ent_record]; rewrite Hc; apply orb_true_r).
  rewrite Hcirc. cbn [mk_entity ent_cls ent_record].
  destruct (is_valid (pcl_cls p) (pr_seq rec) true); [reflexivity|exact IH].
Qed.

Lemma find_map {A B} (f : A -> B) (g : B -> bool) l :
  find g (map f l) = option_map f (find (fun x => g (f x)) l).
Proof. induction l as [|x l IH]; cbn; [reflexivity|]. destruct (g (f x)); [reflexivity|exact IH]. Qed.

Theorem AbstractPart_characterize_eq pc rec :
  is_CircularRecord rec = true -> Z.of_nat (List.length (pr_seq rec)) <= py_MAXSIZE ->
  match AbstractPart_characterize pc rec with
  | Ok e => characterize (map pcl_cls (candidates pc)) (pr_seq rec) = Some (ent_cls e) /\ ent_record e = rec
  | Err x => x = XRuntimeError /\ characterize (map pcl_cls (candidates pc)) (pr_seq rec) = None
  end.
Proof.
  intros Hc Hfit. unfold AbstractPart_characterize, py_deepcopy.
  assert (Hcl : (if negb (pcl_isabstract pc) then Ok (pcl_subclasses pc ++ [pc]) else Ok (pcl_subclasses pc))
                = Ok (candidates pc)).
  { unfold candidates. destruct (pcl_isabstract pc); cbn [negb]; [now rewrite app_nil_r|reflexivity]. }
  rewrite Hcl. cbn [bind].
  change (py_for (candidates pc) tt _) with (py_for (candidates pc) tt (char_body rec)).
  rewrite (char_loop rec Hc Hfit). cbn [bind].
  unfold characterize. rewrite find_map.
  destruct (find _ (candidates pc)) as [p|]; cbn; auto.
Qed.
