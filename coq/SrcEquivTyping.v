(* SrcEquivTyping.v — StructuredRecord._match / is_valid and the accessors of AbstractModule
   and AbstractVector as regenerated from the source (Gen/Src.v) compute what Typing.v says:
   same verdict (valid / invalid / illegal site), same overhangs, target and placeholder. *)
From MV Require Import Base RotLemmas Record RecordLemmas Regex RegexLemmas Typing Circle Annot Py PyObj
     SrcEquivRegex SrcEquivRecord.
From MV.Gen Require Import Src.
From Coq Require Import String.
Local Open Scope Z_scope.

(* is the record searched circularly: CircularRecord instance, or topology not "circular"
   after lower-casing (absent reads "circular") *)
Definition ent_circ (e : entity) : bool :=
  let rec := ent_record e in
  negb (negb (py_eq (str_lower (ann_get_topology (pr_annotations rec) "circular"%string)) "circular"%string))
  || is_CircularRecord rec.

(* Python cannot hold a string longer than sys.maxsize *)
Definition fits (e : entity) : Prop := Z.of_nat (List.length (pr_seq (ent_record e))) <= py_MAXSIZE.

Lemma search_endpos items s circ (big : nat) :
  (List.length s <= big)%nat -> search items s circ 0 big = search items s circ 0 (List.length s).
Proof. intros H. unfold search. now rewrite Nat.min_l, Nat.min_id by lia. Qed.

Lemma MAXSIZE_nonneg : 0 <= py_MAXSIZE.
Proof. unfold py_MAXSIZE. lia. Qed.

Theorem StructuredRecord_match_eq e : fits e ->
  StructuredRecord_match e =
  match search (ent_regex e) (pr_seq (ent_record e)) (ent_circ e) 0 (List.length (pr_seq (ent_record e))) with
  | Some m => Ok (mk_SeqMatch m (ent_record e))
  | None => Err XInvalidSequence
  end.
Proof.
  intros Hfit. unfold StructuredRecord_match.
  change 0 with (Z.of_nat 0) at 1.
  rewrite DNARegex_search_eq by apply MAXSIZE_nonneg. cbn [bind].
  rewrite search_endpos by (unfold fits in Hfit; pose proof MAXSIZE_nonneg; lia).
  fold (ent_circ e).
  destruct (search _ _ _ _ _); reflexivity.
Qed.

(* core/_utils.add_as_source, as translated: a whole-length source feature naming the plasmid is
   appended to the fragment *)
Lemma add_as_source_eq src dst : add_as_source src dst None = Ok (py_add_as_source src dst).
Proof. reflexivity. Qed.

Definition verdict_exc (v : verdict) (rec : pyrecord) : exc seqmatch :=
  match v with
  | Valid m => Ok (mk_SeqMatch m rec)
  | Invalid => Err XInvalidSequence
  | IllegalSite => Err XIllegalSite
  end.

Lemma split_at_length w : forall cuts prev, List.length (split_at w prev cuts) = S (List.length cuts).
Proof. intros cuts; revert w; induction cuts as [|c r IH]; intros w prev; cbn; [reflexivity|]. now rewrite IH. Qed.

Lemma catalyse_count en r :
  (py_len_of (enz_catalyse en r) >? 3) = (3 <? fragments en (pr_seq r))%nat.
Proof.
  unfold py_len_of, PyLen_list, py_len, enz_catalyse, fragments. rewrite split_at_length.
  set (k := S _). rewrite Z.gtb_ltb.
  destruct (Z.ltb_spec 3 (Z.of_nat k)), (Nat.ltb_spec 3 k); lia || reflexivity.
Qed.

Lemma search_nonempty items s circ m : search items s circ 0 (List.length s) = Some m -> s <> [].
Proof. intros H E. subst s. destruct circ; discriminate. Qed.

(* the screen shared by AbstractModule._match and AbstractVector._match *)
Lemma screened_match_eq (base : entity -> exc seqmatch) e :
  base e = StructuredRecord_match e -> fits e ->
  (t1 <- base e ;;
   _ <- (t2 <- SeqMatch_group t1 0 ;;
         if py_len_of (enz_catalyse (ent_cutter e) (py_seq t2)) >? 3 then Err XIllegalSite else Ok tt) ;;
   Ok t1)
  = verdict_exc (typing (ent_cls e) (pr_seq (ent_record e)) (ent_circ e)) (ent_record e).
Proof.
  intros Hb Hfit. rewrite Hb, StructuredRecord_match_eq by assumption.
  unfold typing, ent_regex.
  destruct (search _ _ _ _ _) as [m|] eqn:Hs; [|reflexivity].
  cbn [bind]. pose proof (search_nonempty _ _ _ _ Hs) as Hne.
  pose proof (SeqMatch_group_eq m (ent_record e) 0 0%nat Hne) as Hg.
  change (Z.of_nat 0) with 0 in Hg. unfold mk_SeqMatch.
  unfold group. cbn [span option_map] in *.
  destruct Hg as (r & Er & Hr & _). rewrite Er. cbn [bind].
  rewrite catalyse_count. cbn [py_seq pr_seq mk_Seq]. rewrite Hr. unfold ent_cutter.
  destruct (3 <? fragments _ _)%nat; reflexivity.
Qed.

Theorem AbstractModule_match_eq e : fits e ->
  AbstractModule_match e = verdict_exc (typing (ent_cls e) (pr_seq (ent_record e)) (ent_circ e)) (ent_record e).
Proof. intros. unfold AbstractModule_match. now apply (screened_match_eq StructuredRecord_match). Qed.

Theorem AbstractVector_match_eq e : fits e ->
  AbstractVector_match e = verdict_exc (typing (ent_cls e) (pr_seq (ent_record e)) (ent_circ e)) (ent_record e).
Proof. intros. unfold AbstractVector_match. now apply (screened_match_eq StructuredRecord_match). Qed.

Theorem ent_match_eq e : fits e ->
  ent_match e = verdict_exc (typing (ent_cls e) (pr_seq (ent_record e)) (ent_circ e)) (ent_record e).
Proof.
  intros. unfold ent_match. destruct (crole (ent_cls e));
    [now apply AbstractModule_match_eq | now apply AbstractVector_match_eq].
Qed.

(* is_valid never raises and agrees with the model *)
Theorem StructuredRecord_is_valid_eq e : fits e ->
  StructuredRecord_is_valid e = Ok (is_valid (ent_cls e) (pr_seq (ent_record e)) (ent_circ e)).
Proof.
  intros. unfold StructuredRecord_is_valid, is_valid. rewrite ent_match_eq by assumption.
  destruct (typing _ _ _); reflexivity.
Qed.

(* ---------- what a query returns, read as the model reads it ---------------- *)

Definition obs (x : exc pyrecord) : option (list letter) :=
  match x with Ok r => Some (pr_seq r) | Err _ => None end.

Lemma group_obs m rec (g : nat) : pr_seq rec <> [] ->
  obs (t2 <- SeqMatch_group (mk_SeqMatch m rec) (Z.of_nat g) ;; Ok (py_seq t2)) = group m (pr_seq rec) g.
Proof.
  intros Hne. pose proof (SeqMatch_group_eq m rec 0 g Hne) as H. unfold mk_SeqMatch, group.
  destruct (span m g) as [sp|].
  - destruct H as (r & E & Hr & _). rewrite E. cbn. now rewrite Hr.
  - rewrite H. reflexivity.
Qed.

Lemma typing_nonempty c s circ m : typing c s circ = Valid m -> s <> [].
Proof.
  unfold typing. destruct (search _ _ _ _ _) as [m'|] eqn:Hs; [|discriminate].
  intros _. eapply search_nonempty; eassumption.
Qed.

Section Accessors.
  Context (e : entity) (Hfit : fits e).
  Let c := ent_cls e.
  Let rec := ent_record e.
  Let s := pr_seq rec.
  Let circ := ent_circ e.

  Lemma accessor_group (matchf : entity -> exc seqmatch) (g : nat) :
    matchf e = verdict_exc (typing c s circ) rec ->
    obs (t1 <- matchf e ;; t2 <- SeqMatch_group t1 (Z.of_nat g) ;; Ok (py_seq t2))
    = with_match c s circ (fun m => group m s g).
  Proof.
    intros Hm. rewrite Hm. unfold with_match.
    destruct (typing c s circ) as [m| |] eqn:Ht; try reflexivity.
    cbn [verdict_exc bind]. apply group_obs. eapply typing_nonempty; eassumption.
  Qed.

  Theorem module_overhang_start_eq : crole c = RModule ->
    obs (AbstractModule_overhang_start e) = overhang_start c s circ.
  Proof.
    intros Hr. unfold AbstractModule_overhang_start, overhang_start. rewrite Hr.
    apply (accessor_group AbstractModule_match 1). now apply AbstractModule_match_eq.
  Qed.

  Theorem module_overhang_end_eq : crole c = RModule ->
    obs (AbstractModule_overhang_end e) = overhang_end c s circ.
  Proof.
    intros Hr. unfold AbstractModule_overhang_end, overhang_end. rewrite Hr.
    apply (accessor_group AbstractModule_match 3). now apply AbstractModule_match_eq.
  Qed.

  Theorem vector_overhang_start_eq : crole c = RVector ->
    obs (AbstractVector_overhang_start e) = overhang_start c s circ.
  Proof.
    intros Hr. unfold AbstractVector_overhang_start, overhang_start. rewrite Hr.
    apply (accessor_group AbstractVector_match 3). now apply AbstractVector_match_eq.
  Qed.

  Theorem vector_overhang_end_eq : crole c = RVector ->
    obs (AbstractVector_overhang_end e) = overhang_end c s circ.
  Proof.
    intros Hr. unfold AbstractVector_overhang_end, overhang_end. rewrite Hr.
    apply (accessor_group AbstractVector_match 1). now apply AbstractVector_match_eq.
  Qed.

  (* group 1 opens before group 2 closes: true of every match the matcher returns for a
     pattern whose groups are numbered in the order they open (ShapeLemmas for the kits) *)
  Definition span_ordered (m : rmatch) : Prop :=
    forall a b, cut_span m = Some (a, b) -> (a <= b)%nat.

  Context (Hcirc : is_CircularRecord rec = true).
  Context (Htracks : well_tracked rec).

  Lemma rotl_record_seq k r : rseq (rotl_record k r) = rotl k (rseq r).
  Proof. unfold rotl_record. rewrite rot_record_seq. unfold rotl, zlen. apply rotr_mod. Qed.

  Lemma lshift_obs (a : nat) : s <> [] ->
    exists r', py_lshift rec (Z.of_nat a) = Ok r' /\ pr_seq r' = rotl (Z.of_nat a) s
               /\ pr_kind r' = KCircularRecord.
  Proof.
    intros Hne. unfold py_lshift. rewrite Hcirc.
    destruct (CircularRecord_lshift_eq 0 rec (Z.of_nat a) Hne Htracks) as (r' & E & H1 & _ & _ & Hk).
    exists r'. split; [exact E|]. split.
    - change (pr_seq r') with (rseq (to_record r')). rewrite H1. apply rotl_record_seq.
    - apply Hk. unfold is_CircularRecord in Hcirc. destruct (pr_kind rec); congruence.
  Qed.

  Lemma spans_obs (matchf : entity -> exc seqmatch) (K : Z * Z -> exc pyrecord) :
    matchf e = verdict_exc (typing c s circ) rec ->
    obs (bind (t7 <- matchf e ;; t8 <- SeqMatch_span t7 1 ;; t9 <- py_getitem t8 0 ;;
               t10 <- matchf e ;; t11 <- SeqMatch_span t10 2 ;; t12 <- py_getitem t11 1 ;; Ok (t9, t12)) K)
    = with_match c s circ (fun m => match cut_span m with
                                    | Some (a, b) => obs (K (Z.of_nat a, Z.of_nat b))
                                    | None => None end).
  Proof.
    intros Hm. rewrite Hm. unfold with_match.
    destruct (typing c s circ) as [m| |] eqn:Ht; try reflexivity.
    cbn [verdict_exc bind]. unfold mk_SeqMatch. change 1 with (Z.of_nat 1). change 2 with (Z.of_nat 2).
    rewrite !SeqMatch_span_eq. unfold cut_span.
    destruct (span m 1) as [[a1 b1]|]; [|reflexivity]. cbn [bind].
    change (Z.of_nat 0) with 0. rewrite getitem_pair0. cbn [bind].
    destruct (span m 2) as [[a2 b2]|]; [|reflexivity]. cbn [bind].
    change (Z.of_nat 1) with 1. rewrite getitem_pair1. cbn [bind]. reflexivity.
  Qed.

  Theorem module_target_eq : crole c = RModule ->
    (forall m, typing c s circ = Valid m -> span_ordered m) ->
    obs (AbstractModule_target_sequence e) = target c s circ.
  Proof.
    intros Hr Hord. unfold AbstractModule_target_sequence, target. cbn [enz_is_3overhang].
    fold rec. rewrite spans_obs by (now apply AbstractModule_match_eq).
    unfold with_match. destruct (typing c s circ) as [m| |] eqn:Ht; try reflexivity.
    destruct (cut_span m) as [[a b]|] eqn:Hc; [|reflexivity].
    pose proof (Hord m eq_refl a b Hc) as Hab.
    cbn [bind]. destruct (lshift_obs a (typing_nonempty _ _ _ _ Ht)) as (r' & E & Hs' & Hk).
    rewrite E. cbn [bind].
    destruct (getslice_rec r' None (Some (Z.of_nat b - Z.of_nat a))) as (r2 & E2 & Hs2 & _).
    rewrite E2. cbn [bind]. rewrite add_as_source_eq. cbn [bind obs py_add_as_source pr_seq]. rewrite Hs2, Hs', Hr.
    replace (Z.of_nat b - Z.of_nat a) with (Z.of_nat (b - a)) by lia.
    now rewrite py_slice_to.
  Qed.

  Theorem vector_target_eq : crole c = RVector ->
    (forall m, typing c s circ = Valid m -> span_ordered m) ->
    obs (AbstractVector_target_sequence e) = target c s circ.
  Proof.
    intros Hr Hord. unfold AbstractVector_target_sequence, target. cbn [enz_is_3overhang].
    fold rec. rewrite spans_obs by (now apply AbstractVector_match_eq).
    unfold with_match. destruct (typing c s circ) as [m| |] eqn:Ht; try reflexivity.
    destruct (cut_span m) as [[a b]|] eqn:Hc; [|reflexivity].
    pose proof (Hord m eq_refl a b Hc) as Hab.
    cbn [bind]. destruct (lshift_obs a (typing_nonempty _ _ _ _ Ht)) as (r' & E & Hs' & Hk).
    rewrite E. cbn [bind].
    destruct (getslice_rec r' (Some (Z.of_nat b - Z.of_nat a)) None) as (r2 & E2 & Hs2 & _).
    rewrite E2. cbn [bind]. rewrite add_as_source_eq. cbn [bind obs py_add_as_source pr_seq]. rewrite Hs2, Hs', Hr.
    replace (Z.of_nat b - Z.of_nat a) with (Z.of_nat (b - a)) by lia.
    now rewrite py_slice_from.
  Qed.

  (* vectors.py placeholder_sequence: downstream overhang + body *)
  Theorem vector_placeholder_eq : crole c = RVector ->
    obs (AbstractVector_placeholder_sequence e) = placeholder c s circ.
  Proof.
    intros Hr. unfold AbstractVector_placeholder_sequence, placeholder, AbstractVector_overhang_end.
    cbn [enz_is_3overhang]. rewrite !AbstractVector_match_eq by assumption.
    unfold with_match. fold c rec s circ.
    destruct (typing c s circ) as [m| |] eqn:Ht; try reflexivity.
    cbn [verdict_exc bind]. pose proof (typing_nonempty _ _ _ _ Ht) as Hne.
    pose proof (SeqMatch_group_eq m rec 0 1%nat Hne) as H1.
    pose proof (SeqMatch_group_eq m rec 0 2%nat Hne) as H2.
    unfold mk_SeqMatch, group. change 1 with (Z.of_nat 1). change 2 with (Z.of_nat 2).
    destruct (span m 1) as [sp1|]; [|rewrite H1; reflexivity].
    destruct H1 as (r1 & E1 & Hs1 & _). rewrite E1. cbn [bind option_map].
    destruct (span m 2) as [sp2|]; [|rewrite H2; reflexivity].
    destruct H2 as (r2 & E2 & Hs2 & Hk2). rewrite E2. cbn [bind option_map].
    destruct (addm_rec (py_seq r1) r2) as (r & E & Hs & _); [cbn; discriminate|exact Hk2|].
    rewrite E. cbn [bind obs]. rewrite Hs. cbn [py_seq pr_seq mk_Seq]. now rewrite Hs1, Hs2.
  Qed.
End Accessors.

(* ---------- consequences used by the assembly refinement ------------------- *)

Lemma bind_ok {A B} (x : exc A) (f : A -> exc B) r : bind x f = Ok r -> exists a, x = Ok a /\ f a = Ok r.
Proof. destruct x; cbn; [eauto|discriminate]. Qed.

Lemma obs_some x w : obs x = Some w -> exists r, x = Ok r /\ pr_seq r = w.
Proof. destruct x; cbn; [intros H; inversion H; eauto|discriminate]. Qed.

Lemma add_as_source_linear src dst : linear_kind dst -> linear_kind (py_add_as_source src dst).
Proof. unfold linear_kind, py_add_as_source. cbn. auto. Qed.

Lemma lshift_kind rec k r : is_CircularRecord rec = true -> pr_seq rec <> [] -> well_tracked rec ->
  py_lshift rec k = Ok r -> pr_kind r = KCircularRecord.
Proof.
  intros Hc Hne Ht. unfold py_lshift. rewrite Hc.
  destruct (CircularRecord_lshift_eq 0 rec k Hne Ht) as (r' & E & _ & _ & _ & Hk).
  rewrite E. intros H. inversion H; subst. apply Hk.
  unfold is_CircularRecord in Hc. destruct (pr_kind rec); congruence.
Qed.

Lemma module_target_kind e r : is_CircularRecord (ent_record e) = true -> pr_seq (ent_record e) <> [] ->
  well_tracked (ent_record e) ->
  AbstractModule_target_sequence e = Ok r -> pr_kind r = KSeqRecord.
Proof.
  intros Hc Hne Ht. unfold AbstractModule_target_sequence. intros H.
  apply bind_ok in H. destruct H as ([a b] & _ & H).
  apply bind_ok in H. destruct H as (t13 & H13 & H).
  apply bind_ok in H. destruct H as (t14 & H14 & H). rewrite add_as_source_eq in H. inversion H; subst.
  pose proof (lshift_kind _ _ _ Hc Hne Ht H13) as K13.
  destruct (getslice_circular t13 None (Some (b - a)) K13) as (r' & E & _ & Hk).
  rewrite E in H14. inversion H14; subst. exact Hk.
Qed.

Lemma vector_target_kind e r : is_CircularRecord (ent_record e) = true -> pr_seq (ent_record e) <> [] ->
  well_tracked (ent_record e) ->
  AbstractVector_target_sequence e = Ok r -> pr_kind r = KSeqRecord.
Proof.
  intros Hc Hne Ht. unfold AbstractVector_target_sequence. intros H.
  apply bind_ok in H. destruct H as ([a b] & _ & H).
  apply bind_ok in H. destruct H as (t13 & H13 & H).
  apply bind_ok in H. destruct H as (t14 & H14 & H). rewrite add_as_source_eq in H. inversion H; subst.
  pose proof (lshift_kind _ _ _ Hc Hne Ht H13) as K13.
  destruct (getslice_circular t13 (Some (b - a)) None K13) as (r' & E & _ & Hk).
  rewrite E in H14. inversion H14; subst. exact Hk.
Qed.

(* ---------- target_sequence at the level of records: sequence AND feature table ---------- *)

(* two records with the same sequence and the same feature table *)
Definition same_sf (x y : record) : Prop := rseq x = rseq y /\ rfeats x = rfeats y.

Lemma getslice_circular_record r lo hi : pr_kind r = KCircularRecord ->
  let n := py_len (pr_seq r) in
  let a := match lo with None => 0 | Some i => py_norm n i end in
  let b := match hi with None => n | Some i => py_norm n i end in
  exists r', py_getslice r lo hi = Ok r' /\ pr_kind r' = KSeqRecord /\ pr_id r' = pr_id r
             /\ to_record r' = slice_record a (Z.max a b) (to_record r).
Proof.
  intros K n a b. unfold py_getslice, PyGetSlice_rec. rewrite K.
  unfold CircularRecord_getitem_slice.
  set (x := bio_getitem_slice r (lo, hi)).
  assert (Hx : to_record x = slice_record a (Z.max a b) (to_record r) /\ pr_id x = pr_id r).
  { unfold x, bio_getitem_slice, bio_getslice. cbn [fst snd]. rewrite K. cbn. split; reflexivity. }
  destruct Hx as [Hx Hi].
  destruct (ann_has_topology (py_deepcopy (pr_annotations x))); cbn [bind];
    eexists; (split; [reflexivity|]); cbn; repeat split; auto;
    rewrite <- Hx; unfold to_record; reflexivity.
Qed.

Section TargetRecords.
  Context (e : entity) (Hfit : fits e).
  Let c := ent_cls e.
  Let rec := ent_record e.
  Let s := pr_seq rec.
  Context (Hcirc : is_CircularRecord rec = true) (Htracks : well_tracked rec).

  Lemma lshift_record (a : nat) : s <> [] ->
    exists r', py_lshift rec (Z.of_nat a) = Ok r' /\ to_record r' = rotl_record (Z.of_nat a) (to_record rec)
               /\ pr_id r' = pr_id rec /\ pr_kind r' = KCircularRecord.
  Proof.
    intros Hne. unfold py_lshift. fold rec. rewrite Hcirc.
    destruct (CircularRecord_lshift_eq 0 rec (Z.of_nat a) Hne Htracks) as (r' & E & H1 & H2 & _ & Hk).
    exists r'. repeat split; auto. apply Hk. unfold is_CircularRecord in Hcirc. destruct (pr_kind rec); congruence.
  Qed.

  (* what target_sequence() returns: the model's fragment — rotate to the first cut, keep (module)
     or drop (vector) the first L letters, with every feature wholly inside and the generated source
     feature naming the plasmid *)
  Theorem target_record (matchf : entity -> exc seqmatch) (is_vector : bool) m a b :
    matchf e = verdict_exc (typing c s (ent_circ e)) rec ->
    typing c s (ent_circ e) = Valid m -> cut_span m = Some (a, b) -> (a <= b)%nat -> (b - a <= List.length s)%nat ->
    let body (start_ end_ : Z) : exc pyrecord :=
      t13 <- py_lshift rec start_ ;;
      t14 <- py_getslice t13 (if is_vector then Some (end_ - start_) else None)
                             (if is_vector then None else Some (end_ - start_)) ;;
      t15 <- add_as_source rec t14 None ;; Ok t15 in
    exists r, body (Z.of_nat a) (Z.of_nat b) = Ok r /\ pr_kind r = KSeqRecord /\
      same_sf (to_record r) (fragment is_vector (Z.of_nat a) (Z.of_nat (b - a)) (pr_id rec) (to_record rec)).
  Proof.
    intros Hm Ht Hc Hab HL body. unfold body.
    assert (Hne : s <> []) by (eapply typing_nonempty; eassumption).
    destruct (lshift_record a Hne) as (r' & E & Hrec & Hid & Hk). rewrite E. cbn [bind].
    replace (Z.of_nat b - Z.of_nat a) with (Z.of_nat (b - a)) by lia.
    set (L := Z.of_nat (b - a)).
    assert (Hn : py_len (pr_seq r') = Z.of_nat (List.length s)).
    { change (pr_seq r') with (rseq (to_record r')). rewrite Hrec, rotl_record_seq.
      unfold py_len. now rewrite rotl_length. }
    destruct (getslice_circular_record r' (if is_vector then Some L else None) (if is_vector then None else Some L) Hk)
      as (r2 & E2 & K2 & Hid2 & Hrec2).
    rewrite E2. cbn [bind]. rewrite add_as_source_eq. cbn [bind].
    eexists. split; [reflexivity|]. split; [exact K2|].
    unfold same_sf, fragment, py_add_as_source. cbn [to_record rseq rfeats pr_seq pr_features pr_id].
    change (pr_seq r2) with (rseq (to_record r2)). change (pr_features r2) with (rfeats (to_record r2)).
    cbv zeta in Hrec2. rewrite Hn in Hrec2. rewrite Hrec2, Hrec. unfold zlen, py_len. fold s.
    assert (HLn : py_norm (Z.of_nat (List.length s)) L = L)
      by (unfold py_norm, L; destruct (Z.ltb_spec (Z.of_nat (b - a)) 0); lia).
    destruct is_vector; rewrite ?HLn.
    - replace (Z.max L (Z.of_nat (List.length s))) with (Z.of_nat (List.length s)) by (unfold L; lia).
      split; reflexivity.
    - replace (Z.max 0 L) with L by (unfold L; lia).
      split; reflexivity.
  Qed.

  Lemma spans_ok (matchf : entity -> exc seqmatch) m a b :
    matchf e = verdict_exc (typing c s (ent_circ e)) rec ->
    typing c s (ent_circ e) = Valid m -> cut_span m = Some (a, b) ->
    (t7 <- matchf e ;; t8 <- SeqMatch_span t7 1 ;; t9 <- py_getitem t8 0 ;;
     t10 <- matchf e ;; t11 <- SeqMatch_span t10 2 ;; t12 <- py_getitem t11 1 ;; Ok (t9, t12))
    = Ok (Z.of_nat a, Z.of_nat b).
  Proof.
    intros Hm Ht Hc. rewrite Hm, Ht. cbn [verdict_exc bind]. unfold mk_SeqMatch.
    change 1 with (Z.of_nat 1). change 2 with (Z.of_nat 2). rewrite !SeqMatch_span_eq.
    unfold cut_span in Hc.
    destruct (span m 1) as [[a1 b1]|]; [|discriminate]. cbn [bind].
    change (Z.of_nat 0) with 0. rewrite getitem_pair0. cbn [bind].
    destruct (span m 2) as [[a2 b2]|]; [|discriminate]. cbn [bind].
    change (Z.of_nat 1) with 1. rewrite getitem_pair1. cbn [bind]. now inversion Hc.
  Qed.

  Theorem module_target_record m a b :
    typing c s (ent_circ e) = Valid m -> cut_span m = Some (a, b) -> (a <= b)%nat -> (b - a <= List.length s)%nat ->
    exists r, AbstractModule_target_sequence e = Ok r /\ pr_kind r = KSeqRecord /\
      same_sf (to_record r) (fragment false (Z.of_nat a) (Z.of_nat (b - a)) (pr_id rec) (to_record rec)).
  Proof.
    intros Ht Hc Hab HL. unfold AbstractModule_target_sequence. cbn [enz_is_3overhang]. fold rec.
    rewrite (spans_ok AbstractModule_match m a b (AbstractModule_match_eq e Hfit) Ht Hc). cbn [bind].
    exact (target_record AbstractModule_match false m a b (AbstractModule_match_eq e Hfit) Ht Hc Hab HL).
  Qed.

  Theorem vector_target_record m a b :
    typing c s (ent_circ e) = Valid m -> cut_span m = Some (a, b) -> (a <= b)%nat -> (b - a <= List.length s)%nat ->
    exists r, AbstractVector_target_sequence e = Ok r /\ pr_kind r = KSeqRecord /\
      same_sf (to_record r) (fragment true (Z.of_nat a) (Z.of_nat (b - a)) (pr_id rec) (to_record rec)).
  Proof.
    intros Ht Hc Hab HL. unfold AbstractVector_target_sequence. cbn [enz_is_3overhang]. fold rec.
    rewrite (spans_ok AbstractVector_match m a b (AbstractVector_match_eq e Hfit) Ht Hc). cbn [bind].
    exact (target_record AbstractVector_match true m a b (AbstractVector_match_eq e Hfit) Ht Hc Hab HL).
  Qed.
End TargetRecords.
