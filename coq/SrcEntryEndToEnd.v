(* SrcEntryEndToEnd.v — C01 end to end at the entry point: for plasmids of the formal definition
   carried by records of any content (features, qualifiers, citations that dereference, annotations),
   vector.assemble(module, *modules, id=, name=) AS REGENERATED FROM THE SOURCE — citation
   bookkeeping, try/finally, metadata and all — returns the documented product. *)
From MV Require Import Base RotLemmas Record Regex Shape Typing Assembly AssemblyLemmas Pipeline
     PipelineLemmas ProductLemmas StrandLemmas Canonical EndToEnd Py PyObj PyHeap SrcEquivRegex SrcEquivRecord
     SrcEquivTyping SrcEquivAssembly SrcCorollaries SrcGlue SrcEndToEnd SrcEquivHeap SrcEquivCite SrcEquivAsmHeap
     SrcCorollariesHeap.
From MV.Gen Require Import Src.
From Coq Require Import Permutation String.
Local Open Scope Z_scope.

Theorem src_entry_end_to_end e v kv (l : list (mplasmid * Z)) (cs : list smod) :
  (0 < List.length (esite e))%nat -> vplasmid_ok e v -> Forall (mplasmid_ok e) (map fst l) ->
  let ms0 := number 0 (map fst l) in
  Permutation ms0 cs ->
  path (okey (qOdn v)) (map keys_of cs) (okey (qOup v)) ->
  okey (qOup v) <> okey (qOdn v) ->
  Forall (fun m => okey (so5 m) <> okey (qOup v)) cs ->
  clash_free rc_codes (map tmod_of ms0) ->
  forall vector m ms kw hd,
  good_ent vector -> Forall good_ent (m :: ms) ->
  ent_cls vector = generic_cls RVector e -> ent_seq_w vector = rotr kv (vword v) ->
  map raw_of (m :: ms) = map (marg e) l ->
  map ent_id (m :: ms) = seq 0 (List.length (m :: ms)) -> ent_id vector = List.length (m :: ms) ->
  deref_elems ((m :: ms) ++ [vector]) [] (heap_of (vector :: m :: ms)) = Ok hd ->
  exists prod ws,
    fst (run_assemble (S (S (List.length (m :: ms)))) vector (m :: ms) kw) = Ok (prod, ws)
    /\ pr_seq prod = List.concat (map frag cs) ++ (qOup v ++ vbackbone v)
    /\ unused_of ws = []
    /\ pr_id prod = kw_id kw /\ pr_name prod = kw_name kw
    /\ an_topology (pr_annotations prod) = Some "circular"%string
    /\ other_get (an_other (pr_annotations prod)) "comment"
       = Some (AComment [LGenerated; LVector (pr_id (ent_record vector));
                         LModules (map (fun x => pr_id (ent_record x)) (m :: ms))]).
Proof.
  intros Hs Hv Hms ms0 Hperm Hpath Hne F5 CF vector m ms kw hd Gv Gm Hc Hw Hraw Hids Hvid Ede.
  pose proof (end_to_end e v kv l cs Hs Hv Hms Hperm Hpath Hne F5 CF) as HE.
  assert (Hmodel : forget_used (assemble_raw (ent_cls vector) (ent_seq_w vector) (map raw_of (m :: ms)))
                   = Product (List.concat (map frag cs) ++ (qOup v ++ vbackbone v)) [] []).
  { rewrite Hc, Hw, Hraw, HE. reflexivity. }
  destruct (run_assemble_product vector m ms kw hd _ _ Gv Gm Hids Hvid Ede Hmodel)
    as (p & ws & mgr & Eres & Hid & Hname & Hseq & Hun & _).
  destruct (product_metadata mgr (pr_id (ent_record vector)) (map (fun x => pr_id (ent_record x)) (m :: ms)) p)
    as (_ & Hs' & Hi' & Hn' & Ht' & Hcm & _).
  eexists _, ws. split; [exact Eres|]. rewrite Hs', Hi', Hn', Hid, Hname.
  repeat split; auto.
Qed.
