(* SrcEntryEndToEnd.v — C01 end to end at the entry point: for plasmids of the formal definition
   carried by records of any content (features, qualifiers, citations that dereference, annotations),
   vector.assemble(module, *modules, id=, name=) AS REGENERATED FROM THE SOURCE — citation
   bookkeeping, try/finally, metadata and all — returns the documented product. *)
From MV Require Import Base RotLemmas Record Regex Shape Typing Assembly AssemblyLemmas Pipeline
     PipelineLemmas ProductLemmas StrandLemmas Canonical EndToEnd Py PyObj PyHeap SrcEquivRegex SrcEquivRecord
     SrcEquivTyping SrcEquivAssembly SrcCorollaries SrcGlue SrcEndToEnd SrcEquivHeap SrcEquivCite SrcEquivAsmHeap
     SrcCorollariesHeap.
From MV.Gen Require Import Src.
From Coq Require Import Permutation String.
Local Open Scope Z_scope.

Theorem src_entry_end_to_end e v kv (l : list (mplasmid * Z)) (cs : list smod) :
  (0 < List.length (esite e))%nat -> vplasmid_ok e v -> Forall (mplasmid_ok e) (map fst l) ->
  let ms0 := number 0 (map fst l) in
  Permutation ms0 cs ->
  path (okey (qOdn v)) (map keys_of cs) (okey (qOup v)) ->
  okey (qOup v) <> okey (qOdn v) ->
  Forall (fun m => okey (so5 m) <> okey (qOup v)) cs ->
  clash_free rc_codes (map tmod_of ms0) ->
  forall vector m ms kw hd,
  good_ent vector -> Forall good_ent (m :: ms) ->
  ent_cls vector = generic_cls RVector e -> ent_seq_w vector = rotr kv (vword v) ->
  map raw_of (m :: ms) = map (marg e) l ->
  map ent_id (m :: ms) = seq 0 (List.length (m :: ms)) -> ent_id vector = List.length (m :: ms) ->
  deref_elems ((m :: ms) ++ [vector]) [] (heap_of (vector :: m :: ms)) = Ok hd ->
  exists prod ws,
    fst (run_assemble (S (S (List.length (m :: ms)))) vector (m :: ms) kw) = Ok (prod, ws)
    /\ pr_seq prod = List.concat (map frag cs) ++ (qOup v ++ vbackbone v)
    /\ unused_of ws = []
    /\ pr_id prod = kw_id kw /\ pr_name prod = kw_name kw
    /\ an_topology (pr_annotations prod) = Some "circular"%string
    /\ other_get (an_other (pr_annotations prod)) "comment"
       = Some (AComment [LGenerated; LVector (pr_id (ent_record vector));
                         LModules (map (fun x => pr_id (ent_record x)) (m :: ms))]).
Proof.
  intros Hs Hv Hms ms0 Hperm Hpath Hne F5 CF vector m ms kw hd Gv Gm Hc Hw Hraw Hids Hvid Ede.
  pose proof (end_to_end e v kv l cs Hs Hv Hms Hperm Hpath Hne F5 CF) as HE.
  assert (Hmodel : forget_used (assemble_raw (ent_cls vector) (ent_seq_w vector) (map raw_of (m :: ms)))
                   = Product (List.concat (map frag cs) ++ (qOup v ++ vbackbone v)) [] []).
  { rewrite Hc, Hw, Hraw, HE. reflexivity. }
  destruct (run_assemble_product vector m ms kw hd _ _ Gv Gm Hids Hvid Ede Hmodel)
    as (p & ws & mgr & Eres & Hid & Hname & Hseq & Hun & _).
  destruct (product_metadata mgr (pr_id (ent_record vector)) (map (fun x => pr_id (ent_record x)) (m :: ms)) p)
    as (_ & Hs' & Hi' & Hn' & Ht' & Hcm & _).
  eexists _, ws. split; [exact Eres|]. rewrite Hs', Hi', Hn', Hid, Hname.
  repeat split; auto.
Qed.

(* ---------- C11 at the entry point ---------------------------------------------------------------- *)

From MV Require Import NextLevel ShapeTyping Anchors TypingLemmas RecordLemmas.

(* the product returned by vector.assemble(...) as regenerated — the object itself, with the
   features, references and annotations it carries, and any rotation of its sequence — is accepted
   by the regenerated is_valid of the generic next-level module class *)
Theorem src_entry_next_level (sh : shape) (e' : enzyme) (k k' : nat) vector m ms kw hd prod ws (j : Z) (i : nat) :
  good_ent vector -> Forall good_ent (m :: ms) ->
  map ent_id (m :: ms) = seq 0 (List.length (m :: ms)) -> ent_id vector = List.length (m :: ms) ->
  deref_elems ((m :: ms) ++ [vector]) [] (heap_of (vector :: m :: ms)) = Ok hd ->
  cpat (ent_cls vector) = shape_pat sh -> crole (ent_cls vector) = RVector ->
  embeds (esite e') (rc_codes (esite e')) (eoff e') (eovh e') k k' sh = true ->
  (0 < List.length (esite e'))%nat ->
  fst (run_assemble (S (S (List.length (m :: ms)))) vector (m :: ms) kw) = Ok (prod, ws) ->
  (forall INS vt, pr_seq prod = INS ++ vt -> target (ent_cls vector) (ent_seq_w vector) true = Some vt ->
     Forall nucl INS /\ (eovh e' + 2 <= List.length INS)%nat) ->
  occurs_once (esite e') (pr_seq prod) -> occurs_once (rc_codes (esite e')) (pr_seq prod) ->
  Z.of_nat (List.length (pr_seq prod)) <= py_MAXSIZE ->
  StructuredRecord_is_valid (src_entity i (generic_cls RModule e') (rotr j (pr_seq prod))) = Ok true
  /\ StructuredRecord_is_valid (ENT i (generic_cls RModule e') prod) = Ok true.
Proof.
  intros Gv Gm Hids Hvid Ede Hp Hr Hemb Hs HA Hins O1 O2 Hfit.
  pose proof (entry_point_outcome vector m ms kw hd Gv Gm Hids Hvid Ede) as HO. rewrite HA in HO.
  cbn [outcome_of] in HO.
  destruct (vector_assemble (S (S (List.length (m :: ms)))) vector (m :: ms)) as [[prod0 ws0]|x] eqn:HA0.
  2:{ destruct x; cbn in HO; try discriminate. destruct o; discriminate. }
  cbn [outcome_of] in HO. inversion HO as [[Hseq Hun]].
  assert (NL : forall j0, StructuredRecord_is_valid (src_entity i (generic_cls RModule e') (rotr j0 (pr_seq prod))) = Ok true).
  { intros j0. rewrite Hseq.
    apply (src_next_level sh e' k k' vector (m :: ms) prod0 ws0 j0 i Gv Gm Hids Hp Hr Hemb Hs HA0); rewrite <- Hseq; auto. }
  split; [apply NL|].
  (* the object itself: is_valid reads its class, its sequence and that it is circular *)
  assert (Hkind : pr_kind prod = KCircularRecord).
  { pose proof (vector_assemble_eq vector (m :: ms) Gv Gm Hids) as Hm. rewrite HA0 in Hm. cbn [outcome_of] in Hm.
    pose proof (run_assemble_records vector m ms kw hd Gv Gm Hids Hvid Ede) as RR.
    destruct (assemble_raw (ent_cls vector) (ent_seq_w vector) (map raw_of (m :: ms))) as [w0 used unused| | | |];
      cbn in Hm; try discriminate.
    destruct RR as (p' & ws'' & mgr' & usedE & Eres' & _ & _ & Kp & _).
    rewrite HA in Eres'. inversion Eres' as [[Hp' Hws']].
    destruct (product_metadata mgr' (pr_id (ent_record vector)) (map (fun x => pr_id (ent_record x)) (m :: ms)) p') as (Hk' & _).
    exact (eq_trans Hk' Kp). }
  assert (Hf : fits (ENT i (generic_cls RModule e') prod)) by (unfold fits; cbn; exact Hfit).
  rewrite (StructuredRecord_is_valid_eq _ Hf).
  assert (Hc : ent_circ (ENT i (generic_cls RModule e') prod) = true).
  { unfold ent_circ. cbn [ent_record]. unfold is_CircularRecord. rewrite Hkind. apply orb_true_r. }
  rewrite Hc. cbn [ent_cls ent_record].
  specialize (NL 0).
  assert (Hf0 : fits (src_entity i (generic_cls RModule e') (rotr 0 (pr_seq prod))))
    by (unfold fits, src_entity; cbn; now rewrite rotr_length).
  rewrite (StructuredRecord_is_valid_eq _ Hf0) in NL.
  assert (Hc0 : ent_circ (src_entity i (generic_cls RModule e') (rotr 0 (pr_seq prod))) = true)
    by (unfold ent_circ, src_entity; cbn; apply orb_true_r).
  rewrite Hc0 in NL. cbn [src_entity ent_cls ent_record pr_seq] in NL.
  rewrite rotr_0 in NL. exact NL.
Qed.
