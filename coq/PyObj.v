(* PyObj.v — the objects the translated code (Gen/Src.v) manipulates and the
   primitives standing for what is NOT moclo source: CPython's re match objects,
   Biopython's Seq / SeqRecord / SeqFeature / locations / Restriction, entities of
   the class hierarchy.  These definitions are the modelled (trusted) environment;
   everything moclo's own methods do with them is regenerated from the source.
   Executable definitions only. *)
From MV Require Import Registry Base Record Regex Typing Circle Annot Cache Py.
From Coq Require Import String Ascii.

Local Open Scope Z_scope.

Notation word := (list letter).

(* ---------- strings (annotation values) -------------------------------- *)

Definition lower_ascii (a : ascii) : ascii :=
  let n := nat_of_ascii a in
  if (Nat.leb 65 n && Nat.leb n 90)%bool then ascii_of_nat (n + 32) else a.
Fixpoint str_lower (s : string) : string :=
  match s with EmptyString => EmptyString | String a r => String (lower_ascii a) (str_lower r) end.

(* ---------- Biopython records ------------------------------------------- *)

Inductive reckind := KSeq | KSeqRecord | KCircularRecord.

(* what the properties observe of a Seq / SeqRecord / CircularRecord: the class,
   the sequence, an identity standing for id (name, description, dbxrefs are carried,
   never inspected), the feature table, the "topology" annotation when there is one,
   the per-letter annotation tracks *)
(* one line of the COMMENT block AssemblyManager writes into the product *)
Inductive cline :=
| LGenerated                   (* "Generated with moclo v<version>" *)
| LVector (id : nat)           (* "Vector: <id of the vector's record>" *)
| LModules (ids : list nat).   (* "Modules: <ids of the modules' records, in argument order>" *)

(* an annotation value other than the topology and the reference list *)
Inductive aval := AStr (s : string) | AComment (l : list cline).

(* record.annotations: the "topology" entry, the "references" entry (a list whose elements are
   compared with ==: Reference objects, interned), and the other entries in insertion order *)
Record annots := AN {
  an_topology : option string;
  an_references : option (list qcit);
  an_other : list (string * aval)
}.
Definition an_empty : annots := AN None None [].

Record pyrecord := PR {
  pr_kind : reckind;
  pr_seq : word;
  pr_id : nat;
  pr_features : list feature;
  pr_annotations : annots;
  pr_letter_annotations : list (list Z);
  pr_name : nat                             (* record.name, interned; 0 = "<unknown name>" *)
}.

Definition pr_description (r : pyrecord) : unit := tt.
Definition pr_dbxrefs (r : pyrecord) : unit := tt.

Definition to_record (r : pyrecord) : record := R (pr_seq r) (pr_features r) (pr_letter_annotations r).

(* Seq(...) / record.seq as a value of its own *)
Definition mk_Seq (w : word) : pyrecord := PR KSeq w 0 [] an_empty [] 0.
Definition py_seq (r : pyrecord) : pyrecord := mk_Seq (pr_seq r).

(* SeqRecord(seq, id, name, description, dbxrefs, features, annotations, letter_annotations) *)
Definition mk_SeqRecord (seq : pyrecord) (id : nat) (name : nat) (_ _ : unit) (features : list feature)
           (annotations : annots) (letter_annotations : list (list Z)) : pyrecord :=
  PR KSeqRecord (pr_seq seq) id features annotations letter_annotations name.

(* type(self)(seq=..., id=..., ..., features=..., annotations=..., letter_annotations=...)
   on a CircularRecord whose annotations were those of a CircularRecord already *)
Definition mk_CircularRecord_kw (seq : pyrecord) (id : nat) (name : nat) (_ _ : unit) (features : list feature)
           (annotations : annots) (letter_annotations : list (list Z)) : pyrecord :=
  PR KCircularRecord (pr_seq seq) id features annotations letter_annotations name.

Definition is_SeqRecord (r : pyrecord) : bool :=
  match pr_kind r with KSeq => false | _ => true end.
Definition is_CircularRecord (r : pyrecord) : bool :=
  match pr_kind r with KCircularRecord => true | _ => false end.

(* copy.deepcopy: values are immutable here *)
Definition py_deepcopy {A} (x : A) : A := x.

(* "topology" in annotations, annotations["topology"] = v, annotations.get("topology", default) *)
Definition ann_has_topology (a : annots) : bool := negb (is_none (an_topology a)).
Definition ann_set_topology (a : annots) (v : string) : annots := AN (Some v) (an_references a) (an_other a).
Definition ann_get_topology (a : annots) (default : string) : string :=
  match an_topology a with Some v => v | None => default end.

Definition aval_eqb (a b : aval) : bool :=
  match a, b with
  | AStr s, AStr t => String.eqb s t
  | AComment l, AComment m =>
    (fix go (l m : list cline) : bool :=
       match l, m with
       | [], [] => true
       | x :: l', y :: m' =>
         (match x, y with
          | LGenerated, LGenerated => true
          | LVector i, LVector j => Nat.eqb i j
          | LModules i, LModules j => (fix eqs (i j : list nat) : bool :=
                                         match i, j with [], [] => true | a :: i', b :: j' => Nat.eqb a b && eqs i' j' | _, _ => false end) i j
          | _, _ => false
          end) && go l' m'
       | _, _ => false
       end) l m
  | _, _ => false
  end.
Fixpoint other_get (d : list (string * aval)) (k : string) : option aval :=
  match d with [] => None | (k0, v) :: r => if String.eqb k0 k then Some v else other_get r k end.
(* d[k] = v on an insertion-ordered dictionary *)
Fixpoint other_set (d : list (string * aval)) (k : string) (v : aval) : list (string * aval) :=
  match d with
  | [] => [(k, v)]
  | (k0, v0) :: r => if String.eqb k0 k then (k0, v) :: r else (k0, v0) :: other_set r k v
  end.

(* Biopython, SeqRecord.__getitem__(slice): only "molecule_type" survives *)
Definition ann_sliced (a : annots) : annots :=
  AN None None (match other_get (an_other a) "molecule_type" with Some v => [("molecule_type"%string, v)] | None => [] end).
(* Biopython, SeqRecord.__add__: the entries present and equal on both sides *)
Definition ann_common (a b : annots) : annots :=
  AN (match an_topology a, an_topology b with
      | Some x, Some y => if String.eqb x y then Some x else None | _, _ => None end)
     (match an_references a, an_references b with
      | Some x, Some y => if qcits_eqb x y then Some x else None | _, _ => None end)
     (filter (fun kv => match other_get (an_other b) (fst kv) with Some v => aval_eqb (snd kv) v | None => false end)
             (an_other a)).

(* len(x), str(x) *)
Class PyLen (A : Type) := py_len_of : A -> Z.
#[global] Instance PyLen_list {A} : PyLen (list A) := @py_len A.
#[global] Instance PyLen_rec : PyLen pyrecord := fun r => py_len (pr_seq r).
Definition py_str (r : pyrecord) : word := pr_seq r.

(* x == y *)
Class PyEq (A : Type) := py_eq : A -> A -> bool.
#[global] Instance PyEq_Z : PyEq Z := Z.eqb.
#[global] Instance PyEq_word : PyEq word := word_eqb.
#[global] Instance PyEq_string : PyEq string := String.eqb.
#[global] Instance PyEq_rec : PyEq pyrecord := fun a b => word_eqb (pr_seq a) (pr_seq b).   (* Seq == Seq *)

(* q in s  on strings *)
Definition py_in_str (q s : word) : bool := infixb letter_eqb q s.

(* s * k *)
Fixpoint repeat_app {A} (s : list A) (k : nat) : list A :=
  match k with O => [] | S k' => s ++ repeat_app s k' end.
Class PyMul (A : Type) := py_mul : A -> Z -> A.
#[global] Instance PyMul_Z : PyMul Z := Z.mul.
#[global] Instance PyMul_list {A} : PyMul (list A) := fun s k => repeat_app s (Z.to_nat k).

(* x[i] *)
Class PyGetItem (A B : Type) := py_getitem : A -> Z -> exc B.
#[global] Instance PyGetItem_pair : PyGetItem (Z * Z) Z :=
  fun p i => if i =? 0 then Ok (fst p) else if i =? 1 then Ok (snd p) else Err XIndexError.
#[global] Instance PyGetItem_list {A} : PyGetItem (list A) A :=
  fun l i => match nth_error l (Z.to_nat (py_norm (py_len l) i)) with
             | Some x => if (i <? - py_len l) then Err XIndexError else Ok x
             | None => Err XIndexError end.

(* x[lo:hi] ; x + y : per-class behaviour, instances for records are declared in
   Gen/Src.v after CircularRecord's own methods have been translated *)
Class PyGetSlice (A : Type) := py_getslice : A -> option Z -> option Z -> exc A.
#[global] Instance PyGetSlice_list {A} : PyGetSlice (list A) := fun s lo hi => Ok (py_slice s lo hi).
Class PyAddM (A B : Type) := py_addm : A -> B -> exc A.
#[global] Instance PyAddM_Z : PyAddM Z Z := fun a b => Ok (a + b).
#[global] Instance PyAddM_list {A} : PyAddM (list A) (list A) := fun a b => Ok (a ++ b).

(* Biopython: SeqRecord.__getitem__(slice) — slice.indices, then features wholly
   inside are kept and shifted, tracks sliced; annotations are NOT carried over
   (Biopython >= 1.79 copies them — 1.88 here: they are kept) *)
Definition bio_getslice (r : pyrecord) (lo hi : option Z) : pyrecord :=
  let n := py_len (pr_seq r) in
  let a := match lo with None => 0 | Some i => py_norm n i end in
  let b := match hi with None => n | Some i => py_norm n i end in
  match pr_kind r with
  | KSeq => PR KSeq (py_slice (pr_seq r) lo hi) 0 [] an_empty [] 0
  | _ =>
    let b' := Z.max a b in
    let s := slice_record a b' (to_record r) in
    PR KSeqRecord (rseq s) (pr_id r) (rfeats s) (ann_sliced (pr_annotations r)) (rtracks s) (pr_name r)
  end.

(* super(CircularRecord, self).__getitem__(index) for a slice index *)
Definition bio_getitem_slice (r : pyrecord) (index : option Z * option Z) : pyrecord :=
  let k := match pr_kind r with KSeq => KSeq | _ => KSeqRecord end in
  let s := bio_getslice r (fst index) (snd index) in
  PR k (pr_seq s) (pr_id s) (pr_features s) (pr_annotations s) (pr_letter_annotations s) (pr_name s).

(* isinstance(x, (Seq, SeqRecord)): every value of type pyrecord is one *)
Definition py_isinstance_seq_or_record (r : pyrecord) : bool := true.

(* Biopython: Seq + Seq, SeqRecord + SeqRecord, Seq + SeqRecord (__radd__) *)
Definition bio_add (x y : pyrecord) : pyrecord :=
  match pr_kind x, pr_kind y with
  | KSeq, KSeq => mk_Seq (pr_seq x ++ pr_seq y)
  | _, _ =>
    let c := concat_record (to_record x) (to_record y) in
    PR KSeqRecord (rseq c) (if is_SeqRecord x then pr_id x else pr_id y) (rfeats c)
       (if is_SeqRecord x then if is_SeqRecord y then ann_common (pr_annotations x) (pr_annotations y)
                               else pr_annotations x else pr_annotations y) []
       (if is_SeqRecord x then if is_SeqRecord y then (if Nat.eqb (pr_name x) (pr_name y) then pr_name x else 0)
                               else pr_name x else pr_name y)
  end.

(* Seq.upper(), Seq.reverse_complement() *)
Definition seq_upper (r : pyrecord) : pyrecord := mk_Seq (fold_case (pr_seq r)).
Definition seq_rc (r : pyrecord) : pyrecord := mk_Seq (rc (pr_seq r)).

(* ---------- re match objects, SeqMatch ---------------------------------- *)

Definition re_start (m : rmatch) : Z := Z.of_nat (mstart m).
Definition re_end (m : rmatch) : Z := Z.of_nat (mend m).
Definition re_span (m : rmatch) (g : Z) : exc (Z * Z) :=
  if g <? 0 then Err XIndexError else
  match span m (Z.to_nat g) with
  | Some (a, b) => Ok (Z.of_nat a, Z.of_nat b)
  | None => Err XIndexError
  end.

(* compiled_pattern.match(data, pos, endpos): anchored at pos, reading data[:endpos] *)
Definition re_match (items : pattern) (data : word) (pos endpos : Z) : option rmatch :=
  match bt items (skipn (Z.to_nat pos) data) (Z.to_nat (endpos - pos)) (Z.to_nat pos) 1%nat [] [] with
  | Some (e, cs) => Some (M (Z.to_nat pos) e cs)
  | None => None
  end.

Record seqmatch := SM { sm_match : rmatch; sm_rec : pyrecord; sm_shift : Z }.
Definition mk_SeqMatch (m : rmatch) (rec : pyrecord) : seqmatch := SM m rec 0.

Definition py_MAXSIZE : Z := 9223372036854775807.

(* ---------- features and locations -------------------------------------- *)

(* a Biopython location object: SimpleLocation or CompoundLocation *)
Inductive pyloc := LSimple (p : part) | LCompound (ps : list part).

Definition loc_parts_raw (l : pyloc) : list part :=
  match l with LSimple p => [p] | LCompound ps => ps end.
Definition loc_parts (l : pyloc) : list pyloc := map LSimple (loc_parts_raw l).
Definition ploc_start (l : pyloc) : Z := loc_start (loc_parts_raw l).
Definition ploc_end (l : pyloc) : Z := loc_end (loc_parts_raw l).
Definition ploc_strand (l : pyloc) : strand :=
  match l with LSimple p => pstrand p | LCompound _ => NoStrand end.
Definition ploc_ref (l : pyloc) : unit := tt.
Definition ploc_ref_db (l : pyloc) : unit := tt.
(* loc + offset *)
Definition ploc_shift (l : pyloc) (off : Z) : pyloc :=
  match l with
  | LSimple p => LSimple (shift_part off p)
  | LCompound ps => LCompound (map (shift_part off) ps)
  end.
#[global] Instance PyAddM_loc : PyAddM pyloc Z := fun l off => Ok (ploc_shift l off).
(* FeatureLocation(start=, end=, strand=, ref=, ref_db=) *)
Definition mk_FeatureLocation (s e : Z) (st : strand) (_ _ : unit) : pyloc := LSimple (P s e st).
(* CompoundLocation(parts) *)
Definition mk_CompoundLocation (ls : list pyloc) : pyloc := LCompound (List.concat (map loc_parts_raw ls)).

(* feature.location: the model's empty part list stands for "no location" *)
Definition feat_location (f : feature) : option pyloc :=
  match floc f with
  | [] => None
  | [p] => Some (LSimple p)
  | ps => Some (LCompound ps)
  end.
Definition loc_of_pyloc (l : option pyloc) : loc :=
  match l with None => [] | Some l => loc_parts_raw l end.

(* feature.type, compared with the literal "source" only *)
Inductive ftype_t := FType (source : bool) (other : nat).
Definition feat_type (f : feature) : ftype_t := FType (fsource f) (ftype f).
Definition ftype_is_source (t : ftype_t) : bool := match t with FType s _ => s end.
Definition feat_id (f : feature) : unit := tt.
Definition feat_qualifiers (f : feature) : quals := fquals f.
(* SeqFeature(location=, type=, id=, qualifiers=) *)
Definition mk_SeqFeature (l : option pyloc) (t : ftype_t) (_ : unit) (q : quals) : feature :=
  match t with FType s o => F s o q (loc_of_pyloc l) end.

(* ---------- Bio.Restriction --------------------------------------------- *)

(* the supported family leaves a 5' overhang *)
Definition enz_is_3overhang (e : enzyme) : bool := false.

(* cutter.catalyse(seq) on a linear Seq: the fragments between the kept cuts *)
Fixpoint split_at (w : word) (prev : Z) (cuts : list Z) : list word :=
  match cuts with
  | [] => [w]
  | c :: r => firstn (Z.to_nat (c - prev)) w :: split_at (skipn (Z.to_nat (c - prev)) w) c r
  end.
Definition enz_catalyse (e : enzyme) (s : pyrecord) : list word :=
  split_at (pr_seq s) 0 (linear_cuts e (pr_seq s)).

(* ---------- entities: instances of StructuredRecord subclasses ---------- *)

(* an instance: its identity (distinct objects, distinct ids), its class (role,
   cutter, compiled structure) and the record it wraps *)
Record entity := ENT { ent_id : nat; ent_cls : cls; ent_record : pyrecord }.
Definition ent_cutter (e : entity) : enzyme := cenz (ent_cls e).
Definition ent_regex (e : entity) : pattern := cpat (ent_cls e).     (* cls._get_regex(): see Cache.v *)
Definition ent_seq (e : entity) : pyrecord := py_seq (ent_record e).

(* x is y  on entities *)
Definition ent_is (a b : entity) : bool := Nat.eqb (ent_id a) (ent_id b).

(* add_as_source(src_record, dst_record) (core/_utils.py): a whole-length source
   feature naming the plasmid is appended to dst_record *)
Definition py_add_as_source (src dst : pyrecord) : pyrecord :=
  PR (pr_kind dst) (pr_seq dst) (pr_id dst)
     (pr_features dst ++ [source_feature (pr_id src) (py_len (pr_seq dst))])
     (pr_annotations dst) (pr_letter_annotations dst) (pr_name dst).

(* ---------- AssemblyManager ---------------------------------------------- *)

Record asmgr := mk_AssemblyManager {
  am_vector : entity; am_modules : list entity; am_elements : list entity; am_name : nat; am_id : nat }.

(* dictionary keys are Seq objects: equal when their text is equal (case-sensitive) *)
Definition seq_keq (a b : pyrecord) : bool := word_eqb (pr_seq a) (pr_seq b).

(* d[k] and d.pop(k): KeyError carries the key *)
Definition dict_getitem {V} (keq : pyrecord -> pyrecord -> bool) (d : list (pyrecord * V)) (k : pyrecord) : exc V :=
  match dict_get keq d k with Some v => Ok v | None => Err (XKeyError (KeySeq (pr_seq k))) end.
Definition dict_pop {V} (keq : pyrecord -> pyrecord -> bool) (d : list (pyrecord * V)) (k : pyrecord)
  : exc (V * list (pyrecord * V)) :=
  match dict_get keq d k with Some v => Ok (v, dict_remove keq d k) | None => Err (XKeyError (KeySeq (pr_seq k))) end.

(* SeqRecord(seq) with default id, no features, empty annotations *)
Definition mk_SeqRecord1 (seq : pyrecord) : pyrecord := PR KSeqRecord (pr_seq seq) 0 [] an_empty [] 0.

(* CircularRecord(record) (record.py:43-85): copies the record; a topology annotation other
   than "circular" (any case) is refused with ValueError *)
Definition bio_CircularRecord_of (r : pyrecord) : exc pyrecord :=
  match an_topology (pr_annotations r) with
  | Some t => if String.eqb (str_lower t) "circular" then
                Ok (PR KCircularRecord (pr_seq r) (pr_id r) (pr_features r) (pr_annotations r) (pr_letter_annotations r) (pr_name r))
              else Err XValueError
  | None => Ok (PR KCircularRecord (pr_seq r) (pr_id r) (pr_features r) (pr_annotations r) (pr_letter_annotations r) (pr_name r))
  end.

(* ---------- core/_utils.add_as_source, parts.characterize: their primitives ---------- *)

(* the qualifiers of a generated source feature, interned: they name the plasmid *)
Definition py_dict_organism_mol_type_plasmid_label (_ _ : string) (plasmid : nat) (_ : unit) : nat := 901 + plasmid.
(* FeatureLocation(start, end) *)
Definition mk_FeatureLocation2 (s e : Z) : pyloc := LSimple (P s e NoStrand).
(* SeqFeature(location, type=, qualifiers=) *)
Definition mk_SeqFeature3 (l : option pyloc) (t : string) (q : nat) : feature :=
  F (String.eqb t "source") 0 q (loc_of_pyloc l).
(* record.features.append(feature) *)
Definition rec_append_feature (r : pyrecord) (f : feature) : pyrecord :=
  PR (pr_kind r) (pr_seq r) (pr_id r) (pr_features r ++ [f]) (pr_annotations r) (pr_letter_annotations r) (pr_name r).

(* a class object as characterize sees it: its own description, whether it is abstract, its
   direct subclasses in __subclasses__() order *)
Inductive pyclass := PCL (c : cls) (abstract : bool) (subs : list pyclass).
Definition pcl_cls (p : pyclass) : cls := match p with PCL c _ _ => c end.
Definition pcl_isabstract (p : pyclass) : bool := match p with PCL _ a _ => a end.
Definition pcl_subclasses (p : pyclass) : list pyclass := match p with PCL _ _ s => s end.
(* subclass(record) *)
Definition mk_entity (p : pyclass) (r : pyrecord) : entity := ENT 0 (pcl_cls p) r.

(* ---------- constructors and reverse complement of Biopython records ------------------ *)

(* SeqRecord.__init__(self, seq, id, name, description, dbxrefs, features, annotations,
   letter_annotations) reached through super() from a subclass of the given kind; `annotations`
   is None or a dictionary, of which the topology entry is kept *)
Definition bio_SeqRecord_init (k : reckind) (seq : pyrecord) (id : nat) (name : nat) (_ _ : unit) (features : list feature)
           (annotations : option annots) (letter_annotations : list (list Z)) : pyrecord :=
  PR k (pr_seq seq) id features (match annotations with Some a => a | None => an_empty end) letter_annotations name.

(* record.annotations as a dictionary object (a SeqRecord always has one) *)
Definition rec_annotations_dict (r : pyrecord) : option annots := Some (pr_annotations r).

(* SeqRecord.reverse_complement(id=, name=, description=, features=, annotations=,
   letter_annotations=, dbxrefs=) (Biopython): a plain SeqRecord with the reverse complement
   sequence; features flipped and sorted when features=True, tracks reversed when
   letter_annotations=True, annotations kept only when annotations=True; identifiers kept
   unless False is passed (modelled: the identity is carried) *)
Definition bio_reverse_complement (r : pyrecord) (id name description features annotations letter_annotations dbxrefs : bool)
  : pyrecord :=
  let rc_ := rc_record (to_record r) in
  PR KSeqRecord (rseq rc_) (pr_id r) (if features then rfeats rc_ else [])
     (if annotations then pr_annotations r else an_empty) (if letter_annotations then rtracks rc_ else [])
     (if name then pr_name r else 0).

(* ---------- registries (registry/base.py) ------------------------------------------------ *)

(* an Item: its id and the rest (entity, name, resistance), interned *)
Record ibody := IB { ib_name : nat; ib_resistance : option string; ib_entity : nat }.
Definition IB0 (n : nat) : ibody := IB n None 0.
Coercion IB0 : nat >-> ibody.
Bind Scope nat_scope with ibody.
Record regitem := RI { item_id : string; item_body : ibody }.
(* Item(id=, name=, resistance=, entity=) *)
Definition mk_Item (id : string) (name : nat) (resistance : option string) (entity : nat) : regitem :=
  RI id (IB name resistance entity).

(* ---------- what the registries read (registry/base.py: EmbeddedRegistry, FilesystemRegistry) --------- *)

(* a GenBank record once parsed and wrapped as a CircularRecord, as far as the registries look at
   it: id, name and description (interned), per feature the /label qualifier (absent, or the list
   of its values: all that find_resistance reads), what the entity constructor / characterize
   returns (None: RuntimeError) *)
Record lfeat := LF { lf_label : option (list string) }.
Record grec := GR { gr_id : string; gr_name : nat; gr_description : nat; gr_features : list lfeat; gr_entity : option nat }.
Definition grec_id (r : grec) : string := gr_id r.
Definition grec_name (r : grec) : nat := gr_name r.
Definition grec_description (r : grec) : nat := gr_description r.
Definition grec_set_id (r : grec) (v : string) : grec := GR v (gr_name r) (gr_description r) (gr_features r) (gr_entity r).
(* a record as find_resistance sees it: its id and its features' labels; Python sets of strings as
   duplicate-free lists (only len(), pop() of a singleton and intersection with a dict's keys are used) *)
Record lrec := LR { lr_id : string; lr_features : list lfeat }.
Definition lrec_of (r : grec) : lrec := LR (gr_id r) (gr_features r).
Definition lrec_id (r : lrec) : string := lr_id r.
Definition lrec_features (r : lrec) : list lfeat := lr_features r.
Definition lfeat_get (f : lfeat) (key : string) (default : list string) : list string :=
  if String.eqb key "label" then match lf_label f with Some l => l | None => default end else default.
Definition py_set_of_list (l : list string) : list string := nodup string_dec l.
Definition set_inter_keys (s : list string) (d : list (string * string)) : list string :=
  filter (fun x => existsb (String.eqb x) (map fst d)) s.
Definition set_pop (s : list string) : exc string :=
  match s with x :: _ => Ok x | [] => Err (XKeyError (KeyStr "pop from an empty set")) end.
Definition strdict_get (d : list (string * string)) (k : string) : option string :=
  match find (fun p => String.eqb (fst p) k) d with Some p => Some (snd p) | None => None end.
Definition grec_entity (r : grec) : exc nat :=
  match gr_entity r with Some x => Ok x | None => Err XRuntimeError end.
(* io.TextIOWrapper(f), Bio.SeqIO.read(handle, format), CircularRecord(record): parsing is the
   environment; the handle already stands for the record in it *)
Definition io_wrap (r : grec) : grec := r.
Definition seqio_read (r : grec) (format : string) : grec := r.
Definition grec_circular (r : grec) : grec := r.

(* a member of a tar archive: its name, the record in it *)
Record tarentry := TE { te_name : string; te_record : grec }.
(* an embedded registry: the archive pkg_resources finds under (_module, _file) *)
Record embreg := EMB { emb_archive : list tarentry }.
Definition emb_stream (self : embreg) (_ _ : unit) : list tarentry := emb_archive self.
Definition emb_module (self : embreg) : unit := tt.
Definition emb_file (self : embreg) : unit := tt.
Definition tar_open_gz (rs : list tarentry) (mode : string) : list tarentry := rs.
Definition tar_open (rs : list tarentry) : list tarentry := rs.
Definition tar_iter (tar : list tarentry) : list tarentry := tar.
Definition tar_getmembers (tar : list tarentry) : list tarentry := tar.
Definition tar_extractfile (tar : list tarentry) (e : tarentry) : grec := te_record e.
(* self._load_entity(record): abstract in the base class; the kits' subclasses wrap the record *)
Definition emb_load_entity (self : embreg) (r : grec) : exc nat := grec_entity r.

(* a directory registry: the listing of "/" (name, is a file, the record in it), the extensions *)
Record fsreg := FSR { fsr_listing : list (string * bool * grec); fsr_exts : list string }.
Record finfo := FI { fi_name : string }.
(* "*.{}".format(extension) *)
Definition fmt_glob_ext (e : string) : string := String "*"%char (String "."%char e).
Definition fsreg_files (self : fsreg) : list string := map fmt_glob_ext (fsr_exts self).
(* one fnmatch pattern of the form "*" + literal text (the only form _files builds; extensions
   are taken to contain no fnmatch metacharacter), matched ignoring case: pyfilesystem reports the OS
   file system as case-insensitive *)
Definition glob1 (p name : string) : bool :=
  match p with
  | String "*"%char suf => ends_with (lower suf) (lower name)
  | _ => String.eqb (lower p) (lower name)
  end.
(* self.fs.filterdir("/", files=patterns, exclude_dirs=patterns'): pyfilesystem keeps a file when its
   name matches one of `files`, and a directory unless its name matches one of `exclude_dirs` (the
   `files` patterns do not apply to directories) *)
Definition fs_filterdir (self : fsreg) (path : string) (files : list string) (exclude_dirs : list string) : list finfo :=
  map (fun e => FI (fst (fst e)))
      (filter (fun e : string * bool * grec => if snd (fst e) then existsb (fun p => glob1 p (fst (fst e))) files
                        else negb (existsb (fun p => glob1 p (fst (fst e))) exclude_dirs)) (fsr_listing self)).
(* fs.path.splitext(name) *)
Definition py_splitext (name : string) : string * string :=
  let st := splitext_stem name in (st, substring (String.length st) (String.length name - String.length st) name).
(* self.fs.open(name) *)
Definition fs_open (self : fsreg) (name : string) : exc grec :=
  match find (fun e => String.eqb (fst (fst e)) name) (fsr_listing self) with
  | Some e => Ok (snd e)
  | None => Err XRuntimeError
  end.
(* self.base.characterize(record) *)
Definition fsreg_characterize (self : fsreg) (r : grec) : exc nat := grec_entity r.

(* d[k] on a dictionary keyed by strings *)
Definition dict_getitem_str {V} (d : list (string * V)) (k : string) : exc V :=
  match dict_get String.eqb d k with Some v => Ok v | None => Err (XKeyError (KeyStr k)) end.
Definition dict_mem_str {V} (d : list (string * V)) (k : string) : bool :=
  negb (is_none (dict_get String.eqb d k)).

(* ---------- class namespaces (core/_structured.py: the `_regex` class attribute) ---------- *)

(* the state: which classes own a `_regex` entry, and its value (Cache.v); a class is a centry
   (its name, the names along its MRO, its description) *)
Definition ns_own (st : cache) (c : centry) (attr : string) : option pattern := cache_get (cname c) st.
Definition ns_set (st : cache) (c : centry) (attr : string) (p : pattern) : cache := (cname c, p) :: st.
(* ordinary attribute lookup: the first owner along the MRO; None is StructuredRecord's default *)
Definition ns_lookup (st : cache) (c : centry) (attr : string) : option pattern := lookup_names st (cmro c).
Definition mk_DNARegex (p : pattern) : pattern := p.          (* DNARegex(text): the compiled pattern *)
Definition cls_structure (c : centry) : pattern := cpat (ccls c).

(* ---------- texts of DNA patterns (structure() of modules.py / vectors.py) ------------------------- *)

(* a character of such a text: an IUPAC letter (upper case, as Bio.Restriction writes sites), the
   two cut markers of elucidate(), the three regex characters structure() inserts *)
Inductive sch := SL (c : code) | SCaret | SUnder | SOpen | SClose | SStar | SQuest | SOther (a : ascii).
Definition pystr := list sch.

Definition sch_eqb (a b : sch) : bool :=
  match a, b with
  | SL x, SL y => code_eqb x y
  | SCaret, SCaret | SUnder, SUnder | SOpen, SOpen | SClose, SClose | SStar, SStar | SQuest, SQuest => true
  | SOther x, SOther y => Ascii.eqb x y
  | _, _ => false
  end.

Definition sch_of_ascii (a : ascii) : sch :=
  match a with
  | "A"%char => SL cA | "C"%char => SL cC | "G"%char => SL cG | "T"%char => SL cT
  | "R"%char => SL cR | "Y"%char => SL cY | "S"%char => SL cS | "W"%char => SL cW
  | "K"%char => SL cK | "M"%char => SL cM | "B"%char => SL cB | "D"%char => SL cD
  | "H"%char => SL cH | "V"%char => SL cV | "N"%char => SL cN
  | "^"%char => SCaret | "_"%char => SUnder | "("%char => SOpen | ")"%char => SClose | "*"%char => SStar
  | "?"%char => SQuest
  | _ => SOther a
  end.
(* a string constant of the source *)
Fixpoint sch_of_string (s : string) : pystr :=
  match s with EmptyString => [] | String a r => sch_of_ascii a :: sch_of_string r end.

(* str(x), Seq(x): the text itself *)
Definition sch_id (s : pystr) : pystr := s.

(* Bio.Restriction, cutter.elucidate() for an enzyme cutting downstream of an unambiguous site with
   a 5' overhang: the site, N x offset, "^", N x overhang, "_", "N" *)
Definition enz_elucidate (e : enzyme) : pystr :=
  map SL (esite e) ++ repeat (SL cN) (eoff e) ++ [SCaret] ++ repeat (SL cN) (eovh e) ++ [SUnder; SL cN].

(* Seq(text).reverse_complement(): letters complemented, everything else kept, order reversed *)
Definition sch_compl (c : sch) : sch := match c with SL x => SL (compl x) | y => y end.
Definition sch_rc (s : pystr) : pystr := rev (map sch_compl s).

(* text.replace(old, new): leftmost non-overlapping occurrences; an empty `old` is not used by the source *)
Fixpoint sch_prefix (p s : pystr) : option pystr :=
  match p, s with
  | [], _ => Some s
  | x :: p', y :: s' => if sch_eqb x y then sch_prefix p' s' else None
  | _ :: _, [] => None
  end.
(* scanning left to right; after a match the characters of the occurrence are skipped *)
Fixpoint sch_rep (s old new : pystr) (skip : nat) : pystr :=
  match s with
  | [] => []
  | c :: r =>
    match skip with
    | S k => sch_rep r old new k
    | O => match sch_prefix old s with
           | Some _ => match old with
                       | [] => c :: sch_rep r old new 0
                       | _ :: o' => new ++ sch_rep r old new (List.length o')
                       end
           | None => c :: sch_rep r old new 0
           end
    end
  end.
Definition sch_replace (s old new : pystr) : pystr := sch_rep s old new 0.

(* a part class as AbstractPart.structure() sees it: module or vector part, its cutter, its
   (upstream, downstream) signature *)
Record partcls := PCS { pc_role : role; pc_enz : enzyme; pc_sig : pystr * pystr }.
Definition pc_is_module (c : partcls) : bool := match pc_role c with RModule => true | RVector => false end.
Definition pc_is_vector (c : partcls) : bool := match pc_role c with RVector => true | RModule => false end.
(* cutter.ovhgseq: N x overhang; cutter.is_5overhang(): the family cuts with a 5' overhang *)
Definition enz_ovhgseq (e : enzyme) : pystr := repeat (SL cN) (eovh e).
Definition enz_is_5overhang (e : enzyme) : bool := true.
(* "^{}_".format(x), "_{}^".format(x), "({})(".format(x), ")({})".format(x) *)
Definition fmt_caret_under (x : pystr) : pystr := [SCaret] ++ x ++ [SUnder].
Definition fmt_under_caret (x : pystr) : pystr := [SUnder] ++ x ++ [SCaret].
Definition fmt_group_open (x : pystr) : pystr := [SOpen] ++ x ++ [SClose; SOpen].
Definition fmt_close_group (x : pystr) : pystr := [SClose; SOpen] ++ x ++ [SClose].
