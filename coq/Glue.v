(* Glue.v — parsing of case literals and comparators used by the generated case
   files. Never a second copy of a model function. *)
From MV Require Import Base Record Regex.
From Coq Require Import String Ascii.
Open Scope list_scope.

Definition letter_of_ascii (a : ascii) : option letter :=
  match a with
  | "A"%char => Some (L cA true) | "C"%char => Some (L cC true) | "G"%char => Some (L cG true)
  | "T"%char => Some (L cT true) | "R"%char => Some (L cR true) | "Y"%char => Some (L cY true)
  | "S"%char => Some (L cS true) | "W"%char => Some (L cW true) | "K"%char => Some (L cK true)
  | "M"%char => Some (L cM true) | "B"%char => Some (L cB true) | "D"%char => Some (L cD true)
  | "H"%char => Some (L cH true) | "V"%char => Some (L cV true) | "N"%char => Some (L cN true)
  | "a"%char => Some (L cA false) | "c"%char => Some (L cC false) | "g"%char => Some (L cG false)
  | "t"%char => Some (L cT false) | "r"%char => Some (L cR false) | "y"%char => Some (L cY false)
  | "s"%char => Some (L cS false) | "w"%char => Some (L cW false) | "k"%char => Some (L cK false)
  | "m"%char => Some (L cM false) | "b"%char => Some (L cB false) | "d"%char => Some (L cD false)
  | "h"%char => Some (L cH false) | "v"%char => Some (L cV false) | "n"%char => Some (L cN false)
  | _ => None
  end.

(* letters outside the 30-letter alphabet are mapped to a marker that no case uses;
   the case writer refuses such input before it reaches Coq *)
Fixpoint dna (s : string) : list letter :=
  match s with
  | EmptyString => []
  | String a r => match letter_of_ascii a with Some l => l :: dna r | None => dna r end
  end.

Fixpoint bad_from {A} (f : A -> bool) (l : list A) (i : nat) : list nat :=
  match l with
  | [] => []
  | x :: r => if f x then bad_from f r (S i) else i :: bad_from f r (S i)
  end.
Definition bad_indices {A} (f : A -> bool) (l : list A) : list nat := bad_from f l 0.

Fixpoint list_eqb {A} (eqb : A -> A -> bool) (a b : list A) : bool :=
  match a, b with
  | [], [] => true
  | x :: a', y :: b' => eqb x y && list_eqb eqb a' b'
  | _, _ => false
  end.

Definition part_eqb (p q : part) : bool :=
  Z.eqb (pstart p) (pstart q) && Z.eqb (pend p) (pend q) && strand_eqb (pstrand p) (pstrand q).

Definition feature_eqb (f g : feature) : bool :=
  Bool.eqb (fsource f) (fsource g) && Nat.eqb (ftype f) (ftype g) && quals_eqb (fquals f) (fquals g)
  && list_eqb part_eqb (floc f) (floc g).

Definition record_eqb (a b : record) : bool :=
  word_eqb (rseq a) (rseq b) && list_eqb feature_eqb (rfeats a) (rfeats b)
  && list_eqb (list_eqb Z.eqb) (rtracks a) (rtracks b).

Definition option_eqb {A} (eqb : A -> A -> bool) (a b : option A) : bool :=
  match a, b with
  | None, None => true
  | Some x, Some y => eqb x y
  | _, _ => false
  end.

(* ---------- observations of an assembly ------------------------------------- *)
From MV Require Import Assembly.

Inductive asm_obs :=
| OProduct (w : string) (unused : list nat)      (* product text; ids in the UnusedModules warning, sorted *)
| OInvalid                                       (* InvalidSequence (or IllegalSite) *)
| ODuplicate (a b : nat)                         (* DuplicateModules, as an unordered pair *)
| OMissing (o : string)                          (* MissingModule.start_overhang *)
| OOther.                                        (* any other exception *)

Fixpoint nat_insert (x : nat) (l : list nat) : list nat :=
  match l with
  | [] => [x]
  | y :: r => if Nat.leb x y then x :: l else y :: nat_insert x r
  end.
Definition nat_sort (l : list nat) : list nat := fold_right nat_insert [] l.

Definition asm_obs_ok (o : @outcome (list code)) (x : asm_obs) : bool :=
  match o, x with
  | Product w _ r, OProduct w' r' => word_eqb w (dna w') && list_eqb Nat.eqb (nat_sort r) r'
  | EInvalid, OInvalid => true
  | EDuplicate a b, ODuplicate a' b' =>
      (Nat.eqb a a' && Nat.eqb b b') || (Nat.eqb a b' && Nat.eqb b a')
  | EMissing k, OMissing k' => codes_eqb k (okey (dna k'))
  | _, _ => false
  end.

(* ---------- comparison of patterns (structure texts tokenised by the harness) -------- *)

Definition item_eqb (a b : item) : bool :=
  match a, b with
  | Atom c, Atom d | StarG c, StarG d | StarL c, StarL d => codes_eqb c d
  | Open, Open | Close, Close => true
  | _, _ => false
  end.

Fixpoint pattern_eqb (a b : pattern) : bool :=
  match a, b with
  | [], [] => true
  | x :: a', y :: b' => item_eqb x y && pattern_eqb a' b'
  | _, _ => false
  end.

Fixpoint find_idx {A} (f : A -> bool) (l : list A) (i : nat) : option nat :=
  match l with
  | [] => None
  | x :: r => if f x then Some i else find_idx f r (S i)
  end.
