(* NextLevel.v — products of one level are valid modules of the next level (C11): a vector
   whose structure embeds the next level's recognition sites around its placeholder yields,
   with any inserts, a circle that is a module of the formal definition for the next-level
   enzyme; the canonical lemma then makes it a valid next-level module whose target contains
   the inserts. *)
From MV Require Import Base RotLemmas Record RecordLemmas Regex RegexLemmas Shape ShapeLemmas Typing TypingLemmas
                       TotalLemmas ShapeTyping PartLemmas Anchors Canonical StrandLemmas.
Local Open Scope nat_scope.

Definition sub_setN (cs : list cset) : bool := forallb (fun c => csubb c setN) cs.

(* static check on a vector shape: the next-level site sits k >= off' wildcard letters before
   group 1, its reverse complement k' wildcard letters after group 3, group 3 is wildcards *)
Definition embeds (site' rsite' : list code) (off' ovh' k k' : nat) (sh : shape) : bool :=
  word_before_end k site' (spre sh) && sub_setN (skipn (length (spre sh) - k) (spre sh)) &&
  word_after k' rsite' (spost sh) && sub_setN (firstn k' (spost sh)) && sub_setN (sg3 sh) &&
  (off' <=? k) && (off' + ovh' <=? k' + length (sg3 sh)).

Lemma lits_prefix_split w : forall l, lits_prefix w l = true -> l = map single w ++ skipn (length w) l.
Proof.
  induction w as [|x w IH]; intros l H; [reflexivity|]. destruct l as [|c l]; [discriminate|].
  cbn in H. apply andb_prop in H. destruct H as [Hx Hl]. cbn. f_equal; [|now apply IH].
  unfold cset_is in Hx. destruct c as [|y [|? ?]]; try discriminate. unfold single.
  destruct x, y; try discriminate Hx; reflexivity.
Qed.

Lemma atoms_ok_app_inv a b t : atoms_ok (a ++ b) t ->
  exists ta tb, t = ta ++ tb /\ atoms_ok a ta /\ atoms_ok b tb.
Proof. intros H. apply Forall2_app_inv_l in H. destruct H as (ta & tb & H1 & H2 & ->). eauto. Qed.

Lemma sub_setN_nucl cs t : sub_setN cs = true -> atoms_ok cs t -> Forall nucl t.
Proof.
  intros Hs Ha. induction Ha as [|c x cs t Hc Ha IH]; [constructor|].
  unfold sub_setN in Hs. cbn [forallb] in Hs. apply andb_prop in Hs. destruct Hs as [H1 H2]. constructor; [|now apply IH].
  apply csubb_sound in H1. unfold nucl. now apply H1.
Qed.

Lemma forall_firstn {A} (P : A -> Prop) k l : Forall P l -> Forall P (firstn k l).
Proof. intros H. rewrite <- (firstn_skipn k l) in H. now apply Forall_app in H. Qed.

Lemma forall_skipn {A} (P : A -> Prop) k l : Forall P l -> Forall P (skipn k l).
Proof. intros H. rewrite <- (firstn_skipn k l) in H. now apply Forall_app in H. Qed.

(* a stretch of wildcards long enough splits as x . o5 . t . o3 . y with |t| >= 2 *)
Lemma split_middle off ovh (Z : list letter) : Forall nucl Z -> off + ovh + 2 + ovh + off <= length Z ->
  exists X O5 t0 tmid tl O3 Y, Z = X ++ O5 ++ (t0 :: tmid ++ [tl]) ++ O3 ++ Y /\
    length X = off /\ length Y = off /\ length O5 = ovh /\ length O3 = ovh /\
    Forall nucl X /\ Forall nucl Y /\ Forall nucl O5 /\ Forall nucl O3 /\ nucl t0 /\ Forall nucl tmid /\ nucl tl /\
    X ++ O5 ++ (t0 :: tmid ++ [tl]) = firstn (length Z - ovh - off) Z.
Proof.
  intros HZ Hl.
  set (X := firstn off Z). set (Z1 := skipn off Z).
  set (O5 := firstn ovh Z1). set (Z2 := skipn ovh Z1).
  set (Z3 := firstn (length Z2 - off) Z2). set (Y := skipn (length Z2 - off) Z2).
  set (T := firstn (length Z3 - ovh) Z3). set (O3 := skipn (length Z3 - ovh) Z3).
  assert (L1 : length Z1 = length Z - off) by (unfold Z1; apply skipn_length).
  assert (L2 : length Z2 = length Z - off - ovh) by (unfold Z2; rewrite skipn_length; lia).
  assert (L3 : length Z3 = length Z2 - off) by (unfold Z3; rewrite firstn_length; lia).
  assert (LT : length T = length Z3 - ovh) by (unfold T; rewrite firstn_length; lia).
  assert (HT : 2 <= length T) by lia.
  destruct T as [|t0 T'] eqn:ET; [cbn in HT; lia|].
  destruct (exists_last (l := T')) as (tmid & tl & ET'); [intros ->; cbn in HT; lia|].
  assert (NZ1 : Forall nucl Z1) by (now apply forall_skipn).
  assert (NZ2 : Forall nucl Z2) by (now apply forall_skipn).
  assert (NZ3 : Forall nucl Z3) by (now apply forall_firstn).
  assert (NT : Forall nucl (t0 :: T')) by (rewrite <- ET; now apply forall_firstn).
  exists X, O5, t0, tmid, tl, O3, Y.
  assert (EZ : Z = X ++ O5 ++ (t0 :: T') ++ O3 ++ Y).
  { rewrite <- ET. unfold T, O3. rewrite (app_assoc _ _ Y), firstn_skipn. unfold Z3, Y. rewrite firstn_skipn.
    unfold O5, Z2. rewrite firstn_skipn. unfold X, Z1. now rewrite firstn_skipn. }
  rewrite ET' in *. clear ET'.
  assert (N0 : nucl t0) by (now inversion NT).
  assert (NT' : Forall nucl (tmid ++ [tl])) by (now inversion NT).
  apply Forall_app in NT'. destruct NT' as [Nm Nl].
  assert (Nl' : nucl tl) by (now inversion Nl).
  repeat split; auto.
  - unfold X. rewrite firstn_length. lia.
  - unfold Y. rewrite skipn_length. lia.
  - unfold O5. rewrite firstn_length. lia.
  - unfold O3. rewrite skipn_length. lia.
  - unfold X. now apply forall_firstn.
  - unfold Y. now apply forall_skipn.
  - unfold O5. now apply forall_firstn.
  - unfold O3. now apply forall_skipn.
  - assert (LO3 : length O3 = ovh) by (unfold O3; rewrite skipn_length; lia).
    assert (LY : length Y = off) by (unfold Y; rewrite skipn_length; lia).
    rewrite EZ at 2.
    assert (Hl' : length Z = length ((X ++ O5 ++ t0 :: tmid ++ [tl]) ++ (O3 ++ Y))) by (rewrite EZ at 1; now rewrite <- !app_assoc).
    rewrite Hl'.
    replace (X ++ O5 ++ (t0 :: tmid ++ [tl]) ++ O3 ++ Y) with ((X ++ O5 ++ t0 :: tmid ++ [tl]) ++ (O3 ++ Y))
      by (now rewrite <- !app_assoc).
    rewrite app_length, (app_length O3 Y), LO3, LY.
    replace (length (X ++ O5 ++ t0 :: tmid ++ [tl]) + (ovh + off) - ovh - off) with (length (X ++ O5 ++ t0 :: tmid ++ [tl]) + 0) by lia.
    rewrite firstn_app_2. cbn [firstn]. now rewrite app_nil_r.
Qed.

(* ---------- the product of a vector that embeds the next level's sites ----------------- *)

Theorem next_level_valid (c : cls) (sh : shape) (e' : enzyme) (k k' : nat) (v INS : list letter) (j : Z) :
  cpat c = shape_pat sh -> crole c = RVector ->
  embeds (esite e') (rc_codes (esite e')) (eoff e') (eovh e') k k' sh = true ->
  0 < length (esite e') ->
  is_valid c v true = true ->
  Forall nucl INS -> eovh e' + 2 <= length INS ->
  forall vt, target c v true = Some vt ->
  let P := INS ++ vt in
  occurs_once (esite e') P -> occurs_once (rc_codes (esite e')) P ->
  exists O5 O3 T lead trail,
    observe (C RModule e' (module_structure e')) (rotr j P) = (true, Some O5, Some O3, Some (O5 ++ T), Some (O5 ++ T)) /\
    O5 ++ T = lead ++ INS ++ trail.
Proof.
  intros Hp Hr He Hs Hv NI LI vt Hvt P U1 U2.
  unfold is_valid in Hv. destruct (typing c v true) as [m| |] eqn:Ht; try discriminate.
  destruct (shape_observe c sh v m Hp Ht) as (pc & rest & HW & Hok & Hi & _ & Ho).
  assert (Evt : vt = t3 pc ++ tpost pc ++ rest ++ tpre pc).
  { unfold observe in Ho. apply (f_equal (fun x => snd (fst x))) in Ho. cbn in Ho. rewrite Hr in Ho. cbn in Ho. congruence. }
  destruct Hok as (Hpre & Hg1 & Ha & Hrun & Hb & Hg3 & Hpost).
  unfold embeds in He.
  apply andb_prop in He; destruct He as [He Lk'].
  apply andb_prop in He; destruct He as [He Lk].
  apply andb_prop in He; destruct He as [He S3].
  apply andb_prop in He; destruct He as [He SK'].
  apply andb_prop in He; destruct He as [He WA].
  apply andb_prop in He; destruct He as [WB SK].
  apply Nat.leb_le in Lk, Lk'.
  (* the pieces of pre and post *)
  unfold word_before_end in WB. apply andb_prop in WB. destruct WB as [WBl WBw]. apply Nat.leb_le in WBl.
  set (a := length (spre sh) - k - length (esite e')) in *.
  assert (Epre : spre sh = firstn a (spre sh) ++ map single (esite e') ++ skipn (length (spre sh) - k) (spre sh)).
  { rewrite <- (firstn_skipn a (spre sh)) at 1. f_equal. rewrite (lits_prefix_split _ _ WBw) at 1. f_equal.
    rewrite skipn_skipn. f_equal. unfold a. lia. }
  rewrite Epre in Hpre. apply atoms_ok_app_inv in Hpre. destruct Hpre as (At & SKt & Etpre & HAt & Hrest).
  apply atoms_ok_app_inv in Hrest. destruct Hrest as (St & Kt & -> & HSt & HKt).
  unfold word_after in WA. apply andb_prop in WA. destruct WA as [WAl WAw]. apply Nat.leb_le in WAl.
  assert (Epost : spost sh = firstn k' (spost sh) ++ map single (rc_codes (esite e')) ++
                              skipn (length (rc_codes (esite e'))) (skipn k' (spost sh))).
  { rewrite <- (firstn_skipn k' (spost sh)) at 1. f_equal. now apply lits_prefix_split. }
  rewrite Epost in Hpost. apply atoms_ok_app_inv in Hpost. destruct Hpost as (K't & RCt & Etpost & HK't & Hrest).
  apply atoms_ok_app_inv in Hrest. destruct Hrest as (Rt & Ct & -> & HRt & HCt).
  (* codes and lengths *)
  assert (CS : map lcode St = esite e').
  { clear -HSt. revert St HSt. induction (esite e') as [|x w IH]; intros St H; inversion H; subst; [reflexivity|].
    cbn. f_equal; [|now apply IH]. cbn in H2. rewrite Bool.orb_false_r in H2. destruct x, (lcode y); try discriminate H2; reflexivity. }
  assert (CR : map lcode Rt = rc_codes (esite e')).
  { clear -HRt. revert Rt HRt. induction (rc_codes (esite e')) as [|x w IH]; intros Rt H; inversion H; subst; [reflexivity|].
    cbn. f_equal; [|now apply IH]. cbn in H2. rewrite Bool.orb_false_r in H2. destruct x, (lcode y); try discriminate H2; reflexivity. }
  assert (NK : Forall nucl Kt) by exact (sub_setN_nucl _ _ SK HKt).
  assert (NK' : Forall nucl K't) by exact (sub_setN_nucl _ _ SK' HK't).
  assert (N3 : Forall nucl (t3 pc)) by exact (sub_setN_nucl _ _ S3 Hg3).
  assert (LK : length Kt = k).
  { rewrite (atoms_ok_length _ _ HKt), skipn_length. lia. }
  assert (LK' : length K't = k').
  { rewrite (atoms_ok_length _ _ HK't), firstn_length. lia. }
  assert (L3 : length (t3 pc) = length (sg3 sh)) by now apply atoms_ok_length.
  (* the circle read from the next-level site *)
  set (Z := Kt ++ INS ++ t3 pc ++ K't).
  set (B := Ct ++ rest ++ At).
  assert (NZ : Forall nucl Z).
  { unfold Z. repeat (apply Forall_app; split); assumption. }
  assert (LZ : eoff e' + eovh e' + 2 + eovh e' + eoff e' <= length Z).
  { unfold Z. rewrite !app_length. lia. }
  destruct (split_middle (eoff e') (eovh e') Z NZ LZ) as
    (X & O5 & t0 & tmid & tl & O3 & Y & EZ & LX & LY & LO5 & LO3 & NX & NY & NO5 & NO3 & N0 & Nm & Nl & Efirst).
  set (s0 := St ++ X ++ O5 ++ (t0 :: tmid ++ [tl]) ++ O3 ++ Y ++ Rt ++ B).
  assert (Es0 : s0 = (St ++ Kt) ++ (INS ++ t3 pc ++ K't ++ Rt ++ Ct ++ rest ++ At)).
  { unfold s0, B. replace (X ++ O5 ++ (t0 :: tmid ++ [tl]) ++ O3 ++ Y ++ Rt ++ Ct ++ rest ++ At)
      with (Z ++ Rt ++ Ct ++ rest ++ At) by (rewrite EZ; now rewrite <- !app_assoc).
    unfold Z. now rewrite <- !app_assoc. }
  assert (EP : P = (INS ++ t3 pc ++ K't ++ Rt ++ Ct ++ rest ++ At) ++ (St ++ Kt)).
  { unfold P. rewrite Evt, Etpre, Etpost. now rewrite <- !app_assoc. }
  assert (Hrot : s0 = rotr (Z.of_nat (length (St ++ Kt))) P).
  { rewrite Es0, EP. set (U := INS ++ t3 pc ++ K't ++ Rt ++ Ct ++ rest ++ At). set (Q := St ++ Kt).
    rewrite rotr_last_to_front by (rewrite app_length; lia).
    rewrite app_length. replace (length U + length Q - length Q) with (length U) by lia.
    rewrite skipn_app, skipn_all, Nat.sub_diag, firstn_app, firstn_all, Nat.sub_diag. cbn. now rewrite app_nil_r. }
  assert (U1' : occurs_once (esite e') s0) by (rewrite Hrot; now apply occurs_once_rot).
  assert (U2' : occurs_once (rc_codes (esite e')) s0) by (rewrite Hrot; now apply occurs_once_rot).
  assert (HP : rotr j P = rotr (j - Z.of_nat (length (St ++ Kt))) s0).
  { rewrite Hrot, rotr_add. f_equal. lia. }
  destruct (strand_module e' St X O5 t0 tmid tl O3 Y Rt B (j - Z.of_nat (length (St ++ Kt)))
              CS CR Hs LX LY LO5 LO3 NX NY NO5 NO3 N0 Nm Nl U1' U2') as [Hobs _].
  fold s0 in Hobs. rewrite <- HP in Hobs.
  exists O5, O3, (t0 :: tmid ++ [tl]), (skipn (eoff e') Kt),
         (firstn (length (t3 pc) + k' - eovh e' - eoff e') (t3 pc ++ K't)).
  split; [exact Hobs|].
  (* the target contains the inserts *)
  assert (EO : X ++ O5 ++ t0 :: tmid ++ [tl] = firstn (length Z - eovh e' - eoff e') Z) by exact Efirst.
  assert (EX : X = firstn (eoff e') Z).
  { rewrite EZ. rewrite firstn_app. rewrite LX, Nat.sub_diag. cbn [firstn]. rewrite app_nil_r. rewrite <- LX. now rewrite firstn_all. }
  assert (E5 : O5 ++ t0 :: tmid ++ [tl] = skipn (eoff e') (firstn (length Z - eovh e' - eoff e') Z)).
  { rewrite <- EO. rewrite skipn_app. rewrite LX, Nat.sub_diag. cbn [skipn]. rewrite <- LX. now rewrite skipn_all. }
  rewrite E5. unfold Z.
  replace (Kt ++ INS ++ t3 pc ++ K't) with ((Kt ++ INS) ++ (t3 pc ++ K't)) by (now rewrite <- !app_assoc).
  rewrite firstn_app.
  assert (Hl1 : length (Kt ++ INS) <= length ((Kt ++ INS) ++ t3 pc ++ K't) - eovh e' - eoff e').
  { rewrite !app_length. lia. }
  rewrite firstn_all2 by exact Hl1.
  replace (length ((Kt ++ INS) ++ t3 pc ++ K't) - eovh e' - eoff e' - length (Kt ++ INS))
    with (length (t3 pc) + k' - eovh e' - eoff e') by (rewrite !app_length; lia).
  rewrite <- app_assoc. rewrite skipn_app_le by lia. reflexivity.
Qed.
