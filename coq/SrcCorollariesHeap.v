(* SrcCorollariesHeap.v — consequences of SrcEquivAsmHeap.v stated on the product of
   vector.assemble as regenerated from the source: metadata (C09), citations (C10). *)
From MV Require Import Base Record Regex Typing Assembly Pipeline Py PyObj PyHeap
     SrcEquivRecord SrcEquivTyping SrcEquivAssembly SrcEquivHeap SrcEquivCite SrcEquivAsmHeap.
From MV.Gen Require Import Src.
From Coq Require Import String Lia.
Local Open Scope Z_scope.

Lemma other_get_set_same d k v : other_get (other_set d k v) k = Some v.
Proof.
  induction d as [|[k0 v0] d IH]; cbn; [now rewrite String.eqb_refl|].
  destruct (String.eqb k0 k) eqn:E; cbn; rewrite E; [reflexivity|exact IH].
Qed.

Lemma ref_record_meta r :
  pr_kind (ref_record r) = pr_kind r /\ pr_id (ref_record r) = pr_id r /\ pr_name (ref_record r) = pr_name r
  /\ an_topology (pr_annotations (ref_record r)) = an_topology (pr_annotations r)
  /\ an_other (pr_annotations (ref_record r)) = an_other (pr_annotations r)
  /\ pr_letter_annotations (ref_record r) = pr_letter_annotations r.
Proof. unfold ref_record. destruct (ref_features (refs_or_empty r) (pr_features r)). cbn. repeat split. Qed.

(* what the product of a successful call carries besides its sequence *)
Theorem product_metadata self vid mids p :
  let prod := ref_record (annotated self vid mids p) in
  pr_kind prod = pr_kind p /\ pr_seq prod = pr_seq p /\ pr_id prod = am_id self /\ pr_name prod = am_name self
  /\ an_topology (pr_annotations prod) = Some "circular"%string
  /\ other_get (an_other (pr_annotations prod)) "comment" = Some (AComment [LGenerated; LVector vid; LModules mids])
  /\ other_get (an_other (pr_annotations prod)) "molecule_type" = Some (AStr "ds-DNA")
  /\ other_get (an_other (pr_annotations prod)) "data_file_division" = Some (AStr "SYN").
Proof.
  intros prod. destruct (ref_record_meta (annotated self vid mids p)) as (H1 & H2 & H3 & H4 & H5 & _).
  subst prod. rewrite ref_record_seq, H1, H2, H3, H4, H5. unfold annotated. cbn [pr_kind pr_seq pr_id pr_name pr_annotations an_topology an_other].
  repeat split.
  - apply other_get_set_same.
  - set (o := other_set _ "molecule_type" _).
    assert (Hmt : other_get o "molecule_type" = Some (AStr "ds-DNA")) by apply other_get_set_same.
    clearbody o. revert Hmt. generalize (AStr "ds-DNA").
    intros v Hv. assert (Hgen : forall d k k' a b, String.eqb k k' = false -> other_get d k' = Some a -> other_get (other_set d k b) k' = Some a).
    { clear. induction d as [|[k0 v0] d IH]; intros k k' a b Hk; cbn; [discriminate|].
      destruct (String.eqb k0 k') eqn:E'.
      - intros H. inversion H; subst. destruct (String.eqb k0 k) eqn:E; cbn; rewrite E'; [|reflexivity].
        apply String.eqb_eq in E, E'. subst. rewrite String.eqb_refl in Hk. discriminate.
      - intros H. destruct (String.eqb k0 k) eqn:E; cbn; rewrite E'; [exact H|now apply IH]. }
    apply Hgen; [reflexivity|]. apply Hgen; [reflexivity|exact Hv].
  - set (o := other_set _ "data_file_division" _).
    assert (Hmt : other_get o "data_file_division" = Some (AStr "SYN")) by apply other_get_set_same.
    clearbody o. revert Hmt. generalize (AStr "SYN"). intros v Hv.
    assert (Hgen : forall d k k' a b, String.eqb k k' = false -> other_get d k' = Some a -> other_get (other_set d k b) k' = Some a).
    { clear. induction d as [|[k0 v0] d IH]; intros k k' a b Hk; cbn; [discriminate|].
      destruct (String.eqb k0 k') eqn:E'.
      - intros H. inversion H; subst. destruct (String.eqb k0 k) eqn:E; cbn; rewrite E'; [|reflexivity].
        apply String.eqb_eq in E, E'. subst. rewrite String.eqb_refl in Hk. discriminate.
      - intros H. destruct (String.eqb k0 k) eqn:E; cbn; rewrite E'; [exact H|now apply IH]. }
    apply Hgen; [reflexivity|exact Hv].
Qed.

(* the citations of the product: its reference list starts empty (the assembly proper leaves
   none), so it is exactly the references cited by the inherited features, each once, and every
   citation points to a reference equal to the one it held *)
Theorem product_citations self vid mids p :
  an_references (pr_annotations p) = None ->
  let prod := ref_record (annotated self vid mids p) in
  exists refs, an_references (pr_annotations prod) = Some refs
    /\ Forall2 (feature_points refs) (pr_features p) (pr_features prod)
    /\ (forall y, In y refs -> exists x cs, In x (pr_features p) /\ qcits (fquals x) = Some cs /\ In y cs)
    /\ refs_once refs.
Proof.
  intros Hnone prod. subst prod. unfold ref_record.
  assert (Hr : refs_or_empty (annotated self vid mids p) = []).
  { unfold refs_or_empty, annotated. cbn. now rewrite Hnone. }
  rewrite Hr. change (pr_features (annotated self vid mids p)) with (pr_features p).
  destruct (ref_features_spec (pr_features p) []) as (ext & E & P & Hin & Ho).
  destruct (ref_features [] (pr_features p)) as [refs' fs'] eqn:Ef. cbn [fst snd] in *.
  exists refs'. cbn. repeat split; auto.
  - intros y Hy. apply Hin. now rewrite E in Hy.
  - apply Ho. intros i j a b Hi. destruct i; discriminate.
Qed.
