(* SrcCorollariesHeap.v — consequences of SrcEquivAsmHeap.v stated on the product of
   vector.assemble as regenerated from the source: metadata (C09), citations (C10). *)
From MV Require Import Base Record Regex Typing Assembly Pipeline Py PyObj PyHeap
     SrcEquivRecord SrcEquivTyping SrcEquivAssembly SrcEquivHeap SrcEquivCite SrcEquivAsmHeap.
From MV.Gen Require Import Src.
From Coq Require Import String Lia.
Local Open Scope Z_scope.

Lemma other_get_set_same d k v : other_get (other_set d k v) k = Some v.
Proof.
  induction d as [|[k0 v0] d IH]; cbn; [now rewrite String.eqb_refl|].
  destruct (String.eqb k0 k) eqn:E; cbn; rewrite E; [reflexivity|exact IH].
Qed.

Lemma ref_record_meta r :
  pr_kind (ref_record r) = pr_kind r /\ pr_id (ref_record r) = pr_id r /\ pr_name (ref_record r) = pr_name r
  /\ an_topology (pr_annotations (ref_record r)) = an_topology (pr_annotations r)
  /\ an_other (pr_annotations (ref_record r)) = an_other (pr_annotations r)
  /\ pr_letter_annotations (ref_record r) = pr_letter_annotations r.
Proof. unfold ref_record. destruct (ref_features (refs_or_empty r) (pr_features r)). cbn. repeat split. Qed.

(* what the product of a successful call carries besides its sequence *)
Theorem product_metadata self vid mids p :
  let prod := ref_record (annotated self vid mids p) in
  pr_kind prod = pr_kind p /\ pr_seq prod = pr_seq p /\ pr_id prod = am_id self /\ pr_name prod = am_name self
  /\ an_topology (pr_annotations prod) = Some "circular"%string
  /\ other_get (an_other (pr_annotations prod)) "comment" = Some (AComment [LGenerated; LVector vid; LModules mids])
  /\ other_get (an_other (pr_annotations prod)) "molecule_type" = Some (AStr "ds-DNA")
  /\ other_get (an_other (pr_annotations prod)) "data_file_division" = Some (AStr "SYN").
Proof.
  intros prod. destruct (ref_record_meta (annotated self vid mids p)) as (H1 & H2 & H3 & H4 & H5 & _).
  subst prod. rewrite ref_record_seq, H1, H2, H3, H4, H5. unfold annotated. cbn [pr_kind pr_seq pr_id pr_name pr_annotations an_topology an_other].
  repeat split.
  - apply other_get_set_same.
  - set (o := other_set _ "molecule_type" _).
    assert (Hmt : other_get o "molecule_type" = Some (AStr "ds-DNA")) by apply other_get_set_same.
    clearbody o. revert Hmt. generalize (AStr "ds-DNA").
    intros v Hv. assert (Hgen : forall d k k' a b, String.eqb k k' = false -> other_get d k' = Some a -> other_get (other_set d k b) k' = Some a).
    { clear. induction d as [|[k0 v0] d IH]; intros k k' a b Hk; cbn; [discriminate|].
      destruct (String.eqb k0 k') eqn:E'.
      - intros H. inversion H; subst. destruct (String.eqb k0 k) eqn:E; cbn; rewrite E'; [|reflexivity].
        apply String.eqb_eq in E, E'. subst. rewrite String.eqb_refl in Hk. discriminate.
      - intros H. destruct (String.eqb k0 k) eqn:E; cbn; rewrite E'; [exact H|now apply IH]. }
    apply Hgen; [reflexivity|]. apply Hgen; [reflexivity|exact Hv].
  - set (o := other_set _ "data_file_division" _).
    assert (Hmt : other_get o "data_file_division" = Some (AStr "SYN")) by apply other_get_set_same.
    clearbody o. revert Hmt. generalize (AStr "SYN"). intros v Hv.
    assert (Hgen : forall d k k' a b, String.eqb k k' = false -> other_get d k' = Some a -> other_get (other_set d k b) k' = Some a).
    { clear. induction d as [|[k0 v0] d IH]; intros k k' a b Hk; cbn; [discriminate|].
      destruct (String.eqb k0 k') eqn:E'.
      - intros H. inversion H; subst. destruct (String.eqb k0 k) eqn:E; cbn; rewrite E'; [|reflexivity].
        apply String.eqb_eq in E, E'. subst. rewrite String.eqb_refl in Hk. discriminate.
      - intros H. destruct (String.eqb k0 k) eqn:E; cbn; rewrite E'; [exact H|now apply IH]. }
    apply Hgen; [reflexivity|exact Hv].
Qed.

(* the citations of the product: its reference list starts empty (the assembly proper leaves
   none), so it is exactly the references cited by the inherited features, each once, and every
   citation points to a reference equal to the one it held *)
Theorem product_citations self vid mids p :
  an_references (pr_annotations p) = None ->
  let prod := ref_record (annotated self vid mids p) in
  exists refs, an_references (pr_annotations prod) = Some refs
    /\ Forall2 (feature_points refs) (pr_features p) (pr_features prod)
    /\ (forall y, In y refs -> exists x cs, In x (pr_features p) /\ qcits (fquals x) = Some cs /\ In y cs)
    /\ refs_once refs.
Proof.
  intros Hnone prod. subst prod. unfold ref_record.
  assert (Hr : refs_or_empty (annotated self vid mids p) = []).
  { unfold refs_or_empty, annotated. cbn. now rewrite Hnone. }
  rewrite Hr. change (pr_features (annotated self vid mids p)) with (pr_features p).
  destruct (ref_features_spec (pr_features p) []) as (ext & E & P & Hin & Ho).
  destruct (ref_features [] (pr_features p)) as [refs' fs'] eqn:Ef. cbn [fst snd] in *.
  exists refs'. cbn. repeat split; auto.
  - intros y Hy. apply Hin. now rewrite E in Hy.
  - apply Ho. intros i j a b Hi. destruct i; discriminate.
Qed.

(* ---------- C17 at the entry point ------------------------------------------------------------------ *)

From MV Require Import TotalLemmas SrcCorollaries.

(* with citations that dereference (in particular without any), vector.assemble(...) as regenerated
   returns or raises one of the four documented errors only *)
Theorem entry_point_total vector m ms kw hd :
  good_ent vector -> Forall good_ent (m :: ms) ->
  map ent_id (m :: ms) = seq 0 (List.length (m :: ms)) -> ent_id vector = List.length (m :: ms) ->
  deref_elems ((m :: ms) ++ [vector]) [] (heap_of (vector :: m :: ms)) = Ok hd ->
  match fst (run_assemble (S (S (List.length (m :: ms)))) vector (m :: ms) kw) with
  | Ok _ => True
  | Err x => documented x
  end.
Proof.
  intros Gv Gm Hids Hvid Ede.
  pose proof (run_assemble_outcome vector m ms kw Gv Gm Hids Hvid) as H. cbv zeta in H. rewrite Ede in H.
  pose proof (assemble_raw_no_internal (ent_cls vector) (ent_seq_w vector) (map raw_of (m :: ms))) as Hn.
  destruct (fst (run_assemble _ vector (m :: ms) kw)) as [[p ws]|x]; [exact I|].
  destruct x; cbn in *; auto;
    destruct (assemble_raw _ _ _); cbn in H; try discriminate; try congruence.
Qed.

(* what can stop the dereferencing: a citation that is not a string (TypeError), not of the
   bracketed form or without digits (ValueError), or out of range (IndexError) *)
Lemma cit_rx_match_err c x : cit_rx_match c = Err x -> x = XTypeError.
Proof.
  destruct c as [s|r]; cbn; [|intros H; now inversion H].
  destruct s as [|a s]; [discriminate|].
  destruct (Ascii.eqb a _); [|discriminate]. destruct (take_digits s) as [d t]. destruct t as [|b t]; [discriminate|].
  destruct (Ascii.eqb b _); discriminate.
Qed.

Lemma deref_cit_errors refs c e : deref_cit refs c = Err e -> e = XTypeError \/ e = XValueError \/ e = XIndexError.
Proof.
  unfold deref_cit. destruct (cit_rx_match c) as [[mm|]|x] eqn:Em; cbn [bind].
  - unfold citmatch_group. cbn [Z.eqb Pos.eqb bind].
    destruct (py_int_of_str (cm_digits mm)) as [z|x] eqn:Ei; cbn [bind].
    + unfold py_getitem, PyGetItem_list.
      destruct (nth_error refs (Z.to_nat (py_norm (py_len refs) (z - 1)))); [destruct (z - 1 <? - py_len refs)|];
        intros H; inversion H; auto.
    + intros H. inversion H; subst. unfold py_int_of_str in Ei. destruct (cm_digits mm); [inversion Ei; auto|].
      destruct (DecimalString.NilEmpty.uint_of_string _); inversion Ei; auto.
  - intros H. inversion H. auto.
  - intros H. inversion H; subst. left. eapply cit_rx_match_err; eassumption.
Qed.
