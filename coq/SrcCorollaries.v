(* SrcCorollaries.v — theorems of the model restated over the regenerated definitions
   (Gen/Src.v), through the equivalences of SrcEquiv*.v. *)
From MV Require Import Base RotLemmas Record RecordLemmas Regex RegexLemmas Shape ShapeLemmas Typing TypingLemmas
     TotalLemmas Assembly AssemblyLemmas Pipeline PipelineLemmas Circle CircleLemmas Annot
     Py PyObj SrcEquivRegex SrcEquivRecord SrcEquivTyping SrcEquivAssembly.
From MV.Gen Require Import Src.
Local Open Scope Z_scope.

Lemma search_ok_inv items rec (pos : nat) endpos linear sm :
  0 <= endpos ->
  DNARegex_search items rec (Z.of_nat pos) endpos linear = Ok (Some sm) ->
  search items (pr_seq rec) (negb linear || is_CircularRecord rec) pos (Z.to_nat endpos) = Some (sm_match sm)
  /\ sm_rec sm = rec.
Proof.
  intros He H. rewrite DNARegex_search_eq in H by assumption.
  destruct (search _ _ _ _ _) as [m|]; cbn in H; [|discriminate].
  inversion H; subst. cbn. auto.
Qed.

Lemma src_search_leftmost items rec (pos : nat) (endpos : Z) linear sm :
  0 <= endpos ->
  DNARegex_search items rec (Z.of_nat pos) endpos linear = Ok (Some sm) ->
  let circ := negb linear || is_CircularRecord rec in
  let m := sm_match sm in
  (pos <= mstart m < Nat.min (List.length (pr_seq rec)) (Z.to_nat endpos))%nat /\
  (forall j, (pos <= j < mstart m)%nat -> matches_at items (pr_seq rec) circ j = false) /\
  (mend m - mstart m <= List.length (pr_seq rec))%nat /\
  (circ = false -> (mend m <= List.length (pr_seq rec))%nat).
Proof.
  intros He H circ m. destruct (search_ok_inv _ _ _ _ _ _ He H) as [Hs _]. fold circ m in Hs.
  destruct (search_leftmost _ _ _ _ _ _ Hs) as (Hr & _ & Hl).
  destruct (search_window _ _ _ _ _ _ Hs) as (_ & Hw & Hlin & _).
  repeat split; auto; lia.
Qed.

Lemma src_group_text items rec (pos : nat) (endpos : Z) linear sm g a b :
  0 <= endpos ->
  DNARegex_search items rec (Z.of_nat pos) endpos linear = Ok (Some sm) ->
  span (sm_match sm) g = Some (a, b) ->
  exists r, SeqMatch_group sm (Z.of_nat g) = Ok r /\
            pr_seq r = slice (data_of (pr_seq rec) (negb linear || is_CircularRecord rec)) a b.
Proof.
  intros He H Hsp. destruct (search_ok_inv _ _ _ _ _ _ He H) as [Hs Hrec].
  destruct (search_group_text _ _ _ _ _ _ _ _ _ Hs Hsp) as (_ & _ & _ & Hg).
  assert (Hne : pr_seq rec <> []).
  { intros E. destruct (search_leftmost _ _ _ _ _ _ Hs) as (Hr & _). rewrite E in Hr. cbn in Hr. lia. }
  destruct sm as [m rec' sh]. cbn [sm_match sm_rec] in *. subst rec'.
  pose proof (SeqMatch_group_eq m rec sh g Hne) as G. rewrite Hsp in G.
  destruct G as (r & E & Hr & _). exists r. split; [exact E|].
  unfold group in Hg. rewrite Hsp in Hg. cbn [option_map] in Hg. rewrite Hr. now inversion Hg.
Qed.

(* ---------- entities of the common shape are good ------------------------------ *)

(* a CircularRecord of admissible length with per-letter tracks of the right length, typed
   by a class whose structure has the common shape of every structure in the code base
   (all 85 kit classes and the generic classes of every enzyme: Props/C04_kits.v) *)
Definition shaped_ent (e : entity) : Prop :=
  fits e /\ is_CircularRecord (ent_record e) = true /\ well_tracked (ent_record e) /\
  exists sh, cpat (ent_cls e) = shape_pat sh.

Lemma shaped_good e : shaped_ent e -> good_ent e.
Proof.
  intros (Hf & Hc & Ht & sh & Hp). constructor; auto.
  intros m Hm. unfold ent_seq_w in Hm.
  destruct (shape_spans _ sh _ m Hp Hm) as (pc & Hg & _).
  exists (p1 pc + mstart m)%nat, (p2 pc + mstart m)%nat, (p2 pc + mstart m)%nat, (q3 pc + mstart m)%nat,
         (q3 pc + mstart m)%nat, (q4 pc + mstart m)%nat.
  unfold span. rewrite Hg. cbn [map sh_span find_span fst snd Nat.eqb].
  repeat split. unfold q3, p2. lia.
Qed.

(* ---------- C17 over the regenerated code ---------------------------------------- *)

(* only the documented MoClo exceptions leave vector.assemble *)
Definition documented (x : pyexc) : Prop :=
  match x with
  | XInvalidSequence | XIllegalSite | XDuplicateModules _ _ | XMissingModule _ => True
  | _ => False
  end.

Lemma src_assemble_total vector modules :
  good_ent vector -> Forall good_ent modules -> map ent_id modules = seq 0 (List.length modules) ->
  match vector_assemble (S (S (List.length modules))) vector modules with
  | Ok _ => True
  | Err x => documented x
  end.
Proof.
  intros Gv Gm Hids. pose proof (vector_assemble_eq vector modules Gv Gm Hids) as H.
  pose proof (assemble_raw_no_internal (ent_cls vector) (ent_seq_w vector) (map raw_of modules)) as Hn.
  destruct (vector_assemble _ vector modules) as [[r ws]|x]; [exact I|].
  destruct x; cbn in *; auto;
    destruct (assemble_raw _ _ _); cbn in H; try discriminate; try congruence.
Qed.

(* ---------- C15 over the regenerated code ---------------------------------------- *)

Lemma letter_eqb_spec x y : letter_eqb x y = true <-> x = y.
Proof.
  destruct x as [cx ux], y as [cy uy]. unfold letter_eqb. cbn. split.
  - intros H. apply andb_prop in H. destruct H as [H1 H2].
    apply code_eqb_spec in H1. apply Bool.eqb_prop in H2. congruence.
  - intros H. inversion H; subst. apply andb_true_intro. split; [now apply code_eqb_spec|apply Bool.eqb_reflx].
Qed.

Lemma src_contains_rot rec rec' q k : pr_seq rec' = rotr k (pr_seq rec) ->
  CircularRecord_contains rec' q = CircularRecord_contains rec q.
Proof.
  intros H. rewrite !CircularRecord_contains_eq, H. f_equal. apply contains_rot. exact letter_eqb_spec.
Qed.

Lemma src_add_refused (x y : pyrecord) :
  is_CircularRecord x = true \/ is_CircularRecord y = true -> py_addm x y = Err XTypeError.
Proof.
  unfold py_addm, PyAddM_rec, CircularRecord_add, CircularRecord_radd.
  intros [H|H]; rewrite H; [reflexivity|]. destruct (is_CircularRecord x); reflexivity.
Qed.

(* ---------- C02 and C18 over the regenerated assembly -------------------------------------- *)

Lemma rel_out_forget (R : list letter -> list letter -> Prop) x y :
  rel_out R x y -> rel_out R (forget_used x) (forget_used y).
Proof. destruct x, y; cbn; auto. intros (H1 & _ & H3). auto. Qed.

(* the same plasmids spelled in another letter case, wrapped by the same classes *)
Definition recased_ent (e e' : entity) : Prop :=
  ent_cls e = ent_cls e' /\ same_codes (ent_seq_w e) (ent_seq_w e').

Lemma recased_raw ms ms' : Forall2 recased_ent ms ms' -> Forall2 recased (map raw_of ms) (map raw_of ms').
Proof. induction 1 as [|e e' ms ms' [H1 H2] H IH]; cbn; constructor; auto. split; auto. Qed.

Theorem src_assemble_case vector vector' modules modules' :
  good_ent vector -> good_ent vector' -> Forall good_ent modules -> Forall good_ent modules' ->
  map ent_id modules = seq 0 (List.length modules) -> map ent_id modules' = seq 0 (List.length modules') ->
  recased_ent vector vector' -> Forall2 recased_ent modules modules' ->
  rel_out same_codes
    (outcome_of (vector_assemble (S (S (List.length modules))) vector modules))
    (outcome_of (vector_assemble (S (S (List.length modules'))) vector' modules')).
Proof.
  intros Gv Gv' Gm Gm' Hi Hi' [Hc Hs] Hms.
  rewrite (vector_assemble_eq vector modules Gv Gm Hi), (vector_assemble_eq vector' modules' Gv' Gm' Hi').
  apply rel_out_forget. rewrite <- Hc.
  apply assemble_raw_case; [exact Hs|now apply recased_raw].
Qed.

(* the same plasmids read from other origins *)
Definition rotated_ent (e e' : entity) : Prop :=
  ent_cls e = ent_cls e' /\ exists k, ent_seq_w e' = rotr k (ent_seq_w e).

Theorem src_assemble_rot vector vector' modules modules' :
  good_ent vector -> good_ent vector' -> Forall good_ent modules -> Forall good_ent modules' ->
  map ent_id modules = seq 0 (List.length modules) -> map ent_id modules' = seq 0 (List.length modules') ->
  uniquely_typed (raw_of vector) -> Forall uniquely_typed (map raw_of modules) ->
  rotated_ent vector vector' -> Forall2 rotated_ent modules modules' ->
  outcome_of (vector_assemble (S (S (List.length modules'))) vector' modules')
  = outcome_of (vector_assemble (S (S (List.length modules))) vector modules).
Proof.
  intros Gv Gv' Gm Gm' Hi Hi' Uv Um [Hc [kv Hv]] Hms.
  rewrite (vector_assemble_eq vector modules Gv Gm Hi), (vector_assemble_eq vector' modules' Gv' Gm' Hi').
  f_equal. rewrite <- Hc, Hv.
  apply assemble_raw_rot; [exact Uv|exact Um|].
  clear -Hms. induction Hms as [|e e' ms ms' [H1 [k H2]] H IH]; cbn; constructor; auto.
  unfold rotated, raw_of. cbn. split; [exact H1|exists k; exact H2].
Qed.
