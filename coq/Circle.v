(* Circle.v — CircularRecord as a circle (record.py:43-139): circular membership,
   the refused operations, the constructor's topology check. Executable model. *)
From MV Require Import Base.

Section Contains.
  Context {A : Type} (eqb : A -> A -> bool).

  Fixpoint prefixb (q w : list A) : bool :=
    match q, w with
    | [], _ => true
    | x :: q', y :: w' => eqb x y && prefixb q' w'
    | _ :: _, [] => false
    end.

  (* Python's  q in w  on strings *)
  Fixpoint infixb (q w : list A) : bool :=
    prefixb q w || match w with [] => false | _ :: w' => infixb q w' end.

  (* record.py:114-117:  len(char) <= len(self) and char in str(self.seq) * 2 *)
  Definition contains (q s : list A) : bool :=
    (length q <=? length s) && infixb q (s ++ s).
End Contains.

(* outcomes of the object-protocol operations; the model has them as constants *)
Inductive outcome := OValue | OTypeError | OValueError.

(* record.py:18-24,90-110:  r + x,  x + r,  r += x  for every operand kind *)
Definition add_outcome : outcome := OTypeError.

(* record.py:73-76: constructor on annotations with a topology other than circular *)
Definition ctor_outcome (topology_is_circular_or_absent : bool) : outcome :=
  if topology_is_circular_or_absent then OValue else OValueError.

(* record.py:118-139: r[a:b] is the ordinary slice (after slice.indices), a plain
   SeqRecord whose topology annotation, when present, reads "linear" *)
Definition slice_seq {A} (s : list A) (a b : nat) : list A := slice s a b.
