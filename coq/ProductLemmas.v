(* ProductLemmas.v — what the product of an assembly of raw records is made of (C01). *)
From MV Require Import Base RotLemmas Regex RegexLemmas Typing TypingLemmas Assembly AssemblyLemmas Pipeline PipelineLemmas TotalLemmas.

(* ---------- C01: what the product is made of ---------------------------------------- *)

Lemma type_prefix_frags : forall ms i t, In t (fst (type_prefix ms i)) ->
  exists c s, In (c, s) ms /\ target c s true = Some (mfrag t) /\
              option_map okey (overhang_start c s true) = Some (mup t) /\
              option_map okey (overhang_end c s true) = Some (mdown t).
Proof.
  induction ms as [|[c s] r IH]; intros i t Hin; cbn [type_prefix] in Hin; [destruct Hin|].
  unfold typed_module in Hin.
  destruct (overhang_start c s true) as [u|] eqn:Eu; [|destruct Hin].
  destruct (overhang_end c s true) as [d|] eqn:Ed; [|destruct Hin].
  destruct (target c s true) as [f|] eqn:Ef; [|destruct Hin].
  destruct (type_prefix r (S i)) as [l ok] eqn:El. cbn in Hin. destruct Hin as [<-|Hin].
  - exists c, s. split; [now left|]. cbn [mfrag mup mdown]. rewrite Eu, Ed, Ef. cbn [option_map]. repeat split; reflexivity.
  - assert (Hl : In t (fst (type_prefix r (S i)))) by now rewrite El.
    destruct (IH (S i) t Hl) as (c' & s' & H1 & H2). exists c', s'. split; [now right|exact H2].
Qed.

(* the product word is the concatenation, in chain order, of the target fragments of the
   modules that are used, followed by the vector's target fragment; nothing else *)
Theorem assemble_raw_word vc v ms w used unused :
  assemble_raw vc v ms = Product w used unused ->
  exists (chain : list (@tmod (list code))) vt, target vc v true = Some vt /\ w = concat (map mfrag chain) ++ vt /\
    used = map mid chain /\ NoDup used /\
    (forall t, In t chain -> exists c s, In (c, s) ms /\ target c s true = Some (mfrag t)) /\
    length w = list_sum (map (fun t => length (mfrag t)) chain) + length vt.
Proof.
  unfold assemble_raw. unfold typed_vector.
  destruct (overhang_start vc v true) as [u|]; [|discriminate].
  destruct (overhang_end vc v true) as [d|]; [|discriminate].
  destruct (target vc v true) as [vt|] eqn:Evt; [|discriminate].
  cbn [vup vdown]. destruct (codes_eqb (okey u) (okey d)); [discriminate|].
  pose proof (type_prefix_ids ms 0) as Hids.
  pose proof (type_prefix_frags ms 0) as Hfr.
  destruct (type_prefix ms 0) as [pre ok]. cbn in Hids, Hfr.
  destruct (build_map codes_eqb pre []) as [mp|[a b]]; [|discriminate].
  destruct ok; [|discriminate]. intros H.
  pose proof (assemble_spec codes_eqb rc_codes codes_eqb_spec (TV (okey u) (okey d) vt) pre) as Hs.
  rewrite Hids in Hs. specialize (Hs (seq_NoDup _ _)). unfold dna_assemble in H. rewrite H in Hs.
  destruct Hs as (_ & _ & c & r & Hc & Hw & Hu & _). cbn [vfrag] in Hw.
  exists c, vt. split; [reflexivity|]. split; [exact Hw|]. split; [exact Hu|].
  pose proof (Chain_perm_out _ _ _ _ _ Hc) as Hp.
  split.
  - subst used. assert (Hn : NoDup (map mid (c ++ r))).
    { eapply Permutation.Permutation_NoDup; [apply Permutation.Permutation_map; exact Hp|].
      rewrite Hids. apply seq_NoDup. }
    rewrite map_app in Hn. clear -Hn. induction (map mid c) as [|x l IH]; [constructor|].
    cbn in Hn. inversion Hn as [|? ? Hx Hl]; subst. constructor; [|now apply IH].
    intros Hin. apply Hx. apply in_or_app. now left.
  - split.
    + intros t Ht. assert (Hin : In t pre).
      { eapply Permutation.Permutation_in; [symmetry; exact Hp|]. apply in_or_app. now left. }
      destruct (Hfr t Hin) as (c' & s' & H1 & H2 & _). eauto.
    + rewrite Hw, app_length. f_equal. clear. induction c as [|x c IH]; cbn; [reflexivity|].
      rewrite app_length, IH. reflexivity.
Qed.
