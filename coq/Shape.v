(* Shape.v — the common shape of every structure of the code base: atoms, then three
   capture groups, the first and third of atoms only, the second with exactly one
   wildcard run between atoms, then atoms.  `parse3` recognises it (executable);
   everything the typing of such a class reports sits at fixed offsets from the two
   ends of the match. *)
From MV Require Import Base Regex.

Record shape := SH {
  spre : list cset; sg1 : list cset; sa : list cset;
  slazy : bool; sstar : cset;
  sb : list cset; sg3 : list cset; spost : list cset }.

Definition atoms (cs : list cset) : pattern := map Atom cs.

Definition star_item (lz : bool) (c : cset) : item := if lz then StarL c else StarG c.

Definition shape_pat (sh : shape) : pattern :=
  atoms (spre sh) ++ Open :: atoms (sg1 sh) ++ Close :: Open :: atoms (sa sh) ++
  star_item (slazy sh) (sstar sh) :: atoms (sb sh) ++ Close :: Open :: atoms (sg3 sh) ++ Close :: atoms (spost sh).

Fixpoint take_atoms (p : pattern) : list cset * pattern :=
  match p with
  | Atom c :: r => let (cs, rest) := take_atoms r in (c :: cs, rest)
  | _ => ([], p)
  end.

Definition parse3 (p : pattern) : option shape :=
  let (pre, r1) := take_atoms p in
  match r1 with
  | Open :: r2 =>
    let (g1, r3) := take_atoms r2 in
    match r3 with
    | Close :: Open :: r4 =>
      let (a, r5) := take_atoms r4 in
      let k := fun lz c r6 =>
        let (b, r7) := take_atoms r6 in
        match r7 with
        | Close :: Open :: r8 =>
          let (g3, r9) := take_atoms r8 in
          match r9 with
          | Close :: r10 =>
            let (post, r11) := take_atoms r10 in
            match r11 with
            | [] => Some (SH pre g1 a lz c b g3 post)
            | _ => None
            end
          | _ => None
          end
        | _ => None
        end in
      match r5 with
      | StarG c :: r6 => k false c r6
      | StarL c :: r6 => k true c r6
      | _ => None
      end
    | _ => None
    end
  | _ => None
  end.

(* ---------- static framing of the two cuts ------------------------------------- *)

Definition cset_is (x : code) (c : cset) : bool :=
  match c with [y] => code_eqb x y | _ => false end.

Fixpoint lits_prefix (w : list code) (cs : list cset) : bool :=
  match w, cs with
  | [], _ => true
  | x :: w', c :: cs' => cset_is x c && lits_prefix w' cs'
  | _ :: _, [] => false
  end.

(* cs = (k arbitrary atoms) ++ literal word w ++ anything *)
Definition word_after (k : nat) (w : list code) (cs : list cset) : bool :=
  (k <=? length cs) && lits_prefix w (skipn k cs).

(* cs = anything ++ literal word w ++ (k arbitrary atoms) *)
Definition word_before_end (k : nat) (w : list code) (cs : list cset) : bool :=
  (length w + k <=? length cs) && lits_prefix w (skipn (length cs - k - length w) cs).

(* site, off, ovh given separately (the enzyme record lives in Typing.v).
   upstream cut at the start of group 1: the site and `off` letters sit right before it,
   or `off` letters and the reverse site sit right after group 1;
   downstream cut at the start of group 3: the site and `off` letters end group 2,
   or `off` letters and the reverse site follow group 3 *)
Definition frames (site rsite : list code) (off ovh : nat) (sh : shape) : bool :=
  Nat.eqb (length (sg1 sh)) ovh && Nat.eqb (length (sg3 sh)) ovh &&
  (word_before_end off site (spre sh) || word_after off rsite (sa sh)) &&
  (word_before_end off site (sb sh) || word_after off rsite (spost sh)).

(* the sites flank the target: both outside groups 1-3 (module classes cut out of a backbone) *)
Definition flanking (site rsite : list code) (off : nat) (sh : shape) : bool :=
  word_before_end off site (spre sh) && word_after off rsite (spost sh).
