(* Pipeline.v — from raw sequences to an assembly: typing of each argument by its
   class (Typing.v), in the order AssemblyManager evaluates them, then the walk
   (Assembly.v). Executable definitions only. *)
From MV Require Import Base Regex Typing Assembly.

Definition generic_cls (r : role) (e : enzyme) : cls := C r e (generic_structure r e).
Definition part_cls (r : role) (e : enzyme) (upsig downsig : pattern) : cls :=
  C r e (part_structure r e upsig downsig).

(* a module argument, typed: keys are the case-folded overhangs *)
Definition typed_module (c : cls) (i : nat) (s : list letter) : option (@tmod (list code)) :=
  match overhang_start c s true, overhang_end c s true, target c s true with
  | Some u, Some d, Some f => Some (TM i (okey u) (okey d) f)
  | _, _, _ => None
  end.

Definition typed_vector (c : cls) (s : list letter) : option (@tvec (list code)) :=
  match overhang_start c s true, overhang_end c s true, target c s true with
  | Some u, Some d, Some f => Some (TV (okey u) (okey d) f)
  | _, _, _ => None
  end.

(* modules are typed one after the other while the map is built: the valid prefix,
   and whether every module was valid *)
Fixpoint type_prefix (ms : list (cls * list letter)) (i : nat) : list (@tmod (list code)) * bool :=
  match ms with
  | [] => ([], true)
  | (c, s) :: r =>
    match typed_module c i s with
    | None => ([], false)
    | Some t => let (l, ok) := type_prefix r (S i) in (t :: l, ok)
    end
  end.

(* vector.assemble(modules...) on raw records:
   AssemblyManager.__init__ types the vector (InvalidSequence when it is not valid or
   its overhangs coincide); _generate_modules_map types the modules in order, so a
   duplicate among the modules before the first invalid one is reported first *)
Definition assemble_raw (vc : cls) (v : list letter) (ms : list (cls * list letter))
  : @outcome (list code) :=
  match typed_vector vc v with
  | None => EInvalid
  | Some tv =>
    if codes_eqb (vup tv) (vdown tv) then EInvalid
    else
      let (pre, complete) := type_prefix ms 0 in
      match build_map codes_eqb pre [] with
      | inr (a, b) => EDuplicate a b
      | inl _ => if complete then dna_assemble tv pre else EInvalid
      end
  end.
