(* RotLemmas.v — rotation of lists is a lossless group action (C13 core). *)
From MV Require Import Base.
From Coq Require Import ZifyBool ZifyNat.
Ltac Zify.zify_post_hook ::= Z.to_euclidean_division_equations.

Lemma nth_skipn_add {A} (s : list A) i j d : nth j (skipn i s) d = nth (i + j) s d.
Proof.
  revert s. induction i as [|i IH]; intros s; [reflexivity|].
  destruct s as [|x s]; [now destruct j|]. cbn. apply IH.
Qed.

Lemma nth_firstn_lt {A} (s : list A) m j d : j < m -> nth j (firstn m s) d = nth j s d.
Proof.
  revert s j. induction m as [|m IH]; intros s j Hj; [lia|].
  destruct s as [|x s]; [reflexivity|]. destruct j as [|j]; [reflexivity|].
  cbn. apply IH. lia.
Qed.

Lemma zmod_canon (a n r q : Z) : (0 <= r < n)%Z -> (a = n * q + r)%Z -> (a mod n = r)%Z.
Proof. intros Hr Ha. symmetry. apply (Z.mod_unique_pos a n q r); assumption. Qed.

(* (j - k) mod n in terms of k mod n *)
Lemma zmod_sub_lt (j k n : Z) :
  (0 <= j < n)%Z -> (j < k mod n)%Z -> ((j - k) mod n = j - k mod n + n)%Z.
Proof.
  intros Hj Hlt.
  pose proof (Z.div_mod k n ltac:(lia)) as Hk.
  pose proof (Z.mod_pos_bound k n ltac:(lia)) as Hb.
  set (q := (k / n)%Z) in *. set (r := (k mod n)%Z) in *.
  apply (zmod_canon _ _ _ (- q - 1)%Z); lia.
Qed.

Lemma zmod_sub_ge (j k n : Z) :
  (0 <= j < n)%Z -> (k mod n <= j)%Z -> ((j - k) mod n = j - k mod n)%Z.
Proof.
  intros Hj Hge.
  pose proof (Z.div_mod k n ltac:(lia)) as Hk.
  pose proof (Z.mod_pos_bound k n ltac:(lia)) as Hb.
  set (q := (k / n)%Z) in *. set (r := (k mod n)%Z) in *.
  apply (zmod_canon _ _ _ (- q)%Z); lia.
Qed.

Section Rot.
  Context {A : Type}.
  Implicit Types (s : list A) (k : Z).

  Lemma rotr_length k s : length (rotr k s) = length s.
  Proof.
    unfold rotr. rewrite app_length, skipn_length, firstn_length.
    set (n := length s). set (i := Z.to_nat (k mod Z.of_nat n)). lia.
  Qed.

  Lemma rotr_nil k : rotr k (@nil A) = [].
  Proof. reflexivity. Qed.

  (* index-wise characterisation: position j of the rotated word holds what
     was at (j - k) mod n *)
  Lemma rotr_nth k s d (j : nat) :
    j < length s ->
    nth j (rotr k s) d = nth (Z.to_nat ((Z.of_nat j - k) mod Z.of_nat (length s))) s d.
  Proof.
    intros Hj. unfold rotr.
    set (n := length s) in *.
    set (i := Z.to_nat (k mod Z.of_nat n)).
    assert (Hi : i < n) by (subst i; lia).
    destruct (Nat.lt_ge_cases j i) as [Hlt|Hge].
    - rewrite app_nth1 by (rewrite skipn_length; fold n; lia).
      rewrite nth_skipn_add. f_equal. subst i.
      rewrite zmod_sub_lt by lia. lia.
    - rewrite app_nth2 by (rewrite skipn_length; fold n; lia).
      rewrite skipn_length. fold n.
      rewrite nth_firstn_lt by lia.
      f_equal. subst i. rewrite zmod_sub_ge by lia. lia.
  Qed.

  (* "the letter at i ends up at (i + k) mod n" *)
  Lemma rotr_moves k s d (i : nat) :
    i < length s ->
    nth (Z.to_nat ((Z.of_nat i + k) mod Z.of_nat (length s))) (rotr k s) d = nth i s d.
  Proof.
    intros Hi.
    assert (Hb : (0 <= (Z.of_nat i + k) mod Z.of_nat (length s) < Z.of_nat (length s))%Z)
      by (apply Z.mod_pos_bound; lia).
    rewrite rotr_nth by lia. f_equal. rewrite Z2Nat.id by lia.
    rewrite Zminus_mod_idemp_l. replace (Z.of_nat i + k - k)%Z with (Z.of_nat i) by lia.
    rewrite Z.mod_small by lia. lia.
  Qed.

  (* rotating right by 0 <= k <= n moves the last k letters to the front *)
  Lemma rotr_last_to_front (k : nat) s :
    k <= length s ->
    rotr (Z.of_nat k) s = skipn (length s - k) s ++ firstn (length s - k) s.
  Proof.
    intros Hk. unfold rotr.
    destruct (Nat.eq_dec k (length s)) as [E|Hne].
    - rewrite E, Z_mod_same_full. cbn [Z.to_nat].
      rewrite Nat.sub_0_r, Nat.sub_diag. cbn [skipn firstn].
      rewrite skipn_all, firstn_all. now rewrite app_nil_r.
    - rewrite Z.mod_small by lia. rewrite Nat2Z.id. reflexivity.
  Qed.

  Lemma list_ext_nth (s t : list A) :
    length s = length t ->
    (forall d j, j < length s -> nth j s d = nth j t d) -> s = t.
  Proof.
    revert t. induction s as [|x s IH]; intros [|y t] Hl H; try discriminate; auto.
    f_equal.
    - apply (H x 0). cbn; lia.
    - apply IH; [cbn in Hl; lia|]. intros d j Hj. apply (H d (S j)). cbn; lia.
  Qed.

  Lemma rotr_add (j : Z) k s : rotr j (rotr k s) = rotr (j + k) s.
  Proof.
    apply list_ext_nth.
    - now rewrite !rotr_length.
    - intros d i Hi. rewrite !rotr_length in Hi.
      rewrite rotr_nth by (rewrite rotr_length; lia).
      rewrite rotr_length.
      rewrite rotr_nth by lia.
      rewrite (rotr_nth (j + k)) by lia.
      f_equal.
      assert (Hb : (0 <= (Z.of_nat i - j) mod Z.of_nat (length s) < Z.of_nat (length s))%Z)
        by (apply Z.mod_pos_bound; lia).
      rewrite Z2Nat.id by lia. rewrite Zminus_mod_idemp_l. f_equal. f_equal. lia.
  Qed.

  Lemma rotr_mod k s : rotr (k mod Z.of_nat (length s)) s = rotr k s.
  Proof.
    unfold rotr. destruct s as [|x s]; [reflexivity|].
    rewrite Z.mod_mod by (cbn [length]; lia). reflexivity.
  Qed.

  Lemma rotr_0 s : rotr 0 s = s.
  Proof.
    unfold rotr. rewrite Zmod_0_l. cbn [Z.to_nat].
    rewrite Nat.sub_0_r, skipn_all, firstn_all. reflexivity.
  Qed.

  Lemma rotr_mul_len (m : Z) s : rotr (m * Z.of_nat (length s)) s = s.
  Proof.
    rewrite <- rotr_mod.
    destruct s as [|x s]; [apply rotr_nil|].
    rewrite Z.mod_mul by (cbn [length]; lia). apply rotr_0.
  Qed.

  Lemma rotr_len s : rotr (Z.of_nat (length s)) s = s.
  Proof. pose proof (rotr_mul_len 1 s) as H. rewrite Z.mul_1_l in H. exact H. Qed.

  Lemma rotl_rotr k s : rotl k (rotr k s) = s.
  Proof. unfold rotl. rewrite rotr_add. replace (- k + k)%Z with 0%Z by lia. apply rotr_0. Qed.

  Lemma rotr_rotl k s : rotr k (rotl k s) = s.
  Proof. unfold rotl. rewrite rotr_add. replace (k + - k)%Z with 0%Z by lia. apply rotr_0. Qed.

  Lemma rotl_length k s : length (rotl k s) = length s.
  Proof. apply rotr_length. Qed.

  (* rotation by any k is a rotation by a natural number below the length *)
  Lemma rotr_periodic k m s : rotr (k + m * Z.of_nat (length s)) s = rotr k s.
  Proof.
    rewrite <- (rotr_add k (m * Z.of_nat (length s)) s).
    rewrite rotr_mul_len. reflexivity.
  Qed.

  (* the pinned per-letter annotation rotation goes the wrong way (F4) *)
  Lemma rot_track_pinned_is_rotl k (v : list A) : rot_track_pinned k v = rotl k v.
  Proof.
    destruct v as [|x v0]; [unfold rot_track_pinned; rewrite skipn_nil, firstn_nil; reflexivity|].
    set (v := x :: v0).
    unfold rot_track_pinned, rotl, rotr.
    set (n := length v).
    assert (Hn : (0 < Z.of_nat n)%Z) by (subst n v; cbn [length]; lia).
    pose proof (Z.mod_pos_bound k (Z.of_nat n) Hn) as Hb.
    destruct (Z.eq_dec (k mod Z.of_nat n) 0) as [E|E].
    - rewrite E. rewrite (Z.mod_opp_l_z k (Z.of_nat n)) by lia.
      cbn [Z.to_nat skipn firstn]. rewrite Nat.sub_0_r. subst n.
      rewrite skipn_all, firstn_all. now rewrite app_nil_r.
    - rewrite (Z.mod_opp_l_nz k (Z.of_nat n)) by lia.
      replace (n - Z.to_nat (Z.of_nat n - k mod Z.of_nat n)) with (Z.to_nat (k mod Z.of_nat n)) by lia.
      reflexivity.
  Qed.

  (* windows: the window at start i of s is the window at (i + k) mod n of rotr k s *)
  Lemma window_length s i : i <= length s -> length (window s i) = length s.
  Proof.
    intros Hi. unfold window. rewrite firstn_length, skipn_length, app_length. lia.
  Qed.

  Lemma window_nth s i d j :
    i < length s -> j < length s ->
    nth j (window s i) d = nth ((i + j) mod length s) s d.
  Proof.
    intros Hi Hj. unfold window. rewrite nth_firstn_lt by lia.
    rewrite nth_skipn_add.
    destruct (Nat.lt_ge_cases (i + j) (length s)) as [H|H].
    - rewrite app_nth1 by lia. f_equal. rewrite Nat.mod_small; lia.
    - rewrite app_nth2 by lia. f_equal.
      assert (length s <> 0) by lia.
      pose proof (Nat.mod_unique (i + j) (length s) 1 (i + j - length s)). lia.
  Qed.

  Lemma window_is_rotl s i : i < length s -> window s i = rotl (Z.of_nat i) s.
  Proof.
    intros Hi. apply list_ext_nth.
    - rewrite window_length by lia. now rewrite rotl_length.
    - intros d j Hj. rewrite window_length in Hj by lia.
      rewrite window_nth by lia. unfold rotl. rewrite rotr_nth by lia.
      f_equal.
      replace (Z.of_nat j - - Z.of_nat i)%Z with (Z.of_nat (i + j)) by lia.
      rewrite <- Nat2Z.inj_mod. now rewrite Nat2Z.id.
  Qed.

  Lemma window_rot k s i :
    i < length s ->
    window (rotr k s) (Z.to_nat ((Z.of_nat i + k) mod Z.of_nat (length s))) = window s i.
  Proof.
    intros Hi.
    rewrite !window_is_rotl by (rewrite ?rotr_length; lia).
    unfold rotl. rewrite rotr_add.
    rewrite <- (rotr_periodic (- Z.of_nat i) ((Z.of_nat i + k) / Z.of_nat (length s))).
    f_equal. lia.
  Qed.
End Rot.

(* rotation commutes with map (tracks, case folding, complement) *)
Lemma rotr_map {A B} (f : A -> B) k (s : list A) : rotr k (map f s) = map f (rotr k s).
Proof.
  unfold rotr. rewrite map_length, map_app, <- skipn_map, <- firstn_map. reflexivity.
Qed.
