(* SrcEquivAssembly.v — AssemblyManager as regenerated from moclo/core/_assembly.py
   (Gen/Src.v: __init__, _generate_modules_map, _generate_assembly) refines the model's
   assemble_raw (Pipeline.v / Assembly.v): same product word and unused modules, same
   error class with the same arguments, for every vector and every list of modules. *)
From MV Require Import Base RotLemmas Record RecordLemmas Regex RegexLemmas Typing Assembly AssemblyLemmas
     Pipeline StrandLemmas Circle Annot Py PyObj SrcEquivRegex SrcEquivRecord SrcEquivTyping.
From MV.Gen Require Import Src.
From Coq Require Import String.
Local Open Scope Z_scope.

(* ---------- keys: upper-cased overhangs vs case-folded codes ---------------- *)

Definition upper_word (w : list letter) : Prop := w = fold_case w.

Lemma fold_case_idem w : fold_case (fold_case w) = fold_case w.
Proof. unfold fold_case. rewrite map_map. reflexivity. Qed.

Lemma upper_fold w : upper_word (fold_case w).
Proof. unfold upper_word. now rewrite fold_case_idem. Qed.

Lemma okey_fold w : okey (fold_case w) = okey w.
Proof. unfold okey, fold_case. rewrite map_map. reflexivity. Qed.

Lemma word_eqb_fold a : forall b, word_eqb (fold_case a) (fold_case b) = codes_eqb (okey a) (okey b).
Proof.
  induction a as [|x a IH]; destruct b as [|y b]; cbn; try reflexivity.
  rewrite IH. unfold letter_eqb. cbn. now rewrite andb_true_r.
Qed.

Lemma word_eqb_upper a b : upper_word a -> upper_word b -> word_eqb a b = codes_eqb (okey a) (okey b).
Proof. intros -> ->. rewrite word_eqb_fold. now rewrite !okey_fold. Qed.

Lemma rc_fold w : rc (fold_case w) = fold_case (rc w).
Proof. unfold rc, fold_case. rewrite map_rev, !map_map. reflexivity. Qed.

Lemma upper_rc w : upper_word w -> upper_word (rc w).
Proof. unfold upper_word. intros H. rewrite H at 1. apply rc_fold. Qed.

Lemma okey_rc w : okey (rc w) = rc_codes (okey w).
Proof. apply map_lcode_rc. Qed.

(* ---------- entities ---------------------------------------------------------- *)

Definition ent_seq_w (e : entity) : list letter := pr_seq (ent_record e).

(* what the theorems below require of an argument: a CircularRecord of admissible length
   whose per-letter tracks have the length of the sequence (a Biopython invariant), typed by
   a class whose structure has the three capture groups, opened in order *)
Record good_ent (e : entity) : Prop := {
  ge_fit : fits e;
  ge_circ : is_CircularRecord (ent_record e) = true;
  ge_tracks : well_tracked (ent_record e);
  ge_groups : forall m, typing (ent_cls e) (ent_seq_w e) true = Valid m ->
      exists a1 b1 a2 b2 a3 b3,
        span m 1 = Some (a1, b1) /\ span m 2 = Some (a2, b2) /\ span m 3 = Some (a3, b3) /\ (a1 <= b2)%nat
}.

Lemma good_circ e : good_ent e -> ent_circ e = true.
Proof. intros G. unfold ent_circ. rewrite (ge_circ e G). apply orb_true_r. Qed.

Definition is_moclo_invalid (x : pyexc) : Prop := x = XInvalidSequence \/ x = XIllegalSite.

Definition tm_of (e : entity) : option (@tmod (list code)) :=
  typed_module (ent_cls e) (ent_id e) (ent_seq_w e).

Lemma good_ordered e : good_ent e ->
  forall m, typing (ent_cls e) (pr_seq (ent_record e)) (ent_circ e) = Valid m -> span_ordered m.
Proof.
  intros G m Ht. rewrite (good_circ e G) in Ht.
  destruct (ge_groups e G m Ht) as (a1 & b1 & a2 & b2 & a3 & b3 & S1 & S2 & S3 & Hle).
  unfold span_ordered, cut_span. rewrite S1, S2. intros a b H. inversion H; subst. exact Hle.
Qed.

(* every query on a good entity: values when the typing is valid, the same MoClo error
   otherwise *)
Lemma ent_queries e : good_ent e ->
  match typing (ent_cls e) (ent_seq_w e) true with
  | Valid m => exists r1 r2 r3 up down fr,
      overhang_start (ent_cls e) (ent_seq_w e) true = Some up /\
      overhang_end (ent_cls e) (ent_seq_w e) true = Some down /\
      target (ent_cls e) (ent_seq_w e) true = Some fr /\
      ent_overhang_start e = Ok r1 /\ pr_seq r1 = up /\
      ent_overhang_end e = Ok r2 /\ pr_seq r2 = down /\
      ent_target_sequence e = Ok r3 /\ pr_seq r3 = fr /\ pr_kind r3 = KSeqRecord
  | _ => exists x, is_moclo_invalid x /\
      ent_overhang_start e = Err x /\ ent_overhang_end e = Err x /\ ent_target_sequence e = Err x
  end.
Proof.
  intros G. pose proof (good_circ e G) as Hc. pose proof (ge_fit e G) as Hfit.
  pose proof (module_overhang_start_eq e Hfit) as MS. pose proof (module_overhang_end_eq e Hfit) as ME.
  pose proof (vector_overhang_start_eq e Hfit) as VS. pose proof (vector_overhang_end_eq e Hfit) as VE.
  pose proof (module_target_eq e Hfit (ge_circ e G) (ge_tracks e G)) as MT.
  pose proof (vector_target_eq e Hfit (ge_circ e G) (ge_tracks e G)) as VT.
  pose proof (AbstractModule_match_eq e Hfit) as MM. pose proof (AbstractVector_match_eq e Hfit) as VM.
  pose proof (good_ordered e G) as Hord.
  rewrite Hc in *. unfold ent_seq_w in *.
  unfold ent_overhang_start, ent_overhang_end, ent_target_sequence.
  destruct (typing (ent_cls e) (pr_seq (ent_record e)) true) as [m| |] eqn:Ht.
  - destruct (ge_groups e G m Ht) as (a1 & b1 & a2 & b2 & a3 & b3 & S1 & S2 & S3 & Hle).
    assert (Hup : exists up, overhang_start (ent_cls e) (pr_seq (ent_record e)) true = Some up).
    { unfold overhang_start, with_match, group. rewrite Ht. destruct (crole (ent_cls e)); rewrite ?S1, ?S3; cbn; eauto. }
    assert (Hdown : exists down, overhang_end (ent_cls e) (pr_seq (ent_record e)) true = Some down).
    { unfold overhang_end, with_match, group. rewrite Ht. destruct (crole (ent_cls e)); rewrite ?S1, ?S3; cbn; eauto. }
    assert (Hfr : exists fr, target (ent_cls e) (pr_seq (ent_record e)) true = Some fr).
    { unfold target, with_match, cut_span. rewrite Ht, S1, S2. eauto. }
    destruct Hup as [up Hup], Hdown as [down Hdown], Hfr as [fr Hfr].
    destruct (crole (ent_cls e)) eqn:Hr.
    + specialize (MS eq_refl). specialize (ME eq_refl). specialize (MT eq_refl Hord).
      rewrite Hup in MS. rewrite Hdown in ME. rewrite Hfr in MT.
      apply obs_some in MS, ME, MT. destruct MS as (r1 & E1 & P1), ME as (r2 & E2 & P2), MT as (r3 & E3 & P3).
      exists r1, r2, r3, up, down, fr. repeat split; auto.
      eapply module_target_kind; try eassumption; [apply (ge_circ e G)| |apply (ge_tracks e G)].
      eapply typing_nonempty; eassumption.
    + specialize (VS eq_refl). specialize (VE eq_refl). specialize (VT eq_refl Hord).
      rewrite Hup in VS. rewrite Hdown in VE. rewrite Hfr in VT.
      apply obs_some in VS, VE, VT. destruct VS as (r1 & E1 & P1), VE as (r2 & E2 & P2), VT as (r3 & E3 & P3).
      exists r1, r2, r3, up, down, fr. repeat split; auto.
      eapply vector_target_kind; try eassumption; [apply (ge_circ e G)| |apply (ge_tracks e G)].
      eapply typing_nonempty; eassumption.
  - exists XInvalidSequence. split; [now left|].
    destruct (crole (ent_cls e));
      unfold AbstractModule_overhang_start, AbstractModule_overhang_end, AbstractModule_target_sequence,
             AbstractVector_overhang_start, AbstractVector_overhang_end, AbstractVector_target_sequence;
      cbn [enz_is_3overhang]; rewrite ?MM, ?VM; cbn; auto.
  - exists XIllegalSite. split; [now right|].
    destruct (crole (ent_cls e));
      unfold AbstractModule_overhang_start, AbstractModule_overhang_end, AbstractModule_target_sequence,
             AbstractVector_overhang_start, AbstractVector_overhang_end, AbstractVector_target_sequence;
      cbn [enz_is_3overhang]; rewrite ?MM, ?VM; cbn; auto.
Qed.

(* ---------- dictionary entries vs typed modules -------------------------------- *)

Notation dlookup := (@lookup (list code) codes_eqb).
Notation dbuild_map := (@build_map (list code) codes_eqb).
Notation drc_clash := (@rc_clash (list code) codes_eqb rc_codes).
Notation dpop := (@pop (list code) codes_eqb).
Notation dwalk := (@walk (list code) codes_eqb).

Definition entry_rel (ke : pyrecord * entity) (t : @tmod (list code)) : Prop :=
  good_ent (snd ke) /\ tm_of (snd ke) = Some t /\
  upper_word (pr_seq (fst ke)) /\ okey (pr_seq (fst ke)) = mup t.

Definition dict_rel (d : list (pyrecord * entity)) (mp : list (@tmod (list code))) : Prop :=
  Forall2 entry_rel d mp.

Lemma tm_id e t : tm_of e = Some t -> mid t = ent_id e.
Proof.
  unfold tm_of, typed_module.
  destruct (overhang_start (ent_cls e) (ent_seq_w e) true), (overhang_end (ent_cls e) (ent_seq_w e) true),
    (target (ent_cls e) (ent_seq_w e) true); try discriminate.
  intros H. inversion H. reflexivity.
Qed.

Lemma tm_valid e t : tm_of e = Some t -> exists m, typing (ent_cls e) (ent_seq_w e) true = Valid m.
Proof.
  unfold tm_of, typed_module, overhang_start, with_match.
  destruct (typing (ent_cls e) (ent_seq_w e) true) as [m| |]; [eauto|discriminate|discriminate].
Qed.

Lemma dict_lookup d mp k : dict_rel d mp -> upper_word (pr_seq k) ->
  match dict_get seq_keq d k, dlookup (okey (pr_seq k)) mp with
  | Some e, Some t => good_ent e /\ tm_of e = Some t
  | None, None => True
  | _, _ => False
  end.
Proof.
  intros H Hk. induction H as [|[k0 e0] t0 d mp H0 H IH]; cbn [dict_get lookup]; [exact I|].
  destruct H0 as (G & T & U & K). cbn [fst snd] in *.
  assert (Hkeq : seq_keq k0 k = codes_eqb (mup t0) (okey (pr_seq k)))
    by (unfold seq_keq; now rewrite (word_eqb_upper _ _ U Hk), K).
  rewrite Hkeq.
  destruct (codes_eqb (mup t0) (okey (pr_seq k))); auto.
Qed.

Lemma dict_pop_rel d mp k : dict_rel d mp -> upper_word (pr_seq k) ->
  match dpop (okey (pr_seq k)) mp with
  | Some (t, rest) => exists e, dict_pop seq_keq d k = Ok (e, dict_remove seq_keq d k)
                                /\ good_ent e /\ tm_of e = Some t /\ dict_rel (dict_remove seq_keq d k) rest
  | None => dict_pop seq_keq d k = Err (XKeyError (KeySeq (pr_seq k)))
  end.
Proof.
  intros H Hk. unfold dict_pop.
  induction H as [|[k0 e0] t0 d mp H0 H IH]; cbn [dict_get dict_remove pop]; [reflexivity|].
  pose proof H0 as (G & T & U & K). cbn [fst snd] in *.
  assert (Hkeq : seq_keq k0 k = codes_eqb (mup t0) (okey (pr_seq k)))
    by (unfold seq_keq; now rewrite (word_eqb_upper _ _ U Hk), K).
  rewrite !Hkeq.
  destruct (codes_eqb (mup t0) (okey (pr_seq k))).
  - exists e0. split; [reflexivity|]. split; [exact G|]. split; [exact T|exact H].
  - destruct (dpop (okey (pr_seq k)) mp) as [[t rest]|].
    + destruct IH as (e & E & Ge & Te & Hr).
      destruct (dict_get seq_keq d k); [|discriminate]. inversion E; subst.
      exists e. split; [reflexivity|]. split; [exact Ge|]. split; [exact Te|]. constructor; assumption.
    + destruct (dict_get seq_keq d k); [discriminate|reflexivity].
Qed.

Lemma dict_rel_ids d mp : dict_rel d mp -> map ent_id (dict_values d) = map mid mp.
Proof.
  induction 1 as [|[k e] t d mp H0 H IH]; [reflexivity|].
  destruct H0 as (_ & T & _). cbn [snd] in T. unfold dict_values in *. cbn [map snd].
  now rewrite IH, (tm_id _ _ T).
Qed.

Lemma dict_rel_empty d mp : dict_rel d mp -> dict_nonempty d = match mp with [] => false | _ => true end.
Proof. destruct 1; reflexivity. Qed.

(* ---------- first loop of _generate_modules_map -------------------------------- *)

Definition map_body (mod_ : entity) (modmap : list (pyrecord * entity)) : exc (list (pyrecord * entity)) :=
  t1 <- ent_overhang_start mod_ ;;
  let '(m, modmap) := dict_setdefault seq_keq modmap (seq_upper t1) mod_ in
  if negb (ent_is m mod_) then
    t2 <- ent_overhang_start m ;;
    let details := tt in
    Err (XDuplicateModules (ent_id m) (ent_id mod_))
  else Ok modmap.

Definition raw_of (e : entity) : cls * list letter := (ent_cls e, ent_seq_w e).

Lemma valid_start e t : good_ent e -> tm_of e = Some t ->
  exists r up, ent_overhang_start e = Ok r /\ pr_seq r = up /\ mup t = okey up.
Proof.
  intros G T. pose proof (ent_queries e G) as Q. destruct (tm_valid e t T) as [m Hm]. rewrite Hm in Q.
  destruct Q as (r1 & r2 & r3 & up & down & fr & Hu & Hd & Hf & E1 & P1 & _).
  exists r1, up. repeat split; auto.
  unfold tm_of, typed_module in T. rewrite Hu, Hd, Hf in T. inversion T. reflexivity.
Qed.

Lemma build_loop : forall ms i d mp pre complete,
  dict_rel d mp -> Forall good_ent ms -> map ent_id ms = seq i (List.length ms) ->
  (forall t, In t mp -> (mid t < i)%nat) ->
  type_prefix (map raw_of ms) i = (pre, complete) ->
  match dbuild_map pre mp with
  | inr (a, b) => py_for0 ms d map_body = Err (XDuplicateModules a b)
  | inl mp' =>
    if complete then exists d', py_for0 ms d map_body = Ok d' /\ dict_rel d' mp'
    else exists x, is_moclo_invalid x /\ py_for0 ms d map_body = Err x
  end.
Proof.
  induction ms as [|e ms IH]; intros i d mp pre complete Hrel Hgood Hids Hlt Htp.
  - cbn in Htp. inversion Htp; subst. cbn. eauto.
  - inversion Hgood as [|? ? Ge Hgood']; subst.
    cbn [List.length seq map] in Hids.
    assert (Hid : ent_id e = i) by congruence.
    assert (Hids' : map ent_id ms = seq (S (ent_id e)) (List.length ms)) by congruence.
    clear Hids. subst i.
    cbn [map type_prefix raw_of] in Htp. fold (raw_of) in Htp.
    change (typed_module (ent_cls e) (ent_id e) (ent_seq_w e)) with (tm_of e) in Htp.
    cbn [py_for0].
    pose proof (ent_queries e Ge) as Q.
    destruct (tm_of e) as [t|] eqn:T.
    + destruct (type_prefix (map raw_of ms) (S (ent_id e))) as [l ok] eqn:Htp'.
      cbn in Htp. inversion Htp; subst pre complete.
      destruct (valid_start e t Ge T) as (r & up & E & P & Ku).
      assert (Uk : upper_word (pr_seq (seq_upper r))) by (cbn; apply upper_fold).
      assert (Ok_ : okey (pr_seq (seq_upper r)) = mup t) by (cbn; rewrite okey_fold, P; auto).
      pose proof (dict_lookup d mp (seq_upper r) Hrel Uk) as L. rewrite Ok_ in L.
      cbn [build_map].
      destruct (dict_get seq_keq d (seq_upper r)) as [e0|] eqn:Dg, (dlookup (mup t) mp) as [t0|] eqn:Lk;
        try contradiction.
      * destruct L as (G0 & T0).
        assert (Hne : Nat.eqb (ent_id e0) (ent_id e) = false).
        { apply Nat.eqb_neq. apply (lookup_some codes_eqb codes_eqb_spec) in Lk. destruct Lk as [Hin _].
          specialize (Hlt _ Hin). rewrite (tm_id _ _ T0) in Hlt. lia. }
        destruct (valid_start e0 t0 G0 T0) as (r0 & up0 & E0 & _).
        assert (Hb : map_body e d = Err (XDuplicateModules (ent_id e0) (ent_id e))).
        { unfold map_body. rewrite E. cbn [bind]. unfold dict_setdefault. rewrite Dg.
          unfold ent_is. rewrite Hne. cbn [negb]. rewrite E0. reflexivity. }
        rewrite Hb. now rewrite (tm_id _ _ T0), (tm_id _ _ T).
      * assert (Hb : map_body e d = Ok (d ++ [(seq_upper r, e)])).
        { unfold map_body. rewrite E. cbn [bind]. unfold dict_setdefault. rewrite Dg.
          unfold ent_is. rewrite Nat.eqb_refl. reflexivity. }
        rewrite Hb.
        apply (IH (S (ent_id e))); auto.
        -- apply Forall2_app; [exact Hrel|]. constructor; [|constructor].
           split; [exact Ge|]. split; [exact T|]. split; [exact Uk|exact Ok_].
        -- intros x Hx. apply in_app_or in Hx. destruct Hx as [Hx|[<-|[]]]; [specialize (Hlt _ Hx); lia|].
           rewrite (tm_id _ _ T). lia.
    + cbn in Htp. inversion Htp; subst pre complete. cbn [build_map].
      unfold tm_of, typed_module in T.
      destruct (typing (ent_cls e) (ent_seq_w e) true) as [m| |] eqn:Ht.
      * destruct Q as (r1 & r2 & r3 & up & down & fr & Hu & Hd & Hf & _). rewrite Hu, Hd, Hf in T. discriminate.
      * destruct Q as (x & Hx & E & _). exists x. split; [exact Hx|]. unfold map_body. now rewrite E.
      * destruct Q as (x & Hx & E & _). exists x. split; [exact Hx|]. unfold map_body. now rewrite E.
Qed.

(* ---------- second loop: reverse-complementary start overhangs ----------------- *)

Definition rc_body (modmap : list (pyrecord * entity)) (overhang : pyrecord) (_ : unit) : exc unit :=
  let m := dict_get seq_keq modmap (seq_rc overhang) in
  match m with
  | Some m =>
    t5 <- dict_getitem seq_keq modmap overhang ;;
    if negb (ent_is m t5) then
      t3 <- ent_overhang_start m ;;
      let details := tt in
      t4 <- dict_getitem seq_keq modmap overhang ;;
      Err (XDuplicateModules (ent_id m) (ent_id t4))
    else Ok tt
  | None => Ok tt
  end.

Lemma rc_loop d mp : dict_rel d mp -> NoDup (map mup mp) ->
  forall dk mk, dict_rel dk mk -> (forall t, In t mk -> In t mp) ->
  py_for0 (map fst dk) tt (rc_body d) =
  match drc_clash mk mp with Some (a, b) => Err (XDuplicateModules a b) | None => Ok tt end.
Proof.
  intros Hrel Hnd dk mk H. induction H as [|[k e] t dk mk H0 H IH]; intros Hin; [reflexivity|].
  destruct H0 as (G & T & U & K). cbn [fst snd] in *.
  cbn [map py_for0 rc_clash fst].
  assert (Hself : exists e', dict_getitem seq_keq d k = Ok e' /\ ent_id e' = mid t).
  { pose proof (dict_lookup d mp k Hrel U) as L. rewrite K in L.
    rewrite (lookup_in_nodup codes_eqb codes_eqb_spec mp t Hnd) in L by (apply Hin; now left).
    unfold dict_getitem. destruct (dict_get seq_keq d k) as [e'|]; [|contradiction].
    destruct L as (_ & T'). exists e'. split; [reflexivity|]. symmetry. now apply tm_id. }
  destruct Hself as (e' & Eg & Hid').
  assert (Ur : upper_word (pr_seq (seq_rc k))) by (cbn; now apply upper_rc).
  pose proof (dict_lookup d mp (seq_rc k) Hrel Ur) as L.
  assert (Kr : okey (pr_seq (seq_rc k)) = rc_codes (mup t)) by (cbn; now rewrite okey_rc, K).
  rewrite Kr in L. unfold rc_body at 1.
  destruct (dict_get seq_keq d (seq_rc k)) as [e1|], (dlookup (rc_codes (mup t)) mp) as [t1|]; try contradiction.
  - destruct L as (G1 & T1). rewrite Eg. cbn [bind].
    unfold ent_is. rewrite Hid', <- (tm_id _ _ T1).
    destruct (Nat.eqb (mid t1) (mid t)); cbn [negb].
    + apply IH. intros x Hx. apply Hin. now right.
    + destruct (valid_start e1 t1 G1 T1) as (r1 & up1 & E1 & _). rewrite E1. cbn [bind].
      rewrite ?Eg. cbn [bind]. now rewrite ?Hid'.
  - apply IH. intros x Hx. apply Hin. now right.
Qed.

(* ---------- the walk ------------------------------------------------------------ *)

Definition walk_cond (vector : entity) (st : list (pyrecord * entity) * pyrecord * pyrecord) : exc bool :=
  let '(modmap, assembly, overhang_next) := st in
  t2 <- ent_overhang_start vector ;;
  Ok (negb (py_eq overhang_next (seq_upper t2))).

Definition walk_body (st : list (pyrecord * entity) * pyrecord * pyrecord)
  : exc (list (pyrecord * entity) * pyrecord * pyrecord) :=
  let '(modmap, assembly, overhang_next) := st in
  '(module_, modmap) <- dict_pop seq_keq modmap overhang_next ;;
  t3 <- ent_target_sequence module_ ;;
  t4 <- py_addm assembly t3 ;;
  let assembly := t4 in
  t5 <- ent_overhang_end module_ ;;
  let overhang_next := seq_upper t5 in
  Ok (modmap, assembly, overhang_next).

Lemma valid_all e t : good_ent e -> tm_of e = Some t ->
  exists r2 r3, ent_overhang_end e = Ok r2 /\ mdown t = okey (pr_seq r2) /\
                ent_target_sequence e = Ok r3 /\ pr_seq r3 = mfrag t /\ pr_kind r3 = KSeqRecord.
Proof.
  intros G T. pose proof (ent_queries e G) as Q. destruct (tm_valid e t T) as [m Hm]. rewrite Hm in Q.
  destruct Q as (r1 & r2 & r3 & up & down & fr & Hu & Hd & Hf & E1 & P1 & E2 & P2 & E3 & P3 & L3).
  exists r2, r3. unfold tm_of, typed_module in T. rewrite Hu, Hd, Hf in T. inversion T. cbn.
  repeat split; auto. now rewrite P2.
Qed.

Lemma py_while0_S {S} f (st : S) cond body :
  py_while0 (Datatypes.S f) st cond body =
  match cond st with
  | Err e => Err e
  | Ok false => Ok st
  | Ok true => match body st with Ok st' => py_while0 f st' cond body | Err e => Err e end
  end.
Proof. reflexivity. Qed.

Lemma walk_loop vector rb b : ent_overhang_start vector = Ok rb -> b = okey (pr_seq rb) ->
  forall f d mp asm next used,
  dict_rel d mp -> upper_word (pr_seq next) -> plain asm ->
  pr_seq asm = List.concat (map mfrag used) ->
  dwalk f b (okey (pr_seq next)) mp used <> WFuel ->
  match dwalk f b (okey (pr_seq next)) mp used with
  | WChain u rest => exists d' asm' next',
      py_while0 (S f) (d, asm, next) (walk_cond vector) walk_body = Ok (d', asm', next')
      /\ dict_rel d' rest /\ pr_seq asm' = List.concat (map mfrag u) /\ plain asm'
  | WMissing o => exists k, py_while0 (S f) (d, asm, next) (walk_cond vector) walk_body = Err (XKeyError (KeySeq k))
                            /\ okey k = o
  | WFuel => True
  end.
Proof.
  intros Eb Hb. induction f as [|f IH]; intros d mp asm next used Hrel Un La Ha Hnf.
  - cbn [walk] in *. rewrite py_while0_S. cbn [walk_cond]. rewrite Eb. cbn [bind].
    assert (Hc : py_eq next (seq_upper rb) = codes_eqb (okey (pr_seq next)) b).
    { unfold py_eq, PyEq_rec. cbn [seq_upper mk_Seq pr_seq].
      rewrite (word_eqb_upper _ _ Un (upper_fold _)), okey_fold. now subst b. }
    rewrite Hc. destruct (codes_eqb (okey (pr_seq next)) b); [|contradiction].
    cbn [negb]. exists d, asm, next. auto.
  - cbn [walk] in *. rewrite py_while0_S. cbn [walk_cond]. rewrite Eb. cbn [bind].
    assert (Hc : py_eq next (seq_upper rb) = codes_eqb (okey (pr_seq next)) b).
    { unfold py_eq, PyEq_rec. cbn [seq_upper mk_Seq pr_seq].
      rewrite (word_eqb_upper _ _ Un (upper_fold _)), okey_fold. now subst b. }
    rewrite Hc. destruct (codes_eqb (okey (pr_seq next)) b); cbn [negb].
    + exists d, asm, next. auto.
    + pose proof (dict_pop_rel d mp next Hrel Un) as Hp.
      destruct (dpop (okey (pr_seq next)) mp) as [[t rest]|].
      * destruct Hp as (e & Ep & Ge & Te & Hr).
        destruct (valid_all e t Ge Te) as (r2 & r3 & E2 & Kd & E3 & P3 & L3).
        destruct (addm_seqrecords asm r3 La L3) as (asm' & Ea & Pa & La').
        assert (Hbody : walk_body (d, asm, next) = Ok (dict_remove seq_keq d next, asm', seq_upper r2)).
        { unfold walk_body. rewrite Ep. cbn [bind]. rewrite E3. cbn [bind]. rewrite Ea. cbn [bind].
          rewrite E2. reflexivity. }
        rewrite Hbody.
        assert (Un' : upper_word (pr_seq (seq_upper r2))) by (cbn; apply upper_fold).
        assert (Kn : okey (pr_seq (seq_upper r2)) = mdown t) by (cbn; now rewrite okey_fold).
        specialize (IH (dict_remove seq_keq d next) rest asm' (seq_upper r2) (used ++ [t]) Hr Un' La').
        rewrite Kn in IH. apply IH; [|exact Hnf].
        rewrite Pa, Ha, P3, map_app, concat_app. cbn. now rewrite app_nil_r.
      * assert (Hbody : walk_body (d, asm, next) = Err (XKeyError (KeySeq (pr_seq next)))).
        { unfold walk_body. rewrite Hp. reflexivity. }
        rewrite Hbody. exists (pr_seq next). auto.
Qed.

(* ---------- the whole assembly -------------------------------------------------- *)

(* what a caller observes of vector.assemble(...), in the vocabulary of the model *)
Definition outcome_of (x : exc (pyrecord * list pywarning)) : @Assembly.outcome (list code) :=
  match x with
  | Ok (r, ws) => Product (pr_seq r) [] (match ws with WUnusedModules ids :: _ => ids | [] => [] end)
  | Err XInvalidSequence => EInvalid
  | Err XIllegalSite => EInvalid
  | Err (XDuplicateModules a b) => EDuplicate a b
  | Err (XMissingModule (KeySeq o)) => EMissing (okey o)
  | Err _ => EInternal
  end.

(* the chain itself is not reported by the implementation *)
Definition forget_used (o : @Assembly.outcome (list code)) : @Assembly.outcome (list code) :=
  match o with Product w _ un => Product w [] un | x => x end.

Lemma type_prefix_length : forall raw i pre, type_prefix raw i = (pre, true) -> List.length pre = List.length raw.
Proof.
  induction raw as [|[c s] raw IH]; intros i pre H; cbn in H.
  - inversion H. reflexivity.
  - destruct (typed_module c i s); [|discriminate].
    destruct (type_prefix raw (S i)) as [l ok] eqn:E. inversion H; subst. cbn. f_equal. eapply IH; eassumption.
Qed.

Lemma invalid_outcome x : is_moclo_invalid x -> forall A (k : A -> exc (pyrecord * list pywarning)),
  outcome_of (Err x) = EInvalid.
Proof. intros [-> | ->]; reflexivity. Qed.

(* the second phase: _generate_assembly on a manager whose vector types, with a dictionary that
   relates to the typed modules (whatever records the entities carry) *)
Lemma generate_phase vector mgr d' pre n up down fr :
  good_ent vector -> am_vector mgr = vector ->
  overhang_start (ent_cls vector) (ent_seq_w vector) true = Some up ->
  overhang_end (ent_cls vector) (ent_seq_w vector) true = Some down ->
  target (ent_cls vector) (ent_seq_w vector) true = Some fr ->
  dict_rel d' pre -> List.length pre = n ->
  outcome_of (AssemblyManager_generate_assembly (S (S n)) mgr d') =
  forget_used (finish {| vup := okey up; vdown := okey down; vfrag := fr |}
                 (dwalk (S (List.length pre)) (okey up) (okey down) pre [])).
Proof.
  intros Gv Hmv Hu Hd Hf Hrel Hlen.
  pose proof (ent_queries vector Gv) as Q.
  destruct (typing (ent_cls vector) (ent_seq_w vector) true) as [mv| |] eqn:Htv.
  2,3: unfold overhang_start, with_match in Hu; rewrite Htv in Hu; discriminate.
  destruct Q as (r1 & r2 & r3 & up' & down' & fr' & Hu' & Hd' & Hf' & E1 & P1 & E2 & P2 & E3 & P3 & K3).
  assert (Hup : up' = up) by congruence. assert (Hdown : down' = down) by congruence. assert (Hfr : fr' = fr) by congruence.
  rewrite Hup in *. rewrite Hdown in *. rewrite Hfr in *. clear Hup Hdown Hfr Hu' Hd' Hf'.
  unfold AssemblyManager_generate_assembly. rewrite Hmv.
  rewrite E2. cbn [bind].
  change (py_while0 (S (S n)) ?st _ _)
    with (py_while0 (S (S n)) st (walk_cond vector) walk_body).
  rewrite Hlen.
  assert (Un : upper_word (pr_seq (seq_upper r2))) by (cbn; apply upper_fold).
  assert (Kn : okey (pr_seq (seq_upper r2)) = okey down) by (cbn; now rewrite okey_fold, P2).
  pose proof (walk_loop vector r1 (okey up) E1 (f_equal okey (eq_sym P1))
                (S n) d' pre (mk_SeqRecord1 (mk_Seq [])) (seq_upper r2) []
                Hrel Un (conj eq_refl eq_refl) eq_refl) as WL.
  rewrite Kn in WL.
  assert (Hnf : dwalk (S n) (okey up) (okey down) pre [] <> WFuel)
    by (apply (walk_fuel codes_eqb codes_eqb_spec); lia).
  specialize (WL Hnf).
  destruct (dwalk (S n) (okey up) (okey down) pre []) as [u rest|o|]; [| |contradiction].
  - destruct WL as (d2 & asm' & next' & Ew & Hrel2 & Pa & Ka). rewrite Ew. cbn [bind py_try].
    rewrite (dict_rel_empty d2 rest Hrel2). rewrite E3.
    destruct (addm_seqrecords asm' r3 Ka K3) as (prod & Ep & Pp & Kp & Ap).
    cbn [finish].
    destruct rest as [|t0 rest0]; cbn [bind app]; rewrite Ep; cbn [bind];
      rewrite CircularRecord_new_eq; unfold bio_CircularRecord_of; rewrite Ap; cbn [bind outcome_of forget_used pr_seq];
      rewrite Pp, Pa, P3; [reflexivity|].
    rewrite (dict_rel_ids d2 (t0 :: rest0) Hrel2). reflexivity.
  - destruct WL as (k & Ew & Hk). rewrite Ew. cbn [bind py_try finish outcome_of forget_used]. now rewrite Hk.
Qed.

(* the first phase: __init__ and _generate_modules_map; an error here is the outcome *)
Lemma modmap_phase vector modules i n :
  good_ent vector -> Forall good_ent modules ->
  map ent_id modules = seq 0 (List.length modules) ->
  match (mgr <- AssemblyManager_init tt vector modules i n ;;
         d <- AssemblyManager_generate_modules_map mgr ;; Ok (mgr, d)) with
  | Err e => @outcome_of (Err e) = forget_used (assemble_raw (ent_cls vector) (ent_seq_w vector) (map raw_of modules))
  | Ok (mgr, d') => exists up down fr pre,
      am_vector mgr = vector /\ am_modules mgr = modules /\ am_elements mgr = modules ++ [vector]
      /\ am_id mgr = i /\ am_name mgr = n /\
      overhang_start (ent_cls vector) (ent_seq_w vector) true = Some up /\
      overhang_end (ent_cls vector) (ent_seq_w vector) true = Some down /\
      target (ent_cls vector) (ent_seq_w vector) true = Some fr /\
      dict_rel d' pre /\ List.length pre = List.length modules /\
      assemble_raw (ent_cls vector) (ent_seq_w vector) (map raw_of modules) =
      finish {| vup := okey up; vdown := okey down; vfrag := fr |}
             (dwalk (S (List.length pre)) (okey up) (okey down) pre [])
  end.
Proof.
  intros Gv Gm Hids. unfold assemble_raw, typed_vector.
  pose proof (ent_queries vector Gv) as Q.
  unfold AssemblyManager_init.
  destruct (typing (ent_cls vector) (ent_seq_w vector) true) as [mv| |] eqn:Htv.
  2,3: destruct Q as (x & Hx & E1 & _); rewrite E1; cbn [bind];
       assert (Hn : overhang_start (ent_cls vector) (ent_seq_w vector) true = None)
         by (unfold overhang_start, with_match; now rewrite Htv);
       rewrite Hn; destruct Hx as [-> | ->]; reflexivity.
  destruct Q as (r1 & r2 & r3 & up & down & fr & Hu & Hd & Hf & E1 & P1 & E2 & P2 & E3 & P3 & K3).
  rewrite Hu, Hd, Hf, E1. cbn [bind]. rewrite E2. cbn [bind vup vdown].
  assert (Hc : py_eq (seq_upper r1) (seq_upper r2) = codes_eqb (okey up) (okey down)).
  { unfold py_eq, PyEq_rec. cbn [seq_upper mk_Seq pr_seq]. now rewrite word_eqb_fold, P1, P2. }
  rewrite Hc. destruct (codes_eqb (okey up) (okey down)) eqn:Hvo; [reflexivity|].
  cbn [bind]. unfold py_addm at 1, PyAddM_list. cbn [bind].
  unfold AssemblyManager_generate_modules_map. cbn [am_modules].
  change (py_for0 modules [] _) with (py_for0 modules [] map_body).
  destruct (type_prefix (map raw_of modules) 0) as [pre complete] eqn:Htp.
  pose proof (build_loop modules 0 [] [] pre complete (Forall2_nil _) Gm Hids
                (fun t (H : In t []) => match H with end) Htp) as BL.
  destruct (dbuild_map pre []) as [mp'|[a b]] eqn:Hbm.
  2:{ rewrite BL. reflexivity. }
  destruct complete.
  2:{ destruct BL as (x & Hx & E). rewrite E. destruct Hx as [-> | ->]; reflexivity. }
  destruct BL as (d' & Ed & Hrel). rewrite Ed. cbn [bind].
  destruct (build_map_inl codes_eqb codes_eqb_spec pre [] mp' Hbm) as [Hmp Hnd].
  specialize (Hnd (NoDup_nil _)). cbn [app] in Hmp, Hnd. subst mp'.
  change (py_for0 (dict_keys d') tt _) with (py_for0 (map fst d') tt (rc_body d')).
  rewrite (rc_loop d' pre Hrel Hnd d' pre Hrel (fun t H => H)).
  unfold dna_assemble, assemble, assemble_with. cbn [vup vdown]. rewrite Hvo, Hbm.
  destruct (drc_clash pre pre) as [[a b]|]; [reflexivity|].
  cbn [bind].
  assert (Hlen : List.length pre = List.length modules)
    by (rewrite (type_prefix_length _ _ _ Htp); apply map_length).
  exists up, down, fr, pre. cbn [am_vector am_modules am_elements am_id am_name]. repeat split; auto.
Qed.

Theorem vector_assemble_eq vector modules :
  good_ent vector -> Forall good_ent modules ->
  map ent_id modules = seq 0 (List.length modules) ->
  outcome_of (vector_assemble (S (S (List.length modules))) vector modules)
  = forget_used (assemble_raw (ent_cls vector) (ent_seq_w vector) (map raw_of modules)).
Proof.
  intros Gv Gm Hids. unfold vector_assemble.
  pose proof (modmap_phase vector modules PyHeap.str_assembly PyHeap.str_assembly Gv Gm Hids) as M1.
  destruct (AssemblyManager_init tt vector modules PyHeap.str_assembly PyHeap.str_assembly) as [mgr|e]; cbn [bind] in *; [|exact M1].
  destruct (AssemblyManager_generate_modules_map mgr) as [d'|e]; cbn [bind] in *; [|exact M1].
  destruct M1 as (up & down & fr & pre & Hv & _ & _ & _ & _ & Hu & Hd & Hf & Hrel & Hlen & Eraw).
  rewrite Eraw. apply (generate_phase vector mgr d' pre (List.length modules) up down fr); auto.
Qed.

(* ======================================================================================== *)
(* The same refinement at the level of records: the feature table of the product              *)
(* ======================================================================================== *)

From MV Require Import AnnotPipeline TotalLemmas.

(* the fragment an element contributes, as the annotation model defines it *)
Definition frag_rec (e : entity) : record :=
  match elem_fragment (ent_cls e) (pr_id (ent_record e)) (to_record (ent_record e)) with
  | Some f => f
  | None => R [] [] []
  end.

Lemma cut_span_bound c s m a b : typing c s true = Valid m -> cut_span m = Some (a, b) ->
  (b - a <= List.length s)%nat.
Proof.
  intros Ht Hc. apply typing_valid_search in Ht.
  destruct (search_window _ _ _ _ _ _ Ht) as (_ & Hw & _ & Hsp).
  unfold cut_span in Hc.
  destruct (span m 1) as [[a1 b1]|] eqn:S1; [|discriminate].
  destruct (span m 2) as [[a2 b2]|] eqn:S2; [|discriminate]. inversion Hc; subst.
  cbn [span] in S1, S2. apply find_span_in in S1, S2.
  rewrite Forall_forall in Hsp. pose proof (Hsp _ S1) as H1. pose proof (Hsp _ S2) as H2.
  unfold span_ok in *. cbn in *. lia.
Qed.

Lemma ent_target_record e t : good_ent e -> tm_of e = Some t ->
  exists r3, ent_target_sequence e = Ok r3 /\ pr_kind r3 = KSeqRecord /\ same_sf (to_record r3) (frag_rec e).
Proof.
  intros G T. destruct (tm_valid e t T) as [m Hm]. pose proof (good_circ e G) as Hc.
  destruct (ge_groups e G m Hm) as (a1 & b1 & a2 & b2 & a3 & b3 & S1 & S2 & S3 & Hle).
  assert (Hcs : cut_span m = Some (a1, b2)) by (unfold cut_span; now rewrite S1, S2).
  pose proof (cut_span_bound _ _ _ _ _ Hm Hcs) as HL.
  unfold frag_rec, elem_fragment. cbn [to_record rseq]. unfold ent_seq_w in Hm. rewrite Hm, Hcs.
  unfold ent_target_sequence.
  assert (Hm' : typing (ent_cls e) (pr_seq (ent_record e)) (ent_circ e) = Valid m) by now rewrite Hc.
  destruct (crole (ent_cls e)) eqn:Hr.
  - exact (module_target_record e (ge_fit e G) (ge_circ e G) (ge_tracks e G) m a1 b2 Hm' Hcs Hle HL).
  - exact (vector_target_record e (ge_fit e G) (ge_circ e G) (ge_tracks e G) m a1 b2 Hm' Hcs Hle HL).
Qed.

Lemma same_sf_concat x y x' y' : same_sf x x' -> same_sf y y' -> same_sf (concat_record x y) (concat_record x' y').
Proof. intros [H1 H2] [H3 H4]. unfold same_sf, concat_record. cbn. now rewrite H1, H2, H3, H4. Qed.

Lemma addm_seqrecords_rec x y : plain x -> pr_kind y = KSeqRecord ->
  exists r, py_addm x y = Ok r /\ plain r
            /\ to_record r = concat_record (to_record x) (to_record y).
Proof.
  unfold plain, py_addm, PyAddM_rec, is_CircularRecord, bio_add, is_SeqRecord.
  destruct x as [kx sx ix fx ax lx nx], y as [ky sy iy fy ay ly ny]. cbn. intros [-> Hx] ->.
  eexists; (split; [reflexivity|]); cbn; repeat split. apply ann_common_topology. now left.
Qed.

Lemma product_snoc frs f : product (frs ++ [f]) = concat_record (product frs) f.
Proof. unfold product. now rewrite fold_left_app. Qed.

Lemma dict_get_in {V} keq (d : list (pyrecord * V)) k v : dict_get keq d k = Some v -> In v (dict_values d).
Proof.
  induction d as [|[k0 v0] d IH]; cbn; [discriminate|].
  destruct (keq k0 k); [intros H; inversion H; now left|intros H; right; now apply IH].
Qed.

Lemma dict_remove_incl {V} keq (d : list (pyrecord * V)) k : incl (dict_values (dict_remove keq d k)) (dict_values d).
Proof.
  induction d as [|[k0 v0] d IH]; cbn; [apply incl_refl|].
  destruct (keq k0 k); cbn.
  - apply incl_tl, incl_refl.
  - intros x [<-|Hx]; [now left|right; now apply IH].
Qed.

Lemma dict_pop_in {V} keq (d : list (pyrecord * V)) k v d' : dict_pop keq d k = Ok (v, d') ->
  In v (dict_values d) /\ incl (dict_values d') (dict_values d).
Proof.
  unfold dict_pop. destruct (dict_get keq d k) eqn:E; [|discriminate].
  intros H. inversion H; subst. split; [eapply dict_get_in; eassumption|apply dict_remove_incl].
Qed.

(* the walk, with the entities it consumes *)
Lemma walk_loop_rec vector rb b : ent_overhang_start vector = Ok rb -> b = okey (pr_seq rb) ->
  forall f d mp asm next used usedE,
  dict_rel d mp -> upper_word (pr_seq next) -> plain asm ->
  Forall2 (fun e t => tm_of e = Some t) usedE used ->
  same_sf (to_record asm) (product (map frag_rec usedE)) ->
  dwalk f b (okey (pr_seq next)) mp used <> WFuel ->
  match dwalk f b (okey (pr_seq next)) mp used with
  | WChain u rest => exists d' asm' next' uE,
      py_while0 (S f) (d, asm, next) (walk_cond vector) walk_body = Ok (d', asm', next')
      /\ dict_rel d' rest /\ plain asm'
      /\ Forall2 (fun e t => tm_of e = Some t) uE u
      /\ same_sf (to_record asm') (product (map frag_rec uE))
      /\ incl uE (usedE ++ dict_values d)
  | _ => True
  end.
Proof.
  intros Eb Hb. induction f as [|f IH]; intros d mp asm next used usedE Hrel Un La HF Hsf Hnf.
  - cbn [walk] in *. rewrite py_while0_S. cbn [walk_cond]. rewrite Eb. cbn [bind].
    assert (Hc : py_eq next (seq_upper rb) = codes_eqb (okey (pr_seq next)) b).
    { unfold py_eq, PyEq_rec. cbn [seq_upper mk_Seq pr_seq].
      rewrite (word_eqb_upper _ _ Un (upper_fold _)), okey_fold. now subst b. }
    rewrite Hc. destruct (codes_eqb (okey (pr_seq next)) b); [|contradiction].
    cbn [negb]. exists d, asm, next, usedE. split; [reflexivity|]. split; [exact Hrel|]. split; [exact La|]. split; [exact HF|]. split; [exact Hsf|]. apply incl_appl, incl_refl.
  - cbn [walk] in *. rewrite py_while0_S. cbn [walk_cond]. rewrite Eb. cbn [bind].
    assert (Hc : py_eq next (seq_upper rb) = codes_eqb (okey (pr_seq next)) b).
    { unfold py_eq, PyEq_rec. cbn [seq_upper mk_Seq pr_seq].
      rewrite (word_eqb_upper _ _ Un (upper_fold _)), okey_fold. now subst b. }
    rewrite Hc. destruct (codes_eqb (okey (pr_seq next)) b); cbn [negb].
    + exists d, asm, next, usedE. split; [reflexivity|]. split; [exact Hrel|]. split; [exact La|]. split; [exact HF|]. split; [exact Hsf|]. apply incl_appl, incl_refl.
    + pose proof (dict_pop_rel d mp next Hrel Un) as Hp.
      destruct (dpop (okey (pr_seq next)) mp) as [[t rest]|]; [|exact I].
      destruct Hp as (e & Ep & Ge & Te & Hr).
      destruct (valid_all e t Ge Te) as (r2 & r3 & E2 & Kd & E3 & P3 & L3).
      destruct (ent_target_record e t Ge Te) as (r3' & E3' & _ & Hsf3).
      assert (r3' = r3) by congruence. subst r3'.
      destruct (addm_seqrecords_rec asm r3 La L3) as (asm' & Ea & La' & Hrec').
      assert (Hbody : walk_body (d, asm, next) = Ok (dict_remove seq_keq d next, asm', seq_upper r2)).
      { unfold walk_body. rewrite Ep. cbn [bind]. rewrite E3. cbn [bind]. rewrite Ea. cbn [bind].
        rewrite E2. reflexivity. }
      rewrite Hbody.
      assert (Un' : upper_word (pr_seq (seq_upper r2))) by (cbn; apply upper_fold).
      assert (Kn : okey (pr_seq (seq_upper r2)) = mdown t) by (cbn; now rewrite okey_fold).
      destruct (dict_pop_in _ _ _ _ _ Ep) as [Hin Hincl].
      specialize (IH (dict_remove seq_keq d next) rest asm' (seq_upper r2) (used ++ [t]) (usedE ++ [e]) Hr Un' La').
      rewrite Kn in IH.
      assert (HF' : Forall2 (fun e t => tm_of e = Some t) (usedE ++ [e]) (used ++ [t]))
        by (apply Forall2_app; [exact HF|]; constructor; [exact Te|constructor]).
      assert (Hsf' : same_sf (to_record asm') (product (map frag_rec (usedE ++ [e]))))
        by (rewrite Hrec', map_app; cbn [map]; rewrite product_snoc; now apply same_sf_concat).
      specialize (IH HF' Hsf' Hnf).
      destruct (dwalk f b (mdown t) rest (used ++ [t])) as [u rest'|o|]; try exact I.
      destruct IH as (d' & asm2 & next' & uE & Ew & Hr' & Ka & HF2 & Hsf2 & Hi).
      exists d', asm2, next', uE. split; [exact Ew|]. split; [exact Hr'|]. split; [exact Ka|].
      split; [exact HF2|]. split; [exact Hsf2|].
      intros x Hx. specialize (Hi x Hx). apply in_app_or in Hi. destruct Hi as [Hi|Hi].
      { apply in_app_or in Hi. destruct Hi as [Hi|[<-|[]]]; apply in_or_app; [now left|now right]. }
      apply in_or_app. right. now apply Hincl.
Qed.

Lemma build_loop_incl : forall ms d d', py_for0 ms d map_body = Ok d' -> incl (dict_values d') (dict_values d ++ ms).
Proof.
  induction ms as [|e ms IH]; intros d d' H; cbn [py_for0] in H.
  - inversion H; subst. rewrite app_nil_r. apply incl_refl.
  - destruct (map_body e d) as [st'|] eqn:Hb; [|discriminate].
    assert (Hst : incl (dict_values st') (dict_values d ++ [e])).
    { unfold map_body in Hb. destruct (ent_overhang_start e) as [r|]; [|discriminate]. cbn [bind] in Hb.
      unfold dict_setdefault in Hb. destruct (dict_get seq_keq d (seq_upper r)) as [e0|].
      - destruct (negb (ent_is e0 e)).
        + destruct (ent_overhang_start e0); discriminate.
        + inversion Hb; subst. apply incl_appl, incl_refl.
      - destruct (negb (ent_is e e)); [destruct (ent_overhang_start e); discriminate|].
        inversion Hb; subst. unfold dict_values. rewrite map_app. cbn. apply incl_refl. }
    apply IH in H. intros x Hx. specialize (H x Hx). apply in_app_or in H. destruct H as [H|H].
    + specialize (Hst x H). apply in_app_or in Hst. destruct Hst as [Hs|[<-|[]]]; apply in_or_app; [now left|right; now left].
    + apply in_or_app. right. now right.
Qed.

(* THE PRODUCT RECORD. Whenever the model says a product is returned, the translated
   vector.assemble(...) returns a record whose sequence AND feature table are those of the
   annotation model: the fragments of the consumed modules, in chain order, then the vector's,
   concatenated (Annot.product) — each fragment the rotate-slice image of its plasmid's feature
   table plus the generated source feature naming it (Annot.fragment). The consumed modules are
   arguments of the call and their identities are the model's chain. *)
(* the second phase at the level of records *)
Lemma generate_phase_records vector mgr d' pre n up down fr :
  good_ent vector -> am_vector mgr = vector ->
  overhang_start (ent_cls vector) (ent_seq_w vector) true = Some up ->
  overhang_end (ent_cls vector) (ent_seq_w vector) true = Some down ->
  target (ent_cls vector) (ent_seq_w vector) true = Some fr ->
  dict_rel d' pre -> List.length pre = n ->
  match dwalk (S n) (okey up) (okey down) pre [] with
  | WChain u rest => exists prod ws uE,
      AssemblyManager_generate_assembly (S (S n)) mgr d' = Ok (prod, ws)
      /\ map ent_id uE = map mid u /\ incl uE (dict_values d')
      /\ pr_kind prod = KCircularRecord
      /\ same_sf (to_record prod) (product (map frag_rec (uE ++ [vector])))
  | _ => True
  end.
Proof.
  intros Gv Hmv Hu Hd Hf Hrel Hlen.
  pose proof (ent_queries vector Gv) as Q.
  destruct (typing (ent_cls vector) (ent_seq_w vector) true) as [mv| |] eqn:Htv.
  2,3: unfold overhang_start, with_match in Hu; rewrite Htv in Hu; discriminate.
  destruct Q as (r1 & r2 & r3 & up' & down' & fr' & Hu' & Hd' & Hf' & E1 & P1 & E2 & P2 & E3 & P3 & K3).
  assert (Hup : up' = up) by congruence. assert (Hdown : down' = down) by congruence. assert (Hfr : fr' = fr) by congruence.
  rewrite Hup in *. rewrite Hdown in *. rewrite Hfr in *. clear Hup Hdown Hfr Hu' Hd' Hf'.
  unfold AssemblyManager_generate_assembly. rewrite Hmv.
  rewrite E2. cbn [bind].
  change (py_while0 (S (S n)) ?st _ _)
    with (py_while0 (S (S n)) st (walk_cond vector) walk_body).
  assert (Un : upper_word (pr_seq (seq_upper r2))) by (cbn; apply upper_fold).
  assert (Kn : okey (pr_seq (seq_upper r2)) = okey down) by (cbn; now rewrite okey_fold, P2).
  pose proof (walk_loop_rec vector r1 (okey up) E1 (f_equal okey (eq_sym P1))
                (S n) d' pre (mk_SeqRecord1 (mk_Seq [])) (seq_upper r2) [] []
                Hrel Un (conj eq_refl eq_refl) (Forall2_nil _) (conj eq_refl eq_refl)) as WL.
  rewrite Kn in WL.
  assert (Hnf : dwalk (S n) (okey up) (okey down) pre [] <> WFuel)
    by (apply (walk_fuel codes_eqb codes_eqb_spec); lia).
  specialize (WL Hnf).
  destruct (dwalk (S n) (okey up) (okey down) pre []) as [u rest|o|]; try exact I.
  destruct WL as (d2 & asm' & next' & uE & Ew & Hrel2 & Ka & HF & Hsf & Hi).
  rewrite Ew. cbn [bind py_try finish].
  destruct (ent_target_record vector (TM (ent_id vector) (okey up) (okey down) fr) Gv) as (r3' & E3' & _ & Hsf3).
  { unfold tm_of, typed_module. now rewrite Hu, Hd, Hf. }
  assert (r3' = r3) by congruence. subst r3'.
  destruct (addm_seqrecords_rec asm' r3 Ka K3) as (prod & Ep & [Kp Ap] & Hrecp).
  assert (Hids_u : map ent_id uE = map mid u).
  { clear -HF. induction HF as [|e t uE u H0 H IH]; cbn; [reflexivity|]. now rewrite IH, (tm_id _ _ H0). }
  assert (Hprod : same_sf (to_record prod) (product (map frag_rec (uE ++ [vector]))))
    by (rewrite Hrecp, map_app; cbn [map]; rewrite product_snoc; now apply same_sf_concat).
  set (W := if dict_nonempty d2 then _ else _).
  assert (HW : exists ws, W = Ok ws) by (unfold W; destruct (dict_nonempty d2); eauto).
  destruct HW as [ws HW]. rewrite HW. cbn [bind]. rewrite E3. cbn [bind]. rewrite Ep. cbn [bind].
  rewrite CircularRecord_new_eq. unfold bio_CircularRecord_of. rewrite Ap. cbn [bind].
  eexists _, ws, uE. split; [reflexivity|]. split; [exact Hids_u|]. split; [exact Hi|].
  split; [reflexivity|]. exact Hprod.
Qed.

Theorem vector_assemble_records vector modules :
  good_ent vector -> Forall good_ent modules ->
  map ent_id modules = seq 0 (List.length modules) ->
  match assemble_raw (ent_cls vector) (ent_seq_w vector) (map raw_of modules) with
  | Product w used unused =>
    exists prod ws usedE,
      vector_assemble (S (S (List.length modules))) vector modules = Ok (prod, ws)
      /\ map ent_id usedE = used /\ incl usedE modules
      /\ pr_kind prod = KCircularRecord
      /\ same_sf (to_record prod) (product (map frag_rec (usedE ++ [vector])))
  | _ => True
  end.
Proof.
  intros Gv Gm Hids. unfold vector_assemble, assemble_raw, typed_vector.
  pose proof (ent_queries vector Gv) as Q.
  unfold AssemblyManager_init.
  destruct (typing (ent_cls vector) (ent_seq_w vector) true) as [mv| |] eqn:Htv.
  2,3: assert (Hn : overhang_start (ent_cls vector) (ent_seq_w vector) true = None)
         by (unfold overhang_start, with_match; now rewrite Htv); rewrite Hn; exact I.
  destruct Q as (r1 & r2 & r3 & up & down & fr & Hu & Hd & Hf & E1 & P1 & E2 & P2 & E3 & P3 & K3).
  rewrite Hu, Hd, Hf, E1. cbn [bind]. rewrite E2. cbn [bind vup vdown].
  assert (Hc : py_eq (seq_upper r1) (seq_upper r2) = codes_eqb (okey up) (okey down)).
  { unfold py_eq, PyEq_rec. cbn [seq_upper mk_Seq pr_seq]. now rewrite word_eqb_fold, P1, P2. }
  rewrite Hc. destruct (codes_eqb (okey up) (okey down)) eqn:Hvo; [exact I|].
  cbn [bind]. unfold py_addm at 1, PyAddM_list. cbn [bind].
  unfold AssemblyManager_generate_modules_map. cbn [am_modules].
  change (py_for0 modules [] _) with (py_for0 modules [] map_body).
  destruct (type_prefix (map raw_of modules) 0) as [pre complete] eqn:Htp.
  pose proof (build_loop modules 0 [] [] pre complete (Forall2_nil _) Gm Hids
                (fun t (H : In t []) => match H with end) Htp) as BL.
  destruct (dbuild_map pre []) as [mp'|[a b]] eqn:Hbm; [|exact I].
  destruct complete; [|exact I].
  destruct BL as (d' & Ed & Hrel). rewrite Ed. cbn [bind].
  pose proof (build_loop_incl modules [] d' Ed) as Hinc. cbn [dict_values map app] in Hinc.
  destruct (build_map_inl codes_eqb codes_eqb_spec pre [] mp' Hbm) as [Hmp Hnd].
  specialize (Hnd (NoDup_nil _)). cbn [app] in Hmp, Hnd. subst mp'.
  change (py_for0 (dict_keys d') tt _) with (py_for0 (map fst d') tt (rc_body d')).
  rewrite (rc_loop d' pre Hrel Hnd d' pre Hrel (fun t H => H)).
  unfold dna_assemble, assemble, assemble_with. cbn [vup vdown]. rewrite Hvo, Hbm.
  destruct (drc_clash pre pre) as [[a b]|]; [exact I|].
  cbn [bind].
  assert (Hlen : List.length pre = List.length modules)
    by (rewrite (type_prefix_length _ _ _ Htp); apply map_length).
  pose proof (generate_phase_records vector
                (mk_AssemblyManager vector modules (modules ++ [vector]) PyHeap.str_assembly PyHeap.str_assembly)
                d' pre (List.length modules) up down fr Gv eq_refl Hu Hd Hf Hrel Hlen) as GP.
  rewrite Hlen.
  destruct (dwalk (S (List.length modules)) (okey up) (okey down) pre []) as [u rest|o|]; try exact I.
  destruct GP as (prod & ws & uE & Eg & Hids_u & Hi & Kp & Hprod).
  cbn [finish]. exists prod, ws, uE. split; [exact Eg|]. split; [exact Hids_u|]. split; [|split; [exact Kp|exact Hprod]].
  intros x Hx. apply Hinc. exact (Hi x Hx).
Qed.
