(* ShapeTyping.v — what a class of the common shape reports, in terms of the pieces of
   the match: overhang texts, group 2, target, placeholder. *)
From MV Require Import Base RotLemmas Regex RegexLemmas Shape ShapeLemmas Typing TypingLemmas TotalLemmas.

Lemma slice_app_skip {A} (x w : list A) a b : slice (x ++ w) (length x + a) (length x + b) = slice w a b.
Proof.
  unfold slice. replace (length x + b - (length x + a)) with (b - a) by lia.
  rewrite skipn_app. rewrite skipn_all2 by lia. cbn. f_equal. f_equal. lia.
Qed.

Lemma slice_prefix {A} (y z : list A) : slice (y ++ z) 0 (length y) = y.
Proof. unfold slice. cbn [skipn]. rewrite Nat.sub_0_r, firstn_app, Nat.sub_diag, firstn_all. cbn. now rewrite app_nil_r. Qed.

Definition g2text (pc : pieces) : list letter := ta pc ++ trun pc ++ tb pc.

Lemma slice_at {A} (x y z : list A) a b : a = length x -> b = length x + length y -> slice (x ++ y ++ z) a b = y.
Proof.
  intros -> ->. replace (length x) with (length x + 0) at 1 by lia. rewrite slice_app_skip.
  replace (0 + length y) with (length y) by lia. apply slice_prefix.
Qed.

Lemma pieces_slices pc rest :
  let W := pieces_text pc ++ rest in
  slice W (p1 pc) (p2 pc) = t1 pc /\ slice W (p2 pc) (q3 pc) = g2text pc /\ slice W (q3 pc) (q4 pc) = t3 pc /\
  slice W 0 (length (pieces_text pc)) = pieces_text pc.
Proof.
  cbv zeta. unfold pieces_text, p1, p2, q3, q4, g2text. repeat split.
  - transitivity (slice (tpre pc ++ t1 pc ++ (ta pc ++ trun pc ++ tb pc ++ t3 pc ++ tpost pc ++ rest))
                        (length (tpre pc)) (length (tpre pc) + length (t1 pc))).
    + f_equal. now rewrite <- !app_assoc.
    + now apply slice_at.
  - transitivity (slice ((tpre pc ++ t1 pc) ++ (ta pc ++ trun pc ++ tb pc) ++ (t3 pc ++ tpost pc ++ rest))
                        (length (tpre pc) + length (t1 pc))
                        (length (tpre pc) + length (t1 pc) + length (ta pc) + length (trun pc) + length (tb pc))).
    + f_equal. now rewrite <- !app_assoc.
    + apply slice_at; rewrite !app_length; lia.
  - transitivity (slice ((tpre pc ++ t1 pc ++ ta pc ++ trun pc ++ tb pc) ++ t3 pc ++ (tpost pc ++ rest))
                        (length (tpre pc) + length (t1 pc) + length (ta pc) + length (trun pc) + length (tb pc))
                        (length (tpre pc) + length (t1 pc) + length (ta pc) + length (trun pc) + length (tb pc) + length (t3 pc))).
    + f_equal. now rewrite <- !app_assoc.
    + apply slice_at; rewrite !app_length; lia.
  - apply slice_prefix.
Qed.

(* the groups of an accepted record are the pieces of the match *)
Theorem shape_groups c sh s m : cpat c = shape_pat sh -> typing c s true = Valid m ->
  exists pc rest, window s (mstart m) = pieces_text pc ++ rest /\ pieces_ok sh pc /\
    mstart m < length s /\ mend m = length (pieces_text pc) + mstart m /\
    group m s 0 = Some (pieces_text pc) /\ group m s 1 = Some (t1 pc) /\
    group m s 2 = Some (g2text pc) /\ group m s 3 = Some (t3 pc) /\
    cut_span m = Some (p1 pc + mstart m, q3 pc + mstart m).
Proof.
  intros Hp Ht. destruct (shape_spans c sh s m Hp Ht) as (pc & Hg & Hok & He & Htxt & Hle & Hi).
  set (i := mstart m) in *. set (W := window s i).
  exists pc, (skipn (length (pieces_text pc)) W).
  assert (HW : W = pieces_text pc ++ skipn (length (pieces_text pc)) W).
  { rewrite <- Htxt at 1. now rewrite firstn_skipn. }
  split; [exact HW|]. split; [exact Hok|]. split; [exact Hi|]. split; [exact He|].
  pose proof (typing_valid_search c s m Ht) as Hs.
  destruct (pieces_slices pc (skipn (length (pieces_text pc)) W)) as (S1 & S2 & S3 & S0).
  cbv zeta in *. rewrite <- HW in *.
  assert (Hq : p1 pc <= p2 pc /\ p2 pc <= q3 pc /\ q3 pc <= q4 pc /\ q4 pc <= length (pieces_text pc)).
  { cbv [p1 p2 q3 q4 pieces_text]. rewrite !app_length. lia. }
  assert (G : forall g a b, span m g = Some (a + i, b + i) -> a <= b -> b <= length s ->
                            group m s g = Some (slice W a b)).
  { intros g a b Hsp Hab Hb. destruct (search_group_text _ _ _ _ _ _ _ _ _ Hs Hsp) as (_ & _ & _ & Hgt).
    rewrite Hgt. cbn [data_of]. f_equal. unfold W. now apply slice_window. }
  assert (Sp : forall g, span m (S g) = find_span (S g) (mgroups m)) by reflexivity.
  repeat split.
  - rewrite <- S0. apply (G 0 0 (length (pieces_text pc))); [|lia|lia]. cbn [span]. fold i. rewrite He. reflexivity.
  - rewrite <- S1. apply (G 1); [|lia|lia]. rewrite Sp, Hg. reflexivity.
  - rewrite <- S2. apply (G 2); [|lia|lia]. rewrite Sp, Hg. reflexivity.
  - rewrite <- S3. apply (G 3); [|lia|lia]. rewrite Sp, Hg. reflexivity.
  - unfold cut_span. rewrite !Sp, Hg. reflexivity.
Qed.

(* ---------- overhangs, target and placeholder in terms of the pieces --------------- *)

Lemma rotl_app {A} (x y : list A) : rotl (Z.of_nat (length x)) (x ++ y) = y ++ x.
Proof.
  destruct y as [|b y].
  - rewrite app_nil_r. cbn. unfold rotl.
    replace (- Z.of_nat (length x))%Z with ((-1) * Z.of_nat (length x))%Z by lia. apply rotr_mul_len.
  - destruct x as [|a x]; [cbn [length app]; unfold rotl; change (- Z.of_nat 0)%Z with 0%Z; rewrite rotr_0; now rewrite app_nil_r|].
    unfold rotl, rotr. set (n := length ((a :: x) ++ b :: y)).
    assert (Hn : n = length (a :: x) + length (b :: y)) by (unfold n; now rewrite app_length).
    assert (Hi : ((- Z.of_nat (length (a :: x))) mod Z.of_nat n = Z.of_nat (length (b :: y)))%Z).
    { apply (zmod_canon _ _ _ (-1)%Z); cbn [length] in *; lia. }
    rewrite Hi, Nat2Z.id. replace (n - length (b :: y)) with (length (a :: x)) by lia.
    rewrite skipn_app, firstn_app, skipn_all, firstn_all, Nat.sub_diag. cbn [skipn firstn]. now rewrite app_nil_r.
Qed.

Definition role_pick {A} (r : role) (a b : A) : A := match r with RModule => a | RVector => b end.

Theorem shape_observe c sh s m : cpat c = shape_pat sh -> typing c s true = Valid m ->
  exists pc rest, window s (mstart m) = pieces_text pc ++ rest /\ pieces_ok sh pc /\ mstart m < length s /\
    mend m = length (pieces_text pc) + mstart m /\
    observe c s =
      (true,
       Some (role_pick (crole c) (t1 pc) (t3 pc)),
       Some (role_pick (crole c) (t3 pc) (t1 pc)),
       Some (role_pick (crole c) (t1 pc ++ g2text pc) (t3 pc ++ tpost pc ++ rest ++ tpre pc)),
       Some (t1 pc ++ g2text pc)).
Proof.
  intros Hp Ht.
  destruct (shape_groups c sh s m Hp Ht) as (pc & rest & HW & Hok & Hi & He & G0 & G1 & G2 & G3 & Hc).
  exists pc, rest. split; [exact HW|]. split; [exact Hok|]. split; [exact Hi|]. split; [exact He|].
  unfold observe, is_valid, overhang_start, overhang_end, target, placeholder, with_match. rewrite Ht.
  rewrite Hc.
  assert (Hrot : rotl (Z.of_nat (p1 pc + mstart m)) s =
                 (t1 pc ++ g2text pc) ++ (t3 pc ++ tpost pc ++ rest ++ tpre pc)).
  { rewrite rotl_add_nat, <- (window_is_rotl s (mstart m) Hi), HW. unfold p1.
    replace (pieces_text pc ++ rest) with (tpre pc ++ ((t1 pc ++ g2text pc) ++ t3 pc ++ tpost pc ++ rest))
      by (unfold pieces_text, g2text; now rewrite <- !app_assoc).
    rewrite rotl_app. now rewrite <- !app_assoc. }
  assert (Hlen : q3 pc + mstart m - (p1 pc + mstart m) = length (t1 pc ++ g2text pc)).
  { cbv [q3 p2 p1 g2text]. rewrite !app_length. lia. }
  rewrite Hrot, Hlen. rewrite firstn_app, Nat.sub_diag, firstn_all. cbn [firstn]. rewrite app_nil_r.
  rewrite skipn_app, skipn_all, Nat.sub_diag. cbn [skipn app].
  destruct (crole c); cbn [role_pick]; rewrite ?G1, ?G2, ?G3; reflexivity.
Qed.

(* C04: a vector's placeholder is one contiguous stretch, and placeholder + target is the
   whole circle read from the placeholder's first nucleotide: every nucleotide exactly once.
   A module's target is overhang + body, contiguous. *)
Theorem placeholder_target_cover c sh s : cpat c = shape_pat sh -> crole c = RVector ->
  is_valid c s true = true ->
  exists ph tg a, placeholder c s true = Some ph /\ target c s true = Some tg /\
                  ph ++ tg = rotl (Z.of_nat a) s /\ length ph + length tg = length s.
Proof.
  intros Hp Hr Hv. unfold is_valid in Hv. destruct (typing c s true) as [m| |] eqn:Ht; try discriminate.
  destruct (shape_observe c sh s m Hp Ht) as (pc & rest & HW & Hok & Hi & _ & Ho).
  unfold observe in Ho. rewrite Hr in Ho. cbn [role_pick] in Ho.
  assert (Hph : placeholder c s true = Some (t1 pc ++ g2text pc)) by (apply (f_equal snd) in Ho; exact Ho).
  assert (Htg : target c s true = Some (t3 pc ++ tpost pc ++ rest ++ tpre pc))
    by (apply (f_equal (fun x => snd (fst x))) in Ho; exact Ho).
  exists (t1 pc ++ g2text pc), (t3 pc ++ tpost pc ++ rest ++ tpre pc), (p1 pc + mstart m).
  split; [exact Hph|]. split; [exact Htg|].
  assert (Hrot : rotl (Z.of_nat (p1 pc + mstart m)) s =
                 (t1 pc ++ g2text pc) ++ (t3 pc ++ tpost pc ++ rest ++ tpre pc)).
  { rewrite rotl_add_nat, <- (window_is_rotl s (mstart m) Hi), HW. unfold p1.
    replace (pieces_text pc ++ rest) with (tpre pc ++ ((t1 pc ++ g2text pc) ++ t3 pc ++ tpost pc ++ rest))
      by (unfold pieces_text, g2text; now rewrite <- !app_assoc).
    rewrite rotl_app. now rewrite <- !app_assoc. }
  split; [now rewrite Hrot|].
  rewrite <- app_length, <- Hrot. apply rotl_length.
Qed.

(* ---------- the two cuts (C04) ------------------------------------------------------ *)

(* the circle read from position a (any natural number, taken modulo the length) carries
   the word w at its head, case-blind *)
Definition site_at (w : list code) (s : list letter) (a : nat) : Prop :=
  occurs_here w (rotl (Z.of_nat a) s) = true.

(* p is a cut position of e on the circle s: the index of the first base after the cut on
   the top strand — downstream of a forward site, upstream of a reverse site *)
Definition cut_at (e : enzyme) (s : list letter) (p : nat) : Prop :=
  (exists a, site_at (esite e) s a /\ p = a + length (esite e) + eoff e) \/
  (exists a, site_at (rc_codes (esite e)) s a /\ a = p + eoff e + eovh e).

Lemma occurs_here_app w : forall u v, occurs_here w u = true -> occurs_here w (u ++ v) = true.
Proof.
  induction w as [|x w IH]; intros u v H; [reflexivity|]. destruct u as [|y u]; [discriminate|].
  cbn in *. apply andb_prop in H. destruct H as [H1 H2]. rewrite H1. cbn. now apply IH.
Qed.

Lemma atoms_ok_skipn k : forall cs t, atoms_ok cs t -> atoms_ok (skipn k cs) (skipn k t).
Proof.
  induction k as [|k IH]; intros cs t H; [exact H|]. destruct H; cbn; [constructor|]. now apply IH.
Qed.

Lemma lits_occurs w : forall cs t, lits_prefix w cs = true -> atoms_ok cs t -> occurs_here w t = true.
Proof.
  induction w as [|x w IH]; intros cs t Hl Ha; [reflexivity|].
  destruct Ha as [|c y cs t Hc Ha]; [discriminate|]. cbn in Hl. apply andb_prop in Hl. destruct Hl as [Hx Hl].
  cbn. rewrite (IH _ _ Hl Ha), Bool.andb_true_r.
  unfold cset_is in Hx. destruct c as [|z [|? ?]]; try discriminate.
  cbn in Hc. rewrite Bool.orb_false_r in Hc.
  destruct x, z; try discriminate Hx; destruct (lcode y); try discriminate Hc; reflexivity.
Qed.

Lemma rotl_split {A} (W : list A) k : k <= length W -> rotl (Z.of_nat k) W = skipn k W ++ firstn k W.
Proof.
  intros Hk. rewrite <- (firstn_skipn k W) at 1.
  replace k with (length (firstn k W)) at 1 by (rewrite firstn_length; lia). apply rotl_app.
Qed.

Lemma site_at_window w s i k : i < length s -> k <= length s ->
  occurs_here w (skipn k (window s i)) = true -> site_at w s (k + i).
Proof.
  intros Hi Hk H. unfold site_at. rewrite rotl_add_nat, <- (window_is_rotl s i Hi).
  rewrite rotl_split by (rewrite window_length by lia; lia). now apply occurs_here_app.
Qed.

(* skipping into a concatenation *)
Lemma skipn_app_le {A} (x y : list A) k : k <= length x -> skipn k (x ++ y) = skipn k x ++ y.
Proof. intros H. rewrite skipn_app. replace (k - length x) with 0 by lia. reflexivity. Qed.

Lemma skipn_app_ge {A} (x y : list A) k : skipn (length x + k) (x ++ y) = skipn k y.
Proof. rewrite skipn_app, skipn_all2 by lia. cbn. f_equal. lia. Qed.

Theorem frames_sound c sh s m :
  cpat c = shape_pat sh ->
  frames (esite (cenz c)) (rc_codes (esite (cenz c))) (eoff (cenz c)) (eovh (cenz c)) sh = true ->
  typing c s true = Valid m ->
  exists pc rest, window s (mstart m) = pieces_text pc ++ rest /\ pieces_ok sh pc /\
    length (t1 pc) = eovh (cenz c) /\ length (t3 pc) = eovh (cenz c) /\
    span m 1 = Some (p1 pc + mstart m, p2 pc + mstart m) /\
    span m 3 = Some (q3 pc + mstart m, q4 pc + mstart m) /\
    cut_at (cenz c) s (p1 pc + mstart m) /\ cut_at (cenz c) s (q3 pc + mstart m).
Proof.
  intros Hp Hf Ht.
  destruct (shape_spans c sh s m Hp Ht) as (pc & Hg & Hok & He & Htxt & Hle & Hi).
  set (i := mstart m) in *. set (W := window s i).
  assert (HW : W = pieces_text pc ++ skipn (length (pieces_text pc)) W).
  { rewrite <- Htxt at 1. now rewrite firstn_skipn. }
  set (rest := skipn (length (pieces_text pc)) W) in *.
  exists pc, rest. split; [exact HW|]. split; [exact Hok|].
  destruct Hok as (Hpre & Hg1 & Ha & Hrun & Hb & Hg3 & Hpost).
  unfold frames in Hf. repeat (apply andb_prop in Hf; destruct Hf as [Hf ?]).
  match goal with H : Nat.eqb (length (sg1 sh)) _ = true |- _ => apply Nat.eqb_eq in H; rename H into L1 end.
  match goal with H : Nat.eqb (length (sg3 sh)) _ = true |- _ => apply Nat.eqb_eq in H; rename H into L3 end.
  pose proof (atoms_ok_length _ _ Hpre) as Lpre. pose proof (atoms_ok_length _ _ Hg1) as Lg1.
  pose proof (atoms_ok_length _ _ Ha) as La. pose proof (atoms_ok_length _ _ Hb) as Lb.
  pose proof (atoms_ok_length _ _ Hg3) as Lg3. pose proof (atoms_ok_length _ _ Hpost) as Lpost.
  split; [lia|]. split; [lia|].
  assert (Sp : forall g, span m (S g) = find_span (S g) (mgroups m)) by reflexivity.
  split; [rewrite Sp, Hg; reflexivity|]. split; [rewrite Sp, Hg; reflexivity|].
  assert (Hlen : length (pieces_text pc) =
                 length (tpre pc) + length (t1 pc) + length (ta pc) + length (trun pc) + length (tb pc) + length (t3 pc) + length (tpost pc))
    by (unfold pieces_text; rewrite !app_length; lia).
  assert (E1 : W = tpre pc ++ (t1 pc ++ ta pc ++ trun pc ++ tb pc ++ t3 pc ++ tpost pc ++ rest))
    by (rewrite HW; unfold pieces_text; now rewrite <- !app_assoc).
  assert (E2 : W = (tpre pc ++ t1 pc) ++ ta pc ++ (trun pc ++ tb pc ++ t3 pc ++ tpost pc ++ rest))
    by (rewrite HW; unfold pieces_text; now rewrite <- !app_assoc).
  assert (E3 : W = (tpre pc ++ t1 pc ++ ta pc ++ trun pc) ++ tb pc ++ (t3 pc ++ tpost pc ++ rest))
    by (rewrite HW; unfold pieces_text; now rewrite <- !app_assoc).
  assert (E4 : W = (tpre pc ++ t1 pc ++ ta pc ++ trun pc ++ tb pc ++ t3 pc) ++ tpost pc ++ rest)
    by (rewrite HW; unfold pieces_text; now rewrite <- !app_assoc).
  split.
  - (* upstream cut at the start of group 1 *)
    match goal with Hx : (word_before_end _ _ (spre sh) || word_after _ _ (sa sh)) = true |- _ =>
      apply Bool.orb_prop in Hx; destruct Hx as [Hx|Hx]; rename Hx into HX end.
    + left. unfold word_before_end in HX. apply andb_prop in HX. destruct HX as [Hl Hw]. apply Nat.leb_le in Hl.
      exists (length (spre sh) - eoff (cenz c) - length (esite (cenz c)) + i). split.
      * apply site_at_window; [exact Hi|lia|]. fold W. rewrite E1.
        rewrite skipn_app_le by lia. apply occurs_here_app.
        eapply lits_occurs; [exact Hw|]. now apply atoms_ok_skipn.
      * unfold p1. lia.
    + right. unfold word_after in HX. apply andb_prop in HX. destruct HX as [Hl Hw]. apply Nat.leb_le in Hl.
      exists (length (tpre pc ++ t1 pc) + eoff (cenz c) + i). split.
      * apply site_at_window; [exact Hi|rewrite app_length; lia|]. fold W. rewrite E2.
        rewrite skipn_app_ge. rewrite skipn_app_le by lia. apply occurs_here_app.
        eapply lits_occurs; [exact Hw|]. now apply atoms_ok_skipn.
      * rewrite app_length. unfold p1. lia.
  - (* downstream cut at the start of group 3 *)
    match goal with Hx : (word_before_end _ _ (sb sh) || word_after _ _ (spost sh)) = true |- _ =>
      apply Bool.orb_prop in Hx; destruct Hx as [Hx|Hx]; rename Hx into HX end.
    + left. unfold word_before_end in HX. apply andb_prop in HX. destruct HX as [Hl Hw]. apply Nat.leb_le in Hl.
      exists (length (tpre pc ++ t1 pc ++ ta pc ++ trun pc) + (length (sb sh) - eoff (cenz c) - length (esite (cenz c))) + i). split.
      * apply site_at_window; [exact Hi|rewrite !app_length; lia|]. fold W. rewrite E3.
        rewrite skipn_app_ge. rewrite skipn_app_le by lia. apply occurs_here_app.
        eapply lits_occurs; [exact Hw|]. now apply atoms_ok_skipn.
      * rewrite !app_length. cbv [q3 p2 p1]. lia.
    + right. unfold word_after in HX. apply andb_prop in HX. destruct HX as [Hl Hw]. apply Nat.leb_le in Hl.
      exists (length (tpre pc ++ t1 pc ++ ta pc ++ trun pc ++ tb pc ++ t3 pc) + eoff (cenz c) + i). split.
      * apply site_at_window; [exact Hi|rewrite !app_length; lia|]. fold W. rewrite E4.
        rewrite skipn_app_ge. rewrite skipn_app_le by lia. apply occurs_here_app.
        eapply lits_occurs; [exact Hw|]. now apply atoms_ok_skipn.
      * rewrite !app_length. cbv [q3 p2 p1]. lia.
Qed.
