(* Citations.v — the citation handling of AssemblyManager (core/_assembly.py:31-45,
   75-94, repaired control flow): temporary dereferencing of /citation qualifiers of
   the inputs, re-referencing in the product, restoration of the inputs on every
   exit. References are an abstract type with decidable equality (nat: Biopython's
   Reference.__eq__ compares contents). Executable definitions only. *)
From MV Require Import Base.

Inductive cit :=
| CIdx (i : nat)          (* the string "[i]" *)
| CRef (r : nat).         (* a Reference object (while dereferenced) *)

Record cfeat := CF { fkept : bool;            (* lies inside the fragment retained from its record *)
                     fcits : list cit }.
Record crec := CR { crefs : list nat;         (* annotations["references"], absent = [] *)
                    cfeats : list cfeat }.

(* references[i - 1] with Python indexing: "[0]" reads the last element *)
Definition py_get (refs : list nat) (i : nat) : option nat :=
  match i with
  | 0 => match refs with [] => None | _ => Some (last refs 0) end
  | S k => nth_error refs k
  end.

Definition deref_cit (refs : list nat) (c : cit) : option cit :=
  match c with
  | CIdx i => option_map CRef (py_get refs i)
  | CRef _ => None                      (* not a string: the regex match raises *)
  end.

(* _deref_citations, interrupted after `fuel` assignments (an exception raised by
   the code itself also stops it: fuel drops to 0) *)
Fixpoint deref_cits (refs : list nat) (fuel : nat) (cs : list cit) {struct cs} : nat * list cit :=
  match cs with
  | [] => (fuel, [])
  | c :: r =>
    match fuel with
    | 0 => (0, cs)
    | S k =>
      match deref_cit refs c with
      | None => (0, cs)
      | Some c' => let (k', r') := deref_cits refs k r in (k', c' :: r')
      end
    end
  end.

Fixpoint deref_feats (refs : list nat) (fuel : nat) (fs : list cfeat) : nat * list cfeat :=
  match fs with
  | [] => (fuel, [])
  | f :: r =>
    let (k, cs) := deref_cits refs fuel (fcits f) in
    let (k', r') := deref_feats refs k r in
    (k', CF (fkept f) cs :: r')
  end.

Fixpoint deref_store (fuel : nat) (s : list crec) : nat * list crec :=
  match s with
  | [] => (fuel, [])
  | x :: r =>
    let (k, fs) := deref_feats (crefs x) fuel (cfeats x) in
    let (k', r') := deref_store k r in
    (k', CR (crefs x) fs :: r')
  end.

(* the saved citation lists and their restoration (the finally block) *)
Definition save (s : list crec) : list (list (list cit)) := map (fun x => map fcits (cfeats x)) s.

Fixpoint restore_feats (sv : list (list cit)) (fs : list cfeat) : list cfeat :=
  match sv, fs with
  | cs :: sv', f :: fs' => CF (fkept f) cs :: restore_feats sv' fs'
  | _, _ => fs
  end.

Fixpoint restore (sv : list (list (list cit))) (s : list crec) : list crec :=
  match sv, s with
  | v :: sv', x :: s' => CR (crefs x) (restore_feats v (cfeats x)) :: restore sv' s'
  | _, _ => s
  end.

(* the inputs after assemble(), whatever happened after `fuel` assignments *)
Definition inputs_after (fuel : nat) (s : list crec) : list crec :=
  restore (save s) (snd (deref_store fuel s)).

(* ---------- the product ---------------------------------------------------- *)

Fixpoint index_of (r : nat) (l : list nat) : option nat :=
  match l with
  | [] => None
  | x :: t => if Nat.eqb x r then Some 0 else option_map S (index_of r t)
  end.

(* _ref_citations, one citation: append when absent, 1-based index of the first equal *)
Definition ref_one (refs : list nat) (r : nat) : list nat * nat :=
  match index_of r refs with
  | Some k => (refs, S k)
  | None => (refs ++ [r], S (length refs))
  end.

Fixpoint ref_cits (refs : list nat) (rs : list nat) : list nat * list nat :=
  match rs with
  | [] => (refs, [])
  | r :: t => let (refs1, i) := ref_one refs r in
              let (refs2, is_) := ref_cits refs1 t in (refs2, i :: is_)
  end.

Fixpoint ref_feats (refs : list nat) (fs : list (list nat)) : list nat * list (list nat) :=
  match fs with
  | [] => (refs, [])
  | f :: t => let (refs1, is_) := ref_cits refs f in
              let (refs2, r) := ref_feats refs1 t in (refs2, is_ :: r)
  end.

(* what the retained features of the inputs cite, in product order: the elements are
   given in chain order (modules, then the vector) *)
Definition cited (refs : list nat) (f : cfeat) : option (list nat) :=
  fold_right (fun c acc => match c, acc with
                           | CIdx i, Some l => option_map (fun r => r :: l) (py_get refs i)
                           | _, _ => None end) (Some []) (fcits f).

Fixpoint all_some {A} (l : list (option A)) : option (list A) :=
  match l with
  | [] => Some []
  | Some x :: r => option_map (cons x) (all_some r)
  | None :: _ => None
  end.

Definition product_cited (s : list crec) : option (list (list nat)) :=
  all_some (concat (map (fun x => map (cited (crefs x)) (filter fkept (cfeats x))) s)).

(* (annotations["references"] of the product, citation indices of its inherited features) *)
Definition product_citations (s : list crec) : option (list nat * list (list nat)) :=
  option_map (ref_feats []) (product_cited s).
