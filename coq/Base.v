(* Base.v — L0 of the model: IUPAC letters, complement, reverse complement,
   rotation of lists (CircularRecord.__rshift__/__lshift__ on the sequence
   and on per-letter annotation tracks), one-turn windows on the doubled word.
   Executable definitions only; proofs live in the *Lemmas.v files. *)
From Coq Require Export List Arith ZArith Bool Lia.
Export ListNotations.

(* ---------- letters -------------------------------------------------- *)

Inductive code := cA|cC|cG|cT|cR|cY|cS|cW|cK|cM|cB|cD|cH|cV|cN.

(* a Record, not a pair: avoids delta-mismatches in rewrite *)
Record letter := L { lcode : code; lupper : bool }.

Definition code_eqb (a b : code) : bool :=
  match a, b with
  | cA,cA|cC,cC|cG,cG|cT,cT|cR,cR|cY,cY|cS,cS|cW,cW
  | cK,cK|cM,cM|cB,cB|cD,cD|cH,cH|cV,cV|cN,cN => true
  | _, _ => false
  end.

Definition letter_eqb (a b : letter) : bool :=
  code_eqb (lcode a) (lcode b) && Bool.eqb (lupper a) (lupper b).

(* Bio.Seq complement table (IUPAC ambiguous DNA) *)
Definition compl (c : code) : code :=
  match c with
  | cA => cT | cT => cA | cC => cG | cG => cC
  | cR => cY | cY => cR | cS => cS | cW => cW
  | cK => cM | cM => cK | cB => cV | cV => cB
  | cD => cH | cH => cD | cN => cN
  end.

Definition compl_l (l : letter) : letter := L (compl (lcode l)) (lupper l).

Definition rc (s : list letter) : list letter := rev (map compl_l s).

Definition rc_codes (w : list code) : list code := rev (map compl w).

Fixpoint codes_eqb (a b : list code) : bool :=
  match a, b with
  | [], [] => true
  | x :: a', y :: b' => code_eqb x y && codes_eqb a' b'
  | _, _ => false
  end.

(* case folding: str.upper() *)
Definition upper_l (l : letter) : letter := L (lcode l) true.
Definition fold_case (s : list letter) : list letter := map upper_l s.

(* equality of words modulo case *)
Fixpoint ci_eqb (a b : list letter) : bool :=
  match a, b with
  | [], [] => true
  | x :: a', y :: b' => code_eqb (lcode x) (lcode y) && ci_eqb a' b'
  | _, _ => false
  end.

Fixpoint word_eqb (a b : list letter) : bool :=
  match a, b with
  | [], [] => true
  | x :: a', y :: b' => letter_eqb x y && word_eqb a' b'
  | _, _ => false
  end.

(* ---------- rotation ------------------------------------------------- *)

Section Rot.
  Context {A : Type}.

  (* record.py: index %= len; newseq = seq[-index:] + seq[:-index] *)
  Definition rotr (k : Z) (s : list A) : list A :=
    let n := length s in
    let i := Z.to_nat (k mod Z.of_nat n) in
    skipn (n - i) s ++ firstn (n - i) s.

  (* record.py: self << index  ==  self >> (-index % len) *)
  Definition rotl (k : Z) (s : list A) : list A := rotr (- k) s.

  (* the pinned code rotated per-letter annotations with v[index:] + v[:index] *)
  Definition rot_track_pinned (k : Z) (v : list A) : list A :=
    let n := length v in
    let i := Z.to_nat (k mod Z.of_nat n) in
    skipn i v ++ firstn i v.

  (* one-turn window of the doubled word starting at i *)
  Definition window (s : list A) (i : nat) : list A :=
    firstn (length s) (skipn i (s ++ s)).

  (* Python slice s[a:b] for 0 <= a, b (clamped by firstn/skipn) *)
  Definition slice (s : list A) (a b : nat) : list A := firstn (b - a) (skipn a s).
End Rot.
