(* SrcRun.v — running vector.assemble as regenerated from the source (Gen/Src.v, heap style) on
   the inputs of the correspondence cases and comparing everything the implementation's product
   shows: sequence, identifiers, ordered feature table with citation qualifiers, reference list,
   the other annotations including the comment block, the unused modules — or the class of the
   exception — and that the inputs read afterwards as before.  Depends on the generated code and
   the object model only (no proof file), so that it still runs when an equivalence is broken.
   No proofs here. *)
From MV Require Import Base Record Regex Typing Assembly Pipeline Py PyObj PyHeap Glue.
From MV.Gen Require Import Src.
From Coq Require Import String.
Local Open Scope Z_scope.

Definition cline_eqb (a b : cline) : bool :=
  match a, b with
  | LGenerated, LGenerated => true
  | LVector i, LVector j => Nat.eqb i j
  | LModules i, LModules j => list_eqb Nat.eqb i j
  | _, _ => false
  end.
Definition aval_eqb' (a b : aval) : bool :=
  match a, b with
  | AStr s, AStr t => String.eqb s t
  | AComment l, AComment m => list_eqb cline_eqb l m
  | _, _ => false
  end.
Definition annots_eqb (a b : annots) : bool :=
  option_eqb String.eqb (an_topology a) (an_topology b)
  && option_eqb qcits_eqb (an_references a) (an_references b)
  && list_eqb (fun x y => String.eqb (fst x) (fst y) && aval_eqb' (snd x) (snd y)) (an_other a) (an_other b).
Definition kind_eqb (a b : reckind) : bool :=
  match a, b with KSeq, KSeq | KSeqRecord, KSeqRecord | KCircularRecord, KCircularRecord => true | _, _ => false end.
Definition pyrecord_eqb (a b : pyrecord) : bool :=
  kind_eqb (pr_kind a) (pr_kind b) && word_eqb (pr_seq a) (pr_seq b) && Nat.eqb (pr_id a) (pr_id b)
  && list_eqb feature_eqb (pr_features a) (pr_features b) && annots_eqb (pr_annotations a) (pr_annotations b)
  && list_eqb (list_eqb Z.eqb) (pr_letter_annotations a) (pr_letter_annotations b) && Nat.eqb (pr_name a) (pr_name b).

(* what the implementation did *)
Inductive run_obs :=
| RProduct (p : pyrecord) (unused : list nat)   (* the product, the identities of the unused modules *)
| RError (name : string).                       (* the class of the exception *)

Definition exc_name (e : pyexc) : string :=
  match e with
  | XInvalidSequence | XIllegalSite => "invalid"
  | XDuplicateModules _ _ => "duplicate"
  | XMissingModule _ => "missing"
  | XKeyError _ => "KeyError"
  | XIndexError => "IndexError"
  | XTypeError => "TypeError"
  | XValueError => "ValueError"
  | XZeroDivisionError => "ZeroDivisionError"
  | XRuntimeError => "RuntimeError"
  | XNotImplementedError => "NotImplementedError"
  | XOutOfFuel => "OutOfFuel"
  | XDangling => "Dangling"
  end.

Definition unused_ids (ws : list pywarning) : list nat :=
  List.concat (map (fun w => match w with WUnusedModules ids => ids end) ws).

Definition inputs_unchanged (h : heap) (es : list entity) : bool :=
  forallb (fun e => option_eqb pyrecord_eqb (heap_get h (ent_id e)) (heap_get (heap_of es) (ent_id e))) es.

Definition src_run_check (c : entity * list entity * list (string * nat) * run_obs) : bool :=
  let '(v, ms, kw, o) := c in
  let '(r, h) := run_assemble (S (S (List.length ms))) v ms kw in
  inputs_unchanged h (v :: ms) &&
  match r, o with
  | Ok (p, ws), RProduct p' unused => pyrecord_eqb p p' && list_eqb Nat.eqb (nat_sort (unused_ids ws)) (nat_sort unused)
  | Err e, RError n => String.eqb (exc_name e) n
  | _, _ => false
  end.
