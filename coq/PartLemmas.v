(* PartLemmas.v — a signature-typed class accepts exactly the records its signature-free
   class accepts with overhangs matching the signature (C05). *)
From MV Require Import Base RotLemmas Regex RegexLemmas Shape ShapeLemmas Typing TypingLemmas TotalLemmas ShapeTyping.

(* ---------- refinement of shapes ---------------------------------------------------- *)

Definition csub (c d : cset) : Prop := forall x, cmatch c x = true -> cmatch d x = true.

Definition shape_sub (P G : shape) : Prop :=
  spre P = spre G /\ sa P = sa G /\ slazy P = slazy G /\ sstar P = sstar G /\ sb P = sb G /\ spost P = spost G /\
  Forall2 csub (sg1 P) (sg1 G) /\ Forall2 csub (sg3 P) (sg3 G).

Lemma atoms_ok_mono cs ds t : Forall2 csub cs ds -> atoms_ok cs t -> atoms_ok ds t.
Proof.
  intros H. revert t. induction H as [|c d cs ds Hcd H IH]; intros t Ha; inversion Ha; subst; constructor.
  - now apply Hcd.
  - now apply IH.
Qed.

Lemma forall2_length {A B} (R : A -> B -> Prop) l l' : Forall2 R l l' -> length l = length l'.
Proof. induction 1; cbn; congruence. Qed.

Lemma pieces_mono P G pc : shape_sub P G -> pieces_ok P pc -> pieces_ok G pc.
Proof.
  intros (E1 & E2 & E3 & E4 & E5 & E6 & S1 & S3) (H1 & H2 & H3 & H4 & H5 & H6 & H7).
  unfold pieces_ok. rewrite <- E1, <- E2, <- E4, <- E5, <- E6.
  split. { exact H1. } split. { apply (atoms_ok_mono (sg1 P) (sg1 G)); assumption. }
  split. { exact H3. } split. { exact H4. } split. { exact H5. }
  split. { apply (atoms_ok_mono (sg3 P) (sg3 G)); assumption. } exact H7.
Qed.

(* ---------- completeness for the shape ---------------------------------------------- *)

Lemma dm_of_atoms cs : forall t r t2 ls, atoms_ok cs t -> dm r t2 ls ->
  dm (atoms cs ++ r) (t ++ t2) (repeat 1 (length cs) ++ ls).
Proof.
  induction cs as [|c cs IH]; intros t r t2 ls Ha Hd; inversion Ha; subst; cbn; [exact Hd|].
  constructor; auto.
Qed.

Lemma dm_of_pieces sh pc : pieces_ok sh pc -> exists ls, dm (shape_pat sh) (pieces_text pc) ls.
Proof.
  intros (H1 & H2 & H3 & H4 & H5 & H6 & H7). unfold shape_pat, pieces_text. eexists.
  apply dm_of_atoms; [exact H1|]. constructor.
  apply dm_of_atoms; [exact H2|]. constructor. constructor.
  apply dm_of_atoms; [exact H3|].
  assert (Hs : forall r t ls, dm r t ls -> dm (star_item (slazy sh) (sstar sh) :: r) (trun pc ++ t) (length (trun pc) :: ls)).
  { intros r t ls Hd. destruct (slazy sh); cbn; constructor; auto. }
  apply Hs.
  apply dm_of_atoms; [exact H5|]. constructor. constructor.
  apply dm_of_atoms; [exact H6|]. constructor.
  rewrite <- (app_nil_r (atoms (spost sh))), <- (app_nil_r (tpost pc)).
  apply dm_of_atoms; [exact H7|]. constructor.
Qed.

Lemma closes_ok_atoms cs r d : closes_ok (atoms cs ++ r) d = closes_ok r d.
Proof. induction cs as [|c cs IH]; cbn; auto. Qed.

Lemma closes_ok_shape sh : closes_ok (shape_pat sh) 0 = true.
Proof.
  unfold shape_pat. rewrite closes_ok_atoms. cbn [closes_ok]. rewrite closes_ok_atoms. cbn [closes_ok].
  rewrite closes_ok_atoms. destruct (slazy sh); cbn [star_item closes_ok]; rewrite closes_ok_atoms; cbn [closes_ok];
    rewrite closes_ok_atoms; cbn [closes_ok]; rewrite <- (app_nil_r (atoms (spost sh))), closes_ok_atoms; reflexivity.
Qed.

Lemma pieces_complete sh pc rest : pieces_ok sh pc ->
  exists z, wmatch (shape_pat sh) (pieces_text pc ++ rest) = Some z.
Proof.
  intros Hok. destruct (dm_of_pieces sh pc Hok) as [ls Hd]. unfold wmatch.
  eapply bt_complete; [exact Hd|exists rest; reflexivity|rewrite app_length; lia|apply closes_ok_shape].
Qed.

(* ---------- occurrences -------------------------------------------------------------- *)

(* the structure occurs at start i with length e (within one turn) *)
Definition occ (items : pattern) (s : list letter) (i e : nat) : Prop :=
  i < length s /\ e <= length s /\ exists ls, dm items (firstn e (window s i)) ls.

(* at most one occurrence *)
Definition unique_occ (items : pattern) (s : list letter) : Prop :=
  forall i e i' e', occ items s i e -> occ items s i' e' -> i = i' /\ e = e'.

Lemma wmatch_occ sh s i e sp : i < length s -> wmatch (shape_pat sh) (window s i) = Some (e, sp) ->
  occ (shape_pat sh) s i e /\
  exists pc, firstn e (window s i) = pieces_text pc /\ pieces_ok sh pc /\ e = length (pieces_text pc) /\
             sp = [(3, q3 pc, q4 pc); (2, p2 pc, q3 pc); (1, p1 pc, p2 pc)].
Proof.
  intros Hi Hw. unfold wmatch in Hw. destruct (shape_match _ _ _ _ Hw) as (pc & Ht & Hok & He & Hle & Hsp).
  rewrite window_length in Hle by lia. split.
  - split; [exact Hi|]. split; [exact Hle|]. rewrite Ht. now apply dm_of_pieces.
  - exists pc. auto.
Qed.

(* the spans depend on the shape's lengths and on the length of the match only *)
Lemma spans_by_lengths sh pc : pieces_ok sh pc ->
  p1 pc = length (spre sh) /\ p2 pc = length (spre sh) + length (sg1 sh) /\
  q4 pc = length (pieces_text pc) - length (spost sh) /\
  q3 pc = length (pieces_text pc) - length (spost sh) - length (sg3 sh) /\
  length (spre sh) + length (sg1 sh) + length (sa sh) + length (sb sh) + length (sg3 sh) + length (spost sh)
    <= length (pieces_text pc).
Proof.
  intros (H1 & H2 & H3 & H4 & H5 & H6 & H7).
  pose proof (atoms_ok_length _ _ H1). pose proof (atoms_ok_length _ _ H2). pose proof (atoms_ok_length _ _ H3).
  pose proof (atoms_ok_length _ _ H5). pose proof (atoms_ok_length _ _ H6). pose proof (atoms_ok_length _ _ H7).
  cbv [p1 p2 q3 q4 pieces_text]. rewrite !app_length. lia.
Qed.

Lemma app_inv_length {A} (a b c d : list A) : length a = length c -> a ++ b = c ++ d -> a = c /\ b = d.
Proof.
  revert c. induction a as [|x a IH]; intros [|y c] Hl H; cbn in *; try discriminate; [auto|].
  inversion H; subst. destruct (IH c ltac:(lia) H2). subst. auto.
Qed.

(* two decompositions of the same text along shapes with the same lengths coincide *)
Lemma pieces_unique P G pc pc' : shape_sub P G -> pieces_ok P pc -> pieces_ok G pc' ->
  pieces_text pc = pieces_text pc' -> pc = pc'.
Proof.
  intros (E1 & E2 & E3 & E4 & E5 & E6 & S1 & S3) (H1 & H2 & H3 & H4 & H5 & H6 & H7) (K1 & K2 & K3 & K4 & K5 & K6 & K7) Ht.
  pose proof (forall2_length _ _ _ S1) as L1. pose proof (forall2_length _ _ _ S3) as L3.
  apply atoms_ok_length in H1, H2, H3, H5, H6, H7, K1, K2, K3, K5, K6, K7.
  rewrite E1 in H1. rewrite E2 in H3. rewrite E5 in H5. rewrite E6 in H7.
  assert (Hlen : length (pieces_text pc) = length (pieces_text pc')) by now rewrite Ht.
  unfold pieces_text in *. rewrite !app_length in Hlen.
  destruct pc as [a1 a2 a3 a4 a5 a6 a7], pc' as [b1 b2 b3 b4 b5 b6 b7]. cbn in *.
  apply app_inv_length in Ht; [|congruence]. destruct Ht as [-> Ht].
  apply app_inv_length in Ht; [|congruence]. destruct Ht as [-> Ht].
  apply app_inv_length in Ht; [|congruence]. destruct Ht as [-> Ht].
  apply app_inv_length in Ht; [|lia]. destruct Ht as [-> Ht].
  apply app_inv_length in Ht; [|congruence]. destruct Ht as [-> Ht].
  apply app_inv_length in Ht; [|congruence]. destruct Ht as [-> ->]. reflexivity.
Qed.

(* ---------- the signature as a boolean test ------------------------------------------ *)

Fixpoint atoms_okb (cs : list cset) (t : list letter) : bool :=
  match cs, t with
  | [], [] => true
  | c :: cs', x :: t' => cmatch c (lcode x) && atoms_okb cs' t'
  | _, _ => false
  end.

Lemma atoms_okb_spec cs : forall t, atoms_okb cs t = true <-> atoms_ok cs t.
Proof.
  induction cs as [|c cs IH]; intros [|x t]; cbn; split; intros H; try discriminate; try constructor; try (inversion H; fail).
  - apply andb_prop in H. tauto.
  - apply IH. apply andb_prop in H. tauto.
  - inversion H; subst. apply andb_true_intro. split; [assumption|now apply IH].
Qed.

Lemma pieces_down P G pc : shape_sub P G -> pieces_ok G pc ->
  atoms_ok (sg1 P) (t1 pc) -> atoms_ok (sg3 P) (t3 pc) -> pieces_ok P pc.
Proof.
  intros (E1 & E2 & E3 & E4 & E5 & E6 & S1 & S3) (H1 & H2 & H3 & H4 & H5 & H6 & H7) A1 A3.
  unfold pieces_ok. rewrite E1, E2, E4, E5, E6. repeat split; assumption.
Qed.

Section PartIff.
  Context (P G : shape) (HS : shape_sub P G).

  Lemma sub_lengths : length (spre P) = length (spre G) /\ length (sg1 P) = length (sg1 G) /\
    length (sg3 P) = length (sg3 G) /\ length (spost P) = length (spost G).
  Proof.
    destruct HS as (E1 & E2 & E3 & E4 & E5 & E6 & S1 & S3).
    rewrite E1, E6, (forall2_length _ _ _ S1), (forall2_length _ _ _ S3). auto.
  Qed.

  Lemma spans_equal pc pc' : pieces_ok P pc -> pieces_ok G pc' -> length (pieces_text pc) = length (pieces_text pc') ->
    [(3, q3 pc, q4 pc); (2, p2 pc, q3 pc); (1, p1 pc, p2 pc)] = [(3, q3 pc', q4 pc'); (2, p2 pc', q3 pc'); (1, p1 pc', p2 pc')].
  Proof.
    intros H1 H2 Hl. destruct (spans_by_lengths _ _ H1) as (A1 & A2 & A3 & A4 & _).
    destruct (spans_by_lengths _ _ H2) as (B1 & B2 & B3 & B4 & _).
    destruct sub_lengths as (L1 & L2 & L3 & L4).
    rewrite A1, A2, A3, A4, B1, B2, B3, B4, Hl, L1, L2, L3, L4. reflexivity.
  Qed.

  (* a match of the part pattern is an occurrence of the generic pattern, same end *)
  Lemma P_match_G_occ s i e sp : i < length s -> wmatch (shape_pat P) (window s i) = Some (e, sp) ->
    occ (shape_pat G) s i e.
  Proof.
    intros Hi Hw. destruct (wmatch_occ P s i e sp Hi Hw) as [(_ & He & _) (pc & Ht & Hok & _)].
    split; [exact Hi|]. split; [exact He|]. rewrite Ht. apply dm_of_pieces. now apply (pieces_mono P G).
  Qed.

  Lemma P_matches_G_matches s i : i < length s ->
    matches_at (shape_pat P) s true i = true -> matches_at (shape_pat G) s true i = true.
  Proof.
    intros Hi. rewrite !matches_at_window by lia.
    destruct (wmatch (shape_pat P) (window s i)) as [[e sp]|] eqn:Ew; [|discriminate]. intros _.
    destruct (wmatch_occ P s i e sp Hi Ew) as [_ (pc & Ht & Hok & _)].
    destruct (pieces_complete G pc (skipn e (window s i)) (pieces_mono P G pc HS Hok)) as [z Hz].
    rewrite <- Ht, firstn_skipn in Hz. now rewrite Hz.
  Qed.

  Lemma search_P_G s mP : unique_occ (shape_pat G) s ->
    search (shape_pat P) s true 0 (length s) = Some mP -> search (shape_pat G) s true 0 (length s) = Some mP.
  Proof.
    intros Hu Hs.
    destruct (search_to_window _ _ _ Hs) as (Hi & e' & cs' & Hw & He & Hcs).
    pose proof (P_match_G_occ s (mstart mP) e' cs' Hi Hw) as Hocc.
    assert (Hm : matches_at (shape_pat G) s true (mstart mP) = true).
    { apply P_matches_G_matches; [exact Hi|]. rewrite matches_at_window by lia. now rewrite Hw. }
    destruct (search_finds (shape_pat G) s true 0 (length s) (mstart mP)) as (mG & HsG & Hle);
      [rewrite Nat.min_id; lia|exact Hm|].
    destruct (search_to_window _ _ _ HsG) as (HiG & eG & csG & HwG & HeG & HcsG).
    destruct (wmatch_occ G s (mstart mG) eG csG HiG HwG) as [HoccG (pcG & HtG & HokG & HlG & HspG)].
    destruct (Hu _ _ _ _ HoccG Hocc) as [Ei Ee].
    destruct (wmatch_occ P s (mstart mP) e' cs' Hi Hw) as [_ (pcP & HtP & HokP & HlP & HspP)].
    assert (Ecs : csG = cs').
    { rewrite HspG, HspP. apply eq_sym, spans_equal; auto. congruence. }
    rewrite HsG. f_equal. destruct mG as [a b g], mP as [a' b' g']. cbn in *.
    rewrite HeG, He, HcsG, Hcs, Ei, Ee, Ecs. reflexivity.
  Qed.

  Lemma search_G_P s mG pc e sp : unique_occ (shape_pat G) s ->
    search (shape_pat G) s true 0 (length s) = Some mG ->
    wmatch (shape_pat G) (window s (mstart mG)) = Some (e, sp) ->
    firstn e (window s (mstart mG)) = pieces_text pc -> pieces_ok G pc ->
    atoms_ok (sg1 P) (t1 pc) -> atoms_ok (sg3 P) (t3 pc) ->
    search (shape_pat P) s true 0 (length s) = Some mG.
  Proof.
    intros Hu Hs Hw Ht Hok A1 A3.
    destruct (search_to_window _ _ _ Hs) as (Hi & _).
    pose proof (pieces_down P G pc HS Hok A1 A3) as HokP.
    destruct (pieces_complete P pc (skipn e (window s (mstart mG))) HokP) as [z Hz].
    rewrite <- Ht, firstn_skipn in Hz.
    assert (Hm : matches_at (shape_pat P) s true (mstart mG) = true) by (rewrite matches_at_window by lia; now rewrite Hz).
    destruct (search_finds (shape_pat P) s true 0 (length s) (mstart mG)) as (mP & HsP & _);
      [rewrite Nat.min_id; lia|exact Hm|].
    pose proof (search_P_G s mP Hu HsP) as H. rewrite Hs in H. inversion H; subst. exact HsP.
  Qed.

  Lemma search_both s m pcG e sp :
    search (shape_pat P) s true 0 (length s) = Some m ->
    wmatch (shape_pat G) (window s (mstart m)) = Some (e, sp) -> mend m = e + mstart m ->
    firstn e (window s (mstart m)) = pieces_text pcG -> pieces_ok G pcG ->
    atoms_ok (sg1 P) (t1 pcG) /\ atoms_ok (sg3 P) (t3 pcG).
  Proof.
    intros Hs Hw He Ht Hok.
    destruct (search_to_window _ _ _ Hs) as (Hi & e' & cs' & HwP & HeP & _).
    destruct (wmatch_occ P s (mstart m) e' cs' Hi HwP) as [_ (pcP & HtP & HokP & _)].
    assert (e' = e) by lia. subst e'.
    assert (pcP = pcG) by (eapply (pieces_unique P G); eauto; congruence). subst pcP.
    destruct HokP as (_ & H2 & _ & _ & _ & H6 & _). auto.
  Qed.
End PartIff.

(* ---------- C05: the part class accepts exactly ... ---------------------------------- *)

Definition sig_test (P : shape) (cG : cls) (s : list letter) : bool :=
  match overhang_start cG s true, overhang_end cG s true with
  | Some u, Some d =>
      atoms_okb (role_pick (crole cG) (sg1 P) (sg3 P)) u && atoms_okb (role_pick (crole cG) (sg3 P) (sg1 P)) d
  | _, _ => false
  end.

Lemma typing_of_search c s m g0 : search (cpat c) s true 0 (length s) = Some m -> group m s 0 = Some g0 ->
  typing c s true = if 3 <? fragments (cenz c) g0 then IllegalSite else Valid m.
Proof. intros Hs Hg. unfold typing. now rewrite Hs, Hg. Qed.

Lemma is_valid_no_search c s : search (cpat c) s true 0 (length s) = None -> is_valid c s true = false.
Proof. intros H. unfold is_valid, typing. now rewrite H. Qed.

Theorem part_iff (P G : shape) (cP cG : cls) (s : list letter) :
  shape_sub P G -> cpat cP = shape_pat P -> cpat cG = shape_pat G ->
  cenz cP = cenz cG -> crole cP = crole cG -> unique_occ (shape_pat G) s ->
  is_valid cP s true = is_valid cG s true && sig_test P cG s.
Proof.
  intros HS HpP HpG Henz Hrole Hu.
  destruct (search (cpat cG) s true 0 (length s)) as [mG|] eqn:HsG.
  2:{ (* the generic class finds nothing: neither does the part class *)
      rewrite (is_valid_no_search cG s HsG). cbn.
      destruct (search (cpat cP) s true 0 (length s)) as [mP|] eqn:HsP; [|now apply is_valid_no_search].
      rewrite HpP in HsP. apply (search_P_G P G HS s mP Hu) in HsP. rewrite <- HpG in HsP. congruence. }
  rewrite HpG in HsG.
  destruct (search_to_window _ _ _ HsG) as (Hi & e & sp & Hw & He & Hsp).
  destruct (wmatch_occ G s (mstart mG) e sp Hi Hw) as [_ (pc & Htxt & Hok & Hlen & Hspans)].
  (* the group-0 text of that match, whichever class asks *)
  assert (Hg0 : exists g0, group mG s 0 = Some g0).
  { rewrite <- HpG in HsG. destruct (search_group_text _ _ _ _ _ _ 0 _ _ HsG eq_refl) as (_ & _ & _ & H). eauto. }
  destruct Hg0 as [g0 Hg0].
  assert (HtG : typing cG s true = if 3 <? fragments (cenz cG) g0 then IllegalSite else Valid mG)
    by (apply typing_of_search; [now rewrite HpG|exact Hg0]).
  destruct (atoms_okb (sg1 P) (t1 pc) && atoms_okb (sg3 P) (t3 pc)) eqn:Esig.
  - (* the overhangs fit the signature: the part class finds the very same match *)
    apply andb_prop in Esig. destruct Esig as [A1 A3]. apply atoms_okb_spec in A1, A3.
    pose proof (search_G_P P G HS s mG pc e sp Hu HsG Hw Htxt Hok A1 A3) as HsP.
    assert (HtP : typing cP s true = if 3 <? fragments (cenz cP) g0 then IllegalSite else Valid mG)
      by (apply typing_of_search; [now rewrite HpP|exact Hg0]).
    unfold is_valid at 1 2. rewrite HtP, HtG, Henz.
    destruct (3 <? fragments (cenz cG) g0) eqn:Efr; [reflexivity|]. cbn.
    (* the generic class reports the pieces g1 and g3 *)
    assert (HtG' : typing cG s true = Valid mG) by (first [exact HtG | rewrite HtG, Efr; reflexivity]).
    destruct (shape_groups cG G s mG HpG HtG') as (pc' & rest & HW & Hok' & _ & He' & _ & G1 & _ & G3 & _).
    assert (pc' = pc).
    { apply (pieces_unique G G); auto.
      - destruct HS as (E1 & E2 & E3 & E4 & E5 & E6 & S1 & S3). repeat split; auto;
          clear; [induction (sg1 G)|induction (sg3 G)]; constructor; auto; intros x Hx; exact Hx.
      - rewrite <- Htxt. rewrite HW. assert (Ee : e = length (pieces_text pc')) by lia. rewrite Ee.
        rewrite firstn_app, Nat.sub_diag, firstn_all. cbn. now rewrite app_nil_r. }
    subst pc'. unfold sig_test, overhang_start, overhang_end, with_match. rewrite HtG'.
    destruct (crole cG); cbn [role_pick]; rewrite G1, G3.
    + apply atoms_okb_spec in A1, A3. now rewrite A1, A3.
    + apply atoms_okb_spec in A1, A3. now rewrite A1, A3.
  - (* they do not: the part class matches nowhere *)
    assert (HsP : search (cpat cP) s true 0 (length s) = None).
    { destruct (search (cpat cP) s true 0 (length s)) as [mP|] eqn:HsP; [|reflexivity]. exfalso.
      rewrite HpP in HsP. pose proof (search_P_G P G HS s mP Hu HsP) as H. rewrite HsG in H. inversion H; subst mP.
      destruct (search_both P G HS s mG pc e sp HsP Hw He Htxt Hok) as [A1 A3].
      apply atoms_okb_spec in A1, A3. rewrite A1, A3 in Esig. discriminate. }
    rewrite (is_valid_no_search cP s HsP). symmetry.
    unfold is_valid. rewrite HtG. destruct (3 <? fragments (cenz cG) g0) eqn:Efr; [reflexivity|]. cbn.
    assert (HtG' : typing cG s true = Valid mG) by (first [exact HtG | rewrite HtG, Efr; reflexivity]).
    destruct (shape_groups cG G s mG HpG HtG') as (pc' & rest & HW & Hok' & _ & He' & _ & G1 & _ & G3 & _).
    assert (pc' = pc).
    { apply (pieces_unique G G); auto.
      - destruct HS as (E1 & E2 & E3 & E4 & E5 & E6 & S1 & S3). repeat split; auto;
          clear; [induction (sg1 G)|induction (sg3 G)]; constructor; auto; intros x Hx; exact Hx.
      - rewrite <- Htxt. rewrite HW. assert (Ee : e = length (pieces_text pc')) by lia. rewrite Ee.
        rewrite firstn_app, Nat.sub_diag, firstn_all. cbn. now rewrite app_nil_r. }
    subst pc'. unfold sig_test, overhang_start, overhang_end, with_match. rewrite HtG'.
    apply Bool.andb_false_iff in Esig.
    destruct (crole cG); cbn [role_pick]; rewrite G1, G3; destruct Esig as [E|E]; rewrite E; cbn; auto using Bool.andb_false_r.
Qed.

(* ---------- boolean refinement test (used by reflective obligations) ------------------ *)

Definition all_codes15 : list code := [cA;cC;cG;cT;cR;cY;cS;cW;cK;cM;cB;cD;cH;cV;cN].

Lemma all_codes15_complete x : In x all_codes15.
Proof. destruct x; cbn; tauto. Qed.

Definition csubb (c d : cset) : bool := forallb (fun x => implb (cmatch c x) (cmatch d x)) all_codes15.

Lemma csubb_sound c d : csubb c d = true -> csub c d.
Proof.
  intros H x Hx. unfold csubb in H. rewrite forallb_forall in H.
  specialize (H x (all_codes15_complete x)). rewrite Hx in H. exact H.
Qed.

Definition cset_eqb (a b : cset) : bool := codes_eqb a b.

Fixpoint csets_eqb (a b : list cset) : bool :=
  match a, b with
  | [], [] => true
  | x :: a', y :: b' => codes_eqb x y && csets_eqb a' b'
  | _, _ => false
  end.

Lemma codes_eqb_eq a b : codes_eqb a b = true -> a = b.
Proof.
  revert b. induction a as [|x a IH]; destruct b as [|y b]; cbn; intros H; try discriminate; [reflexivity|].
  apply andb_prop in H. destruct H as [H1 H2]. f_equal; [|now apply IH].
  destruct x, y; try discriminate H1; reflexivity.
Qed.

Lemma csets_eqb_eq a b : csets_eqb a b = true -> a = b.
Proof.
  revert b. induction a as [|x a IH]; destruct b as [|y b]; cbn; intros H; try discriminate; [reflexivity|].
  apply andb_prop in H. destruct H as [H1 H2]. f_equal; [now apply codes_eqb_eq|now apply IH].
Qed.

Fixpoint forall2b {A B} (f : A -> B -> bool) (l : list A) (l' : list B) : bool :=
  match l, l' with
  | [], [] => true
  | x :: r, y :: r' => f x y && forall2b f r r'
  | _, _ => false
  end.

Lemma forall2b_sound {A B} (f : A -> B -> bool) (R : A -> B -> Prop) :
  (forall x y, f x y = true -> R x y) -> forall l l', forall2b f l l' = true -> Forall2 R l l'.
Proof.
  intros Hf. induction l as [|x r IH]; destruct l' as [|y r']; cbn; intros H; try discriminate; constructor.
  - apply Hf. apply andb_prop in H. tauto.
  - apply IH. apply andb_prop in H. tauto.
Qed.

Definition shape_subb (P G : shape) : bool :=
  csets_eqb (spre P) (spre G) && csets_eqb (sa P) (sa G) && Bool.eqb (slazy P) (slazy G) &&
  codes_eqb (sstar P) (sstar G) && csets_eqb (sb P) (sb G) && csets_eqb (spost P) (spost G) &&
  forall2b csubb (sg1 P) (sg1 G) && forall2b csubb (sg3 P) (sg3 G).

Lemma shape_subb_sound P G : shape_subb P G = true -> shape_sub P G.
Proof.
  unfold shape_subb. intros H. repeat (apply andb_prop in H; destruct H as [H ?]).
  unfold shape_sub. repeat split;
    try (apply csets_eqb_eq; assumption); try (apply codes_eqb_eq; assumption);
    try (apply Bool.eqb_prop; assumption);
    apply (forall2b_sound csubb csub csubb_sound); assumption.
Qed.

(* ---------- characterize --------------------------------------------------------------- *)

(* AbstractPart.characterize: the first candidate type that accepts the record *)
Definition characterize (cands : list cls) (s : list letter) : option cls :=
  find (fun c => is_valid c s true) cands.

Theorem characterize_some cands s c : characterize cands s = Some c -> In c cands /\ is_valid c s true = true.
Proof. intros H. apply find_some in H. exact H. Qed.

Theorem characterize_none cands s : characterize cands s = None <-> forall c, In c cands -> is_valid c s true = false.
Proof.
  unfold characterize. split.
  - intros H c Hc. now apply (find_none _ _ H).
  - intros H. destruct (find (fun c => is_valid c s true) cands) as [c|] eqn:E; [|reflexivity].
    apply find_some in E. destruct E as [Hc Hv]. rewrite (H c Hc) in Hv. discriminate.
Qed.
