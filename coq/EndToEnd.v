(* EndToEnd.v — C01 from the raw plasmids of the formal definition to the documented formula:
   typing of every argument at every rotation (Canonical.v) composed with the assembly walk
   (AssemblyLemmas.v) inside Pipeline.assemble_raw. Proofs only; the statement is repeated in
   Props/C01.v. *)
From MV Require Import Base RotLemmas Regex RegexLemmas Shape ShapeLemmas Typing TypingLemmas TotalLemmas
                       ShapeTyping PartLemmas Anchors Canonical StrandLemmas Assembly AssemblyLemmas Pipeline PipelineLemmas Record RecordLemmas.
From Coq Require Import Permutation.
Local Open Scope nat_scope.

(* ---------- the plasmids of the formal definition (docs/source/theory/standard.rst) ------- *)

(* a module plasmid: site . x . o5 . t . o3 . y . rc(site) . backbone, |t| >= 2 *)
Record mplasmid := MP {
  pS : list letter; pX : list letter; pO5 : list letter;
  pt0 : letter; ptmid : list letter; ptl : letter;
  pO3 : list letter; pY : list letter; pR : list letter; pB : list letter }.

Definition pT (m : mplasmid) : list letter := pt0 m :: ptmid m ++ [ptl m].
Definition mword (m : mplasmid) : list letter :=
  pS m ++ pX m ++ pO5 m ++ pT m ++ pO3 m ++ pY m ++ pR m ++ pB m.

Definition mplasmid_ok (e : enzyme) (m : mplasmid) : Prop :=
  map lcode (pS m) = esite e /\ map lcode (pR m) = rc_codes (esite e) /\
  length (pX m) = eoff e /\ length (pY m) = eoff e /\ length (pO5 m) = eovh e /\ length (pO3 m) = eovh e /\
  Forall nucl (pX m) /\ Forall nucl (pY m) /\ Forall nucl (pO5 m) /\ Forall nucl (pO3 m) /\
  nucl (pt0 m) /\ Forall nucl (ptmid m) /\ nucl (ptl m) /\
  occurs_once (esite e) (mword m) /\ occurs_once (rc_codes (esite e)) (mword m).

(* a vector plasmid, written from the last backbone letter:
   [b_last] . o_dn . y . rc(site) . placeholder . site . x . o_up . [b_first] . b_mid *)
Record vplasmid := VP {
  qbl : letter; qOdn : list letter; qY : list letter; qR : list letter; qP : list letter;
  qS : list letter; qX : list letter; qOup : list letter; qbf : letter; qBmid : list letter }.

Definition vword (v : vplasmid) : list letter :=
  [qbl v] ++ qOdn v ++ qY v ++ qR v ++ qP v ++ qS v ++ qX v ++ qOup v ++ [qbf v] ++ qBmid v.
Definition vbackbone (v : vplasmid) : list letter := [qbf v] ++ qBmid v ++ [qbl v].

Definition vplasmid_ok (e : enzyme) (v : vplasmid) : Prop :=
  map lcode (qS v) = esite e /\ map lcode (qR v) = rc_codes (esite e) /\
  length (qX v) = eoff e /\ length (qY v) = eoff e /\ length (qOdn v) = eovh e /\ length (qOup v) = eovh e /\
  Forall nucl (qX v) /\ Forall nucl (qY v) /\ Forall nucl (qP v) /\ Forall nucl (qOdn v) /\ Forall nucl (qOup v) /\
  nucl (qbl v) /\ nucl (qbf v) /\
  occurs_once (esite e) (vword v) /\ occurs_once (rc_codes (esite e)) (vword v).

(* what they amount to for the walk *)
Definition smod_of (i : nat) (m : mplasmid) : smod := SM i (pO5 m) (pT m) (pO3 m).
Definition svec_of (v : vplasmid) : svec := SV (qOup v) (vbackbone v) (qOdn v).

Fixpoint number (i : nat) (l : list mplasmid) : list smod :=
  match l with [] => [] | m :: r => smod_of i m :: number (S i) r end.

(* the arguments as handed to vector.assemble: each module plasmid read from its own origin *)
Definition marg (e : enzyme) (x : mplasmid * Z) : cls * list letter :=
  (generic_cls RModule e, rotr (snd x) (mword (fst x))).

(* ---------- typing of the arguments -------------------------------------------------------- *)

Lemma typed_module_canonical e m i k : 0 < length (esite e) -> mplasmid_ok e m ->
  typed_module (generic_cls RModule e) i (rotr k (mword m)) = Some (tmod_of (smod_of i m)).
Proof.
  intros Hs (HS & HR & LX & LY & L5 & L3 & NX & NY & N5 & N3 & N0 & Nm & Nl & U1 & U2).
  pose proof (proj1 (strand_module e (pS m) (pX m) (pO5 m) (pt0 m) (ptmid m) (ptl m) (pO3 m) (pY m) (pR m) (pB m) k
                      HS HR Hs LX LY L5 L3 NX NY N5 N3 N0 Nm Nl U1 U2)) as H.
  unfold observe in H. injection H as _ Hu Hd Ht _.
  assert (Hu' : overhang_start (generic_cls RModule e) (rotr k (mword m)) true = Some (pO5 m)) by exact Hu.
  assert (Hd' : overhang_end (generic_cls RModule e) (rotr k (mword m)) true = Some (pO3 m)) by exact Hd.
  assert (Ht' : target (generic_cls RModule e) (rotr k (mword m)) true = Some (pO5 m ++ pT m)) by exact Ht.
  unfold typed_module. rewrite Hu', Hd', Ht'. reflexivity.
Qed.

Lemma typed_vector_canonical e v k : 0 < length (esite e) -> vplasmid_ok e v ->
  typed_vector (generic_cls RVector e) (rotr k (vword v)) = Some (tvec_of (svec_of v)).
Proof.
  intros Hs (HS & HR & LX & LY & Ld & Lu & NX & NY & NP & Nd & Nu & Nbl & Nbf & U1 & U2).
  pose proof (proj1 (strand_vector e (qbl v) (qOdn v) (qY v) (qR v) (qP v) (qS v) (qX v) (qOup v) (qbf v) (qBmid v) k
                      HS HR Hs LX LY Ld Lu NX NY NP Nd Nu Nbl Nbf U1 U2)) as H.
  unfold observe in H. injection H as _ Hu Hd Ht _.
  assert (Hu' : overhang_start (generic_cls RVector e) (rotr k (vword v)) true = Some (qOup v)) by exact Hu.
  assert (Hd' : overhang_end (generic_cls RVector e) (rotr k (vword v)) true = Some (qOdn v)) by exact Hd.
  assert (Ht' : target (generic_cls RVector e) (rotr k (vword v)) true = Some (qOup v ++ vbackbone v)) by exact Ht.
  unfold typed_vector. rewrite Hu', Hd', Ht'. reflexivity.
Qed.

Lemma type_prefix_canonical e : 0 < length (esite e) -> forall (l : list (mplasmid * Z)) i,
  Forall (mplasmid_ok e) (map fst l) ->
  type_prefix (map (marg e) l) i = (map tmod_of (number i (map fst l)), true).
Proof.
  intros Hs. induction l as [|[m k] l IH]; intros i Hok; cbn [map type_prefix number fst]; [reflexivity|].
  inversion Hok as [|? ? Hm Hl]; subst. unfold marg at 1. cbn [fst snd].
  rewrite (typed_module_canonical e m i k Hs Hm). rewrite (IH (S i) Hl). reflexivity.
Qed.

Lemma sid_number l : forall i, map sid (number i l) = seq i (length l).
Proof. induction l as [|m l IH]; intros i; cbn; [reflexivity|]. now rewrite IH. Qed.

(* ---------- the walk on what the plasmids report ------------------------------------------- *)

Lemma assemble_formula (v : svec) (cs ms : list smod) :
  Permutation ms cs -> NoDup (map sid ms) ->
  path (okey (sdn v)) (map keys_of cs) (okey (sup v)) ->
  okey (sup v) <> okey (sdn v) ->
  Forall (fun m => okey (so5 m) <> okey (sup v)) cs ->
  clash_free rc_codes (map tmod_of ms) ->
  dna_assemble (tvec_of v) (map tmod_of ms) = Product (concat (map frag cs) ++ (sup v ++ svbody v)) (map sid cs) [].
Proof.
  intros Hperm Hid Hpath Hv F5 CF.
  assert (Hids : forall l : list smod, map mid (map tmod_of l) = map sid l) by (intros l; rewrite map_map; reflexivity).
  assert (Hl : linked (okey (sdn v)) (map tmod_of cs) (okey (sup v))).
  { apply (path_linked tmod_of keys_of); auto. }
  pose proof (linked_Chain _ (map tmod_of ms) _ _ Hl (Permutation_map _ Hperm)) as Hc.
  pose proof (assemble_chain codes_eqb rc_codes codes_eqb_spec (tvec_of v) (map tmod_of ms) _ _
                ltac:(rewrite Hids; exact Hid) Hv CF Hc) as H.
  unfold dna_assemble. rewrite H. f_equal.
  - f_equal. rewrite map_map. reflexivity.
  - apply Hids.
Qed.

Lemma product_build_map (tv : @tvec (list code)) pre w u r :
  dna_assemble tv pre = Product w u r -> exists mp, build_map codes_eqb pre [] = inl mp.
Proof.
  unfold dna_assemble, assemble, assemble_with.
  destruct (codes_eqb (vup tv) (vdown tv)); [discriminate|].
  destruct (build_map codes_eqb pre []) as [mp|[a b]]; [eauto|discriminate].
Qed.

(* ---------- C01, end to end ---------------------------------------------------------------- *)

(* For ANY enzyme, a vector plasmid and any number of module plasmids of the formal definition,
   each carrying the two sites once, each read from ANY origin, given in ANY order: if, in some
   order cs, the modules' overhangs chain from the vector's downstream overhang to its upstream
   overhang, and the start overhangs are clash-free, vector.assemble(modules) returns exactly
   o5_1 . t_1 ... o5_q . t_q . o_up . backbone, uses every module and leaves none. *)
Theorem end_to_end e v kv (l : list (mplasmid * Z)) (cs : list smod) :
  0 < length (esite e) -> vplasmid_ok e v -> Forall (mplasmid_ok e) (map fst l) ->
  let ms := number 0 (map fst l) in
  Permutation ms cs ->
  path (okey (qOdn v)) (map keys_of cs) (okey (qOup v)) ->
  okey (qOup v) <> okey (qOdn v) ->
  Forall (fun m => okey (so5 m) <> okey (qOup v)) cs ->
  clash_free rc_codes (map tmod_of ms) ->
  assemble_raw (generic_cls RVector e) (rotr kv (vword v)) (map (marg e) l) =
    Product (concat (map frag cs) ++ (qOup v ++ vbackbone v)) (map sid cs) [].
Proof.
  intros Hs Hv Hms ms Hperm Hpath Hne F5 CF.
  unfold assemble_raw.
  rewrite (typed_vector_canonical e v kv Hs Hv).
  rewrite (type_prefix_canonical e Hs l 0 Hms). fold ms.
  assert (Hid : NoDup (map sid ms)) by (unfold ms; rewrite sid_number; apply seq_NoDup).
  pose proof (assemble_formula (svec_of v) cs ms Hperm Hid Hpath Hne F5 CF) as H.
  destruct (codes_eqb (vup (tvec_of (svec_of v))) (vdown (tvec_of (svec_of v)))) eqn:E.
  { exfalso. apply Hne. apply codes_eqb_spec. exact E. }
  destruct (product_build_map _ _ _ _ _ H) as [mp Hmp]. rewrite Hmp.
  exact H.
Qed.

(* the product has the length the formula says: the retained fragments, nothing else *)
Corollary end_to_end_length e v kv l cs w used unused :
  assemble_raw (generic_cls RVector e) (rotr kv (vword v)) (map (marg e) l) = Product w used unused ->
  w = concat (map frag cs) ++ (qOup v ++ vbackbone v) ->
  length w = list_sum (map (fun m => length (so5 m) + length (sbody m)) cs) + (length (qOup v) + length (vbackbone v)).
Proof.
  intros _ ->. rewrite !app_length. f_equal.
  induction cs as [|m cs IH]; cbn; [reflexivity|]. unfold frag at 1. rewrite !app_length, IH. reflexivity.
Qed.

(* ---------- a decision procedure for "occurs once", for concrete instances ----------------- *)

Definition positions (w : list code) (s : list letter) : list nat :=
  filter (fun a => occurs_here w (rotl (Z.of_nat a) s)) (seq 0 (length s)).
Definition occurs_onceb (w : list code) (s : list letter) : bool := length (positions w s) <=? 1.

Lemma occurs_onceb_sound w s : s <> [] -> occurs_onceb w s = true -> occurs_once w s.
Proof.
  intros Hs Hb a a' Ha Ha'. unfold occurs_onceb in Hb. apply Nat.leb_le in Hb.
  assert (Hn : length s <> 0) by (destruct s; [congruence|cbn; lia]).
  assert (Hin : forall x, site_at w s x -> In (x mod length s) (positions w s)).
  { intros x Hx. unfold positions. apply filter_In. split.
    - apply in_seq. pose proof (Nat.mod_upper_bound x (length s) Hn). lia.
    - apply (site_at_mod w s x Hs). exact Hx. }
  pose proof (Hin a Ha) as H1. pose proof (Hin a' Ha') as H2.
  destruct (positions w s) as [|p [|p' r]]; cbn in Hb, H1, H2.
  - contradiction.
  - destruct H1 as [<-|[]]. destruct H2 as [<-|[]]. reflexivity.
  - lia.
Qed.

Definition nuclsb (l : list letter) : bool := forallb (fun x => cmatch setN (lcode x)) l.

Lemma nuclsb_sound l : nuclsb l = true -> Forall nucl l.
Proof. intros H. apply Forall_forall. intros x Hx. unfold nuclsb in H. rewrite forallb_forall in H. exact (H x Hx). Qed.

Definition mplasmid_okb (e : enzyme) (m : mplasmid) : bool :=
  codes_eqb (map lcode (pS m)) (esite e) && codes_eqb (map lcode (pR m)) (rc_codes (esite e)) &&
  (length (pX m) =? eoff e) && (length (pY m) =? eoff e) && (length (pO5 m) =? eovh e) && (length (pO3 m) =? eovh e) &&
  nuclsb (pX m) && nuclsb (pY m) && nuclsb (pO5 m) && nuclsb (pO3 m) &&
  nuclsb [pt0 m] && nuclsb (ptmid m) && nuclsb [ptl m] &&
  occurs_onceb (esite e) (mword m) && occurs_onceb (rc_codes (esite e)) (mword m).

Lemma mword_nonempty m : mword m <> [].
Proof. unfold mword, pT. destruct (pS m), (pX m), (pO5 m); discriminate. Qed.

Lemma nuclsb_one x : nuclsb [x] = true -> nucl x.
Proof. intros H. apply nuclsb_sound in H. now inversion H. Qed.

Lemma mplasmid_okb_sound e m : mplasmid_okb e m = true -> mplasmid_ok e m.
Proof.
  unfold mplasmid_okb, mplasmid_ok. intros H.
  repeat match type of H with (_ && _ = true) => let H' := fresh in apply andb_prop in H; destruct H as [H H'] end.
  repeat match goal with
  | [ |- _ /\ _ ] => split
  end;
  try (apply codes_eqb_spec; assumption);
  try (apply Nat.eqb_eq; assumption);
  try (apply nuclsb_sound; assumption);
  try (apply nuclsb_one; assumption);
  try (apply occurs_onceb_sound; [apply mword_nonempty|assumption]).
Qed.

Definition vplasmid_okb (e : enzyme) (v : vplasmid) : bool :=
  codes_eqb (map lcode (qS v)) (esite e) && codes_eqb (map lcode (qR v)) (rc_codes (esite e)) &&
  (length (qX v) =? eoff e) && (length (qY v) =? eoff e) && (length (qOdn v) =? eovh e) && (length (qOup v) =? eovh e) &&
  nuclsb (qX v) && nuclsb (qY v) && nuclsb (qP v) && nuclsb (qOdn v) && nuclsb (qOup v) &&
  nuclsb [qbl v] && nuclsb [qbf v] &&
  occurs_onceb (esite e) (vword v) && occurs_onceb (rc_codes (esite e)) (vword v).

Lemma vplasmid_okb_sound e v : vplasmid_okb e v = true -> vplasmid_ok e v.
Proof.
  unfold vplasmid_okb, vplasmid_ok. intros H.
  repeat match type of H with (_ && _ = true) => let H' := fresh in apply andb_prop in H; destruct H as [H H'] end.
  repeat match goal with
  | [ |- _ /\ _ ] => split
  end;
  try (apply codes_eqb_spec; assumption);
  try (apply Nat.eqb_eq; assumption);
  try (apply nuclsb_sound; assumption);
  try (apply nuclsb_one; assumption);
  try (apply occurs_onceb_sound; [discriminate|assumption]).
Qed.

(* clash-freeness, decided *)
Fixpoint nodupb (l : list (list code)) : bool :=
  match l with
  | [] => true
  | x :: r => negb (existsb (codes_eqb x) r) && nodupb r
  end.

Lemma nodupb_sound l : nodupb l = true -> NoDup l.
Proof.
  induction l as [|x r IH]; cbn; intros H; [constructor|].
  apply andb_prop in H. destruct H as [H1 H2]. constructor; [|now apply IH].
  intros Hin. apply negb_true_iff in H1. assert (existsb (codes_eqb x) r = true); [|congruence].
  apply existsb_exists. exists x. split; [exact Hin|now apply codes_eqb_spec].
Qed.

Definition clash_freeb (ms : list (@tmod (list code))) : bool :=
  nodupb (map mup ms) && match rc_clash codes_eqb rc_codes ms ms with None => true | Some _ => false end.

Lemma clash_freeb_sound ms : clash_freeb ms = true -> clash_free rc_codes ms.
Proof.
  unfold clash_freeb, clash_free. intros H. apply andb_prop in H. destruct H as [H1 H2].
  apply nodupb_sound in H1. split; [exact H1|].
  apply (rc_clash_none codes_eqb rc_codes codes_eqb_spec ms ms H1).
  destruct (rc_clash codes_eqb rc_codes ms ms); [discriminate|reflexivity].
Qed.

(* ---------- C12, end to end: the reverse complements of all the plasmids ------------------- *)

Definition marg_rc (e : enzyme) (x : mplasmid * Z) : cls * list letter :=
  (generic_cls RModule e, rotr (snd x) (rc (mword (fst x)))).

Lemma typed_module_canonical_rc e m i k : 0 < length (esite e) -> mplasmid_ok e m ->
  typed_module (generic_cls RModule e) i (rotr k (rc (mword m))) = Some (tmod_of (rc_smod (smod_of i m))).
Proof.
  intros Hs (HS & HR & LX & LY & L5 & L3 & NX & NY & N5 & N3 & N0 & Nm & Nl & U1 & U2).
  pose proof (proj2 (strand_module e (pS m) (pX m) (pO5 m) (pt0 m) (ptmid m) (ptl m) (pO3 m) (pY m) (pR m) (pB m) k
                      HS HR Hs LX LY L5 L3 NX NY N5 N3 N0 Nm Nl U1 U2)) as H.
  unfold observe in H. injection H as _ Hu Hd Ht _.
  assert (Hu' : overhang_start (generic_cls RModule e) (rotr k (rc (mword m))) true = Some (rc (pO3 m))) by exact Hu.
  assert (Hd' : overhang_end (generic_cls RModule e) (rotr k (rc (mword m))) true = Some (rc (pO5 m))) by exact Hd.
  assert (Ht' : target (generic_cls RModule e) (rotr k (rc (mword m))) true = Some (rc (pO3 m) ++ rc (pT m))) by exact Ht.
  unfold typed_module. rewrite Hu', Hd', Ht'. reflexivity.
Qed.

Lemma rc_vbackbone v : rc (vbackbone v) = [compl_l (qbl v)] ++ rc (qBmid v) ++ [compl_l (qbf v)].
Proof. unfold vbackbone. rewrite !rc_app. cbn [rc app]. rewrite <- app_assoc. reflexivity. Qed.

Lemma typed_vector_canonical_rc e v k : 0 < length (esite e) -> vplasmid_ok e v ->
  typed_vector (generic_cls RVector e) (rotr k (rc (vword v))) = Some (tvec_of (rc_svec (svec_of v))).
Proof.
  intros Hs (HS & HR & LX & LY & Ld & Lu & NX & NY & NP & Nd & Nu & Nbl & Nbf & U1 & U2).
  pose proof (proj2 (strand_vector e (qbl v) (qOdn v) (qY v) (qR v) (qP v) (qS v) (qX v) (qOup v) (qbf v) (qBmid v) k
                      HS HR Hs LX LY Ld Lu NX NY NP Nd Nu Nbl Nbf U1 U2)) as H.
  unfold observe in H. injection H as _ Hu Hd Ht _.
  assert (Hu' : overhang_start (generic_cls RVector e) (rotr k (rc (vword v))) true = Some (rc (qOdn v))) by exact Hu.
  assert (Hd' : overhang_end (generic_cls RVector e) (rotr k (rc (vword v))) true = Some (rc (qOup v))) by exact Hd.
  assert (Ht' : target (generic_cls RVector e) (rotr k (rc (vword v))) true = Some (rc (qOdn v) ++ rc (vbackbone v))).
  { rewrite rc_vbackbone. exact Ht. }
  unfold typed_vector. rewrite Hu', Hd', Ht'. reflexivity.
Qed.

Lemma type_prefix_canonical_rc e : 0 < length (esite e) -> forall (l : list (mplasmid * Z)) i,
  Forall (mplasmid_ok e) (map fst l) ->
  type_prefix (map (marg_rc e) l) i = (map tmod_of (map rc_smod (number i (map fst l))), true).
Proof.
  intros Hs. induction l as [|[m k] l IH]; intros i Hok; cbn [map type_prefix number fst]; [reflexivity|].
  inversion Hok as [|? ? Hm Hl]; subst. unfold marg_rc at 1. cbn [fst snd].
  rewrite (typed_module_canonical_rc e m i k Hs Hm). rewrite (IH (S i) Hl). reflexivity.
Qed.

(* assembling the reverse complements of the vector and of all its modules, each read from any
   origin, in any order, yields — up to the letter case of the junction overhangs and up to the
   origin — the reverse complement of the product of the original plasmids *)
Theorem end_to_end_strand e v kv kv' (l l' : list (mplasmid * Z)) (cs : list smod) :
  0 < length (esite e) -> vplasmid_ok e v -> Forall (mplasmid_ok e) (map fst l) ->
  map fst l' = map fst l ->
  let ms := number 0 (map fst l) in
  Permutation ms cs ->
  path (okey (qOdn v)) (map keys_of cs) (okey (qOup v)) ->
  okey (qOup v) <> okey (qOdn v) ->
  Forall (fun m => okey (so5 m) <> okey (qOup v)) cs ->
  Forall (fun m => okey (so3 m) <> okey (qOdn v)) cs ->
  clash_free rc_codes (map tmod_of ms) -> clash_free rc_codes (map tmod_of (map rc_smod ms)) ->
  let w := concat (map frag cs) ++ (qOup v ++ vbackbone v) in
  let w' := concat (map frag_rc (rev cs)) ++ (rc (qOdn v) ++ rc (vbackbone v)) in
  assemble_raw (generic_cls RVector e) (rotr kv (vword v)) (map (marg e) l) = Product w (map sid cs) [] /\
  assemble_raw (generic_cls RVector e) (rotr kv' (rc (vword v))) (map (marg_rc e) l') = Product w' (map sid (rev cs)) [] /\
  same_codes w' (rotl (Z.of_nat (length (rc (vbackbone v)))) (rc w)).
Proof.
  intros Hs Hv Hms Hl' ms Hperm Hpath Hne F5 F3 CF CF' w w'.
  assert (Hid : NoDup (map sid ms)) by (unfold ms; rewrite sid_number; apply seq_NoDup).
  destruct (strand_assembly (svec_of v) cs ms Hperm Hid Hpath Hne F5 F3 CF CF') as (H1 & H2 & H3).
  split; [|split].
  - apply end_to_end; assumption.
  - unfold assemble_raw.
    rewrite (typed_vector_canonical_rc e v kv' Hs Hv).
    assert (Hms' : Forall (mplasmid_ok e) (map fst l')) by (rewrite Hl'; exact Hms).
    rewrite (type_prefix_canonical_rc e Hs l' 0 Hms'). rewrite Hl'. fold ms.
    destruct (codes_eqb (vup (tvec_of (rc_svec (svec_of v)))) (vdown (tvec_of (rc_svec (svec_of v))))) eqn:E.
    { exfalso. apply codes_eqb_spec in E. cbn [vup vdown tvec_of rc_svec svec_of sup sdn] in E. rewrite !okey_rc in E. apply Hne. symmetry.
      rewrite <- (rc_codes_involutive (okey (qOdn v))), E. apply rc_codes_involutive. }
    destruct (product_build_map _ _ _ _ _ H2) as [mp Hmp]. rewrite Hmp. exact H2.
  - exact H3.
Qed.
