(* Record.v — L4 of the model: locations, features, and the operations of
   moclo/record.py (and the Biopython methods they delegate to) on feature
   tables: rotation (>> / <<), slicing, concatenation shift, flipping.
   Executable definitions only. *)
From MV Require Import Base.
From Coq Require String.

Open Scope Z_scope.

(* Biopython strands: +1, -1, None (0 is not generated; it behaves as None) *)
Inductive strand := Plus | Minus | NoStrand.

Definition strand_eqb (a b : strand) : bool :=
  match a, b with Plus,Plus | Minus,Minus | NoStrand,NoStrand => true | _,_ => false end.

(* SimpleLocation with exact positions: [pstart:pend](strand) *)
Record part := P { pstart : Z; pend : Z; pstrand : strand }.

(* a location is its list of parts: one part = SimpleLocation,
   two or more = CompoundLocation (operator "join") *)
Definition loc := list part.

(* a value of a /citation qualifier: a string ("[1]", or anything else) or, while
   AssemblyManager.assemble has the inputs dereferenced, a Reference object (interned:
   Biopython's Reference.__eq__ compares contents) *)
Inductive qcit := QStr (s : String.string) | QRef (r : nat).

(* feature.qualifiers (and feature.id): everything but "citation" interned as one number,
   carried and never inspected; the "citation" entry — the only part of a feature the
   library ever updates in place — as a value, None when the key is absent *)
Record quals := Q { qid : nat; qcits : option (list qcit) }.
Definition Q0 (n : nat) : quals := Q n None.
Coercion Q0 : nat >-> quals.
Bind Scope nat_scope with quals.

Definition qcit_eqb (a b : qcit) : bool :=
  match a, b with
  | QStr s, QStr t => String.eqb s t
  | QRef r, QRef u => Nat.eqb r u
  | _, _ => false
  end.
Fixpoint qcits_eqb (a b : list qcit) : bool :=
  match a, b with
  | [], [] => true
  | x :: a', y :: b' => qcit_eqb x y && qcits_eqb a' b'
  | _, _ => false
  end.
Definition quals_eqb (a b : quals) : bool :=
  Nat.eqb (qid a) (qid b) &&
  match qcits a, qcits b with
  | None, None => true
  | Some x, Some y => qcits_eqb x y
  | _, _ => false
  end.

Record feature := F {
  fsource : bool;        (* feature.type == "source" *)
  ftype   : nat;         (* any other type, interned *)
  fquals  : quals;       (* qualifiers dict (and id) *)
  floc    : loc
}.

Record record := R {
  rseq    : list letter;
  rfeats  : list feature;
  rtracks : list (list Z)       (* letter_annotations values, key order fixed *)
}.

Definition zlen {A} (l : list A) : Z := Z.of_nat (length l).

(* CompoundLocation.start / .end : min of starts / max of ends *)
Definition loc_start (l : loc) : Z :=
  match l with [] => 0 | p :: r => fold_left (fun m q => Z.min m (pstart q)) r (pstart p) end.
Definition loc_end (l : loc) : Z :=
  match l with [] => 0 | p :: r => fold_left (fun m q => Z.max m (pend q)) r (pend p) end.

(* ---------- rotation: CircularRecord.__rshift__ ---------------------- *)

Definition shift_part (off : Z) (p : part) : part :=
  P (pstart p + off) (pend p + off) (pstrand p).

(* record.py:196-213: wrap a shifted part that lies wholly past the end *)
Definition wrap_part (n : Z) (p : part) : part :=
  if (n <=? pend p) && (n <=? pstart p) then
    let r := pstart p / n in P (pstart p - r * n) (pend p - r * n) (pstrand p)
  else p.

Definition rot_part (idx n : Z) (p : part) : part := wrap_part n (shift_part idx p).

(* record.py:192-193: a whole-length "source" feature keeps its location *)
Definition keeps_loc (n : Z) (f : feature) : bool :=
  fsource f &&
  match floc f with
  | [p] => (pstart p =? 0) && (pend p =? n)
  | _ => false
  end.

(* the pinned test (F9) looked at the extreme coordinates only, so a compound
   source location with gaps was kept as well *)
Definition keeps_loc_pinned (n : Z) (f : feature) : bool :=
  fsource f && (loc_start (floc f) =? 0) && (loc_end (floc f) =? n).

Definition rot_feature (idx n : Z) (f : feature) : feature :=
  if keeps_loc n f then f
  else F (fsource f) (ftype f) (fquals f) (map (rot_part idx n) (floc f)).

Definition rot_record (k : Z) (r : record) : record :=
  let n := zlen (rseq r) in
  let idx := k mod n in
  if idx =? 0 then r
  else R (rotr idx (rseq r)) (map (rot_feature idx n) (rfeats r)) (map (rotr idx) (rtracks r)).

Definition rotl_record (k : Z) (r : record) : record :=
  rot_record ((- k) mod zlen (rseq r)) r.

(* the pinned variant (F4): tracks rotated with v[index:] + v[:index] *)
Definition rot_record_pinned (k : Z) (r : record) : record :=
  let n := zlen (rseq r) in
  let idx := k mod n in
  if idx =? 0 then r
  else R (rotr idx (rseq r)) (map (rot_feature idx n) (rfeats r))
         (map (rot_track_pinned idx) (rtracks r)).

(* ---------- what a location denotes, coordinates read modulo n -------- *)

Definition zrange (a b : Z) : list Z :=
  map (fun i => a + Z.of_nat i) (seq 0 (Z.to_nat (b - a))).

Definition covers_part (n : Z) (p : part) : list Z :=
  map (fun x => x mod n) (zrange (pstart p) (pend p)).

Definition covers (n : Z) (l : loc) : list (list Z) := map (covers_part n) l.

Definition letters_at {A} (d : A) (s : list A) (ps : list Z) : list A :=
  map (fun x => nth (Z.to_nat x) s d) ps.

Definition dN : letter := L cN true.

(* Bio.SeqFeature extract, read modulo n: part order, reverse strand complemented *)
Definition denote_part (s : list letter) (p : part) : list letter :=
  let w := letters_at dN s (covers_part (zlen s) p) in
  match pstrand p with Minus => rc w | _ => w end.

Definition denote (s : list letter) (l : loc) : list letter :=
  concat (map (denote_part s) l).

(* a well-formed part: what GenBank parsing and >> produce *)
Definition wf_part (n : Z) (p : part) : Prop :=
  0 <= pstart p < n /\ pstart p < pend p <= pstart p + n.
Definition wf_partb (n : Z) (p : part) : bool :=
  (0 <=? pstart p) && (pstart p <? n) && (pstart p <? pend p) && (pend p <=? pstart p + n).

(* ---------- slicing: SeqRecord.__getitem__(slice) --------------------- *)

Definition shift_feature (off : Z) (f : feature) : feature :=
  F (fsource f) (ftype f) (fquals f) (map (shift_part off) (floc f)).

Definition slice_feats (a b : Z) (fs : list feature) : list feature :=
  map (shift_feature (- a))
      (filter (fun f => (a <=? loc_start (floc f)) && (loc_end (floc f) <=? b)) fs).

(* rec[a:b] with 0 <= a <= b <= n (slice.indices already applied) *)
Definition slice_record (a b : Z) (r : record) : record :=
  R (slice (rseq r) (Z.to_nat a) (Z.to_nat b))
    (slice_feats a b (rfeats r))
    (map (fun v => slice v (Z.to_nat a) (Z.to_nat b)) (rtracks r)).

(* ---------- concatenation: SeqRecord.__add__ -------------------------- *)

Definition concat_record (x y : record) : record :=
  R (rseq x ++ rseq y)
    (rfeats x ++ map (shift_feature (zlen (rseq x))) (rfeats y))
    [].  (* tracks are kept by Biopython only for common keys; assembly inputs carry none *)

(* ---------- flipping: SeqFeature._flip -------------------------------- *)

Definition flip_strand (s : strand) : strand :=
  match s with Plus => Minus | Minus => Plus | NoStrand => NoStrand end.

Definition flip_part (n : Z) (p : part) : part :=
  P (n - pend p) (n - pstart p) (flip_strand (pstrand p)).

(* CompoundLocation._flip: part order kept unless every strand is None *)
Definition flip_loc (n : Z) (l : loc) : loc :=
  match l with
  | [p] => [flip_part n p]
  | _ => if forallb (fun p => strand_eqb (pstrand p) NoStrand) l
         then map (flip_part n) (rev l) else map (flip_part n) l
  end.

Definition flip_feature (n : Z) (f : feature) : feature :=
  F (fsource f) (ftype f) (fquals f) (flip_loc n (floc f)).

(* stable insertion sort by location start: list.sort(key=start) *)
Fixpoint insert_by_start (f : feature) (l : list feature) : list feature :=
  match l with
  | [] => [f]
  | g :: r => if loc_start (floc g) <=? loc_start (floc f)
              then g :: insert_by_start f r else f :: l
  end.
Definition sort_by_start (l : list feature) : list feature :=
  fold_left (fun acc f => insert_by_start f acc) l [].

(* CircularRecord.reverse_complement (features=True, letter_annotations=True) *)
Definition rc_record (r : record) : record :=
  let n := zlen (rseq r) in
  R (rc (rseq r)) (sort_by_start (map (flip_feature n) (rfeats r))) (map (@rev Z) (rtracks r)).
