(* Py.v — the target language of harness/src2coq.py, the translator that regenerates
   Gen/Src.v from the Python source of moclo on every run.

   A translated method is a Gallina function into the exception monad `exc`.
   This file gives the Python-level constructs the translator emits: exceptions,
   sequencing, `for`/`while` loops with loop-carried variables and early `return`,
   `try/except`, slices with Python's index normalisation, `%` that raises on zero,
   insertion-ordered dictionaries.  Executable definitions only. *)
From MV Require Import Base.
From Coq Require Import String.


Local Open Scope Z_scope.

(* ---------- exceptions -------------------------------------------------- *)

(* the key a KeyError carries: an overhang (Seq) or a registry key (str) *)
Inductive pykey := KeySeq (w : list letter) | KeyStr (s : string).

(* every exception the translated code can raise, documented MoClo errors first *)
Inductive pyexc :=
| XInvalidSequence                      (* moclo.errors.InvalidSequence *)
| XIllegalSite                          (* moclo.errors.IllegalSite (an InvalidSequence) *)
| XDuplicateModules (a b : nat)         (* moclo.errors.DuplicateModules(a, b): object ids *)
| XMissingModule (o : pykey)            (* moclo.errors.MissingModule(start_overhang) *)
| XKeyError (k : pykey)
| XIndexError
| XTypeError
| XValueError
| XZeroDivisionError
| XRuntimeError
| XNotImplementedError
| XOutOfFuel                            (* a `while` loop ran out of the fuel it was given *)
| XDangling.                            (* model only: an object identity with no object behind it *)

Inductive exc (A : Type) := Ok (a : A) | Err (e : pyexc).
Arguments Ok {A}.
Arguments Err {A}.

Definition bind {A B} (x : exc A) (k : A -> exc B) : exc B :=
  match x with Ok a => k a | Err e => Err e end.

Notation "x <- e ;; k" := (bind e (fun x => k))
  (at level 61, e at next level, right associativity).
Notation "' p <- e ;; k" := (bind e (fun x => match x with p => k end))
  (at level 61, p pattern, e at next level, right associativity).

(* control result of a loop body / loop: fall through with the loop-carried
   variables, or `return r` from the enclosing function *)
Inductive ctl (S R : Type) := Next (s : S) | Ret (r : R).
Arguments Next {S R}.
Arguments Ret {S R}.

(* for x in xs: body   — loop-carried variables st *)
Fixpoint py_for {X S R} (xs : list X) (st : S) (body : X -> S -> exc (ctl S R)) : exc (ctl S R) :=
  match xs with
  | [] => Ok (Next st)
  | x :: r =>
    match body x st with
    | Ok (Next st') => py_for r st' body
    | other => other
    end
  end.

(* a loop whose body contains no `return` *)
Fixpoint py_for0 {X S} (xs : list X) (st : S) (body : X -> S -> exc S) : exc S :=
  match xs with
  | [] => Ok st
  | x :: r => match body x st with Ok st' => py_for0 r st' body | Err e => Err e end
  end.

(* while cond: body   — fuel bounds the number of iterations *)
Fixpoint py_while0 {S} (fuel : nat) (st : S) (cond : S -> exc bool) (body : S -> exc S) : exc S :=
  match fuel with
  | O => Err XOutOfFuel
  | Datatypes.S f =>
    match cond st with
    | Err e => Err e
    | Ok false => Ok st
    | Ok true => match body st with Ok st' => py_while0 f st' cond body | Err e => Err e end
    end
  end.

(* [f(x) for x in xs] / {k: f(v) for k, v in d.items()} *)
Fixpoint py_mapM {A B} (f : A -> exc B) (l : list A) : exc (list B) :=
  match l with
  | [] => Ok []
  | x :: r => match f x with
              | Ok y => match py_mapM f r with Ok ys => Ok (y :: ys) | Err e => Err e end
              | Err e => Err e
              end
  end.

(* try: body  except <handler decides by exception value> *)
Definition py_try {A} (body : exc A) (handler : pyexc -> exc A) : exc A :=
  match body with Ok a => Ok a | Err e => handler e end.

(* range(a, b) *)
Definition py_range (a b : Z) : list Z :=
  map (fun i => a + Z.of_nat i) (seq 0 (Z.to_nat (b - a))).

(* ---------- integers ----------------------------------------------------- *)

Definition py_mod (a b : Z) : exc Z := if b =? 0 then Err XZeroDivisionError else Ok (a mod b).
Definition py_floordiv (a b : Z) : exc Z := if b =? 0 then Err XZeroDivisionError else Ok (a / b).

(* ---------- sequences ---------------------------------------------------- *)

Definition py_len {A} (s : list A) : Z := Z.of_nat (List.length s).

(* slice.indices for step 1 *)
Definition py_norm (n i : Z) : Z := if i <? 0 then Z.max (i + n) 0 else Z.min i n.

Definition py_slice {A} (s : list A) (lo hi : option Z) : list A :=
  let n := py_len s in
  let a := match lo with None => 0 | Some i => py_norm n i end in
  let b := match hi with None => n | Some i => py_norm n i end in
  firstn (Z.to_nat (b - a)) (skipn (Z.to_nat a) s).

(* t[i] on a pair *)
Definition py_item0 {A B} (p : A * B) : A := fst p.
Definition py_item1 {A B} (p : A * B) : B := snd p.

(* s * 2 on a string *)
Definition py_twice {A} (s : list A) : list A := s ++ s.

(* ---------- overloaded + ------------------------------------------------- *)

Class PyAdd (A : Type) := py_add : A -> A -> A.
#[global] Instance PyAdd_Z : PyAdd Z := Z.add.
#[global] Instance PyAdd_list {A} : PyAdd (list A) := @app A.

(* ---------- insertion-ordered dictionaries ------------------------------ *)

Section Dict.
  Context {K V : Type} (keq : K -> K -> bool).
  Definition dict := list (K * V).

  Fixpoint dict_get (d : dict) (k : K) : option V :=
    match d with
    | [] => None
    | (k0, v) :: r => if keq k0 k then Some v else dict_get r k
    end.

  (* d.setdefault(k, v): the value now stored under k, and the dictionary *)
  Definition dict_setdefault (d : dict) (k : K) (v : V) : V * dict :=
    match dict_get d k with
    | Some v0 => (v0, d)
    | None => (v, d ++ [(k, v)])
    end.

  Fixpoint dict_remove (d : dict) (k : K) : dict :=
    match d with
    | [] => []
    | (k0, v) :: r => if keq k0 k then r else (k0, v) :: dict_remove r k
    end.

  (* d[k] = v: an existing key keeps its place (and its key object) *)
  Fixpoint dict_set (d : dict) (k : K) (v : V) : dict :=
    match d with
    | [] => [(k, v)]
    | (k0, v0) :: r => if keq k0 k then (k0, v) :: r else (k0, v0) :: dict_set r k v
    end.

  Definition dict_keys (d : dict) : list K := map fst d.
  Definition dict_values (d : dict) : list V := map snd d.
  Definition dict_nonempty (d : dict) : bool := match d with [] => false | _ => true end.
End Dict.

(* warnings.warn(...) calls made by a function, in order *)
Inductive pywarning := WUnusedModules (ids : list nat).   (* moclo.errors.UnusedModules: the object ids of the modules *)

Definition is_none {A} (o : option A) : bool := match o with None => true | Some _ => false end.
