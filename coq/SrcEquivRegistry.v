(* SrcEquivRegistry.v — CombinedRegistry as regenerated from moclo/registry/base.py (Gen/Src.v)
   is the model of Registry.v: adding a registry is the setdefault-fold (first member wins),
   lookup, membership, iteration and length read the same dictionary. *)
From MV Require Import Base Registry RegistryLemmas Py PyObj.
From MV.Gen Require Import Src.
From Coq Require Import String.
Local Open Scope Z_scope.

Definition entries (r : list regitem) : list (string * regitem) := map (fun i => (item_id i, i)) r.

Lemma dict_get_assoc (d : list (string * regitem)) k : dict_get String.eqb d k = assoc String.eqb k d.
Proof. induction d as [|[x i] d IH]; cbn; [reflexivity|]. now rewrite IH. Qed.

Lemma setdefault_cadd d i :
  snd (dict_setdefault String.eqb d (item_id i) i) = cadd String.eqb d (item_id i, i).
Proof.
  unfold dict_setdefault, cadd. cbn [fst]. rewrite dict_get_assoc.
  destruct (assoc String.eqb (item_id i) d); reflexivity.
Qed.

Theorem CombinedRegistry_add_registry_eq d r :
  CombinedRegistry_add_registry d r = Ok (add_registry String.eqb d (entries r)).
Proof.
  unfold CombinedRegistry_add_registry, add_registry.
  assert (H : forall r d, py_for0 r d (fun item self => Ok (snd (dict_setdefault String.eqb self (item_id item) item)))
                          = Ok (fold_left (cadd String.eqb) (entries r) d)).
  { induction r0 as [|i r0 IH]; intros d0; cbn [py_for0 entries map fold_left]; [reflexivity|].
    rewrite setdefault_cadd. apply IH. }
  rewrite H. reflexivity.
Qed.

Theorem CombinedRegistry_lshift_eq d r :
  CombinedRegistry_lshift d r = Ok (add_registry String.eqb d (entries r)).
Proof. unfold CombinedRegistry_lshift. now rewrite CombinedRegistry_add_registry_eq. Qed.

(* any sequence of << from the empty combination is Registry.combine *)
Theorem CombinedRegistry_fold_eq regs :
  fold_left (fun acc r => x <- acc ;; CombinedRegistry_lshift x r) regs (Ok [])
  = Ok (combine String.eqb (map entries regs)).
Proof.
  unfold combine. generalize (@nil (string * regitem)).
  induction regs as [|r regs IH]; intros d; cbn [fold_left map]; [reflexivity|].
  cbn [bind]. rewrite CombinedRegistry_lshift_eq. apply IH.
Qed.

Theorem CombinedRegistry_getitem_eq d k :
  CombinedRegistry_getitem d k =
  match assoc String.eqb k d with Some i => Ok i | None => Err (XKeyError (KeyStr k)) end.
Proof.
  unfold CombinedRegistry_getitem, dict_getitem_str. rewrite dict_get_assoc.
  destruct (assoc String.eqb k d); reflexivity.
Qed.

Theorem CombinedRegistry_contains_eq d k :
  CombinedRegistry_contains d k = Ok (match assoc String.eqb k d with Some _ => true | None => false end).
Proof.
  unfold CombinedRegistry_contains, dict_mem_str. rewrite dict_get_assoc.
  destruct (assoc String.eqb k d); reflexivity.
Qed.

Theorem CombinedRegistry_iter_eq d : CombinedRegistry_iter d = Ok (map fst d).
Proof. reflexivity. Qed.

Theorem CombinedRegistry_len_eq d : CombinedRegistry_len d = Ok (Z.of_nat (List.length d)).
Proof. reflexivity. Qed.
