(* SrcEquivRegistry.v — CombinedRegistry as regenerated from moclo/registry/base.py (Gen/Src.v)
   is the model of Registry.v: adding a registry is the setdefault-fold (first member wins),
   lookup, membership, iteration and length read the same dictionary. *)
From MV Require Import Base Registry RegistryLemmas Py PyObj.
From MV.Gen Require Import Src.
From Coq Require Import String.
Local Open Scope Z_scope.

Definition entries (r : list regitem) : list (string * regitem) := map (fun i => (item_id i, i)) r.

Lemma dict_get_assoc (d : list (string * regitem)) k : dict_get String.eqb d k = assoc String.eqb k d.
Proof. induction d as [|[x i] d IH]; cbn; [reflexivity|]. now rewrite IH. Qed.

Lemma setdefault_cadd d i :
  snd (dict_setdefault String.eqb d (item_id i) i) = cadd String.eqb d (item_id i, i).
Proof.
  unfold dict_setdefault, cadd. cbn [fst]. rewrite dict_get_assoc.
  destruct (assoc String.eqb (item_id i) d); reflexivity.
Qed.

Theorem CombinedRegistry_add_registry_eq d r :
  CombinedRegistry_add_registry d r = Ok (add_registry String.eqb d (entries r)).
Proof.
  unfold CombinedRegistry_add_registry, add_registry.
  assert (H : forall r d, py_for0 r d (fun item self => Ok (snd (dict_setdefault String.eqb self (item_id item) item)))
                          = Ok (fold_left (cadd String.eqb) (entries r) d)).
  { induction r0 as [|i r0 IH]; intros d0; cbn [py_for0 entries map fold_left]; [reflexivity|].
    rewrite setdefault_cadd. apply IH. }
  rewrite H. reflexivity.
Qed.

Theorem CombinedRegistry_lshift_eq d r :
  CombinedRegistry_lshift d r = Ok (add_registry String.eqb d (entries r)).
Proof. unfold CombinedRegistry_lshift. now rewrite CombinedRegistry_add_registry_eq. Qed.

(* any sequence of << from the empty combination is Registry.combine *)
Theorem CombinedRegistry_fold_eq regs :
  fold_left (fun acc r => x <- acc ;; CombinedRegistry_lshift x r) regs (Ok [])
  = Ok (combine String.eqb (map entries regs)).
Proof.
  unfold combine. generalize (@nil (string * regitem)).
  induction regs as [|r regs IH]; intros d; cbn [fold_left map]; [reflexivity|].
  cbn [bind]. rewrite CombinedRegistry_lshift_eq. apply IH.
Qed.

Theorem CombinedRegistry_getitem_eq d k :
  CombinedRegistry_getitem d k =
  match assoc String.eqb k d with Some i => Ok i | None => Err (XKeyError (KeyStr k)) end.
Proof.
  unfold CombinedRegistry_getitem, dict_getitem_str. rewrite dict_get_assoc.
  destruct (assoc String.eqb k d); reflexivity.
Qed.

Theorem CombinedRegistry_contains_eq d k :
  CombinedRegistry_contains d k = Ok (match assoc String.eqb k d with Some _ => true | None => false end).
Proof.
  unfold CombinedRegistry_contains, dict_mem_str. rewrite dict_get_assoc.
  destruct (assoc String.eqb k d); reflexivity.
Qed.

Theorem CombinedRegistry_iter_eq d : CombinedRegistry_iter d = Ok (map fst d).
Proof. reflexivity. Qed.

Theorem CombinedRegistry_len_eq d : CombinedRegistry_len d = Ok (Z.of_nat (List.length d)).
Proof. reflexivity. Qed.

(* ======================================================================================== *)
(* EmbeddedRegistry and FilesystemRegistry as regenerated from registry/base.py             *)
(* ======================================================================================== *)

From MV Require Import SrcEquivRecord.
From Coq Require Import Lia.

(* the archive index the model speaks about: (member name, record id) *)
Definition emb_index (self : embreg) : list (string * string) :=
  map (fun e => (te_name e, gr_id (te_record e))) (emb_archive self).

Theorem EmbeddedRegistry_iter_eq self : EmbeddedRegistry_iter self = Ok (emb_iter (emb_index self)).
Proof.
  unfold EmbeddedRegistry_iter, emb_stream, tar_open_gz, tar_iter, emb_iter, emb_index.
  rewrite (py_mapM_map te_name) by reflexivity. cbn [bind app]. now rewrite map_map.
Qed.

Theorem EmbeddedRegistry_len_eq self : EmbeddedRegistry_len self = Ok (Z.of_nat (emb_len (emb_index self))).
Proof.
  unfold EmbeddedRegistry_len, emb_stream, tar_open, tar_getmembers, emb_len, emb_index.
  now rewrite map_length.
Qed.

(* an entry that loads: its record has exactly one resistance cassette and the entity constructor accepts it *)
Definition loadable (e : tarentry) : Prop :=
  (exists a, find_resistance (te_record e) = Ok a) /\ gr_entity (te_record e) <> None.

Definition item_of (e : tarentry) : regitem :=
  let r := te_record e in
  mk_Item (gr_id r) (gr_name r) (match find_resistance r with Ok a => a | Err _ => None end)
          (match gr_entity r with Some x => x | None => 0%nat end).

Definition data_step (d : list (string * regitem)) (e : tarentry) : list (string * regitem) :=
  dict_set String.eqb d (gr_id (te_record e)) (item_of e).

Lemma data_eq self : Forall loadable (emb_archive self) ->
  EmbeddedRegistry_data self = Ok (fold_left data_step (emb_archive self) []).
Proof.
  intros Hl. unfold EmbeddedRegistry_data, emb_stream, tar_open_gz, tar_iter. cbv zeta.
  match goal with |- bind (py_for0 _ _ ?b) _ = _ => set (body := b) end.
  assert (H : forall a d, Forall loadable a -> py_for0 a d body = Ok (fold_left data_step a d)).
  { induction a as [|e a IH]; intros d H; cbn [py_for0 fold_left]; [reflexivity|].
    inversion H as [|? ? [[x Ex] He] Ha]; subst.
    unfold body at 1.
    unfold io_wrap, tar_extractfile, grec_circular, seqio_read, EmbeddedRegistry_load_name,
      EmbeddedRegistry_load_resistance, emb_load_entity, grec_entity, grec_id, grec_name. cbn [bind].
    rewrite Ex. cbn [bind py_try].
    destruct (gr_entity (te_record e)) as [y|] eqn:Ey; [|congruence]. cbn [bind py_try].
    rewrite <- (IH _ Ha). f_equal. unfold data_step, item_of. now rewrite Ex, Ey. }
  rewrite (H _ _ Hl). reflexivity.
Qed.

Lemma dict_get_set d k k' (v : regitem) :
  dict_get String.eqb (dict_set String.eqb d k v) k' = if String.eqb k k' then Some v else dict_get String.eqb d k'.
Proof.
  induction d as [|[k0 v0] d IH]; cbn.
  - reflexivity.
  - destruct (String.eqb k0 k) eqn:E0; cbn.
    + apply String.eqb_eq in E0. subst k0. destruct (String.eqb k k'); reflexivity.
    + rewrite IH. destruct (String.eqb k0 k') eqn:E1; [|reflexivity].
      apply String.eqb_eq in E1. subst k0. now rewrite String.eqb_sym, E0.
Qed.

Lemma data_lookup : forall a d k,
  dict_get String.eqb (fold_left data_step a d) k =
  match find (fun e => String.eqb (gr_id (te_record e)) k) (rev a) with
  | Some e => Some (item_of e)
  | None => dict_get String.eqb d k
  end.
Proof.
  induction a as [|e a IH]; intros d k; cbn [fold_left rev find]; [reflexivity|].
  rewrite IH. 
  assert (Hf : forall l, find (fun e0 => String.eqb (gr_id (te_record e0)) k) (l ++ [e]) =
                        match find (fun e0 => String.eqb (gr_id (te_record e0)) k) l with
                        | Some x => Some x
                        | None => if String.eqb (gr_id (te_record e)) k then Some e else None
                        end).
  { induction l as [|x l IHl]; cbn; [destruct (String.eqb _ k); reflexivity|].
    destruct (String.eqb (gr_id (te_record x)) k); [reflexivity|exact IHl]. }
  rewrite Hf. destruct (find _ (rev a)); [reflexivity|].
  unfold data_step. rewrite dict_get_set. destruct (String.eqb (gr_id (te_record e)) k); reflexivity.
Qed.

(* registry[key]: the item built from the LAST member whose record has that id (a dictionary filled
   in archive order), KeyError when there is none — emb_lookup of the model *)
Theorem EmbeddedRegistry_getitem_eq self k : Forall loadable (emb_archive self) ->
  EmbeddedRegistry_getitem self k =
  match emb_lookup String.eqb (emb_index self) k with
  | Some (name, id) => match find (fun e => String.eqb (gr_id (te_record e)) k) (rev (emb_archive self)) with
                       | Some e => Ok (item_of e) | None => Err (XKeyError (KeyStr k)) end
  | None => Err (XKeyError (KeyStr k))
  end.
Proof.
  intros Hl. unfold EmbeddedRegistry_getitem. rewrite (data_eq self Hl). cbn [bind]. unfold dict_getitem_str. rewrite data_lookup. cbn [dict_get].
  unfold emb_lookup, emb_index. rewrite <- map_rev.
  induction (rev (emb_archive self)) as [|e l IH]; cbn [map find snd]; [reflexivity|].
  destruct (String.eqb (gr_id (te_record e)) k); [reflexivity|exact IH].
Qed.

(* ---------- FilesystemRegistry ---------------------------------------------------------------- *)

Definition fs_listing (self : fsreg) : list (string * bool) := map fst (fsr_listing self).

(* the patterns _files builds from the extensions select what glob_matches selects *)
Lemma files_glob self n : existsb (fun p => glob1 p n) (fsreg_files self) = glob_matches (fsr_exts self) n.
Proof.
  unfold fsreg_files, glob_matches. induction (fsr_exts self) as [|e l IH]; cbn [map existsb]; [reflexivity|].
  rewrite IH. reflexivity.
Qed.

Lemma ends_with_empty s : ends_with "" s = true.
Proof. induction s as [|c r IH]; cbn [ends_with]; [reflexivity|]. rewrite IH. apply Bool.orb_true_r. Qed.

(* with exclude_dirs=["*"] every directory is left out, whatever its name *)
Lemma filterdir_files self p :
  map fi_name (fs_filterdir self p (fsreg_files self) ["*"%string]) = fs_files (glob_matches (fsr_exts self)) (fs_listing self).
Proof.
  unfold fs_filterdir, fs_files, fs_listing. rewrite map_map. cbn [fi_name].
  induction (fsr_listing self) as [|[[n b] r] l IH]; cbn [filter map fst snd]; [reflexivity|].
  destruct b; cbn [andb].
  - rewrite files_glob. destruct (glob_matches (fsr_exts self) n); cbn [map fst]; now rewrite IH.
  - cbn [existsb glob1 lower]. rewrite ends_with_empty. cbn [orb negb]. exact IH.
Qed.

(* the _files property as regenerated: "*." + extension for every extension, in order *)
Lemma FilesystemRegistry_files_eq self : FilesystemRegistry_files self = Ok (fsreg_files self).
Proof.
  unfold FilesystemRegistry_files, fsreg_files. rewrite (py_mapM_map fmt_glob_ext) by reflexivity. reflexivity.
Qed.

Theorem FilesystemRegistry_iter_eq self :
  FilesystemRegistry_iter self = Ok (fs_iter splitext_stem (glob_matches (fsr_exts self)) (fs_listing self)).
Proof.
  unfold FilesystemRegistry_iter, fs_iter. rewrite FilesystemRegistry_files_eq. cbn [bind]. rewrite <- (filterdir_files self "/").
  rewrite (py_for0_map (fun f => splitext_stem (fi_name f))) by reflexivity. cbn [app bind]. now rewrite map_map.
Qed.

Theorem FilesystemRegistry_len_eq self :
  FilesystemRegistry_len self = Ok (Z.of_nat (fs_len (glob_matches (fsr_exts self)) (fs_listing self))).
Proof.
  unfold FilesystemRegistry_len, fs_len. rewrite FilesystemRegistry_files_eq. cbn [bind]. rewrite <- (filterdir_files self "/").
  now rewrite map_length.
Qed.

(* registry[key]: the first listed file matching the extensions whose stem is the key is opened,
   its record renamed to the key, characterised, its resistance looked up; KeyError when no file
   has that stem *)
Theorem FilesystemRegistry_getitem_eq self k :
  FilesystemRegistry_getitem self k =
  match fs_lookup String.eqb splitext_stem (glob_matches (fsr_exts self)) (fs_listing self) k with
  | Some n => r <- fs_open self n ;;
              let r' := grec_set_id r (splitext_stem n) in
              ent <- grec_entity r' ;; res <- find_resistance r' ;;
              Ok (mk_Item (splitext_stem n) (gr_description r) res ent)
  | None => Err (XKeyError (KeyStr k))
  end.
Proof.
  unfold FilesystemRegistry_getitem, fs_lookup. rewrite FilesystemRegistry_files_eq. cbn [bind]. rewrite <- (filterdir_files self "/").
  induction (fs_filterdir self "/" (fsreg_files self) ["*"%string]) as [|f l IH]; cbn [py_for map find bind]; [reflexivity|].
  unfold py_splitext at 1. cbn [fst snd]. unfold py_eq, PyEq_string.
  destruct (String.eqb (splitext_stem (fi_name f)) k) eqn:E.
  - destruct (fs_open self (fi_name f)) as [r|x]; cbn [bind]; [|reflexivity].
    unfold fsreg_characterize, grec_circular, seqio_read.
    destruct (grec_entity (grec_set_id r (splitext_stem (fi_name f)))) as [ent|x]; cbn [bind]; [|reflexivity].
    destruct (find_resistance (grec_set_id r (splitext_stem (fi_name f)))) as [res|x]; cbn [bind]; reflexivity.
  - exact IH.
Qed.
