(* CacheLemmas.v — the cache never changes an answer (repaired lookup). *)
From MV Require Import Base Regex Typing Cache.
From Coq Require Import String.

(* class identity: two entries with the same name are the same class *)
Definition consistent (es : list centry) : Prop :=
  forall e1 e2, In e1 es -> In e2 es -> cname e1 = cname e2 -> ccls e1 = ccls e2.

(* every stored pattern is the structure of the class that owns it *)
Definition Inv (es : list centry) (st : cache) : Prop :=
  forall n p, cache_get n st = Some p -> exists e, In e es /\ cname e = n /\ cpat (ccls e) = p.

Lemma inv_init es : Inv es [].
Proof. intros n p H. discriminate H. Qed.

Lemma with_pat_own c : with_pat c (cpat c) = c.
Proof. destruct c; reflexivity. Qed.

Lemma get_regex_own es st e : consistent es -> In e es -> Inv es st ->
  fst (get_regex lookup_own st e) = cpat (ccls e) /\ Inv es (snd (get_regex lookup_own st e)).
Proof.
  intros Hc He Hi. unfold get_regex, lookup_own.
  destruct (cache_get (cname e) st) as [p|] eqn:E; simpl.
  - split; [|exact Hi]. destruct (Hi _ _ E) as (e' & He' & En & Ep).
    rewrite <- Ep. f_equal. now apply Hc.
  - split; [reflexivity|]. intros n p. simpl.
    destruct (String.eqb (cname e) n) eqn:En.
    + intros H. inversion H; subst. apply String.eqb_eq in En. exists e. auto.
    + apply Hi.
Qed.

Lemma query_own es st e s : consistent es -> In e es -> Inv es st ->
  fst (query lookup_own st e s) = fresh e s /\ Inv es (snd (query lookup_own st e s)).
Proof.
  intros Hc He Hi. unfold query.
  pose proof (get_regex_own es st e Hc He Hi) as [Hp Hi'].
  destruct (get_regex lookup_own st e) as [p st']. simpl in *. subst p.
  now rewrite with_pat_own.
Qed.

Lemma run_own es : consistent es -> forall h st, Inv es st ->
  (forall x, In x h -> In (fst x) es) ->
  fst (run lookup_own st h) = map (fun x => fresh (fst x) (snd x)) h /\
  Inv es (snd (run lookup_own st h)).
Proof.
  intros Hc. induction h as [|[e s] r IH]; intros st Hi Hin; simpl.
  - auto.
  - pose proof (query_own es st e s Hc (Hin (e, s) (or_introl eq_refl)) Hi) as [Ha Hi'].
    destruct (query lookup_own st e s) as [a st']. simpl in *.
    specialize (IH st' Hi' (fun x Hx => Hin x (or_intror Hx))).
    destruct (run lookup_own st' r) as [l st'']. simpl in *.
    destruct IH as [-> Hi'']. now subst a.
Qed.

(* every answer of every history equals the answer of the same query asked first *)
Theorem history_independent h : consistent (map fst h) ->
  fst (run lookup_own [] h) = map (fun x => fresh (fst x) (snd x)) h.
Proof.
  intros Hc. apply (run_own (map fst h) Hc h [] (inv_init _)).
  intros x Hx. now apply in_map.
Qed.

Theorem query_after_history h e s : consistent (map fst h ++ [e]) ->
  fst (query lookup_own (snd (run lookup_own [] h)) e s) = fresh e s.
Proof.
  intros Hc. set (es := map fst h ++ [e]).
  assert (Hi : Inv es (snd (run lookup_own [] h))).
  { apply (run_own es Hc h [] (inv_init _)). intros x Hx. apply in_or_app. left. now apply in_map. }
  apply (query_own es _ e s Hc); [|exact Hi]. apply in_or_app. right. simpl. auto.
Qed.
