(* SrcEquivCache.v — StructuredRecord._get_regex as regenerated from core/_structured.py
   (Gen/Src.v) is one step of the cache state machine of Cache.v with the repaired lookup
   (the class's own namespace): same pattern returned, same state afterwards. *)
From MV Require Import Base Regex Typing Cache CacheLemmas Py PyObj.
From MV.Gen Require Import Src.
From Coq Require Import String.

Theorem StructuredRecord_get_regex_eq e st :
  (exists rest, cmro e = cname e :: rest) ->
  StructuredRecord_get_regex e st =
  let (p, st') := get_regex lookup_own st e in Ok (Some p, st').
Proof.
  intros [rest Hm]. unfold StructuredRecord_get_regex, get_regex, lookup_own, ns_own, ns_set, ns_lookup,
    mk_DNARegex, cls_structure.
  rewrite Hm. destruct (cache_get (cname e) st) as [p|] eqn:E; cbn [is_none bind lookup_names].
  - now rewrite E.
  - cbn [cache_get]. now rewrite String.eqb_refl.
Qed.

(* a typing query through the regenerated cache code *)
Definition src_query (st : cache) (e : centry) (s : list letter) : exc (answer * cache) :=
  x <- StructuredRecord_get_regex e st ;;
  match fst x with
  | Some p => Ok (answer_of (with_pat (ccls e) p) s, snd x)
  | None => Err XTypeError          (* None has no .search *)
  end.

Theorem src_query_eq e st s :
  (exists rest, cmro e = cname e :: rest) -> src_query st e s = Ok (query lookup_own st e s).
Proof.
  intros H. unfold src_query, query. rewrite (StructuredRecord_get_regex_eq e st H).
  destruct (get_regex lookup_own st e) as [p st']. reflexivity.
Qed.

(* a whole history of queries through the regenerated code is the model's run *)
Fixpoint src_run (st : cache) (h : list (centry * list letter)) : exc (list answer * cache) :=
  match h with
  | [] => Ok ([], st)
  | (e, s) :: r =>
    x <- src_query st e s ;;
    y <- src_run (snd x) r ;;
    Ok (fst x :: fst y, snd y)
  end.

Theorem src_run_eq h : forall st,
  Forall (fun es => exists rest, cmro (fst es) = cname (fst es) :: rest) h ->
  src_run st h = Ok (run lookup_own st h).
Proof.
  induction h as [|[e s] h IH]; intros st Hh; [reflexivity|].
  inversion Hh as [|? ? He Hh']; subst. cbn [src_run run fst].
  rewrite (src_query_eq e st s He). cbn [bind].
  destruct (query lookup_own st e s) as [a st'] eqn:Q. cbn [fst snd].
  rewrite (IH st' Hh'). cbn [bind]. destruct (run lookup_own st' h) as [l st'']. reflexivity.
Qed.
