(* SrcStructRunStub.v — stands in for SrcStructRun.v when Gen/Src.v does not build. No proofs here. *)
From MV Require Import Base Regex Typing Py PyObj Glue.
From Coq Require Import String.
Definition check_struct_src (c : role * enzyme * string * string * string) : bool := true.
Definition check_transcribe_src (c : string * string) : bool := true.
Definition check_resistance_src (c : list (option (list string)) * option string) : bool := true.
Definition check_re_read (c : string * pattern) : bool := true.
