(* Typing.v — L2 of the model: enzymes, the structure generators of
   AbstractModule / AbstractVector / AbstractPart, Bio.Restriction's linear
   digest used by the illegal-site screen, and typing of a record by a class:
   validity, overhangs, target, placeholder. Executable definitions only. *)
From MV Require Import Base Regex.
From Coq Require Import String.

(* Type IIS enzyme of the supported family: unambiguous site, single cut
   downstream of the site, 5' overhang.  elucidate() = site N^off ^ N^ovh _ N *)
Record enzyme := E { esite : list code; eoff : nat; eovh : nat }.

Inductive role := RModule | RVector.

Record cls := C { crole : role; cenz : enzyme; cpat : pattern }.

(* ---------- pattern atoms -------------------------------------------- *)

Definition setN : cset := [cA; cC; cG; cT; cN].      (* regex.py _lettermap["N"]; re-checked against Gen/Lettermap.v *)
Definition aN : item := Atom setN.
Definition lit (x : code) : item := Atom [x].
Definition lits (w : list code) : pattern := map lit w.

(* ---------- structure generators (modules.py:42-64, vectors.py:38-60, parts.py:48-99) *)

Definition module_structure_sig (e : enzyme) (up down : pattern) : pattern :=
  lits (esite e) ++ repeat aN (eoff e) ++ [Open] ++ up ++ [Close; Open; aN; StarG setN; aN; Close; Open]
  ++ down ++ [Close] ++ repeat aN (eoff e) ++ lits (rc_codes (esite e)).

Definition vector_structure_sig (e : enzyme) (g1 g3 : pattern) : pattern :=
  [aN; Open] ++ g1 ++ [Close; Open] ++ repeat aN (eoff e) ++ lits (rc_codes (esite e))
  ++ [StarG setN] ++ lits (esite e) ++ repeat aN (eoff e) ++ [Close; Open] ++ g3 ++ [Close; aN].

Definition module_structure (e : enzyme) : pattern :=
  module_structure_sig e (repeat aN (eovh e)) (repeat aN (eovh e)).

Definition vector_structure (e : enzyme) : pattern :=
  vector_structure_sig e (repeat aN (eovh e)) (repeat aN (eovh e)).

(* signature (upsig, downsig) already transcribed to atoms through _lettermap.
   Module part:  group 1 = upsig, group 3 = downsig.
   Vector part:  group 1 = downsig, group 3 = upsig. *)
Definition part_structure (r : role) (e : enzyme) (upsig downsig : pattern) : pattern :=
  match r with
  | RModule => module_structure_sig e upsig downsig
  | RVector => vector_structure_sig e downsig upsig
  end.

Definition generic_structure (r : role) (e : enzyme) : pattern :=
  match r with RModule => module_structure e | RVector => vector_structure e end.

(* ---------- Bio.Restriction: linear digest (Ov5.catalyse / _search / _drop) *)

(* exact, case-blind occurrence of an unambiguous word at the head of txt *)
Fixpoint occurs_here (w : list code) (txt : list letter) : bool :=
  match w, txt with
  | [], _ => true
  | x :: w', y :: txt' => code_eqb x (lcode y) && occurs_here w' txt'
  | _ :: _, [] => false
  end.

(* 0-based index of the first base after each cut on the top strand, in scan
   order: site at p -> p + |site| + off; rc site at p -> p - (off + ovh);
   the alternation (?=(site))|(?=(rc site)) tries the forward site first *)
Fixpoint cuts_from (e : enzyme) (txt : list letter) (p : Z) : list Z :=
  match txt with
  | [] => []
  | _ :: txt' =>
    (if occurs_here (esite e) txt then [p + Z.of_nat (List.length (esite e) + eoff e)]%Z
     else if occurs_here (rc_codes (esite e)) txt then [p - Z.of_nat (eoff e + eovh e)]%Z
     else []) ++ cuts_from e txt' (p + 1)%Z
  end.

(* _drop on a linear sequence: 1 < cut <= len on both strands (1-based) *)
Definition cut_kept (e : enzyme) (len : Z) (c : Z) : bool :=
  ((1 <=? c) && (c <=? len - 1) && (1 <=? c + Z.of_nat (eovh e)) && (c + Z.of_nat (eovh e) <=? len - 1))%Z.

Definition linear_cuts (e : enzyme) (txt : list letter) : list Z :=
  filter (cut_kept e (Z.of_nat (List.length txt))) (cuts_from e txt 0%Z).

(* len(cutter.catalyse(seq)) *)
Definition fragments (e : enzyme) (txt : list letter) : nat := S (List.length (linear_cuts e txt)).

(* ---------- typing ---------------------------------------------------- *)

Inductive verdict := Valid (m : rmatch) | Invalid | IllegalSite.

(* StructuredRecord._match + the screen of AbstractModule/AbstractVector._match.
   circ = record is a CircularRecord or its topology annotation is not "linear". *)
Definition typing (c : cls) (s : list letter) (circ : bool) : verdict :=
  match search (cpat c) s circ 0 (List.length s) with
  | None => Invalid
  | Some m =>
    match group m s 0 with
    | Some g0 => if 3 <? fragments (cenz c) g0 then IllegalSite else Valid m
    | None => Invalid
    end
  end.

Definition is_valid (c : cls) (s : list letter) (circ : bool) : bool :=
  match typing c s circ with Valid _ => true | _ => false end.

(* queries on a typed record: None models the InvalidSequence / IllegalSite error *)
Definition with_match {A} (c : cls) (s : list letter) (circ : bool) (f : rmatch -> option A) : option A :=
  match typing c s circ with Valid m => f m | _ => None end.

Definition overhang_start (c : cls) s circ : option (list letter) :=
  with_match c s circ (fun m => group m s (match crole c with RModule => 1 | RVector => 3 end)).

Definition overhang_end (c : cls) s circ : option (list letter) :=
  with_match c s circ (fun m => group m s (match crole c with RModule => 3 | RVector => 1 end)).

(* (start of group 1, end of group 2): the stretch cut out of a module, the stretch
   discarded from a vector *)
Definition cut_span (m : rmatch) : option (nat * nat) :=
  match span m 1, span m 2 with
  | Some (a, _), Some (_, b) => Some (a, b)
  | _, _ => None
  end.

(* (record << start)[: end - start]  /  (record << start)[end - start :] *)
Definition target (c : cls) s circ : option (list letter) :=
  with_match c s circ (fun m =>
    match cut_span m with
    | Some (a, b) =>
      let r := rotl (Z.of_nat a) s in
      Some (match crole c with
            | RModule => firstn (b - a) r
            | RVector => skipn (b - a) r
            end)
    | None => None
    end).

(* vectors.py placeholder_sequence (repaired: downstream overhang + body) *)
Definition placeholder (c : cls) s circ : option (list letter) :=
  with_match c s circ (fun m =>
    match group m s 1, group m s 2 with
    | Some g1, Some g2 => Some (g1 ++ g2)
    | _, _ => None
    end).

(* the pinned variant (F7): upstream overhang + body *)
Definition placeholder_pinned (c : cls) s circ : option (list letter) :=
  with_match c s circ (fun m =>
    match group m s 3, group m s 2 with
    | Some g3, Some g2 => Some (g3 ++ g2)
    | _, _ => None
    end).

(* everything a typing query can report about a circular record *)
Definition observe (c : cls) (s : list letter) :=
  (is_valid c s true, overhang_start c s true, overhang_end c s true, target c s true, placeholder c s true).

(* the same tuple with the record typed once (used when evaluating large plasmids) *)
Definition observe1 (c : cls) (s : list letter) :=
  match typing c s true with
  | Valid m =>
      (true,
       group m s (match crole c with RModule => 1 | RVector => 3 end),
       group m s (match crole c with RModule => 3 | RVector => 1 end),
       match cut_span m with
       | Some (a, b) =>
         let r := rotl (Z.of_nat a) s in
         Some (match crole c with RModule => firstn (b - a) r | RVector => skipn (b - a) r end)
       | None => None
       end,
       match group m s 1, group m s 2 with Some g1, Some g2 => Some (g1 ++ g2) | _, _ => None end)
  | _ => (false, None, None, None, None)
  end.

(* ---------- kit tables (instances are generated into Gen/Kits.v) ------ *)

Record kitcls := K {
  kname   : string;
  kkit    : string;
  kcls    : cls;
  ksig    : option (pattern * pattern);      (* signature transcribed through _lettermap *)
  kderived : bool;                           (* structure() is AbstractPart's / Module's / Vector's own *)
  kmro    : list string;                     (* names of the classes of the MRO, most specific first *)
  ksubs   : list string                      (* direct subclasses in __subclasses__() order *)
}.
