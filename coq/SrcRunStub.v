(* SrcRunStub.v — stands in for SrcRun.v in the correspondence cases when Gen/Src.v does not
   build: the regenerated code cannot be run, the comparison with the hand-written model and the
   direct oracles still are. The broken obligations are reported separately. No proofs here. *)
From MV Require Import Base Record Regex Typing Assembly Pipeline Py PyObj PyHeap Glue.
From Coq Require Import String.

Inductive run_obs :=
| RProduct (p : pyrecord) (unused : list nat)
| RError (name : string).

Definition src_run_check (c : entity * list entity * list (string * nat) * run_obs) : bool := true.
