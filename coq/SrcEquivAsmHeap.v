(* SrcEquivAsmHeap.v — AssemblyManager.assemble / AbstractVector.assemble as regenerated from the
   source (heap style), put together: the product is the assembly proper (vector_assemble: __init__,
   _generate_modules_map, _generate_assembly — the subject of SrcEquivAssembly.v) of the inputs with
   their citations dereferenced, then annotated, then re-referenced. *)
From MV Require Import Base Record Py PyObj PyHeap SrcEquivHeap SrcEquivCite.
From MV.Gen Require Import Src.
From Coq Require Import String Ascii Lia.
Local Open Scope Z_scope.

(* ---------- _annotate_assembly -------------------------------------------------------------- *)

Definition annotated (self : asmgr) (vid : nat) (mids : list nat) (p : pyrecord) : pyrecord :=
  let a0 := pr_annotations p in
  let s := AStr "synthetic DNA construct" in
  let o := other_set (other_set (other_set (other_set (other_set (other_set (an_other a0)
             "organism" s) "source" s) "source" s) "molecule_type" (AStr "ds-DNA")) "data_file_division" (AStr "SYN"))
             "comment" (AComment [LGenerated; LVector vid; LModules mids]) in
  PR (pr_kind p) (pr_seq p) (am_id self) (pr_features p) (AN (Some "circular"%string) (an_references a0) o)
     (pr_letter_annotations p) (am_name self).

Lemma upd_rec h l x (f : pyrecord -> pyrecord) : heap_get h l = Some x ->
  (r <~ h_rec l ;; h_put l (f r)) h = (Ok tt, heap_set h l (f x)).
Proof. intros H. unfold hbind, h_rec. rewrite H. reflexivity. Qed.

Lemma ann_set h l x k v a : heap_get h l = Some x -> ann_setitem (pr_annotations x) k v = Ok a ->
  h_ann_setitem l k v h = (Ok tt, heap_set h l (rec_set_annotations x a)).
Proof. intros H Ha. unfold h_ann_setitem, hbind, h_rec, hlift. rewrite H, Ha. reflexivity. Qed.

Lemma get_id_other h l x l' r : l <> l' -> heap_get h l' = Some r ->
  h_get_id l' (heap_set h l x) = (Ok (pr_id r), heap_set h l x).
Proof.
  intros Hn Hr. unfold h_get_id, hbind, h_rec. rewrite heap_get_set_other by exact Hn. rewrite Hr. reflexivity.
Qed.

Lemma mapM_ids h (ms : list entity) : forall mids,
  Forall2 (fun m i => exists r, heap_get h (ent_id m) = Some r /\ pr_id r = i) ms mids ->
  hmapM (fun mod_ => t2 <~ h_get_id (ent_id mod_) ;; hret t2) ms h = (Ok mids, h).
Proof.
  induction ms as [|m ms IH]; intros mids HF; inversion HF as [|? i ? mids' (r & Hr & Hi) HF']; subst; cbn [hmapM].
  - reflexivity.
  - assert (E1 : (t2 <~ h_get_id (ent_id m) ;; hret t2) h = (Ok (pr_id r), h))
      by (unfold hbind, h_get_id, hbind, h_rec; rewrite Hr; reflexivity).
    unfold hbind at 1. rewrite E1. unfold hbind at 1. rewrite (IH mids' HF'). reflexivity.
Qed.

Theorem annotate_eq self l h p rv mids :
  heap_get h l = Some p -> l <> ent_id (am_vector self) ->
  Forall (fun m => ent_id m <> l) (am_modules self) ->
  heap_get h (ent_id (am_vector self)) = Some rv ->
  Forall2 (fun m i => exists r, heap_get h (ent_id m) = Some r /\ pr_id r = i) (am_modules self) mids ->
  AssemblyManager_annotate_assembly self l h = (Ok tt, heap_set h l (annotated self (pr_id rv) mids p)).
Proof.
  intros Hp Hv Hms Hrv Hmids. unfold AssemblyManager_annotate_assembly.
  assert (Hget : forall x, heap_get (heap_set h l x) l = Some x) by (intros; apply heap_get_set_same; congruence).
  destruct p as [k s i fs [t rf o] tr n].
  Local Ltac norm := cbn [rec_set_annotations rec_set_features pr_kind pr_seq pr_id pr_features pr_annotations
                          pr_letter_annotations pr_name an_topology an_references an_other].
  Local Ltac setann Hget := unfold hbind at 1; erewrite ann_set; [|apply Hget|reflexivity]; rewrite heap_set_set; norm.
  unfold hbind at 1. unfold h_set_id. rewrite (upd_rec h l _ _ Hp). norm.
  unfold hbind at 1. unfold h_set_name. rewrite (upd_rec _ l _ _ (Hget _)), heap_set_set. norm.
  setann Hget. setann Hget. setann Hget. setann Hget. setann Hget. setann Hget.
  unfold hbind at 1. rewrite (get_id_other h l _ _ rv Hv Hrv).
  unfold hbind at 1. rewrite (mapM_ids _ (am_modules self) mids).
  2:{ clear -Hmids Hms. induction Hmids as [|m i0 ms is_ Hmi HF IH]; constructor.
      - destruct Hmi as (r & Hr & Hi). inversion Hms; subst. exists r. split; [|reflexivity].
        rewrite heap_get_set_other by congruence. exact Hr.
      - inversion Hms; subst. now apply IH. }
  setann Hget.
  reflexivity.
Qed.

(* ---------- the dereferencing of all the inputs (the `seen` loop) ------------------------------ *)

Fixpoint deref_elems (es : list entity) (seen : list nat) (h : heap) : exc heap :=
  match es with
  | [] => Ok h
  | e :: t =>
    if py_set_mem (ent_id e) seen then deref_elems t seen h
    else match heap_get h (ent_id e) with
         | None => Err XDangling
         | Some r => match deref_record r with
                     | Ok r' => deref_elems t (py_set_add seen (ent_id e)) (heap_set h (ent_id e) r')
                     | Err x => Err x
                     end
         end
  end.

Definition seen_body (self : asmgr) (elem : entity) (seen : list nat) : hexc (list nat) :=
  seen <~ (if (negb (py_set_mem (ent_id elem) seen)) then
    let seen := py_set_add seen (ent_id elem) in
    t5 <~ AssemblyManager_deref_citations self (ent_id elem) ;;
    hret seen
  else hret seen) ;;
  hret seen.

Lemma seen_loop self : forall es seen h, exists h' seen',
  hfor0 es seen (seen_body self) h =
  match deref_elems es seen h with Ok hd => (Ok seen', hd) | Err e => (Err e, h') end.
Proof.
  induction es as [|e es IH]; intros seen h; cbn [hfor0 deref_elems].
  - exists h, seen. reflexivity.
  - unfold hbind at 1. unfold seen_body at 1. unfold hbind at 1.
    destruct (py_set_mem (ent_id e) seen) eqn:Em; cbn [negb hret].
    + apply IH.
    + unfold hbind at 1.
      destruct (heap_get h (ent_id e)) as [r|] eqn:Er.
      * destruct (deref_citations_eq self (ent_id e) h r Er) as (h1 & E1). rewrite E1.
        destruct (deref_record r) as [r'|x]; [|exists h1, seen; reflexivity].
        cbn [hret]. apply IH.
      * exists h, seen. unfold AssemblyManager_deref_citations, hbind, h_features, hbind, h_rec. now rewrite Er.
Qed.

(* dereferencing keeps the shape of every record *)
Lemma deref_feature_shape refs x x' : deref_feature refs x = Ok x' -> feat_shape_eq x x'.
Proof.
  unfold deref_feature. destruct (qcits (fquals x)) as [cs|] eqn:Eq.
  - destruct (py_mapM (deref_cit refs) cs); cbn; [|discriminate]. intros H. inversion H; subst.
    unfold feat_shape_eq, feat_set_cits. cbn. now rewrite Eq.
  - intros H. inversion H; subst. apply feat_shape_refl.
Qed.

Lemma mapM_shape refs : forall fs fs', py_mapM (deref_feature refs) fs = Ok fs' -> Forall2 feat_shape_eq fs fs'.
Proof.
  induction fs as [|x fs IH]; intros fs'; cbn [py_mapM].
  - intros H. inversion H. constructor.
  - destruct (deref_feature refs x) as [x'|] eqn:Ex; [|discriminate].
    destruct (py_mapM (deref_feature refs) fs) as [t|]; [|discriminate]. intros H. inversion H; subst.
    constructor; [now apply (deref_feature_shape refs)|now apply IH].
Qed.

Lemma deref_record_shape r r' : deref_record r = Ok r' -> rec_shape_eq r r'.
Proof.
  unfold deref_record. destruct (py_mapM (deref_feature (refs_or_empty r)) (pr_features r)) as [fs|] eqn:E; [|discriminate].
  cbn. intros H. inversion H; subst. unfold rec_shape_eq, rec_set_features. cbn. repeat split. now apply (mapM_shape _ _ _ E).
Qed.

Lemma deref_elems_shape : forall es seen h hd, deref_elems es seen h = Ok hd -> R h hd.
Proof.
  induction es as [|e es IH]; intros seen h hd; cbn [deref_elems].
  - intros H. inversion H; subst. apply R_refl.
  - destruct (py_set_mem (ent_id e) seen); [apply IH|].
    destruct (heap_get h (ent_id e)) as [r|] eqn:Er; [|discriminate].
    destruct (deref_record r) as [r'|] eqn:Ed; [|discriminate].
    intros H. specialize (IH _ _ _ H).
    intros l r0 H0. destruct (Nat.eq_dec (ent_id e) l) as [<-|Hn].
    + destruct (IH (ent_id e) r') as (rf & Hf & Hs); [apply heap_get_set_same; congruence|].
      exists rf. split; [exact Hf|]. rewrite Er in H0. inversion H0; subst r0.
      eapply rec_shape_trans; [apply deref_record_shape; eassumption|exact Hs].
    + apply IH. now rewrite heap_get_set_other.
Qed.

(* ---------- entities seen through a heap of the same shape --------------------------------------- *)

From MV Require Import Regex Typing Assembly Pipeline SrcEquivRecord SrcEquivTyping SrcEquivAssembly.

Lemma refresh_entity_shape h0 h e : R h0 h -> heap_get h0 (ent_id e) = Some (ent_record e) ->
  ent_id (refresh h e) = ent_id e /\ ent_cls (refresh h e) = ent_cls e /\ rec_shape_eq (ent_record e) (ent_record (refresh h e)).
Proof.
  intros HR H0. destruct (HR _ _ H0) as (r & Hr & Hs). unfold refresh, Refresh_entity. rewrite Hr. cbn. auto.
Qed.

Lemma good_shape e e' : ent_id e' = ent_id e -> ent_cls e' = ent_cls e -> rec_shape_eq (ent_record e) (ent_record e') ->
  good_ent e -> good_ent e' /\ tm_of e' = tm_of e /\ ent_seq_w e' = ent_seq_w e.
Proof.
  intros Hi Hc (Hk & Hs & _ & _ & Ht & _ & _) [G1 G2 G3 G4].
  assert (Hw : ent_seq_w e' = ent_seq_w e) by (unfold ent_seq_w; now rewrite Hs).
  split; [|split; [unfold tm_of; now rewrite Hi, Hc, Hw|exact Hw]].
  constructor.
  - unfold fits in *. now rewrite <- Hs.
  - unfold is_CircularRecord in *. now rewrite <- Hk.
  - unfold well_tracked in *. now rewrite <- Hs, <- Ht.
  - rewrite Hc, Hw. exact G4.
Qed.

(* ---------- the restoration does not touch other objects ------------------------------------------ *)

Definition floc_of (f : featref) : nat := match f with FRef l _ => l end.

Lemma cits_assign_frame f cs h l' : floc_of f <> l' -> heap_get (snd (h_cits_assign f cs h)) l' = heap_get h l'.
Proof.
  destruct f as [l j]. cbn [floc_of]. intros Hn.
  unfold h_cits_assign. unfold hbind at 1. cbn [h_feat]. unfold hbind at 1, h_rec.
  destruct (heap_get h l) as [r|] eqn:Er; cbn; [|reflexivity].
  destruct (nth_error (pr_features r) j) as [x|] eqn:Ex; cbn; [|reflexivity].
  destruct (qcits (fquals x)); cbn; [|reflexivity].
  unfold hbind, h_rec. rewrite Er, Ex. cbn. now apply heap_get_set_other.
Qed.

Lemma restore_frame cits l' : (forall f cs, In (f, cs) cits -> floc_of f <> l') ->
  forall h, heap_get (snd (hfor0 cits tt fin_body h)) l' = heap_get h l'.
Proof.
  induction cits as [|[f cs] cits IH]; intros Hall h; cbn [hfor0]; [reflexivity|].
  unfold hbind at 1. unfold fin_body at 1. unfold hbind at 1.
  pose proof (cits_assign_frame f cs h l' (Hall f cs (or_introl eq_refl))) as Hf.
  destruct (h_cits_assign f cs h) as [[u|e] h1]; cbn [snd hret] in *.
  - rewrite IH; [exact Hf|]. intros f' cs' Hin. apply (Hall f' cs'). now right.
  - exact Hf.
Qed.

Lemma snap_locs h elems f cs : In (f, cs) (List.concat (map (snap_elem h) elems)) -> In (floc_of f) (map ent_id elems).
Proof.
  intros H. apply in_concat in H. destruct H as (x & Hx & Hin). apply in_map_iff in Hx.
  destruct Hx as (e & <- & He). unfold snap_elem in Hin.
  destruct (heap_get h (ent_id e)) as [r|]; [|contradiction].
  unfold snap_js in Hin. apply in_concat in Hin. destruct Hin as (y & Hy & Hin).
  apply in_map_iff in Hy. destruct Hy as (j & <- & _).
  destruct (nth_error (pr_features r) j) as [x|]; [|contradiction].
  destruct (qcits (fquals x)); [|contradiction]. destruct Hin as [Hin|[]]. inversion Hin; subst. cbn.
  now apply in_map.
Qed.

(* ---------- AssemblyManager.assemble: its result ------------------------------------------------------ *)

Lemma deref_elems_keys : forall es seen h hd, deref_elems es seen h = Ok hd -> heap_keys hd = heap_keys h.
Proof.
  induction es as [|e es IH]; intros seen h hd; cbn [deref_elems].
  - intros H. now inversion H.
  - destruct (py_set_mem (ent_id e) seen); [apply IH|].
    destruct (heap_get h (ent_id e)) as [r|]; [|discriminate].
    destruct (deref_record r) as [r'|]; [|discriminate]. intros H. rewrite (IH _ _ _ H).
    clear. unfold heap_keys. induction h as [|[k r0] h IHh]; cbn; [reflexivity|].
    destruct (Nat.eqb k (ent_id e)); cbn; [reflexivity|now rewrite IHh].
Qed.

Theorem assemble_result fuel self h0 :
  (forall e, In e (am_elements self) -> heap_get h0 (ent_id e) <> None) ->
  In (am_vector self) (am_elements self) -> incl (am_modules self) (am_elements self) ->
  let res := AssemblyManager_assemble fuel self h0 in
  match AssemblyManager_generate_modules_map (refresh h0 self) with
  | Err e => fst res = Err e
  | Ok d =>
    match deref_elems (am_elements self) [] h0 with
    | Err e => fst res = Err e
    | Ok hd =>
      match AssemblyManager_generate_assembly fuel (refresh hd self) (refresh hd d) with
      | Err e => fst res = Err e
      | Ok (p, ws) =>
        fst res = Ok (heap_fresh hd, ws) /\
        exists rv mids, heap_get hd (ent_id (am_vector self)) = Some rv /\
          Forall2 (fun m i => exists r, heap_get hd (ent_id m) = Some r /\ pr_id r = i) (am_modules self) mids /\
          heap_get (snd res) (heap_fresh hd) = Some (ref_record (annotated self (pr_id rv) mids p))
      end
    end
  end.
Proof.
  intros Hpres Hvin Hmin res. remember res as res' eqn:Eres. subst res. rewrite assemble_unfold in Eres.
  unfold hbind at 1 in Eres. unfold hpure at 1 in Eres.
  destruct (AssemblyManager_generate_modules_map (refresh h0 self)) as [d|e]; [|now subst res'].
  unfold hbind at 1 in Eres.
  destruct (snap_outer h0 (am_elements self) []) as [Es|[x Es]].
  2:{ exfalso. clear -Es Hpres. revert Es. generalize (@nil (featref * list qcit)).
      induction (am_elements self) as [|e es IH]; intros acc; cbn [hfor0]; [discriminate|].
      unfold hbind at 1. unfold snap_step at 1. unfold hbind at 1. unfold h_features, hbind at 1, h_rec.
      destruct (heap_get h0 (ent_id e)) as [r|] eqn:Er; [|exfalso; apply (Hpres e (or_introl eq_refl) Er)].
      cbn [hret]. rewrite (snap_inner h0 (ent_id e) r _ Er (seq_valid _)).
      apply IH. intros e' He'. apply Hpres. now right. }
  rewrite Es in Eres. cbn [app] in Eres.
  set (cits := List.concat (map (snap_elem h0) (am_elements self))) in *.
  unfold hbind at 1 in Eres. unfold hfinally in Eres.
  (* the body *)
  unfold try_body at 1 in Eres. cbv zeta in Eres.
  change (hfor0 (am_elements self) [] _) with (hfor0 (am_elements self) [] (seen_body self)) in Eres.
  destruct (seen_loop self (am_elements self) [] h0) as (h' & seen' & Eseen).
  unfold hbind at 1 in Eres. rewrite Eseen in Eres.
  destruct (deref_elems (am_elements self) [] h0) as [hd|e] eqn:Ede.
  2:{ (* dereferencing failed: the finally block runs, the exception goes on *)
      pose proof (ok_try_body h0 fuel self d h0 (R_refl h0)) as [R1 _].
      unfold try_body in R1. cbv zeta in R1.
      change (hfor0 (am_elements self) [] _) with (hfor0 (am_elements self) [] (seen_body self)) in R1.
      unfold hbind at 1 in R1. rewrite Eseen in R1. cbn [snd] in R1.
      destruct (restore_loop h0 cits h' R1) as (h2 & E2 & _).
      { intros f cs Hin. apply (snap_sound h0 (am_elements self)). exact Hin. }
      unfold hbind at 1 in Eres. rewrite E2 in Eres. now subst res'. }
  pose proof (deref_elems_shape _ _ _ _ Ede) as Rd.
  unfold hbind at 1 in Eres. unfold hpure at 1 in Eres.
  destruct (AssemblyManager_generate_assembly fuel (refresh hd self) (refresh hd d)) as [[p ws]|e] eqn:Eg.
  2:{ destruct (restore_loop h0 cits hd Rd) as (h2 & E2 & _).
      { intros f cs Hin. apply (snap_sound h0 (am_elements self)). exact Hin. }
      unfold hbind at 1 in Eres. rewrite E2 in Eres. now subst res'. }
  (* the product *)
  unfold hbind at 1 in Eres. unfold h_alloc at 1 in Eres.
  set (l := heap_fresh hd) in *. set (h1 := hd ++ [(l, p)]) in *.
  assert (Hkeys : forall e, In e (am_elements self) -> exists r, heap_get hd (ent_id e) = Some r /\ ent_id e <> l).
  { intros e He. destruct (heap_get h0 (ent_id e)) as [r0|] eqn:E0; [|exfalso; now apply (Hpres e He)].
    destruct (Rd _ _ E0) as (r & Hr & _). exists r. split; [exact Hr|].
    intros Heq. apply (heap_fresh_not_in hd). fold l. rewrite <- Heq. eapply heap_get_in_keys; eassumption. }
  assert (Hl1 : heap_get h1 l = Some p).
  { unfold h1. clear -l. assert (Hn : ~ In l (heap_keys hd)) by apply heap_fresh_not_in.
    clearbody l. induction hd as [|[k r] hd IH]; cbn; [now rewrite Nat.eqb_refl|].
    destruct (Nat.eqb_spec k l) as [->|Hk]; [exfalso; apply Hn; now left|]. apply IH. intros H. apply Hn. now right. }
  assert (Hold : forall k r, heap_get hd k = Some r -> heap_get h1 k = Some r)
    by (intros; unfold h1; now apply heap_get_app_some).
  destruct (Hkeys _ Hvin) as (rv & Hrv & Hvl).
  assert (Hmids : exists mids, Forall2 (fun m i => exists r, heap_get hd (ent_id m) = Some r /\ pr_id r = i) (am_modules self) mids).
  { clear -Hkeys Hmin. induction (am_modules self) as [|m ms IH]; [exists []; constructor|].
    destruct IH as (mids & HF); [intros x Hx; apply Hmin; now right|].
    destruct (Hkeys m (Hmin m (or_introl eq_refl))) as (r & Hr & _). exists (pr_id r :: mids). constructor; eauto. }
  destruct Hmids as (mids & Hmids).
  unfold hbind at 1 in Eres.
  rewrite (annotate_eq self l h1 p rv mids Hl1 (not_eq_sym Hvl)) in Eres.
  2:{ apply Forall_forall. intros m Hm. destruct (Hkeys m (Hmin m Hm)) as (_ & _ & Hn). exact Hn. }
  2:{ now apply Hold. }
  2:{ clear -Hmids Hold. induction Hmids as [|m i ms is_ Hmi HF IH]; constructor; [|exact IH].
      destruct Hmi as (r & Hr & Hi). eauto. }
  set (p1 := annotated self (pr_id rv) mids p) in *.
  set (h2 := heap_set h1 l p1) in *.
  assert (Hl2 : heap_get h2 l = Some p1) by (apply heap_get_set_same; congruence).
  unfold hbind at 1 in Eres. rewrite (ref_citations_eq self l h2 p1 Hl2) in Eres. cbn [hret] in Eres.
  set (h3 := heap_set h2 l (ref_record p1)) in *.
  (* the finally block *)
  assert (R3 : R h0 h3).
  { intros k r0 H0. destruct (Rd _ _ H0) as (r & Hr & Hs). exists r. split; [|exact Hs].
    assert (Hk : k <> l) by (intros ->; apply (heap_fresh_not_in hd); eapply heap_get_in_keys; eassumption).
    unfold h3, h2. rewrite !heap_get_set_other by congruence. now apply Hold. }
  destruct (restore_loop h0 cits h3 R3) as (h4 & E4 & _).
  { intros f cs Hin. apply (snap_sound h0 (am_elements self)). exact Hin. }
  unfold hbind at 1 in Eres. rewrite E4 in Eres. cbn [hret fst snd] in Eres. subst res'. cbn [fst snd].
  split; [reflexivity|]. exists rv, mids. split; [exact Hrv|]. split; [exact Hmids|].
  pose proof (restore_frame cits l) as Hfr. specialize (Hfr ltac:(
    intros f cs Hin; apply snap_locs in Hin; apply in_map_iff in Hin; destruct Hin as (e & He & Hin);
    destruct (Hkeys e Hin) as (_ & _ & Hn); congruence) h3).
  rewrite E4 in Hfr. cbn [snd] in Hfr. unfold hret. cbn [snd]. rewrite Hfr.
  unfold h3. apply heap_get_set_same. congruence.
Qed.

(* ---------- the product of _generate_assembly carries no reference list ------------------------------- *)

Lemma py_while0_inv {S} (P : S -> Prop) cond body :
  (forall st st', P st -> body st = Ok st' -> P st') ->
  forall f st st', P st -> py_while0 f st cond body = Ok st' -> P st'.
Proof.
  intros Hstep. induction f as [|f IH]; intros st st' Hp; cbn [py_while0]; [discriminate|].
  destruct (cond st) as [[|]|]; try discriminate.
  - destruct (body st) as [st1|] eqn:Eb; [|discriminate]. apply IH. eapply Hstep; eassumption.
  - intros H. inversion H; subst. exact Hp.
Qed.

Definition norefs (r : pyrecord) : Prop := pr_kind r = KSeqRecord /\ an_references (pr_annotations r) = None.

Lemma addm_norefs asm y r : norefs asm -> py_addm asm y = Ok r -> norefs r.
Proof.
  intros [Hk Hr]. unfold py_addm, PyAddM_rec, is_CircularRecord. rewrite Hk.
  destruct (pr_kind y) eqn:Ky.
  - intros H. inversion H; subst. unfold norefs, bio_add, is_SeqRecord. rewrite Hk, Ky. cbn. auto.
  - intros H. inversion H; subst. unfold norefs, bio_add, is_SeqRecord. rewrite Hk, Ky. cbn. split; [reflexivity|].
    now rewrite Hr.
  - unfold CircularRecord_radd. discriminate.
Qed.

Lemma generate_norefs fuel mgr d p ws :
  AssemblyManager_generate_assembly fuel mgr d = Ok (p, ws) -> an_references (pr_annotations p) = None.
Proof.
  unfold AssemblyManager_generate_assembly. cbv zeta.
  destruct (ent_overhang_end (am_vector mgr)) as [t1|e]; cbn [bind py_try].
  2:{ destruct e; discriminate. }
  match goal with |- context [py_while0 fuel ?st ?c ?b] => set (cond := c); set (body := b); set (st0 := st) end.
  destruct (py_while0 fuel st0 cond body) as [[[d2 asm] nxt]|e] eqn:Ew; cbn [bind py_try].
  2:{ destruct e; discriminate. }
  assert (Hasm : norefs asm).
  { apply (py_while0_inv (fun st => norefs (snd (fst st))) cond body) with (f := fuel) (st := st0) (st' := (d2, asm, nxt));
      [|split; reflexivity|exact Ew].
    intros [[m a] o] st' Ha. unfold body. cbn [fst snd] in Ha.
    destruct (dict_pop seq_keq m o) as [[md m']|]; cbn [bind]; [|discriminate].
    destruct (ent_target_sequence md) as [t3|]; cbn [bind]; [|discriminate].
    destruct (py_addm a t3) as [t4|] eqn:Ea; cbn [bind]; [|discriminate].
    destruct (ent_overhang_end md) as [t5|]; cbn [bind]; [|discriminate].
    intros H. inversion H; subst. cbn. eapply addm_norefs; eassumption. }
  destruct (if dict_nonempty d2 then _ else _) as [w|]; cbn [bind]; [|discriminate].
  destruct (ent_target_sequence (am_vector mgr)) as [t6|]; cbn [bind]; [|discriminate].
  destruct (py_addm asm t6) as [t7|] eqn:E7; cbn [bind]; [|discriminate].
  pose proof (addm_norefs _ _ _ Hasm E7) as [K7 R7].
  rewrite CircularRecord_new_eq. unfold bio_CircularRecord_of.
  destruct (an_topology (pr_annotations t7)) as [t|].
  - destruct (String.eqb (str_lower t) "circular"); cbn [bind]; [|discriminate]. intros H. inversion H; subst. exact R7.
  - cbn [bind]. intros H. inversion H; subst. exact R7.
Qed.

(* ---------- vector.assemble(module, *modules, **kwargs) ------------------------------------------------- *)

Lemma heap_of_get es : NoDup (map ent_id es) -> forall e, In e es -> heap_get (heap_of es) (ent_id e) = Some (ent_record e).
Proof.
  induction es as [|a es IH]; intros Hnd e Hin; [destruct Hin|]. destruct Hin as [->|Hin]; cbn [heap_of heap_get].
  - now rewrite Nat.eqb_refl.
  - inversion Hnd as [|? ? Hni Hnd']; subst.
    destruct (Nat.eqb_spec (ent_id a) (ent_id e)) as [Heq|Hn].
    + exfalso. apply Hni. rewrite Heq. now apply in_map.
    + specialize (IH Hnd' e Hin). clear -IH Hn.
      induction (heap_of es) as [|[k r] h IHh]; cbn in *; [discriminate|].
      destruct (Nat.eqb_spec k (ent_id a)) as [->|Hk]; cbn.
      * destruct (Nat.eqb_spec (ent_id a) (ent_id e)); [congruence|]. now apply IHh.
      * destruct (Nat.eqb_spec k (ent_id e)); [exact IH|now apply IHh].
Qed.

Lemma refresh_same h e : heap_get h (ent_id e) = Some (ent_record e) -> refresh h e = e.
Proof. intros H. unfold refresh, Refresh_entity. rewrite H. now destruct e. Qed.

Lemma refresh_list_same h (es : list entity) : (forall e, In e es -> heap_get h (ent_id e) = Some (ent_record e)) -> refresh h es = es.
Proof.
  intros H. unfold refresh, Refresh_list. induction es as [|e es IH]; cbn; [reflexivity|].
  rewrite refresh_same by (apply H; now left). f_equal. apply IH. intros; apply H; now right.
Qed.

Lemma mids_eq h0 hd (xs : list entity) : R h0 hd ->
  forall mids, (forall x, In x xs -> heap_get h0 (ent_id x) = Some (ent_record x)) ->
  Forall2 (fun m i => exists r, heap_get hd (ent_id m) = Some r /\ pr_id r = i) xs mids ->
  mids = map (fun x => pr_id (ent_record x)) xs.
Proof.
  intros Rd mids Hget HF. induction HF as [|x i xs is_ Hxi HF IH]; [reflexivity|].
  destruct Hxi as (r & Hr & Hi). cbn [map]. f_equal.
  - destruct (Rd _ _ (Hget x (or_introl eq_refl))) as (r' & Hr' & Hs). rewrite Hr in Hr'. inversion Hr'; subst r'.
    destruct Hs as (_&_&Hid&_). congruence.
  - apply IH. intros y Hy. apply Hget. now right.
Qed.

Definition kw_id (kw : list (string * nat)) : nat := kwargs_get kw "id" str_assembly.
Definition kw_name (kw : list (string * nat)) : nat := kwargs_get kw "name" str_assembly.

(* the whole call, for arguments that are distinct objects: __init__ and the modules map on the
   inputs as given; then the citations of every input dereferenced; the assembly proper on what
   the inputs read then; the product annotated and re-referenced *)
Theorem run_assemble_eq fuel vector m ms kw :
  NoDup (map ent_id (vector :: m :: ms)) ->
  let h0 := heap_of (vector :: m :: ms) in
  let res := fst (run_assemble fuel vector (m :: ms) kw) in
  match (mgr <- AssemblyManager_init tt vector (m :: ms) (kw_id kw) (kw_name kw) ;;
         d <- AssemblyManager_generate_modules_map mgr ;; Ok (mgr, d)) with
  | Err e => res = Err e
  | Ok (mgr, d) =>
    match deref_elems ((m :: ms) ++ [vector]) [] h0 with
    | Err e => res = Err e
    | Ok hd =>
      match AssemblyManager_generate_assembly fuel (refresh hd mgr) (refresh hd d) with
      | Err e => res = Err e
      | Ok (p, ws) =>
        res = Ok (ref_record (annotated mgr (pr_id (ent_record vector)) (map (fun x => pr_id (ent_record x)) (m :: ms)) p), ws)
      end
    end
  end.
Proof.
  intros Hnd h0 res. subst res. unfold run_assemble. set (modules := m :: ms) in *. fold h0.
  assert (Hget : forall e, In e (vector :: modules) -> heap_get h0 (ent_id e) = Some (ent_record e))
    by (apply heap_of_get; exact Hnd).
  unfold AbstractVector_assemble. unfold hbind, hpure, hret. cbv beta.
  rewrite (refresh_same h0 vector) by (apply Hget; now left).
  change ([m] ++ ms) with modules.
  rewrite (refresh_list_same h0 modules) by (intros e He; apply Hget; now right).
  fold (kw_id kw). fold (kw_name kw).
  destruct (AssemblyManager_init tt vector modules (kw_id kw) (kw_name kw)) as [mgr|e] eqn:Ei; cbn [bind]; [|reflexivity].
  destruct (init_elements _ _ _ _ _ Ei) as (Eel & Ev & Em & _ & _).
  assert (Hmgr : refresh h0 mgr = mgr).
  { unfold refresh at 1, Refresh_asmgr. rewrite Ev, Em, Eel.
    rewrite (refresh_same h0 vector) by (apply Hget; now left).
    rewrite (refresh_list_same h0 modules) by (intros e He; apply Hget; now right).
    rewrite (refresh_list_same h0 (modules ++ [vector])).
    - destruct mgr; cbn in *; congruence.
    - intros e He. apply Hget. apply in_app_or in He. destruct He as [He|[<-|[]]]; [now right|now left]. }
  pose proof (assemble_result fuel mgr h0) as AR. cbv zeta in AR.
  rewrite Hmgr, Eel, Ev, Em in AR.
  specialize (AR ltac:(intros e He; rewrite Hget; [discriminate|];
                       apply in_app_or in He; destruct He as [He|[<-|[]]]; [now right|now left])
                 ltac:(apply in_or_app; right; now left) ltac:(intros x Hx; apply in_or_app; now left)).
  destruct (AssemblyManager_generate_modules_map mgr) as [d|e]; cbn [bind].
  - destruct (deref_elems (modules ++ [vector]) [] h0) as [hd|e] eqn:Ede.
    + destruct (AssemblyManager_generate_assembly fuel (refresh hd mgr) (refresh hd d)) as [[p ws]|e].
      * destruct AR as (Eres & rv & mids & Hrv & Hmids & Hprod).
        destruct (AssemblyManager_assemble fuel mgr h0) as [[[l ws']|e] h1]; cbn [fst snd hret] in *; [|discriminate].
        inversion Eres; subst l ws'. rewrite Hprod.
        pose proof (deref_elems_shape _ _ _ _ Ede) as Rd.
        assert (Hvid : pr_id rv = pr_id (ent_record vector)).
        { destruct (Rd _ _ (Hget vector (or_introl eq_refl))) as (r & Hr & Hs). rewrite Hrv in Hr. inversion Hr; subst r.
          destruct Hs as (_&_&Hi&_). now rewrite Hi. }
        assert (Hm : mids = map (fun x => pr_id (ent_record x)) modules)
          by (apply (mids_eq h0 hd modules Rd mids); [intros x Hx; apply Hget; now right|exact Hmids]).
        now rewrite Hvid, Hm.
      * destruct (AssemblyManager_assemble fuel mgr h0) as [[[l ws']|e'] h1]; cbn [fst snd hret] in *; [discriminate|now inversion AR].
    + destruct (AssemblyManager_assemble fuel mgr h0) as [[[l ws']|e'] h1]; cbn [fst snd hret] in *; [discriminate|now inversion AR].
  - destruct (AssemblyManager_assemble fuel mgr h0) as [[[l ws']|e'] h1]; cbn [fst snd hret] in *; [discriminate|now inversion AR].
Qed.

(* ---------- the outcome is that of the assembly proper: citations do not matter -------------------- *)

Lemma ref_record_seq r : pr_seq (ref_record r) = pr_seq r.
Proof. unfold ref_record. destruct (ref_features (refs_or_empty r) (pr_features r)). reflexivity. Qed.

Lemma dict_rel_refresh h0 hd d pre : R h0 hd ->
  (forall ke, In ke d -> heap_get h0 (ent_id (snd ke)) = Some (ent_record (snd ke))) ->
  dict_rel d pre -> dict_rel (refresh hd d) pre.
Proof.
  intros Rd Hin HF. unfold dict_rel in *. unfold refresh, Refresh_list.
  induction HF as [|ke t d pre Hkt HF IH]; cbn [map]; constructor.
  - destruct Hkt as (G & Ht & Hu & Hk).
    destruct (refresh_entity_shape h0 hd (snd ke) Rd (Hin ke (or_introl eq_refl))) as (Hi & Hc & Hs).
    destruct (good_shape (snd ke) _ Hi Hc Hs G) as (G' & Ht' & _).
    unfold entry_rel. change (refresh hd ke) with (fst ke, refresh hd (snd ke)). cbn [fst snd]. split; [exact G'|]. split; [now rewrite Ht'|]. split; assumption.
  - apply IH. intros ke' Hke'. apply Hin. now right.
Qed.

Lemma modmap_values_incl mgr d : AssemblyManager_generate_modules_map mgr = Ok d -> incl (dict_values d) (am_modules mgr).
Proof.
  unfold AssemblyManager_generate_modules_map.
  change (py_for0 (am_modules mgr) [] _) with (py_for0 (am_modules mgr) [] map_body).
  destruct (py_for0 (am_modules mgr) [] map_body) as [d'|] eqn:E; cbn [bind]; [|discriminate].
  pose proof (build_loop_incl _ _ _ E) as Hi. cbn [dict_values map app] in Hi.
  destruct (py_for0 (dict_keys d') tt _); cbn [bind]; [|discriminate]. intros H. inversion H; subst. exact Hi.
Qed.

Theorem run_assemble_outcome vector m ms kw :
  good_ent vector -> Forall good_ent (m :: ms) ->
  map ent_id (m :: ms) = seq 0 (List.length (m :: ms)) -> ent_id vector = List.length (m :: ms) ->
  let res := fst (run_assemble (S (S (List.length (m :: ms)))) vector (m :: ms) kw) in
  let model := forget_used (assemble_raw (ent_cls vector) (ent_seq_w vector) (map raw_of (m :: ms))) in
  match deref_elems ((m :: ms) ++ [vector]) [] (heap_of (vector :: m :: ms)) with
  | Ok _ => outcome_of res = model
  | Err e => res = Err e \/ outcome_of res = model
  end.
Proof.
  intros Gv Gm Hids Hvid res model.
  set (modules := m :: ms) in *.
  assert (Hnd : NoDup (map ent_id (vector :: modules))).
  { cbn [map]. rewrite Hids, Hvid. constructor; [intros H; apply in_seq in H; lia|apply seq_NoDup]. }
  pose proof (run_assemble_eq (S (S (List.length modules))) vector m ms kw Hnd) as RE. cbv zeta in RE.
  fold modules in RE. fold res in RE.
  pose proof (modmap_phase vector modules (kw_id kw) (kw_name kw) Gv Gm Hids) as M1. fold model in M1.
  assert (Hget : forall e, In e (vector :: modules) -> heap_get (heap_of (vector :: modules)) (ent_id e) = Some (ent_record e))
    by (apply heap_of_get; exact Hnd).
  destruct (AssemblyManager_init tt vector modules (kw_id kw) (kw_name kw)) as [mgr|e] eqn:Ei; cbn [bind] in *.
  2:{ rewrite RE. destruct (deref_elems _ _ _); [exact M1|right; exact M1]. }
  destruct (AssemblyManager_generate_modules_map mgr) as [d|e] eqn:Emap; cbn [bind] in *.
  2:{ rewrite RE. destruct (deref_elems _ _ _); [exact M1|right; exact M1]. }
  destruct M1 as (up & down & fr & pre & Hv & Hmods & _ & _ & _ & Hu & Hd & Hf & Hrel & Hlen & Eraw).
  destruct (deref_elems (modules ++ [vector]) [] (heap_of (vector :: modules))) as [hd|e] eqn:Ede; [|left; exact RE].
  pose proof (deref_elems_shape _ _ _ _ Ede) as Rd.
  destruct (refresh_entity_shape _ hd vector Rd (Hget vector (or_introl eq_refl))) as (Hi' & Hc' & Hs').
  destruct (good_shape vector _ Hi' Hc' Hs' Gv) as (Gv' & _ & Hw').
  assert (Hrel' : dict_rel (refresh hd d) pre).
  { apply (dict_rel_refresh (heap_of (vector :: modules)) hd d pre Rd); [|exact Hrel].
    intros ke Hke. apply Hget. right. rewrite <- Hmods. apply (modmap_values_incl mgr d Emap).
    unfold dict_values. now apply in_map. }
  pose proof (generate_phase (refresh hd vector) (refresh hd mgr) (refresh hd d) pre (List.length modules) up down fr Gv') as GP.
  rewrite Hc', Hw' in GP.
  specialize (GP ltac:(unfold refresh at 1, Refresh_asmgr; cbn [am_vector]; now rewrite Hv) Hu Hd Hf Hrel' Hlen).
  unfold model in *. rewrite Eraw, <- GP.
  destruct (AssemblyManager_generate_assembly (S (S (List.length modules))) (refresh hd mgr) (refresh hd d)) as [[p ws]|e];
    rewrite RE; [|reflexivity].
  unfold outcome_of. now rewrite ref_record_seq.
Qed.

(* when the inputs' citations dereference and the assembly proper yields a product, the call
   returns that product annotated (requested id and name, circular topology, comment naming the
   vector and the modules in argument order) and re-referenced from an empty reference list *)
Theorem run_assemble_product vector m ms kw hd w un :
  good_ent vector -> Forall good_ent (m :: ms) ->
  map ent_id (m :: ms) = seq 0 (List.length (m :: ms)) -> ent_id vector = List.length (m :: ms) ->
  deref_elems ((m :: ms) ++ [vector]) [] (heap_of (vector :: m :: ms)) = Ok hd ->
  forget_used (assemble_raw (ent_cls vector) (ent_seq_w vector) (map raw_of (m :: ms))) = Product w [] un ->
  exists p ws mgr,
    fst (run_assemble (S (S (List.length (m :: ms)))) vector (m :: ms) kw)
    = Ok (ref_record (annotated mgr (pr_id (ent_record vector)) (map (fun x => pr_id (ent_record x)) (m :: ms)) p), ws)
    /\ am_id mgr = kw_id kw /\ am_name mgr = kw_name kw
    /\ pr_seq p = w /\ match ws with WUnusedModules ids :: _ => ids | [] => [] end = un
    /\ an_references (pr_annotations p) = None.
Proof.
  intros Gv Gm Hids Hvid Ede Hmodel.
  set (modules := m :: ms) in *.
  assert (Hnd : NoDup (map ent_id (vector :: modules))).
  { cbn [map]. rewrite Hids, Hvid. constructor; [intros H; apply in_seq in H; lia|apply seq_NoDup]. }
  pose proof (run_assemble_eq (S (S (List.length modules))) vector m ms kw Hnd) as RE. cbv zeta in RE.
  fold modules in RE.
  pose proof (modmap_phase vector modules (kw_id kw) (kw_name kw) Gv Gm Hids) as M1. rewrite Hmodel in M1.
  assert (Hget : forall e, In e (vector :: modules) -> heap_get (heap_of (vector :: modules)) (ent_id e) = Some (ent_record e))
    by (apply heap_of_get; exact Hnd).
  destruct (AssemblyManager_init tt vector modules (kw_id kw) (kw_name kw)) as [mgr|e] eqn:Ei; cbn [bind] in *.
  2:{ destruct e; try discriminate. destruct o; discriminate. }
  destruct (AssemblyManager_generate_modules_map mgr) as [d|e] eqn:Emap; cbn [bind] in *.
  2:{ destruct e; try discriminate. destruct o; discriminate. }
  destruct M1 as (up & down & fr & pre & Hv & Hmods & _ & Hid & Hname & Hu & Hd & Hf & Hrel & Hlen & Eraw).
  rewrite Ede in RE.
  pose proof (deref_elems_shape _ _ _ _ Ede) as Rd.
  destruct (refresh_entity_shape _ hd vector Rd (Hget vector (or_introl eq_refl))) as (Hi' & Hc' & Hs').
  destruct (good_shape vector _ Hi' Hc' Hs' Gv) as (Gv' & _ & Hw').
  assert (Hrel' : dict_rel (refresh hd d) pre).
  { apply (dict_rel_refresh (heap_of (vector :: modules)) hd d pre Rd); [|exact Hrel].
    intros ke Hke. apply Hget. right. rewrite <- Hmods. apply (modmap_values_incl mgr d Emap).
    unfold dict_values. now apply in_map. }
  pose proof (generate_phase (refresh hd vector) (refresh hd mgr) (refresh hd d) pre (List.length modules) up down fr Gv') as GP.
  rewrite Hc', Hw' in GP.
  specialize (GP ltac:(unfold refresh at 1, Refresh_asmgr; cbn [am_vector]; now rewrite Hv) Hu Hd Hf Hrel' Hlen).
  rewrite <- Eraw, Hmodel in GP.
  destruct (AssemblyManager_generate_assembly (S (S (List.length modules))) (refresh hd mgr) (refresh hd d)) as [[p ws]|e] eqn:Eg.
  - cbn [outcome_of] in GP. inversion GP; subst.
    exists p, ws, mgr. repeat split; auto. eapply generate_norefs; eassumption.
  - destruct e; cbn in GP; try discriminate. destruct o; discriminate.
Qed.

(* the entry point and the assembly proper end the same way: every theorem about vector_assemble
   (SrcEquivAssembly.v, SrcEndToEnd.v, Props/C01_src ... C19) speaks about vector.assemble(...)
   itself whenever the inputs' citations dereference (in particular when there are none) *)
Theorem entry_point_outcome vector m ms kw hd :
  good_ent vector -> Forall good_ent (m :: ms) ->
  map ent_id (m :: ms) = seq 0 (List.length (m :: ms)) -> ent_id vector = List.length (m :: ms) ->
  deref_elems ((m :: ms) ++ [vector]) [] (heap_of (vector :: m :: ms)) = Ok hd ->
  outcome_of (fst (run_assemble (S (S (List.length (m :: ms)))) vector (m :: ms) kw))
  = outcome_of (vector_assemble (S (S (List.length (m :: ms)))) vector (m :: ms)).
Proof.
  intros Gv Gm Hids Hvid Ede.
  pose proof (run_assemble_outcome vector m ms kw Gv Gm Hids Hvid) as H. cbv zeta in H. rewrite Ede in H.
  rewrite H. symmetry. now apply vector_assemble_eq.
Qed.

(* records without any citation qualifier dereference trivially *)
Lemma deref_record_nocits r : Forall (fun x => qcits (fquals x) = None) (pr_features r) -> deref_record r = Ok r.
Proof.
  intros H. unfold deref_record.
  assert (E : py_mapM (deref_feature (refs_or_empty r)) (pr_features r) = Ok (pr_features r)).
  { induction H as [|x fs Hx HF IH]; cbn [py_mapM]; [reflexivity|].
    unfold deref_feature at 1. rewrite Hx, IH. reflexivity. }
  rewrite E. cbn. now rewrite rec_set_features_same.
Qed.

(* ---------- the product record at the entry point (C08) ---------------------------------------------- *)

From MV Require Import Annot AnnotPipeline.

Lemma dict_values_refresh hd (d : list (pyrecord * entity)) : dict_values (refresh hd d) = refresh hd (dict_values d).
Proof.
  unfold dict_values, refresh, Refresh_list, Refresh_value. rewrite !map_map. reflexivity.
Qed.

(* when the citations dereference and the model yields a product, vector.assemble(...) as regenerated
   returns ref_record (annotated ...) of a record p whose sequence and ordered feature table are
   Annot.product of the fragments of the consumed modules, in chain order, then the vector's —
   the inputs being read as they are once dereferenced (refresh hd) *)
Theorem run_assemble_records vector m ms kw hd :
  good_ent vector -> Forall good_ent (m :: ms) ->
  map ent_id (m :: ms) = seq 0 (List.length (m :: ms)) -> ent_id vector = List.length (m :: ms) ->
  deref_elems ((m :: ms) ++ [vector]) [] (heap_of (vector :: m :: ms)) = Ok hd ->
  match assemble_raw (ent_cls vector) (ent_seq_w vector) (map raw_of (m :: ms)) with
  | Product w used unused =>
    exists p ws mgr usedE,
      fst (run_assemble (S (S (List.length (m :: ms)))) vector (m :: ms) kw)
      = Ok (ref_record (annotated mgr (pr_id (ent_record vector)) (map (fun x => pr_id (ent_record x)) (m :: ms)) p), ws)
      /\ map ent_id usedE = used /\ incl usedE (refresh hd (m :: ms))
      /\ pr_kind p = KCircularRecord
      /\ same_sf (to_record p) (product (map frag_rec (usedE ++ [refresh hd vector])))
  | _ => True
  end.
Proof.
  intros Gv Gm Hids Hvid Ede.
  set (modules := m :: ms) in *.
  assert (Hnd : NoDup (map ent_id (vector :: modules))).
  { cbn [map]. rewrite Hids, Hvid. constructor; [intros H; apply in_seq in H; lia|apply seq_NoDup]. }
  pose proof (run_assemble_eq (S (S (List.length modules))) vector m ms kw Hnd) as RE. cbv zeta in RE.
  fold modules in RE.
  pose proof (modmap_phase vector modules (kw_id kw) (kw_name kw) Gv Gm Hids) as M1.
  assert (Hget : forall e, In e (vector :: modules) -> heap_get (heap_of (vector :: modules)) (ent_id e) = Some (ent_record e))
    by (apply heap_of_get; exact Hnd).
  destruct (assemble_raw (ent_cls vector) (ent_seq_w vector) (map raw_of modules)) as [w used unused| | | |] eqn:Eraw0; try exact I.
  destruct (AssemblyManager_init tt vector modules (kw_id kw) (kw_name kw)) as [mgr|e] eqn:Ei; cbn [bind] in *.
  2:{ destruct e; try discriminate. destruct o; discriminate. }
  destruct (AssemblyManager_generate_modules_map mgr) as [d|e] eqn:Emap; cbn [bind] in *.
  2:{ destruct e; try discriminate. destruct o; discriminate. }
  destruct M1 as (up & down & fr & pre & Hv & Hmods & _ & Hid & Hname & Hu & Hd & Hf & Hrel & Hlen & Eraw).
  rewrite Ede in RE.
  pose proof (deref_elems_shape _ _ _ _ Ede) as Rd.
  destruct (refresh_entity_shape _ hd vector Rd (Hget vector (or_introl eq_refl))) as (Hi' & Hc' & Hs').
  destruct (good_shape vector _ Hi' Hc' Hs' Gv) as (Gv' & _ & Hw').
  assert (Hrel' : dict_rel (refresh hd d) pre).
  { apply (dict_rel_refresh (heap_of (vector :: modules)) hd d pre Rd); [|exact Hrel].
    intros ke Hke. apply Hget. right. rewrite <- Hmods. apply (modmap_values_incl mgr d Emap).
    unfold dict_values. now apply in_map. }
  pose proof (generate_phase_records (refresh hd vector) (refresh hd mgr) (refresh hd d) pre (List.length pre) up down fr Gv') as GP.
  rewrite Hc', Hw' in GP.
  specialize (GP ltac:(unfold refresh at 1, Refresh_asmgr; cbn [am_vector]; now rewrite Hv) Hu Hd Hf Hrel' eq_refl).
  rewrite <- Hlen in RE.
  destruct (dwalk (S (List.length pre)) (okey up) (okey down) pre []) as [u rest|o|]; cbn [finish] in Eraw; try discriminate.
  inversion Eraw; subst w used unused.
  destruct GP as (p & ws & uE & Eg & Hids_u & Hi & Kp & Hprod).
  rewrite Eg in RE.
  exists p, ws, mgr, uE. split; [rewrite <- Hlen; exact RE|]. split; [exact Hids_u|]. split; [|split; [exact Kp|exact Hprod]].
  intros x Hx. specialize (Hi x Hx). rewrite dict_values_refresh in Hi.
  unfold refresh, Refresh_list in *. apply in_map_iff in Hi. destruct Hi as (y & <- & Hy).
  apply in_map. rewrite <- Hmods. exact (modmap_values_incl mgr d Emap y Hy).
Qed.

(* ---------- repeating a call ------------------------------------------------------------------------- *)

(* after vector.assemble(...) — whatever its outcome — the caller's objects read as the arguments
   did: calling again, or calling with corrected modules after a failure, is calling on the same
   values (and run_assemble is a function of them) *)
Theorem run_assemble_repeat fuel vector m ms kw :
  NoDup (map ent_id (vector :: m :: ms)) ->
  let h1 := snd (run_assemble fuel vector (m :: ms) kw) in
  refresh h1 vector = vector /\ refresh h1 (m :: ms) = m :: ms.
Proof.
  intros Hnd h1.
  assert (Hget : forall e, In e (vector :: m :: ms) -> heap_get (heap_of (vector :: m :: ms)) (ent_id e) = Some (ent_record e))
    by (apply heap_of_get; exact Hnd).
  assert (H1 : forall e, In e (vector :: m :: ms) -> heap_get h1 (ent_id e) = Some (ent_record e)).
  { intros e He. subst h1. unfold run_assemble.
    pose proof (vector_assemble_restores fuel vector m ms kw (ent_id e) (ent_record e) (Hget e He)) as Hr.
    destruct (AbstractVector_assemble fuel vector m ms kw (heap_of (vector :: m :: ms))) as [[[l ws]|x] h]; exact Hr. }
  split.
  - apply refresh_same. apply H1. now left.
  - apply refresh_list_same. intros e He. apply H1. now right.
Qed.
