(* SrcGlueStub.v — stands in for SrcGlue.v in the correspondence cases when the source layer does
   not build (Gen/Src.v could not be regenerated or an equivalence no longer goes through): the
   implementation is then compared with the hand-written model only, and the direct oracles still
   run. The broken obligations are reported separately. No proofs here. *)
From MV Require Import Base Record Regex Typing Assembly Pipeline Glue.

Definition src_assemble (vc : cls) (v : list letter) (ms : list (cls * list letter)) : @Assembly.outcome (list code) :=
  assemble_raw vc v ms.

Definition src_observe (c : cls) (s : list letter) :=
  let '(v, u, d, t, p) := observe1 c s in
  (v, u, d, t, match crole c with RVector => p | RModule => None end).
