(* AnnotPipeline.v — the annotated product of an assembly from raw annotated records:
   typing gives the cut span of each element (Typing.v), Annot.v the fragments and their
   concatenation. Elements are given in chain order (modules, then the vector). *)
From MV Require Import Base Record Regex Typing Annot.

Definition elem_fragment (c : cls) (j : nat) (r : record) : option record :=
  match typing c (rseq r) true with
  | Valid m =>
    match cut_span m with
    | Some (a, b) =>
        Some (fragment (match crole c with RVector => true | RModule => false end)
                       (Z.of_nat a) (Z.of_nat (b - a)) j r)
    | None => None
    end
  | _ => None
  end.

Fixpoint elem_fragments (es : list (cls * record)) (j : nat) : option (list record) :=
  match es with
  | [] => Some []
  | (c, r) :: t =>
    match elem_fragment c j r, elem_fragments t (S j) with
    | Some f, Some fs => Some (f :: fs)
    | _, _ => None
    end
  end.

Definition annot_product (es : list (cls * record)) : option record :=
  option_map product (elem_fragments es 0).
