(* SrcEquivRegex.v — the definitions regenerated from moclo/regex.py and the simple
   methods of moclo/record.py (Gen/Src.v) compute what the hand-written model
   (Regex.v, Circle.v) says, for all inputs. *)
From MV Require Import Base RotLemmas Record Regex RegexLemmas Typing Circle Annot Py PyObj.
From MV.Gen Require Import Src.
From Coq Require Import String.
Local Open Scope Z_scope.

(* ---------- slices ------------------------------------------------------- *)

Lemma py_norm_nat (n i : nat) : py_norm (Z.of_nat n) (Z.of_nat i) = Z.of_nat (Nat.min i n).
Proof. unfold py_norm. destruct (Z.ltb_spec (Z.of_nat i) 0); lia. Qed.

Lemma firstn_all2' {A} (l : list A) n : (List.length l <= n)%nat -> firstn n l = l.
Proof. apply firstn_all2. Qed.

Lemma py_slice_nat {A} (s : list A) (a b : nat) :
  py_slice s (Some (Z.of_nat a)) (Some (Z.of_nat b)) = slice s a b.
Proof.
  unfold py_slice, slice, py_len. rewrite !py_norm_nat.
  set (n := List.length s).
  replace (Z.to_nat (Z.of_nat (Nat.min b n) - Z.of_nat (Nat.min a n))) with (Nat.min b n - Nat.min a n)%nat by lia.
  rewrite Nat2Z.id.
  destruct (Nat.le_gt_cases a n) as [Ha|Ha].
  - rewrite (Nat.min_l a n) by lia.
    destruct (Nat.le_gt_cases b n) as [Hb|Hb].
    + rewrite (Nat.min_l b n) by lia. reflexivity.
    + rewrite (Nat.min_r b n) by lia.
      rewrite !firstn_all2; try reflexivity; rewrite skipn_length; fold n; lia.
  - rewrite (Nat.min_r a n) by lia.
    rewrite (skipn_all2 s (n := n)) by (fold n; lia).
    rewrite (skipn_all2 s (n := a)) by (fold n; lia).
    now rewrite !firstn_nil.
Qed.

Lemma py_slice_from {A} (s : list A) (a : nat) : py_slice s (Some (Z.of_nat a)) None = skipn a s.
Proof.
  unfold py_slice, py_len. rewrite py_norm_nat.
  set (n := List.length s).
  replace (Z.to_nat (Z.of_nat n - Z.of_nat (Nat.min a n))) with (n - Nat.min a n)%nat by lia.
  rewrite Nat2Z.id.
  destruct (Nat.le_gt_cases a n) as [Ha|Ha].
  - rewrite (Nat.min_l a n) by lia. apply firstn_all2. rewrite skipn_length. fold n. lia.
  - rewrite (Nat.min_r a n) by lia.
    rewrite (skipn_all2 s (n := n)) by (fold n; lia).
    rewrite (skipn_all2 s (n := a)) by (fold n; lia). apply firstn_nil.
Qed.

Lemma py_slice_to {A} (s : list A) (b : nat) : py_slice s None (Some (Z.of_nat b)) = firstn b s.
Proof.
  unfold py_slice, py_len. rewrite py_norm_nat. cbn [Z.to_nat skipn].
  rewrite Z.sub_0_r, Nat2Z.id.
  destruct (Nat.le_gt_cases b (List.length s)).
  - now rewrite Nat.min_l by lia.
  - rewrite Nat.min_r by lia. now rewrite !firstn_all2 by lia.
Qed.

(* ---------- x[lo:hi] and x + y on records, at the level of the sequence --- *)

Definition linear_kind (r : pyrecord) : Prop := pr_kind r <> KCircularRecord.

Lemma py_norm_nonneg n i : 0 <= n -> 0 <= py_norm n i.
Proof. intros. unfold py_norm. destruct (Z.ltb_spec i 0); lia. Qed.

Lemma bio_getslice_seq r lo hi : pr_seq (bio_getslice r lo hi) = py_slice (pr_seq r) lo hi.
Proof.
  unfold bio_getslice. destruct (pr_kind r); cbn; try reflexivity.
  all: unfold py_slice, slice.
  all: set (n := py_len (pr_seq r)).
  all: assert (Hn : 0 <= n) by (unfold n, py_len; lia).
  all: set (a := match lo with Some i => py_norm n i | None => 0 end).
  all: set (b := match hi with Some i => py_norm n i | None => n end).
  all: assert (0 <= a) by (subst a; destruct lo; [apply py_norm_nonneg; assumption | lia]).
  all: f_equal; lia.
Qed.

Lemma getitem_slice_ok r lo hi :
  exists r', CircularRecord_getitem_slice r (lo, hi) = Ok r'
    /\ pr_seq r' = py_slice (pr_seq r) lo hi /\ pr_kind r' = KSeqRecord.
Proof.
  unfold CircularRecord_getitem_slice.
  set (x := bio_getitem_slice r (lo, hi)).
  assert (Hx : pr_seq x = py_slice (pr_seq r) lo hi)
    by (unfold x, bio_getitem_slice; cbn [pr_seq fst snd]; apply bio_getslice_seq).
  destruct (ann_has_topology (py_deepcopy (pr_annotations x))); cbn [bind];
    eexists; (split; [reflexivity|]); cbn; split; auto.
Qed.

Lemma getslice_rec r lo hi :
  exists r', py_getslice r lo hi = Ok r' /\ pr_seq r' = py_slice (pr_seq r) lo hi /\ linear_kind r'.
Proof.
  unfold py_getslice, PyGetSlice_rec, linear_kind.
  destruct (pr_kind r) eqn:K.
  - eexists; split; [reflexivity|]. split; [apply bio_getslice_seq|].
    unfold bio_getslice. rewrite K. cbn. discriminate.
  - eexists; split; [reflexivity|]. split; [apply bio_getslice_seq|].
    unfold bio_getslice. rewrite K. cbn. discriminate.
  - destruct (getitem_slice_ok r lo hi) as (r' & E & Hs & Hk).
    exists r'. repeat split; try assumption. rewrite Hk. discriminate.
Qed.

Lemma addm_rec x y : linear_kind x -> linear_kind y ->
  exists r, py_addm x y = Ok r /\ pr_seq r = pr_seq x ++ pr_seq y /\ linear_kind r.
Proof.
  unfold linear_kind, py_addm, PyAddM_rec, is_CircularRecord, bio_add, is_SeqRecord.
  destruct x as [kx sx ix fx ax lx], y as [ky sy iy fy ay ly]. cbn. intros Hx Hy.
  destruct kx, ky; try congruence; cbn; eexists; (split; [reflexivity|]); cbn;
    (split; [reflexivity|discriminate]).
Qed.

Lemma ann_common_topology a b :
  an_topology a = None \/ an_topology b = None -> an_topology (ann_common a b) = None.
Proof.
  unfold ann_common; cbn [an_topology]. intros [H|H]; rewrite H; [reflexivity|].
  destruct (an_topology a); reflexivity.
Qed.

(* a plain SeqRecord without topology annotation: what the assembly accumulates *)
Definition plain (r : pyrecord) : Prop := pr_kind r = KSeqRecord /\ an_topology (pr_annotations r) = None.

Lemma addm_seqrecords x y : plain x -> pr_kind y = KSeqRecord ->
  exists r, py_addm x y = Ok r /\ pr_seq r = pr_seq x ++ pr_seq y /\ plain r.
Proof.
  unfold plain, py_addm, PyAddM_rec, is_CircularRecord, bio_add, is_SeqRecord.
  destruct x as [kx sx ix fx ax lx nx], y as [ky sy iy fy ay ly ny]. cbn. intros [-> Hx] ->.
  eexists; (split; [reflexivity|]); cbn; repeat split. apply ann_common_topology. now left.
Qed.

Lemma getslice_circular r lo hi : pr_kind r = KCircularRecord ->
  exists r', py_getslice r lo hi = Ok r' /\ pr_seq r' = py_slice (pr_seq r) lo hi /\ pr_kind r' = KSeqRecord.
Proof.
  intros K. unfold py_getslice, PyGetSlice_rec. rewrite K. apply getitem_slice_ok.
Qed.

(* ---------- SeqMatch ------------------------------------------------------ *)

Theorem SeqMatch_start_eq m rec sh : SeqMatch_start (SM m rec sh) = Ok (Z.of_nat (mstart m)).
Proof. reflexivity. Qed.

Theorem SeqMatch_end_eq m rec sh : SeqMatch_end (SM m rec sh) = Ok (Z.of_nat (mend m)).
Proof. reflexivity. Qed.

Lemma re_span_nat m g :
  re_span m (Z.of_nat g) =
  match span m g with Some (a, b) => Ok (Z.of_nat a, Z.of_nat b) | None => Err XIndexError end.
Proof.
  unfold re_span. destruct (Z.ltb_spec (Z.of_nat g) 0); [lia|]. now rewrite Nat2Z.id.
Qed.

Theorem SeqMatch_span_eq m rec sh g :
  SeqMatch_span (SM m rec sh) (Z.of_nat g) =
  match span m g with Some (a, b) => Ok (Z.of_nat a, Z.of_nat b) | None => Err XIndexError end.
Proof.
  unfold SeqMatch_span. cbn [sm_match]. rewrite re_span_nat.
  destruct (span m g) as [[a b]|]; reflexivity.
Qed.

Lemma mod_nat (a n : nat) : n <> 0%nat -> Z.of_nat a mod Z.of_nat n = Z.of_nat (a mod n).
Proof. intros. now rewrite Nat2Z.inj_mod. Qed.

Lemma getitem_pair0 (a b : Z) : py_getitem (a, b) 0 = Ok a.
Proof. reflexivity. Qed.
Lemma getitem_pair1 (a b : Z) : py_getitem (a, b) 1 = Ok b.
Proof. reflexivity. Qed.

(* SeqMatch.group: the record returned carries exactly the text of the model's group *)
Theorem SeqMatch_group_eq m rec sh g :
  pr_seq rec <> [] ->
  match span m g with
  | Some sp => exists r, SeqMatch_group (SM m rec sh) (Z.of_nat g) = Ok r
                         /\ pr_seq r = group_of_span (pr_seq rec) sp /\ linear_kind r
  | None => SeqMatch_group (SM m rec sh) (Z.of_nat g) = Err XIndexError
  end.
Proof.
  intros Hne. unfold SeqMatch_group. cbn [sm_match sm_rec]. rewrite re_span_nat.
  destruct (span m g) as [[a b]|]; [|reflexivity].
  cbn [bind]. rewrite !getitem_pair0, !getitem_pair1. cbn [bind].
  unfold group_of_span. set (s := pr_seq rec) in *.
  assert (Hn : List.length s <> 0%nat) by (destruct s; cbn; congruence).
  unfold py_len_of, PyLen_rec, py_len. fold s.
  set (n := List.length s) in *.
  replace (Z.of_nat b >=? Z.of_nat a) with (a <=? b)%nat
    by (rewrite Z.geb_leb; destruct (Nat.leb_spec a b), (Z.leb_spec (Z.of_nat a) (Z.of_nat b)); lia).
  replace (Z.of_nat a >=? Z.of_nat n) with (n <=? a)%nat
    by (rewrite Z.geb_leb; destruct (Nat.leb_spec n a), (Z.leb_spec (Z.of_nat n) (Z.of_nat a)); lia).
  replace (Z.of_nat b >=? Z.of_nat n) with (n <=? b)%nat
    by (rewrite Z.geb_leb; destruct (Nat.leb_spec n b), (Z.leb_spec (Z.of_nat n) (Z.of_nat b)); lia).
  replace (Z.of_nat n >? Z.of_nat a) with (a <? n)%nat
    by (rewrite Z.gtb_ltb; destruct (Nat.ltb_spec a n), (Z.ltb_spec (Z.of_nat a) (Z.of_nat n)); lia).
  rewrite (andb_comm (a <=? b)%nat).
  destruct ((n <=? a)%nat && (a <=? b)%nat).
  - unfold py_mod. destruct (Z.eqb_spec (Z.of_nat n) 0); [lia|]. cbn [bind].
    rewrite !mod_nat by assumption.
    destruct (getslice_rec rec (Some (Z.of_nat (a mod n))) (Some (Z.of_nat (b mod n)))) as (r & E & Hs & Hk).
    rewrite E. cbn [bind]. exists r. repeat split; try assumption.
    rewrite Hs. apply py_slice_nat.
  - destruct ((n <=? b)%nat && (a <? n)%nat).
    + destruct (getslice_rec rec (Some (Z.of_nat a)) None) as (r1 & E1 & Hs1 & Hk1).
      rewrite E1. cbn [bind].
      unfold py_mod. destruct (Z.eqb_spec (Z.of_nat n) 0); [lia|]. cbn [bind].
      rewrite mod_nat by assumption.
      destruct (getslice_rec rec None (Some (Z.of_nat (b mod n)))) as (r2 & E2 & Hs2 & Hk2).
      rewrite E2. cbn [bind].
      destruct (addm_rec r1 r2 Hk1 Hk2) as (r & E & Hs & Hk).
      rewrite E. cbn [bind]. exists r. repeat split; try assumption.
      rewrite Hs, Hs1, Hs2. fold s. now rewrite py_slice_from, py_slice_to.
    + destruct (getslice_rec rec (Some (Z.of_nat a)) (Some (Z.of_nat b))) as (r & E & Hs & Hk).
      rewrite E. cbn [bind]. exists r. repeat split; try assumption.
      rewrite Hs. apply py_slice_nat.
Qed.

(* ---------- DNARegex.search ------------------------------------------------ *)

Lemma py_range_cons a b : a < b -> py_range a b = a :: py_range (a + 1) b.
Proof.
  intros. unfold py_range.
  replace (Z.to_nat (b - a)) with (S (Z.to_nat (b - (a + 1)))) by lia.
  cbn [seq map]. f_equal; [lia|].
  rewrite <- seq_shift, map_map. apply map_ext. intros. lia.
Qed.

Lemma py_range_nil a b : b <= a -> py_range a b = [].
Proof. intros. unfold py_range. replace (Z.to_nat (b - a)) with 0%nat by lia. reflexivity. Qed.

Lemma re_match_here items data n i :
  re_match items data (Z.of_nat i) (Z.of_nat i + Z.of_nat n) =
  match match_here items (skipn i data) n i with Some (e, cs) => Some (M i e cs) | None => None end.
Proof.
  unfold re_match, match_here. rewrite Nat2Z.id.
  replace (Z.to_nat (Z.of_nat i + Z.of_nat n - Z.of_nat i)) with n by lia. reflexivity.
Qed.

Lemma tl_skipn {A} (w : list A) : forall i, tl (skipn i w) = skipn (S i) w.
Proof.
  induction w as [|x w IH]; intros [|i]; try reflexivity.
  cbn [skipn]. rewrite IH. reflexivity.
Qed.

Lemma search_loop items data rec n : forall cnt i,
  n = List.length (pr_seq rec) ->
  py_for (py_range (Z.of_nat i) (Z.of_nat (i + cnt))) tt
    (fun i0 (_ : unit) =>
       t1 <- py_addm i0 (py_len_of rec) ;;
       match re_match items data i0 t1 with
       | Some m => Ok (Ret (Some (mk_SeqMatch m rec)))
       | None => Ok (Next tt)
       end)
  = Ok (match scan items (skipn i data) n i cnt with
        | Some m => Ret (Some (mk_SeqMatch m rec))
        | None => Next tt
        end).
Proof.
  induction cnt as [|cnt IH]; intros i Hn.
  - rewrite py_range_nil by lia. reflexivity.
  - rewrite py_range_cons by lia. cbn [py_for scan].
    unfold py_addm at 1, PyAddM_Z. cbn [bind].
    unfold py_len_of at 1, PyLen_rec, py_len. rewrite <- Hn, re_match_here.
    destruct (match_here items (skipn i data) n i) as [[e cs]|]; [reflexivity|].
    replace (Z.of_nat i + 1) with (Z.of_nat (S i)) by lia.
    replace (i + S cnt)%nat with (S i + cnt)%nat by lia.
    rewrite IH by assumption. now rewrite tl_skipn.
Qed.

Lemma py_mul_2 {A} (s : list A) : py_mul s 2 = s ++ s.
Proof.
  unfold py_mul, PyMul_list. change (Z.to_nat 2) with 2%nat. cbn [repeat_app]. now rewrite app_nil_r.
Qed.

Theorem DNARegex_search_eq items rec (pos : nat) (endpos : Z) linear :
  0 <= endpos ->
  DNARegex_search items rec (Z.of_nat pos) endpos linear =
  Ok (option_map (fun m => mk_SeqMatch m rec)
        (search items (pr_seq rec) (negb linear || is_CircularRecord rec) pos (Z.to_nat endpos))).
Proof.
  intros Hend.
  unfold DNARegex_search, search. cbn [py_isinstance_seq_or_record negb bind].
  set (s := pr_seq rec). set (n := List.length s).
  assert (Hdata : (if is_SeqRecord rec then Ok (py_str (py_seq rec)) else Ok (py_str rec)) = Ok s)
    by (destruct (is_SeqRecord rec); reflexivity).
  rewrite Hdata. cbn [bind].
  set (circ := negb linear || is_CircularRecord rec).
  assert (Hd2 : (if circ then Ok (py_mul s 2) else Ok s) = Ok (if circ then s ++ s else s)).
  { destruct circ; [|reflexivity]. now rewrite py_mul_2. }
  rewrite Hd2. cbn [bind]. set (data := if circ then s ++ s else s).
  unfold py_len_of at 1, PyLen_rec, py_len. fold s n.
  replace (Z.min (Z.of_nat n) endpos) with (Z.of_nat (Nat.min n (Z.to_nat endpos))) by lia.
  set (stop := Nat.min n (Z.to_nat endpos)).
  destruct (Nat.le_gt_cases stop pos) as [Hle|Hgt].
  - rewrite py_range_nil by lia. cbn.
    replace (stop - pos)%nat with 0%nat by lia. reflexivity.
  - replace stop with (pos + (stop - pos))%nat at 1 by lia.
    rewrite (search_loop items data rec n) by reflexivity. cbn [bind].
    destruct (scan items (skipn pos data) n pos (stop - pos)); reflexivity.
Qed.

(* ---------- CircularRecord.__contains__ ------------------------------------ *)

Theorem CircularRecord_contains_eq rec q :
  CircularRecord_contains rec q = Ok (contains letter_eqb q (pr_seq rec)).
Proof.
  unfold CircularRecord_contains, contains. f_equal.
  rewrite py_mul_2.
  unfold py_len_of, PyLen_list, PyLen_rec, py_len, py_in_str, py_str, py_seq.
  cbn. f_equal.
  destruct (Z.leb_spec (Z.of_nat (List.length q)) (Z.of_nat (List.length (pr_seq rec))));
    destruct (Nat.leb_spec (List.length q) (List.length (pr_seq rec))); lia || reflexivity.
Qed.

(* ---------- CircularRecord.__getitem__(slice) ------------------------------ *)

(* a slice of a circular record is a plain SeqRecord carrying the ordinary string slice and
   no topology annotation (Biopython's slice keeps "molecule_type" only) *)
Theorem CircularRecord_getitem_slice_eq rec lo hi :
  pr_kind rec = KCircularRecord ->
  exists r, CircularRecord_getitem_slice rec (lo, hi) = Ok r
    /\ pr_kind r = KSeqRecord
    /\ pr_seq r = py_slice (pr_seq rec) lo hi
    /\ pr_annotations r = ann_sliced (pr_annotations rec).
Proof.
  intros K. unfold CircularRecord_getitem_slice.
  set (x := bio_getitem_slice rec (lo, hi)).
  assert (Hx : pr_seq x = py_slice (pr_seq rec) lo hi)
    by (unfold x, bio_getitem_slice; cbn [pr_seq fst snd]; apply bio_getslice_seq).
  assert (Ha : pr_annotations x = ann_sliced (pr_annotations rec))
    by (unfold x, bio_getitem_slice, bio_getslice; rewrite K; reflexivity).
  unfold py_deepcopy. rewrite Ha.
  cbn [ann_has_topology ann_sliced an_topology is_none negb bind];
    eexists; (split; [reflexivity|]); cbn; auto.
Qed.
