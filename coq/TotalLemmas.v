(* TotalLemmas.v — typing is total; on a rejected record every query is the documented
   error; on an accepted record of a class of the common shape every query is defined;
   an assembly of raw records never ends in an internal error (C17). *)
From MV Require Import Base RotLemmas Regex RegexLemmas Shape ShapeLemmas Typing TypingLemmas
                       Assembly AssemblyLemmas Pipeline.

Lemma invalid_queries c s : is_valid c s true = false ->
  overhang_start c s true = None /\ overhang_end c s true = None /\ target c s true = None /\
  placeholder c s true = None.
Proof.
  unfold is_valid, overhang_start, overhang_end, target, placeholder, with_match.
  destruct (typing c s true); [discriminate|auto|auto].
Qed.

Lemma typing_valid_search c s m : typing c s true = Valid m -> search (cpat c) s true 0 (length s) = Some m.
Proof.
  unfold typing. destruct (search (cpat c) s true 0 (length s)) as [m'|]; [|discriminate].
  destruct (group m' s 0); [|discriminate]. destruct (3 <? fragments (cenz c) l); [discriminate|].
  intros H. now inversion H.
Qed.

Lemma shape_spans c sh s m : cpat c = shape_pat sh -> typing c s true = Valid m ->
  exists pc, mgroups m = map (sh_span (mstart m)) [(3, q3 pc, q4 pc); (2, p2 pc, q3 pc); (1, p1 pc, p2 pc)] /\
             pieces_ok sh pc /\ mend m = length (pieces_text pc) + mstart m /\
             firstn (length (pieces_text pc)) (window s (mstart m)) = pieces_text pc /\
             length (pieces_text pc) <= length s /\ mstart m < length s.
Proof.
  intros Hp Ht. apply typing_valid_search in Ht.
  destruct (search_to_window _ _ _ Ht) as (Hi & e' & cs' & Hw & He & Hcs).
  unfold wmatch in Hw. rewrite Hp in Hw.
  destruct (shape_match _ _ _ _ Hw) as (pc & Htxt & Hok & Hlen & Hle & Hsp).
  rewrite window_length in Hle by lia.
  exists pc. subst e' cs'. split; [exact Hcs|]. split; [exact Hok|]. repeat split; auto; try lia.
Qed.

(* on an accepted record every query has a value *)
Theorem valid_queries c sh s : cpat c = shape_pat sh -> is_valid c s true = true ->
  overhang_start c s true <> None /\ overhang_end c s true <> None /\ target c s true <> None /\
  placeholder c s true <> None.
Proof.
  intros Hp Hv. unfold is_valid in Hv. destruct (typing c s true) as [m| |] eqn:Et; try discriminate.
  destruct (shape_spans c sh s m Hp Et) as (pc & Hg & _).
  unfold overhang_start, overhang_end, target, placeholder, with_match. rewrite Et.
  unfold group, cut_span, span. rewrite Hg. cbn [map sh_span find_span fst snd Nat.eqb].
  destruct (crole c); cbn; repeat split; discriminate.
Qed.

(* ids given by type_prefix are the argument positions: pairwise distinct *)
Lemma type_prefix_ids : forall ms i, map mid (fst (type_prefix ms i)) = seq i (length (fst (type_prefix ms i))).
Proof.
  induction ms as [|[c s] r IH]; intros i; cbn [type_prefix]; [reflexivity|].
  destruct (typed_module c i s) as [t|] eqn:E; [|reflexivity].
  specialize (IH (S i)). destruct (type_prefix r (S i)) as [l ok]. cbn in *. rewrite IH.
  unfold typed_module in E. destruct (overhang_start c s true), (overhang_end c s true), (target c s true); try discriminate.
  inversion E; subst. reflexivity.
Qed.

(* an assembly over any mix of valid and invalid records ends with a product or one of the
   documented errors *)
Theorem assemble_raw_no_internal vc v ms : assemble_raw vc v ms <> EInternal.
Proof.
  unfold assemble_raw. destruct (typed_vector vc v) as [tv|]; [|discriminate].
  destruct (codes_eqb (vup tv) (vdown tv)); [discriminate|].
  pose proof (type_prefix_ids ms 0) as Hids. destruct (type_prefix ms 0) as [pre ok]. cbn in Hids.
  destruct (build_map codes_eqb pre []) as [mp|[a b]]; [|discriminate].
  destruct ok; [|discriminate].
  pose proof (assemble_spec codes_eqb rc_codes codes_eqb_spec tv pre) as Hs.
  rewrite Hids in Hs. specialize (Hs (seq_NoDup _ _)).
  unfold dna_assemble. destruct (assemble codes_eqb rc_codes tv pre); try discriminate. contradiction.
Qed.
