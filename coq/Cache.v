(* Cache.v — L5: the per-class compiled-pattern cache of StructuredRecord
   (core/_structured.py:25,40-44) as a state machine.  A class is identified by its
   name; the cache maps names of classes that own a `_regex` attribute to the
   pattern stored there. Executable definitions only. *)
From MV Require Import Base Regex Typing.
From Coq Require Import String.

Record centry := CE {
  cname : string;            (* the class object *)
  cmro  : list string;       (* names along its MRO, itself first *)
  ccls  : cls                (* role, cutter, structure() *)
}.

Definition cache := list (string * pattern).

Fixpoint cache_get (n : string) (s : cache) : option pattern :=
  match s with
  | [] => None
  | (k, p) :: r => if String.eqb k n then Some p else cache_get n r
  end.

(* repaired lookup: the class's own namespace only *)
Definition lookup_own (s : cache) (e : centry) : option pattern := cache_get (cname e) s.

(* pinned lookup (F2): ordinary attribute resolution, first owner along the MRO *)
Fixpoint lookup_names (s : cache) (names : list string) : option pattern :=
  match names with
  | [] => None
  | n :: r => match cache_get n s with Some p => Some p | None => lookup_names s r end
  end.
Definition lookup_mro (s : cache) (e : centry) : option pattern := lookup_names s (cmro e).

(* _get_regex: compile and store on the class when nothing is found *)
Definition get_regex (lk : cache -> centry -> option pattern) (s : cache) (e : centry) : pattern * cache :=
  match lk s e with
  | Some p => (p, s)
  | None => (cpat (ccls e), (cname e, cpat (ccls e)) :: s)
  end.

(* what a typing query reports *)
Definition answer := (bool * option (list letter) * option (list letter) * option (list letter))%type.

Definition answer_of (c : cls) (s : list letter) : answer :=
  (is_valid c s true, overhang_start c s true, overhang_end c s true, target c s true).

Definition with_pat (c : cls) (p : pattern) : cls := C (crole c) (cenz c) p.

(* a fresh entity of class e wrapping record s is asked is_valid / overhangs / target *)
Definition query (lk : cache -> centry -> option pattern) (st : cache) (e : centry) (s : list letter)
  : answer * cache :=
  let (p, st') := get_regex lk st e in (answer_of (with_pat (ccls e) p) s, st').

Fixpoint run (lk : cache -> centry -> option pattern) (st : cache) (h : list (centry * list letter))
  : list answer * cache :=
  match h with
  | [] => ([], st)
  | (e, s) :: r =>
    let (a, st') := query lk st e s in
    let (l, st'') := run lk st' r in (a :: l, st'')
  end.

(* the answer of a query issued first, in a fresh interpreter *)
Definition fresh (e : centry) (s : list letter) : answer := answer_of (ccls e) s.
