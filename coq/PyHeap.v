(* PyHeap.v — the target of harness/src2coq_heap.py: methods that update objects in place.

   The methods of core/_assembly.py that handle citations and the product's metadata
   (assemble, _deref_citations, _ref_citations, _annotate_assembly) assign into lists and
   dictionaries owned by records that the caller still holds.  They are translated into a
   state-and-exception monad over a heap of records addressed by object identity; an
   exception leaves the heap as it was at the point of the raise, which is what `finally`
   then sees.  Executable definitions only. *)
From MV Require Import Base Record Py PyObj.
From Coq Require Import String Ascii DecimalString.
From Coq Require DecimalZ.
Local Open Scope Z_scope.

(* records that are mutated in place, by identity.  The records of the entities passed to
   an assembly live at the entity's identity (an entity object owns its record object; the
   same entity listed twice is one record); the product is allocated at a fresh address *)
Definition heap := list (nat * pyrecord).

Fixpoint heap_get (h : heap) (l : nat) : option pyrecord :=
  match h with
  | [] => None
  | (k, r) :: t => if Nat.eqb k l then Some r else heap_get t l
  end.
Fixpoint heap_set (h : heap) (l : nat) (r : pyrecord) : heap :=
  match h with
  | [] => []
  | (k, r0) :: t => if Nat.eqb k l then (k, r) :: t else (k, r0) :: heap_set t l r
  end.
Definition heap_keys (h : heap) : list nat := map fst h.
Definition heap_fresh (h : heap) : nat := S (fold_right Nat.max 0%nat (heap_keys h)).

Definition hexc (A : Type) := heap -> exc A * heap.
Definition hret {A} (a : A) : hexc A := fun h => (Ok a, h).
Definition hraise {A} (e : pyexc) : hexc A := fun h => (Err e, h).
Definition hbind {A B} (x : hexc A) (k : A -> hexc B) : hexc B :=
  fun h => match x h with (Ok a, h') => k a h' | (Err e, h') => (Err e, h') end.
(* a computation that does not touch the heap *)
Definition hlift {A} (x : exc A) : hexc A := fun h => (x, h).
(* a call of a method translated in value style: it reads the objects reachable from its
   arguments as they are now (see `refresh`) and updates none of them *)
Definition hpure {A} (f : heap -> exc A) : hexc A := fun h => (f h, h).

Notation "x <~ e ;; k" := (hbind e (fun x => k))
  (at level 61, e at next level, right associativity).
Notation "' p <~ e ;; k" := (hbind e (fun x => match x with p => k end))
  (at level 61, p pattern, e at next level, right associativity).

(* try: body  finally: fin   — fin runs on the heap the body left, whatever its outcome; an
   exception of fin replaces the body's outcome *)
Definition hfinally {A} (body : hexc A) (fin : hexc unit) : hexc A := fun h =>
  match body h with
  | (r, h1) => match fin h1 with
               | (Ok _, h2) => (r, h2)
               | (Err e, h2) => (Err e, h2)
               end
  end.

(* for x in xs: body   with loop-carried local variables st (no `return` inside) *)
Fixpoint hfor0 {X S} (xs : list X) (st : S) (body : X -> S -> hexc S) : hexc S :=
  match xs with
  | [] => hret st
  | x :: r => hbind (body x st) (fun st' => hfor0 r st' body)
  end.

Fixpoint hmapM {X Y} (f : X -> hexc Y) (xs : list X) : hexc (list Y) :=
  match xs with
  | [] => hret []
  | x :: r => hbind (f x) (fun y => hbind (hmapM f r) (fun ys => hret (y :: ys)))
  end.

(* ---------- objects in the heap ------------------------------------------- *)

(* a record object that is gone cannot happen in Python; in the model it is an exception of
   its own so that no theorem can confuse it with a documented one *)
Definition h_rec (l : nat) : hexc pyrecord := fun h =>
  match heap_get h l with Some r => (Ok r, h) | None => (Err XDangling, h) end.
Definition h_put (l : nat) (r : pyrecord) : hexc unit := fun h => (Ok tt, heap_set h l r).
(* a new object *)
Definition h_alloc (r : pyrecord) : hexc nat := fun h => (Ok (heap_fresh h), h ++ [(heap_fresh h, r)]).

(* a feature object: the j-th entry of record.features of the record at l *)
Inductive featref := FRef (l : nat) (j : nat).

(* for feature in record.features *)
Definition h_features (l : nat) : hexc (list featref) :=
  r <~ h_rec l ;; hret (map (FRef l) (seq 0 (List.length (pr_features r)))).

Definition h_feat (f : featref) : hexc feature :=
  match f with FRef l j =>
    r <~ h_rec l ;;
    match nth_error (pr_features r) j with Some x => hret x | None => hraise XDangling end
  end.

Fixpoint set_nth {A} (l : list A) (j : nat) (x : A) : list A :=
  match l, j with
  | [], _ => []
  | _ :: t, O => x :: t
  | a :: t, S j' => a :: set_nth t j' x
  end.

Definition feat_set_cits (x : feature) (cs : option (list qcit)) : feature :=
  F (fsource x) (ftype x) (Q (qid (fquals x)) cs) (floc x).
Definition rec_set_features (r : pyrecord) (fs : list feature) : pyrecord :=
  PR (pr_kind r) (pr_seq r) (pr_id r) fs (pr_annotations r) (pr_letter_annotations r) (pr_name r).
Definition rec_set_annotations (r : pyrecord) (a : annots) : pyrecord :=
  PR (pr_kind r) (pr_seq r) (pr_id r) (pr_features r) a (pr_letter_annotations r) (pr_name r).

Definition h_feat_put_cits (f : featref) (cs : list qcit) : hexc unit :=
  match f with FRef l j =>
    r <~ h_rec l ;;
    match nth_error (pr_features r) j with
    | Some x => h_put l (rec_set_features r (set_nth (pr_features r) j (feat_set_cits x (Some cs))))
    | None => hraise XDangling
    end
  end.

Definition key_citation : pykey := KeyStr "citation".
Definition key_references : pykey := KeyStr "references".

(* "citation" in feature.qualifiers *)
Definition h_quals_has_citation (f : featref) : hexc bool :=
  x <~ h_feat f ;; hret (negb (is_none (qcits (fquals x)))).
(* len(feature.qualifiers.get("citation", [])) — the list an enumerate() walks *)
Definition h_cits_len (f : featref) : hexc Z :=
  x <~ h_feat f ;; hret (match qcits (fquals x) with Some cs => py_len cs | None => 0 end).
(* the i-th element the list iterator yields: read when the iteration reaches it *)
Definition h_cit_at (f : featref) (i : Z) : hexc qcit :=
  x <~ h_feat f ;;
  match qcits (fquals x) with
  | Some cs => hlift (py_getitem cs i)
  | None => hraise XIndexError
  end.
(* list(feature.qualifiers["citation"]) *)
Definition h_cits_list (f : featref) : hexc (list qcit) :=
  x <~ h_feat f ;;
  match qcits (fquals x) with Some cs => hret cs | None => hraise (XKeyError key_citation) end.
(* feature.qualifiers["citation"][i] = v *)
Definition h_cit_setitem (f : featref) (i : Z) (v : qcit) : hexc unit :=
  x <~ h_feat f ;;
  match qcits (fquals x) with
  | Some cs =>
    let n := py_len cs in
    if (i <? - n) || (n <=? i) then hraise XIndexError
    else h_feat_put_cits f (set_nth cs (Z.to_nat (py_norm n i)) v)
  | None => hraise (XKeyError key_citation)
  end.
(* feature.qualifiers["citation"][:] = vs *)
Definition h_cits_assign (f : featref) (vs : list qcit) : hexc unit :=
  x <~ h_feat f ;;
  match qcits (fquals x) with
  | Some _ => h_feat_put_cits f vs
  | None => hraise (XKeyError key_citation)
  end.

(* record.annotations.get("references", []), read *)
Definition h_refs_get_or_empty (l : nat) : hexc (list qcit) :=
  r <~ h_rec l ;; hret (match an_references (pr_annotations r) with Some x => x | None => [] end).
Definition ann_set_references (a : annots) (x : list qcit) : annots := AN (an_topology a) (Some x) (an_other a).
(* record.annotations.setdefault("references", []) *)
Definition h_refs_setdefault (l : nat) : hexc unit :=
  r <~ h_rec l ;;
  match an_references (pr_annotations r) with
  | Some _ => hret tt
  | None => h_put l (rec_set_annotations r (ann_set_references (pr_annotations r) []))
  end.
(* record.annotations["references"], read *)
Definition h_refs (l : nat) : hexc (list qcit) :=
  r <~ h_rec l ;;
  match an_references (pr_annotations r) with Some x => hret x | None => hraise (XKeyError key_references) end.
(* record.annotations["references"].append(v) *)
Definition h_refs_append (l : nat) (v : qcit) : hexc unit :=
  r <~ h_rec l ;;
  match an_references (pr_annotations r) with
  | Some x => h_put l (rec_set_annotations r (ann_set_references (pr_annotations r) (x ++ [v])))
  | None => hraise (XKeyError key_references)
  end.

(* record.id = v ; record.name = v *)
Definition h_set_id (l : nat) (v : nat) : hexc unit :=
  r <~ h_rec l ;;
  h_put l (PR (pr_kind r) (pr_seq r) v (pr_features r) (pr_annotations r) (pr_letter_annotations r) (pr_name r)).
Definition h_set_name (l : nat) (v : nat) : hexc unit :=
  r <~ h_rec l ;;
  h_put l (PR (pr_kind r) (pr_seq r) (pr_id r) (pr_features r) (pr_annotations r) (pr_letter_annotations r) v).
(* record.id, read *)
Definition h_get_id (l : nat) : hexc nat := r <~ h_rec l ;; hret (pr_id r).

(* record.annotations[key] = value, for a key other than "references" *)
Definition ann_setitem (a : annots) (k : string) (v : aval) : exc annots :=
  if String.eqb k "topology" then
    match v with AStr s => Ok (AN (Some s) (an_references a) (an_other a)) | _ => Err XTypeError end
  else if String.eqb k "references" then Err XTypeError
  else Ok (AN (an_topology a) (an_references a) (other_set (an_other a) k v)).
Definition h_ann_setitem (l : nat) (k : string) (v : aval) : hexc unit :=
  r <~ h_rec l ;; a <~ hlift (ann_setitem (pr_annotations r) k v) ;; h_put l (rec_set_annotations r a).

(* ---------- values --------------------------------------------------------- *)

Definition is_digit (a : ascii) : bool :=
  let n := nat_of_ascii a in Nat.leb 48 n && Nat.leb n 57.
(* the longest prefix of decimal digits, and what follows it *)
Fixpoint take_digits (s : string) : string * string :=
  match s with
  | EmptyString => (EmptyString, EmptyString)
  | String a r => if is_digit a then let (d, t) := take_digits r in (String a d, t) else (EmptyString, s)
  end.

(* a match object of _CITATION_RX = re.compile(r"\[(\d*)\]"): the text of its group 1 *)
Record citmatch := CM { cm_digits : string }.
(* _CITATION_RX.match(ref): anchored at the start only; TypeError when ref is not a string.
   ("]" is not a digit, so the greedy run of digits never has to give letters back) *)
Definition cit_rx_match (c : qcit) : exc (option citmatch) :=
  match c with
  | QRef _ => Err XTypeError
  | QStr (String a r) =>
    if Ascii.eqb a "["%char then
      let (d, t) := take_digits r in
      match t with
      | String b _ => if Ascii.eqb b "]"%char then Ok (Some (CM d)) else Ok None
      | EmptyString => Ok None
      end
    else Ok None
  | QStr EmptyString => Ok None
  end.
(* match.group(g) *)
Definition citmatch_group (m : citmatch) (g : Z) : exc string :=
  if g =? 1 then Ok (cm_digits m)
  else if g =? 0 then Ok (String "["%char (cm_digits m ++ "]"))%string
  else Err XIndexError.
(* int(s) on a string of ASCII decimal digits; "" and anything else: ValueError *)
Definition py_int_of_str (s : string) : exc Z :=
  match s with
  | EmptyString => Err XValueError
  | _ => match NilEmpty.uint_of_string s with Some u => Ok (Z.of_uint u) | None => Err XValueError end
  end.
(* "[{}]".format(n) *)
Definition cit_format_index (n : Z) : qcit :=
  QStr (String "["%char (NilZero.string_of_int (Z.to_int n) ++ "]"))%string.

(* x in l / l.index(x) with == on the elements *)
Definition qcit_in (x : qcit) (l : list qcit) : bool := existsb (qcit_eqb x) l.
Fixpoint qcit_index (l : list qcit) (x : qcit) : option nat :=
  match l with
  | [] => None
  | y :: t => if qcit_eqb y x then Some O else option_map S (qcit_index t x)
  end.
Definition py_list_index (l : list qcit) (x : qcit) : exc Z :=
  match qcit_index l x with Some k => Ok (Z.of_nat k) | None => Err XValueError end.

(* a set of object identities: set(), s.add(x), x in s *)
Definition py_set_mem (x : nat) (s : list nat) : bool := existsb (Nat.eqb x) s.
Definition py_set_add (s : list nat) (x : nat) : list nat := if py_set_mem x s then s else s ++ [x].

(* **kwargs whose values are identifiers: kwargs.get(key, default) *)
Definition kwargs_get (kw : list (string * nat)) (k : string) (default : nat) : nat :=
  match dict_get String.eqb kw k with Some v => v | None => default end.
(* __version__, and the comment line that quotes it *)
Definition moclo_version : unit := tt.
Definition fmt_generated (_ : unit) : cline := LGenerated.

(* the string "assembly", interned *)
Definition str_assembly : nat := 1%nat.

(* ---------- calling value-style methods ----------------------------------- *)

(* an entity, a manager, a dictionary of entities seen with the records as they are now *)
Class Refresh (A : Type) := refresh : heap -> A -> A.
#[global] Instance Refresh_entity : Refresh entity := fun h e =>
  match heap_get h (ent_id e) with Some r => ENT (ent_id e) (ent_cls e) r | None => e end.
#[global] Instance Refresh_list {A} `{Refresh A} : Refresh (list A) := fun h l => map (refresh h) l.
#[global] Instance Refresh_value {K A} `{Refresh A} : Refresh (K * A) := fun h kv => (fst kv, refresh h (snd kv)).
#[global] Instance Refresh_asmgr : Refresh asmgr := fun h m =>
  mk_AssemblyManager (refresh h (am_vector m)) (refresh h (am_modules m)) (refresh h (am_elements m)) (am_name m) (am_id m).

(* the heap an assembly starts from: the records of the entities, one per identity *)
Fixpoint heap_of (es : list entity) : heap :=
  match es with
  | [] => []
  | e :: r => let h := heap_of r in
              (ent_id e, ent_record e) :: filter (fun kv => negb (Nat.eqb (fst kv) (ent_id e))) h
  end.
