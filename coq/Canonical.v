(* Canonical.v — the canonical lemmas behind C01/C11/C12: a plasmid built as the formal
   definition says (docs/source/theory/standard.rst), carrying the recognition site and its
   reverse complement once each, is accepted by the class of its enzyme at every rotation
   and reports exactly the overhangs and the target it was built from. *)
From MV Require Import Base RotLemmas Regex RegexLemmas Shape ShapeLemmas Typing TypingLemmas TotalLemmas
                       ShapeTyping PartLemmas Anchors.

Definition single (x : code) : cset := [x].

(* the shapes of the derived structures (modules.py:42-64, vectors.py:38-60, parts.py:48-99) *)
Definition module_shape (e : enzyme) (u d : list cset) : shape :=
  SH (map single (esite e) ++ repeat setN (eoff e)) u [setN] false setN [setN] d
     (repeat setN (eoff e) ++ map single (rc_codes (esite e))).

Definition vector_shape (e : enzyme) (g1 g3 : list cset) : shape :=
  SH [setN] g1 (repeat setN (eoff e) ++ map single (rc_codes (esite e))) false setN
     (map single (esite e) ++ repeat setN (eoff e)) g3 [setN].

Lemma atoms_app a b : atoms (a ++ b) = atoms a ++ atoms b.
Proof. unfold atoms. apply map_app. Qed.

Lemma atoms_single w : atoms (map single w) = lits w.
Proof. unfold atoms, lits, lit, single. now rewrite map_map. Qed.

Lemma atoms_repeat c k : atoms (repeat c k) = repeat (Atom c) k.
Proof. unfold atoms. induction k; cbn; congruence. Qed.

Lemma module_structure_shape e u d :
  module_structure_sig e (atoms u) (atoms d) = shape_pat (module_shape e u d).
Proof.
  unfold module_structure_sig, shape_pat, module_shape. cbn [spre sg1 sa slazy sstar sb sg3 spost star_item].
  rewrite !atoms_app, !atoms_single, !atoms_repeat. unfold aN. cbn [atoms map]. rewrite <- !app_assoc. reflexivity.
Qed.

Lemma vector_structure_shape e g1 g3 :
  vector_structure_sig e (atoms g1) (atoms g3) = shape_pat (vector_shape e g1 g3).
Proof.
  unfold vector_structure_sig, shape_pat, vector_shape. cbn [spre sg1 sa slazy sstar sb sg3 spost star_item].
  rewrite !atoms_app, !atoms_single, !atoms_repeat. unfold aN. cbn [atoms map app]. rewrite <- !app_assoc. reflexivity.
Qed.

(* ---------- both shapes are framed by the enzyme's site, for every enzyme ---------------- *)

Lemma lits_prefix_single w l : lits_prefix w (map single w ++ l) = true.
Proof.
  induction w as [|x w IH]; [reflexivity|]. cbn. rewrite IH, Bool.andb_true_r. destruct x; reflexivity.
Qed.

Lemma skipn_repeat_app {A} (x : A) k l : skipn k (repeat x k ++ l) = l.
Proof. induction k as [|k IH]; cbn [repeat app skipn]; [reflexivity|exact IH]. Qed.

Lemma module_shape_frames e u d : length u = eovh e -> length d = eovh e ->
  frames (esite e) (rc_codes (esite e)) (eoff e) (eovh e) (module_shape e u d) = true.
Proof.
  intros Hu Hd. unfold frames, module_shape. cbn [sg1 sg3 spre sa sb spost].
  rewrite Hu, Hd, !Nat.eqb_refl. cbn [andb].
  assert (H1 : word_before_end (eoff e) (esite e) (map single (esite e) ++ repeat setN (eoff e)) = true).
  { unfold word_before_end. rewrite app_length, map_length, repeat_length.
    replace (length (esite e) + eoff e - eoff e - length (esite e)) with 0 by lia. cbn [skipn].
    rewrite lits_prefix_single, Bool.andb_true_r. apply Nat.leb_le. lia. }
  assert (H2 : word_after (eoff e) (rc_codes (esite e)) (repeat setN (eoff e) ++ map single (rc_codes (esite e))) = true).
  { unfold word_after. rewrite skipn_repeat_app, app_length, repeat_length.
    rewrite <- (app_nil_r (map single (rc_codes (esite e)))), lits_prefix_single, Bool.andb_true_r. apply Nat.leb_le. lia. }
  rewrite H1, H2. cbn [orb andb]. now rewrite Bool.orb_true_r.
Qed.

Lemma vector_shape_frames e g1 g3 : length g1 = eovh e -> length g3 = eovh e ->
  frames (esite e) (rc_codes (esite e)) (eoff e) (eovh e) (vector_shape e g1 g3) = true.
Proof.
  intros Hu Hd. unfold frames, vector_shape. cbn [sg1 sg3 spre sa sb spost].
  rewrite Hu, Hd, !Nat.eqb_refl. cbn [andb].
  assert (H1 : word_before_end (eoff e) (esite e) (map single (esite e) ++ repeat setN (eoff e)) = true).
  { unfold word_before_end. rewrite app_length, map_length, repeat_length.
    replace (length (esite e) + eoff e - eoff e - length (esite e)) with 0 by lia. cbn [skipn].
    rewrite lits_prefix_single, Bool.andb_true_r. apply Nat.leb_le. lia. }
  assert (H2 : word_after (eoff e) (rc_codes (esite e)) (repeat setN (eoff e) ++ map single (rc_codes (esite e))) = true).
  { unfold word_after. rewrite skipn_repeat_app, app_length, repeat_length.
    rewrite <- (app_nil_r (map single (rc_codes (esite e)))), lits_prefix_single, Bool.andb_true_r. apply Nat.leb_le. lia. }
  rewrite H1, H2. cbn [orb andb]. now rewrite !Bool.orb_true_r.
Qed.

(* ---------- from "one site, one reverse site" to the hypotheses of C02 / C05 -------------- *)

Lemma unique_occ_start sh s i0 : unique_occ (shape_pat sh) s -> i0 < length s ->
  matches_at (shape_pat sh) s true i0 = true -> unique_start (shape_pat sh) s i0.
Proof.
  intros Hu Hi Hm. split; [exact Hi|]. split; [exact Hm|]. intros j Hj Hmj.
  rewrite matches_at_window in Hm, Hmj by lia.
  destruct (wmatch (shape_pat sh) (window s i0)) as [[e sp]|] eqn:E0; [|discriminate].
  destruct (wmatch (shape_pat sh) (window s j)) as [[e' sp']|] eqn:Ej; [|discriminate].
  destruct (wmatch_occ sh s i0 e sp Hi E0) as [O0 _]. destruct (wmatch_occ sh s j e' sp' Hj Ej) as [Oj _].
  now destruct (Hu _ _ _ _ Oj O0).
Qed.

(* for every framed class: a circle carrying the site and its reverse complement once each has
   at most one occurrence of the structure; if it is accepted at all, every rotation reports the same *)
Theorem two_sites_rotation c sh s k :
  cpat c = shape_pat sh ->
  frames (esite (cenz c)) (rc_codes (esite (cenz c))) (eoff (cenz c)) (eovh (cenz c)) sh = true ->
  0 < length (esite (cenz c)) ->
  occurs_once (esite (cenz c)) s -> occurs_once (rc_codes (esite (cenz c))) s ->
  is_valid c s true = true -> observe c (rotr k s) = observe c s.
Proof.
  intros Hp Hf Hs U1 U2 Hv.
  assert (Hu : unique_occ (shape_pat sh) s).
  { apply (framed_unique_occ _ _ _ _ _ _ Hf); auto. unfold rc_codes. now rewrite rev_length, map_length. }
  unfold is_valid in Hv. destruct (typing c s true) as [m| |] eqn:Ht; try discriminate.
  apply typing_valid_search in Ht. destruct (search_leftmost _ _ _ _ _ _ Ht) as (Hr & Hm & _).
  rewrite Nat.min_id in Hr.
  apply (observe_rot c s (mstart m) k). rewrite Hp. apply unique_occ_start; [exact Hu|lia|].
  unfold matches_at. rewrite <- Hp. now rewrite Hm.
Qed.

(* ---------- the illegal-site screen on a stretch of a two-site circle --------------------- *)

Definition hit (w : list code) (txt : list letter) (j : nat) : bool := occurs_here w (skipn j txt).

Lemma filter_hit_shift w x t l : filter (hit w (x :: t)) (map S l) = map S (filter (hit w t) l).
Proof.
  induction l as [|j l IH]; [reflexivity|]. cbn [map filter].
  replace (hit w (x :: t) (S j)) with (hit w t j) by reflexivity.
  destruct (hit w t j); cbn [map]; now rewrite IH.
Qed.

Lemma cuts_from_hits e : forall txt p,
  length (cuts_from e txt p) <=
  length (filter (hit (esite e) txt) (seq 0 (length txt))) + length (filter (hit (rc_codes (esite e)) txt) (seq 0 (length txt))).
Proof.
  induction txt as [|x t IH]; intros p; [cbn; lia|].
  cbn [cuts_from length seq]. rewrite app_length.
  assert (Hs : forall w, length (filter (hit w (x :: t)) (seq 1 (length t))) = length (filter (hit w t) (seq 0 (length t)))).
  { intros w. rewrite <- seq_shift, filter_hit_shift. apply map_length. }
  cbn [filter].
  change (hit (esite e) (x :: t) 0) with (occurs_here (esite e) (x :: t)).
  change (hit (rc_codes (esite e)) (x :: t) 0) with (occurs_here (rc_codes (esite e)) (x :: t)).
  specialize (IH (p + 1)%Z).
  destruct (occurs_here (esite e) (x :: t)); destruct (occurs_here (rc_codes (esite e)) (x :: t));
    cbn [length]; rewrite !Hs; lia.
Qed.

Lemma nodup_all_equal_length {A} (l : list A) : NoDup l -> (forall x y, In x l -> In y l -> x = y) -> length l <= 1.
Proof.
  intros Hn He. destruct l as [|a [|b l]]; cbn; try lia. exfalso.
  inversion Hn as [|? ? Hna _]; subst. apply Hna. rewrite (He a b); cbn; auto.
Qed.

Lemma hits_at_most_one w s0 g0 rest : s0 = g0 ++ rest -> occurs_once w s0 ->
  length (filter (hit w g0) (seq 0 (length g0))) <= 1.
Proof.
  intros Hs0 Hu. apply nodup_all_equal_length.
  - apply NoDup_filter, seq_NoDup.
  - assert (Hsite : forall j, In j (filter (hit w g0) (seq 0 (length g0))) -> j < length s0 /\ site_at w s0 j).
    { intros j Hj. apply filter_In in Hj. destruct Hj as [Hj Hh]. apply in_seq in Hj.
      assert (Hl : length s0 = length g0 + length rest) by (rewrite Hs0; apply app_length).
      split; [lia|]. replace j with (j + 0) by lia. apply site_at_window; [lia|lia|].
      rewrite window_self, Hs0, skipn_app_le by lia. now apply occurs_here_app. }
    intros x y Hx Hy. destruct (Hsite x Hx) as [Lx Sx]. destruct (Hsite y Hy) as [Ly Sy].
    pose proof (Hu _ _ Sx Sy) as H. rewrite !Nat.mod_small in H by lia. exact H.
Qed.

Lemma filter_length_le' {A} (f : A -> bool) l : length (filter f l) <= length l.
Proof. induction l as [|x l IH]; cbn; [lia|]. destruct (f x); cbn; lia. Qed.

Theorem fragments_two_sites e s0 g0 rest : s0 = g0 ++ rest ->
  occurs_once (esite e) s0 -> occurs_once (rc_codes (esite e)) s0 -> (3 <? fragments e g0) = false.
Proof.
  intros Hs0 U1 U2. apply Nat.ltb_ge. unfold fragments, linear_cuts.
  pose proof (cuts_from_hits e g0 0%Z) as H.
  pose proof (hits_at_most_one _ _ _ _ Hs0 U1). pose proof (hits_at_most_one _ _ _ _ Hs0 U2).
  pose proof (filter_length_le' (cut_kept e (Z.of_nat (length g0))) (cuts_from e g0 0%Z)) as Hf.
  lia.
Qed.

(* ---------- the canonical lemma, for every framed shape ------------------------------------ *)

Lemma shape_sub_refl sh : shape_sub sh sh.
Proof.
  unfold shape_sub. repeat split; auto.
  - induction (sg1 sh); constructor; auto. intros x Hx. exact Hx.
  - induction (sg3 sh); constructor; auto. intros x Hx. exact Hx.
Qed.

Definition canonical_report (r : role) (pc : pieces) (rest : list letter) :=
  (true,
   Some (role_pick r (t1 pc) (t3 pc)),
   Some (role_pick r (t3 pc) (t1 pc)),
   Some (role_pick r (t1 pc ++ g2text pc) (t3 pc ++ tpost pc ++ rest ++ tpre pc)),
   Some (t1 pc ++ g2text pc)).

Theorem canonical_accept c sh s0 pc0 rest k :
  cpat c = shape_pat sh ->
  frames (esite (cenz c)) (rc_codes (esite (cenz c))) (eoff (cenz c)) (eovh (cenz c)) sh = true ->
  0 < length (esite (cenz c)) ->
  s0 = pieces_text pc0 ++ rest -> s0 <> [] -> pieces_ok sh pc0 ->
  occurs_once (esite (cenz c)) s0 -> occurs_once (rc_codes (esite (cenz c))) s0 ->
  observe c (rotr k s0) = canonical_report (crole c) pc0 rest.
Proof.
  intros Hp Hf Hs Hs0 Hne Hok0 U1 U2.
  assert (Hn : 0 < length s0) by (destruct s0; [congruence|cbn; lia]).
  assert (Hu : unique_occ (shape_pat sh) s0).
  { apply (framed_unique_occ _ _ _ _ _ _ Hf); auto. unfold rc_codes. now rewrite rev_length, map_length. }
  set (E0 := length (pieces_text pc0)).
  assert (HE0 : E0 <= length s0) by (rewrite Hs0, app_length; unfold E0; lia).
  assert (Hf0 : firstn E0 s0 = pieces_text pc0).
  { rewrite Hs0. unfold E0. rewrite firstn_app, Nat.sub_diag, firstn_all. cbn. now rewrite app_nil_r. }
  (* a match exists at the start of s0 ... *)
  destruct (pieces_complete sh pc0 rest Hok0) as [[e' sp] Hw]. rewrite <- Hs0 in Hw.
  assert (Hw0 : wmatch (shape_pat sh) (window s0 0) = Some (e', sp)) by now rewrite window_self.
  destruct (wmatch_occ sh s0 0 e' sp Hn Hw0) as [Hocc (pc & Ht & Hok & He' & Hsp)].
  rewrite window_self in Ht.
  (* ... it has the canonical end and the canonical pieces *)
  assert (Hocc0 : occ (shape_pat sh) s0 0 E0).
  { split; [exact Hn|]. split; [exact HE0|]. rewrite window_self, Hf0. now apply dm_of_pieces. }
  destruct (Hu _ _ _ _ Hocc Hocc0) as [_ Ee]. subst e'.
  assert (pc = pc0).
  { apply (pieces_unique sh sh); auto using shape_sub_refl. rewrite <- Ht. fold E0 in Ee. rewrite Ee. exact Hf0. }
  subst pc.
  (* the search finds it, the screen lets it through *)
  pose proof (search_on_window (shape_pat sh) s0 _ _ Hn Hw) as Hsearch.
  assert (Hm : matches_at (shape_pat sh) s0 true 0 = true).
  { rewrite matches_at_window by lia. now rewrite Hw0. }
  pose proof (unique_occ_start sh s0 0 Hu Hn Hm) as Hus.
  rewrite (observe_rot c s0 0 k) by (now rewrite Hp).
  set (m := M 0 (length (pieces_text pc0)) sp) in *.
  assert (Hg0 : group m s0 0 = Some (firstn E0 s0)).
  { rewrite <- Hp in Hsearch. destruct (search_group_text _ _ _ _ _ _ 0 _ _ Hsearch eq_refl) as (_ & _ & _ & H).
    rewrite H. unfold m. cbn [data_of mstart mend]. f_equal. unfold slice. cbn [skipn]. rewrite Nat.sub_0_r.
    rewrite firstn_app. replace (length (pieces_text pc0) - length s0) with 0 by (fold E0; lia).
    cbn. now rewrite app_nil_r. }
  assert (Htyp : typing c s0 true = Valid m).
  { rewrite (typing_of_search c s0 m _ ltac:(now rewrite Hp) Hg0).
    rewrite (fragments_two_sites (cenz c) s0 (firstn E0 s0) (skipn E0 s0)); auto.
    now rewrite firstn_skipn. }
  destruct (shape_observe c sh s0 m Hp Htyp) as (pc' & rest' & HW & Hok' & _ & He & Ho).
  cbn [mstart mend m] in HW, He. rewrite window_self in HW.
  assert (pc' = pc0).
  { apply (pieces_unique sh sh); auto using shape_sub_refl.
    assert (Hl : length (pieces_text pc') = E0) by (unfold E0; lia).
    rewrite <- Hf0. rewrite HW at 1. rewrite <- Hl. rewrite firstn_app, Nat.sub_diag, firstn_all. cbn. now rewrite app_nil_r. }
  subst pc'. assert (rest' = rest) by (rewrite Hs0 in HW; now apply app_inv_head in HW). subst rest'.
  exact Ho.
Qed.

(* ---------- instances: the module and the vector of the formal definition ---------------- *)

Definition nucl (l : letter) : Prop := cmatch setN (lcode l) = true.

Lemma atoms_ok_app a b x y : atoms_ok a x -> atoms_ok b y -> atoms_ok (a ++ b) (x ++ y).
Proof. intros H1 H2. unfold atoms_ok in *. now apply Forall2_app. Qed.

Lemma atoms_ok_single (S : list letter) : atoms_ok (map single (map lcode S)) S.
Proof.
  induction S as [|x S IH]; cbn; constructor; [|exact IH].
  cbn. destruct (lcode x); reflexivity.
Qed.

Lemma atoms_ok_repeat X : Forall nucl X -> atoms_ok (repeat setN (length X)) X.
Proof. induction 1; cbn; constructor; auto. Qed.

(* CML: site . x . o5 . t . o3 . y . rc(site) . backbone, |t| >= 2, one site and one reverse
   site on the circle: accepted at EVERY rotation, reporting o5, o3 and o5 . t — for the generic
   class and for any part class whose signature the overhangs fit *)
Theorem canonical_module e u d (S X O5 : list letter) t0 tmid tl (O3 Y R B : list letter) k :
  map lcode S = esite e -> map lcode R = rc_codes (esite e) -> 0 < length (esite e) ->
  length X = eoff e -> length Y = eoff e -> length u = eovh e -> length d = eovh e ->
  Forall nucl X -> Forall nucl Y -> nucl t0 -> Forall nucl tmid -> nucl tl ->
  atoms_ok u O5 -> atoms_ok d O3 ->
  let T := t0 :: tmid ++ [tl] in
  let s0 := S ++ X ++ O5 ++ T ++ O3 ++ Y ++ R ++ B in
  occurs_once (esite e) s0 -> occurs_once (rc_codes (esite e)) s0 ->
  observe (C RModule e (module_structure_sig e (atoms u) (atoms d))) (rotr k s0) =
    (true, Some O5, Some O3, Some (O5 ++ T), Some (O5 ++ T)).
Proof.
  intros HS HR Hs LX LY Lu Ld NX NY N0 Nm Nl A5 A3 T s0 U1 U2.
  set (c := C RModule e (module_structure_sig e (atoms u) (atoms d))).
  set (pc0 := PC (S ++ X) O5 [t0] tmid [tl] O3 (Y ++ R)).
  assert (Hs0 : s0 = pieces_text pc0 ++ B).
  { unfold s0, T, pieces_text, pc0. cbn [tpre t1 ta trun tb t3 tpost]. rewrite <- !app_assoc. cbn [app]. rewrite <- !app_assoc. reflexivity. }
  assert (Hok : pieces_ok (module_shape e u d) pc0).
  { unfold pieces_ok, module_shape, pc0. cbn.
    split. { apply atoms_ok_app; [rewrite <- HS; apply atoms_ok_single|rewrite <- LX; now apply atoms_ok_repeat]. }
    split; [exact A5|]. split; [constructor; [exact N0|constructor]|]. split; [exact Nm|].
    split; [constructor; [exact Nl|constructor]|]. split; [exact A3|].
    apply atoms_ok_app; [rewrite <- LY; now apply atoms_ok_repeat|rewrite <- HR; apply atoms_ok_single]. }
  assert (Hne : s0 <> []).
  { unfold s0. destruct S; [cbn in HS; rewrite <- HS in Hs; cbn in Hs; lia|discriminate]. }
  pose proof (canonical_accept c (module_shape e u d) s0 pc0 B k (module_structure_shape e u d)
                (module_shape_frames e u d Lu Ld) Hs Hs0 Hne Hok U1 U2) as H.
  rewrite H. unfold canonical_report, pc0, g2text, T. cbn. reflexivity.
Qed.

(* CVL: [b_last] . o_dn . y . rc(site) . placeholder . site . x . o_up . [b_first] . b_mid *)
Theorem canonical_vector e g1 g3 bl (Odn Y R P S X Oup : list letter) bf (Bmid : list letter) k :
  map lcode S = esite e -> map lcode R = rc_codes (esite e) -> 0 < length (esite e) ->
  length X = eoff e -> length Y = eoff e -> length g1 = eovh e -> length g3 = eovh e ->
  Forall nucl X -> Forall nucl Y -> Forall nucl P -> nucl bl -> nucl bf ->
  atoms_ok g1 Odn -> atoms_ok g3 Oup ->
  let s0 := [bl] ++ Odn ++ Y ++ R ++ P ++ S ++ X ++ Oup ++ [bf] ++ Bmid in
  occurs_once (esite e) s0 -> occurs_once (rc_codes (esite e)) s0 ->
  observe (C RVector e (vector_structure_sig e (atoms g1) (atoms g3))) (rotr k s0) =
    (true, Some Oup, Some Odn, Some (Oup ++ [bf] ++ Bmid ++ [bl]), Some (Odn ++ Y ++ R ++ P ++ S ++ X)).
Proof.
  intros HS HR Hs LX LY L1 L3 NX NY NP Nbl Nbf A1 A3 s0 U1 U2.
  set (c := C RVector e (vector_structure_sig e (atoms g1) (atoms g3))).
  set (pc0 := PC [bl] Odn (Y ++ R) P (S ++ X) Oup [bf]).
  assert (Hs0 : s0 = pieces_text pc0 ++ Bmid).
  { unfold s0, pieces_text, pc0. cbn [tpre t1 ta trun tb t3 tpost]. rewrite <- !app_assoc. reflexivity. }
  assert (Hok : pieces_ok (vector_shape e g1 g3) pc0).
  { unfold pieces_ok, vector_shape, pc0. cbn.
    split; [constructor; [exact Nbl|constructor]|]. split; [exact A1|].
    split. { apply atoms_ok_app; [rewrite <- LY; now apply atoms_ok_repeat|rewrite <- HR; apply atoms_ok_single]. }
    split; [exact NP|].
    split. { apply atoms_ok_app; [rewrite <- HS; apply atoms_ok_single|rewrite <- LX; now apply atoms_ok_repeat]. }
    split; [exact A3|]. constructor; [exact Nbf|constructor]. }
  assert (Hne : s0 <> []) by discriminate.
  pose proof (canonical_accept c (vector_shape e g1 g3) s0 pc0 Bmid k (vector_structure_shape e g1 g3)
                (vector_shape_frames e g1 g3 L1 L3) Hs Hs0 Hne Hok U1 U2) as H.
  rewrite H. unfold canonical_report, pc0, g2text. cbn. rewrite <- !app_assoc. reflexivity.
Qed.

(* ---------- C05 for every enzyme and every signature (symbolic, not by table) -------------- *)

Lemma csub_refl c : csub c c.
Proof. intros x Hx. exact Hx. Qed.

Lemma forall2_csub_setN u : forallb (fun c => csubb c setN) u = true -> Forall2 csub u (repeat setN (length u)).
Proof.
  induction u as [|c u IH]; cbn; intros H; constructor.
  - apply csubb_sound. apply andb_prop in H. tauto.
  - apply IH. apply andb_prop in H. tauto.
Qed.

Lemma module_shape_sub e u d :
  forallb (fun c => csubb c setN) u = true -> forallb (fun c => csubb c setN) d = true ->
  shape_sub (module_shape e u d) (module_shape e (repeat setN (length u)) (repeat setN (length d))).
Proof. intros Hu Hd. unfold shape_sub, module_shape. cbn. repeat split; auto using forall2_csub_setN. Qed.

Lemma vector_shape_sub e g1 g3 :
  forallb (fun c => csubb c setN) g1 = true -> forallb (fun c => csubb c setN) g3 = true ->
  shape_sub (vector_shape e g1 g3) (vector_shape e (repeat setN (length g1)) (repeat setN (length g3))).
Proof. intros Hu Hd. unfold shape_sub, vector_shape. cbn. repeat split; auto using forall2_csub_setN. Qed.

(* a module part with ANY signature (classes within N, of the enzyme's overhang length) over ANY
   enzyme accepts a record with at most one occurrence of the generic structure iff the generic
   module class accepts it and its overhangs fit the signature *)
Theorem part_iff_module e u d s :
  forallb (fun c => csubb c setN) u = true -> forallb (fun c => csubb c setN) d = true ->
  length u = eovh e -> length d = eovh e ->
  unique_occ (module_structure e) s ->
  is_valid (C RModule e (part_structure RModule e (atoms u) (atoms d))) s true =
  is_valid (C RModule e (module_structure e)) s true &&
  sig_test (module_shape e u d) (C RModule e (module_structure e)) s.
Proof.
  intros Hu Hd Lu Ld Hocc.
  assert (Hg : module_structure e = shape_pat (module_shape e (repeat setN (length u)) (repeat setN (length d)))).
  { rewrite <- module_structure_shape. unfold module_structure. now rewrite !atoms_repeat, Lu, Ld. }
  apply (part_iff (module_shape e u d) (module_shape e (repeat setN (length u)) (repeat setN (length d)))); auto.
  - now apply module_shape_sub.
  - cbn [cpat part_structure]. apply module_structure_shape.
  - now rewrite <- Hg.
Qed.

Theorem part_iff_vector e up down s :
  forallb (fun c => csubb c setN) up = true -> forallb (fun c => csubb c setN) down = true ->
  length up = eovh e -> length down = eovh e ->
  unique_occ (vector_structure e) s ->
  is_valid (C RVector e (part_structure RVector e (atoms up) (atoms down))) s true =
  is_valid (C RVector e (vector_structure e)) s true &&
  sig_test (vector_shape e down up) (C RVector e (vector_structure e)) s.
Proof.
  intros Hu Hd Lu Ld Hocc.
  assert (Hg : vector_structure e = shape_pat (vector_shape e (repeat setN (length down)) (repeat setN (length up)))).
  { rewrite <- vector_structure_shape. unfold vector_structure. now rewrite !atoms_repeat, Lu, Ld. }
  apply (part_iff (vector_shape e down up) (vector_shape e (repeat setN (length down)) (repeat setN (length up)))); auto.
  - now apply vector_shape_sub.
  - cbn [cpat part_structure]. apply vector_structure_shape.
  - now rewrite <- Hg.
Qed.
