(* InnerCuts.v — C04, last clause: for a module class whose sites flank the target, an accepted
   record has no further cut of the enzyme strictly inside the target. The illegal-site screen
   (more than 3 fragments in the linear digest of the matched stretch) is what guarantees it.
   Proofs only. *)
From MV Require Import Base RotLemmas Regex RegexLemmas Shape ShapeLemmas Typing TypingLemmas TotalLemmas ShapeTyping
                       AssemblyLemmas.
Local Open Scope nat_scope.

(* ---------- the linear digest, position by position --------------------------------------- *)

(* what the scan reports at position j of txt (offset p): the forward site is tried first *)
Definition entry (e : enzyme) (txt : list letter) (p : Z) (j : nat) : list Z :=
  if occurs_here (esite e) (skipn j txt) then [(p + Z.of_nat j + Z.of_nat (length (esite e) + eoff e))%Z]
  else if occurs_here (rc_codes (esite e)) (skipn j txt) then [(p + Z.of_nat j - Z.of_nat (eoff e + eovh e))%Z]
  else [].

Lemma cuts_from_entries e : forall txt p,
  cuts_from e txt p = concat (map (entry e txt p) (seq 0 (length txt))).
Proof.
  induction txt as [|x t IH]; intros p; [reflexivity|].
  cbn [cuts_from length seq map concat]. f_equal.
  - unfold entry. cbn [skipn].
    destruct (occurs_here (esite e) (x :: t)); [f_equal; lia|].
    destruct (occurs_here (rc_codes (esite e)) (x :: t)); [f_equal; lia|reflexivity].
  - rewrite IH, <- seq_shift, map_map. f_equal. apply map_ext. intros j. unfold entry. cbn [skipn].
    destruct (occurs_here (esite e) (skipn j t)); [f_equal; lia|].
    destruct (occurs_here (rc_codes (esite e)) (skipn j t)); [f_equal; lia|reflexivity].
Qed.

Lemma filter_concat_length {A B} (f : B -> bool) (g : A -> list B) l :
  length (filter f (concat (map g l))) = list_sum (map (fun j => length (filter f (g j))) l).
Proof.
  induction l as [|a l IH]; [reflexivity|]. cbn [map concat].
  change (list_sum (length (filter f (g a)) :: map (fun j => length (filter f (g j))) l))
    with (length (filter f (g a)) + list_sum (map (fun j => length (filter f (g j))) l)).
  rewrite filter_app, app_length, IH. reflexivity.
Qed.

Lemma list_sum_app' a b : list_sum (a ++ b) = list_sum a + list_sum b.
Proof. apply list_sum_app. Qed.

(* distinct members each contributing at least one *)
Lemma sum_lower {A} (h : A -> nat) (l' : list A) : forall l,
  NoDup l' -> incl l' l -> (forall x, In x l' -> 1 <= h x) -> length l' <= list_sum (map h l).
Proof.
  induction l' as [|x l' IH]; intros l Hn Hi Hh; [cbn; lia|].
  inversion Hn as [|? ? Hx Hn']; subst.
  assert (Hin : In x l) by (apply Hi; now left).
  apply in_split in Hin. destruct Hin as [l1 [l2 ->]].
  assert (Hi' : incl l' (l1 ++ l2)).
  { intros y Hy. assert (Hy' : In y (l1 ++ x :: l2)) by (apply Hi; now right).
    apply in_app_or in Hy'. apply in_or_app. destruct Hy' as [Hy'|[Hy'|Hy']]; auto. subst. contradiction. }
  specialize (IH (l1 ++ l2) Hn' Hi' (fun y Hy => Hh y (or_intror Hy))).
  rewrite map_app in IH |- *. cbn [map]. rewrite list_sum_app' in IH |- *.
  change (list_sum (h x :: map h l2)) with (h x + list_sum (map h l2)).
  pose proof (Hh x (or_introl eq_refl)). cbn [length]. lia.
Qed.

(* two words of the same length cannot both occur at the same place unless they are equal *)
Lemma occurs_here_same_word : forall w w' t, length w = length w' ->
  occurs_here w t = true -> occurs_here w' t = true -> w = w'.
Proof.
  induction w as [|x w IH]; intros w' t Hl H1 H2; destruct w' as [|x' w']; try discriminate; [reflexivity|].
  destruct t as [|y t]; [discriminate|]. cbn in H1, H2.
  apply andb_prop in H1. destruct H1 as [Hx H1]. apply andb_prop in H2. destruct H2 as [Hx' H2].
  apply code_eqb_spec in Hx. apply code_eqb_spec in Hx'. subst. f_equal.
  apply (IH w' t); auto.
Qed.

(* ---------- the matched stretch of an accepted record -------------------------------------- *)

Lemma firstn_firstn_le {A} (l : list A) a b : a <= b -> firstn a (firstn b l) = firstn a l.
Proof. intros H. rewrite firstn_firstn. now rewrite Nat.min_l. Qed.

Lemma valid_group0 c sh s m : cpat c = shape_pat sh -> typing c s true = Valid m ->
  exists pc, group m s 0 = Some (pieces_text pc) /\ pieces_ok sh pc /\
             mgroups m = map (sh_span (mstart m)) [(3, q3 pc, q4 pc); (2, p2 pc, q3 pc); (1, p1 pc, p2 pc)] /\
             (3 <? fragments (cenz c) (pieces_text pc)) = false.
Proof.
  intros Hp Ht.
  destruct (shape_spans c sh s m Hp Ht) as (pc & Hg & Hok & He & Htxt & Hle & Hi).
  exists pc.
  pose proof (typing_valid_search c s m Ht) as Hs.
  destruct (search_group_text _ _ _ _ _ _ 0 _ _ Hs eq_refl) as (_ & _ & _ & Hg0).
  assert (Hg0' : group m s 0 = Some (pieces_text pc)).
  { rewrite Hg0. f_equal. unfold slice, data_of. rewrite He.
    replace (length (pieces_text pc) + mstart m - mstart m) with (length (pieces_text pc)) by lia.
    rewrite <- Htxt at 2. unfold window. now rewrite firstn_firstn_le. }
  split; [exact Hg0'|]. split; [exact Hok|]. split; [exact Hg|].
  unfold typing in Ht. rewrite Hs, Hg0' in Ht.
  destruct (3 <? fragments (cenz c) (pieces_text pc)); [discriminate|reflexivity].
Qed.

(* ---------- no further cut strictly inside the target --------------------------------------- *)

Theorem no_inner_cut c sh s m :
  cpat c = shape_pat sh ->
  let e := cenz c in
  frames (esite e) (rc_codes (esite e)) (eoff e) (eovh e) sh = true ->
  flanking (esite e) (rc_codes (esite e)) (eoff e) sh = true ->
  esite e <> rc_codes (esite e) -> 0 < length (esite e) ->
  typing c s true = Valid m ->
  exists pc, group m s 0 = Some (pieces_text pc) /\ pieces_ok sh pc /\
    span m 1 = Some (p1 pc + mstart m, p2 pc + mstart m) /\
    span m 2 = Some (p2 pc + mstart m, q3 pc + mstart m) /\
    forall j, j < length (pieces_text pc) ->
      (* a forward site at j cuts at j + |site| + off; a reverse site at j cuts at j - off - ovh *)
      (occurs_here (esite e) (skipn j (pieces_text pc)) = true ->
         ~ (p1 pc < j + length (esite e) + eoff e < q3 pc)) /\
      (occurs_here (rc_codes (esite e)) (skipn j (pieces_text pc)) = true ->
         ~ (p1 pc + eoff e + eovh e < j < q3 pc + eoff e + eovh e)).
Proof.
  intros Hp e Hf Hfl Hnp Hs Ht.
  destruct (valid_group0 c sh s m Hp Ht) as (pc & Hg0 & Hok & Hg & Hfr).
  exists pc. split; [exact Hg0|]. split; [exact Hok|].
  assert (Sp : forall g, span m (S g) = find_span (S g) (mgroups m)) by reflexivity.
  split; [rewrite Sp, Hg; reflexivity|]. split; [rewrite Sp, Hg; reflexivity|].
  fold e in Hfr.
  set (g0 := pieces_text pc) in *. set (n := length g0).
  (* the screen: at most two kept cuts *)
  apply Nat.ltb_ge in Hfr. unfold fragments, linear_cuts in Hfr.
  rewrite cuts_from_entries, filter_concat_length in Hfr. fold n in Hfr.
  set (h := fun j => length (filter (cut_kept e (Z.of_nat n)) (entry e g0 0 j))) in Hfr.
  (* lengths *)
  destruct Hok as (Hpre & Hg1 & Ha & Hrun & Hb & Hg3 & Hpost).
  unfold frames in Hf. repeat (apply andb_prop in Hf; destruct Hf as [Hf ?]).
  match goal with H : Nat.eqb (length (sg1 sh)) _ = true |- _ => apply Nat.eqb_eq in H; rename H into L1 end.
  match goal with H : Nat.eqb (length (sg3 sh)) _ = true |- _ => apply Nat.eqb_eq in H; rename H into L3 end.
  pose proof (atoms_ok_length _ _ Hpre) as Lpre. pose proof (atoms_ok_length _ _ Hg1) as Lg1.
  pose proof (atoms_ok_length _ _ Hg3) as Lg3. pose proof (atoms_ok_length _ _ Hpost) as Lpost.
  unfold flanking in Hfl. apply andb_prop in Hfl. destruct Hfl as [HS HR].
  unfold word_before_end in HS. apply andb_prop in HS. destruct HS as [HSl HSw]. apply Nat.leb_le in HSl.
  unfold word_after in HR. apply andb_prop in HR. destruct HR as [HRl HRw]. apply Nat.leb_le in HRl.
  assert (Lr : length (rc_codes (esite e)) = length (esite e)) by (unfold rc_codes; now rewrite rev_length, map_length).
  assert (HRlen : eoff e + length (esite e) <= length (spost sh)).
  { assert (Hx : forall w cs, lits_prefix w cs = true -> length w <= length cs).
    { induction w as [|x w IH]; intros cs Hw; [cbn; lia|]. destruct cs; [discriminate|]. cbn in Hw.
      apply andb_prop in Hw. destruct Hw as [_ Hw]. specialize (IH _ Hw). cbn. lia. }
    specialize (Hx _ _ HRw). rewrite skipn_length, Lr in Hx. lia. }
  assert (Hn : n = length (tpre pc) + length (t1 pc) + length (ta pc) + length (trun pc) + length (tb pc)
                   + length (t3 pc) + length (tpost pc))
    by (unfold n, g0, pieces_text; rewrite !app_length; lia).
  set (jS := length (tpre pc) - eoff e - length (esite e)).
  set (jR := q3 pc + length (t3 pc) + eoff e).
  assert (E1 : g0 = tpre pc ++ (t1 pc ++ ta pc ++ trun pc ++ tb pc ++ t3 pc ++ tpost pc)) by reflexivity.
  assert (E4 : g0 = (tpre pc ++ t1 pc ++ ta pc ++ trun pc ++ tb pc ++ t3 pc) ++ tpost pc)
    by (unfold g0, pieces_text; now rewrite <- !app_assoc).
  assert (L4 : length (tpre pc ++ t1 pc ++ ta pc ++ trun pc ++ tb pc ++ t3 pc) = q3 pc + length (t3 pc))
    by (rewrite !app_length; unfold q3, p2, p1; lia).
  (* the two framing sites *)
  assert (OS : occurs_here (esite e) (skipn jS g0) = true).
  { rewrite E1, skipn_app_le by (unfold jS; lia). apply occurs_here_app.
    eapply lits_occurs; [|apply atoms_ok_skipn; exact Hpre].
    unfold jS. rewrite Lpre. exact HSw. }
  assert (OR : occurs_here (rc_codes (esite e)) (skipn jR g0) = true).
  { rewrite E4. unfold jR. rewrite <- L4, skipn_app_ge.
    assert (Hrest : tpost pc = tpost pc ++ []) by now rewrite app_nil_r.
    eapply lits_occurs; [exact HRw|]. apply atoms_ok_skipn. exact Hpost. }
  assert (Excl : forall j, occurs_here (esite e) (skipn j g0) = true ->
                           occurs_here (rc_codes (esite e)) (skipn j g0) = true -> False).
  { intros j H1 H2. apply Hnp. apply (occurs_here_same_word _ _ (skipn j g0)); auto. }
  assert (Hp1 : p1 pc = length (tpre pc)) by reflexivity.
  assert (Hq3 : p1 pc <= q3 pc) by (unfold q3, p2; lia).
  assert (HjS : h jS >= 1).
  { unfold h, entry. rewrite OS. cbn [filter].
    replace (cut_kept e (Z.of_nat n) (0 + Z.of_nat jS + Z.of_nat (length (esite e) + eoff e))) with true; [cbn; lia|].
    symmetry. unfold cut_kept. unfold jS. unfold q3, p2, p1 in *.
    repeat (apply andb_true_intro; split); apply Z.leb_le; lia. }
  assert (HjR : h jR >= 1).
  { unfold h, entry. destruct (occurs_here (esite e) (skipn jR g0)) eqn:O1; [exfalso; eauto|]. rewrite OR. cbn [filter].
    replace (cut_kept e (Z.of_nat n) (0 + Z.of_nat jR - Z.of_nat (eoff e + eovh e))) with true; [cbn; lia|].
    symmetry. unfold cut_kept. unfold jR. unfold q3, p2, p1 in *.
    repeat (apply andb_true_intro; split); apply Z.leb_le; lia. }
  assert (HjSn : jS < n) by (unfold jS; lia).
  assert (HjRn : jR < n) by (unfold jR, q3, p2, p1; lia).
  assert (Third : forall j, j < n -> j <> jS -> j <> jR -> h j >= 1 -> False).
  { intros j Hj H1 H2 H3.
    assert (Hl : length [j; jS; jR] <= list_sum (map h (seq 0 n))).
    { apply sum_lower.
      - repeat constructor; cbn; try tauto. intros [E|[E|[]]]; [apply H1|apply H2]; auto.
        intros [E|[]]. unfold jS, jR, q3, p2, p1 in E. lia.
      - intros x [<-|[<-|[<-|[]]]]; apply in_seq; lia.
      - intros x [<-|[<-|[<-|[]]]]; lia. }
    cbn [length] in Hl. lia. }
  intros j Hj. fold n in Hj. split.
  - intros Oj [Hlo Hhi]. apply (Third j Hj).
    + intros ->. unfold jS in Hlo. lia.
    + intros ->. unfold jR in Hhi. lia.
    + unfold h, entry. rewrite Oj. cbn [filter].
      replace (cut_kept e (Z.of_nat n) (0 + Z.of_nat j + Z.of_nat (length (esite e) + eoff e))) with true; [cbn; lia|].
      symmetry. unfold cut_kept. unfold q3, p2, p1 in *.
      repeat (apply andb_true_intro; split); apply Z.leb_le; lia.
  - intros Oj [Hlo Hhi]. apply (Third j Hj).
    + intros ->. unfold jS in Hlo. lia.
    + intros ->. unfold jR in Hhi. lia.
    + unfold h, entry. destruct (occurs_here (esite e) (skipn j g0)) eqn:O1; [exfalso; eauto|]. rewrite Oj. cbn [filter].
      replace (cut_kept e (Z.of_nat n) (0 + Z.of_nat j - Z.of_nat (eoff e + eovh e))) with true; [cbn; lia|].
      symmetry. unfold cut_kept. unfold q3, p2, p1 in *.
      repeat (apply andb_true_intro; split); apply Z.leb_le; lia.
Qed.
