(* TypingLemmas.v — typing of a circular record depends only on the one-turn window
   at the leftmost matching start: rotation invariance (C02) and case-blindness (C18). *)
From MV Require Import Base RotLemmas Regex RegexLemmas Typing.

(* ---------- windows and slices -------------------------------------------------- *)

Lemma firstn_firstn_le {A} (l : list A) a b : a <= b -> firstn a (firstn b l) = firstn a l.
Proof. intros H. rewrite firstn_firstn. now rewrite Nat.min_l. Qed.

Lemma skipn_firstn_comm' {A} (l : list A) a n : skipn a (firstn n l) = firstn (n - a) (skipn a l).
Proof.
  revert l n. induction a as [|a IH]; intros l n; [now rewrite Nat.sub_0_r|].
  destruct n as [|n]; [now rewrite !firstn_O|]. destruct l as [|x l]; [now rewrite !firstn_nil|].
  cbn [firstn skipn]. cbn [Nat.sub]. apply IH.
Qed.

(* the text of a span relative to the window is the text of the shifted span in the doubled word *)
Lemma slice_window {A} (s : list A) i a b :
  a <= b -> b <= length s ->
  slice (s ++ s) (a + i) (b + i) = slice (window s i) a b.
Proof.
  intros Hab Hb. unfold slice, window.
  replace (b + i - (a + i)) with (b - a) by lia.
  rewrite skipn_firstn_comm'. rewrite firstn_firstn_le by lia.
  now rewrite skipn_skipn.
Qed.

Lemma window_self {A} (W : list A) : window W 0 = W.
Proof. unfold window. cbn [skipn]. rewrite firstn_app, Nat.sub_diag, firstn_all, firstn_O. now rewrite app_nil_r. Qed.

(* ---------- the match at a start position, relative to its window --------------- *)

Definition wmatch (items : pattern) (W : list letter) : option res := bt items W (length W) 0 1 [] [].

Lemma match_here_window items s i : i <= length s ->
  match_here items (skipn i (s ++ s)) (length s) i = option_map (sh_res i) (wmatch items (window s i)).
Proof.
  intros Hi. unfold match_here, wmatch. rewrite window_length by lia.
  unfold window. rewrite bt_firstn.
  pose proof (bt_shift items i (skipn i (s ++ s)) (length s) 0 1 [] []) as H. cbn in H. exact H.
Qed.

Lemma matches_at_window items s i : i <= length s ->
  matches_at items s true i = match wmatch items (window s i) with Some _ => true | None => false end.
Proof.
  intros Hi. unfold matches_at. cbn [data_of]. rewrite match_here_window by lia.
  now destruct (wmatch items (window s i)).
Qed.

Lemma search_to_window items s m :
  search items s true 0 (length s) = Some m ->
  mstart m < length s /\
  exists e' cs', wmatch items (window s (mstart m)) = Some (e', cs') /\
                 mend m = e' + mstart m /\ mgroups m = map (sh_span (mstart m)) cs'.
Proof.
  intros H. destruct (search_leftmost _ _ _ _ _ _ H) as (Hr & Hm & _).
  rewrite Nat.min_id in Hr. split; [lia|].
  cbn [data_of] in Hm. rewrite match_here_window in Hm by lia.
  destruct (wmatch items (window s (mstart m))) as [[e' cs']|]; [|discriminate].
  cbn in Hm. inversion Hm. exists e', cs'. auto.
Qed.

Lemma sh_res_0 z : sh_res 0 z = z.
Proof.
  destruct z as [e cs]. unfold sh_res. cbn [fst snd]. rewrite Nat.add_0_r. f_equal.
  rewrite <- (map_id cs) at 2. apply map_ext. intros [[g a] b]. unfold sh_span. cbn.
  now rewrite !Nat.add_0_r.
Qed.

Lemma search_on_window items (W : list letter) e' cs' :
  0 < length W -> wmatch items W = Some (e', cs') ->
  search items W true 0 (length W) = Some (M 0 e' cs').
Proof.
  intros Hn Hw. unfold search. rewrite Nat.min_id, Nat.sub_0_r. cbn [skipn].
  destruct (length W) as [|c] eqn:El; [lia|]. cbn [scan].
  pose proof (match_here_window items W 0 ltac:(lia)) as H. cbn [skipn] in H.
  rewrite window_self, Hw, El in H. cbn [option_map] in H. rewrite sh_res_0 in H. rewrite H.
  reflexivity.
Qed.

(* ---------- spans and texts under the shift -------------------------------------- *)

Lemma find_span_shift g d cs :
  find_span g (map (sh_span d) cs) = option_map (fun p => (fst p + d, snd p + d)) (find_span g cs).
Proof.
  induction cs as [|[[gi a] b] r IH]; [reflexivity|]. cbn [map sh_span find_span fst snd].
  destruct (Nat.eqb gi g); [reflexivity|exact IH].
Qed.

Lemma span_shift e' cs' d g :
  span (M d (e' + d) (map (sh_span d) cs')) g =
  option_map (fun p => (fst p + d, snd p + d)) (span (M 0 e' cs') g).
Proof. destruct g; cbn [span mstart mend mgroups option_map fst snd]; [reflexivity|apply find_span_shift]. Qed.

Lemma wmatch_spans items W e' cs' : wmatch items W = Some (e', cs') ->
  e' <= length W /\ forall g a b, span (M 0 e' cs') g = Some (a, b) -> a <= b /\ b <= e'.
Proof.
  intros H. unfold wmatch in H.
  pose proof (bt_sound _ _ _ _ _ _ _ _ _ H) as (ls & Hle & Hav & Hw & _).
  assert (Hsp : Forall (span_ok 0 e') cs') by (eapply bt_spans; [exact H|lia|constructor|constructor]).
  split; [lia|]. intros g a b Hg. destruct g; cbn [span mstart mend mgroups] in Hg.
  - inversion Hg; subst. lia.
  - apply find_span_in in Hg. rewrite Forall_forall in Hsp. specialize (Hsp _ Hg).
    unfold span_ok in Hsp. cbn in Hsp. lia.
Qed.

Lemma group_shift s i e' cs' g items :
  i < length s -> wmatch items (window s i) = Some (e', cs') ->
  group (M i (e' + i) (map (sh_span i) cs')) s g = group (M 0 e' cs') (window s i) g.
Proof.
  intros Hi Hw. unfold group. rewrite span_shift.
  destruct (span (M 0 e' cs') g) as [[a b]|] eqn:Eg; [|reflexivity]. cbn [option_map fst snd]. f_equal.
  destruct (wmatch_spans _ _ _ _ Hw) as [He Hsp]. rewrite window_length in He by lia.
  destruct (Hsp _ _ _ Eg) as [Hab Hb].
  rewrite !group_of_span_text by (rewrite ?window_length by lia; lia).
  rewrite slice_window by lia.
  symmetry. apply slice_app_l. rewrite window_length by lia. lia.
Qed.

(* ---------- observables are those of the window at the leftmost start ------------ *)

Lemma rotl_add_nat {A} (s : list A) a i :
  rotl (Z.of_nat (a + i)) s = rotl (Z.of_nat a) (rotl (Z.of_nat i) s).
Proof. unfold rotl. rewrite rotr_add. f_equal. lia. Qed.

Lemma observe_shift c s i e' cs' :
  i < length s -> wmatch (cpat c) (window s i) = Some (e', cs') ->
  search (cpat c) s true 0 (length s) = Some (M i (e' + i) (map (sh_span i) cs')) ->
  observe c s = observe c (window s i).
Proof.
  intros Hi Hw Hs.
  assert (Hn : 0 < length (window s i)) by (rewrite window_length by lia; lia).
  pose proof (search_on_window _ _ _ _ Hn Hw) as Hs'.
  assert (Hg : forall g, group (M i (e' + i) (map (sh_span i) cs')) s g = group (M 0 e' cs') (window s i) g).
  { intros g. now apply (group_shift s i e' cs' g (cpat c)). }
  assert (Ht : typing c s true = match typing c (window s i) true with
                                 | Valid _ => Valid (M i (e' + i) (map (sh_span i) cs'))
                                 | x => x end).
  { unfold typing. rewrite Hs, Hs', Hg.
    destruct (group (M 0 e' cs') (window s i) 0); [|reflexivity].
    destruct (3 <? fragments (cenz c) l); reflexivity. }
  assert (Ht' : typing c (window s i) true = match typing c (window s i) true with
                                 | Valid _ => Valid (M 0 e' cs') | x => x end).
  { unfold typing. rewrite Hs'. destruct (group (M 0 e' cs') (window s i) 0); [|reflexivity].
    destruct (3 <? fragments (cenz c) l); reflexivity. }
  unfold observe, is_valid, overhang_start, overhang_end, target, placeholder, with_match.
  rewrite Ht.
  destruct (typing c (window s i) true) as [m0| |]; try reflexivity.
  inversion Ht' as [Em0]; clear Ht'; try subst m0.
  rewrite !Hg.
  assert (Hc : cut_span (M i (e' + i) (map (sh_span i) cs')) =
               option_map (fun p => (fst p + i, snd p + i)) (cut_span (M 0 e' cs'))).
  { unfold cut_span. rewrite !span_shift.
    destruct (span (M 0 e' cs') 1) as [[a1 b1]|]; [|reflexivity].
    destruct (span (M 0 e' cs') 2) as [[a2 b2]|]; reflexivity. }
  rewrite Hc. destruct (cut_span (M 0 e' cs')) as [[a b]|]; [|reflexivity].
  cbn [option_map fst snd].
  replace (b + i - (a + i)) with (b - a) by lia.
  rewrite rotl_add_nat. rewrite <- (window_is_rotl s i Hi). reflexivity.
Qed.

Theorem observe_at_start c s m :
  search (cpat c) s true 0 (length s) = Some m ->
  observe c s = observe c (window s (mstart m)).
Proof.
  intros Hs. destruct (search_to_window _ _ _ Hs) as (Hi & e' & cs' & Hw & He & Hcs).
  apply (observe_shift c s (mstart m) e' cs' Hi Hw).
  rewrite Hs. f_equal. destruct m; cbn in *. now subst.
Qed.

Lemma observe_none c s :
  search (cpat c) s true 0 (length s) = None ->
  observe c s = (false, None, None, None, None).
Proof.
  intros Hs. unfold observe, is_valid, overhang_start, overhang_end, target, placeholder, with_match, typing.
  now rewrite Hs.
Qed.

Lemma observe1_eq c s : observe1 c s = observe c s.
Proof.
  unfold observe1, observe, is_valid, overhang_start, overhang_end, target, placeholder, with_match.
  destruct (typing c s true); reflexivity.
Qed.

(* ---------- C02: rotation invariance under a unique matching start ---------------- *)

Definition unique_start (items : pattern) (s : list letter) (i0 : nat) : Prop :=
  i0 < length s /\ matches_at items s true i0 = true /\
  forall j, j < length s -> matches_at items s true j = true -> j = i0.

Lemma search_unique items s i0 : unique_start items s i0 ->
  exists m, search items s true 0 (length s) = Some m /\ mstart m = i0.
Proof.
  intros (Hi & Hm & Hu).
  destruct (search_finds items s true 0 (length s) i0) as (m & Hs & Hle); [rewrite Nat.min_id; lia|exact Hm|].
  exists m. split; [exact Hs|].
  destruct (search_leftmost _ _ _ _ _ _ Hs) as (Hr & Hmh & _). rewrite Nat.min_id in Hr.
  apply Hu; [lia|]. unfold matches_at. now rewrite Hmh.
Qed.

Definition rot_index (n : nat) (i : nat) (k : Z) : nat := Z.to_nat ((Z.of_nat i + k) mod Z.of_nat n).

Lemma rot_index_lt n i k : 0 < n -> rot_index n i k < n.
Proof. intros Hn. unfold rot_index. pose proof (Z.mod_pos_bound (Z.of_nat i + k) (Z.of_nat n)). lia. Qed.

Lemma rot_index_inv n j k : j < n -> rot_index n (rot_index n j (- k)) k = j.
Proof.
  intros Hj. unfold rot_index.
  pose proof (Z.mod_pos_bound (Z.of_nat j + - k) (Z.of_nat n) ltac:(lia)).
  rewrite Z2Nat.id by lia. rewrite Zplus_mod_idemp_l.
  replace (Z.of_nat j + - k + k)%Z with (Z.of_nat j) by lia.
  rewrite Z.mod_small by lia. apply Nat2Z.id.
Qed.

Lemma unique_start_rot items s i0 k : unique_start items s i0 ->
  unique_start items (rotr k s) (rot_index (length s) i0 k).
Proof.
  intros (Hi & Hm & Hu). unfold unique_start. rewrite rotr_length.
  assert (Hn : 0 < length s) by lia.
  split; [now apply rot_index_lt|]. split.
  - rewrite matches_at_window by (rewrite rotr_length; pose proof (rot_index_lt (length s) i0 k Hn); lia).
    unfold rot_index. rewrite window_rot by lia. rewrite <- matches_at_window by lia. exact Hm.
  - intros j Hj Hmj.
    set (i := rot_index (length s) j (- k)).
    assert (Hi' : i < length s) by (apply rot_index_lt; lia).
    assert (Ej : rot_index (length s) i k = j) by (apply rot_index_inv; lia).
    rewrite matches_at_window in Hmj by (rewrite rotr_length; lia).
    rewrite <- Ej in Hmj. unfold rot_index in Hmj at 1. rewrite window_rot in Hmj by lia.
    rewrite <- matches_at_window in Hmj by lia.
    rewrite <- Ej. f_equal. now apply Hu.
Qed.

(* for every pattern, every record with a unique matching start and every rotation:
   validity, overhangs, target and placeholder are unchanged *)
Theorem observe_rot c s i0 k : unique_start (cpat c) s i0 -> observe c (rotr k s) = observe c s.
Proof.
  intros Hu. pose proof (unique_start_rot _ _ _ k Hu) as Hu'.
  destruct (search_unique _ _ _ Hu) as (m & Hs & Em).
  destruct (search_unique _ _ _ Hu') as (m' & Hs' & Em').
  rewrite (observe_at_start _ _ _ Hs), (observe_at_start _ _ _ Hs'), Em, Em'.
  destruct Hu as (Hi & _). unfold rot_index. now rewrite window_rot by lia.
Qed.

(* ---------- C18: letter case never changes the outcome ---------------------------- *)

Definition same_codes (a b : list letter) : Prop := map lcode a = map lcode b.

Definition opt_same (a b : option (list letter)) : Prop :=
  match a, b with
  | Some x, Some y => same_codes x y
  | None, None => True
  | _, _ => False
  end.

Lemma same_codes_length a b : same_codes a b -> length a = length b.
Proof. intros H. unfold same_codes in H. now rewrite <- (map_length lcode a), H, map_length. Qed.

Lemma same_codes_app a b c d : same_codes a b -> same_codes c d -> same_codes (a ++ c) (b ++ d).
Proof. unfold same_codes. intros H1 H2. now rewrite !map_app, H1, H2. Qed.

Lemma same_codes_skipn k a b : same_codes a b -> same_codes (skipn k a) (skipn k b).
Proof. unfold same_codes. intros H. now rewrite <- !skipn_map, H. Qed.

Lemma same_codes_firstn k a b : same_codes a b -> same_codes (firstn k a) (firstn k b).
Proof. unfold same_codes. intros H. now rewrite <- !firstn_map, H. Qed.

Lemma same_codes_slice x y a b : same_codes a b -> same_codes (slice a x y) (slice b x y).
Proof. intros H. unfold slice. now apply same_codes_firstn, same_codes_skipn. Qed.

Lemma same_codes_tl a b : same_codes a b -> same_codes (tl a) (tl b).
Proof. destruct a, b; cbn; intros H; try discriminate; [reflexivity|]. unfold same_codes in *. cbn in H. now inversion H. Qed.

Lemma same_codes_rotr k a b : same_codes a b -> same_codes (rotr k a) (rotr k b).
Proof.
  intros H. unfold rotr. rewrite (same_codes_length _ _ H).
  apply same_codes_app; [now apply same_codes_skipn|now apply same_codes_firstn].
Qed.

Lemma scan_same items : forall cnt w w' n i, same_codes w w' -> scan items w n i cnt = scan items w' n i cnt.
Proof.
  induction cnt as [|c IH]; intros w w' n i H; [reflexivity|]. cbn [scan]. unfold match_here.
  rewrite (bt_codes_only items w w' n i 1 [] [] H).
  destruct (bt items w' n i 1 [] []) as [[e cs]|]; [reflexivity|].
  apply IH. now apply same_codes_tl.
Qed.

Lemma search_same items s s' circ pos endpos : same_codes s s' ->
  search items s circ pos endpos = search items s' circ pos endpos.
Proof.
  intros H. unfold search. rewrite (same_codes_length _ _ H). apply scan_same.
  apply same_codes_skipn. destruct circ; [now apply same_codes_app|exact H].
Qed.

Lemma group_of_span_same s s' sp : same_codes s s' -> same_codes (group_of_span s sp) (group_of_span s' sp).
Proof.
  intros H. destruct sp as [a b]. unfold group_of_span. rewrite (same_codes_length _ _ H).
  destruct ((length s' <=? a) && (a <=? b)); [now apply same_codes_slice|].
  destruct ((length s' <=? b) && (a <? length s')); [|now apply same_codes_slice].
  apply same_codes_app; [now apply same_codes_skipn|now apply same_codes_firstn].
Qed.

Lemma group_same m s s' g : same_codes s s' -> opt_same (group m s g) (group m s' g).
Proof.
  intros H. unfold group. destruct (span m g) as [sp|]; cbn; [|exact I]. now apply group_of_span_same.
Qed.

Lemma occurs_here_same w : forall t t', same_codes t t' -> occurs_here w t = occurs_here w t'.
Proof.
  induction w as [|x w IH]; intros t t' H; [reflexivity|].
  destruct t as [|y t], t' as [|y' t']; try discriminate H; [reflexivity|].
  unfold same_codes in H. cbn in H. inversion H as [[Hy Ht]]. cbn [occurs_here]. rewrite Hy.
  f_equal. now apply IH.
Qed.

Lemma cuts_from_same e : forall t t' p, same_codes t t' -> cuts_from e t p = cuts_from e t' p.
Proof.
  induction t as [|y t IH]; intros t' p H; destruct t' as [|y' t']; try discriminate H; [reflexivity|].
  cbn [cuts_from]. rewrite !(occurs_here_same _ _ _ H).
  f_equal. apply IH. unfold same_codes in *. cbn in H. now inversion H.
Qed.

Lemma fragments_same e t t' : same_codes t t' -> fragments e t = fragments e t'.
Proof.
  intros H. unfold fragments, linear_cuts. now rewrite (cuts_from_same e t t' 0%Z H), (same_codes_length _ _ H).
Qed.

Lemma typing_same c s s' : same_codes s s' -> typing c s true = typing c s' true.
Proof.
  intros H. unfold typing. rewrite (search_same _ _ _ _ _ _ H), (same_codes_length _ _ H).
  destruct (search (cpat c) s' true 0 (length s')) as [m|]; [|reflexivity].
  pose proof (group_same m s s' 0 H) as Hg.
  destruct (group m s 0) as [g0|], (group m s' 0) as [g0'|]; cbn in Hg; try contradiction; [|reflexivity].
  now rewrite (fragments_same _ _ _ Hg).
Qed.

(* any re-spelling of the letters of a record (same codes, any case) is accepted or
   rejected alike and reports the same overhangs, target and placeholder up to case *)
Theorem observe_case c s s' : same_codes s s' ->
  match observe c s, observe c s' with
  | (v, u, d, t, p), (v', u', d', t', p') =>
      v = v' /\ opt_same u u' /\ opt_same d d' /\ opt_same t t' /\ opt_same p p'
  end.
Proof.
  intros H. unfold observe, is_valid, overhang_start, overhang_end, target, placeholder, with_match.
  rewrite (typing_same c s s' H).
  destruct (typing c s' true) as [m| |]; cbn; auto.
  split; [reflexivity|]. split; [apply group_same; exact H|]. split; [apply group_same; exact H|]. split.
  - destruct (cut_span m) as [[a b]|]; cbn; [|exact I].
    destruct (crole c); [apply same_codes_firstn|apply same_codes_skipn]; now apply same_codes_rotr.
  - pose proof (group_same m s s' 1 H) as H1. pose proof (group_same m s s' 2 H) as H2.
    destruct (group m s 1), (group m s' 1); cbn in H1; try contradiction; [|exact I].
    destruct (group m s 2), (group m s' 2); cbn in H2; try contradiction; [|exact I].
    now apply same_codes_app.
Qed.
