(* C05 — a part type accepts exactly the records with its signature overhangs.
   Statements only. *)
From MV Require Import Base Regex RegexLemmas Shape ShapeLemmas Typing TypingLemmas ShapeTyping PartLemmas Anchors Canonical.

(* for every pair of classes of the common shape with the same role and enzyme whose
   patterns differ only in that the overhang atoms of the part are sub-classes of those of
   the generic class (the signature letters' classes instead of N), and every record in
   which the generic structure occurs at most once: the part class accepts the record iff
   the generic class accepts it and the overhangs the generic class reports match the
   signature letter by letter under the IUPAC classes *)
Theorem C05_iff : forall (P G : shape) (cP cG : cls) (s : list letter),
  shape_sub P G -> cpat cP = shape_pat P -> cpat cG = shape_pat G ->
  cenz cP = cenz cG -> crole cP = crole cG -> unique_occ (shape_pat G) s ->
  is_valid cP s true = is_valid cG s true && sig_test P cG s.
Proof. exact part_iff. Qed.
Print Assumptions C05_iff.

(* instantiated, symbolically, for EVERY enzyme (any site, offset, overhang length) and EVERY
   signature whose letter classes lie within N (all IUPAC letters do) and whose two halves have
   the enzyme's overhang length: module parts and vector parts *)
Theorem C05_module_parts : forall e u d s,
  forallb (fun c => csubb c setN) u = true -> forallb (fun c => csubb c setN) d = true ->
  length u = eovh e -> length d = eovh e ->
  unique_occ (module_structure e) s ->
  is_valid (C RModule e (part_structure RModule e (atoms u) (atoms d))) s true =
  is_valid (C RModule e (module_structure e)) s true &&
  sig_test (module_shape e u d) (C RModule e (module_structure e)) s.
Proof. exact part_iff_module. Qed.
Print Assumptions C05_module_parts.

Theorem C05_vector_parts : forall e up down s,
  forallb (fun c => csubb c setN) up = true -> forallb (fun c => csubb c setN) down = true ->
  length up = eovh e -> length down = eovh e ->
  unique_occ (vector_structure e) s ->
  is_valid (C RVector e (part_structure RVector e (atoms up) (atoms down))) s true =
  is_valid (C RVector e (vector_structure e)) s true &&
  sig_test (vector_shape e down up) (C RVector e (vector_structure e)) s.
Proof. exact part_iff_vector. Qed.
Print Assumptions C05_vector_parts.

(* the uniqueness hypothesis follows from "the recognition site and its reverse complement occur once each" *)
Theorem C05_two_sites : forall (site rsite : list code) (off ovh : nat) sh s,
  frames site rsite off ovh sh = true -> 0 < length site -> 0 < length rsite ->
  occurs_once site s -> occurs_once rsite s -> unique_occ (shape_pat sh) s.
Proof. exact framed_unique_occ. Qed.
Print Assumptions C05_two_sites.

(* every match of the part class is a match of the generic class at the same place *)
Theorem C05_refines : forall (P G : shape), shape_sub P G -> forall s i, i < length s ->
  matches_at (shape_pat P) s true i = true -> matches_at (shape_pat G) s true i = true.
Proof. exact P_matches_G_matches. Qed.
Print Assumptions C05_refines.

(* the boolean refinement test used on the kit tables is sound *)
Theorem C05_sub_sound : forall P G, shape_subb P G = true -> shape_sub P G.
Proof. exact shape_subb_sound. Qed.
Print Assumptions C05_sub_sound.

(* automatic characterisation returns a candidate that accepts the record, and fails
   exactly when no candidate accepts it *)
Theorem C05_characterize_some : forall cands s c, characterize cands s = Some c ->
  In c cands /\ is_valid c s true = true.
Proof. exact characterize_some. Qed.
Print Assumptions C05_characterize_some.

Theorem C05_characterize_none : forall cands s,
  characterize cands s = None <-> forall c, In c cands -> is_valid c s true = false.
Proof. exact characterize_none. Qed.
Print Assumptions C05_characterize_none.

(* non-vacuity: a BsaI part with signature (AANN, RTGC): one record in, one near-miss out *)
Example C05_example :
  let e := E [cG;cG;cT;cC;cT;cC] 1 4 in
  let up := [Atom [cA]; Atom [cA]; Atom setN; Atom setN] in
  let down := [Atom [cA;cG]; Atom [cT]; Atom [cG]; Atom [cC]] in
  let clsP := C RModule e (part_structure RModule e up down) in
  let clsG := C RModule e (module_structure e) in
  let mk := map (fun x => L x true) in
  let s1 := mk [cG;cG;cT;cC;cT;cC;cA; cA;cA;cT;cG; cC;cC;cC; cG;cT;cG;cC; cT;cG;cA;cG;cA;cC;cC; cA;cT] in
  let s2 := mk [cG;cG;cT;cC;cT;cC;cA; cA;cA;cT;cG; cC;cC;cC; cC;cT;cG;cC; cT;cG;cA;cG;cA;cC;cC; cA;cT] in
  exists P G, parse3 (cpat clsP) = Some P /\ parse3 (cpat clsG) = Some G /\ shape_subb P G = true /\
  is_valid clsP s1 true = true /\ is_valid clsG s1 true = true /\ sig_test P clsG s1 = true /\
  is_valid clsP s2 true = false /\ is_valid clsG s2 true = true /\ sig_test P clsG s2 = false.
Proof. eexists. eexists. vm_compute. repeat split. Qed.
