(* C09 — the product records its provenance. Statements only.  PARTIAL: the GenBank
   write/read round trip is Biopython's serializer and is not modelled; that clause is
   decided by the differential oracle only. *)
From MV Require Import Base RotLemmas Record RecordLemmas Annot AnnotLemmas.
Open Scope Z_scope.

(* the product is the concatenation of the fragments; its feature table is the fragments'
   tables laid out one after the other *)
Theorem C09_sequence : forall frs, rseq (product frs) = concat (map rseq frs).
Proof. exact product_seq. Qed.
Print Assumptions C09_sequence.

Theorem C09_features : forall frs, rfeats (product frs) = layout 0 frs.
Proof. exact product_feats. Qed.
Print Assumptions C09_features.

(* each fragment ends with one generated provenance feature over the whole fragment *)
Theorem C09_fragment_source : forall is_vector a L j r,
  In (source_feature j (zlen (rseq (fragment is_vector a L j r)))) (rfeats (fragment is_vector a L j r)).
Proof. intros. rewrite fragment_feats. apply in_or_app. right. now left. Qed.
Print Assumptions C09_fragment_source.

(* in the product it covers [offset j, offset j + length of fragment j) ... *)
Theorem C09_source_in_product : forall frs j fr len jj, nth_error frs j = Some fr ->
  In (source_feature jj len) (rfeats fr) ->
  In (F true 0 (901 + jj) [P (offset frs j) (len + offset frs j) NoStrand]) (rfeats (product frs)).
Proof. exact source_tiling. Qed.
Print Assumptions C09_source_in_product.

(* ... and these intervals tile the product: each starts where the previous one ends, the
   first at 0, the last ends at the product's length: every nucleotide is covered by exactly one *)
Theorem C09_tiling_step : forall frs j fr, nth_error frs j = Some fr ->
  offset frs (S j) = offset frs j + zlen (rseq fr).
Proof. exact offset_next. Qed.
Print Assumptions C09_tiling_step.

Theorem C09_tiling_total : forall frs, offset frs 0 = 0 /\ offset frs (length frs) = zlen (rseq (product frs)).
Proof. intros frs. split; [destruct frs; reflexivity|]. rewrite product_seq. apply offset_total. Qed.
Print Assumptions C09_tiling_total.

(* the stretch under the provenance feature of fragment j is the fragment itself, which is a
   slice of a rotation of the plasmid it names: it occurs verbatim in that plasmid *)
Theorem C09_verbatim : forall is_vector a L j r, 0 <= L -> L <= zlen (rseq r) ->
  rseq (fragment is_vector a L j r) =
  slice (rotl a (rseq r)) (Z.to_nat (frag_lo is_vector L)) (Z.to_nat (frag_hi is_vector L (zlen (rseq r)))).
Proof. exact fragment_seq. Qed.
Print Assumptions C09_verbatim.

Example C09_example :
  let mk := map (fun c => L c true) in
  let r1 := R (mk [cA;cC;cG;cT;cA;cA]) [] [] in
  let r2 := R (mk [cG;cG;cT;cT;cC;cC;cA;cA]) [] [] in
  let frs := [fragment false 1 3 0 r1; fragment true 2 5 1 r2] in
  rseq (product frs) = mk [cC;cG;cT; cA;cG;cG] /\
  rfeats (product frs) = [F true 0 901 [P 0 3 NoStrand]; F true 0 902 [P 3 6 NoStrand]].
Proof. vm_compute. split; reflexivity. Qed.
