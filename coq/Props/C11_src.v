(* C11 over the definitions regenerated from the source (Gen/Src.v). Statements only. *)
From MV Require Import Base RotLemmas Record Regex Shape Typing Assembly Pipeline StrandLemmas NextLevel
     Anchors Canonical Py PyObj SrcEquivAssembly SrcGlue SrcEndToEnd PyHeap SrcEquivCite SrcEquivAsmHeap SrcEntryEndToEnd.
From MV.Gen Require Import Src.
Local Open Scope Z_scope.

(* for a vector class of the common shape that passes the static check `embeds` for the next
   level's enzyme (the seven kit pairs: Props/C11_kits.v), any accepted vector and any modules:
   if vector.assemble(modules) AS TRANSLATED FROM THE SOURCE returns a product whose insert part
   has wildcard-matching letters and at least ovh'+2 of them, carrying the next-level site and its
   reverse complement once each, then that product, read from ANY origin and wrapped by the generic
   next-level module class, is accepted by is_valid() AS TRANSLATED FROM THE SOURCE *)
Theorem C11_src_valid : forall (sh : shape) (e' : enzyme) (k k' : nat) vector modules prod ws (j : Z) (i : nat),
  good_ent vector -> Forall good_ent modules -> map ent_id modules = seq 0 (List.length modules) ->
  cpat (ent_cls vector) = shape_pat sh -> crole (ent_cls vector) = RVector ->
  embeds (esite e') (rc_codes (esite e')) (eoff e') (eovh e') k k' sh = true ->
  (0 < List.length (esite e'))%nat ->
  vector_assemble (S (S (List.length modules))) vector modules = Ok (prod, ws) ->
  (forall INS vt, pr_seq prod = INS ++ vt -> target (ent_cls vector) (ent_seq_w vector) true = Some vt ->
     Forall nucl INS /\ (eovh e' + 2 <= List.length INS)%nat) ->
  occurs_once (esite e') (pr_seq prod) -> occurs_once (rc_codes (esite e')) (pr_seq prod) ->
  Z.of_nat (List.length (pr_seq prod)) <= py_MAXSIZE ->
  StructuredRecord_is_valid (src_entity i (generic_cls RModule e') (rotr j (pr_seq prod))) = Ok true.
Proof. exact src_next_level. Qed.
Print Assumptions C11_src_valid.

(* AT THE ENTRY POINT: the object returned by vector.assemble(module, *modules, id=, name=) AS
   REGENERATED — with the features, references and annotations it carries — and any rotation of its
   sequence, is accepted by the regenerated is_valid of the generic next-level module class *)
Theorem C11_src_entry_point : forall (sh : shape) (e' : enzyme) (k k' : nat) vector m ms kw hd prod ws (j : Z) (i : nat),
  good_ent vector -> Forall good_ent (m :: ms) ->
  map ent_id (m :: ms) = seq 0 (List.length (m :: ms)) -> ent_id vector = List.length (m :: ms) ->
  deref_elems ((m :: ms) ++ [vector]) [] (heap_of (vector :: m :: ms)) = Ok hd ->
  cpat (ent_cls vector) = shape_pat sh -> crole (ent_cls vector) = RVector ->
  embeds (esite e') (rc_codes (esite e')) (eoff e') (eovh e') k k' sh = true ->
  (0 < List.length (esite e'))%nat ->
  fst (run_assemble (S (S (List.length (m :: ms)))) vector (m :: ms) kw) = Ok (prod, ws) ->
  (forall INS vt, pr_seq prod = INS ++ vt -> target (ent_cls vector) (ent_seq_w vector) true = Some vt ->
     Forall nucl INS /\ (eovh e' + 2 <= List.length INS)%nat) ->
  occurs_once (esite e') (pr_seq prod) -> occurs_once (rc_codes (esite e')) (pr_seq prod) ->
  Z.of_nat (List.length (pr_seq prod)) <= py_MAXSIZE ->
  StructuredRecord_is_valid (src_entity i (generic_cls RModule e') (rotr j (pr_seq prod))) = Ok true
  /\ StructuredRecord_is_valid (ENT i (generic_cls RModule e') prod) = Ok true.
Proof. exact src_entry_next_level. Qed.
Print Assumptions C11_src_entry_point.
