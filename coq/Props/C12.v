(* C12 — strand symmetry: reverse-complemented inputs give the reverse complement.
   Statements only. *)
From MV Require Import Base RotLemmas Record RecordLemmas Regex Typing TypingLemmas Anchors Canonical Assembly StrandLemmas Pipeline EndToEnd StrandIff.
Local Open Scope nat_scope.

(* the recognition site occurs once on the reverse complement iff its reverse complement
   occurs once on the record: the two sites of the definition exchange their roles *)
Theorem C12_sites : forall w s, occurs_once (rc_codes w) s -> occurs_once w (rc s).
Proof. exact occurs_once_rc. Qed.
Print Assumptions C12_sites.

Theorem C12_sites_rotation : forall w s j, occurs_once w s -> occurs_once w (rotr j s).
Proof. exact occurs_once_rot. Qed.
Print Assumptions C12_sites_rotation.

(* the reverse complement of the module word of the formal definition is a rotation of the
   module word built from the reverse-complemented pieces in reverse order *)
Theorem C12_word : forall (S X O5 T O3 Y R B : list letter),
  rc (S ++ X ++ O5 ++ T ++ O3 ++ Y ++ R ++ B) =
  rotr (Z.of_nat (length B)) (rc R ++ rc Y ++ rc O3 ++ rc T ++ rc O5 ++ rc X ++ rc S ++ rc B).
Proof. exact rc_module_word. Qed.
Print Assumptions C12_word.

(* for every enzyme, every module of the formal definition with the two sites once each, every
   rotation: the record and its reverse complement are both accepted by the generic module class;
   the reverse complement reports the overhangs exchanged and reverse-complemented and the target
   body reverse-complemented *)
Theorem C12_module : forall e (S X O5 : list letter) t0 tmid tl (O3 Y R B : list letter) k,
  map lcode S = esite e -> map lcode R = rc_codes (esite e) -> 0 < length (esite e) ->
  length X = eoff e -> length Y = eoff e -> length O5 = eovh e -> length O3 = eovh e ->
  Forall nucl X -> Forall nucl Y -> Forall nucl O5 -> Forall nucl O3 -> nucl t0 -> Forall nucl tmid -> nucl tl ->
  let T := t0 :: tmid ++ [tl] in
  let s0 := S ++ X ++ O5 ++ T ++ O3 ++ Y ++ R ++ B in
  occurs_once (esite e) s0 -> occurs_once (rc_codes (esite e)) s0 ->
  observe (C RModule e (module_structure e)) (rotr k s0) = (true, Some O5, Some O3, Some (O5 ++ T), Some (O5 ++ T)) /\
  observe (C RModule e (module_structure e)) (rotr k (rc s0)) =
    (true, Some (rc O3), Some (rc O5), Some (rc O3 ++ rc T), Some (rc O3 ++ rc T)).
Proof. exact strand_module. Qed.
Print Assumptions C12_module.

(* the same for the generic vector class: upstream and downstream overhangs exchanged and
   reverse-complemented, the backbone (target body) reverse-complemented *)
Theorem C12_vector : forall e bl (Odn Y R P S X Oup : list letter) bf (Bmid : list letter) k,
  map lcode S = esite e -> map lcode R = rc_codes (esite e) -> 0 < length (esite e) ->
  length X = eoff e -> length Y = eoff e -> length Odn = eovh e -> length Oup = eovh e ->
  Forall nucl X -> Forall nucl Y -> Forall nucl P -> Forall nucl Odn -> Forall nucl Oup -> nucl bl -> nucl bf ->
  let s0 := [bl] ++ Odn ++ Y ++ R ++ P ++ S ++ X ++ Oup ++ [bf] ++ Bmid in
  occurs_once (esite e) s0 -> occurs_once (rc_codes (esite e)) s0 ->
  observe (C RVector e (vector_structure e)) (rotr k s0) =
    (true, Some Oup, Some Odn, Some (Oup ++ [bf] ++ Bmid ++ [bl]), Some (Odn ++ Y ++ R ++ P ++ S ++ X)) /\
  observe (C RVector e (vector_structure e)) (rotr k (rc s0)) =
    (true, Some (rc Odn), Some (rc Oup), Some (rc Odn ++ [compl_l bl] ++ rc Bmid ++ [compl_l bf]),
     Some (rc Oup ++ rc X ++ rc S ++ rc P ++ rc R ++ rc Y)).
Proof. exact strand_vector. Qed.
Print Assumptions C12_vector.

(* assembly level. A module / vector is given by what it reports (overhangs o5/o3 or up/dn, body);
   `rc_smod` / `rc_svec` is what its reverse complement reports (C12_module / C12_vector).
   If the modules chain from the vector's downstream to its upstream overhang (all used), the
   overhang sets of both strands are clash-free and neither walk meets its stop overhang early,
   then assembling the reverse complements succeeds with the modules in the opposite order and
   its product is, up to letter case at the junction overhangs, a rotation of the reverse
   complement of the original product *)
Theorem C12_assembly : forall (v : svec) (cs ms : list smod),
  Permutation.Permutation ms cs -> NoDup (map sid ms) ->
  path (okey (sdn v)) (map keys_of cs) (okey (sup v)) ->
  okey (sup v) <> okey (sdn v) ->
  Forall (fun m => okey (so5 m) <> okey (sup v)) cs ->
  Forall (fun m => okey (so3 m) <> okey (sdn v)) cs ->
  AssemblyLemmas.clash_free rc_codes (map tmod_of ms) ->
  AssemblyLemmas.clash_free rc_codes (map tmod_of (map rc_smod ms)) ->
  let w := concat (map frag cs) ++ (sup v ++ svbody v) in
  let w' := concat (map frag_rc (rev cs)) ++ (rc (sdn v) ++ rc (svbody v)) in
  Assembly.dna_assemble (tvec_of v) (map tmod_of ms) = Assembly.Product w (map sid cs) [] /\
  Assembly.dna_assemble (tvec_of (rc_svec v)) (map tmod_of (map rc_smod ms)) = Assembly.Product w' (map sid (rev cs)) [] /\
  same_codes w' (rotl (Z.of_nat (length (rc (svbody v)))) (rc w)).
Proof. exact strand_assembly. Qed.
Print Assumptions C12_assembly.

(* THE IFF, for ANY record (not only the plasmids of the formal definition): a circle carrying the
   recognition site and its reverse complement once each is accepted by the generic module class
   iff its reverse complement is; when it is, the reverse complement reports the overhangs
   exchanged and reverse-complemented and the target body reverse-complemented *)
Theorem C12_module_iff : forall e s, 0 < length (esite e) ->
  occurs_once (esite e) s -> occurs_once (rc_codes (esite e)) s ->
  is_valid (C RModule e (module_structure e)) (rc s) true = is_valid (C RModule e (module_structure e)) s true.
Proof. exact strand_module_iff. Qed.
Print Assumptions C12_module_iff.

Theorem C12_module_valid : forall e s, 0 < length (esite e) ->
  occurs_once (esite e) s -> occurs_once (rc_codes (esite e)) s ->
  is_valid (C RModule e (module_structure e)) s true = true ->
  exists O5 T O3,
    observe (C RModule e (module_structure e)) s = (true, Some O5, Some O3, Some (O5 ++ T), Some (O5 ++ T)) /\
    observe (C RModule e (module_structure e)) (rc s) =
      (true, Some (rc O3), Some (rc O5), Some (rc O3 ++ rc T), Some (rc O3 ++ rc T)).
Proof. exact strand_module_valid. Qed.
Print Assumptions C12_module_valid.

(* the same for the generic vector class: overhangs exchanged and reverse-complemented, backbone
   and placeholder bodies reverse-complemented *)
Theorem C12_vector_iff : forall e s, 0 < length (esite e) ->
  occurs_once (esite e) s -> occurs_once (rc_codes (esite e)) s ->
  is_valid (C RVector e (vector_structure e)) (rc s) true = is_valid (C RVector e (vector_structure e)) s true.
Proof. exact strand_vector_iff. Qed.
Print Assumptions C12_vector_iff.

Theorem C12_vector_valid : forall e s, 0 < length (esite e) ->
  occurs_once (esite e) s -> occurs_once (rc_codes (esite e)) s ->
  is_valid (C RVector e (vector_structure e)) s true = true ->
  exists Oup Body Odn PH,
    observe (C RVector e (vector_structure e)) s = (true, Some Oup, Some Odn, Some (Oup ++ Body), Some (Odn ++ PH)) /\
    observe (C RVector e (vector_structure e)) (rc s) =
      (true, Some (rc Odn), Some (rc Oup), Some (rc Odn ++ rc Body), Some (rc Oup ++ rc PH)).
Proof. exact strand_vector_valid. Qed.
Print Assumptions C12_vector_valid.

(* END TO END, from the raw plasmids: for ANY enzyme, a vector plasmid and any number of module
   plasmids of the formal definition (two sites once each), if the modules chain and the overhang
   sets of both strands are clash-free, then vector.assemble on the plasmids (each read from any
   origin, any order) and on their REVERSE COMPLEMENTS (each read from any other origin, any other
   origins k') both succeed, the second with the modules in the opposite order, and the second
   product is, up to the letter case of the junction overhangs and up to the origin, the reverse
   complement of the first *)
Theorem C12_end_to_end : forall e v kv kv' (l l' : list (mplasmid * Z)) (cs : list smod),
  0 < length (esite e) -> vplasmid_ok e v -> Forall (mplasmid_ok e) (map fst l) ->
  map fst l' = map fst l ->
  let ms := number 0 (map fst l) in
  Permutation.Permutation ms cs ->
  path (okey (qOdn v)) (map keys_of cs) (okey (qOup v)) ->
  okey (qOup v) <> okey (qOdn v) ->
  Forall (fun m => okey (so5 m) <> okey (qOup v)) cs ->
  Forall (fun m => okey (so3 m) <> okey (qOdn v)) cs ->
  AssemblyLemmas.clash_free rc_codes (map tmod_of ms) ->
  AssemblyLemmas.clash_free rc_codes (map tmod_of (map rc_smod ms)) ->
  let w := concat (map frag cs) ++ (qOup v ++ vbackbone v) in
  let w' := concat (map frag_rc (rev cs)) ++ (rc (qOdn v) ++ rc (vbackbone v)) in
  assemble_raw (generic_cls RVector e) (rotr kv (vword v)) (map (marg e) l) = Assembly.Product w (map sid cs) [] /\
  assemble_raw (generic_cls RVector e) (rotr kv' (rc (vword v))) (map (marg_rc e) l') = Assembly.Product w' (map sid (rev cs)) [] /\
  same_codes w' (rotl (Z.of_nat (length (rc (vbackbone v)))) (rc w)).
Proof. exact end_to_end_strand. Qed.
Print Assumptions C12_end_to_end.

(* reverse complement commutes with rotation (C14) *)
Theorem C12_rc_rot : forall k s, rc (rotr k s) = rotl k (rc s).
Proof. exact rc_rotr. Qed.
Print Assumptions C12_rc_rot.

Example C12_example :
  let e := E [cG;cG;cT;cC;cT;cC] 1 4 in
  let c := C RModule e (module_structure e) in
  let mk := map (fun x => L x true) in
  let s := mk [cG;cG;cT;cC;cT;cC;cA; cA;cA;cT;cG; cC;cC;cA; cG;cC;cT;cT; cT;cG;cA;cG;cA;cC;cC; cA;cT] in
  observe c (rc s) = (true, Some (mk [cA;cA;cG;cC]), Some (mk [cC;cA;cT;cT]),
                      Some (mk [cA;cA;cG;cC;cT;cG;cG]), Some (mk [cA;cA;cG;cC;cT;cG;cG])).
Proof. vm_compute. reflexivity. Qed.
