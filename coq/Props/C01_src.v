(* C01 end to end over the definitions regenerated from the source (Gen/Src.v). Statements only. *)
From MV Require Import Base RotLemmas Record Regex Shape Typing Assembly AssemblyLemmas Pipeline
     PipelineLemmas ProductLemmas StrandLemmas Canonical EndToEnd Py PyObj SrcEquivAssembly SrcGlue SrcEndToEnd PyHeap SrcEquivCite SrcEquivAsmHeap SrcEntryEndToEnd.
From MV.Gen Require Import Src.
From Coq Require Import Permutation String.
Local Open Scope Z_scope.

(* For ANY enzyme e (any site word, cut offset, overhang length), a vector plasmid and ANY number
   of module plasmids of the formal definition (site and reverse site once each on the circle),
   every plasmid read from ANY origin, the modules in ANY order, no plasmid longer than
   sys.maxsize: if in some order the modules' overhangs chain from the vector's downstream to its
   upstream overhang, no module starts with the vector's upstream overhang and the start overhangs
   are clash-free, then vector.assemble(modules) — AS TRANSLATED FROM moclo's PYTHON SOURCE ON THIS
   RUN: AssemblyManager, the typing of every argument through _match / DNARegex.search /
   SeqMatch.group, the rotations and slices of CircularRecord, add_as_source — returns a record
   whose sequence is exactly o5_1.t_1 ... o5_q.t_q.o_up.backbone and warns about no unused module *)
Theorem C01_src_end_to_end : forall e v kv (l : list (mplasmid * Z)) (cs : list smod),
  (0 < List.length (esite e))%nat -> vplasmid_ok e v -> Forall (mplasmid_ok e) (map fst l) ->
  let ms := number 0 (map fst l) in
  Permutation ms cs ->
  path (okey (qOdn v)) (map keys_of cs) (okey (qOup v)) ->
  okey (qOup v) <> okey (qOdn v) ->
  Forall (fun m => okey (so5 m) <> okey (qOup v)) cs ->
  clash_free rc_codes (map tmod_of ms) ->
  Z.of_nat (List.length (rotr kv (vword v))) <= py_MAXSIZE ->
  Forall (fun x => Z.of_nat (List.length (rotr (snd x) (mword (fst x)))) <= py_MAXSIZE) l ->
  let vector := src_entity (List.length l) (generic_cls RVector e) (rotr kv (vword v)) in
  let modules := src_modules 0 (map (marg e) l) in
  exists prod ws, vector_assemble (S (S (List.length l))) vector modules = Ok (prod, ws)
    /\ pr_seq prod = List.concat (map frag cs) ++ (qOup v ++ vbackbone v)
    /\ unused_of ws = [].
Proof. exact src_end_to_end. Qed.
Print Assumptions C01_src_end_to_end.

(* THE ENTRY POINT. The same for vector.assemble(module, *modules, id=, name=) itself AS REGENERATED
   — AbstractVector.assemble, AssemblyManager.assemble with its citation bookkeeping under
   try/finally, _annotate_assembly, _ref_citations — on records of ANY content (features,
   qualifiers, annotations, names; citations that dereference, Props/C10_src.v) carrying the
   plasmids of the formal definition: the product's sequence is the documented formula, no module
   is unused, and it carries the requested id and name, the circular topology and the comment
   naming the vector and every module.  (Props/C07_src.v runs an instance.) *)
Theorem C01_src_entry_point : forall e v kv (l : list (mplasmid * Z)) (cs : list smod),
  (0 < List.length (esite e))%nat -> vplasmid_ok e v -> Forall (mplasmid_ok e) (map fst l) ->
  let ms0 := number 0 (map fst l) in
  Permutation ms0 cs ->
  path (okey (qOdn v)) (map keys_of cs) (okey (qOup v)) ->
  okey (qOup v) <> okey (qOdn v) ->
  Forall (fun m => okey (so5 m) <> okey (qOup v)) cs ->
  clash_free rc_codes (map tmod_of ms0) ->
  forall vector m ms kw hd,
  good_ent vector -> Forall good_ent (m :: ms) ->
  ent_cls vector = generic_cls RVector e -> ent_seq_w vector = rotr kv (vword v) ->
  map raw_of (m :: ms) = map (marg e) l ->
  map ent_id (m :: ms) = seq 0 (List.length (m :: ms)) -> ent_id vector = List.length (m :: ms) ->
  deref_elems ((m :: ms) ++ [vector]) [] (heap_of (vector :: m :: ms)) = Ok hd ->
  exists prod ws,
    fst (run_assemble (S (S (List.length (m :: ms)))) vector (m :: ms) kw) = Ok (prod, ws)
    /\ pr_seq prod = List.concat (map frag cs) ++ (qOup v ++ vbackbone v)
    /\ unused_of ws = []
    /\ pr_id prod = kw_id kw /\ pr_name prod = kw_name kw
    /\ an_topology (pr_annotations prod) = Some "circular"%string
    /\ other_get (an_other (pr_annotations prod)) "comment"
       = Some (AComment [LGenerated; LVector (pr_id (ent_record vector));
                         LModules (map (fun x => pr_id (ent_record x)) (m :: ms))]).
Proof. exact src_entry_end_to_end. Qed.
Print Assumptions C01_src_entry_point.
