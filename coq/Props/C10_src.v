(* C10 on the definitions regenerated from the source (Gen/Src.v, heap style). Statements only. *)
From MV Require Import Base Record Regex Typing Assembly Pipeline Py PyObj PyHeap
     SrcEquivAssembly SrcEquivHeap SrcEquivCite SrcEquivAsmHeap SrcCorollariesHeap.
From MV.Gen Require Import Src.
From Coq Require Import String.
Local Open Scope Z_scope.

(* _deref_citations(record) AS TRANSLATED FROM THE SOURCE, on any heap: every citation of every
   feature is replaced in place by deref_cit of it — "[i]" by references[i - 1] with Python's
   indexing — and the first citation that is not of that form (ValueError), out of range
   (IndexError) or not a string (TypeError) stops it with that exception *)
Theorem C10_src_deref : forall self l h r, heap_get h l = Some r ->
  exists h', AssemblyManager_deref_citations self l h =
  match deref_record r with
  | Ok r' => (Ok tt, heap_set h l r')
  | Err e => (Err e, h')
  end.
Proof. exact deref_citations_eq. Qed.
Print Assumptions C10_src_deref.

Theorem C10_src_deref_number : forall refs c d z,
  cit_rx_match c = Ok (Some (CM d)) -> py_int_of_str d = Ok z -> deref_cit refs c = py_getitem refs (z - 1).
Proof. exact deref_cit_number. Qed.
Print Assumptions C10_src_deref_number.

(* _ref_citations(record) AS TRANSLATED FROM THE SOURCE never raises and turns the record into
   ref_record of it *)
Theorem C10_src_ref : forall self l h r, heap_get h l = Some r ->
  AssemblyManager_ref_citations self l h = (Ok tt, heap_set h l (ref_record r)).
Proof. exact ref_citations_eq. Qed.
Print Assumptions C10_src_ref.

(* what that numbering means, for every feature table and every initial reference list: each
   citation becomes "[k]" with the k-th reference of the final list equal to what the citation
   was; the final list is the initial one followed by cited values only; no two of its references
   are equal if no two were *)
Theorem C10_src_points : forall fs refs, exists ext, fst (ref_features refs fs) = refs ++ ext
  /\ Forall2 (feature_points (fst (ref_features refs fs))) fs (snd (ref_features refs fs))
  /\ (forall y, In y ext -> exists x cs, In x fs /\ qcits (fquals x) = Some cs /\ In y cs)
  /\ (refs_once refs -> refs_once (fst (ref_features refs fs))).
Proof. exact ref_features_spec. Qed.
Print Assumptions C10_src_points.

(* the whole call vector.assemble(module, *modules, **kwargs) AS TRANSLATED, for arguments that are
   distinct objects: __init__ and the modules map on the inputs as given, the citations of every
   input dereferenced, the assembly proper on what the inputs read then, the product annotated and
   re-referenced; an error at any stage is the result *)
Theorem C10_src_call : forall fuel vector m ms kw,
  NoDup (map ent_id (vector :: m :: ms)) ->
  let h0 := heap_of (vector :: m :: ms) in
  let res := fst (run_assemble fuel vector (m :: ms) kw) in
  match (mgr <- AssemblyManager_init tt vector (m :: ms) (kw_id kw) (kw_name kw) ;;
         d <- AssemblyManager_generate_modules_map mgr ;; Ok (mgr, d)) with
  | Err e => res = Err e
  | Ok (mgr, d) =>
    match deref_elems ((m :: ms) ++ [vector]) [] h0 with
    | Err e => res = Err e
    | Ok hd =>
      match AssemblyManager_generate_assembly fuel (refresh hd mgr) (refresh hd d) with
      | Err e => res = Err e
      | Ok (p, ws) =>
        res = Ok (ref_record (annotated mgr (pr_id (ent_record vector)) (map (fun x => pr_id (ent_record x)) (m :: ms)) p), ws)
      end
    end
  end.
Proof. exact run_assemble_eq. Qed.
Print Assumptions C10_src_call.

(* records with citations assemble like records without them: when the citations dereference, the
   outcome of the call — the error and its arguments, or the product's sequence and the unused
   modules — is that of the model on the classes and sequences alone *)
Theorem C10_src_like_plain : forall vector m ms kw,
  good_ent vector -> Forall good_ent (m :: ms) ->
  map ent_id (m :: ms) = seq 0 (List.length (m :: ms)) -> ent_id vector = List.length (m :: ms) ->
  let res := fst (run_assemble (S (S (List.length (m :: ms)))) vector (m :: ms) kw) in
  let model := forget_used (assemble_raw (ent_cls vector) (ent_seq_w vector) (map raw_of (m :: ms))) in
  match deref_elems ((m :: ms) ++ [vector]) [] (heap_of (vector :: m :: ms)) with
  | Ok _ => outcome_of res = model
  | Err e => res = Err e \/ outcome_of res = model
  end.
Proof. exact run_assemble_outcome. Qed.
Print Assumptions C10_src_like_plain.

(* the citations of the product: its reference list is exactly the references cited by the
   features it inherits (p: the assembly proper of the dereferenced inputs, whose feature table
   Props/C08_src.v characterises), each once, every citation pointing to the reference it held *)
Theorem C10_src_product : forall self vid mids p,
  an_references (pr_annotations p) = None ->
  let prod := ref_record (annotated self vid mids p) in
  exists refs, an_references (pr_annotations prod) = Some refs
    /\ Forall2 (feature_points refs) (pr_features p) (pr_features prod)
    /\ (forall y, In y refs -> exists x cs, In x (pr_features p) /\ qcits (fquals x) = Some cs /\ In y cs)
    /\ refs_once refs.
Proof. exact product_citations. Qed.
Print Assumptions C10_src_product.

Theorem C10_src_norefs : forall fuel mgr d p ws,
  AssemblyManager_generate_assembly fuel mgr d = Ok (p, ws) -> an_references (pr_annotations p) = None.
Proof. exact generate_norefs. Qed.
Print Assumptions C10_src_norefs.

(* the entry point and the assembly proper end the same way whenever the inputs' citations
   dereference: every theorem stated about vector_assemble (Props/C01_src ... C19_src) is a theorem
   about vector.assemble(module, *modules, **kwargs) as regenerated *)
Theorem C10_src_entry_point : forall vector m ms kw hd,
  good_ent vector -> Forall good_ent (m :: ms) ->
  map ent_id (m :: ms) = seq 0 (List.length (m :: ms)) -> ent_id vector = List.length (m :: ms) ->
  deref_elems ((m :: ms) ++ [vector]) [] (heap_of (vector :: m :: ms)) = Ok hd ->
  outcome_of (fst (run_assemble (S (S (List.length (m :: ms)))) vector (m :: ms) kw))
  = outcome_of (vector_assemble (S (S (List.length (m :: ms)))) vector (m :: ms)).
Proof. exact entry_point_outcome. Qed.
Print Assumptions C10_src_entry_point.

Theorem C10_src_nocits : forall r,
  Forall (fun x => qcits (fquals x) = None) (pr_features r) -> deref_record r = Ok r.
Proof. exact deref_record_nocits. Qed.
Print Assumptions C10_src_nocits.

(* the bracketed-index form the product's citations are written in is the form _deref_citations
   reads: "[k]" (k >= 1) as formatted by the regenerated _ref_citations dereferences, at the next
   level, to the k-th reference of the product's list *)
Theorem C10_src_readable : forall refs (k : positive),
  deref_cit refs (cit_format_index (Zpos k)) = py_getitem refs (Zpos k - 1).
Proof. exact deref_format. Qed.
Print Assumptions C10_src_readable.
