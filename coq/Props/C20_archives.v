(* C20, obligations over the archive indices regenerated from the working tree (the
   embedded archives are rebuilt from moclo-*/registry/*/*.gb): every member is a regular
   file named after its record id, ids are unique, a resistance is found for every entry.
   Exhaustive over all entries; re-proved on every run. *)
From Coq Require Import List Bool Arith String.
Import ListNotations.
From MV Require Import Registry RegistryLemmas.
From MV.Gen Require Import Registries.

Fixpoint str_mem (x : string) (l : list string) : bool :=
  match l with [] => false | y :: r => String.eqb x y || str_mem x r end.
Fixpoint str_nodup (l : list string) : bool :=
  match l with [] => true | x :: r => negb (str_mem x r) && str_nodup r end.

Definition entry_ok (e : string * string * bool * bool) : bool :=
  let '(member, id, res, isfile) := e in String.eqb member id && res && isfile.

Definition archive_ok (a : list (string * string * bool * bool)) : bool :=
  forallb entry_ok a && str_nodup (map (fun e => snd (fst (fst e))) a) &&
  negb (Nat.eqb (List.length a) 0).

Definition archives_ok : bool :=
  forallb (fun r => archive_ok (snd r)) archives && Nat.leb 5 (List.length archives).

Lemma archives_ok_true : archives_ok = true.
Proof. vm_compute. reflexivity. Qed.

Lemma str_mem_in x l : str_mem x l = false -> ~ In x l.
Proof.
  induction l as [|y r IH]; simpl; [tauto|].
  intros H [->|Hin].
  - rewrite String.eqb_refl in H. discriminate.
  - apply Bool.orb_false_iff in H. destruct H as [_ H]. now apply IH.
Qed.

Lemma str_nodup_sound l : str_nodup l = true -> NoDup l.
Proof.
  induction l as [|x r IH]; simpl; intros H; constructor.
  - apply andb_prop in H. destruct H as [H _]. apply str_mem_in. now destruct (str_mem x r).
  - apply andb_prop in H. destruct H as [_ H]. now apply IH.
Qed.

Definition index_of_archive (a : list (string * string * bool * bool)) : list (string * string) :=
  map (fun e => (fst (fst (fst e)), snd (fst (fst e)))) a.

(* every bundled archive satisfies the hypotheses of C20_embedded, hence its conclusion;
   and every entry has a known resistance and is a regular file *)
Theorem C20_archives : forall name a, In (name, a) archives ->
  NoDup (map snd (index_of_archive a)) /\
  (forall e, In e (index_of_archive a) -> fst e = snd e) /\
  (forall e, In e a -> snd (fst e) = true /\ snd e = true) /\
  a <> [].
Proof.
  intros name a Hin. pose proof archives_ok_true as H. unfold archives_ok in H.
  apply andb_prop in H. destruct H as [H _]. rewrite forallb_forall in H.
  specialize (H _ Hin). simpl in H. unfold archive_ok in H.
  apply andb_prop in H. destruct H as [H Hne]. apply andb_prop in H. destruct H as [Hall Hnd].
  rewrite forallb_forall in Hall. split; [|split; [|split]].
  - apply str_nodup_sound in Hnd. unfold index_of_archive. rewrite map_map. simpl. exact Hnd.
  - intros e He. unfold index_of_archive in He. apply in_map_iff in He. destruct He as [[[[m i] r] f] [<- Hx]].
    specialize (Hall _ Hx). simpl in *. apply andb_prop in Hall. destruct Hall as [Hall _].
    apply andb_prop in Hall. destruct Hall as [Hm _]. now apply String.eqb_eq in Hm.
  - intros [[[m i] r] f] Hx. specialize (Hall _ Hx). simpl in *.
    apply andb_prop in Hall. destruct Hall as [Hall Hf]. apply andb_prop in Hall. destruct Hall as [_ Hr]. auto.
  - intros ->. discriminate Hne.
Qed.
Print Assumptions C20_archives.

Theorem C20_archives_coherent : forall name a, In (name, a) archives ->
  let ix := index_of_archive a in
  NoDup (emb_iter ix) /\ emb_len ix = List.length (emb_iter ix) /\
  (forall k, In k (emb_iter ix) -> exists e, emb_lookup String.eqb ix k = Some e /\ snd e = k /\ In e ix) /\
  (forall k, ~ In k (emb_iter ix) -> emb_lookup String.eqb ix k = None).
Proof.
  intros name a Hin. destruct (C20_archives name a Hin) as (Hn & Hname & _).
  apply (emb_coherent String.eqb String.eqb_eq); assumption.
Qed.
Print Assumptions C20_archives_coherent.
