(* C11, obligations over the kit table regenerated from the working tree: each of the seven
   bundled vector types whose structure embeds the next level's sites passes the static
   check `embeds` for the cutter of the kit's next-level module class, and that next-level
   class has exactly the generic module structure of its cutter. Re-proved on every run.
   (The YTK entry vector embeds nothing itself: the frame is carried by YTKProduct; that triple
   is decided by the differential part only.) *)
From MV Require Import Base Regex RegexLemmas Shape ShapeLemmas Typing TypingLemmas ShapeTyping
                       PartLemmas Anchors Canonical StrandLemmas NextLevel KitLookup Glue.
From MV.Gen Require Import Kits.
From Coq Require Import String.
Local Open Scope nat_scope.

Definition pairs : list (string * string) :=
  [("CIDAREntryVector", "CIDAREntry"); ("CIDARCassetteVector", "CIDARCassette"); ("CIDARDeviceVector", "CIDARDevice");
   ("EcoFlexCassetteVector", "EcoFlexCassette"); ("EcoFlexDeviceVector", "EcoFlexDevice");
   ("MoCloEntryVector", "MoCloEntry"); ("MoCloCassetteVector", "MoCloCassette")]%string.

Definition embeds_some (e' : enzyme) (sh : shape) : bool :=
  existsb (fun k => existsb (fun k' => embeds (esite e') (rc_codes (esite e')) (eoff e') (eovh e') k k' sh)
                            (seq 0 (S (List.length (spost sh)))))
          (seq 0 (S (List.length (spre sh)))).

Definition pair_ok (p : string * string) : bool :=
  match find_kit (fst p), find_kit (snd p) with
  | Some kv, Some kn =>
      match crole (kcls kv), crole (kcls kn), parse3 (cpat (kcls kv)) with
      | RVector, RModule, Some sh =>
          embeds_some (cenz (kcls kn)) sh &&
          pattern_eqb (cpat (kcls kn)) (module_structure (cenz (kcls kn))) &&
          Nat.ltb 0 (List.length (esite (cenz (kcls kn))))
      | _, _, _ => false
      end
  | _, _ => false
  end.

Lemma pairs_ok_true : forallb pair_ok pairs = true.
Proof. vm_compute. reflexivity. Qed.

Lemma item_eqb_eq a b : item_eqb a b = true -> a = b.
Proof. destruct a, b; cbn; intros H; try discriminate; try reflexivity; f_equal; now apply codes_eqb_eq. Qed.

Lemma pattern_eqb_eq a b : pattern_eqb a b = true -> a = b.
Proof.
  revert b. induction a as [|x a IH]; destruct b as [|y b]; cbn; intros H; try discriminate; [reflexivity|].
  apply andb_prop in H. destruct H. f_equal; [now apply item_eqb_eq|now apply IH].
Qed.

(* for each of the seven pairs: the vector class has the common shape and embeds the next
   level's sites, so C11_valid applies to every vector it accepts and every insert, and the
   kit's next-level class is the generic module class the theorem speaks about *)
Theorem C11_kits : forall vname nname, In (vname, nname) pairs ->
  exists kv kn sh k k',
    find_kit vname = Some kv /\ find_kit nname = Some kn /\
    crole (kcls kv) = RVector /\ cpat (kcls kv) = shape_pat sh /\
    cpat (kcls kn) = module_structure (cenz (kcls kn)) /\ crole (kcls kn) = RModule /\
    0 < List.length (esite (cenz (kcls kn))) /\
    embeds (esite (cenz (kcls kn))) (rc_codes (esite (cenz (kcls kn)))) (eoff (cenz (kcls kn))) (eovh (cenz (kcls kn))) k k' sh = true.
Proof.
  intros vname nname Hin. pose proof pairs_ok_true as H. rewrite forallb_forall in H. specialize (H _ Hin).
  unfold pair_ok in H. cbn [fst snd] in H.
  destruct (find_kit vname) as [kv|]; [|discriminate]. destruct (find_kit nname) as [kn|]; [|discriminate].
  destruct (crole (kcls kv)) eqn:Rv; [discriminate|]. destruct (crole (kcls kn)) eqn:Rn; [|discriminate].
  destruct (parse3 (cpat (kcls kv))) as [sh|] eqn:Ep; [|discriminate].
  apply andb_prop in H. destruct H as [H Hs]. apply andb_prop in H. destruct H as [He Hpat].
  apply Nat.ltb_lt in Hs. apply pattern_eqb_eq in Hpat. apply parse3_sound in Ep.
  unfold embeds_some in He. apply existsb_exists in He. destruct He as (k & _ & He).
  apply existsb_exists in He. destruct He as (k' & _ & He).
  exists kv, kn, sh, k, k'. repeat split; auto.
Qed.
Print Assumptions C11_kits.
