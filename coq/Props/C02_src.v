(* C02 over the assembly regenerated from the source (Gen/Src.v). Statements only. *)
From MV Require Import Base RotLemmas Regex Typing TypingLemmas Assembly Pipeline PipelineLemmas Py PyObj
     SrcEquivAssembly SrcCorollaries.
From MV.Gen Require Import Src.

(* every plasmid with a unique matching start of its class's structure, read from any other origin:
   vector.assemble AS TRANSLATED FROM THE SOURCE ends the same way — same error and arguments, or
   the same product word and unused modules *)
Theorem C02_src_assembly : forall vector vector' modules modules',
  good_ent vector -> good_ent vector' -> Forall good_ent modules -> Forall good_ent modules' ->
  map ent_id modules = seq 0 (List.length modules) -> map ent_id modules' = seq 0 (List.length modules') ->
  uniquely_typed (raw_of vector) -> Forall uniquely_typed (map raw_of modules) ->
  rotated_ent vector vector' -> Forall2 rotated_ent modules modules' ->
  outcome_of (vector_assemble (S (S (List.length modules'))) vector' modules')
  = outcome_of (vector_assemble (S (S (List.length modules))) vector modules).
Proof. exact src_assemble_rot. Qed.
Print Assumptions C02_src_assembly.
