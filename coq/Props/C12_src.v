(* C12 end to end over the definitions regenerated from the source (Gen/Src.v). Statements only. *)
From MV Require Import Base RotLemmas Record RecordLemmas Regex Shape Typing TypingLemmas Assembly AssemblyLemmas
     Pipeline PipelineLemmas ProductLemmas StrandLemmas Canonical EndToEnd Py PyObj SrcEquivAssembly SrcGlue SrcEndToEnd.
From MV.Gen Require Import Src.
From Coq Require Import Permutation.
Local Open Scope Z_scope.

(* under the hypotheses of C12_end_to_end (any enzyme, plasmids of the formal definition, any
   origins, any order, a closing clash-free chain in both orientations) and no plasmid longer than
   sys.maxsize: vector.assemble AS TRANSLATED FROM THE SOURCE returns a product for the plasmids
   and a product for their reverse complements, without unused module, and the second is — up to
   the letter case of the junction overhangs and up to the origin — the reverse complement of the
   first *)
Theorem C12_src_end_to_end : forall e v kv kv' (l l' : list (mplasmid * Z)) (cs : list smod),
  (0 < List.length (esite e))%nat -> vplasmid_ok e v -> Forall (mplasmid_ok e) (map fst l) ->
  map fst l' = map fst l ->
  let ms := number 0 (map fst l) in
  Permutation ms cs ->
  path (okey (qOdn v)) (map keys_of cs) (okey (qOup v)) ->
  okey (qOup v) <> okey (qOdn v) ->
  Forall (fun m => okey (so5 m) <> okey (qOup v)) cs ->
  Forall (fun m => okey (so3 m) <> okey (qOdn v)) cs ->
  clash_free rc_codes (map tmod_of ms) -> clash_free rc_codes (map tmod_of (map rc_smod ms)) ->
  Z.of_nat (List.length (vword v)) <= py_MAXSIZE ->
  Forall (fun x => Z.of_nat (List.length (mword (fst x))) <= py_MAXSIZE) l ->
  Forall (fun x => Z.of_nat (List.length (mword (fst x))) <= py_MAXSIZE) l' ->
  exists p ws p' ws',
    vector_assemble (S (S (List.length l))) (src_entity (List.length l) (generic_cls RVector e) (rotr kv (vword v)))
                    (src_modules 0 (map (marg e) l)) = Ok (p, ws) /\ unused_of ws = [] /\
    vector_assemble (S (S (List.length l'))) (src_entity (List.length l') (generic_cls RVector e) (rotr kv' (rc (vword v))))
                    (src_modules 0 (map (marg_rc e) l')) = Ok (p', ws') /\ unused_of ws' = [] /\
    same_codes (pr_seq p') (rotl (Z.of_nat (List.length (rc (vbackbone v)))) (rc (pr_seq p))).
Proof. exact src_end_to_end_strand. Qed.
Print Assumptions C12_src_end_to_end.
