(* C15 over the definitions regenerated from moclo/record.py (Gen/Src.v). Statements only. *)
From MV Require Import Base RotLemmas Circle CircleLemmas Py PyObj SrcEquivRegex SrcEquivRecord SrcCorollaries.
From MV.Gen Require Import Src.
From Coq Require Import String.
Open Scope Z_scope.

(* CircularRecord.__contains__, as translated from the source, never raises and is the circular
   membership of the model *)
Theorem C15_src_contains : forall rec q,
  CircularRecord_contains rec q = Ok (contains letter_eqb q (pr_seq rec)).
Proof. exact CircularRecord_contains_eq. Qed.
Print Assumptions C15_src_contains.

(* hence the same answer for every rotation of the record *)
Theorem C15_src_contains_rot : forall rec rec' q k, pr_seq rec' = rotr k (pr_seq rec) ->
  CircularRecord_contains rec' q = CircularRecord_contains rec q.
Proof. exact src_contains_rot. Qed.
Print Assumptions C15_src_contains_rot.

(* a slice of a circular record is a plain SeqRecord carrying the ordinary string slice (Python's
   index normalisation included) and no topology annotation: of the annotations only "molecule_type"
   survives Biopython's slice *)
Theorem C15_src_slice : forall rec lo hi,
  pr_kind rec = KCircularRecord ->
  exists r, CircularRecord_getitem_slice rec (lo, hi) = Ok r
    /\ pr_kind r = KSeqRecord
    /\ pr_seq r = py_slice (pr_seq rec) lo hi
    /\ pr_annotations r = ann_sliced (pr_annotations rec).
Proof. exact CircularRecord_getitem_slice_eq. Qed.
Print Assumptions C15_src_slice.

(* concatenating anything to a circular record, from either side, is refused with TypeError:
   __add__ and __radd__ are replaced by the @_ambiguous wrapper (read from the source: the
   decorator must be there and its wrapper must only raise TypeError) *)
Theorem C15_src_add : forall x y : pyrecord,
  is_CircularRecord x = true \/ is_CircularRecord y = true -> py_addm x y = Err XTypeError.
Proof. exact src_add_refused. Qed.
Print Assumptions C15_src_add.

(* CircularRecord(record), as translated from __init__: a record whose topology annotation is
   not "circular" (in any letter case) is refused with ValueError; otherwise the result is a
   CircularRecord with the same sequence, identity, name, features, annotations and tracks (values are
   immutable in the model: a copy) *)
Theorem C15_src_constructor : forall r,
  CircularRecord_new r =
  match an_topology (pr_annotations r) with
  | Some t => if String.eqb (str_lower t) "circular"
              then Ok (PR KCircularRecord (pr_seq r) (pr_id r) (pr_features r) (pr_annotations r) (pr_letter_annotations r) (pr_name r))
              else Err XValueError
  | None => Ok (PR KCircularRecord (pr_seq r) (pr_id r) (pr_features r) (pr_annotations r) (pr_letter_annotations r) (pr_name r))
  end.
Proof. exact CircularRecord_new_eq. Qed.
Print Assumptions C15_src_constructor.
