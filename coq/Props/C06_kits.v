(* C06, obligations over the kit table regenerated from the working tree: class names
   identify classes (so `consistent` holds for any history over kit classes) and every
   MRO starts with the class itself. Re-proved on every run. *)
From MV Require Import Base Regex Typing Cache CacheLemmas KitLookup.
From MV.Gen Require Import Kits.
From Coq Require Import String.

Definition kit_entry (k : kitcls) : centry := CE (kname k) (kmro k) (kcls k).

Fixpoint str_mem (x : string) (l : list string) : bool :=
  match l with [] => false | y :: r => String.eqb x y || str_mem x r end.
Fixpoint str_nodup (l : list string) : bool :=
  match l with [] => true | x :: r => negb (str_mem x r) && str_nodup r end.

Definition kits_ok : bool :=
  str_nodup (map kname kits) &&
  forallb (fun k => match kmro k with n :: _ => String.eqb n (kname k) | [] => false end) kits &&
  match unsupported with [] => true | _ => false end.

Lemma kits_ok_true : kits_ok = true.
Proof. vm_compute. reflexivity. Qed.

Lemma str_mem_in x l : str_mem x l = false -> ~ In x l.
Proof.
  induction l as [|y r IH]; simpl; [tauto|].
  intros H [->|Hin].
  - rewrite String.eqb_refl in H. discriminate.
  - apply Bool.orb_false_iff in H. destruct H as [_ H]. now apply IH.
Qed.

Lemma str_nodup_sound l : str_nodup l = true -> NoDup l.
Proof.
  induction l as [|x r IH]; simpl; intros H; constructor.
  - apply andb_prop in H. destruct H as [H _]. apply str_mem_in. now destruct (str_mem x r).
  - apply andb_prop in H. destruct H as [_ H]. now apply IH.
Qed.

Lemma nodup_map_inj' {A B} (f : A -> B) l x y :
  NoDup (map f l) -> In x l -> In y l -> f x = f y -> x = y.
Proof.
  induction l as [|z l IH]; simpl; intros Hn Hx Hy E; [contradiction|].
  inversion Hn as [|? ? Hnin Hn']; subst.
  destruct Hx as [->|Hx], Hy as [->|Hy]; auto.
  - exfalso. apply Hnin. rewrite E. now apply in_map.
  - exfalso. apply Hnin. rewrite <- E. now apply in_map.
Qed.

(* any history over the kit classes satisfies the hypothesis of C06_history *)
Theorem C06_kits_consistent : forall es, (forall e, In e es -> In e (map kit_entry kits)) -> consistent es.
Proof.
  intros es Hes e1 e2 H1 H2 En.
  apply Hes in H1. apply Hes in H2.
  apply in_map_iff in H1. destruct H1 as [k1 [<- Hk1]].
  apply in_map_iff in H2. destruct H2 as [k2 [<- Hk2]].
  simpl in *. pose proof kits_ok_true as Hok. unfold kits_ok in Hok.
  apply andb_prop in Hok. destruct Hok as [Hok _]. apply andb_prop in Hok. destruct Hok as [Hnd _].
  apply str_nodup_sound in Hnd.
  assert (Ek : k1 = k2) by (eapply (@nodup_map_inj' kitcls string kname kits); eassumption). now subst.
Qed.
Print Assumptions C06_kits_consistent.

Theorem C06_kits_translated : unsupported = [] /\ List.length kits = List.length (map kname kits).
Proof.
  split; [|now rewrite map_length].
  pose proof kits_ok_true as Hok. unfold kits_ok in Hok.
  apply andb_prop in Hok. destruct Hok as [_ H]. now destruct unsupported.
Qed.
Print Assumptions C06_kits_translated.
