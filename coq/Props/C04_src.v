(* C04 / C02 / C12 / C18 over the definitions regenerated from core/_structured.py, modules.py and
   vectors.py (Gen/Src.v): what the translated methods return is what Typing.v says, so every
   theorem stated on `typing`, `overhang_start`, `overhang_end`, `target`, `placeholder` is a
   theorem about the code as it is written now. Statements only. *)
From MV Require Import Base Regex Typing Py PyObj SrcEquivRegex SrcEquivRecord SrcEquivTyping.
From MV.Gen Require Import Src.
Open Scope Z_scope.

(* self._match: found, not found (InvalidSequence), or found with more than three digest
   fragments in the matched region (IllegalSite) *)
Theorem C04_src_match : forall e, fits e ->
  ent_match e = verdict_exc (typing (ent_cls e) (pr_seq (ent_record e)) (ent_circ e)) (ent_record e).
Proof. exact ent_match_eq. Qed.
Print Assumptions C04_src_match.

Theorem C04_src_module_overhang_start : forall e, fits e -> crole (ent_cls e) = RModule ->
  obs (AbstractModule_overhang_start e) = overhang_start (ent_cls e) (pr_seq (ent_record e)) (ent_circ e).
Proof. exact module_overhang_start_eq. Qed.
Print Assumptions C04_src_module_overhang_start.

Theorem C04_src_module_overhang_end : forall e, fits e -> crole (ent_cls e) = RModule ->
  obs (AbstractModule_overhang_end e) = overhang_end (ent_cls e) (pr_seq (ent_record e)) (ent_circ e).
Proof. exact module_overhang_end_eq. Qed.
Print Assumptions C04_src_module_overhang_end.

Theorem C04_src_vector_overhang_start : forall e, fits e -> crole (ent_cls e) = RVector ->
  obs (AbstractVector_overhang_start e) = overhang_start (ent_cls e) (pr_seq (ent_record e)) (ent_circ e).
Proof. exact vector_overhang_start_eq. Qed.
Print Assumptions C04_src_vector_overhang_start.

Theorem C04_src_vector_overhang_end : forall e, fits e -> crole (ent_cls e) = RVector ->
  obs (AbstractVector_overhang_end e) = overhang_end (ent_cls e) (pr_seq (ent_record e)) (ent_circ e).
Proof. exact vector_overhang_end_eq. Qed.
Print Assumptions C04_src_vector_overhang_end.

(* target_sequence(): rotate to the start of group 1, keep (module) or drop (vector) the stretch
   up to the end of group 2 *)
Theorem C04_src_module_target : forall e, fits e ->
  is_CircularRecord (ent_record e) = true -> well_tracked (ent_record e) ->
  crole (ent_cls e) = RModule ->
  (forall m, typing (ent_cls e) (pr_seq (ent_record e)) (ent_circ e) = Valid m -> span_ordered m) ->
  obs (AbstractModule_target_sequence e) = target (ent_cls e) (pr_seq (ent_record e)) (ent_circ e).
Proof. exact module_target_eq. Qed.
Print Assumptions C04_src_module_target.

Theorem C04_src_vector_target : forall e, fits e ->
  is_CircularRecord (ent_record e) = true -> well_tracked (ent_record e) ->
  crole (ent_cls e) = RVector ->
  (forall m, typing (ent_cls e) (pr_seq (ent_record e)) (ent_circ e) = Valid m -> span_ordered m) ->
  obs (AbstractVector_target_sequence e) = target (ent_cls e) (pr_seq (ent_record e)) (ent_circ e).
Proof. exact vector_target_eq. Qed.
Print Assumptions C04_src_vector_target.

(* placeholder_sequence(): downstream overhang followed by the body (repair F7) *)
Theorem C04_src_placeholder : forall e, fits e ->
  crole (ent_cls e) = RVector ->
  obs (AbstractVector_placeholder_sequence e) = placeholder (ent_cls e) (pr_seq (ent_record e)) (ent_circ e).
Proof. exact vector_placeholder_eq. Qed.
Print Assumptions C04_src_placeholder.
