(* C20 — registries are coherent read-only mappings of uniquely identified plasmids.
   Statements only. Keys and file names are strings. *)
From Coq Require Import List Bool Arith String.
Import ListNotations.
From MV Require Import Registry RegistryLemmas.
Open Scope string_scope.

Lemma string_eqb_spec a b : String.eqb a b = true <-> a = b.
Proof. apply String.eqb_eq. Qed.

(* an embedded archive whose member names are the record ids, each once: iteration
   yields each key once, the length is the number of keys, every yielded key is found
   and the item found carries that key as its id, an absent key is a KeyError *)
Theorem C20_embedded : forall a : list (string * string),
  NoDup (map snd a) -> (forall e, In e a -> fst e = snd e) ->
  NoDup (emb_iter a) /\ emb_len a = List.length (emb_iter a) /\
  (forall k, In k (emb_iter a) -> exists e, emb_lookup String.eqb a k = Some e /\ snd e = k /\ In e a) /\
  (forall k, ~ In k (emb_iter a) -> emb_lookup String.eqb a k = None).
Proof. exact (emb_coherent String.eqb string_eqb_spec). Qed.
Print Assumptions C20_embedded.

(* a combination of any sequence of members (overlapping, repeated): a key is looked
   up in the first member that has it *)
Theorem C20_combined_first_wins : forall (I : Type) (regs : list (list (string * I))) k,
  assoc String.eqb k (combine String.eqb regs) = first_member String.eqb k regs.
Proof. intro I. exact (combine_first_wins String.eqb string_eqb_spec). Qed.
Print Assumptions C20_combined_first_wins.

(* ... its key set is the union of the members' key sets, each key once *)
Theorem C20_combined_keys : forall (I : Type) (regs : list (list (string * I))) k,
  In k (keys (combine String.eqb regs)) <-> exists r, In r regs /\ In k (keys r).
Proof. intro I. exact (combine_keys String.eqb string_eqb_spec). Qed.
Print Assumptions C20_combined_keys.

Theorem C20_combined_nodup : forall (I : Type) (regs : list (list (string * I))),
  NoDup (keys (combine String.eqb regs)).
Proof. intro I. exact (combine_nodup String.eqb string_eqb_spec). Qed.
Print Assumptions C20_combined_nodup.

(* a directory: keys are the stems of the regular files matching one of the patterns;
   with distinct stems each key comes once, the length is the number of keys, every key
   is found under a matching regular file with that stem, absent keys are not found *)
Theorem C20_filesystem : forall (exts : list string) (l : list (string * bool)),
  NoDup (fs_iter splitext_stem (glob_matches exts) l) ->
  fs_len (glob_matches exts) l = List.length (fs_iter splitext_stem (glob_matches exts) l) /\
  (forall k, In k (fs_iter splitext_stem (glob_matches exts) l) ->
     exists n, fs_lookup String.eqb splitext_stem (glob_matches exts) l k = Some n /\
               splitext_stem n = k /\ In (n, true) l /\ glob_matches exts n = true) /\
  (forall k, ~ In k (fs_iter splitext_stem (glob_matches exts) l) ->
     fs_lookup String.eqb splitext_stem (glob_matches exts) l k = None).
Proof. intros exts l. exact (fs_coherent String.eqb string_eqb_spec splitext_stem (glob_matches exts) l). Qed.
Print Assumptions C20_filesystem.

(* sub-directories and files matching no pattern are ignored *)
Theorem C20_filesystem_ignores : forall (exts : list string) (l : list (string * bool)) n b,
  In n (fs_files (glob_matches exts) l) -> In (n, b) l -> NoDup (map fst l) ->
  b = true /\ glob_matches exts n = true.
Proof. intros exts l. exact (fs_ignores (glob_matches exts) l). Qed.
Print Assumptions C20_filesystem_ignores.

(* sensitivity (F8): the pinned lookup builds "<key>.<ext>" and asks for that exact
   name, so a file listed through the case-insensitive patterns cannot be found *)
Theorem C20_pinned_lookup_refuted :
  exists exts l k, In k (fs_iter splitext_stem (glob_matches exts) l) /\ fs_lookup_pinned exts l k = None.
Proof. exists ["gb"; "gbk"], [("x.GB", true)], "x". split; [vm_compute; auto|reflexivity]. Qed.
Print Assumptions C20_pinned_lookup_refuted.

(* non-vacuity: a directory with a sub-directory, junk, an upper-case extension, a dotted stem *)
Example C20_example :
  let l := [("a.gb", true); ("sub.gb", false); ("b.GBK", true); ("notes.txt", true); ("c.d.gb", true)] in
  fs_iter splitext_stem (glob_matches ["gb"; "gbk"]) l = ["a"; "b"; "c.d"] /\
  fs_lookup String.eqb splitext_stem (glob_matches ["gb"; "gbk"]) l "b" = Some "b.GBK" /\
  fs_lookup String.eqb splitext_stem (glob_matches ["gb"; "gbk"]) l "sub" = None.
Proof. vm_compute. repeat split. Qed.
