(* C03 — ambiguous or incomplete module sets never produce a plasmid.
   Statements only; every proof is `exact <lemma>`.  The statements are about the
   model of AssemblyManager over typed elements (Assembly.v), instantiated with the
   DNA keys (case-folded overhangs, reverse complement); `mid` is the position of a
   module in the argument list, so NoDup (map mid ms) says "distinct objects". *)
From MV Require Import Base Assembly AssemblyLemmas.
From Coq Require Import Permutation.

Notation dmod := (@tmod (list code)).
Notation dvec := (@tvec (list code)).

(* the outcome is a function of the overhang graph: what each outcome means *)
Theorem C03_outcome : forall (v : dvec) (ms : list dmod), NoDup (map mid ms) ->
  match dna_assemble v ms with
  | EInvalid => vup v = vdown v
  | EDuplicate a b =>
      vup v <> vdown v /\ a <> b /\
      exists ma mb, In ma ms /\ In mb ms /\ mid ma = a /\ mid mb = b /\
                    (mup ma = mup mb \/ mup ma = rc_codes (mup mb))
  | EMissing o =>
      vup v <> vdown v /\ clash_free rc_codes ms /\ Stall ms (vdown v) (vup v) o
  | Product w used unused =>
      vup v <> vdown v /\ clash_free rc_codes ms /\
      exists c r, Chain ms (vdown v) (vup v) c r /\
                  w = concat (map mfrag c) ++ vfrag v /\ used = map mid c /\ unused = map mid r
  | EInternal => False
  end.
Proof. exact (assemble_spec codes_eqb rc_codes codes_eqb_spec). Qed.
Print Assumptions C03_outcome.

(* a product is returned exactly when the vector's overhangs differ, no two distinct
   modules share or reverse-complement a start overhang, and following start
   overhangs from the vector's downstream overhang reaches its upstream overhang *)
Theorem C03_iff : forall (v : dvec) (ms : list dmod), NoDup (map mid ms) ->
  ((exists w u r, dna_assemble v ms = Product w u r) <->
   (vup v <> vdown v /\ clash_free rc_codes ms /\ exists c r, Chain ms (vdown v) (vup v) c r)).
Proof. exact (assemble_product_iff codes_eqb rc_codes codes_eqb_spec). Qed.
Print Assumptions C03_iff.

(* each module is used at most once; the warning lists exactly the others *)
Theorem C03_once : forall (v : dvec) (ms : list dmod) w used unused, NoDup (map mid ms) ->
  dna_assemble v ms = Product w used unused ->
  NoDup used /\ Permutation (used ++ unused) (map mid ms).
Proof. exact (assemble_used_once codes_eqb rc_codes codes_eqb_spec). Qed.
Print Assumptions C03_once.

(* the order in which the modules are passed is irrelevant: same product word and
   chain, same unused set, same error class, same stalled overhang *)
Theorem C03_perm : forall (v : dvec) (ms ms' : list dmod), NoDup (map mid ms) ->
  Permutation ms ms' -> out_equiv (dna_assemble v ms) (dna_assemble v ms').
Proof. exact (assemble_perm codes_eqb rc_codes codes_eqb_spec). Qed.
Print Assumptions C03_perm.

(* the chain, and the overhang at which it stalls, are unique: the graph decides *)
Theorem C03_chain_unique : forall (ms : list dmod) a b c r c' r',
  NoDup (map mup ms) -> Chain ms a b c r -> Chain ms a b c' r' -> c = c' /\ r = r'.
Proof. exact (Chain_functional codes_eqb codes_eqb_spec). Qed.
Print Assumptions C03_chain_unique.

Theorem C03_chain_or_stall : forall (ms : list dmod) a b c r o,
  NoDup (map mup ms) -> Chain ms a b c r -> Stall ms a b o -> False.
Proof. exact (Chain_Stall_excl codes_eqb codes_eqb_spec). Qed.
Print Assumptions C03_chain_or_stall.

(* the walk's fuel is never exhausted *)
Theorem C03_fuel : forall fuel b a (mp used : list dmod),
  length mp < fuel -> walk codes_eqb fuel b a mp used <> WFuel.
Proof. exact (walk_fuel codes_eqb codes_eqb_spec). Qed.
Print Assumptions C03_fuel.

(* sensitivity (F6): the pinned reverse-complement test rejects a single module
   whose start overhang is palindromic as a duplicate of itself *)
Theorem C03_pinned_palindrome_refuted :
  exists (v : dvec) (ms : list dmod),
    assemble_pinned_rc codes_eqb rc_codes v ms = EDuplicate 0 0 /\
    exists w, dna_assemble v ms = Product w [0] [].
Proof.
  exists (TV [cT;cT;cA;cA] [cA;cC;cG;cT] []), [TM 0 [cA;cC;cG;cT] [cT;cT;cA;cA] []].
  split; [reflexivity|]. eexists. reflexivity.
Qed.
Print Assumptions C03_pinned_palindrome_refuted.

(* non-vacuity: a chain of two out of three modules, one left unused *)
Example C03_example :
  let v : dvec := TV [cA;cA;cA;cA] [cC;cC;cC;cC] [L cT true] in
  let ms : list dmod := [TM 0 [cG;cG;cA;cA] [cA;cA;cA;cA] [L cG true];
                         TM 1 [cT;cA;cT;cA] [cT;cA;cT;cA] [];
                         TM 2 [cC;cC;cC;cC] [cG;cG;cA;cA] [L cC true]] in
  NoDup (map mid ms) /\
  dna_assemble v ms = Product [L cC true; L cG true; L cT true] [2; 0] [1].
Proof. split; [repeat constructor; simpl; intuition discriminate | reflexivity]. Qed.
