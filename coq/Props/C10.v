(* C10 — literature citations survive assembly with consistent numbering.
   Statements only. `fs` is, per inherited feature of the product in product order,
   the list of references its source feature cited (obtained by dereferencing). *)
From MV Require Import Base Citations CitationLemmas.

(* every citation index of the product points, in the product's reference list, to the
   reference its source pointed to; that list holds each cited reference once, and
   nothing that no retained feature cites *)
Theorem C10_points : forall fs : list (list nat),
  let (R, idx) := ref_feats [] fs in
  NoDup R /\ Forall2 (Forall2 (points R)) fs idx /\ (forall x, In x R <-> In x (concat fs)).
Proof. exact product_refs_spec. Qed.
Print Assumptions C10_points.

(* ... in first-use order *)
Theorem C10_order : forall fs : list (list nat), fst (ref_feats [] fs) = dedup [] (concat fs).
Proof. intros fs. exact (product_refs_order fs []). Qed.
Print Assumptions C10_order.

(* dereferencing reads the source's own list: "[i]" is its (i-1)-th reference *)
Theorem C10_source : forall refs i r, 1 <= i -> py_get refs i = Some r -> nth_error refs (i - 1) = Some r.
Proof. intros refs [|k] r Hi H; [lia|]. simpl in *. now rewrite Nat.sub_0_r. Qed.
Print Assumptions C10_source.

(* the inputs' own citation indices are unchanged afterwards (C07) *)
Theorem C10_inputs : forall (s : list crec) (fuel : nat), inputs_after fuel s = s.
Proof. exact inputs_restored. Qed.
Print Assumptions C10_inputs.

(* non-vacuity: two inputs sharing reference 5; a dropped feature cites 8 *)
Example C10_example :
  let s := [CR [5; 6] [CF true [CIdx 2; CIdx 1]; CF false [CIdx 1]];
            CR [8; 5] [CF false [CIdx 1]; CF true [CIdx 2]]] in
  product_citations s = Some ([6; 5], [[1; 2]; [2]]).
Proof. vm_compute. reflexivity. Qed.
