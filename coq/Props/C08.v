(* C08 — annotations are inherited faithfully by the assembled plasmid. Statements only.
   A location is a list of parts (start, end, strand); `denote s loc` is what it denotes on
   sequence s (coordinates read modulo the length, part order, reverse strand complemented). *)
From MV Require Import Base RotLemmas Record RecordLemmas Annot AnnotLemmas.
Open Scope Z_scope.

(* one element: an input feature whose image under `record << a` lies inside the retained
   stretch [lo, hi) appears in the fragment with the same type, qualifiers and strands, and
   denotes there exactly the nucleotides it denoted in its source — for every input record,
   every rotation amount a, every feature shape *)
Theorem C08_fragment : forall is_vector a L j r f0,
  rseq r <> [] -> 0 <= L -> L <= zlen (rseq r) -> In f0 (rfeats r) -> keeps_loc (zlen (rseq r)) f0 = false ->
  let n := zlen (rseq r) in
  let f1 := rotl_feature a n f0 in
  let lo := frag_lo is_vector L in let hi := frag_hi is_vector L n in
  Forall (fun p => pstart p <= pend p) (floc f1) ->
  lo <= loc_start (floc f1) -> loc_end (floc f1) <= hi ->
  let g := shift_feature (- lo) f1 in
  In g (rfeats (fragment is_vector a L j r)) /\
  fsource g = fsource f0 /\ ftype g = ftype f0 /\ fquals g = fquals f0 /\
  map pstrand (floc g) = map pstrand (floc f0) /\
  denote (rseq (fragment is_vector a L j r)) (floc g) = denote (rseq r) (floc f0) /\
  loc_in 0 (zlen (rseq (fragment is_vector a L j r))) (floc g).
Proof. exact fragment_feature_image. Qed.
Print Assumptions C08_fragment.

(* conversely every feature of a fragment is the generated provenance feature or such an
   image of an input feature wholly inside [lo, hi): a feature that overlaps a discarded
   region has no image — dropped, never truncated or shifted *)
Theorem C08_fragment_converse : forall is_vector a L j r g,
  In g (rfeats (fragment is_vector a L j r)) ->
  g = source_feature j (zlen (rseq (fragment is_vector a L j r))) \/
  exists f0, In f0 (rfeats r) /\
    let f1 := rotl_feature a (zlen (rseq r)) f0 in
    frag_lo is_vector L <= loc_start (floc f1) /\ loc_end (floc f1) <= frag_hi is_vector L (zlen (rseq r)) /\
    g = shift_feature (- frag_lo is_vector L) f1.
Proof. exact fragment_feature_dropped. Qed.
Print Assumptions C08_fragment_converse.

(* the product: a feature of fragment j appears shifted by the fragment's offset and denotes
   in the product what it denoted in the fragment *)
Theorem C08_product : forall frs j fr f, nth_error frs j = Some fr -> In f (rfeats fr) ->
  loc_in 0 (zlen (rseq fr)) (floc f) ->
  In (shift_feature (offset frs j) f) (rfeats (product frs)) /\
  denote (rseq (product frs)) (floc (shift_feature (offset frs j) f)) = denote (rseq fr) (floc f).
Proof. exact product_feature_image. Qed.
Print Assumptions C08_product.

Theorem C08_product_converse : forall frs g, In g (rfeats (product frs)) ->
  exists j fr f, nth_error frs j = Some fr /\ In f (rfeats fr) /\ g = shift_feature (offset frs j) f.
Proof. exact product_feature_converse. Qed.
Print Assumptions C08_product_converse.

(* the rotation step alone (C13): same denotation, type, qualifiers, strands *)
Theorem C08_rotation : forall a r f, rseq r <> [] -> keeps_loc (zlen (rseq r)) f = false ->
  denote (rotl a (rseq r)) (floc (rotl_feature a (zlen (rseq r)) f)) = denote (rseq r) (floc f) /\
  fsource (rotl_feature a (zlen (rseq r)) f) = fsource f /\ ftype (rotl_feature a (zlen (rseq r)) f) = ftype f /\
  fquals (rotl_feature a (zlen (rseq r)) f) = fquals f /\
  map pstrand (floc (rotl_feature a (zlen (rseq r)) f)) = map pstrand (floc f).
Proof. exact rotl_feature_denote. Qed.
Print Assumptions C08_rotation.

(* non-vacuity: a 12-nt record, fragment = (record << 3)[:6]; a reverse-strand feature [4,8)
   inside it is inherited at [1,5), one crossing the end of the fragment is dropped *)
Example C08_example :
  let s := map (fun c => L c true) [cA;cC;cG;cT;cA;cA;cC;cC;cG;cG;cT;cT] in
  let f := F false 1 7 [P 4 8 Minus] in
  let g := F false 2 8 [P 7 11 Plus] in
  let r := R s [f; g] [] in
  rfeats (fragment false 3 6 0 r) = [F false 1 7 [P 1 5 Minus]; source_feature 0 6] /\
  denote (rseq (fragment false 3 6 0 r)) [P 1 5 Minus] = denote s [P 4 8 Minus].
Proof. vm_compute. split; reflexivity. Qed.
