(* C19 — parts of the same type are interchangeable. Statements only. *)
From MV Require Import Base Assembly AssemblyLemmas.

Notation dmod := (@tmod (list code)).
Notation dvec := (@tvec (list code)).

(* if an assembly succeeds, replacing the module in one argument position by any
   module with the same upstream and downstream overhang keys also succeeds, uses the
   same chain and leaves the same modules unused; the two products are
   pre ++ segment ++ post with the same pre and post: the vector backbone, every other
   module's segment and every junction are letter-for-letter the same *)
Theorem C19_swap : forall (v : dvec) ms1 (m m' : dmod) ms2 w used unused,
  NoDup (map mid (ms1 ++ m :: ms2)) ->
  mid m' = mid m -> mup m' = mup m -> mdown m' = mdown m ->
  dna_assemble v (ms1 ++ m :: ms2) = Product w used unused ->
  exists pre post,
    w = pre ++ (if in_dec Nat.eq_dec (mid m) used then mfrag m else []) ++ post /\
    dna_assemble v (ms1 ++ m' :: ms2) =
      Product (pre ++ (if in_dec Nat.eq_dec (mid m) used then mfrag m' else []) ++ post) used unused.
Proof. exact (assemble_swap codes_eqb rc_codes codes_eqb_spec). Qed.
Print Assumptions C19_swap.

(* more generally, any relabelling of fragments that keeps ids and overhang keys
   commutes with the assembly *)
Theorem C19_map : forall (f : dmod -> dmod),
  (forall x, mid (f x) = mid x) -> (forall x, mup (f x) = mup x) -> (forall x, mdown (f x) = mdown x) ->
  forall (v : dvec) ms w used unused,
  dna_assemble v ms = Product w used unused ->
  exists u r, Permutation.Permutation ms (u ++ r) /\
    w = concat (map mfrag u) ++ vfrag v /\ used = map mid u /\
    dna_assemble v (map f ms) = Product (concat (map mfrag (map f u)) ++ vfrag v) used unused.
Proof. exact (assemble_map_chain codes_eqb rc_codes codes_eqb_spec). Qed.
Print Assumptions C19_map.

(* non-vacuity: swapping the middle module of a three-module chain *)
Example C19_example :
  let v : dvec := TV [cA;cA] [cC;cA] [L cT true] in
  let m  : dmod := TM 1 [cG;cA] [cT;cT] [L cG true; L cA true] in
  let m' : dmod := TM 1 [cG;cA] [cT;cT] [L cG true; L cC true; L cC true] in
  let a  : dmod := TM 0 [cC;cA] [cG;cA] [L cC true] in
  let b  : dmod := TM 2 [cT;cT] [cA;cA] [L cT true] in
  dna_assemble v ([a] ++ m :: [b]) = Product [L cC true; L cG true; L cA true; L cT true; L cT true] [0;1;2] [] /\
  dna_assemble v ([a] ++ m' :: [b]) = Product [L cC true; L cG true; L cC true; L cC true; L cT true; L cT true] [0;1;2] [].
Proof. vm_compute. split; reflexivity. Qed.
