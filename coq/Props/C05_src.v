(* C05 over the definition regenerated from moclo/core/parts.py (Gen/Src.v). Statements only. *)
From MV Require Import Base Regex Typing Pipeline PartLemmas Py PyObj SrcEquivRegex SrcEquivTyping SrcEquivParts.
From MV.Gen Require Import Src.
Open Scope Z_scope.

(* AbstractPart.characterize, as translated from the source: candidates are the direct subclasses
   in __subclasses__() order, then the class itself when it is concrete; the result is an instance
   of the FIRST candidate that accepts the record, wrapping that record; RuntimeError is raised
   exactly when no candidate accepts it; nothing else is raised *)
Theorem C05_src_characterize : forall pc rec,
  is_CircularRecord rec = true -> Z.of_nat (List.length (pr_seq rec)) <= py_MAXSIZE ->
  match AbstractPart_characterize pc rec with
  | Ok e => characterize (map pcl_cls (candidates pc)) (pr_seq rec) = Some (ent_cls e) /\ ent_record e = rec
  | Err x => x = XRuntimeError /\ characterize (map pcl_cls (candidates pc)) (pr_seq rec) = None
  end.
Proof. exact AbstractPart_characterize_eq. Qed.
Print Assumptions C05_src_characterize.

(* non-vacuity: the translated code run on a base with two BsaI part types; the record carries the
   signature of the second *)
Example C05_src_example :
  let mk := map (fun x => L x true) in
  let e := E [cG;cG;cT;cC;cT;cC] 1 4 in
  let sig w := map (fun x => Atom [x]) w in
  let p1 := PCL (part_cls RModule e (sig [cA;cA;cT;cG]) (sig [cG;cC;cT;cT])) false [] in
  let p2 := PCL (part_cls RModule e (sig [cC;cT;cA;cT]) (sig [cA;cA;cT;cG])) false [] in
  let base := PCL (generic_cls RModule e) true [p1; p2] in
  let m := mk [cG;cG;cT;cC;cT;cC;cA; cC;cT;cA;cT; cC;cC; cA;cA;cT;cG; cT; cG;cA;cG;cA;cC;cC; cA;cT] in
  match AbstractPart_characterize base (PR KCircularRecord (rotr 4 m) 3 [] an_empty [] 0) with
  | Ok ent => ent_cls ent = pcl_cls p2
  | Err _ => False
  end.
Proof. vm_compute. reflexivity. Qed.
