(* C14 over the definition regenerated from moclo/record.py (Gen/Src.v). Statements only. *)
From MV Require Import Base Record RecordLemmas Py PyObj SrcEquivRegex SrcEquivRecord.
From MV.Gen Require Import Src.

(* CircularRecord.reverse_complement() with its default arguments, as translated from the source
   (delegation to SeqRecord.reverse_complement, then re-wrapping through the constructor): the
   result is again a CircularRecord, and its sequence, feature table and per-letter tracks are
   rc_record of the operand's — on which involution, opposite-strand denotation and commutation
   with rotation are proved (Props/C14.v) *)
Theorem C14_src_reverse_complement : forall r,
  exists r', CircularRecord_reverse_complement r false false false true false true false = Ok r'
    /\ pr_kind r' = KCircularRecord /\ to_record r' = rc_record (to_record r) /\ pr_id r' = pr_id r.
Proof. exact CircularRecord_reverse_complement_eq. Qed.
Print Assumptions C14_src_reverse_complement.
