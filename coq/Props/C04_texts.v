(* C04 / C05 — the texts of the kit classes read inside Coq. Statements only.

   Gen/Kits.v holds, for every concrete class of the working tree, the pattern its structure() text
   was tokenised into by harness/pattern.py AND the text itself (with the signature texts). Here
   the texts are read again by the tokenizer of SrcEquivStructure.v — the one the theorems about
   structure() as regenerated are stated with — and must give the same patterns: the Python
   tokenizer's output is thereby checked, class by class, on every run. *)
From MV Require Import Base Regex Typing Py PyObj KitLookup Glue SrcEquivStructure.
From MV.Gen Require Import Kits.
From Coq Require Import String.

Definition text_ok (p : string * (string * option (string * string))) : bool :=
  let '(n, (text, sig)) := p in
  match find (fun k => String.eqb (kname k) n) kits with
  | None => false
  | Some k =>
    option_eqb pattern_eqb (sch_tok (sch_of_string text)) (Some (cpat (kcls k)))
    && match sig, ksig k with
       | None, None => true
       | Some (u, d), Some (pu, pd) =>
         option_eqb pattern_eqb (sch_tok (sch_of_string u)) (Some pu)
         && option_eqb pattern_eqb (sch_tok (sch_of_string d)) (Some pd)
       | _, _ => false
       end
  end.

(* every class of the table has its text, and every text reads as the pattern of its class *)
Theorem C04_kits_texts : forallb text_ok kit_texts = true /\ List.length kit_texts = List.length kits.
Proof. vm_compute. split; reflexivity. Qed.
Print Assumptions C04_kits_texts.

(* structure() AS REGENERATED FROM THE SOURCE, run on every class of the table that derives its
   structure (AbstractModule / AbstractVector / AbstractPart's own method): it returns, character
   for character, the text the implementation returned for that class *)
From MV.Gen Require Import Src.

Definition sch_list_eqb (a b : pystr) : bool := list_eqb sch_eqb a b.

Definition derived_ok (p : string * (string * option (string * string))) : bool :=
  let '(n, (text, sig)) := p in
  match find (fun k => String.eqb (kname k) n) kits with
  | None => false
  | Some k =>
    if kderived k then
      match sig with
      | Some (u, d) =>
        match AbstractPart_structure (PCS (crole (kcls k)) (cenz (kcls k)) (sch_of_string u, sch_of_string d)) with
        | Ok t => sch_list_eqb t (sch_of_string text)
        | Err _ => false
        end
      | None =>
        match (match crole (kcls k) with RModule => AbstractModule_structure (kcls k) | RVector => AbstractVector_structure (kcls k) end) with
        | Ok t => sch_list_eqb t (sch_of_string text)
        | Err _ => false
        end
      end
    else true
  end.

Theorem C05_kits_src_structures : forallb derived_ok kit_texts = true.
Proof. vm_compute. reflexivity. Qed.
Print Assumptions C05_kits_src_structures.
