(* C02 — a plasmid has no origin: typing and assembly are rotation-invariant.
   Statements only. *)
From MV Require Import Base RotLemmas Regex RegexLemmas Typing TypingLemmas Assembly Pipeline PipelineLemmas.

(* for EVERY pattern (not only the kit structures), every circular record in which exactly
   one start position admits a match of the pattern within one turn, and every integer k:
   validity, both overhangs, target and placeholder are the same for the rotated record.
   (The hypothesis is weaker than "exactly one occurrence": several ends at the same start
   are resolved identically by the greedy/lazy priorities.) *)
Theorem C02_typing : forall (c : cls) (s : list letter) (i0 : nat) (k : Z),
  unique_start (cpat c) s i0 -> observe c (rotr k s) = observe c s.
Proof. exact observe_rot. Qed.
Print Assumptions C02_typing.

(* the unique start moves with the rotation *)
Theorem C02_start_moves : forall items s i0 k, unique_start items s i0 ->
  unique_start items (rotr k s) (rot_index (length s) i0 k).
Proof. exact unique_start_rot. Qed.
Print Assumptions C02_start_moves.

(* what is reported is read off the one-turn window at the leftmost matching start *)
Theorem C02_window : forall c s m, search (cpat c) s true 0 (length s) = Some m ->
  observe c s = observe c (window s (mstart m)).
Proof. exact observe_at_start. Qed.
Print Assumptions C02_window.

(* the outcome of an assembly (error class, stalled overhang, unused modules, and the
   product WORD, not merely up to rotation) is the same for all rotations of all inputs *)
Theorem C02_assembly : forall vc v kv ms ms',
  uniquely_typed (vc, v) -> Forall uniquely_typed ms -> Forall2 rotated ms ms' ->
  assemble_raw vc (rotr kv v) ms' = assemble_raw vc v ms.
Proof. exact assemble_raw_rot. Qed.
Print Assumptions C02_assembly.

(* non-vacuity: a BsaI module; the rotation by 3 puts the origin inside the recognition site *)
Example C02_example :
  let e := E [cG;cG;cT;cC;cT;cC] 1 4 in
  let c := generic_cls RModule e in
  let s := map (fun x => L x true)
     [cG;cG;cT;cC;cT;cC;cA; cA;cA;cT;cG; cC;cC;cC; cG;cC;cT;cT; cT;cG;cA;cG;cA;cC;cC; cA;cT] in
  (forall j, j < length s -> matches_at (cpat c) s true j = true -> j = 0) /\
  matches_at (cpat c) s true 0 = true /\
  observe c (rotr 3 s) = observe c s /\ fst (fst (fst (fst (observe c s)))) = true.
Proof.
  cbv zeta. split; [|vm_compute; repeat split].
  intros j Hj. do 27 (destruct j as [|j]; [vm_compute; intros H; (reflexivity || discriminate H)|]).
  cbn in Hj. lia.
Qed.
