(* C11 — products of one level are valid modules of the next level. Statements only. *)
From MV Require Import Base RotLemmas Regex RegexLemmas Shape ShapeLemmas Typing TypingLemmas ShapeTyping
                       PartLemmas Anchors Canonical StrandLemmas NextLevel.
Local Open Scope nat_scope.

(* for every vector class of the common shape whose structure embeds the next level's
   recognition site k >= off' wildcard letters before group 1 and its reverse complement k'
   wildcard letters after group 3 (static check `embeds`), every vector it accepts, every
   insert word INS of wildcard-matching letters (the concatenated module fragments) of at least
   ovh' + 2 letters: if the product INS . vector-target carries the next-level site and its
   reverse complement once each, then at EVERY rotation the generic next-level module class
   accepts the product, and the target it reports contains the whole insert *)
Theorem C11_valid : forall (c : cls) (sh : shape) (e' : enzyme) (k k' : nat) (v INS : list letter) (j : Z),
  cpat c = shape_pat sh -> crole c = RVector ->
  embeds (esite e') (rc_codes (esite e')) (eoff e') (eovh e') k k' sh = true ->
  0 < length (esite e') ->
  is_valid c v true = true ->
  Forall nucl INS -> eovh e' + 2 <= length INS ->
  forall vt, target c v true = Some vt ->
  let P := INS ++ vt in
  occurs_once (esite e') P -> occurs_once (rc_codes (esite e')) P ->
  exists O5 O3 T lead trail,
    observe (C RModule e' (module_structure e')) (rotr j P) = (true, Some O5, Some O3, Some (O5 ++ T), Some (O5 ++ T)) /\
    O5 ++ T = lead ++ INS ++ trail.
Proof. exact next_level_valid. Qed.
Print Assumptions C11_valid.

(* hence the product can itself be assembled at the next level: it is a module of the formal
   definition for the next-level enzyme (C01_module applies to it) *)
Theorem C11_again : forall e (S X O5 : list letter) t0 tmid tl (O3 Y R B : list letter) k,
  map lcode S = esite e -> map lcode R = rc_codes (esite e) -> 0 < length (esite e) ->
  length X = eoff e -> length Y = eoff e -> length O5 = eovh e -> length O3 = eovh e ->
  Forall nucl X -> Forall nucl Y -> Forall nucl O5 -> Forall nucl O3 -> nucl t0 -> Forall nucl tmid -> nucl tl ->
  let T := t0 :: tmid ++ [tl] in
  let s0 := S ++ X ++ O5 ++ T ++ O3 ++ Y ++ R ++ B in
  occurs_once (esite e) s0 -> occurs_once (rc_codes (esite e)) s0 ->
  observe (C RModule e (module_structure e)) (rotr k s0) = (true, Some O5, Some O3, Some (O5 ++ T), Some (O5 ++ T)).
Proof. intros. now apply strand_module. Qed.
Print Assumptions C11_again.

(* non-vacuity: the CIDAR entry vector structure (BpiI placeholder inside BsaI sites), a 6-nt
   insert: the product is a valid BsaI entry whose target contains the insert *)
Example C11_example :
  let bpii := E [cG;cA;cA;cG;cA;cC] 2 4 in
  let bsai := E [cG;cG;cT;cC;cT;cC] 1 4 in
  let mk := map (fun x => L x true) in
  let n4 := [setN; setN; setN; setN] in
  let sh := SH (map single [cG;cG;cT;cC;cT;cC] ++ [setN]) n4
               ([setN; setN] ++ map single [cG;cT;cC;cT;cT;cC]) false setN
               (map single [cG;cA;cA;cG;cA;cC] ++ [setN; setN]) n4
               ([setN] ++ map single [cG;cA;cG;cA;cC;cC]) in
  let c := C RVector bpii (shape_pat sh) in
  let v := mk ([cG;cG;cT;cC;cT;cC;cA] ++ [cA;cT;cG;cC] ++ [cT;cT;cG;cT;cC;cT;cT;cC] ++ [cA;cA] ++ [cG;cA;cA;cG;cA;cC;cT;cT]
               ++ [cC;cG;cT;cA] ++ [cT;cG;cA;cG;cA;cC;cC] ++ [cA;cA;cT]) in
  let INS := mk [cA;cT;cG;cC;cA;cA] in
  embeds (esite bsai) (rc_codes (esite bsai)) 1 4 1 1 sh = true /\
  is_valid c v true = true /\
  exists vt, target c v true = Some vt /\
    fst (fst (fst (fst (observe (C RModule bsai (module_structure bsai)) (INS ++ vt))))) = true.
Proof. cbv zeta. split; [vm_compute; reflexivity|]. split; [vm_compute; reflexivity|]. eexists. split; vm_compute; reflexivity. Qed.
