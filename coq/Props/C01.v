(* C01 — assembly yields exactly the Golden Gate ligation product. Statements only.
   Letters carry their case; `nucl l` says l is one of A C G T N (either case), which is what
   the N wildcard of a structure accepts; `occurs_once w s`: the word w occurs (case-blind,
   circularly) at one position of the circle s only.  An enzyme is ANY (site, off, ovh): any
   recognition word, any cut offset, any overhang length. *)
From MV Require Import Base RotLemmas Regex RegexLemmas Shape ShapeLemmas Typing TypingLemmas TotalLemmas
                       ShapeTyping PartLemmas Anchors Canonical StrandLemmas Assembly AssemblyLemmas Pipeline PipelineLemmas ProductLemmas EndToEnd.
Local Open Scope nat_scope.

(* the module of the formal definition: site . x . o5 . t . o3 . y . rc(site) . backbone with
   |t| >= 2 and the two sites once each on the circle is accepted at EVERY rotation k (origin
   inside the site, the overhang, the target, anywhere) and reports exactly o5, o3 and o5 . t;
   u, d are the signature atoms (N^ovh for the generic class) *)
Theorem C01_module : forall e u d (S X O5 : list letter) t0 tmid tl (O3 Y R B : list letter) k,
  map lcode S = esite e -> map lcode R = rc_codes (esite e) -> 0 < length (esite e) ->
  length X = eoff e -> length Y = eoff e -> length u = eovh e -> length d = eovh e ->
  Forall nucl X -> Forall nucl Y -> nucl t0 -> Forall nucl tmid -> nucl tl ->
  atoms_ok u O5 -> atoms_ok d O3 ->
  let T := t0 :: tmid ++ [tl] in
  let s0 := S ++ X ++ O5 ++ T ++ O3 ++ Y ++ R ++ B in
  occurs_once (esite e) s0 -> occurs_once (rc_codes (esite e)) s0 ->
  observe (C RModule e (module_structure_sig e (atoms u) (atoms d))) (rotr k s0) =
    (true, Some O5, Some O3, Some (O5 ++ T), Some (O5 ++ T)).
Proof. exact canonical_module. Qed.
Print Assumptions C01_module.

(* the vector of the formal definition, written from the last backbone letter:
   [b_last] . o_dn . y . rc(site) . placeholder . site . x . o_up . [b_first] . b_mid *)
Theorem C01_vector : forall e g1 g3 bl (Odn Y R P S X Oup : list letter) bf (Bmid : list letter) k,
  map lcode S = esite e -> map lcode R = rc_codes (esite e) -> 0 < length (esite e) ->
  length X = eoff e -> length Y = eoff e -> length g1 = eovh e -> length g3 = eovh e ->
  Forall nucl X -> Forall nucl Y -> Forall nucl P -> nucl bl -> nucl bf ->
  atoms_ok g1 Odn -> atoms_ok g3 Oup ->
  let s0 := [bl] ++ Odn ++ Y ++ R ++ P ++ S ++ X ++ Oup ++ [bf] ++ Bmid in
  occurs_once (esite e) s0 -> occurs_once (rc_codes (esite e)) s0 ->
  observe (C RVector e (vector_structure_sig e (atoms g1) (atoms g3))) (rotr k s0) =
    (true, Some Oup, Some Odn, Some (Oup ++ [bf] ++ Bmid ++ [bl]), Some (Odn ++ Y ++ R ++ P ++ S ++ X)).
Proof. exact canonical_vector. Qed.
Print Assumptions C01_vector.

(* the general lemma behind both: any class whose structure has the common shape and is framed
   by its cutter's site, on any circle that decomposes along the shape and carries the two sites once *)
Theorem C01_canonical : forall c sh s0 pc0 rest k,
  cpat c = shape_pat sh ->
  frames (esite (cenz c)) (rc_codes (esite (cenz c))) (eoff (cenz c)) (eovh (cenz c)) sh = true ->
  0 < length (esite (cenz c)) ->
  s0 = pieces_text pc0 ++ rest -> s0 <> [] -> pieces_ok sh pc0 ->
  occurs_once (esite (cenz c)) s0 -> occurs_once (rc_codes (esite (cenz c))) s0 ->
  observe c (rotr k s0) = canonical_report (crole c) pc0 rest.
Proof. exact canonical_accept. Qed.
Print Assumptions C01_canonical.

(* whenever the overhang graph closes (the vector's overhangs differ, no two modules share or
   reverse-complement a start overhang, the chain from the vector's downstream overhang reaches
   its upstream overhang) the product is the chain's word: each module's fragment (upstream
   overhang + target) in chain order, then the vector's (upstream overhang + backbone); every
   junction overhang appears once; nothing else contributes *)
Theorem C01_product : forall (v : @tvec (list code)) ms c r,
  NoDup (map mid ms) -> vup v <> vdown v -> clash_free rc_codes ms ->
  Chain ms (vdown v) (vup v) c r ->
  dna_assemble v ms = Product (concat (map mfrag c) ++ vfrag v) (map mid c) (map mid r).
Proof. exact (assemble_chain codes_eqb rc_codes codes_eqb_spec). Qed.
Print Assumptions C01_product.

(* the documented formula. Modules and vector given by what they report (overhangs, body):
   if the modules chain from the vector's downstream overhang to its upstream overhang and the
   overhang set is clash-free, the product is   o5_1 . t_1 . o5_2 . t_2 ... o5_q . t_q . up . backbone
   — a rotation of "backbone with its upstream overhang, then each module's upstream overhang and
   target in chain order", every junction overhang once — whatever the order of the arguments *)
Theorem C01_formula : forall (v : svec) (cs ms : list smod),
  Permutation.Permutation ms cs -> NoDup (map sid ms) ->
  path (okey (sdn v)) (map keys_of cs) (okey (sup v)) ->
  okey (sup v) <> okey (sdn v) ->
  Forall (fun m => okey (so5 m) <> okey (sup v)) cs ->
  Forall (fun m => okey (so3 m) <> okey (sdn v)) cs ->
  clash_free rc_codes (map tmod_of ms) -> clash_free rc_codes (map tmod_of (map rc_smod ms)) ->
  dna_assemble (tvec_of v) (map tmod_of ms) =
    Product (concat (map frag cs) ++ (sup v ++ svbody v)) (map sid cs) [].
Proof. intros v cs ms H1 H2 H3 H4 H5 H6 H7 H8. exact (proj1 (strand_assembly v cs ms H1 H2 H3 H4 H5 H6 H7 H8)). Qed.
Print Assumptions C01_formula.

(* from raw records: the product word is the used modules' target fragments in chain order
   followed by the vector's target fragment, and its length is the sum of their lengths *)
Theorem C01_word : forall vc v ms w used unused,
  assemble_raw vc v ms = Product w used unused ->
  exists (chain : list (@tmod (list code))) vt, target vc v true = Some vt /\ w = concat (map mfrag chain) ++ vt /\
    used = map mid chain /\ NoDup used /\
    (forall t, In t chain -> exists c s, In (c, s) ms /\ target c s true = Some (mfrag t)) /\
    length w = list_sum (map (fun t => length (mfrag t)) chain) + length vt.
Proof. exact assemble_raw_word. Qed.
Print Assumptions C01_word.

(* for all rotations of every plasmid (C02) and all argument orders (C03) the outcome is the same *)
Theorem C01_rotations : forall vc v kv ms ms',
  uniquely_typed (vc, v) -> Forall uniquely_typed ms -> Forall2 rotated ms ms' ->
  assemble_raw vc (rotr kv v) ms' = assemble_raw vc v ms.
Proof. exact assemble_raw_rot. Qed.
Print Assumptions C01_rotations.

(* the "two sites" hypothesis implies the uniqueness hypothesis of C01_rotations for every framed class *)
Theorem C01_two_sites_unique : forall (site rsite : list code) (off ovh : nat) sh s,
  frames site rsite off ovh sh = true -> 0 < length site -> 0 < length rsite ->
  occurs_once site s -> occurs_once rsite s -> unique_occ (shape_pat sh) s.
Proof. exact framed_unique_occ. Qed.
Print Assumptions C01_two_sites_unique.

(* END TO END, from the raw plasmids to the documented formula. For ANY enzyme e (any site word,
   cut offset, overhang length), a vector plasmid v and ANY number of module plasmids of the
   formal definition (EndToEnd.mplasmid_ok / vplasmid_ok: site . x . o5 . t . o3 . y . rc(site) .
   backbone with |t| >= 2, resp. the vector layout with a backbone of >= 2 letters, spacers and
   overhangs of the enzyme's lengths, the site and its reverse complement once each on the circle),
   every plasmid read from ANY origin (rotr k), the modules given in ANY order: if in some order cs
   their overhangs chain from the vector's downstream overhang to its upstream overhang (path), no
   module starts with the vector's upstream overhang, and the start overhangs are clash-free,
   vector.assemble(modules) as modelled from the raw sequences returns exactly
       o5_1 . t_1 . o5_2 . t_2 ... o5_q . t_q . o_up . backbone
   (each junction overhang once, no site, no spacer, no module backbone, no placeholder), uses every
   module and leaves none unused. *)
Theorem C01_end_to_end : forall e v kv (l : list (mplasmid * Z)) (cs : list smod),
  0 < length (esite e) -> vplasmid_ok e v -> Forall (mplasmid_ok e) (map fst l) ->
  let ms := number 0 (map fst l) in
  Permutation.Permutation ms cs ->
  path (okey (qOdn v)) (map keys_of cs) (okey (qOup v)) ->
  okey (qOup v) <> okey (qOdn v) ->
  Forall (fun m => okey (so5 m) <> okey (qOup v)) cs ->
  clash_free rc_codes (map tmod_of ms) ->
  assemble_raw (generic_cls RVector e) (rotr kv (vword v)) (map (marg e) l) =
    Product (concat (map frag cs) ++ (qOup v ++ vbackbone v)) (map sid cs) [].
Proof. exact end_to_end. Qed.
Print Assumptions C01_end_to_end.

(* its hypotheses are satisfiable: a BsaI vector and two modules, the vector read from origin 7,
   the modules given in the order (second, first) and read from origins 5 and -3; the theorem
   applies and gives the product CTATCC.AATGACA.GCTT.CCAA with both modules used *)
Example C01_end_to_end_example :
  let mk := map (fun x => L x true) in
  let e := E [cG;cG;cT;cC;cT;cC] 1 4 in
  let S := mk [cG;cG;cT;cC;cT;cC] in let R := mk [cG;cA;cG;cA;cC;cC] in
  let m1 := MP S (mk [cA]) (mk [cC;cT;cA;cT]) (L cC true) [] (L cC true) (mk [cA;cA;cT;cG]) (mk [cT]) R (mk [cA;cT]) in
  let m2 := MP S (mk [cA]) (mk [cA;cA;cT;cG]) (L cA true) (mk [cC]) (L cA true) (mk [cG;cC;cT;cT]) (mk [cT]) R (mk [cT;cA]) in
  let v := VP (L cA true) (mk [cC;cT;cA;cT]) (mk [cT]) R (mk [cT;cT;cT;cT]) S (mk [cA]) (mk [cG;cC;cT;cT]) (L cC true) (mk [cC;cA]) in
  let l := [(m2, 5%Z); (m1, (-3)%Z)] in
  let cs := [smod_of 1 m1; smod_of 0 m2] in
  assemble_raw (generic_cls RVector e) (rotr 7 (vword v)) (map (marg e) l) =
    Product (mk [cC;cT;cA;cT;cC;cC; cA;cA;cT;cG;cA;cC;cA; cG;cC;cT;cT; cC;cC;cA;cA]) [1; 0] [].
Proof.
  intros mk e S R m1 m2 v l cs.
  assert (H := C01_end_to_end e v 7 l cs).
  cbv zeta in H. rewrite H; [reflexivity|..].
  - cbn; lia.
  - apply vplasmid_okb_sound. vm_compute. reflexivity.
  - repeat constructor; apply mplasmid_okb_sound; vm_compute; reflexivity.
  - cbn. apply Permutation.perm_swap.
  - cbn. repeat split; reflexivity.
  - cbn. discriminate.
  - repeat constructor; cbn; discriminate.
  - apply clash_freeb_sound. vm_compute. reflexivity.
Qed.

(* the same instance evaluated: the model computes what the theorem says *)
Example C01_end_to_end_computed :
  let mk := map (fun x => L x true) in
  let e := E [cG;cG;cT;cC;cT;cC] 1 4 in
  let S := mk [cG;cG;cT;cC;cT;cC] in let R := mk [cG;cA;cG;cA;cC;cC] in
  let m1 := MP S (mk [cA]) (mk [cC;cT;cA;cT]) (L cC true) [] (L cC true) (mk [cA;cA;cT;cG]) (mk [cT]) R (mk [cA;cT]) in
  let m2 := MP S (mk [cA]) (mk [cA;cA;cT;cG]) (L cA true) (mk [cC]) (L cA true) (mk [cG;cC;cT;cT]) (mk [cT]) R (mk [cT;cA]) in
  let v := VP (L cA true) (mk [cC;cT;cA;cT]) (mk [cT]) R (mk [cT;cT;cT;cT]) S (mk [cA]) (mk [cG;cC;cT;cT]) (L cC true) (mk [cC;cA]) in
  assemble_raw (generic_cls RVector e) (rotr 7 (vword v)) (map (marg e) [(m2, 5%Z); (m1, (-3)%Z)]) =
    Product (mk [cC;cT;cA;cT;cC;cC; cA;cA;cT;cG;cA;cC;cA; cG;cC;cT;cT; cC;cC;cA;cA]) [1; 0] [].
Proof. vm_compute. reflexivity. Qed.

(* non-vacuity and sharpness: a BsaI module with a 2-nt target is accepted at rotation 3 and
   reports what CML says; with a 1-nt target it is rejected *)
Example C01_example :
  let e := E [cG;cG;cT;cC;cT;cC] 1 4 in
  let c := C RModule e (module_structure e) in
  let mk := map (fun x => L x true) in
  let s2 := mk [cG;cG;cT;cC;cT;cC;cA; cA;cA;cT;cG; cC;cC; cG;cC;cT;cT; cT;cG;cA;cG;cA;cC;cC; cA;cT] in
  let s1 := mk [cG;cG;cT;cC;cT;cC;cA; cA;cA;cT;cG; cC; cG;cC;cT;cT; cT;cG;cA;cG;cA;cC;cC; cA;cT] in
  observe c (rotr 3 s2) = (true, Some (mk [cA;cA;cT;cG]), Some (mk [cG;cC;cT;cT]),
                           Some (mk [cA;cA;cT;cG;cC;cC]), Some (mk [cA;cA;cT;cG;cC;cC])) /\
  is_valid c s1 true = false.
Proof. vm_compute. split; reflexivity. Qed.
