(* C16 — DNA pattern search has exact IUPAC, circular and group-extraction semantics.
   Statements only. *)
From MV Require Import Base Regex RegexLemmas.
From MV.Gen Require Import Lettermap.

(* the IUPAC table, written here independently of the code *)
Definition iupac (p x : code) : bool :=
  match p, x with
  | cA,cA | cC,cC | cG,cG | cT,cT => true
  | cR,(cA|cG) | cY,(cC|cT) | cS,(cC|cG) | cW,(cA|cT) | cK,(cG|cT) | cM,(cA|cC) => true
  | cB,(cC|cG|cT) | cD,(cA|cG|cT) | cH,(cA|cC|cT) | cV,(cA|cC|cG) => true
  | cN,(cA|cC|cG|cT) => true
  | _, _ => false
  end.

Definition all_codes := [cA;cC;cG;cT;cR;cY;cS;cW;cK;cM;cB;cD;cH;cV;cN].
Definition nucleotides := [cA;cC;cG;cT].

(* what one pattern letter matches after DNARegex._transcribe: its _lettermap
   entry (regenerated from regex.py on every run) or the letter itself *)
Fixpoint assoc_code (p : code) (m : list (code * cset)) : option cset :=
  match m with
  | [] => None
  | (k, v) :: r => if code_eqb k p then Some v else assoc_code p r
  end.
Definition class_of (p : code) : cset :=
  match assoc_code p lettermap with Some v => v | None => [p] end.

Definition letters_check : bool :=
  lettermap_ok && flags_case_insensitive &&
  forallb (fun p => forallb (fun x => Bool.eqb (cmatch (class_of p) x) (iupac p x)) nucleotides) all_codes.

Lemma letters_check_true : letters_check = true.
Proof. vm_compute. reflexivity. Qed.

Lemma letters_spec : forall p x, In p all_codes -> In x nucleotides ->
  cmatch (class_of p) x = iupac p x.
Proof.
  intros p x Hp Hx. pose proof letters_check_true as H. unfold letters_check in H.
  apply andb_prop in H. destruct H as [_ H].
  rewrite forallb_forall in H. specialize (H p Hp).
  rewrite forallb_forall in H. specialize (H x Hx).
  now apply Bool.eqb_prop in H.
Qed.

(* 15 pattern letters x 4 nucleotides: exactly the IUPAC set (finite, by reflection
   over the table regenerated from regex.py); letter case never matters because
   the matcher reads only the code of a target letter *)
Theorem C16_letters : forall p x, In p all_codes -> In x nucleotides ->
  cmatch (class_of p) x = iupac p x.
Proof. exact letters_spec. Qed.
Print Assumptions C16_letters.

Theorem C16_case_flag : flags_case_insensitive = true.
Proof. exact (eq_refl true). Qed.
Print Assumptions C16_case_flag.

Theorem C16_case_blind : forall items w1 w2 av pos g st cs,
  map lcode w1 = map lcode w2 ->
  bt items w1 av pos g st cs = bt items w2 av pos g st cs.
Proof. exact bt_codes_only. Qed.
Print Assumptions C16_case_blind.

(* a match reported by the matcher is a match of the declarative semantics, of at
   most `avail` letters *)
Theorem C16_sound : forall items w av pos g st cs e cs',
  bt items w av pos g st cs = Some (e, cs') ->
  exists ls, pos <= e /\ e - pos <= av /\ e - pos <= length w /\ dm items (firstn (e - pos) w) ls.
Proof. exact bt_sound. Qed.
Print Assumptions C16_sound.

(* ... and whenever some prefix has a declarative match the matcher finds one *)
Theorem C16_complete : forall items txt ls, dm items txt ls ->
  forall w av pos g st cs, (exists u, txt ++ u = w) -> length txt <= av ->
  closes_ok items (length st) = true ->
  exists z, bt items w av pos g st cs = Some z.
Proof. exact bt_complete. Qed.
Print Assumptions C16_complete.

(* the search returns the leftmost start of the requested range that matches *)
Theorem C16_leftmost : forall items s circ pos endpos m,
  search items s circ pos endpos = Some m ->
  pos <= mstart m < Nat.min (length s) endpos /\
  match_here items (skipn (mstart m) (data_of s circ)) (length s) (mstart m)
    = Some (mend m, mgroups m) /\
  forall j, pos <= j < mstart m -> matches_at items s circ j = false.
Proof. exact search_leftmost. Qed.
Print Assumptions C16_leftmost.

Theorem C16_none : forall items s circ pos endpos,
  search items s circ pos endpos = None ->
  forall j, pos <= j < Nat.min (length s) endpos -> matches_at items s circ j = false.
Proof. exact search_none. Qed.
Print Assumptions C16_none.

Theorem C16_finds : forall items s circ pos endpos j,
  pos <= j < Nat.min (length s) endpos -> matches_at items s circ j = true ->
  exists m, search items s circ pos endpos = Some m /\ mstart m <= j.
Proof. exact search_finds. Qed.
Print Assumptions C16_finds.

(* never more than one full turn; on a linear target never past the end;
   every group lies inside the match *)
Theorem C16_window : forall items s circ pos endpos m,
  search items s circ pos endpos = Some m ->
  mstart m <= mend m /\ mend m - mstart m <= length s /\
  (circ = false -> mend m <= length s) /\
  Forall (span_ok (mstart m) (mend m)) (mgroups m).
Proof. exact search_window. Qed.
Print Assumptions C16_window.

(* every group, asked for as a sequence, is the text its span covers — also when
   it straddles the origin or lies wholly past the end *)
Theorem C16_group : forall items s circ pos endpos m g a b,
  search items s circ pos endpos = Some m ->
  span m g = Some (a, b) ->
  a <= b /\ mstart m <= a /\ b <= mend m /\
  group m s g = Some (slice (data_of s circ) a b).
Proof. exact search_group_text. Qed.
Print Assumptions C16_group.

(* sensitivity (F1): with the pinned order of concatenation the group is another word *)
Theorem C16_group_pinned_refuted :
  exists s sp, group_of_span_pinned s sp <> slice (s ++ s) (fst sp) (snd sp).
Proof. exact group_of_span_pinned_differs. Qed.
Print Assumptions C16_group_pinned_refuted.

(* non-vacuity: AA(NNNN) on CATAGCAAG searched circularly; group 1 straddles the end *)
Example C16_example :
  let s := [L cC true; L cA true; L cT true; L cA true; L cG true; L cC true; L cA true; L cA true; L cG true] in
  let p := [Atom [cA]; Atom [cA]; Open; Atom (class_of cN); Atom (class_of cN); Atom (class_of cN); Atom (class_of cN); Close] in
  exists m, search p s true 0 (length s) = Some m /\ mstart m = 6 /\ mend m = 12 /\
            group m s 1 = Some [L cG true; L cC true; L cA true; L cT true].
Proof. eexists. vm_compute. repeat split. Qed.
