(* C13 over the definitions regenerated from moclo/record.py (Gen/Src.v). Statements only. *)
From MV Require Import Base RotLemmas Record RecordLemmas Py PyObj SrcEquivRegex SrcEquivRecord.
From MV.Gen Require Import Src.
From Coq Require Import String.
Open Scope Z_scope.

(* CircularRecord.__rshift__, as translated from the source, rotates sequence, every feature
   (whole-length single-part source kept, every other location shifted part by part and
   wrapped) and every per-letter track exactly as rot_record does, for every k in Z; ids and
   annotations are carried over, the result is again a CircularRecord *)
Theorem C13_src_rshift : forall f rec k,
  pr_seq rec <> [] -> well_tracked rec ->
  exists r', CircularRecord_rshift (S f) rec k = Ok r'
    /\ to_record r' = rot_record k (to_record rec)
    /\ pr_id r' = pr_id rec /\ pr_annotations r' = pr_annotations rec
    /\ (pr_kind rec = KCircularRecord -> pr_kind r' = KCircularRecord).
Proof. exact CircularRecord_rshift_eq. Qed.
Print Assumptions C13_src_rshift.

Theorem C13_src_lshift : forall f rec k,
  pr_seq rec <> [] -> well_tracked rec ->
  exists r', CircularRecord_lshift (S (S f)) rec k = Ok r'
    /\ to_record r' = rotl_record k (to_record rec)
    /\ pr_id r' = pr_id rec /\ pr_annotations r' = pr_annotations rec
    /\ (pr_kind rec = KCircularRecord -> pr_kind r' = KCircularRecord).
Proof. exact CircularRecord_lshift_eq. Qed.
Print Assumptions C13_src_lshift.

(* non-vacuity: the translated code run on a 4-letter record with a compound feature and a
   track, rotated by 6 (= 2 mod 4) *)
Example C13_src_example :
  let mk := map (fun x => L x true) in
  let rec := PR KCircularRecord (mk [cA;cC;cG;cT]) 7
                [F false 1 5 [P 1 2 Plus; P 3 4 Plus]] (AN (Some "circular"%string) None []) [[10; 11; 12; 13]] 0 in
  match CircularRecord_rshift 2 rec 6 with
  | Ok r => to_record r = rot_record 6 (to_record rec) /\ pr_seq r = mk [cG;cT;cA;cC]
            /\ pr_letter_annotations r = [[12; 13; 10; 11]]
            /\ pr_features r = [F false 1 5 [P 3 4 Plus; P 1 2 Plus]]
  | Err _ => False
  end.
Proof. vm_compute. repeat split. Qed.
