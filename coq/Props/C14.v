(* C14 — reverse complement of a circular record stays circular and loses nothing.
   Statements only. *)
From MV Require Import Base RotLemmas Record RecordLemmas.
From Coq Require Import Permutation.
Open Scope Z_scope.

Theorem C14_seq : forall r, rseq (rc_record r) = rc (rseq r).
Proof. exact rc_record_seq. Qed.
Print Assumptions C14_seq.

Theorem C14_involutive : forall s, rc (rc s) = s.
Proof. exact rc_involutive. Qed.
Print Assumptions C14_involutive.

(* twice: the original sequence and (up to the order chosen by the sort) the
   original feature table *)
Theorem C14_twice : forall r,
  rseq (rc_record (rc_record r)) = rseq r /\
  Permutation (rfeats (rc_record (rc_record r))) (rfeats r).
Proof. exact rc_record_twice. Qed.
Print Assumptions C14_twice.

(* nothing is lost or invented: the table is the table of flipped features *)
Theorem C14_features : forall r,
  Permutation (rfeats (rc_record r)) (map (flip_feature (zlen (rseq r))) (rfeats r)).
Proof. exact rc_record_feats_perm. Qed.
Print Assumptions C14_features.

(* every part lands on the opposite strand ... *)
Theorem C14_strand : forall n p, pstrand (flip_part n p) = flip_strand (pstrand p).
Proof. exact flip_part_strand. Qed.
Print Assumptions C14_strand.

(* ... covers the mirror images of the positions it covered (any coordinates,
   including extended and negative-start ones, read modulo n) ... *)
Theorem C14_covers : forall n p, 0 < n ->
  covers_part n (flip_part n p) = rev (map (fun c => n - 1 - c) (covers_part n p)).
Proof. exact covers_flip_part. Qed.
Print Assumptions C14_covers.

(* ... and denotes the reverse complement of what it denoted: read along its own,
   now opposite, strand a stranded part yields the same word; an unstranded part
   covers the reverse complement *)
Theorem C14_denote_part : forall s p, s <> [] ->
  denote_part (rc s) (flip_part (zlen s) p) =
  match pstrand p with NoStrand => rc (denote_part s p) | _ => denote_part s p end.
Proof. exact flip_part_denote. Qed.
Print Assumptions C14_denote_part.

Theorem C14_denote_loc : forall s l sg, s <> [] -> sg <> NoStrand ->
  Forall (fun p => pstrand p = sg) l ->
  denote (rc s) (flip_loc (zlen s) l) = denote s l.
Proof. exact flip_loc_denote_stranded. Qed.
Print Assumptions C14_denote_loc.

Theorem C14_flip_flip : forall n l, flip_loc n (flip_loc n l) = l.
Proof. exact flip_loc_involutive. Qed.
Print Assumptions C14_flip_flip.

(* reverse-complementing commutes with rotation *)
Theorem C14_rc_rot : forall k s, rc (rotr k s) = rotl k (rc s).
Proof. exact rc_rotr. Qed.
Print Assumptions C14_rc_rot.

Theorem C14_flip_rot_covers : forall n idx p, 0 < n ->
  covers_part n (flip_part n (rot_part idx n p)) =
  covers_part n (rot_part (- idx) n (flip_part n p)).
Proof. exact flip_rot_covers. Qed.
Print Assumptions C14_flip_rot_covers.

(* non-vacuity: an extended (past-the-end) reverse-strand location *)
Example C14_example :
  let s := map (fun c => L c true) [cA;cC;cG;cT;cA;cA] in
  let p := P 4 8 Minus in
  denote_part s p = map (fun c => L c true) [cG;cT;cT;cT] /\
  denote_part (rc s) (flip_part 6 p) = denote_part s p /\
  rseq (rc_record (R s [F false 1 1 [p]] [])) = map (fun c => L c true) [cT;cT;cA;cC;cG;cT].
Proof. vm_compute. repeat split. Qed.
