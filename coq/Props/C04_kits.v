(* C04, obligations over the tables regenerated from the working tree: every concrete kit
   class (and the generic module/vector structure of every enzyme of the family) has the
   common shape — atoms, (overhang of ovh atoms)(atoms, one wildcard run, atoms)(overhang of
   ovh atoms), atoms — and its declared cutter's recognition site is placed so that both
   cuts fall exactly at the starts of groups 1 and 3. Exhaustive; re-proved on every run. *)
From MV Require Import Base Regex RegexLemmas Shape ShapeLemmas Typing TypingLemmas ShapeTyping Pipeline InnerCuts AssemblyLemmas.
From MV.Gen Require Import Kits Enzymes.
From Coq Require Import String.

Definition cls_framed (c : cls) : bool :=
  match parse3 (cpat c) with
  | Some sh => frames (esite (cenz c)) (rc_codes (esite (cenz c))) (eoff (cenz c)) (eovh (cenz c)) sh
  | None => false
  end.

Definition kits_framed : bool :=
  forallb (fun k => cls_framed (kcls k)) kits && match unsupported with [] => true | _ => false end &&
  Nat.leb 80 (List.length kits).

Lemma kits_framed_true : kits_framed = true.
Proof. vm_compute. reflexivity. Qed.

Definition enzymes_framed : bool :=
  forallb (fun x => cls_framed (generic_cls RModule (snd x)) && cls_framed (generic_cls RVector (snd x))) enzymes
  && Nat.leb 20 (List.length enzymes).

Lemma enzymes_framed_true : enzymes_framed = true.
Proof. vm_compute. reflexivity. Qed.

Theorem C04_kits_framed : forall k, In k kits ->
  exists sh, cpat (kcls k) = shape_pat sh /\
             frames (esite (cenz (kcls k))) (rc_codes (esite (cenz (kcls k)))) (eoff (cenz (kcls k))) (eovh (cenz (kcls k))) sh = true.
Proof.
  intros k Hk. pose proof kits_framed_true as H. unfold kits_framed in H.
  apply andb_prop in H. destruct H as [H _]. apply andb_prop in H. destruct H as [H _].
  rewrite forallb_forall in H. specialize (H k Hk). unfold cls_framed in H.
  destruct (parse3 (cpat (kcls k))) as [sh|] eqn:E; [|discriminate].
  exists sh. split; [now apply parse3_sound|exact H].
Qed.
Print Assumptions C04_kits_framed.

Theorem C04_generic_framed : forall name e, In (name, e) enzymes ->
  (exists sh, module_structure e = shape_pat sh /\ frames (esite e) (rc_codes (esite e)) (eoff e) (eovh e) sh = true) /\
  (exists sh, vector_structure e = shape_pat sh /\ frames (esite e) (rc_codes (esite e)) (eoff e) (eovh e) sh = true).
Proof.
  intros name e Hin. pose proof enzymes_framed_true as H. unfold enzymes_framed in H.
  apply andb_prop in H. destruct H as [H _]. rewrite forallb_forall in H. specialize (H _ Hin). cbn [snd] in H.
  apply andb_prop in H. destruct H as [Hm Hv]. unfold cls_framed, generic_cls in *. cbn [cpat cenz generic_structure] in *.
  split.
  - destruct (parse3 (module_structure e)) as [sh|] eqn:E; [|discriminate]. exists sh. split; [now apply parse3_sound|exact Hm].
  - destruct (parse3 (vector_structure e)) as [sh|] eqn:E; [|discriminate]. exists sh. split; [now apply parse3_sound|exact Hv].
Qed.
Print Assumptions C04_generic_framed.

(* hence, for every concrete kit class and every record it accepts (well-formed or not, at
   every rotation): both reported overhangs start at cut positions of the class's cutter *)
Theorem C04_kits_cuts : forall k s m, In k kits -> typing (kcls k) s true = Valid m ->
  exists a1 b1 a3 b3, span m 1 = Some (a1, b1) /\ span m 3 = Some (a3, b3) /\
    b1 - a1 = eovh (cenz (kcls k)) /\ b3 - a3 = eovh (cenz (kcls k)) /\
    cut_at (cenz (kcls k)) s a1 /\ cut_at (cenz (kcls k)) s a3.
Proof.
  intros k s m Hk Ht. destruct (C04_kits_framed k Hk) as (sh & Hp & Hf).
  destruct (frames_sound (kcls k) sh s m Hp Hf Ht) as (pc & rest & _ & _ & L1 & L3 & S1 & S3 & C1 & C3).
  exists (p1 pc + mstart m), (p2 pc + mstart m), (q3 pc + mstart m), (q4 pc + mstart m).
  repeat split; auto; cbv [q4 p2]; lia.
Qed.
Print Assumptions C04_kits_cuts.

(* ---------- last clause: no further cut strictly inside the target ------------------------- *)

Definition cls_flanking (c : cls) : bool :=
  match parse3 (cpat c) with
  | Some sh => flanking (esite (cenz c)) (rc_codes (esite (cenz c))) (eoff (cenz c)) sh
  | None => false
  end.

Definition nonpal (e : enzyme) : bool :=
  negb (codes_eqb (esite e) (rc_codes (esite e))) && Nat.ltb 0 (List.length (esite e)).

Definition is_module (c : cls) : bool := match crole c with RModule => true | RVector => false end.

(* every kit cutter and every enzyme of the family is non-palindromic; the generic module class of
   every enzyme is flanking; the kit module classes whose sites do not flank the target are listed *)
Definition cutters_nonpal : bool :=
  forallb (fun k => nonpal (cenz (kcls k))) kits &&
  forallb (fun x => nonpal (snd x) && cls_flanking (generic_cls RModule (snd x))) enzymes.

Lemma cutters_nonpal_true : cutters_nonpal = true.
Proof. vm_compute. reflexivity. Qed.

Lemma non_flanking_module_classes :
  map kname (filter (fun k => is_module (kcls k) && negb (cls_flanking (kcls k))) kits) = ["YTKPart234r"%string].
Proof. vm_compute. reflexivity. Qed.

Lemma nonpal_spec e : nonpal e = true -> esite e <> rc_codes (esite e) /\ 0 < List.length (esite e).
Proof.
  unfold nonpal. intros H. apply andb_prop in H. destruct H as [H1 H2]. split.
  - intros E. apply Bool.negb_true_iff in H1. assert (codes_eqb (esite e) (rc_codes (esite e)) = true); [|congruence].
    now apply codes_eqb_spec.
  - now apply Nat.ltb_lt.
Qed.

(* the conclusion, stated on the matched stretch g0 = pre . g1 . g2 . g3 . post (group 0), in its own
   coordinates: group 1 starts at a1 and group 2 ends at b2 (so the target g1.g2 is [a1, b2) and b2 is the
   downstream cut); NO occurrence of the recognition site, on either strand, anywhere in the matched
   stretch, cuts strictly between a1 and b2 *)
Definition no_cut_inside (e : enzyme) (m : rmatch) (s : list letter) : Prop :=
  exists g0 a1 b2, group m s 0 = Some g0 /\
    span m 1 = Some (a1 + mstart m, a1 + eovh e + mstart m) /\ (exists a2, span m 2 = Some (a2 + mstart m, b2 + mstart m)) /\
    forall j, j < List.length g0 ->
      (occurs_here (esite e) (skipn j g0) = true -> ~ (a1 < j + List.length (esite e) + eoff e < b2)) /\
      (occurs_here (rc_codes (esite e)) (skipn j g0) = true -> ~ (a1 + eoff e + eovh e < j < b2 + eoff e + eovh e)).

Lemma flanking_no_cut_inside c s m : cls_framed c = true -> cls_flanking c = true -> nonpal (cenz c) = true ->
  typing c s true = Valid m -> no_cut_inside (cenz c) m s.
Proof.
  intros Hf Hfl Hn Ht. unfold cls_framed in Hf. unfold cls_flanking in Hfl.
  destruct (parse3 (cpat c)) as [sh|] eqn:E; [|discriminate]. apply parse3_sound in E.
  destruct (nonpal_spec _ Hn) as [Hnp Hs].
  destruct (no_inner_cut c sh s m E Hf Hfl Hnp Hs Ht) as (pc & Hg0 & Hok & S1 & S2 & H).
  exists (pieces_text pc), (p1 pc), (q3 pc). split; [exact Hg0|]. split.
  - destruct Hok as (_ & Hg1 & _). pose proof (atoms_ok_length _ _ Hg1) as L1.
    unfold frames in Hf. repeat (apply andb_prop in Hf; destruct Hf as [Hf ?]).
    apply Nat.eqb_eq in Hf. rewrite S1. unfold p2. rewrite L1, Hf. reflexivity.
  - split; [exists (p2 pc); exact S2|exact H].
Qed.

(* for every kit module class whose sites flank the target (all but the listed one) and every record it
   accepts, well-formed or not, at every rotation *)
Theorem C04_kits_no_inner_cut : forall k s m, In k kits -> cls_flanking (kcls k) = true ->
  typing (kcls k) s true = Valid m -> no_cut_inside (cenz (kcls k)) m s.
Proof.
  intros k s m Hk Hfl Ht.
  pose proof kits_framed_true as H. unfold kits_framed in H.
  apply andb_prop in H. destruct H as [H _]. apply andb_prop in H. destruct H as [H _].
  rewrite forallb_forall in H. specialize (H k Hk).
  pose proof cutters_nonpal_true as Hn. unfold cutters_nonpal in Hn. apply andb_prop in Hn. destruct Hn as [Hn _].
  rewrite forallb_forall in Hn. specialize (Hn k Hk).
  now apply flanking_no_cut_inside.
Qed.
Print Assumptions C04_kits_no_inner_cut.

(* and for the generic module class over every enzyme of the family *)
Theorem C04_generic_no_inner_cut : forall name e s m, In (name, e) enzymes ->
  typing (generic_cls RModule e) s true = Valid m -> no_cut_inside e m s.
Proof.
  intros name e s m Hin Ht.
  pose proof enzymes_framed_true as H. unfold enzymes_framed in H.
  apply andb_prop in H. destruct H as [H _]. rewrite forallb_forall in H. specialize (H _ Hin). cbn [snd] in H.
  apply andb_prop in H. destruct H as [Hm _].
  pose proof cutters_nonpal_true as Hn. unfold cutters_nonpal in Hn. apply andb_prop in Hn. destruct Hn as [_ Hn].
  rewrite forallb_forall in Hn. specialize (Hn _ Hin). cbn [snd] in Hn. apply andb_prop in Hn. destruct Hn as [Hn Hfl].
  exact (flanking_no_cut_inside (generic_cls RModule e) s m Hm Hfl Hn Ht).
Qed.
Print Assumptions C04_generic_no_inner_cut.
