(* C04, obligations over the tables regenerated from the working tree: every concrete kit
   class (and the generic module/vector structure of every enzyme of the family) has the
   common shape — atoms, (overhang of ovh atoms)(atoms, one wildcard run, atoms)(overhang of
   ovh atoms), atoms — and its declared cutter's recognition site is placed so that both
   cuts fall exactly at the starts of groups 1 and 3. Exhaustive; re-proved on every run. *)
From MV Require Import Base Regex RegexLemmas Shape ShapeLemmas Typing TypingLemmas ShapeTyping Pipeline.
From MV.Gen Require Import Kits Enzymes.
From Coq Require Import String.

Definition cls_framed (c : cls) : bool :=
  match parse3 (cpat c) with
  | Some sh => frames (esite (cenz c)) (rc_codes (esite (cenz c))) (eoff (cenz c)) (eovh (cenz c)) sh
  | None => false
  end.

Definition kits_framed : bool :=
  forallb (fun k => cls_framed (kcls k)) kits && match unsupported with [] => true | _ => false end &&
  Nat.leb 80 (List.length kits).

Lemma kits_framed_true : kits_framed = true.
Proof. vm_compute. reflexivity. Qed.

Definition enzymes_framed : bool :=
  forallb (fun x => cls_framed (generic_cls RModule (snd x)) && cls_framed (generic_cls RVector (snd x))) enzymes
  && Nat.leb 20 (List.length enzymes).

Lemma enzymes_framed_true : enzymes_framed = true.
Proof. vm_compute. reflexivity. Qed.

Theorem C04_kits_framed : forall k, In k kits ->
  exists sh, cpat (kcls k) = shape_pat sh /\
             frames (esite (cenz (kcls k))) (rc_codes (esite (cenz (kcls k)))) (eoff (cenz (kcls k))) (eovh (cenz (kcls k))) sh = true.
Proof.
  intros k Hk. pose proof kits_framed_true as H. unfold kits_framed in H.
  apply andb_prop in H. destruct H as [H _]. apply andb_prop in H. destruct H as [H _].
  rewrite forallb_forall in H. specialize (H k Hk). unfold cls_framed in H.
  destruct (parse3 (cpat (kcls k))) as [sh|] eqn:E; [|discriminate].
  exists sh. split; [now apply parse3_sound|exact H].
Qed.
Print Assumptions C04_kits_framed.

Theorem C04_generic_framed : forall name e, In (name, e) enzymes ->
  (exists sh, module_structure e = shape_pat sh /\ frames (esite e) (rc_codes (esite e)) (eoff e) (eovh e) sh = true) /\
  (exists sh, vector_structure e = shape_pat sh /\ frames (esite e) (rc_codes (esite e)) (eoff e) (eovh e) sh = true).
Proof.
  intros name e Hin. pose proof enzymes_framed_true as H. unfold enzymes_framed in H.
  apply andb_prop in H. destruct H as [H _]. rewrite forallb_forall in H. specialize (H _ Hin). cbn [snd] in H.
  apply andb_prop in H. destruct H as [Hm Hv]. unfold cls_framed, generic_cls in *. cbn [cpat cenz generic_structure] in *.
  split.
  - destruct (parse3 (module_structure e)) as [sh|] eqn:E; [|discriminate]. exists sh. split; [now apply parse3_sound|exact Hm].
  - destruct (parse3 (vector_structure e)) as [sh|] eqn:E; [|discriminate]. exists sh. split; [now apply parse3_sound|exact Hv].
Qed.
Print Assumptions C04_generic_framed.

(* hence, for every concrete kit class and every record it accepts (well-formed or not, at
   every rotation): both reported overhangs start at cut positions of the class's cutter *)
Theorem C04_kits_cuts : forall k s m, In k kits -> typing (kcls k) s true = Valid m ->
  exists a1 b1 a3 b3, span m 1 = Some (a1, b1) /\ span m 3 = Some (a3, b3) /\
    b1 - a1 = eovh (cenz (kcls k)) /\ b3 - a3 = eovh (cenz (kcls k)) /\
    cut_at (cenz (kcls k)) s a1 /\ cut_at (cenz (kcls k)) s a3.
Proof.
  intros k s m Hk Ht. destruct (C04_kits_framed k Hk) as (sh & Hp & Hf).
  destruct (frames_sound (kcls k) sh s m Hp Hf Ht) as (pc & rest & _ & _ & L1 & L3 & S1 & S3 & C1 & C3).
  exists (p1 pc + mstart m), (p2 pc + mstart m), (q3 pc + mstart m), (q4 pc + mstart m).
  repeat split; auto; cbv [q4 p2]; lia.
Qed.
Print Assumptions C04_kits_cuts.
