(* C20 over the definitions regenerated from moclo/registry/base.py (Gen/Src.v): CombinedRegistry.
   Statements only. *)
From MV Require Import Base Registry RegistryLemmas Py PyObj SrcEquivRegistry.
From MV.Gen Require Import Src.
From Coq Require Import String.
Local Open Scope Z_scope.
Local Open Scope string_scope.

(* `combined << registry`, as translated (add_registry: for item in itervalues(registry):
   self._data.setdefault(item.id, item)): the model's setdefault-fold, a key already present keeps
   its item *)
Theorem C20_src_add : forall d r,
  CombinedRegistry_lshift d r = Ok (add_registry String.eqb d (entries r)).
Proof. exact CombinedRegistry_lshift_eq. Qed.
Print Assumptions C20_src_add.

(* any sequence of members added to an empty combination gives Registry.combine — for which union
   of the key sets, each key once, and first-added-wins are proved (Props/C20.v) *)
Theorem C20_src_combine : forall regs,
  fold_left (fun acc r => x <- acc ;; CombinedRegistry_lshift x r) regs (Ok [])
  = Ok (combine String.eqb (map entries regs)).
Proof. exact CombinedRegistry_fold_eq. Qed.
Print Assumptions C20_src_combine.

(* lookup of a present key returns its item, of an absent key raises KeyError(key); `in`, iteration
   and len read the same dictionary *)
Theorem C20_src_getitem : forall d k,
  CombinedRegistry_getitem d k =
  match assoc String.eqb k d with Some i => Ok i | None => Err (XKeyError (KeyStr k)) end.
Proof. exact CombinedRegistry_getitem_eq. Qed.
Print Assumptions C20_src_getitem.

Theorem C20_src_contains : forall d k,
  CombinedRegistry_contains d k = Ok (match assoc String.eqb k d with Some _ => true | None => false end).
Proof. exact CombinedRegistry_contains_eq. Qed.
Print Assumptions C20_src_contains.

Theorem C20_src_iter_len : forall d,
  CombinedRegistry_iter d = Ok (map fst d) /\ CombinedRegistry_len d = Ok (Z.of_nat (List.length d)).
Proof. intro d. split; [exact (CombinedRegistry_iter_eq d)|exact (CombinedRegistry_len_eq d)]. Qed.
Print Assumptions C20_src_iter_len.

(* non-vacuity: two members sharing the id "b"; the first added wins *)
Example C20_src_example :
  let r1 := [RI "a" 1; RI "b" 2] in
  let r2 := [RI "b" 3; RI "c" 4] in
  match (x <- CombinedRegistry_lshift [] r1 ;; CombinedRegistry_lshift x r2) with
  | Ok d => CombinedRegistry_getitem d "b" = Ok (RI "b" 2) /\ CombinedRegistry_iter d = Ok ["a"; "b"; "c"]
            /\ CombinedRegistry_len d = Ok 3 /\ CombinedRegistry_getitem d "z" = Err (XKeyError (KeyStr "z"))
  | Err _ => False
  end.
Proof. vm_compute. repeat split. Qed.
