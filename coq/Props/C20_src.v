(* C20 over the definitions regenerated from moclo/registry/base.py (Gen/Src.v): CombinedRegistry.
   Statements only. *)
From MV Require Import Base Registry RegistryLemmas Py PyObj SrcEquivRegistry.
From MV.Gen Require Import Src.
From Coq Require Import String.
Local Open Scope Z_scope.
Local Open Scope string_scope.

(* `combined << registry`, as translated (add_registry: for item in itervalues(registry):
   self._data.setdefault(item.id, item)): the model's setdefault-fold, a key already present keeps
   its item *)
Theorem C20_src_add : forall d r,
  CombinedRegistry_lshift d r = Ok (add_registry String.eqb d (entries r)).
Proof. exact CombinedRegistry_lshift_eq. Qed.
Print Assumptions C20_src_add.

(* any sequence of members added to an empty combination gives Registry.combine — for which union
   of the key sets, each key once, and first-added-wins are proved (Props/C20.v) *)
Theorem C20_src_combine : forall regs,
  fold_left (fun acc r => x <- acc ;; CombinedRegistry_lshift x r) regs (Ok [])
  = Ok (combine String.eqb (map entries regs)).
Proof. exact CombinedRegistry_fold_eq. Qed.
Print Assumptions C20_src_combine.

(* lookup of a present key returns its item, of an absent key raises KeyError(key); `in`, iteration
   and len read the same dictionary *)
Theorem C20_src_getitem : forall d k,
  CombinedRegistry_getitem d k =
  match assoc String.eqb k d with Some i => Ok i | None => Err (XKeyError (KeyStr k)) end.
Proof. exact CombinedRegistry_getitem_eq. Qed.
Print Assumptions C20_src_getitem.

Theorem C20_src_contains : forall d k,
  CombinedRegistry_contains d k = Ok (match assoc String.eqb k d with Some _ => true | None => false end).
Proof. exact CombinedRegistry_contains_eq. Qed.
Print Assumptions C20_src_contains.

Theorem C20_src_iter_len : forall d,
  CombinedRegistry_iter d = Ok (map fst d) /\ CombinedRegistry_len d = Ok (Z.of_nat (List.length d)).
Proof. intro d. split; [exact (CombinedRegistry_iter_eq d)|exact (CombinedRegistry_len_eq d)]. Qed.
Print Assumptions C20_src_iter_len.

(* non-vacuity: two members sharing the id "b"; the first added wins *)
Example C20_src_example :
  let r1 := [RI "a" 1; RI "b" 2] in
  let r2 := [RI "b" 3; RI "c" 4] in
  match (x <- CombinedRegistry_lshift [] r1 ;; CombinedRegistry_lshift x r2) with
  | Ok d => CombinedRegistry_getitem d "b" = Ok (RI "b" 2) /\ CombinedRegistry_iter d = Ok ["a"; "b"; "c"]
            /\ CombinedRegistry_len d = Ok 3 /\ CombinedRegistry_getitem d "z" = Err (XKeyError (KeyStr "z"))
  | Err _ => False
  end.
Proof. vm_compute. repeat split. Qed.

(* ---------- EmbeddedRegistry and FilesystemRegistry AS REGENERATED from registry/base.py ------------
   (the `with` blocks over pkg_resources/tarfile/fs, the `iter(tar.next, None)` loops, the generator
   functions, `sum(1 for ...)`, the dictionary filled by `data[record.id] = Item(...)`); tar/gzip,
   GenBank parsing and the file system are the environment (PyObj.v: an archive is the list of its
   members with the records in them, a directory its listing) *)

Theorem C20_src_embedded_iter : forall self, EmbeddedRegistry_iter self = Ok (emb_iter (emb_index self)).
Proof. exact EmbeddedRegistry_iter_eq. Qed.
Print Assumptions C20_src_embedded_iter.

Theorem C20_src_embedded_len : forall self, EmbeddedRegistry_len self = Ok (Z.of_nat (emb_len (emb_index self))).
Proof. exact EmbeddedRegistry_len_eq. Qed.
Print Assumptions C20_src_embedded_len.

(* registry[key] on an archive all of whose members load: the item of the last member whose record
   has that id — the model's emb_lookup —, KeyError otherwise *)
Theorem C20_src_embedded_getitem : forall self k, Forall loadable (emb_archive self) ->
  EmbeddedRegistry_getitem self k =
  match emb_lookup String.eqb (emb_index self) k with
  | Some (name, id) => match find (fun e => String.eqb (gr_id (te_record e)) k) (rev (emb_archive self)) with
                       | Some e => Ok (item_of e) | None => Err (XKeyError (KeyStr k)) end
  | None => Err (XKeyError (KeyStr k))
  end.
Proof. exact EmbeddedRegistry_getitem_eq. Qed.
Print Assumptions C20_src_embedded_getitem.

Theorem C20_src_filesystem_iter : forall self,
  FilesystemRegistry_iter self = Ok (fs_iter splitext_stem (glob_matches (fsr_exts self)) (fs_listing self)).
Proof. exact FilesystemRegistry_iter_eq. Qed.
Print Assumptions C20_src_filesystem_iter.

Theorem C20_src_filesystem_len : forall self,
  FilesystemRegistry_len self = Ok (Z.of_nat (fs_len (glob_matches (fsr_exts self)) (fs_listing self))).
Proof. exact FilesystemRegistry_len_eq. Qed.
Print Assumptions C20_src_filesystem_len.

(* registry[key]: resolved through the same listing as iteration (the model's fs_lookup); the item
   carries the key as its id; KeyError when no listed file has that stem *)
Theorem C20_src_filesystem_getitem : forall self k,
  FilesystemRegistry_getitem self k =
  match fs_lookup String.eqb splitext_stem (glob_matches (fsr_exts self)) (fs_listing self) k with
  | Some n => r <- fs_open self n ;;
              let r' := grec_set_id r (splitext_stem n) in
              ent <- grec_entity r' ;; res <- find_resistance r' ;;
              Ok (mk_Item (splitext_stem n) (gr_description r) res ent)
  | None => Err (XKeyError (KeyStr k))
  end.
Proof. exact FilesystemRegistry_getitem_eq. Qed.
Print Assumptions C20_src_filesystem_getitem.

(* non-vacuity: a directory with an upper-case extension, a sub-directory and a file of another
   kind, and an archive in which two members carry the same record id *)
Example C20_src_example2 :
  let g i n := GR i n 7 [LF None; LF (Some ["ori"%string]); LF (Some ["AmpR"%string; "AmpR"%string])] (Some 2%nat) in
  let dir := FSR [("a.gb"%string, true, g "x"%string 1%nat); ("sub.gb"%string, false, g "y"%string 2%nat);
                  ("b.GBK"%string, true, g "z"%string 3%nat); ("c.txt"%string, true, g "w"%string 4%nat)]
                 ["gb"%string; "gbk"%string] in
  FilesystemRegistry_iter dir = Ok ["a"%string; "b"%string] /\ FilesystemRegistry_len dir = Ok 2
  /\ FilesystemRegistry_getitem dir "b" = Ok (mk_Item "b" 7 (Some "Ampicillin"%string) 2)
  /\ FilesystemRegistry_getitem dir "c" = Err (XKeyError (KeyStr "c"))
  /\
  let arc := EMB [TE "m1" (g "p1"%string 1%nat); TE "m2" (g "p2"%string 2%nat); TE "m3" (g "p1"%string 3%nat)] in
  EmbeddedRegistry_iter arc = Ok ["m1"%string; "m2"%string; "m3"%string] /\ EmbeddedRegistry_len arc = Ok 3
  /\ EmbeddedRegistry_getitem arc "p1" = Ok (mk_Item "p1" 3 (Some "Ampicillin"%string) 2)
  /\ EmbeddedRegistry_getitem arc "m1" = Err (XKeyError (KeyStr "m1")).
Proof. vm_compute. repeat split. Qed.
