(* C04 / C05 — structure() of the generic module and vector classes over the definitions
   regenerated from modules.py / vectors.py (Gen/Src.v). Statements only. *)
From MV Require Import Base Regex Typing Py PyObj SrcEquivStructure.
From MV.Gen Require Import Enzymes Src.
From Coq Require Import String.

(* AbstractModule.structure() AS TRANSLATED FROM THE SOURCE — cutter.elucidate(), its reverse
   complement, the replace() calls that turn the cut markers into group parentheses, the join
   around "N*" — returns, for EVERY enzyme with an unambiguous site (any site, cut offset and
   overhang length), a text that reads through regex.py's letter map as the pattern
   Typing.module_structure: the very pattern the typing theorems (C01, C02, C04, C05, C11, C12)
   speak about for the generic classes *)
Theorem C04_src_module_structure : forall c, Forall unamb (esite (cenz c)) ->
  exists t, AbstractModule_structure c = Ok t /\ sch_tok t = Some (module_structure (cenz c)).
Proof. exact AbstractModule_structure_eq. Qed.
Print Assumptions C04_src_module_structure.

Theorem C04_src_vector_structure : forall c, Forall unamb (esite (cenz c)) ->
  exists t, AbstractVector_structure c = Ok t /\ sch_tok t = Some (vector_structure (cenz c)).
Proof. exact AbstractVector_structure_eq. Qed.
Print Assumptions C04_src_vector_structure.

(* every enzyme of the family (Gen/Enzymes.v, regenerated from Bio.Restriction, where the format
   of elucidate() is checked enzyme by enzyme) has an unambiguous site *)
Definition unambb (c : code) : bool :=
  match c with cA | cC | cG | cT => true | _ => false end.
Lemma unambb_spec c : unambb c = true -> unamb c.
Proof. destruct c; cbn; try discriminate; unfold unamb; auto. Qed.

Theorem C04_src_family_unamb : forall n e, In (n, e) enzymes -> Forall unamb (esite e).
Proof.
  assert (H : forallb (fun p => forallb unambb (esite (snd p))) enzymes = true) by (vm_compute; reflexivity).
  intros n e Hin. rewrite forallb_forall in H. specialize (H _ Hin). cbn [snd] in H.
  rewrite forallb_forall in H. apply Forall_forall. intros x Hx. apply unambb_spec, H, Hx.
Qed.
Print Assumptions C04_src_family_unamb.

(* non-vacuity: BsaI — "GGTCTCN(NNNN)(NN*N)(NNNN)NGAGACC" *)
Example C04_src_structure_example :
  let e := E [cG;cG;cT;cC;cT;cC] 1 4 in
  AbstractModule_structure (C RModule e (module_structure e))
  = Ok (sch_of_string "GGTCTCN(NNNN)(NN*N)(NNNN)NGAGACC").
Proof. vm_compute. reflexivity. Qed.

(* AbstractPart.structure() AS TRANSLATED FROM parts.py — the cut site "^NNNN_" / "_NNNN^" located in
   elucidate() resp. its reverse complement and replaced by the signature in group parentheses —
   returns, for EVERY enzyme with an unambiguous site and EVERY signature of IUPAC letters, module
   part or vector part, a text that reads as Typing.part_structure of the signature read through
   the letter map: the pattern C05's theorems speak about *)
Theorem C05_src_part_structure : forall c wu wd,
  Forall unamb (esite (pc_enz c)) -> pc_sig c = (map SL wu, map SL wd) ->
  exists t, AbstractPart_structure c = Ok t /\
    sch_tok t = Some (part_structure (pc_role c) (pc_enz c)
                        (map (fun x => Atom (codes_of x)) wu) (map (fun x => Atom (codes_of x)) wd)).
Proof. exact AbstractPart_structure_eq. Qed.
Print Assumptions C05_src_part_structure.

(* non-vacuity: the example of the class docstring, and a vector part with an ambiguous signature *)
Example C05_src_part_example :
  let e := E [cG;cG;cT;cC;cT;cC] 1 4 in
  AbstractPart_structure (PCS RModule e (sch_of_string "ATGC", sch_of_string "ATTC"))
  = Ok (sch_of_string "GGTCTCN(ATGC)(NN*N)(ATTC)NGAGACC")
  /\ AbstractPart_structure (PCS RVector e (sch_of_string "ANNR", sch_of_string "GCTT"))
  = Ok (sch_of_string "N(GCTT)(NGAGACCN*GGTCTCN)(ANNR)N").
Proof. vm_compute. split; reflexivity. Qed.
