(* C04 / C05 / C16 — DNARegex._transcribe over the definition regenerated from regex.py
   (Gen/Src.v), and the text the generic classes hand to re.compile. Statements only. *)
From MV Require Import Base Regex Typing Py PyObj SrcEquivStructure SrcEquivTranscribe.
From MV.Gen Require Import Lettermap Src.
From Coq Require Import String.

(* DNARegex._transcribe AS TRANSLATED FROM THE SOURCE — the "(?i)" prefix, one lookup of the
   _lettermap dict literal (its values as written, Gen/Lettermap.v) per character, the join — returns
   for EVERY pattern text that reads as a pattern (letters, X*, X*?, parentheses) a regular-expression
   text which, read the way Python's re reads this fragment (re_read: the inline flag group, a
   bracketed class or a single letter, * and *?, parentheses), is that same pattern *)
Theorem C04_src_transcribe : forall s p, sch_tok s = Some p ->
  exists t, DNARegex_transcribe tt s = Ok t /\ re_read t = Some p.
Proof. exact transcribe_reads. Qed.
Print Assumptions C04_src_transcribe.

(* hence what DNARegex(cls.structure()) compiles for a generic module / vector class over ANY
   enzyme with an unambiguous site, and for ANY part class, is the model's pattern *)
Theorem C04_src_module_regex_text : forall c, Forall unamb (esite (cenz c)) ->
  exists t text, AbstractModule_structure c = Ok t /\ DNARegex_transcribe tt t = Ok text /\
    re_read text = Some (module_structure (cenz c)).
Proof. exact module_regex_text. Qed.
Print Assumptions C04_src_module_regex_text.

Theorem C04_src_vector_regex_text : forall c, Forall unamb (esite (cenz c)) ->
  exists t text, AbstractVector_structure c = Ok t /\ DNARegex_transcribe tt t = Ok text /\
    re_read text = Some (vector_structure (cenz c)).
Proof. exact vector_regex_text. Qed.
Print Assumptions C04_src_vector_regex_text.

Theorem C05_src_part_regex_text : forall c wu wd,
  Forall unamb (esite (pc_enz c)) -> pc_sig c = (map SL wu, map SL wd) ->
  exists t text, AbstractPart_structure c = Ok t /\ DNARegex_transcribe tt t = Ok text /\
    re_read text = Some (part_structure (pc_role c) (pc_enz c)
                           (map (fun x => Atom (codes_of x)) wu) (map (fun x => Atom (codes_of x)) wd)).
Proof. exact part_regex_text. Qed.
Print Assumptions C05_src_part_regex_text.

(* non-vacuity: BsaI's module structure, character by character *)
Example C04_src_transcribe_example :
  DNARegex_transcribe tt (sch_of_string "GGTCTCN(NNNN)(NN*N)(NNNN)NGAGACC") =
  Ok (sch_of_string "(?i)GGTCTC[ACGTN]([ACGTN][ACGTN][ACGTN][ACGTN])([ACGTN][ACGTN]*[ACGTN])([ACGTN][ACGTN][ACGTN][ACGTN])[ACGTN]GAGACC")
  /\ re_read (sch_of_string "(?i)GGTCTC[ACGTN]([ACGTN]*?)") =
     Some [Atom [cG]; Atom [cG]; Atom [cT]; Atom [cC]; Atom [cT]; Atom [cC]; Atom setN; Open; StarL setN; Close].
Proof. vm_compute. split; reflexivity. Qed.

(* ALL concrete kit classes (Gen/Kits.v: the texts their structure() returns on the working tree): the
   text DNARegex compiles for the class — _transcribe as regenerated, run on the class's text — reads,
   as re reads it, as the pattern of the class in the table, i.e. the pattern every typing theorem about
   the kits is stated with *)
From MV Require Import KitLookup Glue.
From MV.Gen Require Import Kits.

Definition compiled_ok (p : string * (string * option (string * string))) : bool :=
  let '(n, (text, _)) := p in
  match find (fun k => String.eqb (kname k) n) kits with
  | None => false
  | Some k =>
    match DNARegex_transcribe tt (sch_of_string text) with
    | Ok t => option_eqb pattern_eqb (re_read t) (Some (cpat (kcls k)))
    | Err _ => false
    end
  end.

Theorem C04_kits_compiled_texts : forallb compiled_ok kit_texts = true /\ List.length kit_texts = List.length kits.
Proof. vm_compute. split; reflexivity. Qed.
Print Assumptions C04_kits_compiled_texts.
