(* C18 over the assembly regenerated from the source (Gen/Src.v). Statements only. *)
From MV Require Import Base Regex Typing TypingLemmas Assembly AssemblyLemmas Pipeline PipelineLemmas Py PyObj
     SrcEquivAssembly SrcCorollaries.
From MV.Gen Require Import Src.

(* any re-spelling (same codes, any letter case, record by record) of a vector and its modules,
   wrapped by the same classes: vector.assemble AS TRANSLATED FROM THE SOURCE ends the same way —
   same error with the same arguments, or products equal up to case with the same unused modules *)
Theorem C18_src_assembly : forall vector vector' modules modules',
  good_ent vector -> good_ent vector' -> Forall good_ent modules -> Forall good_ent modules' ->
  map ent_id modules = seq 0 (List.length modules) -> map ent_id modules' = seq 0 (List.length modules') ->
  recased_ent vector vector' -> Forall2 recased_ent modules modules' ->
  rel_out same_codes
    (outcome_of (vector_assemble (S (S (List.length modules))) vector modules))
    (outcome_of (vector_assemble (S (S (List.length modules'))) vector' modules')).
Proof. exact src_assemble_case. Qed.
Print Assumptions C18_src_assembly.
