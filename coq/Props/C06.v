(* C06 — typing verdicts do not depend on what was typed before. Statements only. *)
From MV Require Import Base Regex Typing Pipeline Cache CacheLemmas.
From Coq Require Import String.
Open Scope string_scope.

(* for every history of validation calls (any classes, any records, any order) every
   answer (is_valid, both overhangs, target) equals the answer of the same query
   issued first in a fresh interpreter *)
Theorem C06_history : forall h : list (centry * list letter),
  consistent (map fst h) ->
  fst (run lookup_own [] h) = map (fun x => fresh (fst x) (snd x)) h.
Proof. exact history_independent. Qed.
Print Assumptions C06_history.

Theorem C06_query_after : forall (h : list (centry * list letter)) e s,
  consistent (map fst h ++ [e]) ->
  fst (query lookup_own (snd (run lookup_own [] h)) e s) = fresh e s.
Proof. exact query_after_history. Qed.
Print Assumptions C06_query_after.

(* the invariant behind it: a stored pattern is the structure of the class owning it *)
Theorem C06_invariant : forall es st e s, consistent es -> In e es -> Inv es st ->
  Inv es (snd (query lookup_own st e s)).
Proof. intros es st e s Hc He Hi. exact (proj2 (query_own es st e s Hc He Hi)). Qed.
Print Assumptions C06_invariant.

(* sensitivity (F2): with the pinned lookup (ordinary attribute resolution along the
   MRO) priming the generic parent makes the signature-typed child accept a record it
   rejects when asked first *)
Definition bsai : enzyme := E [cG;cG;cT;cC;cT;cC] 1 4.
Definition parent : centry := CE "Entry" ["Entry"] (generic_cls RModule bsai).
Definition child : centry :=
  CE "Part" ["Part"; "Entry"]
     (part_cls RModule bsai (lits [cA;cA;cA;cA]) (lits [cC;cC;cC;cC])).
Definition probe : list letter :=
  map (fun c => L c true)
      [cG;cG;cT;cC;cT;cC;cA; cT;cT;cT;cT; cA;cC;cG; cG;cG;cG;cG; cT;cG;cA;cG;cA;cC;cC; cA;cA].

Theorem C06_pinned_lookup_refuted :
  consistent [parent; child] /\
  fst (query lookup_mro (snd (run lookup_mro [] [(parent, probe)])) child probe) <> fresh child probe.
Proof.
  split.
  - intros e1 e2 [<-|[<-|[]]] [<-|[<-|[]]] H; try reflexivity; discriminate H.
  - vm_compute. discriminate.
Qed.
Print Assumptions C06_pinned_lookup_refuted.

(* non-vacuity: a history of three queries over the two classes above *)
Example C06_example :
  consistent (map fst [(parent, probe); (child, probe); (parent, probe)]) /\
  fst (run lookup_own [] [(parent, probe); (child, probe); (parent, probe)]) =
    [fresh parent probe; fresh child probe; fresh parent probe] /\
  fst (fst (fst (fresh parent probe))) = true /\ fst (fst (fst (fresh child probe))) = false.
Proof.
  split; [|vm_compute; repeat split].
  intros e1 e2 H1 H2 H. simpl in H1, H2.
  destruct H1 as [<-|[<-|[<-|[]]]], H2 as [<-|[<-|[<-|[]]]]; try reflexivity; discriminate H.
Qed.
