(* C15 — a circular record behaves as a circle, never as a line. Statements only. *)
From MV Require Import Base RotLemmas Circle CircleLemmas.

(* membership is circular: contained exactly when no longer than the record and
   occurring in some rotation of it (any alphabet with decidable equality) *)
Theorem C15_iff : forall (A : Type) (eqb : A -> A -> bool),
  (forall x y, eqb x y = true <-> x = y) ->
  forall q s, contains eqb q s = true <->
    length q <= length s /\ exists k, Infix q (rotr k s).
Proof. exact @contains_iff. Qed.
Print Assumptions C15_iff.

(* so the answer is the same for every rotation of the record *)
Theorem C15_rot : forall (A : Type) (eqb : A -> A -> bool),
  (forall x y, eqb x y = true <-> x = y) ->
  forall q s k, contains eqb q (rotr k s) = contains eqb q s.
Proof. exact @contains_rot. Qed.
Print Assumptions C15_rot.

Theorem C15_too_long : forall (A : Type) (eqb : A -> A -> bool) q s,
  length s < length q -> contains eqb q s = false.
Proof. exact @contains_too_long. Qed.
Print Assumptions C15_too_long.

Theorem C15_empty_query : forall (A : Type) (eqb : A -> A -> bool) s, contains eqb [] s = true.
Proof. exact @contains_nil. Qed.
Print Assumptions C15_empty_query.

(* the boolean used by the model decides occurrence as an infix *)
Theorem C15_infixb : forall (A : Type) (eqb : A -> A -> bool),
  (forall x y, eqb x y = true <-> x = y) ->
  forall q w, infixb eqb q w = true <-> Infix q w.
Proof. exact @infixb_spec. Qed.
Print Assumptions C15_infixb.

(* the instance used by the correspondence: letters with exact (case-sensitive) equality *)
Theorem C15_letters : forall x y, letter_eqb x y = true <-> x = y.
Proof. exact letter_eqb_spec. Qed.
Print Assumptions C15_letters.

(* a query spanning the origin: "GA" in the circle ATCG *)
Example C15_example :
  let s := [L cA true; L cT true; L cC true; L cG true] in
  contains letter_eqb [L cG true; L cA true] s = true /\
  infixb letter_eqb [L cG true; L cA true] s = false /\
  contains letter_eqb (s ++ [L cA true]) s = false.
Proof. vm_compute. repeat split. Qed.
