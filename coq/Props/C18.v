(* C18 — letter case of the input sequences never changes the outcome. Statements only. *)
From MV Require Import Base Regex RegexLemmas Typing TypingLemmas Assembly AssemblyLemmas Pipeline PipelineLemmas.

(* two spellings of the same letters: equal after case folding *)
Theorem C18_same_codes_fold : forall a b, same_codes a b <-> fold_case a = fold_case b.
Proof.
  intros a b. unfold same_codes, fold_case, upper_l. split; intros H.
  - rewrite <- (map_map lcode (fun x => L x true) a), <- (map_map lcode (fun x => L x true) b). now rewrite H.
  - apply (f_equal (map lcode)) in H. rewrite !map_map in H. exact H.
Qed.
Print Assumptions C18_same_codes_fold.

(* the matcher reads only the codes of the target letters *)
Theorem C18_match : forall items w1 w2 av pos g st cs, same_codes w1 w2 ->
  bt items w1 av pos g st cs = bt items w2 av pos g st cs.
Proof. exact bt_codes_only. Qed.
Print Assumptions C18_match.

(* every class accepts or rejects all spellings alike, with the same match, and reports
   the same overhangs, target and placeholder up to case *)
Theorem C18_typing : forall c s s', same_codes s s' ->
  match observe c s, observe c s' with
  | (v, u, d, t, p), (v', u', d', t', p') =>
      v = v' /\ opt_same u u' /\ opt_same d d' /\ opt_same t t' /\ opt_same p p'
  end.
Proof. exact observe_case. Qed.
Print Assumptions C18_typing.

(* the illegal-site screen ignores case *)
Theorem C18_fragments : forall e t t', same_codes t t' -> fragments e t = fragments e t'.
Proof. exact fragments_same. Qed.
Print Assumptions C18_fragments.

(* any mix of spellings among a vector and its modules gives the same outcome class, the
   same stalled overhang, the same duplicate pair, the same used/unused modules, and a
   product equal up to case *)
Theorem C18_assembly : forall vc v v' ms ms', same_codes v v' -> Forall2 recased ms ms' ->
  rel_out same_codes (assemble_raw vc v ms) (assemble_raw vc v' ms').
Proof. exact assemble_raw_case. Qed.
Print Assumptions C18_assembly.

(* sensitivity (F5): keyed by the overhang as spelled, a lower-case vector and an upper-case
   module no longer chain *)
Theorem C18_case_sensitive_refuted :
  exists (v : @tvec (list letter)) m,
    dna_assemble_case_sensitive v [m] = EMissing (vdown v) /\
    exists w, dna_assemble (TV (okey (vup v)) (okey (vdown v)) (vfrag v))
                           [TM 0 (okey (mup m)) (okey (mdown m)) (mfrag m)] = Product w [0] [].
Proof.
  exists (TV [L cA false; L cC false] [L cG false; L cT false] []),
         (TM 0 [L cG true; L cT true] [L cA true; L cC true] []).
  split; [reflexivity|]. eexists. reflexivity.
Qed.
Print Assumptions C18_case_sensitive_refuted.

Example C18_example :
  let e := E [cG;cG;cT;cC;cT;cC] 1 4 in
  let c := generic_cls RModule e in
  let codes := [cG;cG;cT;cC;cT;cC;cA; cA;cA;cT;cG; cC;cC;cC; cG;cC;cT;cT; cT;cG;cA;cG;cA;cC;cC; cA;cT] in
  let s := map (fun x => L x true) codes in
  let s' := map (fun x => L x false) codes in
  same_codes s s' /\ fst (fst (fst (fst (observe c s')))) = true /\
  snd (fst (fst (fst (observe c s')))) = Some (map (fun x => L x false) [cA;cA;cT;cG]).
Proof. vm_compute. repeat split. Qed.
