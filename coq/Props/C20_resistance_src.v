(* C20 — "the item found ... holds ... a known antibiotic resistance": find_resistance over the
   definition regenerated from registry/_utils.py (Gen/Src.v, with the _ANTIBIOTICS dict literal
   regenerated as well), and over every record of the five embedded archives. Statements only. *)
From MV Require Import Base Py PyObj SrcEquivRegistry SrcEquivResistance.
From MV.Gen Require Import Registries Src.
From Coq Require Import String List.
Import ListNotations.

(* find_resistance AS TRANSLATED FROM THE SOURCE is, for EVERY record (any number of features, any
   /label values, repeated or not), the specification: the first feature carrying a known cassette
   label decides — one distinct known label: its antibiotic; several: RuntimeError; no such feature:
   RuntimeError *)
Theorem C20_src_find_resistance : forall r, find_resistance_src r = resistance_spec (lr_features r).
Proof. exact find_resistance_eq. Qed.
Print Assumptions C20_src_find_resistance.

(* what it returns is an antibiotic of the table, never None *)
Theorem C20_src_resistance_known : forall r v, find_resistance_src r = Ok v ->
  exists a, v = Some a /\ In a (map snd _ANTIBIOTICS_).
Proof. exact find_resistance_known. Qed.
Print Assumptions C20_src_resistance_known.

(* and the only exception that leaves it is RuntimeError (which _load_resistance re-raises as
   RuntimeError and FilesystemRegistry.__getitem__ lets through) *)
Theorem C20_src_resistance_errors : forall r e, find_resistance_src r = Err e -> e = XRuntimeError.
Proof. exact find_resistance_errors. Qed.
Print Assumptions C20_src_resistance_errors.

Theorem C20_src_resistance_first : forall r pre f post,
  lr_features r = pre ++ f :: post -> Forall (fun g => cassettes_of g = []) pre -> cassettes_of f <> [] ->
  find_resistance_src r = match cassettes_of f with [x] => Ok (strdict_get _ANTIBIOTICS_ x) | _ => Err XRuntimeError end.
Proof. exact find_resistance_first. Qed.
Print Assumptions C20_src_resistance_first.

Theorem C20_src_resistance_none : forall r,
  Forall (fun g => cassettes_of g = []) (lr_features r) -> find_resistance_src r = Err XRuntimeError.
Proof. exact find_resistance_none. Qed.
Print Assumptions C20_src_resistance_none.

(* hence the clause of the property: the item an embedded registry (whose members load) or a directory
   registry returns for a key — __getitem__ as regenerated from base.py, calling find_resistance as
   regenerated from _utils.py — carries an antibiotic of the table *)
Theorem C20_src_embedded_item_resistance : forall self k it, Forall loadable (emb_archive self) ->
  EmbeddedRegistry_getitem self k = Ok it ->
  exists a, ib_resistance (item_body it) = Some a /\ In a (map snd _ANTIBIOTICS_).
Proof. exact embedded_item_resistance. Qed.
Print Assumptions C20_src_embedded_item_resistance.

Theorem C20_src_filesystem_item_resistance : forall self k it,
  FilesystemRegistry_getitem self k = Ok it ->
  exists a, ib_resistance (item_body it) = Some a /\ In a (map snd _ANTIBIOTICS_).
Proof. exact filesystem_item_resistance. Qed.
Print Assumptions C20_src_filesystem_item_resistance.

(* EVERY record of the five embedded archives (Gen/Registries.v, rebuilt from the working tree: id,
   /label values per feature, and what the implementation's find_resistance reported): the regenerated
   function, run on the record's labels, returns that very antibiotic — so every item of every
   embedded registry has a known resistance, and the translation agrees with the implementation on
   all of them *)
Definition resistance_agrees (x : string * option string * list (option (list string))) : bool :=
  let '(id, res, feats) := x in
  match find_resistance_src (LR id (map LF feats)), res with
  | Ok (Some a), Some b => String.eqb a b
  | _, _ => false
  end.

Theorem C20_kits_resistance : forall reg items x, archive_labels_ok = true ->
  In (reg, items) archive_labels -> In x items -> resistance_agrees x = true.
Proof.
  assert (H : forallb (fun p => forallb resistance_agrees (snd p)) archive_labels = true) by (vm_compute; reflexivity).
  intros reg items x _ Hin Hx. rewrite forallb_forall in H. specialize (H _ Hin). cbn [snd] in H.
  rewrite forallb_forall in H. exact (H _ Hx).
Qed.
Print Assumptions C20_kits_resistance.

(* the archives are not empty (the obligation above is not vacuous) *)
Example C20_kits_resistance_nonvacuous :
  archive_labels_ok = true /\ List.length archive_labels = 5 /\
  forallb (fun p => Nat.ltb 10 (List.length (snd p))) archive_labels = true.
Proof. vm_compute. auto. Qed.

(* non-vacuity of the clauses: two labels of one cassette, a feature without labels first, two
   different cassettes on one feature *)
Example C20_src_resistance_example :
  find_resistance_src (LR "p" [LF None; LF (Some ["ori"]); LF (Some ["KanR"; "KanR"]); LF (Some ["AmpR"])]) = Ok (Some "Kanamycin")
  /\ find_resistance_src (LR "p" [LF (Some ["KanR"; "AmpR"])]) = Err XRuntimeError
  /\ find_resistance_src (LR "p" [LF (Some ["ori"])]) = Err XRuntimeError.
Proof. vm_compute. auto. Qed.
