(* C08 / C09 over the definitions regenerated from the source (Gen/Src.v): the RECORD returned by
   vector.assemble — sequence and ordered feature table — is the annotation model's product, on
   which the theorems of C08 (every feature inside a retained stretch is carried with its
   denotation, nothing else is) and C09 (generated source features tile the product, each over a
   stretch occurring verbatim in the plasmid it names) are stated. Statements only. *)
From MV Require Import Base Record Regex Typing Assembly Pipeline Annot AnnotPipeline Py PyObj PyHeap SrcEquivCite SrcEquivAsmHeap
     SrcEquivRegex SrcEquivRecord SrcEquivTyping SrcEquivAssembly PyHeap SrcEquivCite SrcEquivAsmHeap.
From MV.Gen Require Import Src.
Open Scope Z_scope.

(* target_sequence() of a module / vector: Annot.fragment of its plasmid (rotate to the first cut,
   keep / drop the first L letters with the features wholly inside, append the source feature) *)
Theorem C08_src_fragment : forall e t, good_ent e -> tm_of e = Some t ->
  exists r3, ent_target_sequence e = Ok r3 /\ pr_kind r3 = KSeqRecord /\ same_sf (to_record r3) (frag_rec e).
Proof. exact ent_target_record. Qed.
Print Assumptions C08_src_fragment.

(* whenever the model says a product is returned: the translated assemble returns a CircularRecord
   whose sequence and feature table are Annot.product of the fragments of the consumed modules, in
   chain order, then the vector's; the consumed modules are arguments of the call *)
Theorem C08_src_product : forall vector modules,
  good_ent vector -> Forall good_ent modules ->
  map ent_id modules = seq 0 (List.length modules) ->
  match assemble_raw (ent_cls vector) (ent_seq_w vector) (map raw_of modules) with
  | Product w used unused =>
    exists prod ws usedE,
      vector_assemble (S (S (List.length modules))) vector modules = Ok (prod, ws)
      /\ map ent_id usedE = used /\ incl usedE modules
      /\ pr_kind prod = KCircularRecord
      /\ same_sf (to_record prod) (product (map frag_rec (usedE ++ [vector])))
  | _ => True
  end.
Proof. exact vector_assemble_records. Qed.
Print Assumptions C08_src_product.

(* non-vacuity: the translated code run on an annotated BsaI module and vector; the module's CDS
   inside the retained stretch is carried over, the feature over its discarded backbone is not,
   two generated source features tile the 14-nt product *)
Example C08_src_example :
  let mk := map (fun x => L x true) in
  let e := E [cG;cG;cT;cC;cT;cC] 1 4 in
  let m := mk [cG;cG;cT;cC;cT;cC;cA; cC;cT;cA;cT; cC;cC; cG;cC;cT;cT; cT; cG;cA;cG;cA;cC;cC; cA;cT] in
  let v := mk [cA; cC;cT;cA;cT; cT; cG;cA;cG;cA;cC;cC; cT;cT;cT;cT; cG;cG;cT;cC;cT;cC; cA; cG;cC;cT;cT; cC; cC;cA] in
  let me := ENT 0 (generic_cls RModule e)
               (PR KCircularRecord m 11 [F false 1 5 [P 8 12 Plus]; F false 2 6 [P 20 26 Minus]] an_empty [] 0) in
  let ve := ENT 99 (generic_cls RVector e) (PR KCircularRecord v 10 [] an_empty [] 0) in
  match vector_assemble 3 ve [me] with
  | Ok (prod, ws) =>
      pr_seq prod = mk [cC;cT;cA;cT;cC;cC; cG;cC;cT;cT;cC;cC;cA;cA] /\ ws = [] /\
      pr_features prod = [F false 1 5 [P 1 5 Plus]; F true 0 912 [P 0 6 NoStrand]; F true 0 911 [P 6 14 NoStrand]]
  | Err _ => False
  end.
Proof. vm_compute. repeat split. Qed.

(* the same of the entry point: when the inputs' citations dereference and the model yields a
   product, vector.assemble(module, *modules, **kwargs) AS REGENERATED (citations, metadata and
   all) returns ref_record (annotated ...) of a record p — so: p's sequence, and p's ordered
   feature table up to the renumbering of citations (Props/C10_src.v) — where p is the product of
   the fragments of the consumed modules in chain order, then the vector's, the inputs being read
   as they are once dereferenced *)
Theorem C08_src_entry_point : forall vector m ms kw hd,
  good_ent vector -> Forall good_ent (m :: ms) ->
  map ent_id (m :: ms) = seq 0 (List.length (m :: ms)) -> ent_id vector = List.length (m :: ms) ->
  deref_elems ((m :: ms) ++ [vector]) [] (heap_of (vector :: m :: ms)) = Ok hd ->
  match assemble_raw (ent_cls vector) (ent_seq_w vector) (map raw_of (m :: ms)) with
  | Product w used unused =>
    exists p ws mgr usedE,
      fst (run_assemble (S (S (List.length (m :: ms)))) vector (m :: ms) kw)
      = Ok (ref_record (annotated mgr (pr_id (ent_record vector)) (map (fun x => pr_id (ent_record x)) (m :: ms)) p), ws)
      /\ map ent_id usedE = used /\ incl usedE (refresh hd (m :: ms))
      /\ pr_kind p = KCircularRecord
      /\ same_sf (to_record p) (product (map frag_rec (usedE ++ [refresh hd vector])))
  | _ => True
  end.
Proof. exact run_assemble_records. Qed.
Print Assumptions C08_src_entry_point.
