(* C17 — validation is total and failures are always reported as MoClo errors.
   Statements only.  The model functions are total Gallina functions over every list of
   letters of the 30-letter IUPAC x case alphabet, so "is_valid returns a boolean and never
   raises" is the type of `is_valid`; what is stated here is what the errors are.  This is a
   safety statement about the model: the decisive part of the check is the correspondence
   (an implementation raising anything else disagrees with a total model). *)
From MV Require Import Base Regex RegexLemmas Shape ShapeLemmas Typing TypingLemmas Assembly Pipeline TotalLemmas.

(* on a record that is not valid, each query yields the invalid-sequence error (None) *)
Theorem C17_invalid_queries : forall c s, is_valid c s true = false ->
  overhang_start c s true = None /\ overhang_end c s true = None /\ target c s true = None /\
  placeholder c s true = None.
Proof. exact invalid_queries. Qed.
Print Assumptions C17_invalid_queries.

(* on an accepted record of any class of the common shape every query has a value: no
   missing group, no index error *)
Theorem C17_valid_queries : forall c sh s, cpat c = shape_pat sh -> is_valid c s true = true ->
  overhang_start c s true <> None /\ overhang_end c s true <> None /\ target c s true <> None /\
  placeholder c s true <> None.
Proof. exact valid_queries. Qed.
Print Assumptions C17_valid_queries.

(* an assembly over any mix of valid and invalid records ends with a product or with
   InvalidSequence / DuplicateModules / MissingModule, never with an internal error *)
Theorem C17_assemble : forall vc v ms, assemble_raw vc v ms <> EInternal.
Proof. exact assemble_raw_no_internal. Qed.
Print Assumptions C17_assemble.

(* non-vacuity: a record shorter than the structure is rejected, a queries yield the error *)
Example C17_example :
  let c := generic_cls RModule (E [cG;cG;cT;cC;cT;cC] 1 4) in
  let s := [L cG true; L cN false; L cR true] in
  is_valid c s true = false /\ overhang_start c s true = None /\
  assemble_raw (generic_cls RVector (E [cG;cG;cT;cC;cT;cC] 1 4)) s [(c, s)] = EInvalid.
Proof. vm_compute. repeat split. Qed.
