(* C07 — assembly is pure: inputs are left untouched, even when it fails.
   Statements only.  The store holds, per input record, its reference list and, per
   feature, its citation qualifier; the call dereferences citations one assignment at
   a time and may stop after any number `fuel` of them (invalid vector or duplicate:
   0; a missing module after j consumed modules, an exception raised by the j-th
   fragment extraction, a malformed citation: any later point; normal return: all). *)
From MV Require Import Base Citations CitationLemmas.

(* for every store and every point of interruption the inputs read exactly as before *)
Theorem C07_pure : forall (s : list crec) (fuel : nat), inputs_after fuel s = s.
Proof. exact inputs_restored. Qed.
Print Assumptions C07_pure.

(* what the body may touch at all: never a reference list, never the feature table *)
Theorem C07_frame : forall (s : list crec) (fuel : nat),
  map crefs (snd (deref_store fuel s)) = map crefs s /\
  map (fun x => map fkept (cfeats x)) (snd (deref_store fuel s)) = map (fun x => map fkept (cfeats x)) s.
Proof. exact deref_store_frame. Qed.
Print Assumptions C07_frame.

(* hence a repeated call starts from the same store and computes the same product *)
Theorem C07_repeat : forall (s : list crec) (f1 f2 : nat),
  product_citations (inputs_after f1 s) = product_citations s /\
  inputs_after f2 (inputs_after f1 s) = s.
Proof. intros s f1 f2. now rewrite !inputs_restored. Qed.
Print Assumptions C07_repeat.

(* sensitivity (F3): without the restoration a store interrupted after one assignment
   still holds a Reference object where the citation string was *)
Theorem C07_no_restore_refuted :
  exists s fuel, snd (deref_store fuel s) <> s.
Proof. exists [CR [7] [CF true [CIdx 1]]], 1. vm_compute. discriminate. Qed.
Print Assumptions C07_no_restore_refuted.

(* non-vacuity: two records, interruption in the middle of the second *)
Example C07_example :
  let s := [CR [5; 6] [CF true [CIdx 2; CIdx 1]; CF false [CIdx 1]]; CR [9] [CF true [CIdx 1; CIdx 1]]] in
  snd (deref_store 4 s) = [CR [5; 6] [CF true [CRef 6; CRef 5]; CF false [CRef 5]]; CR [9] [CF true [CRef 9; CIdx 1]]]
  /\ inputs_after 4 s = s.
Proof. vm_compute. split; reflexivity. Qed.
