(* C01 / C03 / C18 / C19 over the definitions regenerated from core/_assembly.py, modules.py,
   vectors.py, _structured.py, regex.py and record.py (Gen/Src.v): vector.assemble(modules), as
   translated from the source, is the model's assemble_raw, on which those properties' theorems are
   stated. Statements only. *)
From MV Require Import Base Regex Typing Assembly Pipeline Py PyObj SrcEquivRegex SrcEquivRecord SrcEquivTyping
     SrcEquivAssembly SrcCorollaries.
From MV.Gen Require Import Src.
Open Scope Z_scope.

(* for every vector and every list of modules (distinct objects numbered in argument order):
   the same product word and the same unused modules (UnusedModules warning), or the same error
   with the same arguments — InvalidSequence/IllegalSite, DuplicateModules(a, b),
   MissingModule(overhang) — as the model *)
Theorem C03_src_assemble : forall vector modules,
  good_ent vector -> Forall good_ent modules ->
  map ent_id modules = seq 0 (List.length modules) ->
  outcome_of (vector_assemble (S (S (List.length modules))) vector modules)
  = forget_used (assemble_raw (ent_cls vector) (ent_seq_w vector) (map raw_of modules)).
Proof. exact vector_assemble_eq. Qed.
Print Assumptions C03_src_assemble.

(* non-vacuity: the translated code run on the BsaI instance of C01_end_to_end_example (vector
   read from origin 7, modules from origins 5 and -3, given in the order second, first) returns
   the documented product, without warning *)
Example C03_src_example :
  let mk := map (fun x => L x true) in
  let e := E [cG;cG;cT;cC;cT;cC] 1 4 in
  let circ w i := PR KCircularRecord w i [] an_empty [] 0 in
  let m1 := mk [cG;cG;cT;cC;cT;cC;cA; cC;cT;cA;cT; cC;cC; cA;cA;cT;cG; cT; cG;cA;cG;cA;cC;cC; cA;cT] in
  let m2 := mk [cG;cG;cT;cC;cT;cC;cA; cA;cA;cT;cG; cA;cC;cA; cG;cC;cT;cT; cT; cG;cA;cG;cA;cC;cC; cT;cA] in
  let v := mk [cA; cC;cT;cA;cT; cT; cG;cA;cG;cA;cC;cC; cT;cT;cT;cT; cG;cG;cT;cC;cT;cC; cA; cG;cC;cT;cT; cC; cC;cA] in
  let ve := ENT 99 (generic_cls RVector e) (circ (rotr 7 v) 10%nat) in
  let e0 := ENT 0 (generic_cls RModule e) (circ (rotr 5 m2) 11%nat) in
  let e1 := ENT 1 (generic_cls RModule e) (circ (rotr (-3) m1) 12%nat) in
  outcome_of (vector_assemble 4 ve [e0; e1]) =
  Product (mk [cC;cT;cA;cT;cC;cC; cA;cA;cT;cG;cA;cC;cA; cG;cC;cT;cT; cC;cC;cA;cA]) [] [].
Proof. vm_compute. reflexivity. Qed.
