(* C17 over the regenerated definitions (Gen/Src.v), in which every Python exception the code
   can raise — IndexError from a missing group, KeyError from the dictionary, ZeroDivisionError
   from `%`, TypeError from `+`/`<<` on the wrong class, ValueError from the constructor — is a
   value of the exception monad. Statements only. *)
From MV Require Import Base Regex Typing Assembly Pipeline Py PyObj SrcEquivRegex SrcEquivRecord SrcEquivTyping
     SrcEquivAssembly SrcCorollaries Record PyHeap SrcEquivCite SrcEquivAsmHeap SrcCorollariesHeap.
From MV.Gen Require Import Src.
Open Scope Z_scope.

(* is_valid() returns a boolean and raises nothing, for every class, every record *)
Theorem C17_src_is_valid : forall e, fits e ->
  StructuredRecord_is_valid e = Ok (is_valid (ent_cls e) (pr_seq (ent_record e)) (ent_circ e)).
Proof. exact StructuredRecord_is_valid_eq. Qed.
Print Assumptions C17_src_is_valid.

(* an assembly over any mix of valid and invalid circular records typed by classes of the
   common shape returns, or raises one of InvalidSequence / IllegalSite / DuplicateModules /
   MissingModule — never IndexError, KeyError, TypeError, ValueError, ZeroDivisionError *)
Theorem C17_src_assemble : forall vector modules,
  good_ent vector -> Forall good_ent modules -> map ent_id modules = seq 0 (List.length modules) ->
  match vector_assemble (S (S (List.length modules))) vector modules with
  | Ok _ => True
  | Err x => documented x
  end.
Proof. exact src_assemble_total. Qed.
Print Assumptions C17_src_assemble.

(* every class of the common shape (all kit classes, all generic classes) gives good entities *)
Theorem C17_src_shaped : forall e, shaped_ent e -> good_ent e.
Proof. exact shaped_good. Qed.
Print Assumptions C17_src_shaped.

(* the same at the entry point: vector.assemble(module, *modules, **kwargs) AS REGENERATED, with
   its citation bookkeeping and metadata, on any mix of valid and invalid records of classes of
   the common shape whose citations (if any) dereference, returns or raises one of the four
   documented errors only *)
Theorem C17_src_entry_point : forall vector m ms kw hd,
  good_ent vector -> Forall good_ent (m :: ms) ->
  map ent_id (m :: ms) = seq 0 (List.length (m :: ms)) -> ent_id vector = List.length (m :: ms) ->
  deref_elems ((m :: ms) ++ [vector]) [] (heap_of (vector :: m :: ms)) = Ok hd ->
  match fst (run_assemble (S (S (List.length (m :: ms)))) vector (m :: ms) kw) with
  | Ok _ => True
  | Err x => documented x
  end.
Proof. exact entry_point_total. Qed.
Print Assumptions C17_src_entry_point.

(* and what can stop the dereferencing of a citation: TypeError (not a string), ValueError (not
   of the bracketed form, or no digits), IndexError (out of range) — nothing else *)
Theorem C17_src_deref_errors : forall refs c e,
  deref_cit refs c = Err e -> e = XTypeError \/ e = XValueError \/ e = XIndexError.
Proof. exact deref_cit_errors. Qed.
Print Assumptions C17_src_deref_errors.
