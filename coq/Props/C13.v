(* C13 — rotation of a circular record is a lossless group action.
   Statements only; every proof is `exact <lemma>`. *)
From MV Require Import Base RotLemmas Record RecordLemmas.
Open Scope Z_scope.

(* rotating right by k (0 <= k <= n) moves the last k letters to the front *)
Theorem C13_last_to_front : forall (A : Type) (k : nat) (s : list A),
  (k <= length s)%nat ->
  rotr (Z.of_nat k) s = skipn (length s - k) s ++ firstn (length s - k) s.
Proof. exact @rotr_last_to_front. Qed.
Print Assumptions C13_last_to_front.

(* for every integer k the letter at i ends up at (i + k) mod n *)
Theorem C13_moves : forall (A : Type) (k : Z) (s : list A) (d : A) (i : nat),
  (i < length s)%nat ->
  nth (Z.to_nat ((Z.of_nat i + k) mod Z.of_nat (length s))) (rotr k s) d = nth i s d.
Proof. exact @rotr_moves. Qed.
Print Assumptions C13_moves.

Theorem C13_length : forall (A : Type) (k : Z) (s : list A), length (rotr k s) = length s.
Proof. exact @rotr_length. Qed.
Print Assumptions C13_length.

(* rotations compose additively *)
Theorem C13_add : forall (A : Type) (j k : Z) (s : list A), rotr j (rotr k s) = rotr (j + k) s.
Proof. exact @rotr_add. Qed.
Print Assumptions C13_add.

(* any multiple of the length is the identity *)
Theorem C13_mul_len : forall (A : Type) (m : Z) (s : list A), rotr (m * Z.of_nat (length s)) s = s.
Proof. exact @rotr_mul_len. Qed.
Print Assumptions C13_mul_len.

(* left rotation is the inverse of right rotation *)
Theorem C13_rotl_rotr : forall (A : Type) (k : Z) (s : list A), rotl k (rotr k s) = s.
Proof. exact @rotl_rotr. Qed.
Print Assumptions C13_rotl_rotr.

Theorem C13_rotr_rotl : forall (A : Type) (k : Z) (s : list A), rotr k (rotl k s) = s.
Proof. exact @rotr_rotl. Qed.
Print Assumptions C13_rotr_rotl.

(* the record-level operator rotates the sequence and every per-letter track alike *)
Theorem C13_record_seq : forall k r, rseq (rot_record k r) = rotr k (rseq r).
Proof. exact rot_record_seq. Qed.
Print Assumptions C13_record_seq.

Theorem C13_record_tracks : forall k r,
  Forall (fun v => length v = length (rseq r)) (rtracks r) ->
  rtracks (rot_record k r) = map (rotr k) (rtracks r).
Proof. exact rot_record_tracks. Qed.
Print Assumptions C13_record_tracks.

(* each part of each feature covers, after rotation, exactly the images of the
   positions it covered, in order, on the same strand *)
Theorem C13_part_covers : forall idx n p, 0 < n ->
  covers_part n (rot_part idx n p) = map (fun x => (x + idx) mod n) (covers_part n p).
Proof. exact rot_part_covers. Qed.
Print Assumptions C13_part_covers.

(* every feature of the rotated record has the same type, qualifiers and strands
   and denotes the same nucleotides *)
Theorem C13_feature_denote : forall k r j f0,
  rseq r <> [] ->
  nth_error (rfeats r) j = Some f0 ->
  keeps_loc (zlen (rseq r)) f0 = false ->
  exists f1, nth_error (rfeats (rot_record k r)) j = Some f1 /\
    fsource f1 = fsource f0 /\ ftype f1 = ftype f0 /\ fquals f1 = fquals f0 /\
    map pstrand (floc f1) = map pstrand (floc f0) /\
    denote (rseq (rot_record k r)) (floc f1) = denote (rseq r) (floc f0).
Proof. exact rot_record_feature_denote. Qed.
Print Assumptions C13_feature_denote.

(* the whole-length source feature is kept and covers every position exactly once *)
Theorem C13_whole_source : forall idx n f sg,
  fsource f = true -> floc f = [P 0 n sg] ->
  rot_feature idx n f = f /\ covers n (floc f) = [zrange 0 n].
Proof. exact rot_feature_whole_source. Qed.
Print Assumptions C13_whole_source.

(* ... and these are the only features whose location is kept as it is *)
Theorem C13_kept_shape : forall n f,
  keeps_loc n f = true -> fsource f = true /\ exists sg, floc f = [P 0 n sg].
Proof. exact keeps_loc_shape. Qed.
Print Assumptions C13_kept_shape.

(* sensitivity: the pinned test (extreme coordinates only) also keeps a compound
   source location with a gap, which then denotes other nucleotides *)
Theorem C13_pinned_keeps_loc_refuted :
  exists n f, keeps_loc_pinned n f = true /\ ~ (exists sg, floc f = [P 0 n sg]).
Proof.
  exists 4, (F true 0 0 [P 0 1 Plus; P 2 4 Plus]). split; [reflexivity|].
  intros [sg H]. discriminate H.
Qed.
Print Assumptions C13_pinned_keeps_loc_refuted.

(* well-formed locations stay well-formed *)
Theorem C13_wf : forall idx n f, 0 <= idx < n ->
  Forall (wf_part n) (floc f) -> Forall (wf_part n) (floc (rot_feature idx n f)).
Proof. exact rot_feature_wf. Qed.
Print Assumptions C13_wf.

(* sensitivity: the pinned per-letter annotation rotation is the LEFT rotation,
   which differs from the right rotation on a concrete track *)
Theorem C13_pinned_track_refuted :
  exists (k : Z) (v : list Z), rot_track_pinned k v <> rotr k v.
Proof. exists 1, [0; 1; 2]. vm_compute. discriminate. Qed.
Print Assumptions C13_pinned_track_refuted.

(* non-vacuity: a 10-letter record with an origin-spanning reverse-strand feature *)
Example C13_example :
  let s := map (fun c => L c true) [cA;cC;cG;cT;cR;cY;cS;cW;cK;cM] in
  let f := F false 1 7 [P 8 12 Minus; P 2 4 Plus] in
  let r := R s [f] [[0;1;2;3;4;5;6;7;8;9]] in
  keeps_loc 10 f = false /\
  denote (rseq (rot_record 3 r)) (floc (rot_feature 3 10 f)) = denote s (floc f) /\
  rtracks (rot_record 3 r) = [[7;8;9;0;1;2;3;4;5;6]].
Proof. vm_compute. repeat split. Qed.
