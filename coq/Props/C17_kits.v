(* C17, obligation over the kit table regenerated from the working tree: every concrete kit
   class (and the generic structures of every enzyme of the family) has the common shape, so
   C17_valid_queries applies to it. Re-proved on every run. *)
From MV Require Import Base Regex RegexLemmas Shape ShapeLemmas Typing Pipeline TotalLemmas.
From MV.Gen Require Import Kits Enzymes.

Definition shaped (c : cls) : bool := match parse3 (cpat c) with Some _ => true | None => false end.

Definition all_shaped : bool :=
  forallb (fun k => shaped (kcls k)) kits &&
  forallb (fun x => shaped (generic_cls RModule (snd x)) && shaped (generic_cls RVector (snd x))) enzymes &&
  match unsupported with [] => true | _ => false end.

Lemma all_shaped_true : all_shaped = true.
Proof. vm_compute. reflexivity. Qed.

Theorem C17_kits_total : forall k s, In k kits -> is_valid (kcls k) s true = true ->
  overhang_start (kcls k) s true <> None /\ overhang_end (kcls k) s true <> None /\
  target (kcls k) s true <> None /\ placeholder (kcls k) s true <> None.
Proof.
  intros k s Hk Hv. pose proof all_shaped_true as H. unfold all_shaped in H.
  apply andb_prop in H. destruct H as [H _]. apply andb_prop in H. destruct H as [H _].
  rewrite forallb_forall in H. specialize (H k Hk). unfold shaped in H.
  destruct (parse3 (cpat (kcls k))) as [sh|] eqn:E; [|discriminate].
  apply parse3_sound in E. exact (valid_queries (kcls k) sh s E Hv).
Qed.
Print Assumptions C17_kits_total.
