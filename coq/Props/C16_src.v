(* C16 over the definitions regenerated from moclo/regex.py (Gen/Src.v). Statements only. *)
From MV Require Import Base Regex RegexLemmas Py PyObj SrcEquivRegex SrcCorollaries.
From MV.Gen Require Import Src.
Open Scope Z_scope.

(* DNARegex.search, as translated from the source, is the model's search: leftmost start in
   range, window of one turn on the doubled word when the target is circular *)
Theorem C16_src_search : forall items rec (pos : nat) (endpos : Z) linear,
  0 <= endpos ->
  DNARegex_search items rec (Z.of_nat pos) endpos linear =
  Ok (option_map (fun m => mk_SeqMatch m rec)
        (search items (pr_seq rec) (negb linear || is_CircularRecord rec) pos (Z.to_nat endpos))).
Proof. exact DNARegex_search_eq. Qed.
Print Assumptions C16_src_search.

(* what the translated search returns is the leftmost matching start of the range *)
Theorem C16_src_leftmost : forall items rec (pos : nat) (endpos : Z) linear sm,
  0 <= endpos ->
  DNARegex_search items rec (Z.of_nat pos) endpos linear = Ok (Some sm) ->
  let circ := negb linear || is_CircularRecord rec in
  let m := sm_match sm in
  (pos <= mstart m < Nat.min (List.length (pr_seq rec)) (Z.to_nat endpos))%nat /\
  (forall j, (pos <= j < mstart m)%nat -> matches_at items (pr_seq rec) circ j = false) /\
  (mend m - mstart m <= List.length (pr_seq rec))%nat /\
  (circ = false -> (mend m <= List.length (pr_seq rec))%nat).
Proof. exact src_search_leftmost. Qed.
Print Assumptions C16_src_leftmost.

Theorem C16_src_span : forall m rec sh g,
  SeqMatch_span (SM m rec sh) (Z.of_nat g) =
  match span m g with Some (a, b) => Ok (Z.of_nat a, Z.of_nat b) | None => Err XIndexError end.
Proof. exact SeqMatch_span_eq. Qed.
Print Assumptions C16_src_span.

(* SeqMatch.group, as translated, returns a record carrying exactly the model's group text *)
Theorem C16_src_group : forall m rec sh g,
  pr_seq rec <> [] ->
  match span m g with
  | Some sp => exists r, SeqMatch_group (SM m rec sh) (Z.of_nat g) = Ok r
                         /\ pr_seq r = group_of_span (pr_seq rec) sp /\ linear_kind r
  | None => SeqMatch_group (SM m rec sh) (Z.of_nat g) = Err XIndexError
  end.
Proof. exact SeqMatch_group_eq. Qed.
Print Assumptions C16_src_group.

(* every group of a match reported by the translated search, asked for as a sequence, is the
   text its span covers in the searched data (doubled when circular), also across the origin *)
Theorem C16_src_group_text : forall items rec (pos : nat) (endpos : Z) linear sm g a b,
  0 <= endpos ->
  DNARegex_search items rec (Z.of_nat pos) endpos linear = Ok (Some sm) ->
  span (sm_match sm) g = Some (a, b) ->
  exists r, SeqMatch_group sm (Z.of_nat g) = Ok r /\
            pr_seq r = slice (data_of (pr_seq rec) (negb linear || is_CircularRecord rec)) a b.
Proof. exact src_group_text. Qed.
Print Assumptions C16_src_group_text.
