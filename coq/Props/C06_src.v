(* C06 over the definition regenerated from core/_structured.py (Gen/Src.v): the per-class cache of
   compiled structure patterns. Statements only. *)
From MV Require Import Base Regex Typing Cache CacheLemmas Py PyObj SrcEquivCache.
From MV.Gen Require Import Src.
From Coq Require Import String.

(* StructuredRecord._get_regex, as translated (own-namespace test `cls.__dict__.get("_regex")`,
   assignment `cls._regex = ...`, ordinary attribute read `cls._regex` along the MRO), is one step
   of the cache state machine with the own-namespace lookup, for every class whose MRO starts with
   itself (every class: reflective obligation C06_kits_consistent for the kits) *)
Theorem C06_src_get_regex : forall e st,
  (exists rest, cmro e = cname e :: rest) ->
  StructuredRecord_get_regex e st =
  let (p, st') := get_regex lookup_own st e in Ok (Some p, st').
Proof. exact StructuredRecord_get_regex_eq. Qed.
Print Assumptions C06_src_get_regex.

(* hence every history of typing queries through the regenerated code answers as the machine does —
   for which C06_history proves that each answer is the one a fresh process gives *)
Theorem C06_src_history : forall h st,
  Forall (fun es => exists rest, cmro (fst es) = cname (fst es) :: rest) h ->
  src_run st h = Ok (run lookup_own st h).
Proof. intros h st. exact (src_run_eq h st). Qed.
Print Assumptions C06_src_history.
