(* C04 — reported overhangs and fragments are true restriction fragments of the cutter.
   Statements only.  The reflective obligations over the kit and enzyme tables are in
   Props/C04_kits.v. *)
From MV Require Import Base Regex RegexLemmas Shape ShapeLemmas Typing TypingLemmas ShapeTyping InnerCuts.

(* the recogniser of the common shape is sound *)
Theorem C04_parse : forall p sh, parse3 p = Some sh -> p = shape_pat sh.
Proof. exact parse3_sound. Qed.
Print Assumptions C04_parse.

(* for EVERY pattern of the common shape and every window: a reported match splits the
   matched text into  pre . g1 . (a . run . b) . g3 . post  with every piece matching its
   atoms letter by letter, and the three groups are exactly
   [|pre|, |pre|+|g1|), [.., e-|post|-|g3|), [.., e-|post|): the overhangs are the |g1| and
   |g3| letters at fixed offsets from the two ends of the match, group 2 is the stretch
   between them, and the three groups are adjacent (so group 1 + group 2, the module target
   and the vector placeholder, is one contiguous stretch) *)
Theorem C04_groups : forall sh (W : list letter) e sp,
  bt (shape_pat sh) W (length W) 0 1 [] [] = Some (e, sp) ->
  exists pc, firstn e W = pieces_text pc /\ pieces_ok sh pc /\ e = length (pieces_text pc) /\ e <= length W /\
             sp = [(3, q3 pc, q4 pc); (2, p2 pc, q3 pc); (1, p1 pc, p2 pc)].
Proof. exact shape_match. Qed.
Print Assumptions C04_groups.

(* what a class reports about a record is what it reports about the one-turn window at the
   start of the match (so the offsets above are offsets on the circle) *)
Theorem C04_window : forall c s m, search (cpat c) s true 0 (length s) = Some m ->
  observe c s = observe c (window s (mstart m)).
Proof. exact observe_at_start. Qed.
Print Assumptions C04_window.

(* what a class of the common shape reports about an accepted record, in terms of the
   pieces of the match on the circle read from the start of the match:
   overhangs = pieces g1 / g3; module target = g1 . g2 (leading overhang in, trailing out);
   vector target = g3 . post . rest-of-the-circle . pre (the complementary stretch);
   placeholder = g1 . g2 *)
Theorem C04_reports : forall c sh s m, cpat c = shape_pat sh -> typing c s true = Valid m ->
  exists pc rest, window s (mstart m) = pieces_text pc ++ rest /\ pieces_ok sh pc /\ mstart m < length s /\
    mend m = length (pieces_text pc) + mstart m /\
    observe c s =
      (true,
       Some (role_pick (crole c) (t1 pc) (t3 pc)),
       Some (role_pick (crole c) (t3 pc) (t1 pc)),
       Some (role_pick (crole c) (t1 pc ++ g2text pc) (t3 pc ++ tpost pc ++ rest ++ tpre pc)),
       Some (t1 pc ++ g2text pc)).
Proof. exact shape_observe. Qed.
Print Assumptions C04_reports.

(* the overhangs are the single-stranded ends at two cut positions of the declared enzyme:
   when the site is framed as `frames` checks (see C04_kits.v for all kit classes), the starts
   of groups 1 and 3 are cut positions of the enzyme on the circle, found by plain word
   occurrence of the recognition site or of its reverse complement, and both overhangs have
   the enzyme's overhang length *)
Theorem C04_cuts : forall c sh s m,
  cpat c = shape_pat sh ->
  frames (esite (cenz c)) (rc_codes (esite (cenz c))) (eoff (cenz c)) (eovh (cenz c)) sh = true ->
  typing c s true = Valid m ->
  exists pc rest, window s (mstart m) = pieces_text pc ++ rest /\ pieces_ok sh pc /\
    length (t1 pc) = eovh (cenz c) /\ length (t3 pc) = eovh (cenz c) /\
    span m 1 = Some (p1 pc + mstart m, p2 pc + mstart m) /\
    span m 3 = Some (q3 pc + mstart m, q4 pc + mstart m) /\
    cut_at (cenz c) s (p1 pc + mstart m) /\ cut_at (cenz c) s (q3 pc + mstart m).
Proof. exact frames_sound. Qed.
Print Assumptions C04_cuts.

(* no further cut strictly inside the target. For EVERY class of the common shape whose sites
   flank the target (`flanking`: the site and `off` letters end the prefix, `off` letters and the
   reverse site start the suffix — every kit module class but one, and the generic module class of
   every enzyme, see C04_kits.v), any non-palindromic cutter, and EVERY record the class accepts
   (well-formed or not, any rotation): in the matched stretch g0 = pre.g1.g2.g3.post, no occurrence
   of the recognition site on either strand — wherever it sits in g0 — cuts strictly inside the
   target g1.g2 = [p1, q3). (The screen `more than 3 fragments in the linear digest of g0` is what
   makes this true: the two framing sites already account for two kept cuts.) *)
Theorem C04_no_inner_cut : forall c sh s m,
  cpat c = shape_pat sh ->
  let e := cenz c in
  frames (esite e) (rc_codes (esite e)) (eoff e) (eovh e) sh = true ->
  flanking (esite e) (rc_codes (esite e)) (eoff e) sh = true ->
  esite e <> rc_codes (esite e) -> 0 < length (esite e) ->
  typing c s true = Valid m ->
  exists pc, group m s 0 = Some (pieces_text pc) /\ pieces_ok sh pc /\
    span m 1 = Some (p1 pc + mstart m, p2 pc + mstart m) /\
    span m 2 = Some (p2 pc + mstart m, q3 pc + mstart m) /\
    forall j, j < length (pieces_text pc) ->
      (occurs_here (esite e) (skipn j (pieces_text pc)) = true ->
         ~ (p1 pc < j + length (esite e) + eoff e < q3 pc)) /\
      (occurs_here (rc_codes (esite e)) (skipn j (pieces_text pc)) = true ->
         ~ (p1 pc + eoff e + eovh e < j < q3 pc + eoff e + eovh e)).
Proof. exact no_inner_cut. Qed.
Print Assumptions C04_no_inner_cut.

(* sharpness: a BsaI module whose target carries a third site is refused (IllegalSite), and the
   same plasmid with that site spoiled is accepted *)
Example C04_inner_site_refused :
  let e := E [cG;cG;cT;cC;cT;cC] 1 4 in
  let c := C RModule e (module_structure e) in
  let mk := map (fun x => L x true) in
  let bad  := mk [cG;cG;cT;cC;cT;cC;cA; cA;cA;cT;cG; cG;cG;cT;cC;cT;cC;cA;cA;cA;cA;cA;cA;cA;cA; cG;cC;cT;cT; cT;cG;cA;cG;cA;cC;cC; cA;cT] in
  let good := mk [cG;cG;cT;cC;cT;cC;cA; cA;cA;cT;cG; cG;cG;cT;cC;cA;cC;cA;cA;cA;cA;cA;cA;cA;cA; cG;cC;cT;cT; cT;cG;cA;cG;cA;cC;cC; cA;cT] in
  typing c bad true = IllegalSite /\ is_valid c good true = true.
Proof. vm_compute. split; reflexivity. Qed.

(* a vector's placeholder is one contiguous stretch of the plasmid and, followed by the
   target, it is the circle read from the placeholder's first nucleotide: together they
   cover every nucleotide exactly once *)
Theorem C04_placeholder : forall c sh s, cpat c = shape_pat sh -> crole c = RVector ->
  is_valid c s true = true ->
  exists ph tg a, placeholder c s true = Some ph /\ target c s true = Some tg /\
                  ph ++ tg = rotl (Z.of_nat a) s /\ length ph + length tg = length s.
Proof. exact placeholder_target_cover. Qed.
Print Assumptions C04_placeholder.

(* sensitivity (F7): the pinned placeholder (upstream overhang + body) is another word
   than the contiguous stretch group 1 + group 2 *)
Theorem C04_placeholder_pinned_refuted :
  exists c s, placeholder_pinned c s true <> placeholder c s true.
Proof.
  exists (C RVector (E [cG;cA;cA;cG;cA;cC] 2 4) (vector_structure (E [cG;cA;cA;cG;cA;cC] 2 4))),
    (map (fun x => L x true)
       [cC;cC; cA;cT;cG;cC; cT;cT;cG;cT;cC;cT;cT;cC; cC;cA;cC;cA; cG;cA;cA;cG;cA;cC;cT;cT; cC;cG;cT;cA; cG;cG]).
  vm_compute. discriminate.
Qed.
Print Assumptions C04_placeholder_pinned_refuted.

(* non-vacuity: the BpiI vector of the test-suite: overhangs, placeholder, target *)
Example C04_example :
  let e := E [cG;cA;cA;cG;cA;cC] 2 4 in
  let c := C RVector e (vector_structure e) in
  let s := map (fun x => L x true)
       [cC;cC; cA;cT;cG;cC; cT;cT;cG;cT;cC;cT;cT;cC; cC;cA;cC;cA; cG;cA;cA;cG;cA;cC;cT;cT; cC;cG;cT;cA; cG;cG] in
  exists sh, parse3 (cpat c) = Some sh /\
  overhang_end c s true = Some (map (fun x => L x true) [cA;cT;cG;cC]) /\
  overhang_start c s true = Some (map (fun x => L x true) [cC;cG;cT;cA]) /\
  option_map (@length letter) (placeholder c s true) = Some 24 /\
  option_map (@length letter) (target c s true) = Some 8.
Proof. eexists. vm_compute. repeat split. Qed.
