(* C09 (metadata of the product) on the definitions regenerated from the source. Statements only. *)
From MV Require Import Base Record Regex Typing Assembly Pipeline Py PyObj PyHeap
     SrcEquivAssembly SrcEquivHeap SrcEquivCite SrcEquivAsmHeap SrcCorollariesHeap.
From MV.Gen Require Import Src.
From Coq Require Import String.
Local Open Scope Z_scope.

(* _annotate_assembly(assembly) AS TRANSLATED FROM THE SOURCE, on a product the caller's records
   do not alias: id and name become the manager's, topology "circular", the fixed annotations, and
   a comment naming the vector's record and the modules' records in argument order *)
Theorem C09_src_annotate : forall self l h p rv mids,
  heap_get h l = Some p -> l <> ent_id (am_vector self) ->
  Forall (fun m => ent_id m <> l) (am_modules self) ->
  heap_get h (ent_id (am_vector self)) = Some rv ->
  Forall2 (fun m i => exists r, heap_get h (ent_id m) = Some r /\ pr_id r = i) (am_modules self) mids ->
  AssemblyManager_annotate_assembly self l h = (Ok tt, heap_set h l (annotated self (pr_id rv) mids p)).
Proof. exact annotate_eq. Qed.
Print Assumptions C09_src_annotate.

(* when the citations dereference and the assembly proper yields a product, vector.assemble(...,
   id=, name=) AS TRANSLATED returns it annotated and re-referenced ... *)
Theorem C09_src_product : forall vector m ms kw hd w un,
  good_ent vector -> Forall good_ent (m :: ms) ->
  map ent_id (m :: ms) = seq 0 (List.length (m :: ms)) -> ent_id vector = List.length (m :: ms) ->
  deref_elems ((m :: ms) ++ [vector]) [] (heap_of (vector :: m :: ms)) = Ok hd ->
  forget_used (assemble_raw (ent_cls vector) (ent_seq_w vector) (map raw_of (m :: ms))) = Product w [] un ->
  exists p ws mgr,
    fst (run_assemble (S (S (List.length (m :: ms)))) vector (m :: ms) kw)
    = Ok (ref_record (annotated mgr (pr_id (ent_record vector)) (map (fun x => pr_id (ent_record x)) (m :: ms)) p), ws)
    /\ am_id mgr = kw_id kw /\ am_name mgr = kw_name kw
    /\ pr_seq p = w /\ match ws with WUnusedModules ids :: _ => ids | [] => [] end = un
    /\ an_references (pr_annotations p) = None.
Proof. exact run_assemble_product. Qed.
Print Assumptions C09_src_product.

(* ... and such a record carries the requested id and name ("assembly" by default), the topology
   "circular", the molecule type and division GenBank needs, and the comment naming the vector
   and every supplied module *)
Theorem C09_src_metadata : forall self vid mids p,
  let prod := ref_record (annotated self vid mids p) in
  pr_kind prod = pr_kind p /\ pr_seq prod = pr_seq p /\ pr_id prod = am_id self /\ pr_name prod = am_name self
  /\ an_topology (pr_annotations prod) = Some "circular"%string
  /\ other_get (an_other (pr_annotations prod)) "comment" = Some (AComment [LGenerated; LVector vid; LModules mids])
  /\ other_get (an_other (pr_annotations prod)) "molecule_type" = Some (AStr "ds-DNA")
  /\ other_get (an_other (pr_annotations prod)) "data_file_division" = Some (AStr "SYN").
Proof. exact product_metadata. Qed.
Print Assumptions C09_src_metadata.
