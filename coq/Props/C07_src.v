(* C07 on the definitions regenerated from the source (Gen/Src.v, heap style). Statements only. *)
From MV Require Import Base Record Regex Typing Assembly Pipeline Py PyObj PyHeap SrcEquivHeap SrcEquivCite SrcEquivAsmHeap.
From MV.Gen Require Import Src.
From Coq Require Import String.
Local Open Scope Z_scope.

(* AssemblyManager.assemble AS TRANSLATED FROM THE SOURCE, started on any heap whose records are
   those of the manager's elements: whatever it does — return, warn, raise a documented error,
   or raise anything half-way through the dereferencing of the citations — every record of the
   heap reads afterwards exactly as before: sequence, identifiers, features, qualifiers with
   their citation lists, annotations with the reference list, tracks *)
Theorem C07_src_assemble : forall fuel self h0,
  (forall l, In l (heap_keys h0) -> In l (map ent_id (am_elements self))) ->
  forall l r0, heap_get h0 l = Some r0 -> heap_get (snd (AssemblyManager_assemble fuel self h0)) l = Some r0.
Proof. exact assemble_restores. Qed.
Print Assumptions C07_src_assemble.

(* the same of vector.assemble(module, *modules, **kwargs), from the records the caller holds *)
Theorem C07_src_vector_assemble : forall fuel vector m ms kwargs,
  let h0 := heap_of (vector :: m :: ms) in
  forall l r0, heap_get h0 l = Some r0 ->
  heap_get (snd (AbstractVector_assemble fuel vector m ms kwargs h0)) l = Some r0.
Proof. exact vector_assemble_restores. Qed.
Print Assumptions C07_src_vector_assemble.

(* the pieces: none of the translated in-place methods changes anything of a record the caller
   holds but the contents of citation lists that exist (h0: the heap at the start of the call) *)
Theorem C07_src_deref_shape : forall h0 self l, ok h0 (AssemblyManager_deref_citations self l).
Proof. exact ok_deref_citations. Qed.
Print Assumptions C07_src_deref_shape.

Theorem C07_src_product_only : forall h0 self l, fresh h0 l ->
  ok h0 (AssemblyManager_annotate_assembly self l) /\ ok h0 (AssemblyManager_ref_citations self l).
Proof. intros h0 self l H. split; [now apply ok_annotate_assembly|now apply ok_ref_citations]. Qed.
Print Assumptions C07_src_product_only.

(* non-vacuity: the translated code run on a BsaI module whose features cite two references and a
   vector citing one: the product is re-referenced, and the inputs read as before; with a
   citation pointing past the reference list the call raises IndexError after the first
   citation has already been dereferenced, and the inputs still read as before *)
Example C07_src_example :
  let mk := map (fun x => L x true) in
  let e := E [cG;cG;cT;cC;cT;cC] 1 4 in
  let m := mk [cG;cG;cT;cC;cT;cC;cA; cC;cT;cA;cT; cC;cC; cG;cC;cT;cT; cT; cG;cA;cG;cA;cC;cC; cA;cT] in
  let v := mk [cA; cC;cT;cA;cT; cT; cG;cA;cG;cA;cC;cC; cT;cT;cT;cT; cG;cG;cT;cC;cT;cC; cA; cG;cC;cT;cT; cC; cC;cA] in
  let mrec c2 := PR KCircularRecord m 11 [F false 1 (Q 5 (Some [QStr "[2]"; QStr c2])) [P 8 12 Plus]]
                    (AN (Some "circular"%string) (Some [QRef 70; QRef 71]) []) [] 3 in
  let vrec := PR KCircularRecord v 10 [F false 3 (Q 7 (Some [QStr "[1]"])) [P 28 30 Plus]] (AN None (Some [QRef 71]) []) [] 4 in
  let ve := ENT 99 (generic_cls RVector e) vrec in
  (let '(r, h) := run_assemble 3 ve [ENT 0 (generic_cls RModule e) (mrec "[1]"%string)] [("id"%string, 55%nat)] in
   match r with
   | Ok (p, ws) => pr_id p = 55%nat /\ an_references (pr_annotations p) = Some [QRef 71; QRef 70]
                   /\ map (fun f => qcits (fquals f)) (pr_features p)
                      = [Some [QStr "[1]"; QStr "[2]"]; None; Some [QStr "[1]"]; None]
   | Err _ => False
   end /\ heap_get h 0%nat = Some (mrec "[1]"%string) /\ heap_get h 99%nat = Some vrec)
  /\
  (let '(r, h) := run_assemble 3 ve [ENT 0 (generic_cls RModule e) (mrec "[9]"%string)] [] in
   r = Err XIndexError /\ heap_get h 0%nat = Some (mrec "[9]"%string) /\ heap_get h 99%nat = Some vrec).
Proof. vm_compute. repeat split. Qed.

(* consequently repeating the same call, or retrying with corrected modules after a failure, is
   calling on the same values: after vector.assemble(...) AS REGENERATED, whatever its outcome,
   every argument read through the heap it left is the argument that was passed *)
Theorem C07_src_repeat : forall fuel vector m ms kw,
  NoDup (map ent_id (vector :: m :: ms)) ->
  let h1 := snd (run_assemble fuel vector (m :: ms) kw) in
  refresh h1 vector = vector /\ refresh h1 (m :: ms) = m :: ms.
Proof. exact run_assemble_repeat. Qed.
Print Assumptions C07_src_repeat.
