(* C05, obligations over the kit table regenerated from the working tree: every class that
   derives its structure from its signature has exactly the pattern the model derives from
   (role, signature, cutter); that pattern and the signature-free pattern of the same role
   and enzyme have the common shape and the former refines the latter.  Classes that
   override structure() are counted and listed by name in the evidence. Re-proved on every run. *)
From MV Require Import Base Regex RegexLemmas Shape ShapeLemmas Typing TypingLemmas ShapeTyping PartLemmas Pipeline.
From MV.Gen Require Import Kits.
From Coq Require Import String.

Definition item_eqb (a b : item) : bool :=
  match a, b with
  | Atom c, Atom d | StarG c, StarG d | StarL c, StarL d => codes_eqb c d
  | Open, Open | Close, Close => true
  | _, _ => false
  end.

Fixpoint pattern_eqb (a b : pattern) : bool :=
  match a, b with
  | [], [] => true
  | x :: a', y :: b' => item_eqb x y && pattern_eqb a' b'
  | _, _ => false
  end.

Lemma item_eqb_eq a b : item_eqb a b = true -> a = b.
Proof. destruct a, b; cbn; intros H; try discriminate; try reflexivity; f_equal; now apply codes_eqb_eq. Qed.

Lemma pattern_eqb_eq a b : pattern_eqb a b = true -> a = b.
Proof.
  revert b. induction a as [|x a IH]; destruct b as [|y b]; cbn; intros H; try discriminate; [reflexivity|].
  apply andb_prop in H. destruct H. f_equal; [now apply item_eqb_eq|now apply IH].
Qed.

Definition derived_ok (k : kitcls) : bool :=
  match ksig k with
  | Some (up, down) =>
      if kderived k then
        let c := kcls k in
        pattern_eqb (cpat c) (part_structure (crole c) (cenz c) up down) &&
        match parse3 (cpat c), parse3 (generic_structure (crole c) (cenz c)) with
        | Some P, Some G => shape_subb P G
        | _, _ => false
        end
      else true
  | None => true
  end.

Definition derived_count : nat :=
  List.length (filter (fun k => match ksig k with Some _ => kderived k | None => false end) kits).

Definition parts_ok : bool := forallb derived_ok kits && Nat.leb 50 derived_count.

Lemma parts_ok_true : parts_ok = true.
Proof. vm_compute. reflexivity. Qed.

(* for every signature-derived kit class: C05_iff applies with the generic class of the
   same role and enzyme, for every record with at most one occurrence of the generic structure *)
Theorem C05_kits : forall k up down s, In k kits -> ksig k = Some (up, down) -> kderived k = true ->
  cpat (kcls k) = part_structure (crole (kcls k)) (cenz (kcls k)) up down /\
  exists P G, cpat (kcls k) = shape_pat P /\
    generic_structure (crole (kcls k)) (cenz (kcls k)) = shape_pat G /\ shape_sub P G /\
    (unique_occ (shape_pat G) s ->
     is_valid (kcls k) s true =
       is_valid (generic_cls (crole (kcls k)) (cenz (kcls k))) s true &&
       sig_test P (generic_cls (crole (kcls k)) (cenz (kcls k))) s).
Proof.
  intros k up down s Hk Hsig Hd. pose proof parts_ok_true as H. unfold parts_ok in H.
  apply andb_prop in H. destruct H as [H _]. rewrite forallb_forall in H. specialize (H k Hk).
  unfold derived_ok in H. rewrite Hsig, Hd in H. apply andb_prop in H. destruct H as [Hpat Hsh].
  apply pattern_eqb_eq in Hpat. split; [exact Hpat|].
  destruct (parse3 (cpat (kcls k))) as [P|] eqn:EP; [|discriminate].
  destruct (parse3 (generic_structure (crole (kcls k)) (cenz (kcls k)))) as [G|] eqn:EG; [|discriminate].
  apply parse3_sound in EP, EG. apply shape_subb_sound in Hsh.
  exists P, G. split; [exact EP|]. split; [exact EG|]. split; [exact Hsh|]. intros Hu.
  apply (part_iff P G (kcls k) (generic_cls (crole (kcls k)) (cenz (kcls k))) s Hsh EP); auto.
Qed.
Print Assumptions C05_kits.
