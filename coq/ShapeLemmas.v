(* ShapeLemmas.v — for a pattern of the common shape, every match decomposes the text
   into the seven pieces and the three groups sit at fixed offsets from its two ends. *)
From MV Require Import Base Regex RegexLemmas Shape.

Definition atoms_ok (cs : list cset) (t : list letter) : Prop :=
  Forall2 (fun c x => cmatch c (lcode x) = true) cs t.

Lemma atoms_ok_length cs t : atoms_ok cs t -> length t = length cs.
Proof. induction 1; cbn; congruence. Qed.

Lemma take_atoms_spec p : p = atoms (fst (take_atoms p)) ++ snd (take_atoms p).
Proof.
  induction p as [|it r IH]; [reflexivity|]. destruct it; try reflexivity.
  cbn [take_atoms]. destruct (take_atoms r) as [cs rest]. cbn in *. now rewrite IH at 1.
Qed.

Theorem parse3_sound p sh : parse3 p = Some sh -> p = shape_pat sh.
Proof.
  unfold parse3. intros H.
  pose proof (take_atoms_spec p) as E0. destruct (take_atoms p) as [pre r1]. cbn in E0.
  destruct r1 as [|[| | | |] r2]; try discriminate.
  pose proof (take_atoms_spec r2) as E1. destruct (take_atoms r2) as [g1 r3]. cbn in E1.
  destruct r3 as [|[| | | |] r3]; try discriminate. destruct r3 as [|[| | | |] r4]; try discriminate.
  pose proof (take_atoms_spec r4) as E2. destruct (take_atoms r4) as [a r5]. cbn in E2.
  assert (K : forall lz c r6,
    (let (b, r7) := take_atoms r6 in
        match r7 with
        | Close :: Open :: r8 =>
          let (g3, r9) := take_atoms r8 in
          match r9 with
          | Close :: r10 =>
            let (post, r11) := take_atoms r10 in
            match r11 with
            | [] => Some (SH pre g1 a lz c b g3 post)
            | _ => None
            end
          | _ => None
          end
        | _ => None
        end) = Some sh ->
    star_item lz c :: r6 = star_item (slazy sh) (sstar sh) :: atoms (sb sh) ++ Close :: Open :: atoms (sg3 sh) ++ Close :: atoms (spost sh)
    /\ spre sh = pre /\ sg1 sh = g1 /\ sa sh = a).
  { intros lz c r6 Hk.
    pose proof (take_atoms_spec r6) as E3. destruct (take_atoms r6) as [b r7]. cbn in E3.
    destruct r7 as [|[| | | |] r7]; try discriminate. destruct r7 as [|[| | | |] r8]; try discriminate.
    pose proof (take_atoms_spec r8) as E4. destruct (take_atoms r8) as [g3 r9]. cbn in E4.
    destruct r9 as [|[| | | |] r10]; try discriminate.
    pose proof (take_atoms_spec r10) as E5. destruct (take_atoms r10) as [post r11]. cbn in E5.
    destruct r11; [|discriminate]. inversion Hk; subst sh; cbn.
    rewrite app_nil_r in E5. subst r10 r8 r6. auto. }
  unfold shape_pat.
  destruct r5 as [|[c|c|c| |] r6]; try discriminate.
  - apply (K false) in H. destruct H as (Hr & <- & <- & <-). subst p r2 r4.
    change (star_item false c) with (StarG c) in Hr. rewrite Hr. reflexivity.
  - apply (K true) in H. destruct H as (Hr & <- & <- & <-). subst p r2 r4.
    change (star_item true c) with (StarL c) in Hr. rewrite Hr. reflexivity.
Qed.

(* ---------- stepping through a block of atoms ---------------------------------- *)

Lemma dm_atoms cs : forall r txt ls, dm (atoms cs ++ r) txt ls ->
  exists t1 t2 ls', txt = t1 ++ t2 /\ atoms_ok cs t1 /\ ls = repeat 1 (length cs) ++ ls' /\ dm r t2 ls'.
Proof.
  induction cs as [|c cs IH]; intros r txt ls H; cbn in *.
  - exists [], txt, ls. repeat split; auto. constructor.
  - inversion H; subst. destruct (IH _ _ _ H5) as (t1 & t2 & ls' & -> & Hok & -> & Hd).
    exists (x :: t1), t2, ls'. repeat split; auto. now constructor.
Qed.

Lemma spans_of_atoms cs : forall r ls' pos g st sp,
  spans_of (atoms cs ++ r) (repeat 1 (length cs) ++ ls') pos g st sp = spans_of r ls' (pos + length cs) g st sp.
Proof.
  induction cs as [|c cs IH]; intros r ls' pos g st sp; cbn [atoms map app length repeat].
  - now rewrite Nat.add_0_r.
  - cbn [spans_of]. fold (atoms cs). rewrite IH. f_equal. lia.
Qed.

Lemma dm_star lz c r txt ls : dm (star_item lz c :: r) txt ls ->
  exists run t2 ls', txt = run ++ t2 /\ Forall (fun l => cmatch c (lcode l) = true) run /\
                     ls = length run :: ls' /\ dm r t2 ls'.
Proof. destruct lz; cbn; intros H; inversion H; subst; eauto 10. Qed.

Lemma spans_of_star lz c r l ls' pos g st sp :
  spans_of (star_item lz c :: r) (l :: ls') pos g st sp = spans_of r ls' (pos + l) g st sp.
Proof. destruct lz; reflexivity. Qed.

(* ---------- the decomposition ---------------------------------------------------- *)

Record pieces := PC { tpre : list letter; t1 : list letter; ta : list letter; trun : list letter;
                      tb : list letter; t3 : list letter; tpost : list letter }.

Definition pieces_text (pc : pieces) : list letter :=
  tpre pc ++ t1 pc ++ ta pc ++ trun pc ++ tb pc ++ t3 pc ++ tpost pc.

Definition pieces_ok (sh : shape) (pc : pieces) : Prop :=
  atoms_ok (spre sh) (tpre pc) /\ atoms_ok (sg1 sh) (t1 pc) /\ atoms_ok (sa sh) (ta pc) /\
  Forall (fun l => cmatch (sstar sh) (lcode l) = true) (trun pc) /\
  atoms_ok (sb sh) (tb pc) /\ atoms_ok (sg3 sh) (t3 pc) /\ atoms_ok (spost sh) (tpost pc).

Definition p1 (pc : pieces) := length (tpre pc).
Definition p2 (pc : pieces) := p1 pc + length (t1 pc).
Definition q3 (pc : pieces) := p2 pc + length (ta pc) + length (trun pc) + length (tb pc).
Definition q4 (pc : pieces) := q3 pc + length (t3 pc).

Lemma shape_trace sh txt ls e sp :
  dm (shape_pat sh) txt ls -> spans_of (shape_pat sh) ls 0 1 [] [] = Some (e, sp) ->
  exists pc, txt = pieces_text pc /\ pieces_ok sh pc /\ e = length txt /\
             sp = [(3, q3 pc, q4 pc); (2, p2 pc, q3 pc); (1, p1 pc, p2 pc)].
Proof.
  unfold shape_pat. intros Hd Hs.
  apply dm_atoms in Hd. destruct Hd as (x0 & r0 & l0 & -> & Hpre & -> & Hd). rewrite spans_of_atoms in Hs.
  inversion Hd as [| | | |rr tt l1 Hd1|]; subst. clear Hd. cbn [spans_of] in Hs.
  apply dm_atoms in Hd1. destruct Hd1 as (x1 & r1 & l1' & -> & Hg1 & -> & Hd). rewrite spans_of_atoms in Hs.
  inversion Hd as [| | | | |rr tt l2 Hd2]; subst. clear Hd. cbn [spans_of] in Hs.
  inversion Hd2 as [| | | |rr tt l3 Hd3|]; subst. clear Hd2. cbn [spans_of] in Hs.
  apply dm_atoms in Hd3. destruct Hd3 as (xa & ra & la & -> & Ha & -> & Hd). rewrite spans_of_atoms in Hs.
  apply dm_star in Hd. destruct Hd as (run & rb & lb & -> & Hrun & -> & Hd). rewrite spans_of_star in Hs.
  apply dm_atoms in Hd. destruct Hd as (xb & rc & lc & -> & Hb & -> & Hd). rewrite spans_of_atoms in Hs.
  inversion Hd as [| | | | |rr tt l4 Hd4]; subst. clear Hd. cbn [spans_of] in Hs.
  inversion Hd4 as [| | | |rr tt l5 Hd5|]; subst. clear Hd4. cbn [spans_of] in Hs.
  apply dm_atoms in Hd5. destruct Hd5 as (x3 & r3 & l6 & -> & Hg3 & -> & Hd). rewrite spans_of_atoms in Hs.
  inversion Hd as [| | | | |rr tt l7 Hd7]; subst. clear Hd. cbn [spans_of] in Hs.
  rewrite <- (app_nil_r (atoms (spost sh))) in Hd7, Hs.
  apply dm_atoms in Hd7. destruct Hd7 as (xp & rp & lp & -> & Hpost & -> & Hd). rewrite spans_of_atoms in Hs.
  inversion Hd; subst. cbn [spans_of] in Hs. inversion Hs; subst. clear Hs Hd.
  exists (PC x0 x1 xa run xb x3 xp). unfold pieces_text, pieces_ok, p1, p2, q3, q4. cbn.
  rewrite app_nil_r.
  rewrite <- (atoms_ok_length _ _ Hpre), <- (atoms_ok_length _ _ Hg1), <- (atoms_ok_length _ _ Ha),
          <- (atoms_ok_length _ _ Hb), <- (atoms_ok_length _ _ Hg3), <- (atoms_ok_length _ _ Hpost).
  repeat split; auto; try (rewrite !app_length; lia); try (repeat f_equal; lia).
Qed.

(* the same for a match relative to its window *)
Theorem shape_match sh (W : list letter) e sp :
  bt (shape_pat sh) W (length W) 0 1 [] [] = Some (e, sp) ->
  exists pc, firstn e W = pieces_text pc /\ pieces_ok sh pc /\ e = length (pieces_text pc) /\ e <= length W /\
             sp = [(3, q3 pc, q4 pc); (2, p2 pc, q3 pc); (1, p1 pc, p2 pc)].
Proof.
  intros H. apply bt_trace in H. destruct H as (ls & _ & Hav & _ & Hd & Hs).
  rewrite Nat.sub_0_r in *.
  destruct (shape_trace _ _ _ _ _ Hd Hs) as (pc & Ht & Hok & He & Hsp).
  exists pc. split; [exact Ht|]. split; [exact Hok|]. split; [now rewrite <- Ht|]. split; [lia|exact Hsp].
Qed.
