(* AnnotLemmas.v — inherited features denote the same nucleotides (C08); the provenance
   features tile the product (C09). *)
From MV Require Import Base RotLemmas Record RecordLemmas Annot.
Open Scope Z_scope.

(* a part lying inside [lo, hi) *)
Definition part_in (lo hi : Z) (p : part) : Prop := lo <= pstart p /\ pstart p <= pend p /\ pend p <= hi.

Lemma zlen_nonneg {A} (l : list A) : 0 <= zlen l.
Proof. unfold zlen. lia. Qed.

Lemma nth_slice {A} (s : list A) a b j d : (j < b - a)%nat -> nth j (slice s a b) d = nth (a + j) s d.
Proof. intros H. unfold slice. rewrite nth_firstn_lt by lia. apply nth_skipn_add. Qed.

Lemma slice_length {A} (s : list A) a b : (a <= b)%nat -> (b <= length s)%nat -> length (slice s a b) = (b - a)%nat.
Proof. intros H1 H2. unfold slice. rewrite firstn_length, skipn_length. lia. Qed.

Lemma letters_at_ext {A} (d : A) s s' ps ps' : length ps = length ps' ->
  (forall i, (i < length ps)%nat -> nth (Z.to_nat (nth i ps 0)) s d = nth (Z.to_nat (nth i ps' 0)) s' d) ->
  letters_at d s ps = letters_at d s' ps'.
Proof.
  revert ps'. induction ps as [|x ps IH]; intros [|y ps'] Hl H; cbn in *; try discriminate; [reflexivity|].
  f_equal; [exact (H 0%nat ltac:(lia))|]. apply IH; [lia|]. intros i Hi. exact (H (S i) ltac:(lia)).
Qed.

(* pointwise form used below *)
Lemma denote_part_pointwise s s' p p' :
  pstrand p = pstrand p' -> pend p - pstart p = pend p' - pstart p' ->
  (forall k, 0 <= k < pend p - pstart p ->
     nth (Z.to_nat ((pstart p + k) mod zlen s)) s dN = nth (Z.to_nat ((pstart p' + k) mod zlen s')) s' dN) ->
  denote_part s p = denote_part s' p'.
Proof.
  intros Hs Hl H. unfold denote_part. rewrite Hs.
  assert (E : letters_at dN s (covers_part (zlen s) p) = letters_at dN s' (covers_part (zlen s') p')).
  { unfold letters_at, covers_part, zrange. rewrite !map_map. rewrite Hl.
    apply map_ext_in. intros i Hi. apply in_seq in Hi.
    apply (H (Z.of_nat i)). lia. }
  now rewrite E.
Qed.

(* slicing keeps what a contained part denotes *)
Lemma denote_part_slice s a b p : 0 <= a -> a <= b -> b <= zlen s -> part_in a b p ->
  denote_part (slice s (Z.to_nat a) (Z.to_nat b)) (shift_part (- a) p) = denote_part s p.
Proof.
  intros Ha Hab Hb (H1 & H2 & H3). apply denote_part_pointwise; cbn [pstart pend pstrand shift_part]; [reflexivity|lia|].
  intros k Hk. unfold zlen in *. rewrite slice_length by lia.
  rewrite (Z.mod_small (pstart p + - a + k)) by lia. rewrite (Z.mod_small (pstart p + k)) by lia.
  rewrite nth_slice by lia. f_equal. lia.
Qed.

(* concatenation: a part inside the left operand, a shifted part inside the right operand *)
Lemma denote_part_app_l x y p : part_in 0 (zlen x) p -> denote_part (x ++ y) p = denote_part x p.
Proof.
  intros (H1 & H2 & H3). apply denote_part_pointwise; [reflexivity|lia|].
  intros k Hk. unfold zlen in *. rewrite app_length.
  rewrite !Z.mod_small by lia. apply app_nth1. lia.
Qed.

Lemma denote_part_app_r x y p : part_in 0 (zlen y) p ->
  denote_part (x ++ y) (shift_part (zlen x) p) = denote_part y p.
Proof.
  intros (H1 & H2 & H3). apply denote_part_pointwise; cbn [pstart pend pstrand shift_part]; [reflexivity|lia|].
  intros k Hk. unfold zlen in *. rewrite app_length.
  rewrite !Z.mod_small by lia. rewrite app_nth2 by lia. f_equal. lia.
Qed.

Definition loc_in (lo hi : Z) (l : loc) : Prop := Forall (part_in lo hi) l.

Lemma denote_slice s a b l : 0 <= a -> a <= b -> b <= zlen s -> loc_in a b l ->
  denote (slice s (Z.to_nat a) (Z.to_nat b)) (map (shift_part (- a)) l) = denote s l.
Proof.
  intros Ha Hab Hb H. unfold denote. rewrite map_map. f_equal.
  induction H as [|p l Hp H IH]; cbn; [reflexivity|]. f_equal; [now apply denote_part_slice|exact IH].
Qed.

Lemma denote_app_l x y l : loc_in 0 (zlen x) l -> denote (x ++ y) l = denote x l.
Proof.
  intros H. unfold denote. f_equal. induction H as [|p l Hp H IH]; cbn; [reflexivity|].
  f_equal; [now apply denote_part_app_l|exact IH].
Qed.

Lemma denote_app_r x y l : loc_in 0 (zlen y) l -> denote (x ++ y) (map (shift_part (zlen x)) l) = denote y l.
Proof.
  intros H. unfold denote. rewrite map_map. f_equal. induction H as [|p l Hp H IH]; cbn; [reflexivity|].
  f_equal; [now apply denote_part_app_r|exact IH].
Qed.

(* ---------- slicing keeps exactly the contained features ------------------------------ *)

Lemma slice_feats_in a b fs g : In g (slice_feats a b fs) <->
  exists f, In f fs /\ a <= loc_start (floc f) /\ loc_end (floc f) <= b /\ g = shift_feature (- a) f.
Proof.
  unfold slice_feats. rewrite in_map_iff. split.
  - intros (f & <- & Hf). apply filter_In in Hf. destruct Hf as [Hin Hb].
    apply andb_prop in Hb. destruct Hb as [H1 H2]. exists f. repeat split; auto; lia.
  - intros (f & Hin & H1 & H2 & ->). exists f. split; [reflexivity|]. apply filter_In. split; [exact Hin|].
    apply andb_true_intro. split; lia.
Qed.

(* the extreme coordinates bound every (well-ordered) part *)
Lemma fold_min_le_init l : forall m, fold_left (fun m q => Z.min m (pstart q)) l m <= m.
Proof. induction l as [|x l IH]; intros m; cbn; [lia|]. specialize (IH (Z.min m (pstart x))). lia. Qed.

Lemma fold_max_ge_init l : forall m, m <= fold_left (fun m q => Z.max m (pend q)) l m.
Proof. induction l as [|x l IH]; intros m; cbn; [lia|]. specialize (IH (Z.max m (pend x))). lia. Qed.

Lemma fold_min_le l : forall m p, In p l -> fold_left (fun m q => Z.min m (pstart q)) l m <= pstart p.
Proof.
  induction l as [|q l IH]; intros m p Hp; [destruct Hp|]. destruct Hp as [<-|Hp]; cbn.
  - pose proof (fold_min_le_init l (Z.min m (pstart q))). lia.
  - now apply IH.
Qed.

Lemma fold_max_ge l : forall m p, In p l -> pend p <= fold_left (fun m q => Z.max m (pend q)) l m.
Proof.
  induction l as [|q l IH]; intros m p Hp; [destruct Hp|]. destruct Hp as [<-|Hp]; cbn.
  - pose proof (fold_max_ge_init l (Z.max m (pend q))). lia.
  - now apply IH.
Qed.

Lemma loc_bounds l p : In p l -> loc_start l <= pstart p /\ pend p <= loc_end l.
Proof.
  destruct l as [|q l]; [intros []|]. intros [<-|Hp]; unfold loc_start, loc_end.
  - split; [apply fold_min_le_init|apply fold_max_ge_init].
  - split; [now apply fold_min_le|now apply fold_max_ge].
Qed.

Lemma loc_in_of_bounds a b l : Forall (fun p => pstart p <= pend p) l ->
  a <= loc_start l -> loc_end l <= b -> loc_in a b l.
Proof.
  intros Hw H1 H2. unfold loc_in. rewrite Forall_forall in *. intros p Hp.
  destruct (loc_bounds l p Hp). specialize (Hw p Hp). unfold part_in. lia.
Qed.

(* ---------- the product ------------------------------------------------------------------ *)

Lemma product_fold frs : forall acc,
  rseq (fold_left concat_record frs acc) = rseq acc ++ concat (map rseq frs) /\
  rfeats (fold_left concat_record frs acc) = rfeats acc ++ layout (zlen (rseq acc)) frs.
Proof.
  induction frs as [|fr r IH]; intros acc; cbn [fold_left map concat layout].
  - now rewrite !app_nil_r.
  - destruct (IH (concat_record acc fr)) as [H1 H2]. rewrite H1, H2. cbn [concat_record rseq rfeats].
    rewrite <- !app_assoc. split; [reflexivity|]. f_equal. f_equal.
    unfold zlen. rewrite app_length. f_equal. lia.
Qed.

Theorem product_seq frs : rseq (product frs) = concat (map rseq frs).
Proof. unfold product. destruct (product_fold frs (R [] [] [])) as [H _]. exact H. Qed.

Theorem product_feats frs : rfeats (product frs) = layout 0 frs.
Proof. unfold product. destruct (product_fold frs (R [] [] [])) as [_ H]. exact H. Qed.

(* offset of fragment j in the product *)
Fixpoint offset (frs : list record) (j : nat) : Z :=
  match j, frs with
  | S j', fr :: r => zlen (rseq fr) + offset r j'
  | _, _ => 0
  end.

Lemma layout_in frs : forall off j fr f, nth_error frs j = Some fr -> In f (rfeats fr) ->
  In (shift_feature (off + offset frs j) f) (layout off frs).
Proof.
  induction frs as [|x r IH]; intros off j fr f Hj Hf; [destruct j; discriminate|].
  destruct j as [|j]; cbn in *.
  - inversion Hj; subst. apply in_or_app. left. rewrite Z.add_0_r. now apply in_map.
  - apply in_or_app. right. rewrite Z.add_assoc. now apply (IH _ j fr f).
Qed.

Lemma concat_split frs : forall j fr, nth_error frs j = Some fr ->
  exists pre post, concat (map rseq frs) = pre ++ rseq fr ++ post /\ zlen pre = offset frs j.
Proof.
  induction frs as [|x r IH]; intros j fr Hj; [destruct j; discriminate|].
  destruct j as [|j]; cbn in *.
  - inversion Hj; subst. exists [], (concat (map rseq r)). split; reflexivity.
  - destruct (IH j fr Hj) as (pre & post & E & Hl). exists (rseq x ++ pre), post.
    rewrite E, <- app_assoc. split; [reflexivity|]. unfold zlen in *. rewrite app_length. lia.
Qed.

(* C08: a feature of fragment j, lying inside the fragment, appears in the product shifted by
   the fragment's offset and denotes there exactly what it denoted in the fragment *)
Theorem product_feature_image frs j fr f : nth_error frs j = Some fr -> In f (rfeats fr) ->
  loc_in 0 (zlen (rseq fr)) (floc f) ->
  In (shift_feature (offset frs j) f) (rfeats (product frs)) /\
  denote (rseq (product frs)) (floc (shift_feature (offset frs j) f)) = denote (rseq fr) (floc f).
Proof.
  intros Hj Hf Hin. split.
  - rewrite product_feats. pose proof (layout_in frs 0 j fr f Hj Hf) as H. now rewrite Z.add_0_l in H.
  - rewrite product_seq. destruct (concat_split frs j fr Hj) as (pre & post & E & Hl).
    rewrite E. cbn [floc shift_feature]. rewrite <- Hl.
    rewrite denote_app_r.
    + now apply denote_app_l.
    + unfold loc_in in *. eapply Forall_impl; [|exact Hin]. intros p (H1 & H2 & H3).
      unfold part_in, zlen in *. rewrite app_length. lia.
Qed.

(* conversely every feature of the product is such an image *)
Lemma layout_inv frs : forall off g, In g (layout off frs) ->
  exists j fr f, nth_error frs j = Some fr /\ In f (rfeats fr) /\ g = shift_feature (off + offset frs j) f.
Proof.
  induction frs as [|x r IH]; intros off g Hg; cbn in Hg; [contradiction|].
  apply in_app_or in Hg. destruct Hg as [Hg|Hg].
  - apply in_map_iff in Hg. destruct Hg as (f & <- & Hf). exists 0%nat, x, f. cbn. rewrite Z.add_0_r. auto.
  - destruct (IH _ _ Hg) as (j & fr & f & Hj & Hf & ->). exists (S j), fr, f. cbn. rewrite Z.add_assoc. auto.
Qed.

Theorem product_feature_converse frs g : In g (rfeats (product frs)) ->
  exists j fr f, nth_error frs j = Some fr /\ In f (rfeats fr) /\ g = shift_feature (offset frs j) f.
Proof.
  rewrite product_feats. intros H. destruct (layout_inv frs 0 g H) as (j & fr & f & H1 & H2 & H3).
  exists j, fr, f. now rewrite Z.add_0_l in H3.
Qed.

(* ---------- the fragment an element contributes ------------------------------------------ *)

(* the image of a feature under `record << a` *)
Definition rotl_feature (a n : Z) (f : feature) : feature :=
  let idx := (- a) mod n in if idx mod n =? 0 then f else rot_feature (idx mod n) n f.

Lemma rotl_record_feats a r : rfeats (rotl_record a r) = map (rotl_feature a (zlen (rseq r))) (rfeats r).
Proof.
  unfold rotl_record. rewrite rot_record_feats. cbv zeta. unfold rotl_feature.
  destruct (((- a) mod zlen (rseq r)) mod zlen (rseq r) =? 0); [now rewrite map_id|reflexivity].
Qed.

Lemma rotl_record_seq a r : rseq (rotl_record a r) = rotl a (rseq r).
Proof.
  unfold rotl_record. rewrite rot_record_seq. unfold rotl, zlen. now rewrite rotr_mod.
Qed.

Lemma rotl_feature_denote a r f : rseq r <> [] -> keeps_loc (zlen (rseq r)) f = false ->
  denote (rotl a (rseq r)) (floc (rotl_feature a (zlen (rseq r)) f)) = denote (rseq r) (floc f) /\
  fsource (rotl_feature a (zlen (rseq r)) f) = fsource f /\ ftype (rotl_feature a (zlen (rseq r)) f) = ftype f /\
  fquals (rotl_feature a (zlen (rseq r)) f) = fquals f /\
  map pstrand (floc (rotl_feature a (zlen (rseq r)) f)) = map pstrand (floc f).
Proof.
  intros Hs Hk. unfold rotl_feature. set (n := zlen (rseq r)). set (idx := (- a) mod n).
  assert (Hr : rotl a (rseq r) = rotr (idx mod n) (rseq r)).
  { unfold rotl, idx, n, zlen. now rewrite !rotr_mod. }
  destruct (Z.eqb_spec (idx mod n) 0) as [E|E].
  - repeat split; auto. rewrite Hr, E. now rewrite rotr_0.
  - destruct (rot_feature_meta (idx mod n) n f) as (H1 & H2 & H3 & H4). repeat split; auto.
    rewrite Hr. now apply rot_feature_denote.
Qed.

Definition frag_lo (is_vector : bool) (L : Z) : Z := if is_vector then L else 0.
Definition frag_hi (is_vector : bool) (L n : Z) : Z := if is_vector then n else L.

Lemma fragment_seq is_vector a L j r : 0 <= L -> L <= zlen (rseq r) ->
  rseq (fragment is_vector a L j r) =
  slice (rotl a (rseq r)) (Z.to_nat (frag_lo is_vector L)) (Z.to_nat (frag_hi is_vector L (zlen (rseq r)))).
Proof. intros H1 H2. unfold fragment, frag_lo, frag_hi. destruct is_vector; cbn; now rewrite rotl_record_seq. Qed.

Lemma fragment_feats is_vector a L j r :
  rfeats (fragment is_vector a L j r) =
  slice_feats (frag_lo is_vector L) (frag_hi is_vector L (zlen (rseq r)))
              (map (rotl_feature a (zlen (rseq r))) (rfeats r))
  ++ [source_feature j (zlen (rseq (fragment is_vector a L j r)))].
Proof. unfold fragment, frag_lo, frag_hi. destruct is_vector; cbn; now rewrite rotl_record_feats. Qed.

(* C08 on one fragment: an input feature whose image under the rotation lies inside the retained
   stretch appears in the fragment, same type, qualifiers and strands, denoting the same nucleotides;
   one that does not lie inside is dropped (never truncated) *)
Theorem fragment_feature_image is_vector a L j r f0 :
  rseq r <> [] -> 0 <= L -> L <= zlen (rseq r) -> In f0 (rfeats r) -> keeps_loc (zlen (rseq r)) f0 = false ->
  let n := zlen (rseq r) in
  let f1 := rotl_feature a n f0 in
  let lo := frag_lo is_vector L in let hi := frag_hi is_vector L n in
  Forall (fun p => pstart p <= pend p) (floc f1) ->
  lo <= loc_start (floc f1) -> loc_end (floc f1) <= hi ->
  let g := shift_feature (- lo) f1 in
  In g (rfeats (fragment is_vector a L j r)) /\
  fsource g = fsource f0 /\ ftype g = ftype f0 /\ fquals g = fquals f0 /\
  map pstrand (floc g) = map pstrand (floc f0) /\
  denote (rseq (fragment is_vector a L j r)) (floc g) = denote (rseq r) (floc f0) /\
  loc_in 0 (zlen (rseq (fragment is_vector a L j r))) (floc g).
Proof.
  intros Hs HL0 HLn Hin Hk n f1 lo hi Hw Hlo Hhi g.
  destruct (rotl_feature_denote a r f0 Hs Hk) as (Hd & M1 & M2 & M3 & M4). fold n f1 in Hd, M1, M2, M3, M4.
  assert (Hlohi : 0 <= lo /\ lo <= hi /\ hi <= n).
  { unfold lo, hi, frag_lo, frag_hi. destruct is_vector; lia. }
  assert (Hrl : zlen (rotl a (rseq r)) = n) by (unfold zlen, n; now rewrite rotl_length).
  split.
  - rewrite fragment_feats. apply in_or_app. left. apply slice_feats_in.
    exists f1. repeat split; auto. now apply in_map.
  - repeat split; auto.
    + unfold g. cbn [floc shift_feature]. rewrite map_map. rewrite <- M4. apply map_ext. reflexivity.
    + rewrite fragment_seq by assumption. unfold g. cbn [floc shift_feature]. fold n. fold lo hi.
      rewrite denote_slice; [exact Hd|lia|lia|rewrite Hrl; lia|].
      now apply loc_in_of_bounds.
    + rewrite fragment_seq by assumption. fold n. fold lo hi. unfold zlen. rewrite slice_length;
        [|lia|rewrite rotl_length; unfold n, zlen in *; lia].
      pose proof (loc_in_of_bounds lo hi (floc f1) Hw Hlo Hhi) as Hli.
      unfold g. cbn [floc shift_feature]. unfold loc_in in *. rewrite Forall_map.
      eapply Forall_impl; [|exact Hli]. intros p (H1 & H2 & H3). unfold part_in. cbn. lia.
Qed.

Theorem fragment_feature_dropped is_vector a L j r g :
  In g (rfeats (fragment is_vector a L j r)) ->
  g = source_feature j (zlen (rseq (fragment is_vector a L j r))) \/
  exists f0, In f0 (rfeats r) /\
    let f1 := rotl_feature a (zlen (rseq r)) f0 in
    frag_lo is_vector L <= loc_start (floc f1) /\ loc_end (floc f1) <= frag_hi is_vector L (zlen (rseq r)) /\
    g = shift_feature (- frag_lo is_vector L) f1.
Proof.
  rewrite fragment_feats. intros H. apply in_app_or in H. destruct H as [H|[<-|[]]]; [right|now left].
  apply slice_feats_in in H. destruct H as (f1 & Hin & H1 & H2 & ->).
  apply in_map_iff in Hin. destruct Hin as (f0 & <- & Hf0). exists f0. auto.
Qed.

(* C09: the provenance features tile the product *)
Theorem source_tiling frs j fr len jj : nth_error frs j = Some fr -> In (source_feature jj len) (rfeats fr) ->
  In (F true 0 (901 + jj) [P (offset frs j) (len + offset frs j) NoStrand]) (rfeats (product frs)).
Proof.
  intros Hj Hin. rewrite product_feats. pose proof (layout_in frs 0 j fr _ Hj Hin) as H.
  rewrite Z.add_0_l in H. unfold shift_feature, source_feature in H. cbn in H.
  now replace (len + offset frs j) with (len + offset frs j) by lia.
Qed.

Lemma offset_next frs j fr : nth_error frs j = Some fr -> offset frs (S j) = offset frs j + zlen (rseq fr).
Proof.
  revert j. induction frs as [|x r IH]; intros j Hj; [destruct j; discriminate|].
  destruct j as [|j]; cbn in *.
  - inversion Hj; subst. destruct r; cbn; lia.
  - rewrite (IH j Hj). lia.
Qed.

Lemma offset_total frs : offset frs (length frs) = zlen (concat (map rseq frs)).
Proof.
  induction frs as [|x r IH]; cbn; [reflexivity|]. rewrite IH. unfold zlen. rewrite app_length. lia.
Qed.
