(* Anchors.v — a class whose cutter's site frames its structure (Shape.frames) has at most
   one occurrence of the structure on a circle that carries the recognition site and its
   reverse complement once each: the "exactly the two sites of the definition" hypothesis
   implies the uniqueness hypotheses of C02 and C05. *)
From MV Require Import Base RotLemmas Regex RegexLemmas Shape ShapeLemmas Typing TypingLemmas TotalLemmas
                       ShapeTyping PartLemmas.

(* a declarative match of the shape decomposes into the pieces *)
Lemma shape_dm sh txt ls : dm (shape_pat sh) txt ls -> exists pc, txt = pieces_text pc /\ pieces_ok sh pc.
Proof.
  unfold shape_pat. intros Hd.
  apply dm_atoms in Hd. destruct Hd as (x0 & r0 & l0 & -> & Hpre & -> & Hd).
  inversion Hd as [| | | |rr tt l1 Hd1|]; subst. clear Hd.
  apply dm_atoms in Hd1. destruct Hd1 as (x1 & r1 & l1' & -> & Hg1 & -> & Hd).
  inversion Hd as [| | | | |rr tt l2 Hd2]; subst. clear Hd.
  inversion Hd2 as [| | | |rr tt l3 Hd3|]; subst. clear Hd2.
  apply dm_atoms in Hd3. destruct Hd3 as (xa & ra & la & -> & Ha & -> & Hd).
  apply dm_star in Hd. destruct Hd as (run & rb & lb & -> & Hrun & -> & Hd).
  apply dm_atoms in Hd. destruct Hd as (xb & rc & lc & -> & Hb & -> & Hd).
  inversion Hd as [| | | | |rr tt l4 Hd4]; subst. clear Hd.
  inversion Hd4 as [| | | |rr tt l5 Hd5|]; subst. clear Hd4.
  apply dm_atoms in Hd5. destruct Hd5 as (x3 & r3 & l6 & -> & Hg3 & -> & Hd).
  inversion Hd as [| | | | |rr tt l7 Hd7]; subst. clear Hd.
  rewrite <- (app_nil_r (atoms (spost sh))) in Hd7.
  apply dm_atoms in Hd7. destruct Hd7 as (xp & rp & lp & -> & Hpost & -> & Hd).
  inversion Hd; subst.
  exists (PC x0 x1 xa run xb x3 xp). unfold pieces_text, pieces_ok. cbn. rewrite app_nil_r. repeat split; auto.
Qed.

(* site_at reads positions modulo the length *)
Lemma rotl_mod_nat {A} (s : list A) a : s <> [] -> rotl (Z.of_nat (a mod length s)) s = rotl (Z.of_nat a) s.
Proof.
  intros Hs. unfold rotl.
  assert (Hn : length s <> 0) by (destruct s; [congruence|cbn; lia]).
  pose proof (Nat.div_mod a (length s) Hn) as Hd.
  rewrite <- (rotr_periodic (- Z.of_nat (a mod length s)) (- Z.of_nat (a / length s)) s).
  f_equal. rewrite Hd at 3. rewrite Nat2Z.inj_add, Nat2Z.inj_mul. lia.
Qed.

Lemma site_at_mod w s a : s <> [] -> site_at w s (a mod length s) <-> site_at w s a.
Proof. intros Hs. unfold site_at. now rewrite rotl_mod_nat. Qed.

(* the word occurs (case-blind, circularly) at one position only *)
Definition occurs_once (w : list code) (s : list letter) : Prop :=
  forall a a', site_at w s a -> site_at w s a' -> a mod length s = a' mod length s.

(* where the two anchors of a framed shape sit, for a decomposition read from start i *)
Lemma anchors (site rsite : list code) (off ovh : nat) sh s i pc rest :
  i < length s -> window s i = pieces_text pc ++ rest -> pieces_ok sh pc ->
  let E := length (pieces_text pc) in
  (word_before_end off site (spre sh) = true -> site_at site s (length (spre sh) - off - length site + i)) /\
  (word_after off rsite (sa sh) = true -> site_at rsite s (length (spre sh) + length (sg1 sh) + off + i)) /\
  (word_before_end off site (sb sh) = true ->
     site_at site s (E - length (spost sh) - length (sg3 sh) - off - length site + i)) /\
  (word_after off rsite (spost sh) = true -> site_at rsite s (E - length (spost sh) + off + i)).
Proof.
  intros Hi HW Hok E. set (W := window s i) in *.
  destruct Hok as (Hpre & Hg1 & Ha & Hrun & Hb & Hg3 & Hpost).
  pose proof (atoms_ok_length _ _ Hpre) as Lpre. pose proof (atoms_ok_length _ _ Hg1) as Lg1.
  pose proof (atoms_ok_length _ _ Ha) as La. pose proof (atoms_ok_length _ _ Hb) as Lb.
  pose proof (atoms_ok_length _ _ Hg3) as Lg3. pose proof (atoms_ok_length _ _ Hpost) as Lpost.
  assert (Hlen : E = length (tpre pc) + length (t1 pc) + length (ta pc) + length (trun pc) + length (tb pc) + length (t3 pc) + length (tpost pc))
    by (unfold E, pieces_text; rewrite !app_length; lia).
  assert (HWl : length W = length s) by (unfold W; apply window_length; lia).
  assert (HEl : E <= length s) by (rewrite <- HWl, HW, app_length; unfold E; lia).
  assert (E1 : W = tpre pc ++ (t1 pc ++ ta pc ++ trun pc ++ tb pc ++ t3 pc ++ tpost pc ++ rest))
    by (rewrite HW; unfold pieces_text; now rewrite <- !app_assoc).
  assert (E2 : W = (tpre pc ++ t1 pc) ++ ta pc ++ (trun pc ++ tb pc ++ t3 pc ++ tpost pc ++ rest))
    by (rewrite HW; unfold pieces_text; now rewrite <- !app_assoc).
  assert (E3 : W = (tpre pc ++ t1 pc ++ ta pc ++ trun pc) ++ tb pc ++ (t3 pc ++ tpost pc ++ rest))
    by (rewrite HW; unfold pieces_text; now rewrite <- !app_assoc).
  assert (E4 : W = (tpre pc ++ t1 pc ++ ta pc ++ trun pc ++ tb pc ++ t3 pc) ++ tpost pc ++ rest)
    by (rewrite HW; unfold pieces_text; now rewrite <- !app_assoc).
  repeat split.
  - intros HX. unfold word_before_end in HX. apply andb_prop in HX. destruct HX as [Hl Hw]. apply Nat.leb_le in Hl.
    apply site_at_window; [exact Hi|lia|]. fold W. rewrite E1.
    rewrite skipn_app_le by lia. apply occurs_here_app.
    eapply lits_occurs; [exact Hw|]. now apply atoms_ok_skipn.
  - intros HX. unfold word_after in HX. apply andb_prop in HX. destruct HX as [Hl Hw]. apply Nat.leb_le in Hl.
    replace (length (spre sh) + length (sg1 sh) + off + i) with (length (tpre pc ++ t1 pc) + off + i) by (rewrite app_length; lia).
    apply site_at_window; [exact Hi|rewrite app_length; lia|]. fold W. rewrite E2.
    rewrite skipn_app_ge. rewrite skipn_app_le by lia. apply occurs_here_app.
    eapply lits_occurs; [exact Hw|]. now apply atoms_ok_skipn.
  - intros HX. unfold word_before_end in HX. apply andb_prop in HX. destruct HX as [Hl Hw]. apply Nat.leb_le in Hl.
    replace (E - length (spost sh) - length (sg3 sh) - off - length site + i)
      with (length (tpre pc ++ t1 pc ++ ta pc ++ trun pc) + (length (sb sh) - off - length site) + i)
      by (rewrite !app_length; lia).
    apply site_at_window; [exact Hi|rewrite !app_length; lia|]. fold W. rewrite E3.
    rewrite skipn_app_ge. rewrite skipn_app_le by lia. apply occurs_here_app.
    eapply lits_occurs; [exact Hw|]. now apply atoms_ok_skipn.
  - intros HX. unfold word_after in HX. apply andb_prop in HX. destruct HX as [Hl Hw]. apply Nat.leb_le in Hl.
    replace (E - length (spost sh) + off + i)
      with (length (tpre pc ++ t1 pc ++ ta pc ++ trun pc ++ tb pc ++ t3 pc) + off + i) by (rewrite !app_length; lia).
    apply site_at_window; [exact Hi|rewrite !app_length; lia|]. fold W. rewrite E4.
    rewrite skipn_app_ge. rewrite skipn_app_le by lia. apply occurs_here_app.
    eapply lits_occurs; [exact Hw|]. now apply atoms_ok_skipn.
Qed.

(* ---------- modular arithmetic on positions --------------------------------------------- *)

Lemma mod_eq_small (a b n : nat) : a mod n = b mod n -> a < b + n -> b < a + n -> n <> 0 -> a = b.
Proof.
  intros H H1 H2 Hn.
  assert (Hz : ((Z.of_nat a - Z.of_nat b) mod Z.of_nat n = 0)%Z).
  { rewrite Zminus_mod. rewrite <- !Nat2Z.inj_mod, H. rewrite Z.sub_diag. apply Z.mod_0_l. lia. }
  apply Z.mod_divide in Hz; [|lia]. destruct Hz as [q Hq].
  assert (Hq0 : (-1 < q < 1)%Z).
  { split.
    - destruct (Z_le_gt_dec q (-1)) as [Hle|]; [|lia]. exfalso.
      assert (q * Z.of_nat n <= -1 * Z.of_nat n)%Z by (apply Z.mul_le_mono_nonneg_r; lia). lia.
    - destruct (Z_le_gt_dec 1 q) as [Hle|]; [|lia]. exfalso.
      assert (1 * Z.of_nat n <= q * Z.of_nat n)%Z by (apply Z.mul_le_mono_nonneg_r; lia). lia. }
  assert (q = 0)%Z by lia. subst q. lia.
Qed.

Lemma add_mod_inj k i i' n : i < n -> i' < n -> (k + i) mod n = (k + i') mod n -> i = i'.
Proof. intros H1 H2 H. assert (k + i = k + i') by (apply (mod_eq_small _ _ n); lia). lia. Qed.

Lemma lits_prefix_length w : forall l, lits_prefix w l = true -> length w <= length l.
Proof.
  induction w as [|x w IH]; intros l H; cbn; [lia|]. destruct l as [|c l]; [discriminate|].
  cbn in H. apply andb_prop in H. destruct H as [_ H]. specialize (IH l H). cbn. lia.
Qed.

(* ---------- at most one occurrence ---------------------------------------------------------- *)

Theorem framed_unique_occ (site rsite : list code) (off ovh : nat) sh s :
  frames site rsite off ovh sh = true -> 0 < length site -> 0 < length rsite ->
  occurs_once site s -> occurs_once rsite s -> unique_occ (shape_pat sh) s.
Proof.
  intros Hf Hs1 Hs2 U1 U2 i e i' e' (Hi & He & ls & Hd) (Hi' & He' & ls' & Hd').
  set (n := length s) in *. assert (Hn : n <> 0) by lia.
  destruct (shape_dm _ _ _ Hd) as (pc & Ht & Hok). destruct (shape_dm _ _ _ Hd') as (pc' & Ht' & Hok').
  assert (HW : window s i = pieces_text pc ++ skipn e (window s i)) by (rewrite <- Ht; now rewrite firstn_skipn).
  assert (HW' : window s i' = pieces_text pc' ++ skipn e' (window s i')) by (rewrite <- Ht'; now rewrite firstn_skipn).
  assert (HE : length (pieces_text pc) = e).
  { rewrite <- Ht, firstn_length, window_length by lia. fold n. lia. }
  assert (HE' : length (pieces_text pc') = e').
  { rewrite <- Ht', firstn_length, window_length by lia. fold n. lia. }
  destruct (anchors site rsite off ovh sh s i pc _ Hi HW Hok) as (A1 & A2 & A3 & A4).
  destruct (anchors site rsite off ovh sh s i' pc' _ Hi' HW' Hok') as (B1 & B2 & B3 & B4).
  rewrite HE in A3, A4. rewrite HE' in B3, B4.
  destruct (spans_by_lengths _ _ Hok) as (_ & _ & _ & _ & Lmin). rewrite HE in Lmin.
  destruct (spans_by_lengths _ _ Hok') as (_ & _ & _ & _ & Lmin'). rewrite HE' in Lmin'.
  unfold frames in Hf. repeat (apply andb_prop in Hf; destruct Hf as [Hf ?]).
  match goal with Hx : (word_before_end _ _ (spre sh) || word_after _ _ (sa sh)) = true |- _ => rename Hx into HU end.
  match goal with Hx : (word_before_end _ _ (sb sh) || word_after _ _ (spost sh)) = true |- _ => rename Hx into HD end.
  (* the start *)
  assert (Ei : i = i').
  { apply Bool.orb_prop in HU. destruct HU as [HU|HU].
    - pose proof (U1 _ _ (A1 HU) (B1 HU)) as H0. fold n in H0. now apply add_mod_inj in H0.
    - pose proof (U2 _ _ (A2 HU) (B2 HU)) as H0. fold n in H0. now apply add_mod_inj in H0. }
  subst i'. split; [reflexivity|].
  (* the end *)
  apply Bool.orb_prop in HD. destruct HD as [HD|HD].
  - pose proof (U1 _ _ (A3 HD) (B3 HD)) as H0. fold n in H0.
    pose proof HD as HD'. unfold word_before_end in HD'. apply andb_prop in HD'. destruct HD' as [Hl _]. apply Nat.leb_le in Hl.
    assert (e - length (spost sh) - length (sg3 sh) - off - length site + i =
            e' - length (spost sh) - length (sg3 sh) - off - length site + i) by (apply (mod_eq_small _ _ n); lia).
    lia.
  - pose proof (U2 _ _ (A4 HD) (B4 HD)) as H0. fold n in H0.
    pose proof HD as HD'. unfold word_after in HD'. apply andb_prop in HD'. destruct HD' as [Hl Hw]. apply Nat.leb_le in Hl.
    assert (Hlw : length rsite <= length (skipn off (spost sh))) by (now apply lits_prefix_length).
    rewrite skipn_length in Hlw.
    assert (e - length (spost sh) + off + i = e' - length (spost sh) + off + i) by (apply (mod_eq_small _ _ n); lia).
    lia.
Qed.
