(* RecordLemmas.v — features keep denoting the same nucleotides under rotation
   (C13), slicing and concatenation (C08) and flipping (C14). *)
From MV Require Import Base RotLemmas Record.
From Coq Require Import ZifyBool ZifyNat Permutation.
Ltac Zify.zify_post_hook ::= Z.to_euclidean_division_equations.
Open Scope Z_scope.

(* ---------- ranges --------------------------------------------------- *)

Lemma zrange_shift a b c : zrange (a + c) (b + c) = map (fun x => x + c) (zrange a b).
Proof.
  unfold zrange. replace (b + c - (a + c)) with (b - a) by lia.
  rewrite map_map. apply map_ext. intros i. lia.
Qed.

Lemma zrange_length a b : length (zrange a b) = Z.to_nat (b - a).
Proof. unfold zrange. now rewrite map_length, seq_length. Qed.

Lemma in_zrange a b x : In x (zrange a b) <-> a <= x < b.
Proof.
  unfold zrange. rewrite in_map_iff. split.
  - intros (i & <- & Hi). apply in_seq in Hi. lia.
  - intros H. exists (Z.to_nat (x - a)). split; [lia|]. apply in_seq. lia.
Qed.

Lemma covers_part_bound n p x : 0 < n -> In x (covers_part n p) -> 0 <= x < n.
Proof.
  intros Hn. unfold covers_part. rewrite in_map_iff. intros (y & <- & _).
  apply Z.mod_pos_bound. exact Hn.
Qed.

(* ---------- rotation of parts --------------------------------------- *)

Lemma covers_shift_part n idx p :
  covers_part n (shift_part idx p) = map (fun x => (x + idx) mod n) (covers_part n p).
Proof.
  unfold covers_part, shift_part. cbn [pstart pend].
  rewrite zrange_shift, !map_map. apply map_ext. intros x.
  now rewrite Zplus_mod_idemp_l.
Qed.

Lemma covers_wrap_part n p : 0 < n -> covers_part n (wrap_part n p) = covers_part n p.
Proof.
  intros Hn. unfold wrap_part.
  destruct ((n <=? pend p) && (n <=? pstart p)); [|reflexivity].
  unfold covers_part. cbn [pstart pend].
  set (r := pstart p / n).
  replace (pstart p - r * n) with (pstart p + (- r * n)) by lia.
  replace (pend p - r * n) with (pend p + (- r * n)) by lia.
  rewrite zrange_shift, map_map. apply map_ext. intros x.
  apply Z_mod_plus_full.
Qed.

(* every part covers, after rotation, exactly the images p -> (p + idx) mod n
   of the positions it covered, in order *)
Lemma rot_part_covers idx n p :
  0 < n ->
  covers_part n (rot_part idx n p) = map (fun x => (x + idx) mod n) (covers_part n p).
Proof.
  intros Hn. unfold rot_part. rewrite covers_wrap_part by exact Hn.
  apply covers_shift_part.
Qed.

Lemma rot_part_strand idx n p : pstrand (rot_part idx n p) = pstrand p.
Proof.
  unfold rot_part, wrap_part, shift_part. cbn [pstart pend pstrand].
  destruct (_ && _); reflexivity.
Qed.

(* well-formedness (start inside the record, at most one turn) is preserved *)
Lemma rot_part_wf idx n p :
  0 <= idx < n -> wf_part n p -> wf_part n (rot_part idx n p).
Proof.
  unfold wf_part, rot_part, wrap_part, shift_part. cbn [pstart pend pstrand].
  intros Hidx [Ha Hb].
  destruct ((n <=? pend p + idx) && (n <=? pstart p + idx)) eqn:E; cbn [pstart pend].
  - assert (Hq : (pstart p + idx) / n = 1).
    { symmetry. apply (Z.div_unique_pos (pstart p + idx) n 1 (pstart p + idx - n)); lia. }
    rewrite Hq. lia.
  - lia.
Qed.

Lemma letters_at_rot {A} (d : A) (s : list A) (idx : Z) (ps : list Z) :
  (forall x, In x ps -> 0 <= x < zlen s) ->
  letters_at d (rotr idx s) (map (fun x => (x + idx) mod zlen s) ps) = letters_at d s ps.
Proof.
  intros Hps. unfold letters_at. rewrite map_map. apply map_ext_in.
  intros x Hx. specialize (Hps x Hx). unfold zlen in *.
  replace x with (Z.of_nat (Z.to_nat x)) at 1 by lia.
  apply rotr_moves. lia.
Qed.

Lemma rot_part_denote s idx p :
  s <> [] ->
  denote_part (rotr idx s) (rot_part idx (zlen s) p) = denote_part s p.
Proof.
  intros Hs.
  assert (Hn : 0 < zlen s) by (unfold zlen; destruct s; [congruence|cbn [length]; lia]).
  unfold denote_part. rewrite rot_part_strand.
  replace (zlen (rotr idx s)) with (zlen s) by (unfold zlen; now rewrite rotr_length).
  rewrite rot_part_covers by exact Hn.
  rewrite letters_at_rot; [reflexivity|].
  intros x Hx. eapply covers_part_bound; eauto.
Qed.

(* ---------- rotation of features ------------------------------------ *)

Lemma rot_feature_meta idx n f :
  fsource (rot_feature idx n f) = fsource f /\
  ftype (rot_feature idx n f) = ftype f /\
  fquals (rot_feature idx n f) = fquals f /\
  map pstrand (floc (rot_feature idx n f)) = map pstrand (floc f).
Proof.
  unfold rot_feature. destruct (keeps_loc n f); cbn; repeat split; try reflexivity.
  rewrite map_map. apply map_ext. intros p. apply rot_part_strand.
Qed.

Lemma rot_feature_covers idx n f :
  0 < n -> keeps_loc n f = false ->
  covers n (floc (rot_feature idx n f)) =
  map (map (fun x => (x + idx) mod n)) (covers n (floc f)).
Proof.
  intros Hn Hk. unfold rot_feature. rewrite Hk. cbn [floc]. unfold covers.
  rewrite !map_map. apply map_ext. intros p. now apply rot_part_covers.
Qed.

Lemma rot_feature_denote s idx f :
  s <> [] -> keeps_loc (zlen s) f = false ->
  denote (rotr idx s) (floc (rot_feature idx (zlen s) f)) = denote s (floc f).
Proof.
  intros Hs Hk. unfold rot_feature. rewrite Hk. cbn [floc]. unfold denote.
  rewrite map_map. f_equal. apply map_ext. intros p. now apply rot_part_denote.
Qed.

Lemma rot_feature_wf idx n f :
  0 <= idx < n -> Forall (wf_part n) (floc f) -> Forall (wf_part n) (floc (rot_feature idx n f)).
Proof.
  intros Hidx Hwf. unfold rot_feature. destruct (keeps_loc n f); [exact Hwf|].
  cbn [floc]. apply Forall_map. eapply Forall_impl; [|exact Hwf].
  intros p. now apply rot_part_wf.
Qed.

(* the whole-length source feature: kept as it is; it covers every position of
   the circle exactly once both before and after *)
Lemma zrange_mod_id n : map (fun x => x mod n) (zrange 0 n) = zrange 0 n.
Proof.
  rewrite <- (map_id (zrange 0 n)) at 2. apply map_ext_in.
  intros x Hx. apply in_zrange in Hx. apply Z.mod_small. lia.
Qed.

Lemma rot_feature_whole_source idx n f sg :
  fsource f = true -> floc f = [P 0 n sg] ->
  rot_feature idx n f = f /\ covers n (floc f) = [zrange 0 n].
Proof.
  intros Hsrc Hloc. unfold rot_feature, keeps_loc. rewrite Hsrc, Hloc. cbn.
  rewrite !Z.eqb_refl. cbn. split; [reflexivity|].
  unfold covers_part. cbn [pstart pend]. now rewrite zrange_mod_id.
Qed.

(* ---------- record level -------------------------------------------- *)

Lemma rot_record_seq k r : rseq (rot_record k r) = rotr k (rseq r).
Proof.
  unfold rot_record, zlen. destruct (Z.eqb_spec (k mod Z.of_nat (length (rseq r))) 0) as [E|E].
  - rewrite <- rotr_mod, E. now rewrite rotr_0.
  - cbn [rseq]. apply rotr_mod.
Qed.

Lemma rot_record_tracks k r :
  Forall (fun v => length v = length (rseq r)) (rtracks r) ->
  rtracks (rot_record k r) = map (rotr k) (rtracks r).
Proof.
  intros Hlen. unfold rot_record, zlen.
  destruct (Z.eqb_spec (k mod Z.of_nat (length (rseq r))) 0) as [E|E].
  - rewrite <- (map_id (rtracks r)) at 1. apply map_ext_in. intros v Hv.
    rewrite Forall_forall in Hlen. specialize (Hlen v Hv).
    rewrite <- rotr_mod, Hlen, E. now rewrite rotr_0.
  - cbn [rtracks]. apply map_ext_in. intros v Hv.
    rewrite Forall_forall in Hlen. specialize (Hlen v Hv).
    rewrite <- Hlen. apply rotr_mod.
Qed.

Lemma rot_record_feats k r :
  let n := zlen (rseq r) in
  rfeats (rot_record k r) =
  if k mod n =? 0 then rfeats r else map (rot_feature (k mod n) n) (rfeats r).
Proof. unfold rot_record. cbn zeta. destruct (_ =? 0); reflexivity. Qed.

(* every feature of the rotated record denotes what it denoted before *)
Lemma rot_record_feature_denote k r j f0 :
  rseq r <> [] ->
  nth_error (rfeats r) j = Some f0 ->
  keeps_loc (zlen (rseq r)) f0 = false ->
  exists f1, nth_error (rfeats (rot_record k r)) j = Some f1 /\
    fsource f1 = fsource f0 /\ ftype f1 = ftype f0 /\ fquals f1 = fquals f0 /\
    map pstrand (floc f1) = map pstrand (floc f0) /\
    denote (rseq (rot_record k r)) (floc f1) = denote (rseq r) (floc f0).
Proof.
  intros Hs Hj Hk. rewrite rot_record_seq. rewrite rot_record_feats. cbn zeta.
  destruct (Z.eqb_spec (k mod zlen (rseq r)) 0) as [E|E].
  - exists f0. repeat split; auto.
    unfold zlen in E. rewrite <- rotr_mod, E. now rewrite rotr_0.
  - exists (rot_feature (k mod zlen (rseq r)) (zlen (rseq r)) f0).
    split; [now rewrite nth_error_map, Hj|].
    destruct (rot_feature_meta (k mod zlen (rseq r)) (zlen (rseq r)) f0) as (H1 & H2 & H3 & H4).
    repeat split; auto.
    rewrite <- (rotr_mod k). fold (zlen (rseq r)). now apply rot_feature_denote.
Qed.

(* the kept features are exactly the single-part whole-length source features *)
Lemma keeps_loc_shape n f :
  keeps_loc n f = true -> fsource f = true /\ exists sg, floc f = [P 0 n sg].
Proof.
  unfold keeps_loc. destruct (fsource f); [|discriminate]. cbn.
  destruct (floc f) as [|[a b sg] [|q l]]; try discriminate.
  cbn. intros H. split; [reflexivity|]. exists sg.
  apply andb_prop in H. destruct H as [Ha Hb].
  apply Z.eqb_eq in Ha, Hb. now subst.
Qed.

(* ====================================================================== *)
(* reverse complement (C14)                                               *)
(* ====================================================================== *)

Lemma compl_involutive c : compl (compl c) = c.
Proof. destruct c; reflexivity. Qed.

Lemma compl_l_involutive l : compl_l (compl_l l) = l.
Proof. destruct l as [c u]. unfold compl_l. cbn. now rewrite compl_involutive. Qed.

Lemma rc_involutive s : rc (rc s) = s.
Proof.
  unfold rc. rewrite map_rev, rev_involutive, map_map.
  rewrite <- (map_id s) at 2. apply map_ext. apply compl_l_involutive.
Qed.

Lemma rc_length s : length (rc s) = length s.
Proof. unfold rc. now rewrite rev_length, map_length. Qed.

Lemma rc_app a b : rc (a ++ b) = rc b ++ rc a.
Proof. unfold rc. now rewrite map_app, rev_app_distr. Qed.

Lemma rev_rotr {A} k (s : list A) : rev (rotr k s) = rotl k (rev s).
Proof.
  destruct s as [|x s0]; [reflexivity|]. set (s := x :: s0).
  rewrite <- rot_track_pinned_is_rotl. unfold rotr, rot_track_pinned.
  rewrite rev_length. set (n := length s).
  assert (Hn : (0 < Z.of_nat n)%Z) by (subst n s; cbn [length]; lia).
  pose proof (Z.mod_pos_bound k (Z.of_nat n) Hn) as Hb.
  set (i := Z.to_nat (k mod Z.of_nat n)).
  assert (Hi : (i <= n)%nat) by (subst i; lia).
  rewrite rev_app_distr, skipn_rev, firstn_rev. fold n.
  replace (n - (n - i))%nat with i by lia. reflexivity.
Qed.

(* reverse-complementing commutes with rotation: the reverse complement of a right
   rotation is the left rotation of the reverse complement *)
Lemma rc_rotr k s : rc (rotr k s) = rotl k (rc s).
Proof. unfold rc. rewrite <- rotr_map. apply rev_rotr. Qed.

Lemma flip_strand_involutive sg : flip_strand (flip_strand sg) = sg.
Proof. destruct sg; reflexivity. Qed.

Lemma flip_part_involutive n p : flip_part n (flip_part n p) = p.
Proof.
  destruct p as [a b sg]. unfold flip_part. cbn. rewrite flip_strand_involutive.
  f_equal; lia.
Qed.

Lemma forallb_nostrand_flip n l :
  forallb (fun p => strand_eqb (pstrand p) NoStrand) (map (flip_part n) l) =
  forallb (fun p => strand_eqb (pstrand p) NoStrand) l.
Proof.
  induction l as [|p l IH]; [reflexivity|]. cbn. rewrite IH. f_equal.
  destruct (pstrand p); reflexivity.
Qed.

Lemma flip_loc_involutive n l : flip_loc n (flip_loc n l) = l.
Proof.
  destruct l as [|p [|q l]]; [reflexivity| |].
  - cbn. now rewrite flip_part_involutive.
  - unfold flip_loc at 2.
    destruct (forallb _ (p :: q :: l)) eqn:E.
    + assert (Hlen : exists x y r, map (flip_part n) (rev (p :: q :: l)) = x :: y :: r).
      { destruct (map (flip_part n) (rev (p :: q :: l))) as [|x [|y r]] eqn:E2; eauto;
          apply (f_equal (@length part)) in E2; rewrite map_length, rev_length in E2;
          cbn in E2; lia. }
      destruct Hlen as (x & y & r & Hxy). rewrite Hxy. unfold flip_loc. rewrite <- Hxy.
      rewrite forallb_nostrand_flip.
      assert (Hr : forallb (fun p0 => strand_eqb (pstrand p0) NoStrand) (rev (p :: q :: l)) = true).
      { rewrite forallb_forall in *. intros z Hz. apply E. now apply in_rev. }
      rewrite Hr. rewrite <- map_rev, rev_involutive, map_map.
      rewrite <- (map_id (p :: q :: l)) at 2. apply map_ext. apply flip_part_involutive.
    + cbn [map]. unfold flip_loc.
      change (flip_part n p :: flip_part n q :: map (flip_part n) l) with (map (flip_part n) (p :: q :: l)).
      rewrite forallb_nostrand_flip, E. rewrite map_map.
      rewrite <- (map_id (p :: q :: l)) at 2. apply map_ext. apply flip_part_involutive.
Qed.

Lemma zmod_mirror n y : 0 < n -> (n - 1 - y) mod n = n - 1 - y mod n.
Proof.
  intros Hn. pose proof (Z.div_mod y n ltac:(lia)) as Hy.
  pose proof (Z.mod_pos_bound y n Hn) as Hb.
  apply (zmod_canon _ _ _ (- (y / n))); lia.
Qed.

(* positions covered after the flip: the mirror images, in reverse order *)
Lemma covers_flip_part n p :
  0 < n ->
  covers_part n (flip_part n p) = rev (map (fun c => n - 1 - c) (covers_part n p)).
Proof.
  intros Hn. destruct p as [a b sg]. unfold covers_part, flip_part. cbn [pstart pend].
  unfold zrange. replace (n - a - (n - b)) with (b - a) by lia.
  set (m := Z.to_nat (b - a)).
  rewrite !map_map. rewrite <- map_rev.
  assert (Hrev : rev (seq 0 m) = map (fun i => (m - 1 - i)%nat) (seq 0 m)).
  { clear. induction m as [|m IH]; [reflexivity|].
    rewrite seq_S at 1. rewrite rev_app_distr. cbn [rev app Nat.add].
    cbn [seq map]. f_equal; [f_equal; lia|].
    rewrite <- seq_shift, map_map. rewrite IH. apply map_ext_in.
    intros i Hi. apply in_seq in Hi. lia. }
  rewrite Hrev, map_map. apply map_ext_in. intros i Hi. apply in_seq in Hi.
  rewrite <- zmod_mirror by exact Hn. f_equal. subst m. lia.
Qed.

Lemma nth_rc s (x : Z) :
  0 <= x < zlen s ->
  nth (Z.to_nat (zlen s - 1 - x)) (rc s) dN = compl_l (nth (Z.to_nat x) s dN).
Proof.
  unfold zlen. intros Hx. unfold rc.
  rewrite rev_nth by (rewrite map_length; lia). rewrite map_length.
  replace (length s - S (Z.to_nat (Z.of_nat (length s) - 1 - x)))%nat with (Z.to_nat x) by lia.
  change dN with (compl_l dN) at 1. apply map_nth.
Qed.

Lemma letters_flip s p :
  s <> [] ->
  letters_at dN (rc s) (covers_part (zlen s) (flip_part (zlen s) p)) =
  rc (letters_at dN s (covers_part (zlen s) p)).
Proof.
  intros Hs.
  assert (Hn : 0 < zlen s) by (unfold zlen; destruct s; [congruence|cbn [length]; lia]).
  rewrite covers_flip_part by exact Hn. unfold letters_at, rc.
  rewrite map_rev, !map_map. f_equal. apply map_ext_in. intros c Hc.
  apply nth_rc. eapply covers_part_bound; eauto.
Qed.

(* a stranded feature still reads the same sequence along its own (now opposite)
   strand; an unstranded one covers the reverse complement of what it covered *)
Theorem flip_part_denote s p :
  s <> [] ->
  denote_part (rc s) (flip_part (zlen s) p) =
  match pstrand p with NoStrand => rc (denote_part s p) | _ => denote_part s p end.
Proof.
  intros Hs. unfold denote_part.
  replace (zlen (rc s)) with (zlen s) by (unfold zlen; now rewrite rc_length).
  rewrite letters_flip by exact Hs.
  destruct p as [a b sg]. cbn [pstrand flip_part].
  destruct sg; cbn [flip_strand]; try reflexivity.
  now rewrite rc_involutive.
Qed.

Lemma flip_part_strand n p : pstrand (flip_part n p) = flip_strand (pstrand p).
Proof. reflexivity. Qed.

(* flipping commutes with rotation on the covered positions:
   flip after >> idx  =  << idx after flip *)
Theorem flip_rot_covers n idx p :
  0 < n ->
  covers_part n (flip_part n (rot_part idx n p)) =
  covers_part n (rot_part (- idx) n (flip_part n p)).
Proof.
  intros Hn. rewrite covers_flip_part, !rot_part_covers, covers_flip_part by exact Hn.
  rewrite map_rev. f_equal. rewrite !map_map. apply map_ext_in. intros c Hc.
  pose proof (covers_part_bound _ _ _ Hn Hc) as Hb.
  rewrite <- zmod_mirror by exact Hn. f_equal. lia.
Qed.

(* the stable sort by start keeps the multiset of features *)
Lemma insert_by_start_perm f l : Permutation (insert_by_start f l) (f :: l).
Proof.
  induction l as [|g l IH]; [constructor; constructor|].
  cbn [insert_by_start]. destruct (_ <=? _).
  - eapply perm_trans; [apply perm_skip, IH|apply perm_swap].
  - apply Permutation_refl.
Qed.

Lemma sort_by_start_perm l : Permutation (sort_by_start l) l.
Proof.
  unfold sort_by_start.
  assert (H : forall acc, Permutation (fold_left (fun a f => insert_by_start f a) l acc) (l ++ acc)).
  { induction l as [|f l IH]; intros acc; [apply Permutation_refl|].
    cbn [fold_left]. eapply perm_trans; [apply IH|].
    eapply perm_trans; [apply Permutation_app_head, insert_by_start_perm|].
    apply Permutation_sym, Permutation_middle. }
  specialize (H []). now rewrite app_nil_r in H.
Qed.

Lemma rc_record_seq r : rseq (rc_record r) = rc (rseq r).
Proof. reflexivity. Qed.

(* the feature table of the reverse complement is, up to the order chosen by the
   sort, the table of flipped features: nothing is lost or invented *)
Theorem rc_record_feats_perm r :
  Permutation (rfeats (rc_record r)) (map (flip_feature (zlen (rseq r))) (rfeats r)).
Proof. apply sort_by_start_perm. Qed.

Lemma flip_feature_involutive n f : flip_feature n (flip_feature n f) = f.
Proof. destruct f as [s t q l]. unfold flip_feature. cbn. now rewrite flip_loc_involutive. Qed.

(* applying it twice gives back the original sequence and the original features *)
Theorem rc_record_twice r :
  rseq (rc_record (rc_record r)) = rseq r /\
  Permutation (rfeats (rc_record (rc_record r))) (rfeats r).
Proof.
  split; [cbn; apply rc_involutive|].
  eapply perm_trans; [apply rc_record_feats_perm|].
  rewrite rc_record_seq.
  replace (zlen (rc (rseq r))) with (zlen (rseq r)) by (unfold zlen; now rewrite rc_length).
  eapply perm_trans.
  - apply Permutation_map. apply rc_record_feats_perm.
  - rewrite map_map. rewrite <- (map_id (rfeats r)) at 2.
    erewrite map_ext; [apply Permutation_refl|]. apply flip_feature_involutive.
Qed.

(* denotation of a whole location under the flip, for single-strand locations *)
Theorem flip_loc_denote_stranded s l sg :
  s <> [] -> sg <> NoStrand -> Forall (fun p => pstrand p = sg) l ->
  denote (rc s) (flip_loc (zlen s) l) = denote s l.
Proof.
  intros Hs Hsg Hall.
  assert (Hmap : denote (rc s) (map (flip_part (zlen s)) l) = denote s l).
  { unfold denote. rewrite map_map. f_equal. apply map_ext_in. intros p Hp.
    rewrite flip_part_denote by exact Hs.
    rewrite Forall_forall in Hall. rewrite (Hall p Hp). destruct sg; congruence. }
  destruct l as [|p [|q l]]; [reflexivity|exact Hmap|].
  unfold flip_loc.
  replace (forallb (fun p0 => strand_eqb (pstrand p0) NoStrand) (p :: q :: l)) with false; [exact Hmap|].
  symmetry. cbn [forallb].
  assert (Hp : pstrand p = sg) by (inversion Hall; assumption).
  rewrite Hp. destruct sg; try congruence; reflexivity.
Qed.
