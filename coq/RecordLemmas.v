(* RecordLemmas.v — features keep denoting the same nucleotides under rotation
   (C13), slicing and concatenation (C08) and flipping (C14). *)
From MV Require Import Base RotLemmas Record.
From Coq Require Import ZifyBool ZifyNat.
Ltac Zify.zify_post_hook ::= Z.to_euclidean_division_equations.
Open Scope Z_scope.

(* ---------- ranges --------------------------------------------------- *)

Lemma zrange_shift a b c : zrange (a + c) (b + c) = map (fun x => x + c) (zrange a b).
Proof.
  unfold zrange. replace (b + c - (a + c)) with (b - a) by lia.
  rewrite map_map. apply map_ext. intros i. lia.
Qed.

Lemma zrange_length a b : length (zrange a b) = Z.to_nat (b - a).
Proof. unfold zrange. now rewrite map_length, seq_length. Qed.

Lemma in_zrange a b x : In x (zrange a b) <-> a <= x < b.
Proof.
  unfold zrange. rewrite in_map_iff. split.
  - intros (i & <- & Hi). apply in_seq in Hi. lia.
  - intros H. exists (Z.to_nat (x - a)). split; [lia|]. apply in_seq. lia.
Qed.

Lemma covers_part_bound n p x : 0 < n -> In x (covers_part n p) -> 0 <= x < n.
Proof.
  intros Hn. unfold covers_part. rewrite in_map_iff. intros (y & <- & _).
  apply Z.mod_pos_bound. exact Hn.
Qed.

(* ---------- rotation of parts --------------------------------------- *)

Lemma covers_shift_part n idx p :
  covers_part n (shift_part idx p) = map (fun x => (x + idx) mod n) (covers_part n p).
Proof.
  unfold covers_part, shift_part. cbn [pstart pend].
  rewrite zrange_shift, !map_map. apply map_ext. intros x.
  now rewrite Zplus_mod_idemp_l.
Qed.

Lemma covers_wrap_part n p : 0 < n -> covers_part n (wrap_part n p) = covers_part n p.
Proof.
  intros Hn. unfold wrap_part.
  destruct ((n <=? pend p) && (n <=? pstart p)); [|reflexivity].
  unfold covers_part. cbn [pstart pend].
  set (r := pstart p / n).
  replace (pstart p - r * n) with (pstart p + (- r * n)) by lia.
  replace (pend p - r * n) with (pend p + (- r * n)) by lia.
  rewrite zrange_shift, map_map. apply map_ext. intros x.
  apply Z_mod_plus_full.
Qed.

(* every part covers, after rotation, exactly the images p -> (p + idx) mod n
   of the positions it covered, in order *)
Lemma rot_part_covers idx n p :
  0 < n ->
  covers_part n (rot_part idx n p) = map (fun x => (x + idx) mod n) (covers_part n p).
Proof.
  intros Hn. unfold rot_part. rewrite covers_wrap_part by exact Hn.
  apply covers_shift_part.
Qed.

Lemma rot_part_strand idx n p : pstrand (rot_part idx n p) = pstrand p.
Proof.
  unfold rot_part, wrap_part, shift_part. cbn [pstart pend pstrand].
  destruct (_ && _); reflexivity.
Qed.

(* well-formedness (start inside the record, at most one turn) is preserved *)
Lemma rot_part_wf idx n p :
  0 <= idx < n -> wf_part n p -> wf_part n (rot_part idx n p).
Proof.
  unfold wf_part, rot_part, wrap_part, shift_part. cbn [pstart pend pstrand].
  intros Hidx [Ha Hb].
  destruct ((n <=? pend p + idx) && (n <=? pstart p + idx)) eqn:E; cbn [pstart pend].
  - assert (Hq : (pstart p + idx) / n = 1).
    { symmetry. apply (Z.div_unique_pos (pstart p + idx) n 1 (pstart p + idx - n)); lia. }
    rewrite Hq. lia.
  - lia.
Qed.

Lemma letters_at_rot {A} (d : A) (s : list A) (idx : Z) (ps : list Z) :
  (forall x, In x ps -> 0 <= x < zlen s) ->
  letters_at d (rotr idx s) (map (fun x => (x + idx) mod zlen s) ps) = letters_at d s ps.
Proof.
  intros Hps. unfold letters_at. rewrite map_map. apply map_ext_in.
  intros x Hx. specialize (Hps x Hx). unfold zlen in *.
  replace x with (Z.of_nat (Z.to_nat x)) at 1 by lia.
  apply rotr_moves. lia.
Qed.

Lemma rot_part_denote s idx p :
  s <> [] ->
  denote_part (rotr idx s) (rot_part idx (zlen s) p) = denote_part s p.
Proof.
  intros Hs.
  assert (Hn : 0 < zlen s) by (unfold zlen; destruct s; [congruence|cbn [length]; lia]).
  unfold denote_part. rewrite rot_part_strand.
  replace (zlen (rotr idx s)) with (zlen s) by (unfold zlen; now rewrite rotr_length).
  rewrite rot_part_covers by exact Hn.
  rewrite letters_at_rot; [reflexivity|].
  intros x Hx. eapply covers_part_bound; eauto.
Qed.

(* ---------- rotation of features ------------------------------------ *)

Lemma rot_feature_meta idx n f :
  fsource (rot_feature idx n f) = fsource f /\
  ftype (rot_feature idx n f) = ftype f /\
  fquals (rot_feature idx n f) = fquals f /\
  map pstrand (floc (rot_feature idx n f)) = map pstrand (floc f).
Proof.
  unfold rot_feature. destruct (keeps_loc n f); cbn; repeat split; try reflexivity.
  rewrite map_map. apply map_ext. intros p. apply rot_part_strand.
Qed.

Lemma rot_feature_covers idx n f :
  0 < n -> keeps_loc n f = false ->
  covers n (floc (rot_feature idx n f)) =
  map (map (fun x => (x + idx) mod n)) (covers n (floc f)).
Proof.
  intros Hn Hk. unfold rot_feature. rewrite Hk. cbn [floc]. unfold covers.
  rewrite !map_map. apply map_ext. intros p. now apply rot_part_covers.
Qed.

Lemma rot_feature_denote s idx f :
  s <> [] -> keeps_loc (zlen s) f = false ->
  denote (rotr idx s) (floc (rot_feature idx (zlen s) f)) = denote s (floc f).
Proof.
  intros Hs Hk. unfold rot_feature. rewrite Hk. cbn [floc]. unfold denote.
  rewrite map_map. f_equal. apply map_ext. intros p. now apply rot_part_denote.
Qed.

Lemma rot_feature_wf idx n f :
  0 <= idx < n -> Forall (wf_part n) (floc f) -> Forall (wf_part n) (floc (rot_feature idx n f)).
Proof.
  intros Hidx Hwf. unfold rot_feature. destruct (keeps_loc n f); [exact Hwf|].
  cbn [floc]. apply Forall_map. eapply Forall_impl; [|exact Hwf].
  intros p. now apply rot_part_wf.
Qed.

(* the whole-length source feature: kept as it is; it covers every position of
   the circle exactly once both before and after *)
Lemma zrange_mod_id n : map (fun x => x mod n) (zrange 0 n) = zrange 0 n.
Proof.
  rewrite <- (map_id (zrange 0 n)) at 2. apply map_ext_in.
  intros x Hx. apply in_zrange in Hx. apply Z.mod_small. lia.
Qed.

Lemma rot_feature_whole_source idx n f sg :
  fsource f = true -> floc f = [P 0 n sg] ->
  rot_feature idx n f = f /\ covers n (floc f) = [zrange 0 n].
Proof.
  intros Hsrc Hloc. unfold rot_feature, keeps_loc. rewrite Hsrc, Hloc. cbn.
  rewrite !Z.eqb_refl. cbn. split; [reflexivity|].
  unfold covers_part. cbn [pstart pend]. now rewrite zrange_mod_id.
Qed.

(* ---------- record level -------------------------------------------- *)

Lemma rot_record_seq k r : rseq (rot_record k r) = rotr k (rseq r).
Proof.
  unfold rot_record, zlen. destruct (Z.eqb_spec (k mod Z.of_nat (length (rseq r))) 0) as [E|E].
  - rewrite <- rotr_mod, E. now rewrite rotr_0.
  - cbn [rseq]. apply rotr_mod.
Qed.

Lemma rot_record_tracks k r :
  Forall (fun v => length v = length (rseq r)) (rtracks r) ->
  rtracks (rot_record k r) = map (rotr k) (rtracks r).
Proof.
  intros Hlen. unfold rot_record, zlen.
  destruct (Z.eqb_spec (k mod Z.of_nat (length (rseq r))) 0) as [E|E].
  - rewrite <- (map_id (rtracks r)) at 1. apply map_ext_in. intros v Hv.
    rewrite Forall_forall in Hlen. specialize (Hlen v Hv).
    rewrite <- rotr_mod, Hlen, E. now rewrite rotr_0.
  - cbn [rtracks]. apply map_ext_in. intros v Hv.
    rewrite Forall_forall in Hlen. specialize (Hlen v Hv).
    rewrite <- Hlen. apply rotr_mod.
Qed.

Lemma rot_record_feats k r :
  let n := zlen (rseq r) in
  rfeats (rot_record k r) =
  if k mod n =? 0 then rfeats r else map (rot_feature (k mod n) n) (rfeats r).
Proof. unfold rot_record. cbn zeta. destruct (_ =? 0); reflexivity. Qed.

(* every feature of the rotated record denotes what it denoted before *)
Lemma rot_record_feature_denote k r j f0 :
  rseq r <> [] ->
  nth_error (rfeats r) j = Some f0 ->
  keeps_loc (zlen (rseq r)) f0 = false ->
  exists f1, nth_error (rfeats (rot_record k r)) j = Some f1 /\
    fsource f1 = fsource f0 /\ ftype f1 = ftype f0 /\ fquals f1 = fquals f0 /\
    map pstrand (floc f1) = map pstrand (floc f0) /\
    denote (rseq (rot_record k r)) (floc f1) = denote (rseq r) (floc f0).
Proof.
  intros Hs Hj Hk. rewrite rot_record_seq. rewrite rot_record_feats. cbn zeta.
  destruct (Z.eqb_spec (k mod zlen (rseq r)) 0) as [E|E].
  - exists f0. repeat split; auto.
    unfold zlen in E. rewrite <- rotr_mod, E. now rewrite rotr_0.
  - exists (rot_feature (k mod zlen (rseq r)) (zlen (rseq r)) f0).
    split; [now rewrite nth_error_map, Hj|].
    destruct (rot_feature_meta (k mod zlen (rseq r)) (zlen (rseq r)) f0) as (H1 & H2 & H3 & H4).
    repeat split; auto.
    rewrite <- (rotr_mod k). fold (zlen (rseq r)). now apply rot_feature_denote.
Qed.

(* the kept features are exactly the single-part whole-length source features *)
Lemma keeps_loc_shape n f :
  keeps_loc n f = true -> fsource f = true /\ exists sg, floc f = [P 0 n sg].
Proof.
  unfold keeps_loc. destruct (fsource f); [|discriminate]. cbn.
  destruct (floc f) as [|[a b sg] [|q l]]; try discriminate.
  cbn. intros H. split; [reflexivity|]. exists sg.
  apply andb_prop in H. destruct H as [Ha Hb].
  apply Z.eqb_eq in Ha, Hb. now subst.
Qed.
