(* SrcEndToEnd.v — C01 end to end on the code as written: for plasmids of the formal definition,
   vector.assemble(modules) AS REGENERATED FROM THE SOURCE returns the documented product. *)
From MV Require Import Base RotLemmas Record Regex Shape Typing Assembly AssemblyLemmas Pipeline
     PipelineLemmas ProductLemmas StrandLemmas Canonical EndToEnd Py PyObj SrcEquivRegex SrcEquivRecord SrcEquivTyping SrcEquivAssembly SrcCorollaries SrcGlue.
From MV.Gen Require Import Src.
From Coq Require Import Permutation.
Local Open Scope Z_scope.

Lemma generic_shaped r e : exists sh, cpat (generic_cls r e) = shape_pat sh.
Proof.
  destruct r; cbn [generic_cls cpat generic_structure].
  - exists (module_shape e (repeat setN (eovh e)) (repeat setN (eovh e))).
    rewrite <- module_structure_shape. unfold module_structure. now rewrite !atoms_repeat.
  - exists (vector_shape e (repeat setN (eovh e)) (repeat setN (eovh e))).
    rewrite <- vector_structure_shape. unfold vector_structure. now rewrite !atoms_repeat.
Qed.

Lemma src_entity_good i r e s : Z.of_nat (List.length s) <= py_MAXSIZE ->
  good_ent (src_entity i (generic_cls r e) s).
Proof.
  intros H. apply shaped_good. unfold shaped_ent, src_entity, fits. cbn.
  repeat split; auto; [constructor|apply generic_shaped].
Qed.

Lemma src_modules_spec : forall ms i,
  map raw_of (src_modules i ms) = ms /\ map ent_id (src_modules i ms) = seq i (List.length ms).
Proof.
  induction ms as [|[c s] ms IH]; intros i; cbn; [auto|].
  destruct (IH (S i)) as [H1 H2]. split; [now rewrite H1|now rewrite H2].
Qed.

Lemma src_modules_good e : forall l i,
  Forall (fun x => Z.of_nat (List.length (rotr (snd x) (mword (fst x)))) <= py_MAXSIZE) l ->
  Forall good_ent (src_modules i (map (marg e) l)).
Proof.
  induction l as [|x l IH]; intros i H; cbn; [constructor|].
  inversion H; subst. constructor; [now apply src_entity_good|now apply IH].
Qed.

Definition unused_of (ws : list pywarning) : list nat :=
  match ws with WUnusedModules ids :: _ => ids | [] => [] end.

(* END TO END ON THE SOURCE. Hypotheses of C01_end_to_end (any enzyme, plasmids of the formal
   definition read from any origin, any argument order, a chain from the vector's downstream to
   its upstream overhang, clash-free starts) plus: no plasmid longer than sys.maxsize. Then
   vector.assemble(modules), as translated from moclo's source, returns a record whose sequence is
   o5_1.t_1 ... o5_q.t_q.o_up.backbone, and warns about no unused module. *)
Theorem src_end_to_end e v kv (l : list (mplasmid * Z)) (cs : list smod) :
  (0 < List.length (esite e))%nat -> vplasmid_ok e v -> Forall (mplasmid_ok e) (map fst l) ->
  let ms := number 0 (map fst l) in
  Permutation ms cs ->
  path (okey (qOdn v)) (map keys_of cs) (okey (qOup v)) ->
  okey (qOup v) <> okey (qOdn v) ->
  Forall (fun m => okey (so5 m) <> okey (qOup v)) cs ->
  clash_free rc_codes (map tmod_of ms) ->
  Z.of_nat (List.length (rotr kv (vword v))) <= py_MAXSIZE ->
  Forall (fun x => Z.of_nat (List.length (rotr (snd x) (mword (fst x)))) <= py_MAXSIZE) l ->
  let vector := src_entity (List.length l) (generic_cls RVector e) (rotr kv (vword v)) in
  let modules := src_modules 0 (map (marg e) l) in
  exists prod ws, vector_assemble (S (S (List.length l))) vector modules = Ok (prod, ws)
    /\ pr_seq prod = List.concat (map frag cs) ++ (qOup v ++ vbackbone v)
    /\ unused_of ws = [].
Proof.
  intros Hs Hv Hms ms Hperm Hpath Hne F5 CF Lv Lm vector modules.
  pose proof (end_to_end e v kv l cs Hs Hv Hms Hperm Hpath Hne F5 CF) as HE.
  destruct (src_modules_spec (map (marg e) l) 0) as [Hraw Hids].
  assert (Hlen : List.length modules = List.length l)
    by (unfold modules; rewrite <- (map_length ent_id), Hids, seq_length; apply map_length).
  pose proof (vector_assemble_eq vector modules
                (src_entity_good _ _ _ _ Lv) (src_modules_good e l 0 Lm)) as H.
  rewrite Hlen in H. unfold modules in H at 1. rewrite Hids, map_length in H. specialize (H eq_refl).
  fold modules in H. unfold modules in H at 2. rewrite Hraw in H.
  change (ent_cls vector) with (generic_cls RVector e) in H.
  change (ent_seq_w vector) with (rotr kv (vword v)) in H.
  rewrite HE in H. cbn [forget_used] in H.
  destruct (vector_assemble (S (S (List.length l))) vector modules) as [[prod ws]|x] eqn:E.
  - cbn [outcome_of] in H. inversion H. exists prod, ws. repeat split; auto.
  - destruct x; cbn in H; try discriminate. destruct o; discriminate.
Qed.

(* ---------- C11 on the code as written ---------------------------------------------------- *)

From MV Require Import NextLevel ShapeTyping Anchors TypingLemmas RecordLemmas.

Lemma target_valid c s vt : target c s true = Some vt -> is_valid c s true = true.
Proof. unfold target, with_match, is_valid. destruct (typing c s true); [reflexivity|discriminate|discriminate]. Qed.

(* the product of the translated assemble, read from any origin and wrapped by the generic
   next-level module class, is accepted by the translated is_valid *)
Theorem src_next_level (sh : shape) (e' : enzyme) (k k' : nat) vector modules prod ws (j : Z) (i : nat) :
  good_ent vector -> Forall good_ent modules -> map ent_id modules = seq 0 (List.length modules) ->
  cpat (ent_cls vector) = shape_pat sh -> crole (ent_cls vector) = RVector ->
  embeds (esite e') (rc_codes (esite e')) (eoff e') (eovh e') k k' sh = true ->
  (0 < List.length (esite e'))%nat ->
  vector_assemble (S (S (List.length modules))) vector modules = Ok (prod, ws) ->
  (forall INS vt, pr_seq prod = INS ++ vt -> target (ent_cls vector) (ent_seq_w vector) true = Some vt ->
     Forall nucl INS /\ (eovh e' + 2 <= List.length INS)%nat) ->
  occurs_once (esite e') (pr_seq prod) -> occurs_once (rc_codes (esite e')) (pr_seq prod) ->
  Z.of_nat (List.length (pr_seq prod)) <= py_MAXSIZE ->
  StructuredRecord_is_valid (src_entity i (generic_cls RModule e') (rotr j (pr_seq prod))) = Ok true.
Proof.
  intros Gv Gm Hids Hp Hr Hemb Hs HA Hins O1 O2 Hfit.
  pose proof (vector_assemble_eq vector modules Gv Gm Hids) as H. rewrite HA in H. cbn [outcome_of] in H.
  destruct (assemble_raw (ent_cls vector) (ent_seq_w vector) (map raw_of modules)) as [w used unused| | | |] eqn:AR;
    cbn [forget_used] in H; try discriminate.
  inversion H; subst w.
  destruct (assemble_raw_word _ _ _ _ _ _ AR) as (chain & vt & Ht & Hw & _).
  destruct (Hins _ _ Hw Ht) as [Hn Hl].
  pose proof (next_level_valid (ent_cls vector) sh e' k k' (ent_seq_w vector) (List.concat (map mfrag chain)) j
                Hp Hr Hemb Hs (target_valid _ _ _ Ht) Hn Hl vt Ht) as NL.
  cbv zeta in NL. rewrite <- Hw in NL. specialize (NL O1 O2).
  destruct NL as (O5 & O3 & T & lead & trail & Hobs & _).
  assert (Hf : fits (src_entity i (generic_cls RModule e') (rotr j (pr_seq prod))))
    by (unfold fits, src_entity; cbn; now rewrite rotr_length).
  rewrite (StructuredRecord_is_valid_eq _ Hf).
  assert (Hc : ent_circ (src_entity i (generic_cls RModule e') (rotr j (pr_seq prod))) = true)
    by (unfold ent_circ, src_entity; cbn; apply orb_true_r).
  rewrite Hc. cbn [src_entity ent_cls ent_record pr_seq]. f_equal.
  change (generic_cls RModule e') with (C RModule e' (module_structure e')).
  exact (f_equal (fun x => fst (fst (fst (fst x)))) Hobs).
Qed.

(* ---------- C12 end to end on the code as written --------------------------------------- *)

Lemma src_modules_good_gen (f : mplasmid * Z -> cls * list letter) (e : enzyme) :
  (forall x, exists s, f x = (generic_cls RModule e, s)) ->
  forall l i,
  Forall (fun x => Z.of_nat (List.length (snd (f x))) <= py_MAXSIZE) l ->
  Forall good_ent (src_modules i (map f l)).
Proof.
  intros Hf. induction l as [|x l IH]; intros i H; cbn; [constructor|].
  inversion H; subst. destruct (Hf x) as [s Hs]. rewrite Hs in *. cbn [snd] in *.
  constructor; [now apply src_entity_good|now apply IH].
Qed.

(* one assembly through the translated code, from the model's verdict *)
Lemma src_product_of_raw vc v (ms : list (cls * list letter)) w used :
  good_ent (src_entity (List.length ms) vc v) -> Forall good_ent (src_modules 0 ms) ->
  assemble_raw vc v ms = Product w used [] ->
  exists prod ws, vector_assemble (S (S (List.length ms))) (src_entity (List.length ms) vc v) (src_modules 0 ms) = Ok (prod, ws)
    /\ pr_seq prod = w /\ unused_of ws = [].
Proof.
  intros Gv Gm HE.
  destruct (src_modules_spec ms 0) as [Hraw Hids].
  assert (Hlen : List.length (src_modules 0 ms) = List.length ms)
    by (rewrite <- (map_length ent_id), Hids; apply seq_length).
  pose proof (vector_assemble_eq (src_entity (List.length ms) vc v) (src_modules 0 ms) Gv Gm) as H.
  rewrite Hlen, Hids in H. specialize (H eq_refl). rewrite Hraw in H.
  change (ent_cls (src_entity (List.length ms) vc v)) with vc in H.
  change (ent_seq_w (src_entity (List.length ms) vc v)) with v in H.
  rewrite HE in H. cbn [forget_used] in H.
  destruct (vector_assemble _ _ _) as [[prod ws]|x].
  - cbn [outcome_of] in H. inversion H. exists prod, ws. repeat split; auto.
  - destruct x; cbn in H; try discriminate. destruct o; discriminate.
Qed.

(* STRAND SYMMETRY ON THE SOURCE: under the hypotheses of C12_end_to_end, the translated
   vector.assemble returns, for the plasmids and for their reverse complements (each read from any
   origin, in any order), products related as the model says: the second is, up to the letter case
   of the junction overhangs and up to the origin, the reverse complement of the first *)
Theorem src_end_to_end_strand e v kv kv' (l l' : list (mplasmid * Z)) (cs : list smod) :
  (0 < List.length (esite e))%nat -> vplasmid_ok e v -> Forall (mplasmid_ok e) (map fst l) ->
  map fst l' = map fst l ->
  let ms := number 0 (map fst l) in
  Permutation ms cs ->
  path (okey (qOdn v)) (map keys_of cs) (okey (qOup v)) ->
  okey (qOup v) <> okey (qOdn v) ->
  Forall (fun m => okey (so5 m) <> okey (qOup v)) cs ->
  Forall (fun m => okey (so3 m) <> okey (qOdn v)) cs ->
  clash_free rc_codes (map tmod_of ms) -> clash_free rc_codes (map tmod_of (map rc_smod ms)) ->
  Z.of_nat (List.length (vword v)) <= py_MAXSIZE ->
  Forall (fun x => Z.of_nat (List.length (mword (fst x))) <= py_MAXSIZE) l ->
  Forall (fun x => Z.of_nat (List.length (mword (fst x))) <= py_MAXSIZE) l' ->
  exists p ws p' ws',
    vector_assemble (S (S (List.length l))) (src_entity (List.length l) (generic_cls RVector e) (rotr kv (vword v)))
                    (src_modules 0 (map (marg e) l)) = Ok (p, ws) /\ unused_of ws = [] /\
    vector_assemble (S (S (List.length l'))) (src_entity (List.length l') (generic_cls RVector e) (rotr kv' (rc (vword v))))
                    (src_modules 0 (map (marg_rc e) l')) = Ok (p', ws') /\ unused_of ws' = [] /\
    same_codes (pr_seq p') (rotl (Z.of_nat (List.length (rc (vbackbone v)))) (rc (pr_seq p))).
Proof.
  intros Hs Hv Hms Hl' ms Hperm Hpath Hne F5 F3 CF CF' Lv Lm Lm'.
  destruct (end_to_end_strand e v kv kv' l l' cs Hs Hv Hms Hl' Hperm Hpath Hne F5 F3 CF CF') as (E1 & E2 & Hrel).
  assert (G1 : good_ent (src_entity (List.length (map (marg e) l)) (generic_cls RVector e) (rotr kv (vword v))))
    by (apply src_entity_good; now rewrite rotr_length).
  assert (G2 : good_ent (src_entity (List.length (map (marg_rc e) l')) (generic_cls RVector e) (rotr kv' (rc (vword v)))))
    by (apply src_entity_good; now rewrite rotr_length, rc_length).
  assert (M1 : Forall good_ent (src_modules 0 (map (marg e) l))).
  { apply (src_modules_good_gen (marg e) e); [intros x; eexists; reflexivity|].
    eapply Forall_impl; [|exact Lm]. intros x Hx. unfold marg. cbn [snd]. now rewrite rotr_length. }
  assert (M2 : Forall good_ent (src_modules 0 (map (marg_rc e) l'))).
  { apply (src_modules_good_gen (marg_rc e) e); [intros x; eexists; reflexivity|].
    eapply Forall_impl; [|exact Lm']. intros x Hx. unfold marg_rc. cbn [snd]. now rewrite rotr_length, rc_length. }
  destruct (src_product_of_raw _ _ _ _ _ G1 M1 E1) as (p & ws & A1 & P1 & U1).
  destruct (src_product_of_raw _ _ _ _ _ G2 M2 E2) as (p' & ws' & A2 & P2 & U2).
  rewrite map_length in A1, A2.
  exists p, ws, p', ws'. repeat split; auto. rewrite P1, P2. exact Hrel.
Qed.
