(* SrcGlue.v — running the regenerated definitions (Gen/Src.v) on the inputs of the
   correspondence cases: the implementation is then compared with the hand-written model AND with
   the translation of its own source over the object model of PyObj.v (which validates that
   model of re / Biopython against the real thing). No proofs here. *)
From MV Require Import Base Record Regex Typing Assembly Pipeline Py PyObj SrcEquivAssembly Glue.
From MV.Gen Require Import Src.
From Coq Require Import String.
Local Open Scope Z_scope.

Definition src_entity (i : nat) (c : cls) (s : list letter) : entity :=
  ENT i c (PR KCircularRecord s i [] an_empty [] 0).

Fixpoint src_modules (i : nat) (ms : list (cls * list letter)) : list entity :=
  match ms with
  | [] => []
  | (c, s) :: r => src_entity i c s :: src_modules (S i) r
  end.

(* vector.assemble(modules...) through the translated code, observed as the model's outcome *)
Definition src_assemble (vc : cls) (v : list letter) (ms : list (cls * list letter)) : @Assembly.outcome (list code) :=
  outcome_of (vector_assemble (S (S (List.length ms))) (src_entity (List.length ms) vc v) (src_modules 0 ms)).

(* what a typing query reports, through the translated accessors *)
Definition src_observe (c : cls) (s : list letter) :=
  let e := src_entity 0 c s in
  (match StructuredRecord_is_valid e with Ok b => b | Err _ => false end,
   SrcEquivTyping.obs (ent_overhang_start e), SrcEquivTyping.obs (ent_overhang_end e),
   SrcEquivTyping.obs (ent_target_sequence e),
   match crole c with RVector => SrcEquivTyping.obs (AbstractVector_placeholder_sequence e) | RModule => None end).
