(* CircleLemmas.v — circular membership = occurrence in some rotation (C15). *)
From MV Require Import Base RotLemmas Circle.

Section Contains.
  Context {A : Type} (eqb : A -> A -> bool).
  Context (eqb_spec : forall x y, eqb x y = true <-> x = y).

  Definition Infix (q w : list A) : Prop := exists a b, w = a ++ q ++ b.

  Lemma prefixb_spec q w : prefixb eqb q w = true <-> exists b, w = q ++ b.
  Proof.
    revert w. induction q as [|x q IH]; intros w.
    - cbn. split; [intros _; now exists w|reflexivity].
    - destruct w as [|y w]; cbn [prefixb].
      + split; [discriminate|]. intros [b Hb]. discriminate.
      + rewrite andb_true_iff, eqb_spec, IH. split.
        * intros [-> [b ->]]. now exists b.
        * intros [b Hb]. cbn in Hb. inversion Hb; subst. split; [reflexivity|now exists b].
  Qed.

  Lemma infixb_spec q w : infixb eqb q w = true <-> Infix q w.
  Proof.
    induction w as [|y w IH].
    - cbn [infixb]. rewrite orb_false_r, prefixb_spec. split.
      + intros [b Hb]. exists [], b. exact Hb.
      + intros (a & b & H). destruct a; [now exists b|discriminate].
    - cbn [infixb]. rewrite orb_true_iff, prefixb_spec, IH. split.
      + intros [[b Hb]|(a & b & Hab)].
        * exists [], b. exact Hb.
        * exists (y :: a), b. cbn. now rewrite Hab.
      + intros (a & b & H). destruct a as [|z a].
        * left. now exists b.
        * right. cbn in H. inversion H; subst. now exists a, b.
  Qed.

  Lemma infix_firstn_skipn q (w : list A) i m :
    Infix q (firstn m (skipn i w)) -> Infix q w.
  Proof.
    intros (a & b & H).
    exists (firstn i w ++ a), (b ++ skipn m (skipn i w)).
    rewrite <- (firstn_skipn i w) at 1. rewrite <- app_assoc. f_equal.
    rewrite <- (firstn_skipn m (skipn i w)) at 1. rewrite H.
    now rewrite <- !app_assoc.
  Qed.

  (* a rotation is an infix of the doubled word *)
  Lemma rotr_infix_double k (s : list A) : Infix (rotr k s) (s ++ s).
  Proof.
    unfold rotr. set (m := length s - Z.to_nat (k mod Z.of_nat (length s))).
    exists (firstn m s), (skipn m s).
    rewrite <- !app_assoc.
    rewrite (app_assoc (firstn m s) (skipn m s)), firstn_skipn.
    reflexivity.
  Qed.

  Lemma infix_trans q v w : Infix q v -> Infix v w -> Infix q w.
  Proof.
    intros (a & b & ->) (c & d & ->). exists (c ++ a), (b ++ d).
    now rewrite <- !app_assoc.
  Qed.

  Lemma app_eq_length_split (a b c d : list A) :
    a ++ b = c ++ d -> length c <= length a -> exists e, a = c ++ e /\ d = e ++ b.
  Proof.
    revert c. induction a as [|x a IH]; intros c H Hl.
    - destruct c; [|cbn in Hl; lia]. exists []. cbn in *. now split.
    - destruct c as [|y c].
      + exists (x :: a). cbn in *. now split.
      + cbn in H. inversion H; subst. cbn in Hl.
        destruct (IH c H2 ltac:(lia)) as (e & -> & ->). exists e. now split.
  Qed.

  Theorem contains_iff q s :
    contains eqb q s = true <->
    length q <= length s /\ exists k, Infix q (rotr k s).
  Proof.
    unfold contains. rewrite andb_true_iff, Nat.leb_le, infixb_spec. split.
    - intros [Hl (a & b & H)]. split; [exact Hl|].
      destruct (Nat.le_gt_cases (length s) (length a)) as [Hge|Hlt].
      + (* the occurrence starts in the second copy: it lies inside s itself *)
        symmetry in H. destruct (app_eq_length_split _ _ _ _ H Hge) as (e & -> & Hs).
        exists 0%Z. rewrite rotr_0. exists e, b. exact Hs.
      + (* it starts at i < n: q is a prefix of the window at i *)
        exists (- Z.of_nat (length a))%Z. fold (rotl (Z.of_nat (length a)) s).
        rewrite <- window_is_rotl by exact Hlt. unfold window. rewrite H.
        rewrite skipn_app, skipn_all, Nat.sub_diag. cbn [skipn app].
        exists [], (firstn (length s - length q) b). cbn [app].
        rewrite firstn_app. rewrite firstn_all2 by lia. reflexivity.
    - intros [Hl [k Hk]]. split; [exact Hl|].
      eapply infix_trans; [exact Hk|apply rotr_infix_double].
  Qed.

  (* hence the answer is the same for every rotation of the record *)
  Theorem contains_rot q s k : contains eqb q (rotr k s) = contains eqb q s.
  Proof.
    apply Bool.eq_iff_eq_true. rewrite !contains_iff, rotr_length. split.
    - intros [Hl [j Hj]]. split; [exact Hl|]. exists (j + k)%Z. now rewrite <- rotr_add.
    - intros [Hl [j Hj]]. split; [exact Hl|]. exists (j - k)%Z. rewrite rotr_add.
      now replace (j - k + k)%Z with j by lia.
  Qed.

  (* nothing longer than the record is ever contained; the empty word always is *)
  Lemma contains_too_long q s : length s < length q -> contains eqb q s = false.
  Proof. intros H. unfold contains. replace (length q <=? length s) with false by lia. reflexivity. Qed.

  Lemma contains_nil s : contains eqb [] s = true.
  Proof. unfold contains. cbn. destruct (s ++ s); reflexivity. Qed.
End Contains.

Lemma letter_eqb_spec x y : letter_eqb x y = true <-> x = y.
Proof.
  destruct x as [c u], y as [d v]. unfold letter_eqb. cbn.
  rewrite andb_true_iff, Bool.eqb_true_iff. split.
  - intros [Hc ->]. destruct c, d; try discriminate; reflexivity.
  - intros H. inversion H; subst. split; [destruct d|]; reflexivity.
Qed.
