(* CitationLemmas.v — inputs are restored on every exit; product citations point to
   the references their sources pointed to; each reference once. *)
From MV Require Import Base Citations.

(* ---------- purity ----------------------------------------------------------- *)

Lemma deref_cits_length refs : forall cs fuel, length (snd (deref_cits refs fuel cs)) = length cs.
Proof.
  induction cs as [|c r IH]; intros fuel; simpl; [reflexivity|].
  destruct fuel as [|k]; [reflexivity|].
  destruct (deref_cit refs c); [|reflexivity].
  specialize (IH k). destruct (deref_cits refs k r). simpl in *. now rewrite IH.
Qed.

Lemma restore_deref_feats refs : forall fs fuel,
  restore_feats (map fcits fs) (snd (deref_feats refs fuel fs)) = fs.
Proof.
  induction fs as [|f r IH]; intros fuel; simpl; [reflexivity|].
  destruct (deref_cits refs fuel (fcits f)) as [k cs].
  specialize (IH k). destruct (deref_feats refs k r) as [k' r']. simpl in *.
  rewrite IH. destruct f; reflexivity.
Qed.

(* C07: whatever the point at which the call is interrupted, the inputs read as before *)
Theorem inputs_restored : forall s fuel, inputs_after fuel s = s.
Proof.
  unfold inputs_after. induction s as [|x r IH]; intros fuel; simpl; [reflexivity|].
  pose proof (restore_deref_feats (crefs x) (cfeats x) fuel) as Hf.
  destruct (deref_feats (crefs x) fuel (cfeats x)) as [k fs]. simpl in Hf.
  specialize (IH k). destruct (deref_store k r) as [k' r']. simpl in *.
  rewrite Hf, IH. destruct x; reflexivity.
Qed.

(* only citation lists are ever touched: reference lists and feature tables keep their shape *)
Lemma deref_store_frame : forall s fuel,
  map crefs (snd (deref_store fuel s)) = map crefs s /\
  map (fun x => map fkept (cfeats x)) (snd (deref_store fuel s)) = map (fun x => map fkept (cfeats x)) s.
Proof.
  induction s as [|x r IH]; intros fuel; simpl; [auto|].
  assert (Hf : forall fs fu, map fkept (snd (deref_feats (crefs x) fu fs)) = map fkept fs).
  { induction fs as [|f t IHf]; intros fu; simpl; [reflexivity|].
    destruct (deref_cits (crefs x) fu (fcits f)) as [k cs].
    specialize (IHf k). destruct (deref_feats (crefs x) k t). simpl in *. now rewrite IHf. }
  specialize (Hf (cfeats x) fuel).
  destruct (deref_feats (crefs x) fuel (cfeats x)) as [k fs]. simpl in Hf.
  specialize (IH k). destruct (deref_store k r) as [k' r']. simpl in *.
  destruct IH as [IH1 IH2]. now rewrite IH1, IH2, Hf.
Qed.

(* ---------- the product's reference list -------------------------------------- *)

Lemma index_of_some r l k : index_of r l = Some k -> nth_error l k = Some r /\ k < length l.
Proof.
  revert k. induction l as [|x t IH]; simpl; intros k H; [discriminate|].
  destruct (Nat.eqb x r) eqn:E.
  - inversion H; subst. apply Nat.eqb_eq in E. subst. simpl. split; [reflexivity|lia].
  - destruct (index_of r t) as [j|]; [|discriminate]. inversion H; subst.
    destruct (IH j eq_refl). simpl. split; [assumption|lia].
Qed.

Lemma index_of_none r l : index_of r l = None -> ~ In r l.
Proof.
  induction l as [|x t IH]; simpl; intros H; [tauto|].
  destruct (Nat.eqb x r) eqn:E; [discriminate|].
  destruct (index_of r t); [discriminate|].
  apply Nat.eqb_neq in E. intros [Hx|Hin]; [congruence|now apply IH].
Qed.

Lemma index_of_in r l : In r l -> exists k, index_of r l = Some k.
Proof.
  intros H. destruct (index_of r l) as [k|] eqn:E; [eauto|]. now apply index_of_none in E.
Qed.

(* the list only grows at its end *)
Definition extends (a b : list nat) : Prop := exists t, b = a ++ t.

Lemma extends_refl a : extends a a.
Proof. exists []. now rewrite app_nil_r. Qed.

Lemma extends_trans a b c : extends a b -> extends b c -> extends a c.
Proof. intros [t ->] [u ->]. exists (t ++ u). now rewrite app_assoc. Qed.

Lemma extends_nth a b k x : extends a b -> nth_error a k = Some x -> nth_error b k = Some x.
Proof.
  intros [t ->] H. rewrite nth_error_app1; [assumption|]. apply nth_error_Some. congruence.
Qed.

Definition points (R : list nat) (r i : nat) : Prop := 1 <= i /\ nth_error R (i - 1) = Some r.

Lemma ref_one_spec refs r : NoDup refs ->
  let (R, i) := ref_one refs r in
  extends refs R /\ NoDup R /\ points R r i /\ (forall x, In x R <-> In x refs \/ x = r).
Proof.
  intros Hn. unfold ref_one. destruct (index_of r refs) as [k|] eqn:E.
  - apply index_of_some in E. destruct E as [Hk Hl].
    split; [apply extends_refl|]. split; [assumption|]. split.
    + split; [lia|]. simpl. now rewrite Nat.sub_0_r.
    + intros x. split; [auto|]. intros [H| ->]; [assumption|]. eapply nth_error_In; eauto.
  - apply index_of_none in E. split; [now exists [r]|]. split.
    + apply NoDup_rev in Hn. rewrite <- (rev_involutive (refs ++ [r])). apply NoDup_rev.
      rewrite rev_app_distr. simpl. constructor; [|assumption]. now rewrite <- in_rev.
    + split.
      * split; [lia|]. simpl. rewrite Nat.sub_0_r. rewrite nth_error_app2 by lia.
        now rewrite Nat.sub_diag.
      * intros x. rewrite in_app_iff. simpl. intuition.
Qed.

Lemma ref_cits_spec : forall rs refs, NoDup refs ->
  let (R, is_) := ref_cits refs rs in
  extends refs R /\ NoDup R /\ Forall2 (points R) rs is_ /\
  (forall x, In x R <-> In x refs \/ In x rs).
Proof.
  induction rs as [|r t IH]; intros refs Hn; simpl.
  - split; [apply extends_refl|]. split; [assumption|]. split; [constructor|]. intuition.
  - pose proof (ref_one_spec refs r Hn) as H1. destruct (ref_one refs r) as [R1 i].
    destruct H1 as (He1 & Hn1 & Hp1 & Hin1).
    specialize (IH R1 Hn1). destruct (ref_cits R1 t) as [R2 is_].
    destruct IH as (He2 & Hn2 & Hp2 & Hin2).
    split; [eapply extends_trans; eauto|]. split; [assumption|]. split.
    + constructor; [|assumption]. destruct Hp1 as [Hi Hp1]. split; [assumption|].
      eapply extends_nth; eauto.
    + intros x. rewrite Hin2, Hin1. intuition.
Qed.

Lemma forall2_impl {A B} (P Q : A -> B -> Prop) l l' :
  (forall a b, P a b -> Q a b) -> Forall2 P l l' -> Forall2 Q l l'.
Proof. intros H. induction 1; constructor; auto. Qed.

Lemma points_extends R R' r i : extends R R' -> points R r i -> points R' r i.
Proof. intros He [Hi Hp]. split; [assumption|]. eapply extends_nth; eauto. Qed.

Lemma ref_feats_spec : forall fs refs, NoDup refs ->
  let (R, idx) := ref_feats refs fs in
  extends refs R /\ NoDup R /\ Forall2 (Forall2 (points R)) fs idx /\
  (forall x, In x R <-> In x refs \/ In x (concat fs)).
Proof.
  induction fs as [|f t IH]; intros refs Hn; simpl.
  - split; [apply extends_refl|]. split; [assumption|]. split; [constructor|]. intuition.
  - pose proof (ref_cits_spec f refs Hn) as H1. destruct (ref_cits refs f) as [R1 is_].
    destruct H1 as (He1 & Hn1 & Hp1 & Hin1).
    specialize (IH R1 Hn1). destruct (ref_feats R1 t) as [R2 idx].
    destruct IH as (He2 & Hn2 & Hp2 & Hin2).
    split; [eapply extends_trans; eauto|]. split; [assumption|]. split.
    + constructor; [|assumption].
      eapply forall2_impl; [|exact Hp1]. intros a b. now apply points_extends.
    + intros x. rewrite Hin2, Hin1, in_app_iff. intuition.
Qed.

(* C10: every citation index of the product points, in the product's reference list,
   to the reference its source cited; the list holds each cited reference once and
   nothing else *)
Theorem product_refs_spec fs :
  let (R, idx) := ref_feats [] fs in
  NoDup R /\ Forall2 (Forall2 (points R)) fs idx /\ (forall x, In x R <-> In x (concat fs)).
Proof.
  pose proof (ref_feats_spec fs [] (NoDup_nil _)) as H. destruct (ref_feats [] fs) as [R idx].
  destruct H as (_ & Hn & Hp & Hin). split; [assumption|]. split; [assumption|].
  intros x. rewrite Hin. simpl. intuition.
Qed.

(* first-use order: the list is the cited references with later repeats removed *)
Fixpoint dedup (seen l : list nat) : list nat :=
  match l with
  | [] => []
  | x :: t => if existsb (Nat.eqb x) seen then dedup seen t else x :: dedup (seen ++ [x]) t
  end.

Lemma existsb_index x l : existsb (Nat.eqb x) l = match index_of x l with Some _ => true | None => false end.
Proof.
  induction l as [|y t IH]; simpl; [reflexivity|].
  rewrite (Nat.eqb_sym x y). destruct (Nat.eqb y x); [reflexivity|].
  rewrite IH. now destruct (index_of x t).
Qed.

Lemma ref_cits_order : forall rs refs, fst (ref_cits refs rs) = refs ++ dedup refs rs.
Proof.
  induction rs as [|r t IH]; intros refs; simpl; [now rewrite app_nil_r|].
  unfold ref_one. rewrite existsb_index. destruct (index_of r refs) as [k|].
  - specialize (IH refs). destruct (ref_cits refs t). simpl in *. exact IH.
  - specialize (IH (refs ++ [r])). destruct (ref_cits (refs ++ [r]) t). simpl in *.
    rewrite IH. now rewrite <- app_assoc.
Qed.

Lemma dedup_app : forall a b seen, dedup seen (a ++ b) = dedup seen a ++ dedup (seen ++ dedup seen a) b.
Proof.
  induction a as [|x t IH]; intros b seen; simpl; [now rewrite app_nil_r|].
  destruct (existsb (Nat.eqb x) seen); [apply IH|].
  simpl. rewrite IH. now rewrite <- app_assoc.
Qed.

Theorem product_refs_order : forall fs refs, fst (ref_feats refs fs) = refs ++ dedup refs (concat fs).
Proof.
  induction fs as [|f t IH]; intros refs; simpl; [now rewrite app_nil_r|].
  pose proof (ref_cits_order f refs) as H1. destruct (ref_cits refs f) as [R1 is_]. simpl in H1.
  specialize (IH R1). destruct (ref_feats R1 t) as [R2 idx]. simpl in *.
  rewrite IH, H1, dedup_app. now rewrite <- app_assoc.
Qed.
