(* Assembly.v — L3 of the model: AssemblyManager (core/_assembly.py:19-73) over
   typed elements. Overhang keys are an arbitrary type O with a decidable
   equality `oeq` and an involution `orc` (reverse complement); in the instance
   used for DNA a key is the case-folded overhang (a list of codes), which is how
   the repaired code keys its dictionary. Equal, reverse-complementary and
   palindromic overhangs are all covered. Executable definitions only. *)
From MV Require Import Base.

Section Asm.
  Context {O : Type} (oeq : O -> O -> bool) (orc : O -> O).

  (* a typed module: its position in the argument list (distinct objects have
     distinct ids), start and end overhang keys, the fragment target_sequence()
     extracts *)
  Record tmod := TM { mid : nat; mup : O; mdown : O; mfrag : list letter }.
  Record tvec := TV { vup : O; vdown : O; vfrag : list letter }.

  Inductive outcome :=
  | Product (w : list letter) (used unused : list nat)   (* + UnusedModules warning iff unused <> [] *)
  | EInvalid                                              (* InvalidSequence: vector not suitable *)
  | EDuplicate (a b : nat)                                (* DuplicateModules(a, b) *)
  | EMissing (o : O)                                      (* MissingModule(start_overhang = o) *)
  | EInternal.                                            (* anything else: never produced (C17) *)

  (* the dict keyed by start overhang, in insertion order *)
  Definition modmap := list tmod.

  Fixpoint lookup (o : O) (mp : modmap) : option tmod :=
    match mp with
    | [] => None
    | m :: r => if oeq (mup m) o then Some m else lookup o r
    end.

  (* _generate_modules_map, first loop: setdefault; an occupied key is a duplicate *)
  Fixpoint build_map (ms : list tmod) (mp : modmap) : modmap + (nat * nat) :=
    match ms with
    | [] => inl mp
    | m :: r =>
      match lookup (mup m) mp with
      | Some m0 => inr (mid m0, mid m)
      | None => build_map r (mp ++ [m])
      end
    end.

  (* second loop: for overhang in modmap: m = modmap.get(rc overhang); a module is
     not a duplicate of itself (repaired F6: a palindromic start overhang) *)
  Fixpoint rc_clash (keys : modmap) (mp : modmap) : option (nat * nat) :=
    match keys with
    | [] => None
    | k :: r =>
      match lookup (orc (mup k)) mp with
      | Some m => if Nat.eqb (mid m) (mid k) then rc_clash r mp else Some (mid m, mid k)
      | None => rc_clash r mp
      end
    end.

  (* the pinned second loop (F6): a palindromic overhang clashes with itself *)
  Fixpoint rc_clash_pinned (keys : modmap) (mp : modmap) : option (nat * nat) :=
    match keys with
    | [] => None
    | k :: r =>
      match lookup (orc (mup k)) mp with
      | Some m => Some (mid m, mid k)
      | None => rc_clash_pinned r mp
      end
    end.

  (* dict.pop(key) *)
  Fixpoint pop (o : O) (mp : modmap) : option (tmod * modmap) :=
    match mp with
    | [] => None
    | m :: r =>
      if oeq (mup m) o then Some (m, r)
      else match pop o r with
           | Some (x, r') => Some (x, m :: r')
           | None => None
           end
    end.

  (* _generate_assembly: the while loop; fuel bounds the number of iterations.
     b = vector.overhang_start(); returns the modules consumed, in order, and
     what is left in the dict *)
  Inductive wres := WChain (used rest : list tmod) | WMissing (o : O) | WFuel.

  Fixpoint walk (fuel : nat) (b next : O) (mp : modmap) (used : list tmod) : wres :=
    if oeq next b then WChain used mp
    else
      match fuel with
      | 0 => WFuel
      | S f =>
        match pop next mp with
        | None => WMissing next
        | Some (m, mp') => walk f b (mdown m) mp' (used ++ [m])
        end
      end.

  Definition finish (v : tvec) (r : wres) : outcome :=
    match r with
    | WChain u rest => Product (concat (map mfrag u) ++ vfrag v) (map mid u) (map mid rest)
    | WMissing o => EMissing o
    | WFuel => EInternal
    end.

  Definition assemble_with (clash : modmap -> modmap -> option (nat * nat))
             (v : tvec) (ms : list tmod) : outcome :=
    if oeq (vup v) (vdown v) then EInvalid
    else
      match build_map ms [] with
      | inr (a, b) => EDuplicate a b
      | inl mp =>
        match clash mp mp with
        | Some (a, b) => EDuplicate a b
        | None => finish v (walk (S (length ms)) (vup v) (vdown v) mp [])
        end
      end.

  Definition assemble := assemble_with rc_clash.
  Definition assemble_pinned_rc := assemble_with rc_clash_pinned.
End Asm.

Arguments TM {O}.
Arguments TV {O}.
Arguments Product {O}.
Arguments EInvalid {O}.
Arguments EDuplicate {O}.
Arguments EMissing {O}.
Arguments EInternal {O}.
Arguments WChain {O}.
Arguments WMissing {O}.
Arguments WFuel {O}.

(* ---------- the instance used for DNA ---------------------------------- *)

(* the key of an overhang: its letters after case folding *)
Definition okey (w : list letter) : list code := map lcode w.

Definition dna_assemble := @assemble (list code) codes_eqb rc_codes.

(* the pinned code (F5) keyed the dictionary by the overhang as spelled: a key is
   then the word itself, compared exactly *)
Definition dna_assemble_case_sensitive := @assemble (list letter) word_eqb rc.
