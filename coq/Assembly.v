(* Assembly.v — L3 of the model: AssemblyManager (core/_assembly.py:19-73) over
   typed elements. Overhangs are an arbitrary type O with a key equality `oeq`
   (equality after case folding in the instance used for DNA) and an involution
   `orc` (reverse complement), so equal, reverse-complementary and palindromic
   overhangs are all covered. Executable definitions only. *)
From MV Require Import Base.

Section Asm.
  Context {O : Type} (oeq : O -> O -> bool) (orc : O -> O).

  (* a typed module: identity (distinct objects have distinct ids), start and end
     overhang, the fragment target_sequence() extracts *)
  Record tmod := TM { mid : nat; mup : O; mdown : O; mfrag : list letter }.
  Record tvec := TV { vup : O; vdown : O; vfrag : list letter }.

  Inductive outcome :=
  | Product (w : list letter) (used unused : list nat)   (* + UnusedModules warning iff unused <> [] *)
  | EInvalid                                              (* InvalidSequence: vector not suitable *)
  | EDuplicate (a b : nat)                                (* DuplicateModules(a, b) *)
  | EMissing (o : O)                                      (* MissingModule(start_overhang = o) *)
  | EInternal.                                            (* anything else: never produced (C17) *)

  (* the dict keyed by start overhang, in insertion order *)
  Definition modmap := list tmod.

  Fixpoint lookup (o : O) (mp : modmap) : option tmod :=
    match mp with
    | [] => None
    | m :: r => if oeq (mup m) o then Some m else lookup o r
    end.

  (* _generate_modules_map, first loop: setdefault; an occupied key is a duplicate *)
  Fixpoint build_map (ms : list tmod) (mp : modmap) : modmap + (nat * nat) :=
    match ms with
    | [] => inl mp
    | m :: r =>
      match lookup (mup m) mp with
      | Some m0 => inr (mid m0, mid m)
      | None => build_map r (mp ++ [m])
      end
    end.

  (* second loop: for overhang in modmap: m = modmap.get(rc overhang); a module is
     not a duplicate of itself (repaired F6: a palindromic start overhang) *)
  Fixpoint rc_clash (keys : modmap) (mp : modmap) : option (nat * nat) :=
    match keys with
    | [] => None
    | k :: r =>
      match lookup (orc (mup k)) mp with
      | Some m => if Nat.eqb (mid m) (mid k) then rc_clash r mp else Some (mid m, mid k)
      | None => rc_clash r mp
      end
    end.

  (* the pinned second loop (F6): a palindromic overhang clashes with itself *)
  Fixpoint rc_clash_pinned (keys : modmap) (mp : modmap) : option (nat * nat) :=
    match keys with
    | [] => None
    | k :: r =>
      match lookup (orc (mup k)) mp with
      | Some m => Some (mid m, mid k)
      | None => rc_clash_pinned r mp
      end
    end.

  (* dict.pop(key) *)
  Fixpoint pop (o : O) (mp : modmap) : option (tmod * modmap) :=
    match mp with
    | [] => None
    | m :: r =>
      if oeq (mup m) o then Some (m, r)
      else match pop o r with
           | Some (x, r') => Some (x, m :: r')
           | None => None
           end
    end.

  (* _generate_assembly: the while loop; fuel bounds the number of iterations *)
  Fixpoint walk (fuel : nat) (v : tvec) (next : O) (mp : modmap)
           (acc : list letter) (used : list nat) : outcome :=
    if oeq next (vup v) then Product (acc ++ vfrag v) used (map mid mp)
    else
      match fuel with
      | 0 => EInternal
      | S f =>
        match pop next mp with
        | None => EMissing next
        | Some (m, mp') => walk f v (mdown m) mp' (acc ++ mfrag m) (used ++ [mid m])
        end
      end.

  Definition assemble (v : tvec) (ms : list tmod) : outcome :=
    if oeq (vup v) (vdown v) then EInvalid
    else
      match build_map ms [] with
      | inr (a, b) => EDuplicate a b
      | inl mp =>
        match rc_clash mp mp with
        | Some (a, b) => EDuplicate a b
        | None => walk (S (length ms)) v (vdown v) mp [] []
        end
      end.

  Definition assemble_pinned_rc (v : tvec) (ms : list tmod) : outcome :=
    if oeq (vup v) (vdown v) then EInvalid
    else
      match build_map ms [] with
      | inr (a, b) => EDuplicate a b
      | inl mp =>
        match rc_clash_pinned mp mp with
        | Some (a, b) => EDuplicate a b
        | None => walk (S (length ms)) v (vdown v) mp [] []
        end
      end.
End Asm.

Arguments TM {O}.
Arguments TV {O}.
Arguments Product {O}.
Arguments EInvalid {O}.
Arguments EDuplicate {O}.
Arguments EMissing {O}.
Arguments EInternal {O}.

(* the instance used for DNA: keys compared after case folding (repaired F5);
   the pinned code compared them exactly *)
Definition dna_assemble := @assemble (list letter) ci_eqb rc.
Definition dna_assemble_case_sensitive := @assemble (list letter) word_eqb rc.
