(* StrandIff.v — C12, the "if and only if": a record carrying the two recognition sites once each
   is a valid generic module (vector) iff its reverse complement is. An accepted record with the
   two sites IS a rotation of the plasmid of the formal definition (the match decomposes it), so
   StrandLemmas applies to it; the converse is the same statement about the reverse complement.
   Proofs only. *)
From MV Require Import Base RotLemmas Record RecordLemmas Regex RegexLemmas Shape ShapeLemmas Typing TypingLemmas TotalLemmas
                       ShapeTyping PartLemmas Anchors Canonical NextLevel StrandLemmas.
Local Open Scope nat_scope.

Lemma atoms_ok_single_inv w : forall S, atoms_ok (map single w) S -> map lcode S = w.
Proof.
  induction w as [|x w IH]; intros S H; inversion H as [|c y cs t Hc Ht]; subst; [reflexivity|].
  cbn. f_equal; [|now apply IH].
  unfold single in Hc. cbn in Hc. rewrite Bool.orb_false_r in Hc.
  destruct x; destruct (lcode y); try discriminate Hc; reflexivity.
Qed.

Lemma atoms_ok_repeat_inv k : forall X, atoms_ok (repeat setN k) X -> length X = k /\ Forall nucl X.
Proof.
  induction k as [|k IH]; intros X H; inversion H as [|c y cs t Hc Ht]; subst; [split; [reflexivity|constructor]|].
  destruct (IH _ Ht) as [Hl Hn]. split; [cbn; now rewrite Hl|]. constructor; [exact Hc|exact Hn].
Qed.

Lemma atoms_ok_one_inv t : atoms_ok [setN] t -> exists x, t = [x] /\ nucl x.
Proof.
  intros H. inversion H as [|c y cs t' Hc Ht]; subst. inversion Ht; subst. exists y. split; [reflexivity|exact Hc].
Qed.

Lemma rc_rotr_neg k s : rc (rotr k s) = rotr (- k) (rc s).
Proof. rewrite rc_rotr. reflexivity. Qed.

(* ---------- modules ------------------------------------------------------------------------ *)

(* an accepted record with the two sites is a rotation of the module of the formal definition *)
Lemma valid_module_canonical e s : 0 < length (esite e) ->
  is_valid (C RModule e (module_structure e)) s true = true ->
  exists i (S X O5 : list letter) t0 tmid tl (O3 Y R B : list letter),
    s = rotr (Z.of_nat i) (S ++ X ++ O5 ++ (t0 :: tmid ++ [tl]) ++ O3 ++ Y ++ R ++ B) /\
    map lcode S = esite e /\ map lcode R = rc_codes (esite e) /\
    length X = eoff e /\ length Y = eoff e /\ length O5 = eovh e /\ length O3 = eovh e /\
    Forall nucl X /\ Forall nucl Y /\ Forall nucl O5 /\ Forall nucl O3 /\ nucl t0 /\ Forall nucl tmid /\ nucl tl.
Proof.
  intros Hs Hv. unfold is_valid in Hv.
  destruct (typing (C RModule e (module_structure e)) s true) as [m| |] eqn:Ht; try discriminate.
  set (u := repeat setN (eovh e)).
  assert (Hp : cpat (C RModule e (module_structure e)) = shape_pat (module_shape e u u)).
  { cbn [cpat]. unfold module_structure. rewrite <- module_structure_shape. unfold u. now rewrite atoms_repeat. }
  destruct (shape_observe _ _ s m Hp Ht) as (pc & rest & HW & Hok & Hi & _ & _).
  destruct Hok as (Hpre & Hg1 & Ha & Hrun & Hb & Hg3 & Hpost).
  cbn [module_shape spre sg1 sa sstar sb sg3 spost] in *.
  apply atoms_ok_app_inv in Hpre. destruct Hpre as (S & X & Epre & HS & HX).
  apply atoms_ok_single_inv in HS. apply atoms_ok_repeat_inv in HX. destruct HX as [LX NX].
  apply atoms_ok_repeat_inv in Hg1. destruct Hg1 as [L5 N5].
  apply atoms_ok_one_inv in Ha. destruct Ha as (t0 & Ea & N0).
  apply atoms_ok_one_inv in Hb. destruct Hb as (tl & Eb & Nl).
  apply atoms_ok_repeat_inv in Hg3. destruct Hg3 as [L3 N3].
  apply atoms_ok_app_inv in Hpost. destruct Hpost as (Y & R & Epost & HY & HR).
  apply atoms_ok_repeat_inv in HY. destruct HY as [LY NY]. apply atoms_ok_single_inv in HR.
  exists (mstart m), S, X, (t1 pc), t0, (trun pc), tl, (t3 pc), Y, R, rest.
  split.
  - rewrite window_is_rotl in HW by exact Hi.
    rewrite <- (rotr_rotl (Z.of_nat (mstart m)) s). f_equal. rewrite HW.
    unfold pieces_text. rewrite Epre, Ea, Eb, Epost. cbn [app]. repeat (rewrite <- !app_assoc; cbn [app]). reflexivity.
  - repeat split; auto.
Qed.

Theorem strand_module_valid e s : 0 < length (esite e) ->
  occurs_once (esite e) s -> occurs_once (rc_codes (esite e)) s ->
  is_valid (C RModule e (module_structure e)) s true = true ->
  exists O5 T O3,
    observe (C RModule e (module_structure e)) s = (true, Some O5, Some O3, Some (O5 ++ T), Some (O5 ++ T)) /\
    observe (C RModule e (module_structure e)) (rc s) =
      (true, Some (rc O3), Some (rc O5), Some (rc O3 ++ rc T), Some (rc O3 ++ rc T)).
Proof.
  intros Hs U1 U2 Hv.
  destruct (valid_module_canonical e s Hs Hv) as
    (i & S & X & O5 & t0 & tmid & tl & O3 & Y & R & B & Es & HS & HR & LX & LY & L5 & L3 & NX & NY & N5 & N3 & N0 & Nm & Nl).
  set (s0 := S ++ X ++ O5 ++ (t0 :: tmid ++ [tl]) ++ O3 ++ Y ++ R ++ B) in *.
  assert (E0 : s0 = rotr (- Z.of_nat i) s) by (rewrite Es; symmetry; apply rotl_rotr).
  assert (U1' : occurs_once (esite e) s0) by (rewrite E0; now apply occurs_once_rot).
  assert (U2' : occurs_once (rc_codes (esite e)) s0) by (rewrite E0; now apply occurs_once_rot).
  exists O5, (t0 :: tmid ++ [tl]), O3.
  destruct (strand_module e S X O5 t0 tmid tl O3 Y R B (Z.of_nat i) HS HR Hs LX LY L5 L3 NX NY N5 N3 N0 Nm Nl U1' U2') as [H1 _].
  destruct (strand_module e S X O5 t0 tmid tl O3 Y R B (- Z.of_nat i) HS HR Hs LX LY L5 L3 NX NY N5 N3 N0 Nm Nl U1' U2') as [_ H2].
  fold s0 in H1, H2. split.
  - rewrite Es. exact H1.
  - rewrite Es, rc_rotr_neg. exact H2.
Qed.

(* the iff *)
Theorem strand_module_iff e s : 0 < length (esite e) ->
  occurs_once (esite e) s -> occurs_once (rc_codes (esite e)) s ->
  is_valid (C RModule e (module_structure e)) (rc s) true = is_valid (C RModule e (module_structure e)) s true.
Proof.
  intros Hs U1 U2.
  assert (V : forall x, observe (C RModule e (module_structure e)) x = (is_valid (C RModule e (module_structure e)) x true,
                          overhang_start _ x true, overhang_end _ x true, target _ x true, placeholder _ x true)) by reflexivity.
  destruct (is_valid (C RModule e (module_structure e)) s true) eqn:E1.
  - destruct (strand_module_valid e s Hs U1 U2 E1) as (O5 & T & O3 & _ & H). rewrite V in H. injection H as H0 _ _ _ _. exact H0.
  - destruct (is_valid (C RModule e (module_structure e)) (rc s) true) eqn:E2; [|reflexivity].
    assert (U1' : occurs_once (esite e) (rc s)) by now apply occurs_once_rc.
    assert (U2' : occurs_once (rc_codes (esite e)) (rc s)).
    { apply occurs_once_rc. now rewrite rc_codes_involutive. }
    destruct (strand_module_valid e (rc s) Hs U1' U2' E2) as (O5 & T & O3 & _ & H).
    rewrite rc_involutive, V in H. rewrite E1 in H. injection H as H0 _ _ _ _. discriminate H0.
Qed.

(* ---------- vectors ------------------------------------------------------------------------ *)

Lemma valid_vector_canonical e s : 0 < length (esite e) ->
  is_valid (C RVector e (vector_structure e)) s true = true ->
  exists i bl (Odn Y R P S X Oup : list letter) bf (B : list letter),
    s = rotr (Z.of_nat i) ([bl] ++ Odn ++ Y ++ R ++ P ++ S ++ X ++ Oup ++ [bf] ++ B) /\
    map lcode S = esite e /\ map lcode R = rc_codes (esite e) /\
    length X = eoff e /\ length Y = eoff e /\ length Odn = eovh e /\ length Oup = eovh e /\
    Forall nucl X /\ Forall nucl Y /\ Forall nucl P /\ Forall nucl Odn /\ Forall nucl Oup /\ nucl bl /\ nucl bf.
Proof.
  intros Hs Hv. unfold is_valid in Hv.
  destruct (typing (C RVector e (vector_structure e)) s true) as [m| |] eqn:Ht; try discriminate.
  set (u := repeat setN (eovh e)).
  assert (Hp : cpat (C RVector e (vector_structure e)) = shape_pat (vector_shape e u u)).
  { cbn [cpat]. unfold vector_structure. rewrite <- vector_structure_shape. unfold u. now rewrite atoms_repeat. }
  destruct (shape_observe _ _ s m Hp Ht) as (pc & rest & HW & Hok & Hi & _ & _).
  destruct Hok as (Hpre & Hg1 & Ha & Hrun & Hb & Hg3 & Hpost).
  cbn [vector_shape spre sg1 sa sstar sb sg3 spost] in *.
  apply atoms_ok_one_inv in Hpre. destruct Hpre as (bl & Epre & Nbl).
  apply atoms_ok_repeat_inv in Hg1. destruct Hg1 as [Ld Nd].
  apply atoms_ok_app_inv in Ha. destruct Ha as (Y & R & Ea & HY & HR).
  apply atoms_ok_repeat_inv in HY. destruct HY as [LY NY]. apply atoms_ok_single_inv in HR.
  apply atoms_ok_app_inv in Hb. destruct Hb as (S & X & Eb & HS & HX).
  apply atoms_ok_single_inv in HS. apply atoms_ok_repeat_inv in HX. destruct HX as [LX NX].
  apply atoms_ok_repeat_inv in Hg3. destruct Hg3 as [Lu Nu].
  apply atoms_ok_one_inv in Hpost. destruct Hpost as (bf & Epost & Nbf).
  exists (mstart m), bl, (t1 pc), Y, R, (trun pc), S, X, (t3 pc), bf, rest.
  split.
  - rewrite window_is_rotl in HW by exact Hi.
    rewrite <- (rotr_rotl (Z.of_nat (mstart m)) s). f_equal. rewrite HW.
    unfold pieces_text. rewrite Epre, Ea, Eb, Epost. cbn [app]. repeat (rewrite <- !app_assoc; cbn [app]). reflexivity.
  - repeat split; auto.
Qed.

Theorem strand_vector_valid e s : 0 < length (esite e) ->
  occurs_once (esite e) s -> occurs_once (rc_codes (esite e)) s ->
  is_valid (C RVector e (vector_structure e)) s true = true ->
  exists Oup Body Odn PH,
    observe (C RVector e (vector_structure e)) s = (true, Some Oup, Some Odn, Some (Oup ++ Body), Some (Odn ++ PH)) /\
    observe (C RVector e (vector_structure e)) (rc s) =
      (true, Some (rc Odn), Some (rc Oup), Some (rc Odn ++ rc Body), Some (rc Oup ++ rc PH)).
Proof.
  intros Hs U1 U2 Hv.
  destruct (valid_vector_canonical e s Hs Hv) as
    (i & bl & Odn & Y & R & P & S & X & Oup & bf & B & Es & HS & HR & LX & LY & Ld & Lu & NX & NY & NP & Nd & Nu & Nbl & Nbf).
  set (s0 := [bl] ++ Odn ++ Y ++ R ++ P ++ S ++ X ++ Oup ++ [bf] ++ B) in *.
  assert (E0 : s0 = rotr (- Z.of_nat i) s) by (rewrite Es; symmetry; apply rotl_rotr).
  assert (U1' : occurs_once (esite e) s0) by (rewrite E0; now apply occurs_once_rot).
  assert (U2' : occurs_once (rc_codes (esite e)) s0) by (rewrite E0; now apply occurs_once_rot).
  exists Oup, ([bf] ++ B ++ [bl]), Odn, (Y ++ R ++ P ++ S ++ X).
  destruct (strand_vector e bl Odn Y R P S X Oup bf B (Z.of_nat i) HS HR Hs LX LY Ld Lu NX NY NP Nd Nu Nbl Nbf U1' U2') as [H1 _].
  destruct (strand_vector e bl Odn Y R P S X Oup bf B (- Z.of_nat i) HS HR Hs LX LY Ld Lu NX NY NP Nd Nu Nbl Nbf U1' U2') as [_ H2].
  fold s0 in H1, H2. split.
  - rewrite Es. exact H1.
  - rewrite Es, rc_rotr_neg, H2. f_equal; [f_equal|].
    + f_equal. rewrite !rc_app. cbn [rc app]. rewrite <- !app_assoc. reflexivity.
    + f_equal. rewrite !rc_app. rewrite <- !app_assoc. reflexivity.
Qed.

Theorem strand_vector_iff e s : 0 < length (esite e) ->
  occurs_once (esite e) s -> occurs_once (rc_codes (esite e)) s ->
  is_valid (C RVector e (vector_structure e)) (rc s) true = is_valid (C RVector e (vector_structure e)) s true.
Proof.
  intros Hs U1 U2.
  assert (V : forall x, observe (C RVector e (vector_structure e)) x = (is_valid (C RVector e (vector_structure e)) x true,
                          overhang_start _ x true, overhang_end _ x true, target _ x true, placeholder _ x true)) by reflexivity.
  destruct (is_valid (C RVector e (vector_structure e)) s true) eqn:E1.
  - destruct (strand_vector_valid e s Hs U1 U2 E1) as (a & b & c & d & _ & H). rewrite V in H. injection H as H0 _ _ _ _. exact H0.
  - destruct (is_valid (C RVector e (vector_structure e)) (rc s) true) eqn:E2; [|reflexivity].
    assert (U1' : occurs_once (esite e) (rc s)) by now apply occurs_once_rc.
    assert (U2' : occurs_once (rc_codes (esite e)) (rc s)).
    { apply occurs_once_rc. now rewrite rc_codes_involutive. }
    destruct (strand_vector_valid e (rc s) Hs U1' U2' E2) as (a & b & c & d & _ & H).
    rewrite rc_involutive, V in H. rewrite E1 in H. injection H as H0 _ _ _ _. discriminate H0.
Qed.
