(* AssemblyLemmas.v — proofs about the assembly walk (Assembly.v): the outcome is a
   function of the overhang graph, every module is used at most once, the argument
   order is irrelevant, the fuel is never exhausted, same-type modules are
   interchangeable. *)
From MV Require Import Base Assembly.
From Coq Require Import Permutation.

Section AsmLemmas.
  Context {O : Type} (oeq : O -> O -> bool) (orc : O -> O).
  Context (oeq_spec : forall a b, oeq a b = true <-> a = b).

  Notation tmod := (@tmod O).
  Notation tvec := (@tvec O).
  Notation lookup := (@lookup O oeq).
  Notation build_map := (@build_map O oeq).
  Notation rc_clash := (@rc_clash O oeq orc).
  Notation pop := (@pop O oeq).
  Notation walk := (@walk O oeq).
  Notation assemble := (@assemble O oeq orc).

  Lemma oeq_false a b : oeq a b = false <-> a <> b.
  Proof.
    split.
    - intros H E. apply oeq_spec in E. congruence.
    - intros H. destruct (oeq a b) eqn:E; [apply oeq_spec in E; contradiction | reflexivity].
  Qed.

  Lemma oeq_refl a : oeq a a = true.
  Proof. now apply oeq_spec. Qed.

  (* ---------- generic list facts ---------------------------------------- *)

  Lemma nodup_map_inj {A B} (f : A -> B) l x y :
    NoDup (map f l) -> In x l -> In y l -> f x = f y -> x = y.
  Proof.
    induction l as [|z l IH]; simpl; intros Hn Hx Hy E; [contradiction|].
    inversion Hn as [|? ? Hnin Hn']; subst.
    destruct Hx as [->|Hx], Hy as [->|Hy]; auto.
    - exfalso. apply Hnin. rewrite E. now apply in_map.
    - exfalso. apply Hnin. rewrite <- E. now apply in_map.
  Qed.

  Lemma nodup_app_l {A} (l l' : list A) : NoDup (l ++ l') -> NoDup l.
  Proof.
    induction l as [|x l IH]; simpl; intros H; [constructor|].
    inversion H as [|? ? Hnin Hn]; subst. constructor; auto.
    intros Hin. apply Hnin. apply in_or_app. auto.
  Qed.

  Lemma nodup_map_app_inv {A B} (f : A -> B) l1 x l2 :
    NoDup (map f (l1 ++ x :: l2)) -> NoDup (map f (l1 ++ l2)) /\ ~ In (f x) (map f (l1 ++ l2)).
  Proof.
    rewrite !map_app. simpl. intros H. split.
    - now apply NoDup_remove_1 in H.
    - now apply NoDup_remove_2 in H.
  Qed.

  (* ---------- lookup ----------------------------------------------------- *)

  Lemma lookup_none o mp : lookup o mp = None <-> forall m, In m mp -> mup m <> o.
  Proof.
    induction mp as [|x mp IH]; simpl.
    - split; [intros _ m []|reflexivity].
    - destruct (oeq (mup x) o) eqn:E.
      + split; [discriminate|]. intros H. apply oeq_spec in E. exfalso. apply (H x); auto.
      + rewrite IH. apply oeq_false in E. split.
        * intros H m [<-|Hm]; auto.
        * intros H m Hm. apply H. auto.
  Qed.

  Lemma lookup_some o mp m : lookup o mp = Some m -> In m mp /\ mup m = o.
  Proof.
    induction mp as [|x mp IH]; simpl; [discriminate|].
    destruct (oeq (mup x) o) eqn:E.
    - intros H. inversion H; subst. apply oeq_spec in E. auto.
    - intros H. destruct (IH H). auto.
  Qed.

  Lemma lookup_in_nodup mp m : NoDup (map mup mp) -> In m mp -> lookup (mup m) mp = Some m.
  Proof.
    intros Hn Hm. destruct (lookup (mup m) mp) as [x|] eqn:E.
    - apply lookup_some in E. destruct E as [Hx Ex]. f_equal.
      eapply nodup_map_inj; eauto.
    - exfalso. rewrite lookup_none in E. now apply (E m).
  Qed.

  (* ---------- build_map --------------------------------------------------- *)

  Lemma nodup_keys_snoc mp (m : tmod) :
    NoDup (map mup mp) -> (forall x, In x mp -> mup x <> mup m) -> NoDup (map mup (mp ++ [m])).
  Proof.
    intros Hn Hf. rewrite map_app. simpl.
    eapply Permutation_NoDup; [apply Permutation_cons_append|]. constructor; auto.
    intros Hin. apply in_map_iff in Hin. destruct Hin as [x [Ex Hx]]. now apply (Hf x).
  Qed.

  Lemma build_map_inl ms : forall mp mp', build_map ms mp = inl mp' ->
    mp' = mp ++ ms /\ (NoDup (map mup mp) -> NoDup (map mup (mp ++ ms))).
  Proof.
    induction ms as [|m r IH]; simpl; intros mp mp' H.
    - inversion H; subst. rewrite app_nil_r. auto.
    - destruct (lookup (mup m) mp) as [m0|] eqn:E; [discriminate|].
      apply IH in H. destruct H as [-> Hn]. rewrite <- app_assoc in *. simpl in *.
      split; [reflexivity|]. intros Hmp. apply Hn.
      apply nodup_keys_snoc; auto. now apply lookup_none.
  Qed.

  Lemma build_map_nodup ms : forall mp, NoDup (map mup (mp ++ ms)) -> build_map ms mp = inl (mp ++ ms).
  Proof.
    induction ms as [|m r IH]; simpl; intros mp Hn.
    - now rewrite app_nil_r.
    - assert (E : lookup (mup m) mp = None).
      { apply lookup_none. intros x Hx Ex.
        apply in_split in Hx. destruct Hx as [l1 [l2 ->]].
        rewrite <- app_assoc in Hn. simpl in Hn.
        apply nodup_map_app_inv in Hn. destruct Hn as [_ Hn]. apply Hn.
        rewrite Ex. apply in_map. apply in_or_app. right. apply in_or_app. right. simpl. auto. }
      rewrite E. replace (mp ++ m :: r) with ((mp ++ [m]) ++ r) by (rewrite <- app_assoc; reflexivity).
      apply IH. now rewrite <- app_assoc.
  Qed.

  Lemma build_map_inr ms : forall mp a b, build_map ms mp = inr (a, b) ->
    exists ma mb l1 l2 l3, mp ++ ms = l1 ++ ma :: l2 ++ mb :: l3 /\
                           mid ma = a /\ mid mb = b /\ mup ma = mup mb.
  Proof.
    induction ms as [|m r IH]; simpl; intros mp a b H; [discriminate|].
    destruct (lookup (mup m) mp) as [m0|] eqn:E.
    - inversion H; subst. apply lookup_some in E. destruct E as [Hin Ek].
      apply in_split in Hin. destruct Hin as [l1 [l2 ->]].
      exists m0, m, l1, l2, r. rewrite <- app_assoc. simpl. auto.
    - apply IH in H. destruct H as (ma & mb & l1 & l2 & l3 & E' & H).
      exists ma, mb, l1, l2, l3. rewrite <- app_assoc in E'. simpl in E'. auto.
  Qed.

  (* ---------- rc_clash ----------------------------------------------------- *)

  Definition rc_free (keys mp : list tmod) : Prop :=
    forall k m, In k keys -> In m mp -> mup m = orc (mup k) -> mid m = mid k.

  Lemma rc_clash_none keys mp : NoDup (map mup mp) ->
    (rc_clash keys mp = None <-> rc_free keys mp).
  Proof.
    intros Hn. unfold rc_free. induction keys as [|k r IH]; simpl.
    - split; [intros _ k m []|reflexivity].
    - destruct (lookup (orc (mup k)) mp) as [m|] eqn:E.
      + pose proof (lookup_some _ _ _ E) as [Hm Em].
        destruct (Nat.eqb (mid m) (mid k)) eqn:Eid.
        * apply Nat.eqb_eq in Eid. rewrite IH. split.
          -- intros H k' m' [<-|Hk] Hm' Ek; [|now apply H].
             assert (m' = m) by (eapply nodup_map_inj; eauto; congruence). now subst.
          -- intros H k' m' Hk. apply H. auto.
        * apply Nat.eqb_neq in Eid. split; [discriminate|].
          intros H. exfalso. apply Eid. apply H; auto.
      + rewrite IH. rewrite lookup_none in E. split.
        * intros H k' m' [<-|Hk] Hm' Ek; [exfalso; now apply (E m')|now apply H].
        * intros H k' m' Hk. apply H. auto.
  Qed.

  Lemma rc_clash_some keys mp a b : rc_clash keys mp = Some (a, b) ->
    exists k m, In k keys /\ In m mp /\ mup m = orc (mup k) /\ mid m = a /\ mid k = b /\ a <> b.
  Proof.
    induction keys as [|k r IH]; simpl; [discriminate|].
    destruct (lookup (orc (mup k)) mp) as [m|] eqn:E.
    - destruct (Nat.eqb (mid m) (mid k)) eqn:Eid.
      + intros H. destruct (IH H) as (k' & m' & Hk & H'). exists k', m'. auto.
      + intros H. inversion H; subst. apply lookup_some in E. destruct E.
        apply Nat.eqb_neq in Eid. exists k, m. auto 10.
    - intros H. destruct (IH H) as (k' & m' & Hk & H'). exists k', m'. auto.
  Qed.

  (* ---------- pop ------------------------------------------------------------ *)

  Lemma pop_none o mp : pop o mp = None <-> forall m, In m mp -> mup m <> o.
  Proof.
    induction mp as [|x mp IH]; simpl.
    - split; [intros _ m []|reflexivity].
    - destruct (oeq (mup x) o) eqn:E.
      + split; [discriminate|]. intros H. apply oeq_spec in E. exfalso. apply (H x); auto.
      + apply oeq_false in E. destruct (pop o mp) as [[y r]|].
        * split; [discriminate|]. intros H. exfalso.
          destruct IH as [_ IH2]. specialize (IH2 (fun m Hm => H m (or_intror Hm))). discriminate IH2.
        * destruct IH as [IH1 _]. split; [|reflexivity].
          intros _ m [<-|Hm]; auto.
  Qed.

  Lemma pop_some o mp : forall m mp', pop o mp = Some (m, mp') ->
    exists l1 l2, mp = l1 ++ m :: l2 /\ mp' = l1 ++ l2 /\ mup m = o.
  Proof.
    induction mp as [|x mp IH]; simpl; intros m mp' H; [discriminate|].
    destruct (oeq (mup x) o) eqn:E.
    - inversion H; subst. apply oeq_spec in E. exists [], mp'. auto.
    - destruct (pop o mp) as [[y r]|]; [|discriminate].
      inversion H; subst. destruct (IH _ _ eq_refl) as (l1 & l2 & -> & -> & Ek).
      exists (x :: l1), l2. auto.
  Qed.

  Lemma pop_split_nodup l1 (m : tmod) l2 : NoDup (map mup (l1 ++ m :: l2)) ->
    pop (mup m) (l1 ++ m :: l2) = Some (m, l1 ++ l2).
  Proof.
    induction l1 as [|x l1 IH]; simpl; intros Hn.
    - now rewrite oeq_refl.
    - inversion Hn as [|? ? Hnin Hn']; subst.
      assert (E : oeq (mup x) (mup m) = false).
      { apply oeq_false. intros Ex. apply Hnin. rewrite Ex. apply in_map.
        apply in_or_app. right. simpl. auto. }
      rewrite E. now rewrite IH.
  Qed.

  (* ---------- the overhang graph: chains and stalls --------------------------- *)

  (* Chain ms a b c r: following start overhangs from a reaches b, consuming the
     modules c in that order (each at most once) and leaving r *)
  Inductive Chain : list tmod -> O -> O -> list tmod -> list tmod -> Prop :=
  | Chain_done ms a : Chain ms a a [] ms
  | Chain_step l1 m l2 a b c r :
      a <> b -> mup m = a -> Chain (l1 ++ l2) (mdown m) b c r ->
      Chain (l1 ++ m :: l2) a b (m :: c) r.

  (* Stall ms a b o: the walk from a towards b stops at overhang o <> b because no
     remaining module starts with o *)
  Inductive Stall : list tmod -> O -> O -> O -> Prop :=
  | Stall_here ms a b : a <> b -> (forall m, In m ms -> mup m <> a) -> Stall ms a b a
  | Stall_step l1 m l2 a b o :
      a <> b -> mup m = a -> Stall (l1 ++ l2) (mdown m) b o ->
      Stall (l1 ++ m :: l2) a b o.

  Lemma Chain_perm_out ms a b c r : Chain ms a b c r -> Permutation ms (c ++ r).
  Proof.
    induction 1 as [|l1 m l2 a b c r Hab Hm Hc IH]; simpl; [reflexivity|].
    rewrite <- IH. symmetry. apply Permutation_middle.
  Qed.

  Lemma Chain_perm ms a b c r : Chain ms a b c r ->
    forall ms', Permutation ms ms' -> exists r', Permutation r r' /\ Chain ms' a b c r'.
  Proof.
    induction 1 as [ms a|l1 m l2 a b c r Hab Hm Hc IH]; intros ms' Hp.
    - exists ms'. split; [assumption|constructor].
    - assert (Hin : In m ms').
      { eapply Permutation_in; [exact Hp|]. apply in_or_app. right. simpl. auto. }
      apply in_split in Hin. destruct Hin as [k1 [k2 ->]].
      apply Permutation_app_inv in Hp.
      destruct (IH _ Hp) as [r' [Hr Hc']].
      exists r'. split; [assumption|]. now constructor.
  Qed.

  Lemma Stall_perm ms a b o : Stall ms a b o ->
    forall ms', Permutation ms ms' -> Stall ms' a b o.
  Proof.
    induction 1 as [ms a b Hab Hno|l1 m l2 a b o Hab Hm Hs IH]; intros ms' Hp.
    - constructor; auto. intros m Hm. apply Hno. eapply Permutation_in; [symmetry; exact Hp|assumption].
    - assert (Hin : In m ms').
      { eapply Permutation_in; [exact Hp|]. apply in_or_app. right. simpl. auto. }
      apply in_split in Hin. destruct Hin as [k1 [k2 ->]].
      apply Permutation_app_inv in Hp. constructor; auto.
  Qed.

  (* ---------- the walk computes the chain ------------------------------------- *)

  Lemma walk_chain fuel b : forall a mp used u r,
    walk fuel b a mp used = WChain u r -> exists c, u = used ++ c /\ Chain mp a b c r.
  Proof.
    induction fuel as [|f IH]; intros a mp used u r; simpl.
    - destruct (oeq a b) eqn:E; [|discriminate].
      intros H. inversion H; subst. apply oeq_spec in E. subst.
      exists []. rewrite app_nil_r. split; [reflexivity|constructor].
    - destruct (oeq a b) eqn:E.
      + intros H. inversion H; subst. apply oeq_spec in E. subst.
        exists []. rewrite app_nil_r. split; [reflexivity|constructor].
      + apply oeq_false in E. destruct (pop a mp) as [[m mp']|] eqn:Ep; [|discriminate].
        intros H. apply IH in H. destruct H as [c [-> Hc]].
        apply pop_some in Ep. destruct Ep as (l1 & l2 & -> & -> & Ek).
        exists (m :: c). rewrite <- app_assoc. split; [reflexivity|]. now constructor.
  Qed.

  Lemma walk_missing fuel b : forall a mp used o,
    walk fuel b a mp used = WMissing o -> Stall mp a b o.
  Proof.
    induction fuel as [|f IH]; intros a mp used o; simpl.
    - destruct (oeq a b); discriminate.
    - destruct (oeq a b) eqn:E; [discriminate|]. apply oeq_false in E.
      destruct (pop a mp) as [[m mp']|] eqn:Ep.
      + intros H. apply IH in H.
        apply pop_some in Ep. destruct Ep as (l1 & l2 & -> & -> & Ek). now constructor.
      + intros H. inversion H; subst. constructor; auto. now apply pop_none.
  Qed.

  Lemma walk_fuel fuel b : forall a mp used, length mp < fuel -> walk fuel b a mp used <> WFuel.
  Proof.
    induction fuel as [|f IH]; intros a mp used Hl; [lia|]. simpl.
    destruct (oeq a b); [discriminate|].
    destruct (pop a mp) as [[m mp']|] eqn:Ep; [|discriminate].
    apply pop_some in Ep. destruct Ep as (l1 & l2 & -> & -> & Ek).
    apply IH. rewrite app_length in *. simpl in Hl. lia.
  Qed.

  Lemma Chain_walk mp a b c r : Chain mp a b c r -> NoDup (map mup mp) ->
    forall fuel used, length mp < fuel -> walk fuel b a mp used = WChain (used ++ c) r.
  Proof.
    induction 1 as [ms a|l1 m l2 a b c r Hab Hm Hc IH]; intros Hn fuel used Hl.
    - destruct fuel; simpl; rewrite oeq_refl, app_nil_r; reflexivity.
    - destruct fuel as [|f]; [lia|]. simpl.
      apply oeq_false in Hab. rewrite Hab. subst a.
      rewrite pop_split_nodup by assumption.
      rewrite IH.
      + now rewrite <- app_assoc.
      + now apply nodup_map_app_inv in Hn.
      + rewrite app_length in *. simpl in Hl. lia.
  Qed.

  Lemma Stall_walk mp a b o : Stall mp a b o -> NoDup (map mup mp) ->
    forall fuel used, length mp < fuel -> walk fuel b a mp used = WMissing o.
  Proof.
    induction 1 as [ms a b Hab Hno|l1 m l2 a b o Hab Hm Hs IH]; intros Hn fuel used Hl.
    - destruct fuel as [|f]; [lia|]. simpl. apply oeq_false in Hab. rewrite Hab.
      apply pop_none in Hno. now rewrite Hno.
    - destruct fuel as [|f]; [lia|]. simpl.
      apply oeq_false in Hab. rewrite Hab. subst a.
      rewrite pop_split_nodup by assumption.
      apply IH.
      + now apply nodup_map_app_inv in Hn.
      + rewrite app_length in *. simpl in Hl. lia.
  Qed.

  (* the chain is a function of the overhang graph *)
  Lemma Chain_functional mp a b c r c' r' : NoDup (map mup mp) ->
    Chain mp a b c r -> Chain mp a b c' r' -> c = c' /\ r = r'.
  Proof.
    intros Hn H1 H2.
    pose proof (Chain_walk _ _ _ _ _ H1 Hn (S (length mp)) [] (Nat.lt_succ_diag_r _)) as E1.
    pose proof (Chain_walk _ _ _ _ _ H2 Hn (S (length mp)) [] (Nat.lt_succ_diag_r _)) as E2.
    rewrite E1 in E2. inversion E2. auto.
  Qed.

  Lemma Chain_Stall_excl mp a b c r o : NoDup (map mup mp) ->
    Chain mp a b c r -> Stall mp a b o -> False.
  Proof.
    intros Hn H1 H2.
    pose proof (Chain_walk _ _ _ _ _ H1 Hn (S (length mp)) [] (Nat.lt_succ_diag_r _)) as E1.
    pose proof (Stall_walk _ _ _ _ H2 Hn (S (length mp)) [] (Nat.lt_succ_diag_r _)) as E2.
    rewrite E1 in E2. discriminate.
  Qed.

  Lemma Stall_functional mp a b o o' : NoDup (map mup mp) ->
    Stall mp a b o -> Stall mp a b o' -> o = o'.
  Proof.
    intros Hn H1 H2.
    pose proof (Stall_walk _ _ _ _ H1 Hn (S (length mp)) [] (Nat.lt_succ_diag_r _)) as E1.
    pose proof (Stall_walk _ _ _ _ H2 Hn (S (length mp)) [] (Nat.lt_succ_diag_r _)) as E2.
    rewrite E1 in E2. now inversion E2.
  Qed.

  (* ---------- the outcome as a function of the overhang graph ---------------- *)

  (* no two distinct supplied modules share, or reverse-complement, a start overhang *)
  Definition clash_free (ms : list tmod) : Prop :=
    NoDup (map mup ms) /\ rc_free ms ms.

  Definition spec (v : tvec) (ms : list tmod) (out : @outcome O) : Prop :=
    match out with
    | EInvalid => vup v = vdown v
    | EDuplicate a b =>
        vup v <> vdown v /\ a <> b /\
        exists ma mb, In ma ms /\ In mb ms /\ mid ma = a /\ mid mb = b /\
                      (mup ma = mup mb \/ mup ma = orc (mup mb))
    | EMissing o =>
        vup v <> vdown v /\ clash_free ms /\ Stall ms (vdown v) (vup v) o
    | Product w used unused =>
        vup v <> vdown v /\ clash_free ms /\
        exists c r, Chain ms (vdown v) (vup v) c r /\
                    w = concat (map mfrag c) ++ vfrag v /\ used = map mid c /\ unused = map mid r
    | EInternal => False
    end.

  Theorem assemble_spec v ms : NoDup (map mid ms) -> spec v ms (assemble v ms).
  Proof.
    intros Hid. unfold assemble, assemble_with.
    destruct (oeq (vup v) (vdown v)) eqn:Ev; [now apply oeq_spec in Ev|].
    apply oeq_false in Ev.
    destruct (Assembly.build_map oeq ms []) as [mp|[a b]] eqn:Eb.
    - apply build_map_inl in Eb. simpl in Eb. destruct Eb as [-> Hn].
      specialize (Hn (NoDup_nil _)).
      destruct (Assembly.rc_clash oeq orc ms ms) as [[a b]|] eqn:Ec.
      + apply rc_clash_some in Ec. destruct Ec as (k & m & Hk & Hm & Ek & Ea & Eb' & Hab).
        simpl. repeat split; auto. exists m, k. auto 10.
      + apply rc_clash_none in Ec; [|assumption].
        destruct (Assembly.walk oeq (S (length ms)) (vup v) (vdown v) ms []) as [u r|o|] eqn:Ew; simpl.
        * apply walk_chain in Ew. destruct Ew as [c [-> Hc]]. simpl.
          repeat split; auto. exists c, r. auto.
        * apply walk_missing in Ew. repeat split; auto.
        * eapply walk_fuel; [|exact Ew]. lia.
    - apply build_map_inr in Eb. destruct Eb as (ma & mb & l1 & l2 & l3 & E & Ea & Eb' & Ek).
      simpl in E. subst ms. simpl. repeat split; auto.
      + subst a b. intros Eid.
        rewrite map_app in Hid. simpl in Hid. apply NoDup_remove_2 in Hid.
        apply Hid. rewrite Eid. apply in_or_app. right.
        rewrite map_app. apply in_or_app. right. simpl. auto.
      + exists ma, mb. repeat split; auto.
        * apply in_or_app. right. simpl. auto.
        * apply in_or_app. right. simpl. right. apply in_or_app. right. simpl. auto.
  Qed.

  (* a witnessed clash contradicts clash_free: the cases of `spec` are exclusive *)
  Lemma clash_not_free ms ma mb : In ma ms -> In mb ms -> mid ma <> mid mb ->
    (mup ma = mup mb \/ mup ma = orc (mup mb)) -> ~ clash_free ms.
  Proof.
    intros Ha Hb Hid [E|E] [Hn Hrc].
    - apply Hid. f_equal. eapply nodup_map_inj; eauto.
    - apply Hid. now apply (Hrc mb ma).
  Qed.

  Definition out_equiv (x y : @outcome O) : Prop :=
    match x, y with
    | Product w u r, Product w' u' r' => w = w' /\ u = u' /\ Permutation r r'
    | EInvalid, EInvalid => True
    | EDuplicate _ _, EDuplicate _ _ => True
    | EMissing o, EMissing o' => o = o'
    | _, _ => False
    end.

  Lemma clash_free_perm ms ms' : Permutation ms ms' -> clash_free ms -> clash_free ms'.
  Proof.
    intros Hp [Hn Hrc]. split.
    - eapply Permutation_NoDup; [|exact Hn]. now apply Permutation_map.
    - intros k m Hk Hm. apply Hrc; eapply Permutation_in; try (symmetry; exact Hp); assumption.
  Qed.

  (* a specification met by two outcomes forces them to be equivalent *)
  Lemma spec_deterministic v ms ms' x y : Permutation ms ms' ->
    spec v ms x -> spec v ms' y -> out_equiv x y.
  Proof.
    intros Hp Hx Hy.
    assert (Hp' : Permutation ms' ms) by now symmetry.
    destruct x as [w u r| |a b|o|], y as [w' u' r'| |a' b'|o'|]; simpl in *; try tauto;
      try (destruct Hx as (Hv & _); destruct Hy; congruence);
      try (destruct Hy as (Hv & _); congruence).
    - (* Product / Product *)
      destruct Hx as (_ & Hcf & c & rr & Hc & -> & -> & ->).
      destruct Hy as (_ & Hcf' & c' & rr' & Hc' & -> & -> & ->).
      destruct (Chain_perm _ _ _ _ _ Hc _ Hp) as [r2 [Hr2 Hc2]].
      destruct (Chain_functional _ _ _ _ _ _ _ (proj1 Hcf') Hc2 Hc') as [-> ->].
      repeat split; auto. now apply Permutation_map.
    - (* Product / EDuplicate *)
      destruct Hx as (_ & Hcf & _). destruct Hy as (_ & Hab & ma & mb & Ha & Hb & <- & <- & Hk).
      eapply clash_not_free; [exact Ha|exact Hb|exact Hab|exact Hk|]. eapply clash_free_perm; eauto.
    - (* Product / EMissing *)
      destruct Hx as (_ & Hcf & c & rr & Hc & _). destruct Hy as (_ & Hcf' & Hs).
      destruct (Chain_perm _ _ _ _ _ Hc _ Hp) as [r2 [_ Hc2]].
      eapply Chain_Stall_excl; [exact (proj1 Hcf')|exact Hc2|exact Hs].
    - (* EDuplicate / Product *)
      destruct Hy as (_ & Hcf & _). destruct Hx as (_ & Hab & ma & mb & Ha & Hb & <- & <- & Hk).
      eapply clash_not_free; [exact Ha|exact Hb|exact Hab|exact Hk|]. eapply clash_free_perm; eauto.
    - (* EDuplicate / EMissing *)
      destruct Hy as (_ & Hcf & _). destruct Hx as (_ & Hab & ma & mb & Ha & Hb & <- & <- & Hk).
      eapply clash_not_free; [exact Ha|exact Hb|exact Hab|exact Hk|]. eapply clash_free_perm; eauto.
    - (* EMissing / Product *)
      destruct Hy as (_ & Hcf & c & rr & Hc & _). destruct Hx as (_ & Hcf' & Hs).
      eapply Chain_Stall_excl; [exact (proj1 Hcf)|exact Hc|]. eapply Stall_perm; eauto.
    - (* EMissing / EDuplicate *)
      destruct Hx as (_ & Hcf & _). destruct Hy as (_ & Hab & ma & mb & Ha & Hb & <- & <- & Hk).
      eapply clash_not_free; [exact Ha|exact Hb|exact Hab|exact Hk|]. eapply clash_free_perm; eauto.
    - (* EMissing / EMissing *)
      destruct Hx as (_ & Hcf & Hs). destruct Hy as (_ & Hcf' & Hs').
      eapply Stall_functional; [exact (proj1 Hcf')| |exact Hs']. eapply Stall_perm; eauto.
  Qed.

  (* the order in which modules are passed is irrelevant *)
  Theorem assemble_perm v ms ms' : NoDup (map mid ms) -> Permutation ms ms' ->
    out_equiv (assemble v ms) (assemble v ms').
  Proof.
    intros Hid Hp. eapply spec_deterministic; [exact Hp| |]; apply assemble_spec; auto.
    eapply Permutation_NoDup; [|exact Hid]. now apply Permutation_map.
  Qed.

  (* a product is returned exactly when the graph conditions hold *)
  Theorem assemble_product_iff v ms : NoDup (map mid ms) ->
    ((exists w u r, assemble v ms = Product w u r) <->
     (vup v <> vdown v /\ clash_free ms /\ exists c r, Chain ms (vdown v) (vup v) c r)).
  Proof.
    intros Hid. pose proof (assemble_spec v ms Hid) as Hs. split.
    - intros (w & u & r & E). rewrite E in Hs. destruct Hs as (Hv & Hcf & c & rr & Hc & _).
      split; [exact Hv|]. split; [exact Hcf|]. exists c, rr. exact Hc.
    - intros (Hv & Hcf & c & rr & Hc).
      assert (Hy : spec v ms (Product (concat (map mfrag c) ++ vfrag v) (map mid c) (map mid rr))).
      { simpl. split; [exact Hv|]. split; [exact Hcf|]. exists c, rr. auto. }
      pose proof (spec_deterministic v ms ms _ _ (Permutation_refl _) Hs Hy) as He.
      destruct (assemble v ms) as [w u r| | | |]; simpl in He; try contradiction.
      exists w, u, r. reflexivity.
  Qed.

  (* when the graph conditions hold, the product is the chain's word *)
  Theorem assemble_chain v ms c r : NoDup (map mid ms) -> vup v <> vdown v -> clash_free ms ->
    Chain ms (vdown v) (vup v) c r ->
    assemble v ms = Product (concat (map mfrag c) ++ vfrag v) (map mid c) (map mid r).
  Proof.
    intros Hid Hv Hcf Hc. pose proof (assemble_spec v ms Hid) as Hs.
    assert (Hy : spec v ms (Product (concat (map mfrag c) ++ vfrag v) (map mid c) (map mid r))).
    { simpl. split; [exact Hv|]. split; [exact Hcf|]. exists c, r. auto. }
    destruct (assemble v ms) as [w u un| |a b|o|] eqn:E; simpl in Hs.
    - destruct Hs as (_ & _ & c' & r' & Hc' & -> & -> & ->).
      destruct (Chain_functional _ _ _ _ _ _ _ (proj1 Hcf) Hc Hc') as [-> ->]. reflexivity.
    - contradiction.
    - destruct Hs as (_ & Hab & ma & mb & Ha & Hb & <- & <- & Hk). exfalso.
      eapply clash_not_free; [exact Ha|exact Hb|exact Hab|exact Hk|exact Hcf].
    - destruct Hs as (_ & _ & Hst). exfalso. eapply Chain_Stall_excl; [exact (proj1 Hcf)|exact Hc|exact Hst].
    - contradiction.
  Qed.

  (* each module is used at most once; the unused ones are exactly the rest *)
  Theorem assemble_used_once v ms w used unused : NoDup (map mid ms) ->
    assemble v ms = Product w used unused ->
    NoDup used /\ Permutation (used ++ unused) (map mid ms).
  Proof.
    intros Hid E. pose proof (assemble_spec v ms Hid) as Hs. rewrite E in Hs.
    destruct Hs as (_ & _ & c & r & Hc & _ & -> & ->).
    apply Chain_perm_out in Hc.
    assert (Hp : Permutation (map mid c ++ map mid r) (map mid ms)).
    { rewrite <- map_app. apply Permutation_map. now symmetry. }
    split; [|exact Hp].
    assert (Hn : NoDup (map mid c ++ map mid r)).
    { eapply Permutation_NoDup; [symmetry; exact Hp|exact Hid]. }
    now apply nodup_app_l in Hn.
  Qed.

  (* ---------- interchangeable modules (C19) ---------------------------------- *)

  Section Swap.
    Context (f : tmod -> tmod).
    Context (f_id : forall x, mid (f x) = mid x) (f_up : forall x, mup (f x) = mup x)
            (f_down : forall x, mdown (f x) = mdown x).

    Lemma lookup_map o mp : lookup o (map f mp) = option_map f (lookup o mp).
    Proof.
      induction mp as [|x mp IH]; simpl; [reflexivity|].
      rewrite f_up. destruct (oeq (mup x) o); auto.
    Qed.

    Lemma build_map_map ms : forall mp,
      build_map (map f ms) (map f mp) =
      match build_map ms mp with inl r => inl (map f r) | inr p => inr p end.
    Proof.
      induction ms as [|m r IH]; simpl; intros mp; [reflexivity|].
      rewrite f_up, lookup_map. destruct (lookup (mup m) mp) as [m0|]; simpl.
      - now rewrite !f_id.
      - rewrite <- IH. now rewrite map_app.
    Qed.

    Lemma rc_clash_map keys mp : rc_clash (map f keys) (map f mp) = rc_clash keys mp.
    Proof.
      induction keys as [|k r IH]; simpl; [reflexivity|].
      rewrite f_up, lookup_map. destruct (lookup (orc (mup k)) mp) as [m|]; simpl; auto.
      rewrite !f_id. now rewrite IH.
    Qed.

    Lemma pop_map o mp : pop o (map f mp) =
      match pop o mp with Some (m, r) => Some (f m, map f r) | None => None end.
    Proof.
      induction mp as [|x mp IH]; simpl; [reflexivity|].
      rewrite f_up. destruct (oeq (mup x) o); [reflexivity|].
      rewrite IH. destruct (pop o mp) as [[y r]|]; reflexivity.
    Qed.

    Lemma walk_map fuel b : forall a mp used,
      walk fuel b a (map f mp) (map f used) =
      match walk fuel b a mp used with
      | WChain u r => WChain (map f u) (map f r)
      | WMissing o => WMissing o
      | WFuel => WFuel
      end.
    Proof.
      induction fuel as [|n IH]; intros a mp used; simpl.
      - destruct (oeq a b); reflexivity.
      - destruct (oeq a b); [reflexivity|].
        rewrite pop_map. destruct (pop a mp) as [[m r]|]; [|reflexivity].
        rewrite f_down. rewrite <- IH. now rewrite map_app.
    Qed.

    (* replacing modules by others with the same overhangs changes nothing but the
       fragments that are concatenated *)
    Theorem assemble_map v ms :
      assemble v (map f ms) =
      match assemble v ms with
      | Product _ used unused =>
          match walk (S (length ms)) (vup v) (vdown v) ms [] with
          | WChain u _ => Product (concat (map mfrag (map f u)) ++ vfrag v) used unused
          | _ => EInternal
          end
      | x => x
      end.
    Proof.
      unfold assemble, assemble_with.
      destruct (oeq (vup v) (vdown v)); [reflexivity|].
      pose proof (build_map_map ms []) as Eb. simpl in Eb. rewrite Eb.
      destruct (Assembly.build_map oeq ms []) as [mp|[a b]] eqn:Ebm; [|reflexivity].
      apply build_map_inl in Ebm. simpl in Ebm. destruct Ebm as [-> _].
      rewrite rc_clash_map.
      destruct (Assembly.rc_clash oeq orc ms ms) as [[a b]|]; [reflexivity|].
      rewrite map_length.
      pose proof (walk_map (S (length ms)) (vup v) (vdown v) ms []) as Ew. simpl map in Ew at 2.
      rewrite Ew.
      destruct (Assembly.walk oeq (S (length ms)) (vup v) (vdown v) ms []) as [u r|o|]; simpl; auto.
      rewrite !map_map.
      f_equal; apply map_ext; intros x; apply f_id.
    Qed.

    (* the same, exposing the chain *)
    Theorem assemble_map_chain v ms w used unused :
      assemble v ms = Product w used unused ->
      exists u r, Permutation ms (u ++ r) /\
        w = concat (map mfrag u) ++ vfrag v /\ used = map mid u /\
        assemble v (map f ms) = Product (concat (map mfrag (map f u)) ++ vfrag v) used unused.
    Proof.
      intros E. pose proof (assemble_map v ms) as Em. rewrite E in Em.
      unfold assemble, assemble_with in E.
      destruct (oeq (vup v) (vdown v)); [discriminate|].
      destruct (Assembly.build_map oeq ms []) as [mp|[a b]] eqn:Ebm; [|discriminate].
      apply build_map_inl in Ebm. simpl in Ebm. destruct Ebm as [-> _].
      destruct (Assembly.rc_clash oeq orc ms ms) as [[a b]|]; [discriminate|].
      destruct (Assembly.walk oeq (S (length ms)) (vup v) (vdown v) ms []) as [u r|o|] eqn:Ew;
        simpl in E; try discriminate.
      inversion E; subst. apply walk_chain in Ew. destruct Ew as [c [-> Hc]]. simpl in *.
      exists c, r. split; [now apply Chain_perm_out in Hc|]. auto.
    Qed.
  End Swap.

  (* replace the fragment of the module at argument position i *)
  Definition refrag (i : nat) (fr : list letter) (x : tmod) : tmod :=
    if Nat.eqb (mid x) i then TM (mid x) (mup x) (mdown x) fr else x.

  Lemma refrag_other i fr l : ~ In i (map mid l) -> map (refrag i fr) l = l.
  Proof.
    induction l as [|x l IH]; simpl; intros H; [reflexivity|].
    unfold refrag at 1. destruct (Nat.eqb (mid x) i) eqn:E.
    - apply Nat.eqb_eq in E. exfalso. apply H. auto.
    - rewrite IH; auto.
  Qed.

  Lemma refrag_split i fr l1 (m : tmod) l2 : mid m = i -> NoDup (map mid (l1 ++ m :: l2)) ->
    map (refrag i fr) (l1 ++ m :: l2) = l1 ++ TM (mid m) (mup m) (mdown m) fr :: l2.
  Proof.
    intros Ei Hn. rewrite map_app. simpl.
    rewrite map_app in Hn. simpl in Hn.
    pose proof (NoDup_remove_2 _ _ _ Hn) as Hnin.
    rewrite !refrag_other.
    - unfold refrag. rewrite Ei, Nat.eqb_refl. reflexivity.
    - intros H. apply Hnin. apply in_or_app. right. now rewrite Ei.
    - intros H. apply Hnin. apply in_or_app. left. now rewrite Ei.
  Qed.

  (* C19: a module with the same overhangs in the same argument position gives the
     same outcome; the product differs in that module's segment only *)
  Theorem assemble_swap v ms1 (m m' : tmod) ms2 w used unused :
    NoDup (map mid (ms1 ++ m :: ms2)) ->
    mid m' = mid m -> mup m' = mup m -> mdown m' = mdown m ->
    assemble v (ms1 ++ m :: ms2) = Product w used unused ->
    exists pre post,
      w = pre ++ (if in_dec Nat.eq_dec (mid m) used then mfrag m else []) ++ post /\
      assemble v (ms1 ++ m' :: ms2) =
        Product (pre ++ (if in_dec Nat.eq_dec (mid m) used then mfrag m' else []) ++ post) used unused.
  Proof.
    intros Hid Ei Eu Ed E.
    set (f := refrag (mid m) (mfrag m')).
    assert (f_id : forall x, mid (f x) = mid x) by (intros x; unfold f, refrag; destruct (Nat.eqb _ _); reflexivity).
    assert (f_up : forall x, mup (f x) = mup x) by (intros x; unfold f, refrag; destruct (Nat.eqb _ _); reflexivity).
    assert (f_down : forall x, mdown (f x) = mdown x) by (intros x; unfold f, refrag; destruct (Nat.eqb _ _); reflexivity).
    destruct (assemble_map_chain f f_id f_up f_down v _ _ _ _ E) as (u & r & Hp & -> & -> & E').
    assert (Em' : TM (mid m) (mup m) (mdown m) (mfrag m') = m').
    { destruct m'; simpl in *; subst; reflexivity. }
    unfold f in E' at 1. rewrite (refrag_split _ _ _ _ _ eq_refl Hid), Em' in E'. rewrite E'. clear E'.
    assert (Hnu : NoDup (map mid u)).
    { assert (Hn : NoDup (map mid (u ++ r))).
      { eapply Permutation_NoDup; [|exact Hid]. now apply Permutation_map. }
      rewrite map_app in Hn. now apply nodup_app_l in Hn. }
    destruct (in_dec Nat.eq_dec (mid m) (map mid u)) as [Hin|Hnin].
    - apply in_map_iff in Hin. destruct Hin as [x [Ex Hx]].
      assert (x = m).
      { assert (Hxm : In x (ms1 ++ m :: ms2)).
        { eapply Permutation_in; [symmetry; exact Hp|]. apply in_or_app. auto. }
        eapply nodup_map_inj; [exact Hid|exact Hxm| |exact Ex].
        apply in_or_app. right. simpl. auto. }
      subst x. apply in_split in Hx. destruct Hx as [u1 [u2 ->]].
      exists (concat (map mfrag u1)), (concat (map mfrag u2) ++ vfrag v).
      unfold f. rewrite (refrag_split _ _ _ _ _ eq_refl Hnu), Em'.
      rewrite !map_app, !concat_app. simpl. rewrite <- !app_assoc. auto.
    - exists [], (concat (map mfrag u) ++ vfrag v). simpl.
      unfold f. rewrite (refrag_other _ _ _ Hnin). auto.
  Qed.
End AsmLemmas.

(* ---------- modules related fragment-wise (C18: same letters, another case) ----- *)

Section RelAsm.
  Context {O : Type} (oeq : O -> O -> bool) (orc : O -> O).
  Context (R : list letter -> list letter -> Prop).
  Context (R_nil : R [] []) (R_app : forall a b c d, R a b -> R c d -> R (a ++ c) (b ++ d)).

  Definition rel_mod (a b : @tmod O) : Prop :=
    mid a = mid b /\ mup a = mup b /\ mdown a = mdown b /\ R (mfrag a) (mfrag b).

  Definition rel_out (x y : @outcome O) : Prop :=
    match x, y with
    | Product w u r, Product w' u' r' => R w w' /\ u = u' /\ r = r'
    | EInvalid, EInvalid => True
    | EDuplicate a b, EDuplicate a' b' => a = a' /\ b = b'
    | EMissing o, EMissing o' => o = o'
    | EInternal, EInternal => True
    | _, _ => False
    end.

  Lemma rel_lookup o mp mp' : Forall2 rel_mod mp mp' ->
    match lookup oeq o mp, lookup oeq o mp' with
    | Some a, Some b => rel_mod a b
    | None, None => True
    | _, _ => False
    end.
  Proof.
    induction 1 as [|a b mp mp' Hab H IH]; cbn; [exact I|].
    destruct Hab as (Hi & Hu & Hd & Hf). rewrite <- Hu.
    destruct (oeq (mup a) o); [repeat split; auto|exact IH].
  Qed.

  Lemma rel_build_map ms ms' : Forall2 rel_mod ms ms' -> forall mp mp', Forall2 rel_mod mp mp' ->
    match build_map oeq ms mp, build_map oeq ms' mp' with
    | inl a, inl b => Forall2 rel_mod a b
    | inr p, inr q => p = q
    | _, _ => False
    end.
  Proof.
    induction 1 as [|a b ms ms' Hab H IH]; intros mp mp' Hmp; cbn; [exact Hmp|].
    pose proof (rel_lookup (mup a) mp mp' Hmp) as Hl.
    destruct Hab as (Hi & Hu & Hd & Hf). rewrite <- Hu.
    destruct (lookup oeq (mup a) mp) as [x|], (lookup oeq (mup a) mp') as [y|]; try contradiction.
    - destruct Hl as (Hxi & _). now rewrite Hxi, Hi.
    - apply IH. apply Forall2_app; [exact Hmp|]. constructor; [|constructor]. repeat split; auto.
  Qed.

  Lemma rel_rc_clash keys keys' : Forall2 rel_mod keys keys' -> forall mp mp', Forall2 rel_mod mp mp' ->
    rc_clash oeq orc keys mp = rc_clash oeq orc keys' mp'.
  Proof.
    induction 1 as [|a b keys keys' Hab H IH]; intros mp mp' Hmp; cbn; [reflexivity|].
    pose proof (rel_lookup (orc (mup a)) mp mp' Hmp) as Hl.
    destruct Hab as (Hi & Hu & Hd & Hf). rewrite <- Hu.
    destruct (lookup oeq (orc (mup a)) mp) as [x|], (lookup oeq (orc (mup a)) mp') as [y|]; try contradiction.
    - destruct Hl as (Hxi & _). rewrite <- Hxi, <- Hi. destruct (Nat.eqb (mid x) (mid a)); [now apply IH|reflexivity].
    - now apply IH.
  Qed.

  Lemma rel_pop o mp mp' : Forall2 rel_mod mp mp' ->
    match pop oeq o mp, pop oeq o mp' with
    | Some (a, r), Some (b, r') => rel_mod a b /\ Forall2 rel_mod r r'
    | None, None => True
    | _, _ => False
    end.
  Proof.
    induction 1 as [|a b mp mp' Hab H IH]; cbn; [exact I|].
    pose proof Hab as (Hi & Hu & Hd & Hf). rewrite <- Hu.
    destruct (oeq (mup a) o); [split; assumption|].
    destruct (pop oeq o mp) as [[x r]|], (pop oeq o mp') as [[y r']|]; try contradiction; [|exact I].
    destruct IH as [Hxy Hr]. split; [exact Hxy|]. now constructor.
  Qed.

  Lemma rel_walk fuel b : forall a mp mp' used used', Forall2 rel_mod mp mp' -> Forall2 rel_mod used used' ->
    match walk oeq fuel b a mp used, walk oeq fuel b a mp' used' with
    | WChain u r, WChain u' r' => Forall2 rel_mod u u' /\ Forall2 rel_mod r r'
    | WMissing o, WMissing o' => o = o'
    | WFuel, WFuel => True
    | _, _ => False
    end.
  Proof.
    induction fuel as [|f IH]; intros a mp mp' used used' Hmp Hu; cbn.
    - destruct (oeq a b); [split; assumption|exact I].
    - destruct (oeq a b); [split; assumption|].
      pose proof (rel_pop a mp mp' Hmp) as Hp.
      destruct (pop oeq a mp) as [[x r]|], (pop oeq a mp') as [[y r']|]; try contradiction; [|reflexivity].
      destruct Hp as [Hxy Hr]. pose proof Hxy as (_ & _ & Hd & _). rewrite <- Hd.
      apply IH; [exact Hr|]. apply Forall2_app; [exact Hu|]. constructor; [exact Hxy|constructor].
  Qed.

  Lemma rel_concat u u' : Forall2 rel_mod u u' -> R (concat (map mfrag u)) (concat (map mfrag u')) /\ map mid u = map mid u'.
  Proof.
    induction 1 as [|a b u u' Hab H IH]; cbn; [auto|].
    destruct Hab as (Hi & _ & _ & Hf). destruct IH as [IH1 IH2]. split; [now apply R_app|now rewrite Hi, IH2].
  Qed.

  Theorem rel_assemble (v v' : @tvec O) ms ms' :
    vup v = vup v' -> vdown v = vdown v' -> R (vfrag v) (vfrag v') -> Forall2 rel_mod ms ms' ->
    rel_out (assemble oeq orc v ms) (assemble oeq orc v' ms').
  Proof.
    intros Hu Hd Hf Hms. unfold assemble, assemble_with. rewrite <- Hu, <- Hd.
    destruct (oeq (vup v) (vdown v)); [exact I|].
    pose proof (rel_build_map ms ms' Hms [] [] (Forall2_nil _)) as Hb.
    destruct (build_map oeq ms []) as [mp|[a b]], (build_map oeq ms' []) as [mp'|[a' b']]; try contradiction.
    - rewrite (rel_rc_clash mp mp' Hb mp mp' Hb).
      destruct (rc_clash oeq orc mp' mp') as [[a b]|]; [split; reflexivity|].
      assert (Hl : length ms = length ms') by (clear -Hms; induction Hms; cbn; congruence). rewrite <- Hl.
      pose proof (rel_walk (S (length ms)) (vup v) (vdown v) mp mp' [] [] Hb (Forall2_nil _)) as Hw.
      destruct (walk oeq (S (length ms)) (vup v) (vdown v) mp []) as [u r|o|],
               (walk oeq (S (length ms)) (vup v) (vdown v) mp' []) as [u' r'|o'|]; try contradiction; cbn.
      + destruct Hw as [Hu' Hr]. destruct (rel_concat _ _ Hu') as [Hc Hi]. destruct (rel_concat _ _ Hr) as [_ Hi'].
        split; [now apply R_app|auto].
      + exact Hw.
      + exact I.
    - inversion Hb. split; reflexivity.
  Qed.
End RelAsm.

(* ---------- the DNA instance ------------------------------------------------- *)

Lemma code_eqb_spec a b : code_eqb a b = true <-> a = b.
Proof. split; [destruct a, b; simpl; intros H; (reflexivity || discriminate)|intros ->; destruct b; reflexivity]. Qed.

Lemma codes_eqb_spec a b : codes_eqb a b = true <-> a = b.
Proof.
  revert b. induction a as [|x a IH]; destruct b as [|y b]; simpl; split; intros H;
    try reflexivity; try discriminate.
  - apply andb_prop in H. destruct H as [H1 H2]. apply code_eqb_spec in H1. apply IH in H2. congruence.
  - inversion H; subst. apply andb_true_intro. split; [now apply code_eqb_spec|now apply IH].
Qed.
