(* Registry.v — L5: the registries of moclo/registry/base.py as read-only mappings.
   tar/gzip reading, GenBank parsing, fs listing and globbing are the environment:
   their results (archive index, directory listing) are the model's inputs.
   Executable definitions only. *)
From Coq Require Import List Bool Arith String Ascii.
Import ListNotations.

Section Reg.
  Context {K : Type} (keqb : K -> K -> bool).

  Fixpoint kmem (k : K) (l : list K) : bool :=
    match l with [] => false | x :: r => keqb x k || kmem k r end.

  (* ---------- EmbeddedRegistry: archive index = (member name, record id) -------- *)

  Definition emb_iter (a : list (K * K)) : list K := map fst a.        (* __iter__: member names *)
  Definition emb_len (a : list (K * K)) : nat := List.length a.         (* __len__: len(tar.getmembers()) *)

  (* _data: a dict filled in archive order, keyed by record.id (a later entry overwrites) *)
  Definition emb_lookup (a : list (K * K)) (k : K) : option (K * K) :=
    find (fun e => keqb (snd e) k) (rev a).

  (* ---------- CombinedRegistry: members as association lists (item id, item) ------ *)

  Context {I : Type}.

  Fixpoint assoc (k : K) (d : list (K * I)) : option I :=
    match d with
    | [] => None
    | (x, i) :: r => if keqb x k then Some i else assoc k r
    end.

  (* self._data.setdefault(item.id, item) *)
  Definition cadd (d : list (K * I)) (e : K * I) : list (K * I) :=
    match assoc (fst e) d with Some _ => d | None => d ++ [e] end.

  Definition add_registry (d : list (K * I)) (r : list (K * I)) : list (K * I) := fold_left cadd r d.

  Definition combine (regs : list (list (K * I))) : list (K * I) := fold_left add_registry regs [].

  (* what the specification says: the item of the first member that has the key *)
  Fixpoint first_member (k : K) (regs : list (list (K * I))) : option I :=
    match regs with
    | [] => None
    | r :: t => match assoc k r with Some i => Some i | None => first_member k t end
    end.

  (* ---------- FilesystemRegistry ---------------------------------------------------- *)

  Context {N : Type} (stem : N -> K) (matches : N -> bool).

  (* fs.filterdir("/", files=patterns, exclude_dirs=["*"]) over a listing (name, is a file) *)
  Definition fs_files (l : list (N * bool)) : list N :=
    map fst (filter (fun e => snd e && matches (fst e)) l).

  Definition fs_iter (l : list (N * bool)) : list K := map stem (fs_files l).
  Definition fs_len (l : list (N * bool)) : nat := List.length (fs_files l).

  (* repaired __getitem__: the key is resolved through the same listing *)
  Definition fs_lookup (l : list (N * bool)) (k : K) : option N :=
    find (fun n => keqb (stem n) k) (fs_files l).
End Reg.

(* ---------- concrete names: strings ---------------------------------------------- *)

Definition lower_ascii (c : ascii) : ascii :=
  let n := nat_of_ascii c in if (65 <=? n) && (n <=? 90) then ascii_of_nat (n + 32) else c.

Fixpoint lower (s : string) : string :=
  match s with EmptyString => EmptyString | String c r => String (lower_ascii c) (lower r) end.

Fixpoint ends_with (suffix s : string) : bool :=
  String.eqb suffix s || match s with EmptyString => false | String _ r => ends_with suffix r end.

(* fnmatch "*.ext" for ext in extensions; pyfilesystem reports the OS file system as
   case-insensitive, so the match ignores case *)
Definition glob_matches (exts : list string) (name : string) : bool :=
  existsb (fun e => ends_with (lower (String "."%char e)) (lower name)) exts.

(* fs.path.splitext(name)[0]: cut at the last dot unless it is the first character *)
Fixpoint last_dot (s : string) (i : nat) (best : option nat) : option nat :=
  match s with
  | EmptyString => best
  | String c r => last_dot r (S i) (if Ascii.eqb c "."%char then Some i else best)
  end.

Definition splitext_stem (name : string) : string :=
  match last_dot name 0 None with
  | Some (S i) => substring 0 (S i) name
  | _ => name
  end.

(* the pinned __getitem__: tries "<key>.<ext>" for each extension as an exact file name *)
Definition fs_lookup_pinned (exts : list string) (l : list (string * bool)) (k : string) : option string :=
  find (fun n => existsb (fun e => String.eqb n (k ++ "." ++ e)) exts)
       (map fst (filter (fun e => snd e) l)).
