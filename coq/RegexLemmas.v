(* RegexLemmas.v — characterising equations of the matcher, a declarative
   semantics, soundness / completeness, case-blindness, position shift, and the
   leftmost / window / group lemmas behind C16, C02 and C18. *)
From MV Require Import Base RotLemmas Regex.

(* ---------- characterising equations; bt is opaque afterwards -------- *)

Lemma bt_nil w av pos g st cs : bt [] w av pos g st cs = Some (pos, cs).
Proof. reflexivity. Qed.

Lemma bt_atom c r w av pos g st cs :
  bt (Atom c :: r) w av pos g st cs =
  match av, w with
  | S av', x :: w' => if cmatch c (lcode x) then bt r w' av' (S pos) g st cs else None
  | _, _ => None
  end.
Proof. reflexivity. Qed.

Lemma bt_starG c r w av pos g st cs :
  bt (StarG c :: r) w av pos g st cs =
  match av, w with
  | S av', x :: w' =>
      if cmatch c (lcode x) then
        match bt (StarG c :: r) w' av' (S pos) g st cs with
        | Some z => Some z
        | None => bt r w av pos g st cs
        end
      else bt r w av pos g st cs
  | _, _ => bt r w av pos g st cs
  end.
Proof. destruct w; destruct av; reflexivity. Qed.

Lemma bt_starL c r w av pos g st cs :
  bt (StarL c :: r) w av pos g st cs =
  match bt r w av pos g st cs with
  | Some z => Some z
  | None =>
    match av, w with
    | S av', x :: w' => if cmatch c (lcode x) then bt (StarL c :: r) w' av' (S pos) g st cs else None
    | _, _ => None
    end
  end.
Proof. destruct w; destruct av; reflexivity. Qed.

Lemma bt_open r w av pos g st cs :
  bt (Open :: r) w av pos g st cs = bt r w av pos (S g) ((g, pos) :: st) cs.
Proof. reflexivity. Qed.

Lemma bt_close r w av pos g st cs :
  bt (Close :: r) w av pos g st cs =
  match st with (gi, s0) :: st' => bt r w av pos g st' ((gi, s0, pos) :: cs) | [] => None end.
Proof. reflexivity. Qed.

Global Opaque bt.

(* ---------- declarative semantics ------------------------------------ *)

(* dm items txt ls: txt is matched by items, item j consuming (nth j ls) letters *)
Inductive dm : pattern -> list letter -> list nat -> Prop :=
| dm_nil : dm [] [] []
| dm_atom c x r t ls : cmatch c (lcode x) = true -> dm r t ls -> dm (Atom c :: r) (x :: t) (1 :: ls)
| dm_starG c run r t ls : Forall (fun l => cmatch c (lcode l) = true) run -> dm r t ls ->
    dm (StarG c :: r) (run ++ t) (length run :: ls)
| dm_starL c run r t ls : Forall (fun l => cmatch c (lcode l) = true) run -> dm r t ls ->
    dm (StarL c :: r) (run ++ t) (length run :: ls)
| dm_open r t ls : dm r t ls -> dm (Open :: r) t (0 :: ls)
| dm_close r t ls : dm r t ls -> dm (Close :: r) t (0 :: ls).

Lemma dm_length items txt ls : dm items txt ls -> length txt = list_sum ls.
Proof.
  induction 1; unfold list_sum in *; cbn [fold_right length]; rewrite ?app_length; lia.
Qed.

(* soundness: whatever bt returns is a declarative match of the text it consumed *)
Lemma bt_sound : forall items w av pos g st cs e cs',
  bt items w av pos g st cs = Some (e, cs') ->
  exists ls, pos <= e /\ e - pos <= av /\ e - pos <= length w /\ dm items (firstn (e - pos) w) ls.
Proof.
  induction items as [|it r IH]; intros w av pos g st cs e cs' H.
  - rewrite bt_nil in H. inversion H; subst. exists []. rewrite Nat.sub_diag. cbn.
    repeat split; try lia. constructor.
  - destruct it as [c|c|c| |].
    + rewrite bt_atom in H. destruct av as [|av']; [discriminate|].
      destruct w as [|x w']; [discriminate|].
      destruct (cmatch c (lcode x)) eqn:Hc; [|discriminate].
      apply IH in H. destruct H as (ls & Hle & Hav & Hw & Hdm).
      exists (1 :: ls). cbn [length]. repeat split; try lia.
      replace (e - pos) with (S (e - S pos)) by lia. cbn. constructor; assumption.
    + (* StarG *)
      assert (Hzero : forall w av pos, bt r w av pos g st cs = Some (e, cs') ->
                exists ls, pos <= e /\ e - pos <= av /\ e - pos <= length w /\
                           dm (StarG c :: r) (firstn (e - pos) w) ls).
      { intros w0 av0 pos0 H0. apply IH in H0. destruct H0 as (ls & ? & ? & ? & Hdm).
        exists (0 :: ls); repeat split; try lia. apply (dm_starG c [] r _ ls); auto. }
      revert av pos H. induction w as [|x w' IHw]; intros av pos H; rewrite bt_starG in H.
      * destruct av; apply Hzero in H; exact H.
      * destruct av as [|av']; [apply Hzero in H; exact H|].
        destruct (cmatch c (lcode x)) eqn:Hc; [|apply Hzero in H; exact H].
        match type of H with match ?X with _ => _ end = _ => destruct X as [z|] eqn:Hs end;
          [|apply Hzero in H; exact H].
        assert (z = (e, cs')) by congruence; subst z. apply IHw in Hs.
        destruct Hs as (ls & Hle & Hav & Hw & Hdm).
        inversion Hdm; subst.
        exists (S (length run) :: ls0). cbn [length]. repeat split; try lia.
        replace (e - pos) with (S (e - S pos)) by lia. cbn [firstn].
        match goal with Hx : _ = firstn _ _ |- _ => rewrite <- Hx end.
        apply (dm_starG c (x :: run) r t ls0); auto.
    + (* StarL *)
      assert (Hzero : forall w av pos, bt r w av pos g st cs = Some (e, cs') ->
                exists ls, pos <= e /\ e - pos <= av /\ e - pos <= length w /\
                           dm (StarL c :: r) (firstn (e - pos) w) ls).
      { intros w0 av0 pos0 H0. apply IH in H0. destruct H0 as (ls & ? & ? & ? & Hdm).
        exists (0 :: ls); repeat split; try lia. apply (dm_starL c [] r _ ls); auto. }
      revert av pos H. induction w as [|x w' IHw]; intros av pos H; rewrite bt_starL in H.
      * match type of H with match ?X with _ => _ end = _ => destruct X as [z|] eqn:Hb end.
        { assert (z = (e, cs')) by congruence; subst z. apply Hzero in Hb. exact Hb. }
        destruct av; discriminate.
      * match type of H with match ?X with _ => _ end = _ => destruct X as [z|] eqn:Hb end.
        { assert (z = (e, cs')) by congruence; subst z. apply Hzero in Hb. exact Hb. }
        destruct av as [|av']; [discriminate|].
        destruct (cmatch c (lcode x)) eqn:Hc; [|discriminate].
        apply IHw in H. destruct H as (ls & Hle & Hav & Hw & Hdm). inversion Hdm; subst.
        exists (S (length run) :: ls0). cbn [length]. repeat split; try lia.
        replace (e - pos) with (S (e - S pos)) by lia. cbn [firstn].
        match goal with Hx : _ = firstn _ _ |- _ => rewrite <- Hx end.
        apply (dm_starL c (x :: run) r t ls0); auto.
    + rewrite bt_open in H. apply IH in H. destruct H as (ls & ? & ? & ? & Hdm).
      exists (0 :: ls). repeat split; try lia. constructor; auto.
    + rewrite bt_close in H. destruct st as [|[gi s0] st']; [discriminate|].
      apply IH in H. destruct H as (ls & ? & ? & ? & Hdm).
      exists (0 :: ls). repeat split; try lia. constructor; auto.
Qed.

(* the groups of a match are determined by the per-item lengths *)
Fixpoint spans_of (items : pattern) (ls : list nat) (pos g : nat) (st : list (nat * nat)) (cs : spans) : option res :=
  match items, ls with
  | [], [] => Some (pos, cs)
  | Open :: r, _ :: ls' => spans_of r ls' pos (S g) ((g, pos) :: st) cs
  | Close :: r, _ :: ls' =>
      match st with (gi, s0) :: st' => spans_of r ls' pos g st' ((gi, s0, pos) :: cs) | [] => None end
  | _ :: r, l :: ls' => spans_of r ls' (pos + l) g st cs
  | _, _ => None
  end.

(* soundness with the trace: the reported end and groups are those of the per-item lengths *)
Lemma bt_trace : forall items w av pos g st cs e cs',
  bt items w av pos g st cs = Some (e, cs') ->
  exists ls, pos <= e /\ e - pos <= av /\ e - pos <= length w /\ dm items (firstn (e - pos) w) ls /\
             spans_of items ls pos g st cs = Some (e, cs').
Proof.
  induction items as [|it r IH]; intros w av pos g st cs e cs' H.
  - rewrite bt_nil in H. inversion H; subst. exists []. rewrite Nat.sub_diag. cbn.
    repeat split; try lia. constructor.
  - destruct it as [c|c|c| |].
    + rewrite bt_atom in H. destruct av as [|av']; [discriminate|].
      destruct w as [|x w']; [discriminate|].
      destruct (cmatch c (lcode x)) eqn:Hc; [|discriminate].
      apply IH in H. destruct H as (ls & Hle & Hav & Hw & Hdm & Hsp).
      exists (1 :: ls). cbn [length]. repeat split; try lia.
      * replace (e - pos) with (S (e - S pos)) by lia. cbn. constructor; assumption.
      * cbn [spans_of]. now rewrite Nat.add_1_r.
    + (* StarG *)
      assert (Hzero : forall w av pos, bt r w av pos g st cs = Some (e, cs') ->
                exists ls, pos <= e /\ e - pos <= av /\ e - pos <= length w /\
                           dm (StarG c :: r) (firstn (e - pos) w) ls /\
                           spans_of (StarG c :: r) ls pos g st cs = Some (e, cs')).
      { intros w0 av0 pos0 H0. apply IH in H0. destruct H0 as (ls & ? & ? & ? & Hdm & Hsp).
        exists (0 :: ls); repeat split; try lia. apply (dm_starG c [] r _ ls); auto.
        cbn [spans_of]. now rewrite Nat.add_0_r. }
      revert av pos H. induction w as [|x w' IHw]; intros av pos H; rewrite bt_starG in H.
      * destruct av; apply Hzero in H; exact H.
      * destruct av as [|av']; [apply Hzero in H; exact H|].
        destruct (cmatch c (lcode x)) eqn:Hc; [|apply Hzero in H; exact H].
        match type of H with match ?X with _ => _ end = _ => destruct X as [z|] eqn:Hs end;
          [|apply Hzero in H; exact H].
        assert (z = (e, cs')) by congruence; subst z. apply IHw in Hs.
        destruct Hs as (ls & Hle & Hav & Hw & Hdm & Hsp).
        inversion Hdm; subst.
        exists (S (length run) :: ls0). cbn [length]. repeat split; try lia.
        -- replace (e - pos) with (S (e - S pos)) by lia. cbn [firstn].
           match goal with Hx : _ = firstn _ _ |- _ => rewrite <- Hx end.
           apply (dm_starG c (x :: run) r t ls0); auto.
        -- cbn [spans_of] in *. now rewrite Nat.add_succ_r.
    + (* StarL *)
      assert (Hzero : forall w av pos, bt r w av pos g st cs = Some (e, cs') ->
                exists ls, pos <= e /\ e - pos <= av /\ e - pos <= length w /\
                           dm (StarL c :: r) (firstn (e - pos) w) ls /\
                           spans_of (StarL c :: r) ls pos g st cs = Some (e, cs')).
      { intros w0 av0 pos0 H0. apply IH in H0. destruct H0 as (ls & ? & ? & ? & Hdm & Hsp).
        exists (0 :: ls); repeat split; try lia. apply (dm_starL c [] r _ ls); auto.
        cbn [spans_of]. now rewrite Nat.add_0_r. }
      revert av pos H. induction w as [|x w' IHw]; intros av pos H; rewrite bt_starL in H.
      * match type of H with match ?X with _ => _ end = _ => destruct X as [z|] eqn:Hb end.
        { assert (z = (e, cs')) by congruence; subst z. apply Hzero in Hb. exact Hb. }
        destruct av; discriminate.
      * match type of H with match ?X with _ => _ end = _ => destruct X as [z|] eqn:Hb end.
        { assert (z = (e, cs')) by congruence; subst z. apply Hzero in Hb. exact Hb. }
        destruct av as [|av']; [discriminate|].
        destruct (cmatch c (lcode x)) eqn:Hc; [|discriminate].
        apply IHw in H. destruct H as (ls & Hle & Hav & Hw & Hdm & Hsp). inversion Hdm; subst.
        exists (S (length run) :: ls0). cbn [length]. repeat split; try lia.
        -- replace (e - pos) with (S (e - S pos)) by lia. cbn [firstn].
           match goal with Hx : _ = firstn _ _ |- _ => rewrite <- Hx end.
           apply (dm_starL c (x :: run) r t ls0); auto.
        -- cbn [spans_of] in *. now rewrite Nat.add_succ_r.
    + rewrite bt_open in H. apply IH in H. destruct H as (ls & ? & ? & ? & Hdm & Hsp).
      exists (0 :: ls). repeat split; try lia. constructor; auto. exact Hsp.
    + rewrite bt_close in H. destruct st as [|[gi s0] st']; [discriminate|].
      apply IH in H. destruct H as (ls & ? & ? & ? & Hdm & Hsp).
      exists (0 :: ls). repeat split; try lia. constructor; auto. exact Hsp.
Qed.

(* parentheses never underflow the stack *)
Fixpoint closes_ok (items : pattern) (depth : nat) : bool :=
  match items with
  | [] => true
  | Open :: r => closes_ok r (S depth)
  | Close :: r => match depth with 0 => false | S d => closes_ok r d end
  | _ :: r => closes_ok r depth
  end.

Lemma balanced_closes_ok items d : balanced items d = true -> closes_ok items d = true.
Proof.
  revert d. induction items as [|[c|c|c| |] r IH]; intros d H; cbn in *; auto.
  destruct d; [discriminate|auto].
Qed.

(* completeness: if some prefix of w has a declarative match that fits in avail,
   bt returns a match (the one of highest priority, not necessarily that one) *)
Lemma bt_complete : forall items txt ls, dm items txt ls ->
  forall w av pos g st cs, (exists u, txt ++ u = w) -> length txt <= av ->
  closes_ok items (length st) = true ->
  exists z, bt items w av pos g st cs = Some z.
Proof.
  induction 1 as [ | c x r t ls Hc Hdm IH | c run r t ls Hrun Hdm IH
                   | c run r t ls Hrun Hdm IH | r t ls Hdm IH | r t ls Hdm IH ];
    intros w av pos g st cs Hpre Hlen Hbal.
  - rewrite bt_nil. eauto.
  - rewrite bt_atom. cbn in Hlen. destruct av as [|av']; [lia|].
    destruct Hpre as [u Hu]. destruct w as [|x' w']; [discriminate|]. cbn in Hu.
    inversion Hu; subst.
    rewrite Hc. apply IH; [eexists; reflexivity | lia | exact Hbal].
  - (* StarG *)
    cbn [closes_ok] in Hbal.
    revert w av pos Hpre Hlen. induction Hrun as [|x run Hx Hrun IHrun]; intros w av pos Hpre Hlen.
    + cbn in Hpre, Hlen. rewrite bt_starG.
      destruct (IH w av pos g st cs Hpre Hlen Hbal) as [z Hz].
      destruct av as [|av']; [eauto|]. destruct w as [|x w']; [eauto|].
      destruct (cmatch c (lcode x)); [|eauto].
      destruct (bt (StarG c :: r) w' av' (S pos) g st cs); eauto.
    + cbn in Hpre, Hlen. rewrite bt_starG.
      destruct av as [|av']; [lia|].
      destruct Hpre as [u Hu]. destruct w as [|x' w']; [discriminate|]. cbn in Hu.
      inversion Hu; subst.
      rewrite Hx.
      destruct (IHrun ((run ++ t) ++ u) av' (S pos)) as [z Hz].
      { exists u. reflexivity. } { lia. }
      rewrite Hz. eauto.
  - (* StarL *)
    cbn [closes_ok] in Hbal.
    revert w av pos Hpre Hlen. induction Hrun as [|x run Hx Hrun IHrun]; intros w av pos Hpre Hlen.
    + cbn in Hpre, Hlen. rewrite bt_starL.
      destruct (IH w av pos g st cs Hpre Hlen Hbal) as [z Hz]. rewrite Hz. eauto.
    + cbn in Hpre, Hlen. rewrite bt_starL.
      destruct (bt r w av pos g st cs) as [z0|] eqn:E0; [eauto|].
      destruct av as [|av']; [lia|].
      destruct Hpre as [u Hu]. destruct w as [|x' w']; [discriminate|]. cbn in Hu.
      inversion Hu; subst.
      rewrite Hx.
      destruct (IHrun ((run ++ t) ++ u) av' (S pos)) as [z Hz].
      { exists u. reflexivity. } { lia. }
      rewrite Hz. eauto.
  - rewrite bt_open. apply IH; auto.
  - rewrite bt_close. cbn [closes_ok] in Hbal. destruct st as [|[gi s0] st']; [cbn in Hbal; discriminate|].
    cbn in Hbal. apply IH; auto.
Qed.

(* ---------- the matcher is blind to letter case (C18) ------------------ *)

Lemma bt_codes_only : forall items w1 w2 av pos g st cs,
  map lcode w1 = map lcode w2 ->
  bt items w1 av pos g st cs = bt items w2 av pos g st cs.
Proof.
  induction items as [|it r IH]; intros w1 w2 av pos g st cs Hw.
  - now rewrite !bt_nil.
  - destruct it as [c|c|c| |].
    + rewrite !bt_atom. destruct av as [|av']; [reflexivity|].
      destruct w1 as [|x1 w1'], w2 as [|x2 w2']; try discriminate; [reflexivity|].
      cbn in Hw. inversion Hw as [[Hx Hr]]. rewrite Hx.
      destruct (cmatch c (lcode x2)); [|reflexivity]. now apply IH.
    + revert w2 av pos Hw. induction w1 as [|x1 w1' IHw]; intros w2 av pos Hw;
        destruct w2 as [|x2 w2']; try discriminate; rewrite !bt_starG.
      * destruct av; now apply IH.
      * cbn in Hw. inversion Hw as [[Hx Hr]]. rewrite Hx.
        destruct av as [|av']; [now apply IH|].
        destruct (cmatch c (lcode x2)); [|now apply IH].
        rewrite (IHw w2' av' (S pos) Hr).
        destruct (bt (StarG c :: r) w2' av' (S pos) g st cs); [reflexivity|].
        apply IH. cbn. now rewrite Hx, Hr.
    + revert w2 av pos Hw. induction w1 as [|x1 w1' IHw]; intros w2 av pos Hw;
        destruct w2 as [|x2 w2']; try discriminate; rewrite !bt_starL.
      * reflexivity.
      * cbn in Hw. inversion Hw as [[Hx Hr]].
        rewrite (IH (x1 :: w1') (x2 :: w2') av pos g st cs) by (cbn; now rewrite Hx, Hr).
        destruct (bt r (x2 :: w2') av pos g st cs); [reflexivity|].
        destruct av as [|av']; [reflexivity|]. rewrite Hx.
        destruct (cmatch c (lcode x2)); [|reflexivity]. now apply IHw.
    + rewrite !bt_open. now apply IH.
    + rewrite !bt_close. destruct st as [|[gi s0] st']; [reflexivity|]. now apply IH.
Qed.

(* ---------- only the first avail letters matter ------------------------ *)

Lemma bt_firstn : forall items w av pos g st cs,
  bt items (firstn av w) av pos g st cs = bt items w av pos g st cs.
Proof.
  induction items as [|it r IH]; intros w av pos g st cs.
  - now rewrite !bt_nil.
  - destruct it as [c|c|c| |].
    + rewrite !bt_atom. destruct av as [|av']; [reflexivity|].
      destruct w as [|x w']; [reflexivity|]. cbn [firstn].
      destruct (cmatch c (lcode x)); [|reflexivity]. apply IH.
    + revert av pos. induction w as [|x w' IHw]; intros av pos.
      * now rewrite firstn_nil.
      * destruct av as [|av'].
        -- cbn [firstn]. rewrite !bt_starG. rewrite <- (IH (x :: w') 0). reflexivity.
        -- cbn [firstn]. rewrite (bt_starG c r (x :: firstn av' w')), (bt_starG c r (x :: w')).
           destruct (cmatch c (lcode x)).
           ++ rewrite IHw. destruct (bt (StarG c :: r) w' av' (S pos) g st cs); [reflexivity|].
              rewrite <- (IH (x :: w') (S av')). reflexivity.
           ++ rewrite <- (IH (x :: w') (S av')). reflexivity.
    + revert av pos. induction w as [|x w' IHw]; intros av pos.
      * now rewrite firstn_nil.
      * destruct av as [|av'].
        -- cbn [firstn]. rewrite !bt_starL. rewrite <- (IH (x :: w') 0). cbn [firstn].
           destruct (bt r [] 0 pos g st cs); reflexivity.
        -- cbn [firstn]. rewrite (bt_starL c r (x :: firstn av' w')), (bt_starL c r (x :: w')).
           rewrite <- (IH (x :: w') (S av')). cbn [firstn].
           destruct (bt r (x :: firstn av' w') (S av') pos g st cs); [reflexivity|].
           destruct (cmatch c (lcode x)); [|reflexivity]. apply IHw.
    + rewrite !bt_open. apply IH.
    + rewrite !bt_close. destruct st as [|[gi s0] st']; [reflexivity|]. apply IH.
Qed.

(* ---------- position shift: spans move with the start position -------- *)

Definition sh_open (d : nat) (o : nat * nat) : nat * nat := (fst o, snd o + d).
Definition sh_span (d : nat) (c : nat * nat * nat) : nat * nat * nat :=
  (fst (fst c), snd (fst c) + d, snd c + d).
Definition sh_res (d : nat) (z : res) : res := (fst z + d, map (sh_span d) (snd z)).

Lemma bt_shift : forall items d w av pos g st cs,
  bt items w av (pos + d) g (map (sh_open d) st) (map (sh_span d) cs) =
  option_map (sh_res d) (bt items w av pos g st cs).
Proof.
  induction items as [|it r IH]; intros d w av pos g st cs.
  - rewrite !bt_nil. reflexivity.
  - destruct it as [c|c|c| |].
    + rewrite !bt_atom. destruct av as [|av']; [reflexivity|].
      destruct w as [|x w']; [reflexivity|].
      destruct (cmatch c (lcode x)); [|reflexivity].
      apply (IH d w' av' (S pos)).
    + revert av pos. induction w as [|x w' IHw]; intros av pos.
      * rewrite !bt_starG. destruct av; apply IH.
      * rewrite (bt_starG c r (x :: w') av (pos + d)), (bt_starG c r (x :: w') av pos).
        destruct av as [|av']; [apply IH|].
        destruct (cmatch c (lcode x)); [|apply IH].
        pose proof (IHw av' (S pos)) as Hs. cbn [Nat.add] in Hs. rewrite Hs.
        destruct (bt (StarG c :: r) w' av' (S pos) g st cs); [reflexivity|]. apply IH.
    + revert av pos. induction w as [|x w' IHw]; intros av pos.
      * rewrite !bt_starL. rewrite IH. destruct (bt r [] av pos g st cs); [reflexivity|].
        destruct av; reflexivity.
      * rewrite (bt_starL c r (x :: w') av (pos + d)), (bt_starL c r (x :: w') av pos).
        rewrite IH. destruct (bt r (x :: w') av pos g st cs); [reflexivity|].
        destruct av as [|av']; [reflexivity|].
        destruct (cmatch c (lcode x)); [|reflexivity].
        apply (IHw av' (S pos)).
    + rewrite !bt_open. apply (IH d w av pos (S g) ((g, pos) :: st) cs).
    + rewrite !bt_close. destruct st as [|[gi s0] st']; [reflexivity|].
      apply (IH d w av pos g st' ((gi, s0, pos) :: cs)).
Qed.

(* ---------- spans are ordered and lie inside the match ---------------- *)

Definition span_ok (lo hi : nat) (c : nat * nat * nat) : Prop :=
  lo <= snd (fst c) /\ snd (fst c) <= snd c /\ snd c <= hi.

Lemma span_ok_mono lo b1 b2 c : b1 <= b2 -> span_ok lo b1 c -> span_ok lo b2 c.
Proof. unfold span_ok. lia. Qed.

Lemma bt_spans : forall items lo w av pos g st cs e cs',
  bt items w av pos g st cs = Some (e, cs') -> lo <= pos ->
  Forall (fun o => lo <= snd o <= pos) st -> Forall (span_ok lo pos) cs ->
  Forall (span_ok lo e) cs'.
Proof.
  induction items as [|it r IH]; intros lo w av pos g st cs e cs' H Hlo Hst Hcs.
  - rewrite bt_nil in H. inversion H; subst. exact Hcs.
  - destruct it as [c|c|c| |].
    + rewrite bt_atom in H. destruct av as [|av']; [discriminate|].
      destruct w as [|x w']; [discriminate|].
      destruct (cmatch c (lcode x)); [|discriminate].
      eapply IH; [exact H|lia| |].
      * eapply Forall_impl; [|exact Hst]. cbn. intros; lia.
      * eapply Forall_impl; [|exact Hcs]. intros a. apply span_ok_mono. lia.
    + revert av pos H Hlo Hst Hcs. induction w as [|x w' IHw]; intros av pos H Hlo Hst Hcs; rewrite bt_starG in H.
      * destruct av; eapply IH; eauto.
      * destruct av as [|av']; [eapply IH; eauto|].
        destruct (cmatch c (lcode x)); [|eapply IH; eauto].
        match type of H with match ?X with _ => _ end = _ => destruct X as [z|] eqn:Hs end;
          [|eapply IH; eauto].
        assert (z = (e, cs')) by congruence; subst z.
        eapply IHw; [exact Hs|lia| |].
        -- eapply Forall_impl; [|exact Hst]. cbn. intros; lia.
        -- eapply Forall_impl; [|exact Hcs]. intros a. apply span_ok_mono. lia.
    + revert av pos H Hlo Hst Hcs. induction w as [|x w' IHw]; intros av pos H Hlo Hst Hcs; rewrite bt_starL in H.
      * match type of H with match ?X with _ => _ end = _ => destruct X as [z|] eqn:Hb end.
        { assert (z = (e, cs')) by congruence; subst z. eapply IH; eauto. }
        destruct av; discriminate.
      * match type of H with match ?X with _ => _ end = _ => destruct X as [z|] eqn:Hb end.
        { assert (z = (e, cs')) by congruence; subst z. eapply IH; eauto. }
        destruct av as [|av']; [discriminate|].
        destruct (cmatch c (lcode x)); [|discriminate].
        eapply IHw; [exact H|lia| |].
        -- eapply Forall_impl; [|exact Hst]. cbn. intros; lia.
        -- eapply Forall_impl; [|exact Hcs]. intros a. apply span_ok_mono. lia.
    + rewrite bt_open in H.
      eapply IH; [exact H|exact Hlo| |exact Hcs]. constructor; [cbn; lia|exact Hst].
    + rewrite bt_close in H. destruct st as [|[gi s0] st']; [discriminate|].
      inversion Hst as [|? ? Hs0 Hst']; subst. cbn in Hs0.
      eapply IH; [exact H|exact Hlo|exact Hst'|].
      constructor; [unfold span_ok; cbn; lia|exact Hcs].
Qed.

(* ---------- the scan returns the leftmost start (C16) ------------------ *)

Lemma skipn_tl {A} (w : list A) k : skipn k (tl w) = skipn (S k) w.
Proof. destruct w as [|x w]; [cbn [tl]; now rewrite !skipn_nil|reflexivity]. Qed.

Lemma scan_some : forall items cnt w n i m,
  scan items w n i cnt = Some m ->
  i <= mstart m < i + cnt /\
  match_here items (skipn (mstart m - i) w) n (mstart m) = Some (mend m, mgroups m) /\
  forall j, i <= j < mstart m -> match_here items (skipn (j - i) w) n j = None.
Proof.
  induction cnt as [|cnt IH]; intros w n i m H; [discriminate|].
  cbn [scan] in H.
  destruct (match_here items w n i) as [[e cs]|] eqn:Hm.
  - inversion H; subst. cbn [mstart mend mgroups]. rewrite Nat.sub_diag. cbn [skipn].
    repeat split; try lia. exact Hm.
  - apply IH in H. destruct H as (Hr & Hmatch & Hnone).
    rewrite skipn_tl in Hmatch.
    replace (S (mstart m - S i)) with (mstart m - i) in Hmatch by lia.
    repeat split; try lia; [exact Hmatch|].
    intros j Hj. destruct (Nat.eq_dec j i) as [->|Hne].
    + rewrite Nat.sub_diag. exact Hm.
    + specialize (Hnone j ltac:(lia)). rewrite skipn_tl in Hnone.
      replace (S (j - S i)) with (j - i) in Hnone by lia. exact Hnone.
Qed.

Lemma scan_none : forall items cnt w n i,
  scan items w n i cnt = None ->
  forall j, i <= j < i + cnt -> match_here items (skipn (j - i) w) n j = None.
Proof.
  induction cnt as [|cnt IH]; intros w n i H j Hj; [lia|].
  cbn [scan] in H.
  destruct (match_here items w n i) as [[e cs]|] eqn:Hm; [discriminate|].
  destruct (Nat.eq_dec j i) as [->|Hne].
  - rewrite Nat.sub_diag. exact Hm.
  - specialize (IH _ _ _ H j ltac:(lia)). rewrite skipn_tl in IH.
    replace (S (j - S i)) with (j - i) in IH by lia. exact IH.
Qed.

(* ---------- DNARegex.search: leftmost start in range, one-turn window -- *)

Lemma skipn_skipn {A} (w : list A) a b : skipn a (skipn b w) = skipn (a + b) w.
Proof.
  revert w. induction b as [|b IH]; intros w.
  - now rewrite Nat.add_0_r.
  - destruct w as [|x w]; [now rewrite !skipn_nil|].
    rewrite Nat.add_succ_r. cbn [skipn]. apply IH.
Qed.

Lemma matches_at_false items s circ j :
  match_here items (skipn j (data_of s circ)) (length s) j = None ->
  matches_at items s circ j = false.
Proof. unfold matches_at. now intros ->. Qed.

Theorem search_leftmost items s circ pos endpos m :
  search items s circ pos endpos = Some m ->
  pos <= mstart m < Nat.min (length s) endpos /\
  match_here items (skipn (mstart m) (data_of s circ)) (length s) (mstart m)
    = Some (mend m, mgroups m) /\
  forall j, pos <= j < mstart m -> matches_at items s circ j = false.
Proof.
  unfold search. fold (data_of s circ). intros H.
  apply scan_some in H. destruct H as (Hr & Hm & Hnone).
  rewrite skipn_skipn in Hm. replace (mstart m - pos + pos) with (mstart m) in Hm by lia.
  repeat split; try lia; [exact Hm|].
  intros j Hj. apply matches_at_false.
  specialize (Hnone j Hj). rewrite skipn_skipn in Hnone.
  replace (j - pos + pos) with j in Hnone by lia. exact Hnone.
Qed.

Theorem search_none items s circ pos endpos :
  search items s circ pos endpos = None ->
  forall j, pos <= j < Nat.min (length s) endpos -> matches_at items s circ j = false.
Proof.
  unfold search. fold (data_of s circ). intros H j Hj. apply matches_at_false.
  pose proof (scan_none _ _ _ _ _ H j ltac:(lia)) as Hn.
  rewrite skipn_skipn in Hn. replace (j - pos + pos) with j in Hn by lia. exact Hn.
Qed.

(* conversely, a matching start in range makes the search succeed, at or before it *)
Theorem search_finds items s circ pos endpos j :
  pos <= j < Nat.min (length s) endpos -> matches_at items s circ j = true ->
  exists m, search items s circ pos endpos = Some m /\ mstart m <= j.
Proof.
  intros Hj Hmj. destruct (search items s circ pos endpos) as [m|] eqn:E.
  - exists m. split; [reflexivity|].
    destruct (search_leftmost _ _ _ _ _ _ E) as (_ & _ & Hnone).
    destruct (Nat.le_gt_cases (mstart m) j) as [Hle|Hgt]; [exact Hle|].
    rewrite (Hnone j ltac:(lia)) in Hmj. discriminate.
  - rewrite (search_none _ _ _ _ _ E j Hj) in Hmj. discriminate.
Qed.

Theorem search_window items s circ pos endpos m :
  search items s circ pos endpos = Some m ->
  mstart m <= mend m /\ mend m - mstart m <= length s /\
  (circ = false -> mend m <= length s) /\
  Forall (span_ok (mstart m) (mend m)) (mgroups m).
Proof.
  intros H. destruct (search_leftmost _ _ _ _ _ _ H) as (Hr & Hm & _).
  unfold match_here in Hm.
  pose proof (bt_sound _ _ _ _ _ _ _ _ _ Hm) as (ls & Hle & Hav & Hw & _).
  repeat split; try lia.
  - intros ->. cbn [data_of] in Hw. rewrite skipn_length in Hw. lia.
  - eapply bt_spans; [exact Hm|lia|constructor|constructor].
Qed.

(* ---------- SeqMatch.group returns the text the span covers ----------- *)

Lemma slice_app_l {A} (s t : list A) a b : b <= length s -> slice (s ++ t) a b = slice s a b.
Proof.
  intros Hb. unfold slice. rewrite skipn_app, firstn_app.
  replace (b - a - length (skipn a s)) with 0 by (rewrite skipn_length; lia).
  cbn [firstn]. now rewrite app_nil_r.
Qed.

Lemma slice_app_r {A} (s t : list A) a b :
  length s <= a -> slice (s ++ t) a b = slice t (a - length s) (b - length s).
Proof.
  intros Ha. unfold slice. rewrite skipn_app.
  rewrite (skipn_all2 s) by lia. cbn [app]. f_equal. lia.
Qed.

Lemma slice_app_mid {A} (s t : list A) a b :
  a <= length s <= b -> slice (s ++ t) a b = skipn a s ++ firstn (b - length s) t.
Proof.
  intros Hab. unfold slice. rewrite skipn_app, firstn_app.
  rewrite firstn_all2 by (rewrite skipn_length; lia).
  replace (a - length s) with 0 by lia. cbn [skipn].
  rewrite skipn_length. f_equal. f_equal. lia.
Qed.

Lemma mod_once a n : n <= a < 2 * n -> a mod n = a - n.
Proof.
  intros H. symmetry. apply (Nat.mod_unique a n 1 (a - n)); lia.
Qed.

Theorem group_of_span_text s a b :
  a <= b -> b < 2 * length s ->
  group_of_span s (a, b) = slice (s ++ s) a b.
Proof.
  intros Hab Hb. unfold group_of_span. set (n := length s) in *.
  destruct (Nat.leb_spec n a) as [Hna|Hna]; cbn [andb].
  - replace (a <=? b) with true by (symmetry; apply Nat.leb_le; lia).
    rewrite !mod_once by (fold n; lia).
    rewrite slice_app_r by (fold n; lia). reflexivity.
  - destruct (Nat.leb_spec n b) as [Hnb|Hnb]; cbn [andb].
    + replace (a <? n) with true by (symmetry; apply Nat.ltb_lt; lia).
      rewrite mod_once by (fold n; lia).
      rewrite slice_app_mid by (fold n; lia). reflexivity.
    + rewrite slice_app_l by (fold n; lia). reflexivity.
Qed.

(* on a linear target the span never exceeds the length: plain slice *)
Theorem group_of_span_linear s a b :
  a <= b -> b <= length s -> 0 < length s ->
  group_of_span s (a, b) = slice s a b.
Proof.
  intros Hab Hb Hn. rewrite group_of_span_text by lia. now apply slice_app_l.
Qed.

(* sensitivity (F1): the pinned concatenation order returns another word *)
Lemma group_of_span_pinned_differs :
  exists s sp, group_of_span_pinned s sp <> slice (s ++ s) (fst sp) (snd sp).
Proof.
  exists [L cC true; L cA true; L cT true; L cA true; L cG true; L cC true; L cA true; L cA true; L cG true], (7, 11).
  vm_compute. discriminate.
Qed.

Lemma find_span_in g cs a b : find_span g cs = Some (a, b) -> In (g, a, b) cs.
Proof.
  induction cs as [|[[gi x] y] r IH]; [discriminate|]. cbn [find_span].
  destruct (Nat.eqb_spec gi g) as [->|Hne].
  - intros H. inversion H; subst. now left.
  - intros H. right. now apply IH.
Qed.

(* every group of a reported match, asked for as a sequence, is exactly the text
   its span covers in the searched data (doubled when circular) *)
Theorem search_group_text items s circ pos endpos m g a b :
  search items s circ pos endpos = Some m ->
  span m g = Some (a, b) ->
  a <= b /\ mstart m <= a /\ b <= mend m /\
  group m s g = Some (slice (data_of s circ) a b).
Proof.
  intros Hs Hsp.
  destruct (search_leftmost _ _ _ _ _ _ Hs) as (Hr & _ & _).
  destruct (search_window _ _ _ _ _ _ Hs) as (Hle & Hwin & Hlin & Hsp_ok).
  assert (Hab : mstart m <= a /\ a <= b /\ b <= mend m).
  { destruct g as [|g'].
    - cbn in Hsp. inversion Hsp; subst. lia.
    - cbn [span] in Hsp. apply find_span_in in Hsp.
      rewrite Forall_forall in Hsp_ok. specialize (Hsp_ok _ Hsp). unfold span_ok in Hsp_ok.
      cbn in Hsp_ok. lia. }
  repeat split; try lia.
  unfold group. rewrite Hsp. cbn [option_map]. f_equal.
  destruct circ; cbn [data_of].
  - apply group_of_span_text; lia.
  - specialize (Hlin eq_refl). apply group_of_span_linear; lia.
Qed.
