(* SrcEquivStructure.v — structure() of the generic module and vector classes as regenerated from
   modules.py / vectors.py (elucidate(), its reverse complement, the four replace() calls, the
   join): the text it returns reads, character by character through regex.py's letter map, as the
   pattern Typing.module_structure / vector_structure — for EVERY enzyme of the family (any
   unambiguous site, any offset, any overhang length). *)
From MV Require Import Base Regex Typing Py PyObj.
From MV.Gen Require Import Lettermap Src.
From Coq Require Import Lia String.
Local Open Scope list_scope.

(* ---------- reading a pattern text ---------------------------------------------------------------- *)

(* what one letter of a pattern matches: regex.py's _lettermap (regenerated), a letter outside it
   matches itself *)
Definition codes_of (c : code) : cset :=
  match find (fun p => code_eqb (fst p) c) lettermap with Some p => snd p | None => [c] end.

Fixpoint sch_tok (s : pystr) : option pattern :=
  match s with
  | [] => Some []
  | SL c :: r =>
    match r with
    | SStar :: r' =>
      match r' with
      | SQuest :: r'' => option_map (cons (StarL (codes_of c))) (sch_tok r'')      (* X*? lazy *)
      | _ => option_map (cons (StarG (codes_of c))) (sch_tok r')
      end
    | _ => option_map (cons (Atom (codes_of c))) (sch_tok r)
    end
  | SOpen :: r => option_map (cons Open) (sch_tok r)
  | SClose :: r => option_map (cons Close) (sch_tok r)
  | _ => None
  end.

Definition unamb (c : code) : Prop := c = cA \/ c = cC \/ c = cG \/ c = cT.

Lemma codes_of_N : codes_of cN = setN.
Proof. vm_compute. reflexivity. Qed.

Lemma codes_of_unamb c : unamb c -> codes_of c = [c].
Proof. intros [H|[H|[H|H]]]; subst c; vm_compute; reflexivity. Qed.

Lemma unamb_compl c : unamb c -> unamb (compl c).
Proof. intros [H|[H|[H|H]]]; subst c; cbn; unfold unamb; auto. Qed.

(* ---------- replace() with a one-character needle --------------------------------------------------- *)

Definition subst1 (x : sch) (new : pystr) (c : sch) : pystr := if sch_eqb x c then new else [c].

Lemma sch_replace1 s x new : sch_replace s [x] new = flat_map (subst1 x new) s.
Proof.
  unfold sch_replace. induction s as [|c r IH]; cbn [sch_rep flat_map sch_prefix]; [reflexivity|].
  unfold subst1 at 1. destruct (sch_eqb x c); cbn [List.length]; rewrite IH; reflexivity.
Qed.

Lemma flat_letters x new w : (forall c, sch_eqb x (SL c) = false) -> flat_map (subst1 x new) (map SL w) = map SL w.
Proof.
  intros Hx. induction w as [|c w IH]; cbn; [reflexivity|]. unfold subst1 at 1. now rewrite Hx, IH.
Qed.

Lemma repeat_map {A B} (f : A -> B) x k : repeat (f x) k = map f (repeat x k).
Proof. induction k; cbn; congruence. Qed.

Lemma rev_repeat {A} (x : A) k : rev (repeat x k) = repeat x k.
Proof.
  induction k as [|k IH]; cbn; [reflexivity|]. rewrite IH. clear. induction k; cbn; congruence.
Qed.

(* ---------- reading letters --------------------------------------------------------------------------- *)

Lemma tok_letters w : forall r, (match r with SStar :: _ => False | _ => True end) ->
  sch_tok (map SL w ++ r) = option_map (app (map (fun c => Atom (codes_of c)) w)) (sch_tok r).
Proof.
  induction w as [|c w IH]; intros r Hr; cbn [map app].
  - destruct (sch_tok r); reflexivity.
  - cbn [sch_tok]. destruct (map SL w ++ r) as [|y t] eqn:E.
    + destruct w; [|discriminate]. cbn in E. subst r. reflexivity.
    + assert (Hy : y <> SStar).
      { destruct w as [|c' w']; cbn in E.
        - subst r. intros ->. exact Hr.
        - inversion E. discriminate. }
      rewrite <- E. rewrite (IH r Hr).
      destruct y; try congruence; rewrite ?E; destruct (sch_tok r); reflexivity.
Qed.

Lemma atoms_unamb w : Forall unamb w -> map (fun c => Atom (codes_of c)) w = lits w.
Proof. induction 1 as [|c w Hc _ IH]; cbn [map lits]; [reflexivity|]. unfold lits in *. now rewrite (codes_of_unamb c Hc), IH. Qed.

Lemma atoms_N k : map (fun c => Atom (codes_of c)) (repeat cN k) = repeat aN k.
Proof. induction k; cbn [map repeat]; [reflexivity|]. now rewrite codes_of_N, IHk. Qed.

Lemma unamb_rc w : Forall unamb w -> Forall unamb (rc_codes w).
Proof.
  intros H. unfold rc_codes. apply Forall_rev. apply Forall_forall. intros x Hx. apply in_map_iff in Hx.
  destruct Hx as (y & <- & Hy). apply unamb_compl. eapply Forall_forall; eassumption.
Qed.

Definition nostar (r : pystr) : Prop := match r with SStar :: _ => False | _ => True end.

Lemma nostar_app w r : nostar r -> nostar (map SL w ++ r).
Proof. destruct w; cbn; auto. Qed.

Lemma tok_letters' w r : nostar r ->
  sch_tok (map SL w ++ r) = option_map (app (map (fun c => Atom (codes_of c)) w)) (sch_tok r).
Proof. apply tok_letters. Qed.

Definition noquest (r : pystr) : Prop := match r with SQuest :: _ => False | _ => True end.

Lemma noquest_app w r : noquest r -> noquest (map SL w ++ r).
Proof. destruct w; cbn; auto. Qed.

Lemma tok_star c r : noquest r -> sch_tok (SL c :: SStar :: r) = option_map (cons (StarG (codes_of c))) (sch_tok r).
Proof. intros H. cbn [sch_tok]. destruct r as [|y t]; [reflexivity|]. destruct y; try reflexivity. contradiction. Qed.

(* ---------- the texts ------------------------------------------------------------------------------------ *)

Definition Ns (k : nat) : pystr := map SL (repeat cN k).

Lemma elucidate_form e : enz_elucidate e = map SL (esite e) ++ Ns (eoff e) ++ [SCaret] ++ Ns (eovh e) ++ [SUnder; SL cN].
Proof. unfold enz_elucidate, Ns. now rewrite <- !repeat_map. Qed.

Lemma rc_form e : sch_rc (enz_elucidate e) =
  [SL cN; SUnder] ++ Ns (eovh e) ++ [SCaret] ++ Ns (eoff e) ++ map SL (rc_codes (esite e)).
Proof.
  rewrite elucidate_form. unfold sch_rc, Ns, rc_codes.
  rewrite !map_app, !rev_app_distr. cbn [map rev app sch_compl compl].
  rewrite !map_map. cbn [sch_compl].
  rewrite <- !map_rev, !map_map.
  assert (HN : forall k, map (fun x => SL (compl x)) (rev (repeat cN k)) = map SL (repeat cN k)).
  { intros k. rewrite rev_repeat. induction k; cbn; congruence. }
  rewrite !HN. rewrite <- !app_assoc. cbn [app]. now rewrite <- map_map, map_rev.
Qed.

Lemma flat_Ns x new k : (forall c, sch_eqb x (SL c) = false) -> flat_map (subst1 x new) (Ns k) = Ns k.
Proof. intros H. unfold Ns. now apply flat_letters. Qed.

Ltac flat_simpl :=
  repeat (rewrite ?flat_map_app, ?flat_letters, ?flat_Ns by (intros; reflexivity)); cbn [flat_map subst1 sch_eqb app].

(* AbstractModule.structure() as regenerated: its text reads as Typing.module_structure *)
Theorem AbstractModule_structure_eq c : Forall unamb (esite (cenz c)) ->
  exists t, AbstractModule_structure c = Ok t /\ sch_tok t = Some (module_structure (cenz c)).
Proof.
  intros Hu. unfold AbstractModule_structure, sch_id. cbv zeta. eexists. split; [reflexivity|].
  set (e := cenz c) in *.
  change (sch_of_string "^"%string) with [SCaret]. change (sch_of_string "("%string) with [SOpen].
  change (sch_of_string "_"%string) with [SUnder]. change (sch_of_string ")("%string) with [SClose; SOpen].
  change (sch_of_string ")"%string) with [SClose]. change (sch_of_string "N*"%string) with [SL cN; SStar].
  rewrite !sch_replace1, rc_form, elucidate_form.
  flat_simpl. flat_simpl.
  cbn [List.concat]. rewrite app_nil_r, <- !app_assoc. cbn [app].
  unfold Ns. rewrite <- !app_assoc. cbn [app].
  rewrite <- (app_nil_r (map SL (rc_codes (esite e)))).
  rewrite tok_letters' by (apply nostar_app; exact I).
  rewrite tok_letters' by exact I. cbn [sch_tok].
  rewrite tok_letters' by exact I. cbn [sch_tok].
  rewrite tok_letters' by exact I. cbn [sch_tok].
  rewrite tok_letters' by (apply nostar_app; exact I).
  rewrite tok_letters' by exact I. cbn [sch_tok option_map].
  rewrite !atoms_N, (atoms_unamb _ Hu), (atoms_unamb _ (unamb_rc _ Hu)), codes_of_N.
  unfold module_structure, module_structure_sig. cbn [option_map]. f_equal.
  rewrite ?app_nil_r, <- ?app_assoc. reflexivity.
Qed.

(* AbstractVector.structure() as regenerated: its text reads as Typing.vector_structure *)
Theorem AbstractVector_structure_eq c : Forall unamb (esite (cenz c)) ->
  exists t, AbstractVector_structure c = Ok t /\ sch_tok t = Some (vector_structure (cenz c)).
Proof.
  intros Hu. unfold AbstractVector_structure, sch_id. cbv zeta. eexists. split; [reflexivity|].
  set (e := cenz c) in *.
  change (sch_of_string "^"%string) with [SCaret]. change (sch_of_string "("%string) with [SOpen].
  change (sch_of_string "_"%string) with [SUnder]. change (sch_of_string ")("%string) with [SClose; SOpen].
  change (sch_of_string ")"%string) with [SClose]. change (sch_of_string "N*"%string) with [SL cN; SStar].
  rewrite !sch_replace1, rc_form, elucidate_form.
  flat_simpl. flat_simpl.
  cbn [List.concat]. rewrite ?app_nil_r, <- ?app_assoc. cbn [app].
  unfold Ns. repeat rewrite <- app_assoc. cbn [app].
  cbn [sch_tok].
  rewrite tok_letters' by exact I. cbn [sch_tok]. repeat rewrite <- app_assoc.
  rewrite tok_letters' by (apply nostar_app; exact I).
  rewrite tok_letters' by exact I. rewrite tok_star by (apply noquest_app; apply noquest_app; exact I).
  rewrite tok_letters' by (apply nostar_app; exact I).
  rewrite tok_letters' by exact I. cbn [sch_tok].
  rewrite tok_letters' by exact I. cbn [sch_tok option_map].
  rewrite !atoms_N, (atoms_unamb _ Hu), (atoms_unamb _ (unamb_rc _ Hu)), codes_of_N.
  unfold vector_structure, vector_structure_sig. cbn [option_map]. f_equal.
  all: rewrite ?app_nil_r, <- ?app_assoc; reflexivity.
Qed.

(* ---------- replace() with a needle that starts with a marker ------------------------------------------ *)

Lemma sch_eqb_refl c : sch_eqb c c = true.
Proof. destruct c; cbn; auto using Ascii.eqb_refl. destruct c; reflexivity. Qed.

Lemma sch_prefix_app p : forall r, sch_prefix p (p ++ r) = Some r.
Proof. induction p as [|x p IH]; intros r; cbn; [destruct r; reflexivity|]. now rewrite sch_eqb_refl. Qed.

Definition marker (m : sch) : Prop := forall c, sch_eqb m (SL c) = false.

Lemma rep_letters m o new w : marker m -> forall s,
  sch_rep (map SL w ++ s) (m :: o) new 0 = map SL w ++ sch_rep s (m :: o) new 0.
Proof.
  intros Hm. induction w as [|c w IH]; intros s; cbn [map app]; [reflexivity|].
  cbn [sch_rep sch_prefix]. rewrite Hm. now rewrite IH.
Qed.

Lemma rep_skip old new : forall x s, sch_rep (x ++ s) old new (List.length x) = sch_rep s old new 0.
Proof. induction x as [|c x IH]; intros s; cbn [app List.length sch_rep]; [destruct s; reflexivity|apply IH]. Qed.

Lemma rep_match m o new s : sch_rep ((m :: o) ++ s) (m :: o) new 0 = new ++ sch_rep s (m :: o) new 0.
Proof.
  cbn [app sch_rep]. change (m :: o ++ s) with ((m :: o) ++ s). rewrite sch_prefix_app.
  now rewrite rep_skip.
Qed.

Lemma rep_letters_only m o new w : marker m -> sch_rep (map SL w) (m :: o) new 0 = map SL w.
Proof. intros Hm. rewrite <- (app_nil_r (map SL w)), (rep_letters m o new w Hm). cbn. now rewrite app_nil_r. Qed.

Lemma rc_Ns k : sch_rc (Ns k) = Ns k.
Proof.
  unfold sch_rc, Ns. rewrite map_map. cbn [sch_compl]. rewrite <- map_rev, rev_repeat.
  induction k; cbn; congruence.
Qed.

(* AbstractPart.structure() as regenerated, for a part class with a signature of IUPAC letters: its
   text reads as Typing.part_structure of the signature read through the letter map *)
Theorem AbstractPart_structure_eq c wu wd :
  Forall unamb (esite (pc_enz c)) -> pc_sig c = (map SL wu, map SL wd) ->
  exists t, AbstractPart_structure c = Ok t /\
    sch_tok t = Some (part_structure (pc_role c) (pc_enz c)
                        (map (fun x => Atom (codes_of x)) wu) (map (fun x => Atom (codes_of x)) wd)).
Proof.
  intros Hu Hsig. unfold AbstractPart_structure, sch_id, enz_is_5overhang. cbv zeta. rewrite Hsig. cbn [bind].
  set (e := pc_enz c) in *.
  change (sch_of_string "N*"%string) with [SL cN; SStar].
  assert (Hov : enz_ovhgseq e = Ns (eovh e)) by (unfold enz_ovhgseq, Ns; now rewrite <- repeat_map).
  rewrite Hov, rc_Ns, rc_form, elucidate_form.
  unfold fmt_caret_under, fmt_under_caret, fmt_group_open, fmt_close_group, sch_replace.
  assert (Mc : marker SCaret) by (intros x; reflexivity).
  assert (Mu : marker SUnder) by (intros x; reflexivity).
  (* the two replacements *)
  assert (Eup : forall new, sch_rep (map SL (esite e) ++ Ns (eoff e) ++ [SCaret] ++ Ns (eovh e) ++ [SUnder; SL cN])
                                    ([SCaret] ++ Ns (eovh e) ++ [SUnder]) new 0
                            = map SL (esite e) ++ Ns (eoff e) ++ new ++ [SL cN]).
  { intros new. cbn [app]. rewrite (rep_letters SCaret _ new (esite e) Mc). unfold Ns at 1 3.
    rewrite (rep_letters SCaret _ new (repeat cN (eoff e)) Mc). fold (Ns (eoff e)).
    replace (SCaret :: Ns (eovh e) ++ [SUnder; SL cN]) with ((SCaret :: Ns (eovh e) ++ [SUnder]) ++ map SL [cN])
      by (cbn [app map]; now rewrite <- app_assoc).
    rewrite rep_match, (rep_letters_only SCaret _ new [cN] Mc). reflexivity. }
  assert (Edown : forall new, sch_rep ([SL cN; SUnder] ++ Ns (eovh e) ++ [SCaret] ++ Ns (eoff e) ++ map SL (rc_codes (esite e)))
                                      ([SUnder] ++ Ns (eovh e) ++ [SCaret]) new 0
                              = [SL cN] ++ new ++ Ns (eoff e) ++ map SL (rc_codes (esite e))).
  { intros new. change ([SL cN; SUnder] ++ ?x) with (map SL [cN] ++ (SUnder :: x)).
    cbn [app]. change (SL cN :: ?x) with (map SL [cN] ++ x) at 1.
    rewrite (rep_letters SUnder _ new [cN] Mu).
    replace (SUnder :: Ns (eovh e) ++ SCaret :: Ns (eoff e) ++ map SL (rc_codes (esite e)))
      with ((SUnder :: Ns (eovh e) ++ [SCaret]) ++ map SL (repeat cN (eoff e) ++ rc_codes (esite e)))
      by (cbn [app]; rewrite <- app_assoc, map_app; reflexivity).
    rewrite rep_match, (rep_letters_only SUnder _ new _ Mu), map_app. reflexivity. }
  rewrite !Eup, !Edown.
  unfold pc_is_module, pc_is_vector, part_structure. destruct (pc_role c).
  - (* module part *)
    eexists. split; [reflexivity|].
    cbn [List.concat]. rewrite ?app_nil_r. repeat rewrite <- app_assoc. cbn [app]. unfold Ns.
    rewrite <- (app_nil_r (map SL (rc_codes (esite e)))).
    rewrite tok_letters' by (apply nostar_app; exact I).
    rewrite tok_letters' by exact I. cbn [sch_tok].
    rewrite tok_letters' by exact I. cbn [sch_tok].
    rewrite tok_letters' by exact I. cbn [sch_tok].
    rewrite tok_letters' by (apply nostar_app; exact I).
    rewrite tok_letters' by exact I. cbn [sch_tok option_map].
    rewrite !atoms_N, (atoms_unamb _ Hu), (atoms_unamb _ (unamb_rc _ Hu)), codes_of_N.
    unfold module_structure_sig. f_equal.
    all: rewrite ?app_nil_r; repeat rewrite <- app_assoc; reflexivity.
  - (* vector part *)
    eexists. split; [reflexivity|].
    cbn [List.concat]. rewrite ?app_nil_r. repeat rewrite <- app_assoc. cbn [app]. unfold Ns.
    cbn [sch_tok].
    rewrite tok_letters' by exact I. cbn [sch_tok]. repeat rewrite <- app_assoc.
    rewrite tok_letters' by (apply nostar_app; exact I).
    rewrite tok_letters' by exact I. rewrite tok_star by (apply noquest_app; apply noquest_app; exact I).
    rewrite tok_letters' by (apply nostar_app; exact I).
    rewrite tok_letters' by exact I. cbn [sch_tok].
    rewrite tok_letters' by exact I. cbn [sch_tok option_map].
    rewrite !atoms_N, (atoms_unamb _ Hu), (atoms_unamb _ (unamb_rc _ Hu)), codes_of_N.
    unfold vector_structure_sig. f_equal.
    all: rewrite ?app_nil_r; repeat rewrite <- app_assoc; reflexivity.
Qed.
