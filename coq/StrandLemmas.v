(* StrandLemmas.v — DNA has no preferred strand (C12): occurrences mirror under reverse
   complement; the reverse complement of the module / vector of the formal definition is a
   rotation of the module / vector built from the reverse-complemented pieces. *)
From MV Require Import Base RotLemmas Record RecordLemmas Regex RegexLemmas Shape ShapeLemmas Typing TypingLemmas
                       TotalLemmas ShapeTyping PartLemmas Anchors Canonical.

Local Open Scope nat_scope.

(* ---------- occurrences ---------------------------------------------------------------- *)

Lemma occurs_here_spec w t : occurs_here w t = true <-> exists t1 t2, t = t1 ++ t2 /\ map lcode t1 = w.
Proof.
  revert t. induction w as [|x w IH]; intros t.
  - split; [intros _; exists [], t; auto|reflexivity].
  - destruct t as [|y t]; cbn.
    + split; [discriminate|]. intros ([|? ?] & t2 & H1 & H2); discriminate.
    + split.
      * intros H. apply andb_prop in H. destruct H as [Hx Hw]. apply IH in Hw. destruct Hw as (t1 & t2 & -> & <-).
        exists (y :: t1), t2. split; [reflexivity|]. cbn. f_equal. destruct x, (lcode y); try discriminate Hx; reflexivity.
      * intros (t1 & t2 & H1 & H2). destruct t1 as [|z t1]; [discriminate|]. cbn in *. inversion H1; subst. inversion H2; subst.
        apply andb_true_intro. split; [destruct (lcode z); reflexivity|]. apply IH. eauto.
Qed.

Lemma rc_codes_involutive w : rc_codes (rc_codes w) = w.
Proof.
  unfold rc_codes. rewrite map_rev, rev_involutive, map_map. rewrite <- (map_id w) at 2. apply map_ext. intros c. apply compl_involutive.
Qed.

Lemma map_lcode_rc u : map lcode (rc u) = rc_codes (map lcode u).
Proof. unfold rc, rc_codes. rewrite map_rev, !map_map. reflexivity. Qed.

Lemma rc_codes_length w : length (rc_codes w) = length w.
Proof. unfold rc_codes. now rewrite rev_length, map_length. Qed.

(* w heads rc(u)  iff  rc(w) ends u *)
Lemma occurs_here_rc w u : length w <= length u ->
  occurs_here w (rc u) = true <-> occurs_here (rc_codes w) (skipn (length u - length w) u) = true.
Proof.
  intros Hl. rewrite !occurs_here_spec. split.
  - intros (t1 & t2 & Hr & Hw).
    assert (Hu : u = rc t2 ++ rc t1). { rewrite <- (rc_involutive u), Hr. apply rc_app. }
    assert (Hl1 : length t1 = length w) by (rewrite <- Hw; now rewrite map_length).
    exists (rc t1), []. split.
    + rewrite Hu, app_nil_r. rewrite app_length, !rc_length, Hl1.
      replace (length t2 + length w - length w) with (length (rc t2) + 0) by (rewrite rc_length; lia).
      rewrite skipn_app_ge. reflexivity.
    + rewrite map_lcode_rc. now rewrite Hw.
  - intros (t1 & t2 & Hs & Hw).
    assert (Hl1 : length t1 = length w) by (rewrite <- (rc_codes_length w), <- Hw; now rewrite map_length).
    assert (Ht2 : t2 = []).
    { apply (f_equal (@length letter)) in Hs. rewrite skipn_length, app_length in Hs. destruct t2; [reflexivity|cbn in Hs; lia]. }
    subst t2. rewrite app_nil_r in Hs.
    exists (rc t1), (rc (firstn (length u - length w) u)). split.
    + rewrite <- rc_app. f_equal. rewrite <- Hs. apply eq_sym, firstn_skipn.
    + rewrite map_lcode_rc, Hw. apply rc_codes_involutive.
Qed.

Lemma rotl_len_sub {A} (s : list A) x : x <= length s -> rotl (Z.of_nat (length s - x)) s = rotr (Z.of_nat x) s.
Proof.
  intros Hx. unfold rotl. rewrite <- (rotr_periodic (Z.of_nat x) (-1) s). f_equal. lia.
Qed.

(* the mirror position of a in the reverse complement *)
Definition mirror (n lw a : nat) : nat := (n - lw) + (n - a mod n).

Lemma site_at_rc w s a : s <> [] -> length w <= length s ->
  site_at w (rc s) a -> site_at (rc_codes w) s (mirror (length s) (length w) a).
Proof.
  intros Hs Hl H. unfold site_at in *.
  assert (Hn : length s <> 0) by (destruct s; [congruence|cbn; lia]).
  rewrite <- rc_rotr in H.
  apply occurs_here_rc in H; [|rewrite rotr_length; exact Hl]. rewrite rotr_length in H.
  unfold mirror. rewrite rotl_add_nat.
  assert (Hm : a mod length s < length s) by (apply Nat.mod_upper_bound; exact Hn).
  rewrite (rotl_len_sub s (a mod length s)) by lia.
  assert (Hr : rotr (Z.of_nat (a mod length s)) s = rotr (Z.of_nat a) s).
  { rewrite <- (rotr_mod (Z.of_nat a)). f_equal. now rewrite Nat2Z.inj_mod. }
  rewrite Hr. rewrite rotl_split by (rewrite rotr_length; lia). now apply occurs_here_app.
Qed.

Theorem occurs_once_rc w s : occurs_once (rc_codes w) s -> occurs_once w (rc s).
Proof.
  intros Hu a a' Ha Ha'. rewrite rc_length.
  destruct s as [|x s].
  { destruct w as [|c w]; [apply Hu; reflexivity|].
    unfold site_at, rotl in Ha. change (rc []) with (@nil letter) in Ha. rewrite rotr_nil in Ha. discriminate Ha. }
  set (s0 := x :: s) in *.
  assert (Hs : s0 <> []) by discriminate. set (n := length s0).
  assert (Hn : n <> 0) by (unfold n, s0; cbn; lia).
  destruct (le_lt_dec (length w) n) as [Hl|Hl].
  - pose proof (Hu _ _ (site_at_rc w s0 a Hs Hl Ha) (site_at_rc w s0 a' Hs Hl Ha')) as H. fold n in H.
    unfold mirror in H. fold n in H.
    assert (Hm : a mod n < n) by (apply Nat.mod_upper_bound; exact Hn).
    assert (Hm' : a' mod n < n) by (apply Nat.mod_upper_bound; exact Hn).
    assert (n - length w + (n - a mod n) = n - length w + (n - a' mod n)) by (apply (mod_eq_small _ _ n); lia).
    lia.
  - exfalso. unfold site_at in Ha. apply occurs_here_spec in Ha. destruct Ha as (t1 & t2 & Ht & Hw).
    apply (f_equal (@length letter)) in Ht. rewrite rotl_length, rc_length, app_length in Ht. fold n in Ht.
    rewrite <- Hw, map_length in Hl. lia.
Qed.

(* ---------- occurrences and rotation -------------------------------------------------------- *)

Lemma occurs_once_rot w s j : occurs_once w s -> occurs_once w (rotr j s).
Proof.
  intros Hu a a' Ha Ha'. rewrite rotr_length.
  destruct s as [|x s]; [rewrite rotr_nil in *; now apply Hu|]. set (s0 := x :: s) in *.
  set (n := Z.of_nat (length s0)). assert (Hn : (0 < n)%Z) by (unfold n, s0; cbn [length]; lia).
  assert (Hb : forall a, site_at w (rotr j s0) a ->
             site_at w s0 (Z.to_nat ((Z.of_nat a - j) mod n))).
  { intros b Hb. unfold site_at in *. unfold rotl in *. rewrite rotr_add in Hb.
    pose proof (Z.mod_pos_bound (Z.of_nat b - j) n Hn) as Hm. rewrite Z2Nat.id by lia.
    pose proof (Z.div_mod (Z.of_nat b - j) n ltac:(lia)) as Hd.
    rewrite <- (rotr_periodic (- ((Z.of_nat b - j) mod n)) (- ((Z.of_nat b - j) / n)) s0). fold n.
    replace (- ((Z.of_nat b - j) mod n) + - ((Z.of_nat b - j) / n) * n)%Z with (- Z.of_nat b + j)%Z by lia.
    exact Hb. }
  pose proof (Hu _ _ (Hb a Ha) (Hb a' Ha')) as H.
  pose proof (Z.mod_pos_bound (Z.of_nat a - j) n Hn) as Hm. pose proof (Z.mod_pos_bound (Z.of_nat a' - j) n Hn) as Hm'.
  rewrite !Nat.mod_small in H by (unfold n in *; lia).
  apply Z2Nat.inj in H; try lia.
  assert (E : ((Z.of_nat a - j + j) mod n = (Z.of_nat a' - j + j) mod n)%Z).
  { rewrite (Zplus_mod (Z.of_nat a - j)), (Zplus_mod (Z.of_nat a' - j)), H. reflexivity. }
  rewrite !Z.sub_add in E. unfold n in E. rewrite <- !Nat2Z.inj_mod in E. now apply Nat2Z.inj in E.
Qed.

(* ---------- the reverse complement of the module of the formal definition ---------------- *)

Lemma nucl_compl l : nucl l -> nucl (compl_l l).
Proof. unfold nucl, compl_l. cbn. destruct (lcode l); cbn; auto. Qed.

Lemma nucl_rc X : Forall nucl X -> Forall nucl (rc X).
Proof.
  intros H. unfold rc. apply Forall_rev. rewrite Forall_map. eapply Forall_impl; [|exact H]. apply nucl_compl.
Qed.

Lemma rc_cons x l : rc (x :: l) = rc l ++ [compl_l x].
Proof. unfold rc. cbn. reflexivity. Qed.

Lemma rc_module_word (S X O5 T O3 Y R B : list letter) :
  rc (S ++ X ++ O5 ++ T ++ O3 ++ Y ++ R ++ B) =
  rotr (Z.of_nat (length B)) (rc R ++ rc Y ++ rc O3 ++ rc T ++ rc O5 ++ rc X ++ rc S ++ rc B).
Proof.
  rewrite !rc_app. rewrite <- !app_assoc.
  set (body := rc R ++ rc Y ++ rc O3 ++ rc T ++ rc O5 ++ rc X ++ rc S).
  replace (rc R ++ rc Y ++ rc O3 ++ rc T ++ rc O5 ++ rc X ++ rc S ++ rc B) with (body ++ rc B)
    by (unfold body; now rewrite <- !app_assoc).
  rewrite <- (rc_length B).
  rewrite rotr_last_to_front by (rewrite app_length; lia).
  rewrite app_length. replace (length body + length (rc B) - length (rc B)) with (length body) by lia.
  rewrite skipn_app, skipn_all, Nat.sub_diag, firstn_app, firstn_all, Nat.sub_diag. cbn. now rewrite app_nil_r.
Qed.

Lemma atoms_ok_setN X : Forall nucl X -> atoms_ok (repeat setN (length X)) X.
Proof. exact (atoms_ok_repeat X). Qed.

(* C12 for the generic module class: the reverse complement of the module of the formal
   definition is accepted at every rotation and reports the overhangs exchanged and
   reverse-complemented, the target body reverse-complemented *)
Theorem strand_module e (S X O5 : list letter) t0 tmid tl (O3 Y R B : list letter) k :
  map lcode S = esite e -> map lcode R = rc_codes (esite e) -> 0 < length (esite e) ->
  length X = eoff e -> length Y = eoff e -> length O5 = eovh e -> length O3 = eovh e ->
  Forall nucl X -> Forall nucl Y -> Forall nucl O5 -> Forall nucl O3 -> nucl t0 -> Forall nucl tmid -> nucl tl ->
  let T := t0 :: tmid ++ [tl] in
  let s0 := S ++ X ++ O5 ++ T ++ O3 ++ Y ++ R ++ B in
  occurs_once (esite e) s0 -> occurs_once (rc_codes (esite e)) s0 ->
  observe (C RModule e (module_structure e)) (rotr k s0) = (true, Some O5, Some O3, Some (O5 ++ T), Some (O5 ++ T)) /\
  observe (C RModule e (module_structure e)) (rotr k (rc s0)) =
    (true, Some (rc O3), Some (rc O5), Some (rc O3 ++ rc T), Some (rc O3 ++ rc T)).
Proof.
  intros HS HR Hs LX LY L5 L3 NX NY N5 N3 N0 Nm Nl T s0 U1 U2.
  assert (Hgen : module_structure e = module_structure_sig e (atoms (repeat setN (eovh e))) (atoms (repeat setN (eovh e)))).
  { unfold module_structure. now rewrite atoms_repeat. }
  rewrite Hgen. split.
  - apply canonical_module; auto; try (now rewrite repeat_length).
    + rewrite <- L5. now apply atoms_ok_setN.
    + rewrite <- L3. now apply atoms_ok_setN.
  - unfold s0. rewrite rc_module_word, rotr_add.
    assert (HT : rc T = compl_l tl :: rc tmid ++ [compl_l t0]).
    { unfold T. rewrite rc_cons, rc_app. cbn [rc]. rewrite <- app_assoc. reflexivity. }
    rewrite HT.
    apply (canonical_module e (repeat setN (eovh e)) (repeat setN (eovh e)) (rc R) (rc Y) (rc O3)
             (compl_l tl) (rc tmid) (compl_l t0) (rc O5) (rc X) (rc S) (rc B));
      try (now rewrite repeat_length); try (rewrite rc_length; assumption); auto using nucl_rc, nucl_compl.
    + rewrite map_lcode_rc, HR. apply rc_codes_involutive.
    + rewrite map_lcode_rc. now rewrite HS.
    + rewrite <- L3, <- (rc_length O3). apply atoms_ok_setN. now apply nucl_rc.
    + rewrite <- L5, <- (rc_length O5). apply atoms_ok_setN. now apply nucl_rc.
    + rewrite <- HT. rewrite <- (rotl_rotr (Z.of_nat (length B))
         (rc R ++ rc Y ++ rc O3 ++ rc T ++ rc O5 ++ rc X ++ rc S ++ rc B)).
      rewrite <- rc_module_word. unfold rotl. apply occurs_once_rot. apply occurs_once_rc. exact U2.
    + rewrite <- HT. rewrite <- (rotl_rotr (Z.of_nat (length B))
         (rc R ++ rc Y ++ rc O3 ++ rc T ++ rc O5 ++ rc X ++ rc S ++ rc B)).
      rewrite <- rc_module_word. unfold rotl. apply occurs_once_rot. apply occurs_once_rc.
      rewrite rc_codes_involutive. exact U1.
Qed.
