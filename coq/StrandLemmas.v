(* StrandLemmas.v — DNA has no preferred strand (C12): occurrences mirror under reverse
   complement; the reverse complement of the module / vector of the formal definition is a
   rotation of the module / vector built from the reverse-complemented pieces. *)
From MV Require Import Base RotLemmas Record RecordLemmas Regex RegexLemmas Shape ShapeLemmas Typing TypingLemmas
                       TotalLemmas ShapeTyping PartLemmas Anchors Canonical.

Local Open Scope nat_scope.

(* ---------- occurrences ---------------------------------------------------------------- *)

Lemma occurs_here_spec w t : occurs_here w t = true <-> exists t1 t2, t = t1 ++ t2 /\ map lcode t1 = w.
Proof.
  revert t. induction w as [|x w IH]; intros t.
  - split; [intros _; exists [], t; auto|reflexivity].
  - destruct t as [|y t]; cbn.
    + split; [discriminate|]. intros ([|? ?] & t2 & H1 & H2); discriminate.
    + split.
      * intros H. apply andb_prop in H. destruct H as [Hx Hw]. apply IH in Hw. destruct Hw as (t1 & t2 & -> & <-).
        exists (y :: t1), t2. split; [reflexivity|]. cbn. f_equal. destruct x, (lcode y); try discriminate Hx; reflexivity.
      * intros (t1 & t2 & H1 & H2). destruct t1 as [|z t1]; [discriminate|]. cbn in *. inversion H1; subst. inversion H2; subst.
        apply andb_true_intro. split; [destruct (lcode z); reflexivity|]. apply IH. eauto.
Qed.

Lemma rc_codes_involutive w : rc_codes (rc_codes w) = w.
Proof.
  unfold rc_codes. rewrite map_rev, rev_involutive, map_map. rewrite <- (map_id w) at 2. apply map_ext. intros c. apply compl_involutive.
Qed.

Lemma map_lcode_rc u : map lcode (rc u) = rc_codes (map lcode u).
Proof. unfold rc, rc_codes. rewrite map_rev, !map_map. reflexivity. Qed.

Lemma rc_codes_length w : length (rc_codes w) = length w.
Proof. unfold rc_codes. now rewrite rev_length, map_length. Qed.

(* w heads rc(u)  iff  rc(w) ends u *)
Lemma occurs_here_rc w u : length w <= length u ->
  occurs_here w (rc u) = true <-> occurs_here (rc_codes w) (skipn (length u - length w) u) = true.
Proof.
  intros Hl. rewrite !occurs_here_spec. split.
  - intros (t1 & t2 & Hr & Hw).
    assert (Hu : u = rc t2 ++ rc t1). { rewrite <- (rc_involutive u), Hr. apply rc_app. }
    assert (Hl1 : length t1 = length w) by (rewrite <- Hw; now rewrite map_length).
    exists (rc t1), []. split.
    + rewrite Hu, app_nil_r. rewrite app_length, !rc_length, Hl1.
      replace (length t2 + length w - length w) with (length (rc t2) + 0) by (rewrite rc_length; lia).
      rewrite skipn_app_ge. reflexivity.
    + rewrite map_lcode_rc. now rewrite Hw.
  - intros (t1 & t2 & Hs & Hw).
    assert (Hl1 : length t1 = length w) by (rewrite <- (rc_codes_length w), <- Hw; now rewrite map_length).
    assert (Ht2 : t2 = []).
    { apply (f_equal (@length letter)) in Hs. rewrite skipn_length, app_length in Hs. destruct t2; [reflexivity|cbn in Hs; lia]. }
    subst t2. rewrite app_nil_r in Hs.
    exists (rc t1), (rc (firstn (length u - length w) u)). split.
    + rewrite <- rc_app. f_equal. rewrite <- Hs. apply eq_sym, firstn_skipn.
    + rewrite map_lcode_rc, Hw. apply rc_codes_involutive.
Qed.

Lemma rotl_len_sub {A} (s : list A) x : x <= length s -> rotl (Z.of_nat (length s - x)) s = rotr (Z.of_nat x) s.
Proof.
  intros Hx. unfold rotl. rewrite <- (rotr_periodic (Z.of_nat x) (-1) s). f_equal. lia.
Qed.

(* the mirror position of a in the reverse complement *)
Definition mirror (n lw a : nat) : nat := (n - lw) + (n - a mod n).

Lemma site_at_rc w s a : s <> [] -> length w <= length s ->
  site_at w (rc s) a -> site_at (rc_codes w) s (mirror (length s) (length w) a).
Proof.
  intros Hs Hl H. unfold site_at in *.
  assert (Hn : length s <> 0) by (destruct s; [congruence|cbn; lia]).
  rewrite <- rc_rotr in H.
  apply occurs_here_rc in H; [|rewrite rotr_length; exact Hl]. rewrite rotr_length in H.
  unfold mirror. rewrite rotl_add_nat.
  assert (Hm : a mod length s < length s) by (apply Nat.mod_upper_bound; exact Hn).
  rewrite (rotl_len_sub s (a mod length s)) by lia.
  assert (Hr : rotr (Z.of_nat (a mod length s)) s = rotr (Z.of_nat a) s).
  { rewrite <- (rotr_mod (Z.of_nat a)). f_equal. now rewrite Nat2Z.inj_mod. }
  rewrite Hr. rewrite rotl_split by (rewrite rotr_length; lia). now apply occurs_here_app.
Qed.

Theorem occurs_once_rc w s : occurs_once (rc_codes w) s -> occurs_once w (rc s).
Proof.
  intros Hu a a' Ha Ha'. rewrite rc_length.
  destruct s as [|x s].
  { destruct w as [|c w]; [apply Hu; reflexivity|].
    unfold site_at, rotl in Ha. change (rc []) with (@nil letter) in Ha. rewrite rotr_nil in Ha. discriminate Ha. }
  set (s0 := x :: s) in *.
  assert (Hs : s0 <> []) by discriminate. set (n := length s0).
  assert (Hn : n <> 0) by (unfold n, s0; cbn; lia).
  destruct (le_lt_dec (length w) n) as [Hl|Hl].
  - pose proof (Hu _ _ (site_at_rc w s0 a Hs Hl Ha) (site_at_rc w s0 a' Hs Hl Ha')) as H. fold n in H.
    unfold mirror in H. fold n in H.
    assert (Hm : a mod n < n) by (apply Nat.mod_upper_bound; exact Hn).
    assert (Hm' : a' mod n < n) by (apply Nat.mod_upper_bound; exact Hn).
    assert (n - length w + (n - a mod n) = n - length w + (n - a' mod n)) by (apply (mod_eq_small _ _ n); lia).
    lia.
  - exfalso. unfold site_at in Ha. apply occurs_here_spec in Ha. destruct Ha as (t1 & t2 & Ht & Hw).
    apply (f_equal (@length letter)) in Ht. rewrite rotl_length, rc_length, app_length in Ht. fold n in Ht.
    rewrite <- Hw, map_length in Hl. lia.
Qed.

(* ---------- occurrences and rotation -------------------------------------------------------- *)

Lemma occurs_once_rot w s j : occurs_once w s -> occurs_once w (rotr j s).
Proof.
  intros Hu a a' Ha Ha'. rewrite rotr_length.
  destruct s as [|x s]; [rewrite rotr_nil in *; now apply Hu|]. set (s0 := x :: s) in *.
  set (n := Z.of_nat (length s0)). assert (Hn : (0 < n)%Z) by (unfold n, s0; cbn [length]; lia).
  assert (Hb : forall a, site_at w (rotr j s0) a ->
             site_at w s0 (Z.to_nat ((Z.of_nat a - j) mod n))).
  { intros b Hb. unfold site_at in *. unfold rotl in *. rewrite rotr_add in Hb.
    pose proof (Z.mod_pos_bound (Z.of_nat b - j) n Hn) as Hm. rewrite Z2Nat.id by lia.
    pose proof (Z.div_mod (Z.of_nat b - j) n ltac:(lia)) as Hd.
    rewrite <- (rotr_periodic (- ((Z.of_nat b - j) mod n)) (- ((Z.of_nat b - j) / n)) s0). fold n.
    replace (- ((Z.of_nat b - j) mod n) + - ((Z.of_nat b - j) / n) * n)%Z with (- Z.of_nat b + j)%Z by lia.
    exact Hb. }
  pose proof (Hu _ _ (Hb a Ha) (Hb a' Ha')) as H.
  pose proof (Z.mod_pos_bound (Z.of_nat a - j) n Hn) as Hm. pose proof (Z.mod_pos_bound (Z.of_nat a' - j) n Hn) as Hm'.
  rewrite !Nat.mod_small in H by (unfold n in *; lia).
  apply Z2Nat.inj in H; try lia.
  assert (E : ((Z.of_nat a - j + j) mod n = (Z.of_nat a' - j + j) mod n)%Z).
  { rewrite (Zplus_mod (Z.of_nat a - j)), (Zplus_mod (Z.of_nat a' - j)), H. reflexivity. }
  rewrite !Z.sub_add in E. unfold n in E. rewrite <- !Nat2Z.inj_mod in E. now apply Nat2Z.inj in E.
Qed.

(* ---------- the reverse complement of the module of the formal definition ---------------- *)

Lemma nucl_compl l : nucl l -> nucl (compl_l l).
Proof. unfold nucl, compl_l. cbn. destruct (lcode l); cbn; auto. Qed.

Lemma nucl_rc X : Forall nucl X -> Forall nucl (rc X).
Proof.
  intros H. unfold rc. apply Forall_rev. rewrite Forall_map. eapply Forall_impl; [|exact H]. apply nucl_compl.
Qed.

Lemma rc_cons x l : rc (x :: l) = rc l ++ [compl_l x].
Proof. unfold rc. cbn. reflexivity. Qed.

Lemma rc_module_word (S X O5 T O3 Y R B : list letter) :
  rc (S ++ X ++ O5 ++ T ++ O3 ++ Y ++ R ++ B) =
  rotr (Z.of_nat (length B)) (rc R ++ rc Y ++ rc O3 ++ rc T ++ rc O5 ++ rc X ++ rc S ++ rc B).
Proof.
  rewrite !rc_app. rewrite <- !app_assoc.
  set (body := rc R ++ rc Y ++ rc O3 ++ rc T ++ rc O5 ++ rc X ++ rc S).
  replace (rc R ++ rc Y ++ rc O3 ++ rc T ++ rc O5 ++ rc X ++ rc S ++ rc B) with (body ++ rc B)
    by (unfold body; now rewrite <- !app_assoc).
  rewrite <- (rc_length B).
  rewrite rotr_last_to_front by (rewrite app_length; lia).
  rewrite app_length. replace (length body + length (rc B) - length (rc B)) with (length body) by lia.
  rewrite skipn_app, skipn_all, Nat.sub_diag, firstn_app, firstn_all, Nat.sub_diag. cbn. now rewrite app_nil_r.
Qed.

Lemma atoms_ok_setN X : Forall nucl X -> atoms_ok (repeat setN (length X)) X.
Proof. exact (atoms_ok_repeat X). Qed.

(* C12 for the generic module class: the reverse complement of the module of the formal
   definition is accepted at every rotation and reports the overhangs exchanged and
   reverse-complemented, the target body reverse-complemented *)
Theorem strand_module e (S X O5 : list letter) t0 tmid tl (O3 Y R B : list letter) k :
  map lcode S = esite e -> map lcode R = rc_codes (esite e) -> 0 < length (esite e) ->
  length X = eoff e -> length Y = eoff e -> length O5 = eovh e -> length O3 = eovh e ->
  Forall nucl X -> Forall nucl Y -> Forall nucl O5 -> Forall nucl O3 -> nucl t0 -> Forall nucl tmid -> nucl tl ->
  let T := t0 :: tmid ++ [tl] in
  let s0 := S ++ X ++ O5 ++ T ++ O3 ++ Y ++ R ++ B in
  occurs_once (esite e) s0 -> occurs_once (rc_codes (esite e)) s0 ->
  observe (C RModule e (module_structure e)) (rotr k s0) = (true, Some O5, Some O3, Some (O5 ++ T), Some (O5 ++ T)) /\
  observe (C RModule e (module_structure e)) (rotr k (rc s0)) =
    (true, Some (rc O3), Some (rc O5), Some (rc O3 ++ rc T), Some (rc O3 ++ rc T)).
Proof.
  intros HS HR Hs LX LY L5 L3 NX NY N5 N3 N0 Nm Nl T s0 U1 U2.
  assert (Hgen : module_structure e = module_structure_sig e (atoms (repeat setN (eovh e))) (atoms (repeat setN (eovh e)))).
  { unfold module_structure. now rewrite atoms_repeat. }
  rewrite Hgen. split.
  - apply canonical_module; auto; try (now rewrite repeat_length).
    + rewrite <- L5. now apply atoms_ok_setN.
    + rewrite <- L3. now apply atoms_ok_setN.
  - unfold s0. rewrite rc_module_word, rotr_add.
    assert (HT : rc T = compl_l tl :: rc tmid ++ [compl_l t0]).
    { unfold T. rewrite rc_cons, rc_app. cbn [rc]. rewrite <- app_assoc. reflexivity. }
    rewrite HT.
    apply (canonical_module e (repeat setN (eovh e)) (repeat setN (eovh e)) (rc R) (rc Y) (rc O3)
             (compl_l tl) (rc tmid) (compl_l t0) (rc O5) (rc X) (rc S) (rc B));
      try (now rewrite repeat_length); try (rewrite rc_length; assumption); auto using nucl_rc, nucl_compl.
    + rewrite map_lcode_rc, HR. apply rc_codes_involutive.
    + rewrite map_lcode_rc. now rewrite HS.
    + rewrite <- L3, <- (rc_length O3). apply atoms_ok_setN. now apply nucl_rc.
    + rewrite <- L5, <- (rc_length O5). apply atoms_ok_setN. now apply nucl_rc.
    + rewrite <- HT. rewrite <- (rotl_rotr (Z.of_nat (length B))
         (rc R ++ rc Y ++ rc O3 ++ rc T ++ rc O5 ++ rc X ++ rc S ++ rc B)).
      rewrite <- rc_module_word. unfold rotl. apply occurs_once_rot. apply occurs_once_rc. exact U2.
    + rewrite <- HT. rewrite <- (rotl_rotr (Z.of_nat (length B))
         (rc R ++ rc Y ++ rc O3 ++ rc T ++ rc O5 ++ rc X ++ rc S ++ rc B)).
      rewrite <- rc_module_word. unfold rotl. apply occurs_once_rot. apply occurs_once_rc.
      rewrite rc_codes_involutive. exact U1.
Qed.

(* ---------- the reverse complement of the vector of the formal definition ---------------- *)

Lemma rc_vector_word bl (Odn Y R P S X Oup : list letter) bf (Bmid : list letter) :
  rc ([bl] ++ Odn ++ Y ++ R ++ P ++ S ++ X ++ Oup ++ [bf] ++ Bmid) =
  rotr (Z.of_nat (length Bmid))
       ([compl_l bf] ++ rc Oup ++ rc X ++ rc S ++ rc P ++ rc R ++ rc Y ++ rc Odn ++ [compl_l bl] ++ rc Bmid).
Proof.
  rewrite !rc_app. rewrite <- !app_assoc.
  change (rc [bf]) with [compl_l bf]. change (rc [bl]) with [compl_l bl].
  set (body := [compl_l bf] ++ rc Oup ++ rc X ++ rc S ++ rc P ++ rc R ++ rc Y ++ rc Odn ++ [compl_l bl]).
  replace ([compl_l bf] ++ rc Oup ++ rc X ++ rc S ++ rc P ++ rc R ++ rc Y ++ rc Odn ++ [compl_l bl] ++ rc Bmid)
    with (body ++ rc Bmid) by (unfold body; now rewrite <- !app_assoc).
  rewrite <- (rc_length Bmid).
  rewrite rotr_last_to_front by (rewrite app_length; lia).
  rewrite app_length. replace (length body + length (rc Bmid) - length (rc Bmid)) with (length body) by lia.
  rewrite skipn_app, skipn_all, Nat.sub_diag, firstn_app, firstn_all, Nat.sub_diag. cbn [skipn firstn]. rewrite app_nil_r.
  unfold body. now rewrite <- !app_assoc.
Qed.

(* C12 for the generic vector class *)
Theorem strand_vector e bl (Odn Y R P S X Oup : list letter) bf (Bmid : list letter) k :
  map lcode S = esite e -> map lcode R = rc_codes (esite e) -> 0 < length (esite e) ->
  length X = eoff e -> length Y = eoff e -> length Odn = eovh e -> length Oup = eovh e ->
  Forall nucl X -> Forall nucl Y -> Forall nucl P -> Forall nucl Odn -> Forall nucl Oup -> nucl bl -> nucl bf ->
  let s0 := [bl] ++ Odn ++ Y ++ R ++ P ++ S ++ X ++ Oup ++ [bf] ++ Bmid in
  occurs_once (esite e) s0 -> occurs_once (rc_codes (esite e)) s0 ->
  observe (C RVector e (vector_structure e)) (rotr k s0) =
    (true, Some Oup, Some Odn, Some (Oup ++ [bf] ++ Bmid ++ [bl]), Some (Odn ++ Y ++ R ++ P ++ S ++ X)) /\
  observe (C RVector e (vector_structure e)) (rotr k (rc s0)) =
    (true, Some (rc Odn), Some (rc Oup), Some (rc Odn ++ [compl_l bl] ++ rc Bmid ++ [compl_l bf]),
     Some (rc Oup ++ rc X ++ rc S ++ rc P ++ rc R ++ rc Y)).
Proof.
  intros HS HR Hs LX LY Ld Lu NX NY NP Nd Nu Nbl Nbf s0 U1 U2.
  assert (Hgen : vector_structure e = vector_structure_sig e (atoms (repeat setN (eovh e))) (atoms (repeat setN (eovh e)))).
  { unfold vector_structure. now rewrite atoms_repeat. }
  rewrite Hgen. split.
  - apply canonical_vector; auto; try (now rewrite repeat_length).
    + rewrite <- Ld. now apply atoms_ok_setN.
    + rewrite <- Lu. now apply atoms_ok_setN.
  - unfold s0. rewrite rc_vector_word, rotr_add.
    apply (canonical_vector e (repeat setN (eovh e)) (repeat setN (eovh e)) (compl_l bf) (rc Oup) (rc X) (rc S) (rc P)
             (rc R) (rc Y) (rc Odn) (compl_l bl) (rc Bmid));
      try (now rewrite repeat_length); try (rewrite rc_length; assumption); auto using nucl_rc, nucl_compl.
    + rewrite map_lcode_rc, HR. apply rc_codes_involutive.
    + rewrite map_lcode_rc. now rewrite HS.
    + rewrite <- Lu, <- (rc_length Oup). apply atoms_ok_setN. now apply nucl_rc.
    + rewrite <- Ld, <- (rc_length Odn). apply atoms_ok_setN. now apply nucl_rc.
    + rewrite <- (rotl_rotr (Z.of_nat (length Bmid))
         ([compl_l bf] ++ rc Oup ++ rc X ++ rc S ++ rc P ++ rc R ++ rc Y ++ rc Odn ++ [compl_l bl] ++ rc Bmid)).
      rewrite <- rc_vector_word. unfold rotl. apply occurs_once_rot. apply occurs_once_rc. exact U2.
    + rewrite <- (rotl_rotr (Z.of_nat (length Bmid))
         ([compl_l bf] ++ rc Oup ++ rc X ++ rc S ++ rc P ++ rc R ++ rc Y ++ rc Odn ++ [compl_l bl] ++ rc Bmid)).
      rewrite <- rc_vector_word. unfold rotl. apply occurs_once_rot. apply occurs_once_rc.
      rewrite rc_codes_involutive. exact U1.
Qed.

(* ---------- assembling the reverse complements --------------------------------------------- *)
From MV Require Import Assembly AssemblyLemmas.
From Coq Require Import Permutation.

(* a module / a vector by its letters: overhangs and body *)
Record smod := SM { sid : nat; so5 : list letter; sbody : list letter; so3 : list letter }.
Record svec := SV { sup : list letter; svbody : list letter; sdn : list letter }.

Definition tmod_of (m : smod) : @tmod (list code) := TM (sid m) (okey (so5 m)) (okey (so3 m)) (so5 m ++ sbody m).
Definition tvec_of (v : svec) : @tvec (list code) := TV (okey (sup v)) (okey (sdn v)) (sup v ++ svbody v).

(* what the reverse complements of the plasmids report (C12_module / strand_vector) *)
Definition rc_smod (m : smod) : smod := SM (sid m) (rc (so3 m)) (rc (sbody m)) (rc (so5 m)).
Definition rc_svec (v : svec) : svec := SV (rc (sdn v)) (rc (svbody v)) (rc (sup v)).

Lemma okey_rc w : okey (rc w) = rc_codes (okey w).
Proof. unfold okey. apply map_lcode_rc. Qed.

(* consecutive overhang keys: a -> ... -> b along the list of (start, end) keys *)
Fixpoint path (a : list code) (l : list (list code * list code)) (b : list code) : Prop :=
  match l with
  | [] => a = b
  | (u, d) :: r => u = a /\ path d r b
  end.

Definition keys_of (m : smod) : list code * list code := (okey (so5 m), okey (so3 m)).
Definition keys_rc (m : smod) : list code * list code := (rc_codes (okey (so3 m)), rc_codes (okey (so5 m))).

Lemma path_snoc l : forall a u d b, path a l u -> d = b -> path a (l ++ [(u, d)]) b.
Proof.
  induction l as [|[x y] l IH]; intros a u d b Hp Hd; cbn in *.
  - subst. auto.
  - destruct Hp as [Hx Hp]. split; [exact Hx|]. now apply IH.
Qed.

(* the reverse-complemented modules chain in the opposite order, from rc(b) to rc(a) *)
Lemma path_rev cs : forall a b, path a (map keys_of cs) b ->
  path (rc_codes b) (map keys_rc (rev cs)) (rc_codes a).
Proof.
  induction cs as [|m cs IH]; intros a b Hp; cbn in *.
  - now subst.
  - destruct Hp as [Hm Hp]. rewrite map_app. cbn [map]. unfold keys_rc at 2.
    apply path_snoc; [now apply IH|now rewrite Hm].
Qed.

(* the walk follows a path as long as it does not meet the vector's upstream key early *)
Fixpoint linked (a : list code) (c : list (@tmod (list code))) (b : list code) : Prop :=
  match c with
  | [] => a = b
  | m :: c' => a <> b /\ mup m = a /\ linked (mdown m) c' b
  end.

Lemma path_linked (f : smod -> @tmod (list code)) (kf : smod -> list code * list code) cs :
  (forall m, mup (f m) = fst (kf m) /\ mdown (f m) = snd (kf m)) ->
  forall a b, path a (map kf cs) b -> Forall (fun m => fst (kf m) <> b) cs -> linked a (map f cs) b.
Proof.
  intros Hk. induction cs as [|m cs IH]; intros a b Hp Hf; cbn in *; [exact Hp|].
  destruct (kf m) as [u d] eqn:E. destruct Hp as [Hu Hp]. inversion Hf as [|? ? Hm Hf']; subst.
  destruct (Hk m) as [H1 H2]. rewrite E in H1, H2, Hm. cbn in *.
  split; [congruence|]. split; [exact H1|]. rewrite H2. now apply IH.
Qed.

Lemma linked_Chain c : forall ms a b, linked a c b -> Permutation ms c -> Chain ms a b c [].
Proof.
  induction c as [|m c IH]; intros ms a b Hl Hp; cbn in Hl.
  - subst. apply Permutation_sym, Permutation_nil in Hp. subst. constructor.
  - destruct Hl as (Hab & Hm & Hl).
    assert (Hin : In m ms) by (eapply Permutation_in; [symmetry; exact Hp|now left]).
    apply in_split in Hin. destruct Hin as [l1 [l2 ->]].
    apply Permutation_sym, Permutation_cons_app_inv, Permutation_sym in Hp.
    constructor; auto.
Qed.

(* ---------- the two product words --------------------------------------------------------- *)

Definition frag (m : smod) : list letter := so5 m ++ sbody m.
Definition frag_rc (m : smod) : list letter := rc (so3 m) ++ rc (sbody m).

Lemma same_codes_okey a b : okey a = okey b -> same_codes a b.
Proof. exact (fun H => H). Qed.

Lemma same_codes_rc a b : same_codes a b -> same_codes (rc a) (rc b).
Proof. unfold same_codes. intros H. now rewrite !map_lcode_rc, H. Qed.

Lemma same_codes_trans a b c : same_codes a b -> same_codes b c -> same_codes a c.
Proof. unfold same_codes. congruence. Qed.

Lemma same_codes_sym a b : same_codes a b -> same_codes b a.
Proof. unfold same_codes. congruence. Qed.

(* shifting the junction overhangs by one module: with RS the chain in reverse order *)
Lemma shift_overhangs RS : forall (y z : list letter) k kz,
  path k (map keys_rc RS) kz -> okey y = k -> okey z = kz ->
  same_codes (concat (map frag_rc RS) ++ z)
             (y ++ concat (map (fun m => rc (sbody m) ++ rc (so5 m)) RS)).
Proof.
  induction RS as [|m RS IH]; intros y z k kz Hp Hy Hz; cbn in *.
  - rewrite app_nil_r. subst. apply same_codes_sym. unfold same_codes, okey in *. congruence.
  - destruct Hp as [Hm Hp]. unfold frag_rc at 1. rewrite <- !app_assoc.
    apply same_codes_app.
    + unfold same_codes. rewrite map_lcode_rc. unfold okey in *. congruence.
    + apply same_codes_app; [reflexivity|].
      apply (IH (rc (so5 m)) z _ kz Hp); [now rewrite okey_rc|exact Hz].
Qed.

Lemma rc_concat_frags cs :
  rc (concat (map frag cs)) = concat (map (fun m => rc (sbody m) ++ rc (so5 m)) (rev cs)).
Proof.
  induction cs as [|m cs IH]; [reflexivity|]. cbn [map concat rev].
  rewrite rc_app, IH, map_app, concat_app. cbn [map concat]. unfold frag. now rewrite rc_app, app_nil_r.
Qed.

(* C12, assembly level: if the modules chain from the vector's downstream to its upstream
   overhang (all used), ids distinct, and the overhang sets of both strands are clash-free, then
   assembling the reverse complements succeeds with the modules in the opposite order, and its
   product is, up to letter case at the junctions, a rotation of the reverse complement of the product *)
Theorem strand_assembly (v : svec) (cs ms : list smod) :
  Permutation ms cs -> NoDup (map sid ms) ->
  path (okey (sdn v)) (map keys_of cs) (okey (sup v)) ->
  okey (sup v) <> okey (sdn v) ->
  Forall (fun m => okey (so5 m) <> okey (sup v)) cs ->
  Forall (fun m => okey (so3 m) <> okey (sdn v)) cs ->
  clash_free rc_codes (map tmod_of ms) -> clash_free rc_codes (map tmod_of (map rc_smod ms)) ->
  let w := concat (map frag cs) ++ (sup v ++ svbody v) in
  let w' := concat (map frag_rc (rev cs)) ++ (rc (sdn v) ++ rc (svbody v)) in
  dna_assemble (tvec_of v) (map tmod_of ms) = Product w (map sid cs) [] /\
  dna_assemble (tvec_of (rc_svec v)) (map tmod_of (map rc_smod ms)) = Product w' (map sid (rev cs)) [] /\
  same_codes w' (rotl (Z.of_nat (length (rc (svbody v)))) (rc w)).
Proof.
  intros Hperm Hid Hpath Hv F5 F3 CF CF' w w'.
  assert (Hids : forall l : list smod, map mid (map tmod_of l) = map sid l) by (intros l; rewrite map_map; reflexivity).
  assert (Hids' : forall l : list smod, map mid (map tmod_of (map rc_smod l)) = map sid l) by (intros l; rewrite !map_map; reflexivity).
  split; [|split].
  - (* forward *)
    assert (Hl : linked (okey (sdn v)) (map tmod_of cs) (okey (sup v))).
    { apply (path_linked tmod_of keys_of); auto. }
    pose proof (linked_Chain _ (map tmod_of ms) _ _ Hl (Permutation_map _ Hperm)) as Hc.
    pose proof (assemble_chain codes_eqb rc_codes codes_eqb_spec (tvec_of v) (map tmod_of ms) _ _
                  ltac:(rewrite Hids; exact Hid) Hv CF Hc) as H.
    unfold dna_assemble. rewrite H. unfold w. f_equal.
    + f_equal. rewrite map_map. reflexivity.
    + apply Hids.
  - (* reverse strand *)
    assert (Hl : linked (okey (sup (rc_svec v) ) ) [] (okey (sup (rc_svec v)))) by reflexivity.
    assert (Hp' : path (rc_codes (okey (sup v))) (map keys_rc (rev cs)) (rc_codes (okey (sdn v)))) by now apply path_rev.
    assert (Hl' : linked (rc_codes (okey (sup v))) (map (fun m => tmod_of (rc_smod m)) (rev cs)) (rc_codes (okey (sdn v)))).
    { apply (path_linked (fun m => tmod_of (rc_smod m)) keys_rc).
      - intros m. cbn. now rewrite !okey_rc.
      - exact Hp'.
      - apply Forall_rev. eapply Forall_impl; [|exact F3]. intros m Hm. cbn. intros E. apply Hm.
        rewrite <- (rc_codes_involutive (okey (so3 m))), E. apply rc_codes_involutive. }
    assert (Hperm' : Permutation (map tmod_of (map rc_smod ms)) (map (fun m => tmod_of (rc_smod m)) (rev cs))).
    { rewrite map_map. apply Permutation_map. rewrite Hperm. apply Permutation_rev. }
    pose proof (linked_Chain _ _ _ _ Hl' Hperm') as Hc.
    assert (Hv' : vup (tvec_of (rc_svec v)) <> vdown (tvec_of (rc_svec v))).
    { cbn. rewrite !okey_rc. intros E. apply Hv. symmetry.
      rewrite <- (rc_codes_involutive (okey (sdn v))), E. apply rc_codes_involutive. }
    assert (Hc2 : Chain (map tmod_of (map rc_smod ms)) (vdown (tvec_of (rc_svec v))) (vup (tvec_of (rc_svec v)))
                        (map (fun m => tmod_of (rc_smod m)) (rev cs)) []).
    { cbn. rewrite !okey_rc. exact Hc. }
    pose proof (assemble_chain codes_eqb rc_codes codes_eqb_spec (tvec_of (rc_svec v)) _ _ _
                  ltac:(rewrite Hids'; exact Hid) Hv' CF' Hc2) as H.
    unfold dna_assemble. rewrite H. unfold w'. f_equal.
    + f_equal. rewrite map_map. reflexivity.
    + rewrite map_map. reflexivity.
  - (* the two words *)
    unfold w, w'. rewrite !rc_app, rc_concat_frags. rewrite <- !app_assoc.
    rewrite rotl_app. rewrite app_assoc.
    apply same_codes_app; [|reflexivity].
    apply (shift_overhangs (rev cs) (rc (sup v)) (rc (sdn v)) (rc_codes (okey (sup v))) (rc_codes (okey (sdn v))));
      [now apply path_rev|apply okey_rc|apply okey_rc].
Qed.
