(* SrcEquivTranscribe.v — DNARegex._transcribe as regenerated from regex.py (the "(?i)" prefix, one
   dict lookup per character of the pattern, the join): the text it hands to re.compile, read the
   way Python's re reads this fragment of its syntax (a bracketed class of letters or a single
   letter, optionally followed by * or *?, and parentheses), is the pattern that
   SrcEquivStructure.sch_tok reads directly off the structure text.  Hence the structure theorems
   of SrcEquivStructure.v hold of the compiled text, not of an assumed per-letter reading. *)
From MV Require Import Base Regex Typing Py PyObj SrcEquivStructure.
From MV.Gen Require Import Lettermap Src.
From Coq Require Import Lia String Ascii.
Local Open Scope list_scope.

(* ---------- the regular-expression text as re reads it ------------------------------------------------ *)

Inductive rtok := RSet (s : cset) | ROpen | RClose | RStar | RQuest.

(* characters to tokens: [ letters ] is one class, a letter outside brackets is the class of itself *)
Fixpoint re_lex (cur : option cset) (s : pystr) : option (list rtok) :=
  match s with
  | [] => match cur with None => Some [] | Some _ => None end
  | t :: r =>
    match cur with
    | Some acc =>
      match t with
      | SL c => re_lex (Some (acc ++ [c])) r
      | SOther "]"%char => match acc with [] => None | _ => option_map (cons (RSet acc)) (re_lex None r) end
      | _ => None
      end
    | None =>
      match t with
      | SL c => option_map (cons (RSet [c])) (re_lex None r)
      | SOther "["%char => re_lex (Some []) r
      | SOpen => option_map (cons ROpen) (re_lex None r)
      | SClose => option_map (cons RClose) (re_lex None r)
      | SStar => option_map (cons RStar) (re_lex None r)
      | SQuest => option_map (cons RQuest) (re_lex None r)
      | _ => None
      end
    end
  end.

(* tokens to pattern items: X, X*, X*? (lazy), ( and ) *)
Fixpoint re_items (ts : list rtok) : option pattern :=
  match ts with
  | [] => Some []
  | RSet c :: r =>
    match r with
    | RStar :: r' =>
      match r' with
      | RQuest :: r'' => option_map (cons (StarL c)) (re_items r'')
      | _ => option_map (cons (StarG c)) (re_items r')
      end
    | _ => option_map (cons (Atom c)) (re_items r)
    end
  | ROpen :: r => option_map (cons Open) (re_items r)
  | RClose :: r => option_map (cons Close) (re_items r)
  | _ => None
  end.

(* the whole text: the inline flag group (?i) first *)
Definition re_read (t : pystr) : option pattern :=
  match t with
  | SOpen :: SQuest :: SOther "i"%char :: SClose :: r =>
    match re_lex None r with Some ts => re_items ts | None => None end
  | _ => None
  end.

(* ---------- the regenerated loop -------------------------------------------------------------------- *)

Definition tr1 (a : sch) : pystr := lettermap_get a a.

Lemma for_append {X Y} (f : X -> Y) xs acc :
  py_for0 xs acc (fun x t => let t := t ++ [f x] in Ok t) = Ok (acc ++ map f xs).
Proof.
  revert acc. induction xs as [|x r IH]; intros acc; cbn [py_for0 map]; [now rewrite app_nil_r|].
  rewrite IH, <- app_assoc. reflexivity.
Qed.

Lemma transcribe_text s :
  DNARegex_transcribe tt s = Ok (sch_of_string "(?i)" ++ flat_map tr1 s).
Proof.
  unfold DNARegex_transcribe. rewrite (for_append (fun l => lettermap_get l l)). cbn [bind].
  cbn [List.concat app]. f_equal. f_equal. rewrite flat_map_concat_map. reflexivity.
Qed.

(* ---------- one character of the pattern is one token of the text ------------------------------------ *)

Definition lx (a : sch) : option rtok :=
  match a with
  | SL c => Some (RSet (codes_of c))
  | SOpen => Some ROpen | SClose => Some RClose | SStar => Some RStar | SQuest => Some RQuest
  | _ => None
  end.

Fixpoint lx_all (s : pystr) : option (list rtok) :=
  match s with
  | [] => Some []
  | a :: r => match lx a with Some t => option_map (cons t) (lx_all r) | None => None end
  end.

Lemma lex_tr1 a t rest : lx a = Some t -> re_lex None (tr1 a ++ rest) = option_map (cons t) (re_lex None rest).
Proof.
  destruct a as [c| | | | | | |x]; cbn [lx]; intros H; inversion H; subst t; clear H;
    try (cbn; reflexivity).
  destruct c; cbn; reflexivity.
Qed.

Lemma lex_all s ts : lx_all s = Some ts -> re_lex None (flat_map tr1 s) = Some ts.
Proof.
  revert ts. induction s as [|a r IH]; cbn [lx_all flat_map]; intros ts H.
  - inversion H. reflexivity.
  - destruct (lx a) as [t|] eqn:Ha; [|discriminate].
    destruct (lx_all r) as [tr|] eqn:Hr; [|discriminate]. inversion H; subst ts.
    rewrite (lex_tr1 a t _ Ha), (IH tr eq_refl). reflexivity.
Qed.

(* ---------- reading the tokens is reading the structure text ----------------------------------------- *)

Definition rd (s : pystr) : option pattern :=
  match lx_all s with Some ts => re_items ts | None => None end.

Lemma rd_nil : rd [] = Some [].
Proof. reflexivity. Qed.

Lemma rd_cons_simple a t r :
  lx a = Some t ->
  rd (a :: r) = match lx_all r with Some ts => re_items (t :: ts) | None => None end.
Proof. intros H. unfold rd. cbn [lx_all]. rewrite H. destruct (lx_all r); reflexivity. Qed.

Lemma sch_tok_SL c r :
  sch_tok (SL c :: r) =
  match r with
  | SStar :: r' =>
    match r' with
    | SQuest :: r'' => option_map (cons (StarL (codes_of c))) (sch_tok r'')
    | _ => option_map (cons (StarG (codes_of c))) (sch_tok r')
    end
  | _ => option_map (cons (Atom (codes_of c))) (sch_tok r)
  end.
Proof. reflexivity. Qed.

Lemma rd_SL c r :
  rd (SL c :: r) =
  match r with
  | SStar :: r' =>
    match r' with
    | SQuest :: r'' => option_map (cons (StarL (codes_of c))) (rd r'')
    | _ => option_map (cons (StarG (codes_of c))) (rd r')
    end
  | _ => option_map (cons (Atom (codes_of c))) (rd r)
  end.
Proof.
  unfold rd. destruct r as [|b r']; [reflexivity|].
  destruct b as [c2| | | | | | |x2]; cbn [lx_all lx]; try reflexivity;
    try (destruct (lx_all r') as [ts|]; reflexivity).
  destruct r' as [|d r'']; [reflexivity|].
  destruct d as [c3| | | | | | |x3]; cbn [lx_all lx]; try reflexivity;
    destruct (lx_all r'') as [ts|]; reflexivity.
Qed.

Lemma sch_tok_rd_len n : forall s, List.length s <= n -> sch_tok s = rd s.
Proof.
  induction n as [|n IH]; intros s Hn.
  - destruct s; [reflexivity|cbn in Hn; lia].
  - destruct s as [|a r]; [reflexivity|]. cbn [List.length] in Hn.
    assert (Hr : sch_tok r = rd r) by (apply IH; lia).
    destruct a as [c| | | | | | |x]; try reflexivity.
    + rewrite sch_tok_SL, rd_SL.
      destruct r as [|b r']; [reflexivity|]. cbn [List.length] in Hn.
      assert (Hr' : sch_tok r' = rd r') by (apply IH; lia).
      destruct b; try (rewrite Hr; reflexivity).
      destruct r' as [|d r'']; [reflexivity|]. cbn [List.length] in Hn.
      assert (Hr'' : sch_tok r'' = rd r'') by (apply IH; lia).
      destruct d; try (rewrite Hr'; reflexivity). rewrite Hr''. reflexivity.
    + change (sch_tok (SOpen :: r)) with (option_map (cons Open) (sch_tok r)). rewrite Hr.
      unfold rd. cbn [lx_all lx]. destruct (lx_all r) as [ts|]; reflexivity.
    + change (sch_tok (SClose :: r)) with (option_map (cons Close) (sch_tok r)). rewrite Hr.
      unfold rd. cbn [lx_all lx]. destruct (lx_all r) as [ts|]; reflexivity.
    + unfold rd. cbn [lx_all lx sch_tok]. destruct (lx_all r) as [ts|]; reflexivity.
    + unfold rd. cbn [lx_all lx sch_tok]. destruct (lx_all r) as [ts|]; reflexivity.
Qed.

Lemma sch_tok_rd s : sch_tok s = rd s.
Proof. apply (sch_tok_rd_len (List.length s)). lia. Qed.

(* ---------- the theorem ---------------------------------------------------------------------------------- *)

(* whatever pattern text sch_tok can read, the text _transcribe produces from it is read by re as
   the same pattern *)
Theorem transcribe_reads s p :
  sch_tok s = Some p ->
  exists t, DNARegex_transcribe tt s = Ok t /\ re_read t = Some p.
Proof.
  intros H. eexists. split; [apply transcribe_text|].
  rewrite sch_tok_rd in H. unfold rd in H.
  destruct (lx_all s) as [ts|] eqn:Hs; [|discriminate].
  cbn [sch_of_string sch_of_ascii app]. unfold re_read.
  change (sch_of_ascii "(") with SOpen. change (sch_of_ascii "?") with SQuest.
  change (sch_of_ascii ")") with SClose. change (sch_of_ascii "i") with (SOther "i").
  cbn [app]. rewrite (lex_all s ts Hs). exact H.
Qed.

(* a letter outside the dict is left as it is; a letter of the dict becomes its class *)
Example transcribe_example :
  DNARegex_transcribe tt (sch_of_string "GGTCTCN(NNNN)(N*?)") =
  Ok (sch_of_string "(?i)GGTCTC[ACGTN]([ACGTN][ACGTN][ACGTN][ACGTN])([ACGTN]*?)").
Proof. vm_compute. reflexivity. Qed.

(* ---------- the compiled text of the generic classes --------------------------------------------------- *)

Theorem module_regex_text c : Forall unamb (esite (cenz c)) ->
  exists t text, AbstractModule_structure c = Ok t /\ DNARegex_transcribe tt t = Ok text /\
    re_read text = Some (module_structure (cenz c)).
Proof.
  intros Hu. destruct (AbstractModule_structure_eq c Hu) as [t [Ht Hp]].
  destruct (transcribe_reads t _ Hp) as [text [Hx Hr]]. exists t, text. auto.
Qed.

Theorem vector_regex_text c : Forall unamb (esite (cenz c)) ->
  exists t text, AbstractVector_structure c = Ok t /\ DNARegex_transcribe tt t = Ok text /\
    re_read text = Some (vector_structure (cenz c)).
Proof.
  intros Hu. destruct (AbstractVector_structure_eq c Hu) as [t [Ht Hp]].
  destruct (transcribe_reads t _ Hp) as [text [Hx Hr]]. exists t, text. auto.
Qed.

Theorem part_regex_text c wu wd :
  Forall unamb (esite (pc_enz c)) -> pc_sig c = (map SL wu, map SL wd) ->
  exists t text, AbstractPart_structure c = Ok t /\ DNARegex_transcribe tt t = Ok text /\
    re_read text = Some (part_structure (pc_role c) (pc_enz c)
                           (map (fun x => Atom (codes_of x)) wu) (map (fun x => Atom (codes_of x)) wd)).
Proof.
  intros Hu Hs. destruct (AbstractPart_structure_eq c wu wd Hu Hs) as [t [Ht Hp]].
  destruct (transcribe_reads t _ Hp) as [text [Hx Hr]]. exists t, text. auto.
Qed.
