(* Regex.v — L1 of the model: the flat pattern language DNARegex._transcribe can
   emit for every structure in the code base, a priority backtracking matcher
   with the semantics of CPython's re on that fragment, DNARegex.search (leftmost
   start, one-turn window on the doubled word) and SeqMatch.group/span.
   Executable definitions only. *)
From MV Require Import Base.

(* a character class is the finite set of target letters it accepts, as data *)
Definition cset := list code.

Definition cmatch (c : cset) (x : code) : bool := existsb (code_eqb x) c.

Inductive item :=
| Atom  (c : cset)        (* one letter of the class; "(?i)": case is ignored *)
| StarG (c : cset)        (* X*  greedy *)
| StarL (c : cset)        (* X*? lazy *)
| Open                    (* ( *)
| Close.                  (* ) *)

Definition pattern := list item.

(* closed groups: (group number, start, end); positions are absolute in data *)
Definition spans := list (nat * nat * nat).
Definition res := (nat * spans)%type.      (* end position of the match, groups *)

(* bt items w avail pos g stack closed:
   w      = text from the current position on,
   avail  = letters the match may still consume (regex.match(data, i, i + n)),
   pos    = absolute position, g = next group number,
   stack  = open groups (number, start), closed = groups closed so far. *)
Fixpoint bt (items : pattern) : list letter -> nat -> nat -> nat ->
     list (nat * nat) -> spans -> option res :=
  match items with
  | [] => fun _ _ pos _ _ cs => Some (pos, cs)
  | Atom c :: r => fun w av pos g st cs =>
      match av, w with
      | S av', x :: w' => if cmatch c (lcode x) then bt r w' av' (S pos) g st cs else None
      | _, _ => None
      end
  | StarG c :: r => fix star w av pos g st cs :=
      match av, w with
      | S av', x :: w' =>
          if cmatch c (lcode x) then
            match star w' av' (S pos) g st cs with
            | Some z => Some z
            | None => bt r w av pos g st cs
            end
          else bt r w av pos g st cs
      | _, _ => bt r w av pos g st cs
      end
  | StarL c :: r => fix star w av pos g st cs :=
      match bt r w av pos g st cs with
      | Some z => Some z
      | None =>
        match av, w with
        | S av', x :: w' => if cmatch c (lcode x) then star w' av' (S pos) g st cs else None
        | _, _ => None
        end
      end
  | Open :: r => fun w av pos g st cs => bt r w av pos (S g) ((g, pos) :: st) cs
  | Close :: r => fun w av pos g st cs =>
      match st with
      | (gi, s0) :: st' => bt r w av pos g st' ((gi, s0, pos) :: cs)
      | [] => None
      end
  end.

(* regex.match(data, i, i + n) with w = data[i:] *)
Definition match_here (items : pattern) (w : list letter) (n i : nat) : option res :=
  bt items w n i 1 [] [].

Record rmatch := M { mstart : nat; mend : nat; mgroups : spans }.

(* regex.py:103-106: for i in range(pos, stop): match anchored at i.
   w is the shared suffix data[i:]; cnt = stop - i. *)
Fixpoint scan (items : pattern) (w : list letter) (n i cnt : nat) : option rmatch :=
  match cnt with
  | 0 => None
  | S c =>
    match match_here items w n i with
    | Some (e, cs) => Some (M i e cs)
    | None => scan items (tl w) n (S i) c
    end
  end.

(* DNARegex.search(string, pos, endpos, linear): circ = not linear or CircularRecord *)
Definition search (items : pattern) (s : list letter) (circ : bool) (pos endpos : nat)
  : option rmatch :=
  let n := length s in
  let data := if circ then s ++ s else s in
  scan items (skipn pos data) n pos (Nat.min n endpos - pos).

(* match.span(g); group 0 is the whole match *)
Fixpoint find_span (g : nat) (cs : spans) : option (nat * nat) :=
  match cs with
  | [] => None
  | (gi, a, b) :: r => if Nat.eqb gi g then Some (a, b) else find_span g r
  end.

Definition span (m : rmatch) (g : nat) : option (nat * nat) :=
  match g with
  | 0 => Some (mstart m, mend m)
  | _ => find_span g (mgroups m)
  end.

(* SeqMatch.group on the sequence (regex.py:41-53, repaired order of concatenation) *)
Definition group_of_span (s : list letter) (sp : nat * nat) : list letter :=
  let n := length s in
  let '(a, b) := sp in
  if (n <=? a) && (a <=? b) then slice s (a mod n) (b mod n)
  else if (n <=? b) && (a <? n) then skipn a s ++ firstn (b mod n) s
  else slice s a b.

(* the pinned order (F1): rec[:end % n] + rec[start:] *)
Definition group_of_span_pinned (s : list letter) (sp : nat * nat) : list letter :=
  let n := length s in
  let '(a, b) := sp in
  if (n <=? a) && (a <=? b) then slice s (a mod n) (b mod n)
  else if (n <=? b) && (a <? n) then firstn (b mod n) s ++ skipn a s
  else slice s a b.

Definition group (m : rmatch) (s : list letter) (g : nat) : option (list letter) :=
  option_map (group_of_span s) (span m g).

(* ---------- specification form of search (used in proofs) ------------- *)

Definition data_of (s : list letter) (circ : bool) := if circ then s ++ s else s.

Definition matches_at (items : pattern) (s : list letter) (circ : bool) (i : nat) : bool :=
  match match_here items (skipn i (data_of s circ)) (length s) i with
  | Some _ => true | None => false end.

(* patterns whose parentheses are balanced: Close never meets an empty stack *)
Fixpoint balanced (items : pattern) (depth : nat) : bool :=
  match items with
  | [] => Nat.eqb depth 0
  | Open :: r => balanced r (S depth)
  | Close :: r => match depth with 0 => false | S d => balanced r d end
  | _ :: r => balanced r depth
  end.
