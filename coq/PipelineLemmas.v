(* PipelineLemmas.v — the assembly of raw records depends on each record only through
   what its typing reports: rotation invariance (C02) and case-blindness (C18) end to end. *)
From MV Require Import Base RotLemmas Regex RegexLemmas Typing TypingLemmas Assembly AssemblyLemmas Pipeline.

Definition obs_eq (x y : cls * list letter) : Prop :=
  fst x = fst y /\ observe (fst x) (snd x) = observe (fst y) (snd y).

Lemma typed_module_obs c i s s' : observe c s = observe c s' -> typed_module c i s = typed_module c i s'.
Proof. unfold observe, typed_module. intros H. inversion H. now rewrite H2, H3, H4. Qed.

Lemma typed_vector_obs c s s' : observe c s = observe c s' -> typed_vector c s = typed_vector c s'.
Proof. unfold observe, typed_vector. intros H. inversion H. now rewrite H2, H3, H4. Qed.

Lemma type_prefix_obs ms ms' : Forall2 obs_eq ms ms' -> forall i, type_prefix ms i = type_prefix ms' i.
Proof.
  induction 1 as [|[c s] [c' s'] ms ms' [Hc Ho] H IH]; intros i; [reflexivity|]. cbn in Hc, Ho. subst c'.
  cbn [type_prefix]. rewrite (typed_module_obs c i s s' Ho).
  destruct (typed_module c i s'); [|reflexivity]. now rewrite IH.
Qed.

Theorem assemble_raw_obs vc v v' ms ms' :
  observe vc v = observe vc v' -> Forall2 obs_eq ms ms' ->
  assemble_raw vc v ms = assemble_raw vc v' ms'.
Proof.
  intros Hv Hms. unfold assemble_raw. rewrite (typed_vector_obs vc v v' Hv).
  now rewrite (type_prefix_obs ms ms' Hms 0).
Qed.

(* C02: any rotation of any of the plasmids leaves the outcome, and the product word,
   unchanged, provided each plasmid has a unique start of its class's structure *)
Definition uniquely_typed (x : cls * list letter) : Prop := exists i0, unique_start (cpat (fst x)) (snd x) i0.

Definition rotated (x y : cls * list letter) : Prop := fst x = fst y /\ exists k, snd y = rotr k (snd x).

Theorem assemble_raw_rot vc v kv ms ms' :
  uniquely_typed (vc, v) -> Forall uniquely_typed ms -> Forall2 rotated ms ms' ->
  assemble_raw vc (rotr kv v) ms' = assemble_raw vc v ms.
Proof.
  intros [iv Hv] Hu Hr. apply assemble_raw_obs.
  - now apply (observe_rot vc v iv kv).
  - revert Hu. induction Hr as [|[c s] [c' s'] ms ms' [Hc [k Hk]] H IH]; intros Hu; constructor.
    + cbn in *. subst c' s'. inversion Hu as [|? ? [i0 H0] _]; subst. split; [reflexivity|]. cbn.
      now apply (observe_rot c s i0 k).
    + apply IH. now inversion Hu.
Qed.

(* C18: re-spelling the letters of the records in another case changes nothing but the
   case of the product's letters *)
Definition recased (x y : cls * list letter) : Prop := fst x = fst y /\ same_codes (snd x) (snd y).

Definition rel_dmod := @rel_mod (list code) same_codes.

Lemma same_codes_refl a : same_codes a a.
Proof. reflexivity. Qed.

Lemma typed_module_case c i s s' : same_codes s s' ->
  match typed_module c i s, typed_module c i s' with
  | Some a, Some b => rel_dmod a b
  | None, None => True
  | _, _ => False
  end.
Proof.
  intros H. pose proof (observe_case c s s' H) as Ho. unfold observe in Ho.
  destruct Ho as (_ & Hu & Hd & Ht & _). unfold typed_module.
  destruct (overhang_start c s true) as [u|], (overhang_start c s' true) as [u'|]; cbn in Hu; try contradiction; [|exact I].
  destruct (overhang_end c s true) as [d|], (overhang_end c s' true) as [d'|]; cbn in Hd; try contradiction; [|exact I].
  destruct (target c s true) as [t|], (target c s' true) as [t'|]; cbn in Ht; try contradiction; [|exact I].
  unfold rel_dmod, rel_mod, okey. cbn. auto.
Qed.

Lemma type_prefix_case ms ms' : Forall2 recased ms ms' -> forall i,
  Forall2 rel_dmod (fst (type_prefix ms i)) (fst (type_prefix ms' i)) /\
  snd (type_prefix ms i) = snd (type_prefix ms' i).
Proof.
  induction 1 as [|[c s] [c' s'] ms ms' [Hc Hs] H IH]; intros i; cbn [type_prefix]; [split; [constructor|reflexivity]|].
  cbn in Hc, Hs. subst c'. pose proof (typed_module_case c i s s' Hs) as Ht.
  destruct (typed_module c i s) as [a|], (typed_module c i s') as [b|]; try contradiction; [|split; [constructor|reflexivity]].
  specialize (IH (S i)). destruct (type_prefix ms (S i)) as [l ok], (type_prefix ms' (S i)) as [l' ok']. cbn in *.
  destruct IH as [IH1 IH2]. split; [now constructor|exact IH2].
Qed.

Theorem assemble_raw_case vc v v' ms ms' :
  same_codes v v' -> Forall2 recased ms ms' ->
  rel_out same_codes (assemble_raw vc v ms) (assemble_raw vc v' ms').
Proof.
  intros Hv Hms. unfold assemble_raw.
  pose proof (observe_case vc v v' Hv) as Ho. unfold observe in Ho. destruct Ho as (_ & Hu & Hd & Ht & _).
  unfold typed_vector.
  destruct (overhang_start vc v true) as [u|], (overhang_start vc v' true) as [u'|]; cbn in Hu; try contradiction; [|exact I].
  destruct (overhang_end vc v true) as [d|], (overhang_end vc v' true) as [d'|]; cbn in Hd; try contradiction; [|exact I].
  destruct (target vc v true) as [t|], (target vc v' true) as [t'|]; cbn in Ht; try contradiction; [|exact I].
  cbn [vup vdown]. unfold okey. rewrite <- Hu, <- Hd.
  destruct (codes_eqb (map lcode u) (map lcode d)); [exact I|].
  destruct (type_prefix_case ms ms' Hms 0) as [Hp Hok].
  destruct (type_prefix ms 0) as [pre ok], (type_prefix ms' 0) as [pre' ok']. cbn in Hp, Hok. subst ok'.
  pose proof (rel_build_map codes_eqb same_codes pre pre' Hp [] [] (Forall2_nil _)) as Hb.
  destruct (build_map codes_eqb pre []) as [mp|[a b]], (build_map codes_eqb pre' []) as [mp'|[a' b']]; try contradiction.
  - destruct ok; [|exact I].
    apply (rel_assemble codes_eqb rc_codes same_codes (same_codes_refl []) same_codes_app); cbn; auto.
  - inversion Hb. split; reflexivity.
Qed.

