(* RegistryLemmas.v — coherence of the three kinds of registries. *)
From Coq Require Import List Bool Arith String Lia.
Import ListNotations.
From MV Require Import Registry.

Section RegLemmas.
  Context {K : Type} (keqb : K -> K -> bool).
  Context (keqb_spec : forall a b, keqb a b = true <-> a = b).

  Lemma keqb_refl a : keqb a a = true.
  Proof. now apply keqb_spec. Qed.

  Lemma keqb_false a b : keqb a b = false <-> a <> b.
  Proof.
    split.
    - intros H E. apply keqb_spec in E. congruence.
    - intros H. destruct (keqb a b) eqn:E; [apply keqb_spec in E; contradiction|reflexivity].
  Qed.

  Lemma find_none_iff {A} (f : A -> bool) l : find f l = None <-> forall x, In x l -> f x = false.
  Proof.
    induction l as [|y l IH]; simpl.
    - split; [intros _ x []|reflexivity].
    - destruct (f y) eqn:E.
      + split; [discriminate|]. intros H. rewrite (H y (or_introl eq_refl)) in E. discriminate.
      + rewrite IH. split.
        * intros H x [<-|Hx]; auto.
        * intros H x Hx. apply H. auto.
  Qed.

  (* ---------- embedded ---------------------------------------------------------- *)

  Theorem emb_coherent (a : list (K * K)) :
    NoDup (map snd a) -> (forall e, In e a -> fst e = snd e) ->
    NoDup (emb_iter a) /\ emb_len a = List.length (emb_iter a) /\
    (forall k, In k (emb_iter a) -> exists e, emb_lookup keqb a k = Some e /\ snd e = k /\ In e a) /\
    (forall k, ~ In k (emb_iter a) -> emb_lookup keqb a k = None).
  Proof.
    intros Hn Hname.
    assert (Hmap : map fst a = map snd a) by (apply map_ext_in; exact Hname).
    unfold emb_iter, emb_len. rewrite Hmap. split; [assumption|]. split; [now rewrite map_length|]. split.
    - intros k Hk. unfold emb_lookup.
      destruct (find (fun e => keqb (snd e) k) (rev a)) as [e|] eqn:E.
      + apply find_some in E. destruct E as [Hin Hk']. apply keqb_spec in Hk'.
        exists e. rewrite <- in_rev in Hin. auto.
      + exfalso. rewrite find_none_iff in E. apply in_map_iff in Hk. destruct Hk as [e [<- He]].
        specialize (E e). rewrite <- in_rev in E. specialize (E He). rewrite keqb_refl in E. discriminate.
    - intros k Hk. unfold emb_lookup. apply find_none_iff. intros e He. rewrite <- in_rev in He.
      apply keqb_false. intros <-. apply Hk. now apply in_map.
  Qed.

  (* ---------- combined ------------------------------------------------------------ *)

  Context {I : Type}.
  Notation assoc := (@assoc K keqb I).
  Notation cadd := (@cadd K keqb I).
  Notation add_registry := (@add_registry K keqb I).
  Notation combine := (@combine K keqb I).
  Notation first_member := (@first_member K keqb I).

  Lemma assoc_app k d e : assoc k (d ++ e) = match assoc k d with Some i => Some i | None => assoc k e end.
  Proof.
    induction d as [|[x i] d IH]; simpl; [reflexivity|]. destruct (keqb x k); auto.
  Qed.

  Lemma assoc_cadd k d e :
    assoc k (cadd d e) = match assoc k d with Some i => Some i | None => if keqb (fst e) k then Some (snd e) else None end.
  Proof.
    unfold cadd. destruct (assoc (fst e) d) as [j|] eqn:E.
    - destruct (assoc k d) eqn:Ek; [reflexivity|].
      destruct (keqb (fst e) k) eqn:Ee; [|reflexivity]. apply keqb_spec in Ee. congruence.
    - rewrite assoc_app. destruct (assoc k d); [reflexivity|]. destruct e as [x i]. simpl.
      destruct (keqb x k); reflexivity.
  Qed.

  Lemma assoc_add_registry k r : forall d,
    assoc k (add_registry d r) = match assoc k d with Some i => Some i | None => assoc k r end.
  Proof.
    unfold add_registry. induction r as [|e r IH]; intros d; simpl.
    - now destruct (assoc k d).
    - rewrite IH, assoc_cadd. destruct (assoc k d); [reflexivity|].
      destruct e as [x i]. simpl. destruct (keqb x k); reflexivity.
  Qed.

  Lemma assoc_fold k regs : forall d,
    assoc k (fold_left add_registry regs d) = match assoc k d with Some i => Some i | None => first_member k regs end.
  Proof.
    induction regs as [|r t IH]; intros d; simpl.
    - now destruct (assoc k d).
    - rewrite IH, assoc_add_registry. destruct (assoc k d); [reflexivity|]. now destruct (assoc k r).
  Qed.

  (* looking a key up in a combination gives the item of the first member that has it *)
  Theorem combine_first_wins regs k : assoc k (combine regs) = first_member k regs.
  Proof. unfold combine. now rewrite assoc_fold. Qed.

  Definition keys (d : list (K * I)) : list K := map fst d.

  Lemma assoc_in k d : (exists i, assoc k d = Some i) <-> In k (keys d).
  Proof.
    induction d as [|[x i] d IH]; simpl.
    - split; [intros [i H]; discriminate|tauto].
    - destruct (keqb x k) eqn:E.
      + apply keqb_spec in E. subst. split; [auto|]. intros _. eauto.
      + apply keqb_false in E. rewrite IH. split; [auto|]. intros [H|H]; [contradiction|assumption].
  Qed.

  (* the key set is the union of the members' key sets *)
  Theorem combine_keys regs k : In k (keys (combine regs)) <-> exists r, In r regs /\ In k (keys r).
  Proof.
    rewrite <- assoc_in, combine_first_wins. induction regs as [|r t IH]; simpl.
    - split; [intros [i H]; discriminate|intros [r [[] _]]].
    - destruct (assoc k r) as [i|] eqn:E.
      + split; [|eauto]. intros _. exists r. split; [auto|]. apply assoc_in. eauto.
      + rewrite IH. split.
        * intros [r' [Hr Hk]]. exists r'. auto.
        * intros [r' [[<-|Hr] Hk]].
          -- apply assoc_in in Hk. destruct Hk as [i Hi]. congruence.
          -- exists r'. auto.
  Qed.

  Lemma cadd_nodup d e : NoDup (keys d) -> NoDup (keys (cadd d e)).
  Proof.
    intros Hn. unfold cadd. destruct (assoc (fst e) d) as [j|] eqn:E; [assumption|].
    unfold keys. rewrite map_app. simpl.
    apply NoDup_rev in Hn. rewrite <- (rev_involutive (map fst d ++ [fst e])). apply NoDup_rev.
    rewrite rev_app_distr. simpl. constructor; [|assumption].
    rewrite <- in_rev. intros Hin. apply assoc_in in Hin. destruct Hin as [i Hi]. congruence.
  Qed.

  (* iteration yields each key once *)
  Theorem combine_nodup regs : NoDup (keys (combine regs)).
  Proof.
    unfold combine.
    assert (H : forall d, NoDup (keys d) -> NoDup (keys (fold_left add_registry regs d))).
    { induction regs as [|r t IH]; intros d Hd; simpl; [assumption|]. apply IH.
      unfold add_registry. revert d Hd. induction r as [|e r IHr]; intros d Hd; simpl; [assumption|].
      apply IHr. now apply cadd_nodup. }
    apply H. constructor.
  Qed.

  (* ---------- filesystem ------------------------------------------------------------ *)

  Context {N : Type} (stem : N -> K) (matches : N -> bool).

  Theorem fs_coherent (l : list (N * bool)) :
    NoDup (fs_iter stem matches l) ->
    fs_len matches l = List.length (fs_iter stem matches l) /\
    (forall k, In k (fs_iter stem matches l) ->
       exists n, fs_lookup keqb stem matches l k = Some n /\ stem n = k /\ In (n, true) l /\ matches n = true) /\
    (forall k, ~ In k (fs_iter stem matches l) -> fs_lookup keqb stem matches l k = None).
  Proof.
    intros Hn. unfold fs_len, fs_iter, fs_lookup. split; [now rewrite map_length|]. split.
    - intros k Hk.
      destruct (find (fun n => keqb (stem n) k) (fs_files matches l)) as [n|] eqn:E.
      + apply find_some in E. destruct E as [Hin Hk']. apply keqb_spec in Hk'.
        exists n. repeat split; auto.
        * unfold fs_files in Hin. apply in_map_iff in Hin. destruct Hin as [[n' b] [<- Hf]].
          apply filter_In in Hf. destruct Hf as [Hl Hb]. simpl in *.
          apply andb_prop in Hb. destruct Hb as [-> _]. assumption.
        * unfold fs_files in Hin. apply in_map_iff in Hin. destruct Hin as [[n' b] [<- Hf]].
          apply filter_In in Hf. destruct Hf as [_ Hb]. simpl in *. now apply andb_prop in Hb.
      + exfalso. rewrite find_none_iff in E. apply in_map_iff in Hk. destruct Hk as [n [<- Hin]].
        specialize (E n Hin). rewrite keqb_refl in E. discriminate.
    - intros k Hk. apply find_none_iff. intros n Hin. apply keqb_false. intros <-.
      apply Hk. now apply in_map.
  Qed.

  (* sub-directories and files that match no pattern contribute nothing *)
  Theorem fs_ignores (l : list (N * bool)) n b :
    In n (fs_files matches l) -> In (n, b) l -> NoDup (map fst l) -> b = true /\ matches n = true.
  Proof.
    intros Hin Hl Hn. unfold fs_files in Hin. apply in_map_iff in Hin. destruct Hin as [[n' b'] [E Hf]].
    simpl in E. subst n'. apply filter_In in Hf. destruct Hf as [Hl' Hb]. simpl in Hb.
    apply andb_prop in Hb. destruct Hb as [Hb' Hm]. subst b'.
    assert (b = true); [|auto].
    clear -Hl Hl' Hn. induction l as [|[x y] l IH]; simpl in *; [contradiction|].
    inversion Hn as [|? ? Hnin Hn']; subst.
    destruct Hl as [E|Hl], Hl' as [E'|Hl'].
    - congruence.
    - inversion E; subst. exfalso. apply Hnin. change n with (fst (n, true)). now apply in_map.
    - inversion E'; subst. exfalso. apply Hnin. change n with (fst (n, b)). now apply in_map.
    - auto.
  Qed.
End RegLemmas.
