(* KitLookup.v — access to the generated kit table by class name (used by case files). *)
From MV Require Import Base Regex Typing.
From MV.Gen Require Import Kits.
From Coq Require Import String.

(* a class that accepts nothing: the answer for a name the table does not have *)
Definition dummy_cls : cls := C RModule (E [] 0 0) [Atom []].

Definition find_kit (n : string) : option kitcls :=
  find (fun k => String.eqb (kname k) n) kits.

Definition kit_cls (n : string) : cls :=
  match find_kit n with Some k => kcls k | None => dummy_cls end.
